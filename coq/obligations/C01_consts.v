(* C01: constants of the state-commitment model vs the source (regenerated G.Consts). *)
From Coq Require Import ZArith NArith.
From G Require Import Consts.
From V Require Import C01.State.
Lemma C01_consts_ok :
  leaf_version = deprecatedstate_leafVersion /\ leaf_version = state_leafVersion0 /\
  state_version = deprecatedstate_stateVersion /\ state_version = state_stateVersion0 /\
  Z.of_nat H = deprecatedstate_globalTrieHeight /\ Z.of_nat H = deprecatedstate_ContractStorageTrieHeight /\
  Z.of_nat H = trie2_contractClassTrieHeight.
Proof. repeat split; reflexivity. Qed.
