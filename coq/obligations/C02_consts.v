(* C02: hash-domain constants (short strings) and the commitment trie height vs the source. *)
From Coq Require Import ZArith NArith.
From G Require Import Consts.
From V Require Import C02.Model.
Lemma C02_consts_ok :
  c_invoke = core_invokeFelt /\ c_declare = core_declareFelt /\ c_l1_handler = core_l1HandlerFelt /\
  c_deploy_account = core_deployAccountFelt /\ c_block_hash0 = core_starknetBlockHash0 /\
  c_block_hash1 = core_starknetBlockHash1 /\ c_gas_prices0 = core_starknetGasPrices0 /\
  c_state_diff0 = core_starknetStateDiff0 /\ Z.of_nat CH = core_commitmentTrieHeight /\
  c_contract_class_v = core_contractClassVersionPrefix.
Proof. repeat split; reflexivity. Qed.
