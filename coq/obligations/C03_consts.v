(* C03: what the state-history model takes from the source by hand, REGENERATED on every run (harness/cmd/genconsts):
   - the system contracts (core/state/state.go SystemContracts = {felt.One, felt.FromUint64(2)}, class hash felt.Zero;
     kinds felt / feltlist): the model's [sys_addrs] and the class hash 0 of [sys_new];
   - the buckets of db/buckets.go (iota enumeration evaluated): the model keeps the head buckets and the six history
     logs in separate maps, which is right only if their prefixes are pairwise different bytes;
   - the key layouts of db/schema.go (kind keylayout: bucket + the parts handed to Bucket.Key, each part a 32-byte
     big-endian felt or an 8-byte big-endian uint64): Model.v lines 3-4 read a key as the list of numbers
     [address; slot; block] compared lexicographically - true because every part is fixed-width big endian and the
     parts come in exactly that order; the prefix a history iterator scans is the same key without the block. *)
From Coq Require Import ZArith NArith Lia List Bool.
From G Require Import Consts.
From V Require Import C03.Model.
Import ListNotations.

(* ---- system contracts ---- *)
Lemma C03_system_contracts_regenerated :
  map Z.of_N sys_addrs = state_SystemContracts /\
  state_SystemContracts = [state_SystemContract1Address; state_SystemContract2Address] /\
  (forall a, is_sys a = existsb (Z.eqb (Z.of_N a)) state_SystemContracts) /\
  (forall cls d, map snd (sys_new cls d) = map (fun _ => Z.to_N state_SystemContractsClassHash) (sys_missing cls d)).
Proof.
  split; [reflexivity|]. split; [reflexivity|]. split.
  - intro a. unfold is_sys, mem, sys_addrs, state_SystemContracts. cbn [existsb]. rewrite !orb_false_r. f_equal.
    + destruct (N.eqb_spec 1 a); destruct (Z.eqb_spec (Z.of_N a) 1); try reflexivity; lia.
    + destruct (N.eqb_spec 2 a); destruct (Z.eqb_spec (Z.of_N a) 2); try reflexivity; lia.
  - intros. unfold sys_new. rewrite map_map. reflexivity.
Qed.

(* ---- buckets: the eight head / declaration buckets and the six history logs of the model ---- *)
Definition state_buckets : list Z :=
  [db_ContractClassHash; db_ContractNonce; db_ContractDeploymentHeight; db_ContractStorage; db_Contract; db_Class;
   db_ClassCasmHashMetadata; db_ChainHeight;
   db_ContractStorageHistory; db_ContractNonceHistory; db_ContractClassHashHistory;
   db_DeprecatedContractStorageHistory; db_DeprecatedContractNonceHistory; db_DeprecatedContractClassHashHistory].

Lemma C03_buckets_distinct :
  NoDup state_buckets /\ Forall (fun b => (0 <= b < 256)%Z) state_buckets /\
  NoDup db_innerBucket_values /\ NoDup db_Bucket_values.
Proof.
  split; [apply z_nodupb_sound; vm_compute; reflexivity|]. split.
  - apply Forall_forall. intros b Hb.
    assert (H : forallb (fun b => (0 <=? b)%Z && (b <? 256)%Z) state_buckets = true) by (vm_compute; reflexivity).
    rewrite forallb_forall in H. specialize (H b Hb). lia.
  - split; apply z_nodupb_sound; vm_compute; reflexivity.
Qed.

(* ---- key layouts ---- *)
Definition FELT (i : Z) : Z * Z := (1, i)%Z.    (* parameter i, felt.Marshal: 32 bytes big endian *)
Definition BE64 (i : Z) : Z * Z := (2, i)%Z.    (* parameter i, uint64 big endian: 8 bytes *)
Definition fixed_width (parts : list (Z * Z)) : Prop := Forall (fun p => fst p = 1%Z \/ fst p = 2%Z) parts.

(* s_lstore [a;k;b], s_lnonce [a;b], s_lclass [a;b] - both backends; the iterator prefix is the key without b *)
Lemma C03_history_key_layouts :
  db_ContractStorageHistoryAtBlockKey = (db_ContractStorageHistory, [FELT 0; FELT 1; BE64 2]) /\
  db_ContractNonceHistoryAtBlockKey = (db_ContractNonceHistory, [FELT 0; BE64 1]) /\
  db_ContractClassHashHistoryAtBlockKey = (db_ContractClassHashHistory, [FELT 0; BE64 1]) /\
  db_DeprecatedContractStorageHistoryAtBlockKey = (db_DeprecatedContractStorageHistory, [FELT 0; FELT 1; BE64 2]) /\
  db_DeprecatedContractNonceHistoryAtBlockKey = (db_DeprecatedContractNonceHistory, [FELT 0; BE64 1]) /\
  db_DeprecatedContractClassHashHistoryAtBlockKey = (db_DeprecatedContractClassHashHistory, [FELT 0; BE64 1]).
Proof. repeat split; reflexivity. Qed.

Definition is_scan_prefix (pre full : Z * list (Z * Z)) : Prop :=
  fst pre = fst full /\ exists n, snd full = snd pre ++ [BE64 n].

Lemma C03_history_prefixes :
  is_scan_prefix db_ContractStorageHistoryKey db_ContractStorageHistoryAtBlockKey /\
  is_scan_prefix db_ContractNonceHistoryKey db_ContractNonceHistoryAtBlockKey /\
  is_scan_prefix db_ContractClassHashHistoryKey db_ContractClassHashHistoryAtBlockKey /\
  is_scan_prefix db_DeprecatedContractStorageHistoryKey db_DeprecatedContractStorageHistoryAtBlockKey /\
  is_scan_prefix db_DeprecatedContractNonceHistoryKey db_DeprecatedContractNonceHistoryAtBlockKey /\
  is_scan_prefix db_DeprecatedContractClassHashHistoryKey db_DeprecatedContractClassHashHistoryAtBlockKey.
Proof.
  repeat split; try reflexivity; (exists 2%Z; reflexivity) || (exists 1%Z; reflexivity).
Qed.

(* head buckets: s_class [a], s_nonce [a], s_dh [a], the new backend's contract record [a]; s_store [a;k] with the
   slot as the LAST part (the only variable-width part the schema allows) *)
Lemma C03_head_key_layouts :
  db_ContractClassHashKey = (db_ContractClassHash, [FELT 0]) /\
  db_ContractNonceKey = (db_ContractNonce, [FELT 0]) /\
  db_ContractDeploymentHeightKey = (db_ContractDeploymentHeight, [FELT 0]) /\
  db_ContractKey = (db_Contract, [FELT 0]) /\
  db_ContractStorageKey = (db_ContractStorage, [FELT 0; (0, 1)%Z]).
Proof. repeat split; reflexivity. Qed.

Lemma C03_history_keys_fixed_width :
  fixed_width (snd db_ContractStorageHistoryAtBlockKey) /\ fixed_width (snd db_ContractNonceHistoryAtBlockKey) /\
  fixed_width (snd db_ContractClassHashHistoryAtBlockKey) /\
  fixed_width (snd db_DeprecatedContractStorageHistoryAtBlockKey) /\
  fixed_width (snd db_DeprecatedContractNonceHistoryAtBlockKey) /\
  fixed_width (snd db_DeprecatedContractClassHashHistoryAtBlockKey).
Proof.
  repeat split; unfold fixed_width; cbn [snd];
    repeat (apply Forall_cons; [cbn; ((left; reflexivity) || (right; reflexivity))|]); apply Forall_nil.
Qed.

Lemma C03_consts_ok :
  map Z.of_N sys_addrs = state_SystemContracts /\ state_SystemContractsClassHash = 0%Z /\ NoDup state_buckets /\
  db_ContractStorageHistoryAtBlockKey = (db_ContractStorageHistory, [FELT 0; FELT 1; BE64 2]) /\
  db_DeprecatedContractStorageHistoryAtBlockKey = (db_DeprecatedContractStorageHistory, [FELT 0; FELT 1; BE64 2]).
Proof.
  split; [reflexivity|]. split; [reflexivity|]. split; [exact (proj1 C03_buckets_distinct)|]. split; reflexivity.
Qed.
Print Assumptions C03_consts_ok.
