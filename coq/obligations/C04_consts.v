(* C04: what the Store / RevertHead model takes from the source by hand, REGENERATED on every run
   (harness/cmd/genconsts): the model keeps ten index families in ten separate sorted maps ("one sorted bucket each,
   keys as in C03") and reverts them independently. That is right only if
   - the buckets those families live in (db/buckets.go, iota enumeration evaluated) are pairwise different single
     bytes - also different from every state / history bucket of C03, which the same revert touches;
   - the keys are what the model says (db/schema.go, kind keylayout): [n] = the block number as 8 bytes big endian
     for headers, state updates and commitments, [hash] = a felt for the hash -> number index, [msg] = the raw
     message hash for the L1 handler index;
   - the system contracts the revert purges are the source's two (shared with C03). *)
From Coq Require Import ZArith NArith Lia List Bool.
From G Require Import Consts.
From V Require Import C03.Model C04.Model.
Import ListNotations.

(* n_hdr n_num n_txs n_txidx n_l1 n_upd n_commit n_casm n_filter + chain height, then n_st's buckets *)
Definition block_buckets : list Z :=
  [db_BlockHeadersByNumber; db_BlockHeaderNumbersByHash; db_BlockTransactions;
   db_TransactionBlockNumbersAndIndicesByHash; db_L1HandlerTxnHashByMsgHash; db_StateUpdatesByBlockNumber;
   db_BlockCommitments; db_ClassCasmHashMetadata; db_RunningEventFilter; db_AggregatedBloomFilters; db_ChainHeight; db_L1Height].
Definition state_buckets : list Z :=
  [db_ContractClassHash; db_ContractNonce; db_ContractDeploymentHeight; db_ContractStorage; db_Contract; db_Class;
   db_ContractStorageHistory; db_ContractNonceHistory; db_ContractClassHashHistory;
   db_DeprecatedContractStorageHistory; db_DeprecatedContractNonceHistory; db_DeprecatedContractClassHashHistory].

Lemma C04_buckets_distinct :
  NoDup (block_buckets ++ state_buckets) /\ Forall (fun b => (0 <= b < 256)%Z) (block_buckets ++ state_buckets).
Proof.
  split; [apply z_nodupb_sound; vm_compute; reflexivity|].
  apply Forall_forall. intros b Hb.
  assert (H : forallb (fun b => (0 <=? b)%Z && (b <? 256)%Z) (block_buckets ++ state_buckets) = true) by (vm_compute; reflexivity).
  rewrite forallb_forall in H. specialize (H b Hb). lia.
Qed.

Definition FELT (i : Z) : Z * Z := (1, i)%Z.
Definition BE64 (i : Z) : Z * Z := (2, i)%Z.
Definition RAW (i : Z) : Z * Z := (0, i)%Z.

Lemma C04_key_layouts :
  db_BlockHeaderByNumberKey = (db_BlockHeadersByNumber, [BE64 0]) /\
  db_BlockHeaderNumbersByHashKey = (db_BlockHeaderNumbersByHash, [FELT 0]) /\
  db_StateUpdateByBlockNumKey = (db_StateUpdatesByBlockNumber, [BE64 0]) /\
  db_BlockCommitmentsKey = (db_BlockCommitments, [BE64 0]) /\
  db_L1HandlerTxnHashByMsgHashKey = (db_L1HandlerTxnHashByMsgHash, [RAW 0]).
Proof. repeat split; reflexivity. Qed.

Lemma C04_consts_ok :
  NoDup (block_buckets ++ state_buckets) /\
  map Z.of_N sys_addrs = state_SystemContracts /\ state_SystemContractsClassHash = 0%Z /\
  db_BlockHeaderByNumberKey = (db_BlockHeadersByNumber, [BE64 0]) /\
  db_BlockHeaderNumbersByHashKey = (db_BlockHeaderNumbersByHash, [FELT 0]).
Proof. split; [exact (proj1 C04_buckets_distinct)|]. repeat split; reflexivity. Qed.
Print Assumptions C04_consts_ok.
