From Coq Require Import ZArith NArith.
From G Require Import Consts.
From V Require Import C05.Model.
Lemma C05_consts_ok : Z.of_N block_hash_lag = core_BlockHashLag.
Proof. reflexivity. Qed.
