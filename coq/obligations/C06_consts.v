(* C06: the uint64 arithmetic and the comparisons of sync/sync.go isReverting / storeTask that the model transcribes
   are REGENERATED from the Go source on every run (harness/cmd/genconsts, kind zfunc): `return remoteHeight - 1,
   true`, `s.revertTask(ctx, block.Number-2, ..)`, the fast exit `localHeight+1 != nextHeight`, `remoteHeight >
   localHeight`, and the clamp `if remoteHeight < localHeight { localHeight = remoteHeight }`.
   - wsub1 / wsub2 (the wrap-around the property is about) equal the regenerated expressions for every uint64;
   - the model's ReorgCheck / StoreParentMismatch steps are shown to be built from exactly these pieces. *)
From Coq Require Import ZArith NArith Lia List Bool.
From G Require Import Consts.
From V Require Import C06.Model.
Import ListNotations.
Notation zN := Z.of_N.

Lemma wsub1_eq : forall n, (n < W64)%N -> sync_isReverting_target (zN n) = zN (wsub1 n).
Proof.
  unfold W64, sync_isReverting_target, wsub1. intros n H.
  destruct (N.eqb_spec n 0) as [->|Hn]; [reflexivity|]. rewrite Z.mod_small by lia. lia.
Qed.

Lemma wsub2_eq : forall n, (n < W64)%N -> sync_storeTask_revert_target (zN n) = zN (wsub2 n).
Proof.
  unfold W64, sync_storeTask_revert_target, wsub2. intros n H.
  destruct (N.eqb_spec n 0) as [->|Hn]; [reflexivity|].
  destruct (N.eqb_spec n 1) as [->|Hn1]; [reflexivity|]. rewrite Z.mod_small by lia. lia.
Qed.

Lemma fast_exit_eq : forall l h, (l + 1 < W64)%N ->
  sync_isReverting_fast_exit (zN l) (zN h) = negb (l + 1 =? h)%N.
Proof.
  unfold W64, sync_isReverting_fast_exit. intros l h H. rewrite Z.mod_small by lia. f_equal.
  destruct (N.eqb_spec (l + 1) h); destruct (Z.eqb_spec (zN l + 1) (zN h)); try reflexivity; lia.
Qed.

Lemma ahead_eq : forall r l, sync_isReverting_remote_ahead (zN r) (zN l) = (l <? r)%N.
Proof.
  intros. unfold sync_isReverting_remote_ahead.
  destruct (N.ltb_spec l r); destruct (Z.ltb_spec (zN l) (zN r)); try reflexivity; lia.
Qed.

(* the height at which the local header is read: min(remote, local) *)
Definition compare_at (r l : N) : N :=
  Z.to_N (if sync_isReverting_remote_behind (zN r) (zN l) then sync_isReverting_compare_at (zN r) else zN l).
Lemma compare_at_min : forall r l, compare_at r l = N.min r l.
Proof.
  intros. unfold compare_at, sync_isReverting_remote_behind, sync_isReverting_compare_at. cbv zeta.
  destruct (Z.ltb_spec (zN r) (zN l)); rewrite N2Z.id; lia.
Qed.

(* isReverting past the fast exit: the model's ReorgCheck step, written with the regenerated pieces *)
Theorem C06_reorg_check_regenerated : forall s h hd rest hdr g,
  loc s = hd :: rest -> lat s = Some (hdr, g) -> (num hd + 1 < W64)%N -> (num hdr < W64)%N ->
  step s (ReorgCheck h) =
    if sync_isReverting_fast_exit (zN (num hd)) (zN h) || negb (is_idle (rv s)) then None
    else if sync_isReverting_remote_ahead (zN (num hdr)) (zN (num hd)) then Some (set_lat s None)
    else match at_num (loc s) (compare_at (num hdr) (num hd)) with
         | None => Some (set_lat s None)
         | Some a =>
             if (bid a =? bid hdr)%N then Some (set_lat s None)
             else Some (set_lat (set_rv s (RRun (Z.to_N (sync_isReverting_target (zN (num hdr)))) None
                                               (EvLatest hdr g) true)) None)
         end.
Proof.
  intros s h hd rest hdr g Hl Hlat H1 H2. cbn [step]. rewrite Hl, Hlat, <- Hl.
  rewrite fast_exit_eq, ahead_eq, wsub1_eq, N2Z.id, compare_at_min by assumption.
  destruct (negb (num hd + 1 =? h)%N || negb (is_idle (rv s))); [reflexivity|].
  destruct (N.ltb_spec (num hd) (num hdr)); [reflexivity|].
  now rewrite N.min_l by assumption.
Qed.

(* storeTask on ErrParentDoesNotMatchHead: revertTask(block.Number - 2) *)
Theorem C06_parent_mismatch_regenerated : forall s b, (num b < W64)%N ->
  step s (StoreParentMismatch b) =
    if negb (canc s) && is_idle (rv s) && obox_empty s && memb b (pend s) && mismatchb (loc s) b
    then Some (set_rv s (RRun (Z.to_N (sync_storeTask_revert_target (zN (num b)))) None (EvSucc (gen b)) true))
    else None.
Proof. intros s b H. cbn [step]. now rewrite wsub2_eq, N2Z.id. Qed.

Lemma C06_consts_ok :
  (forall n, (n < W64)%N -> sync_isReverting_target (zN n) = zN (wsub1 n)) /\
  (forall n, (n < W64)%N -> sync_storeTask_revert_target (zN n) = zN (wsub2 n)) /\
  Z.of_N W64 = 18446744073709551616%Z.
Proof. repeat split; [exact wsub1_eq|exact wsub2_eq]. Qed.
Print Assumptions C06_reorg_check_regenerated.
