(* C07: the CBOR decoder limits of the codec model vs /repo/encoder/encoder.go (regenerated G.Consts). *)
From Coq Require Import ZArith NArith.
From G Require Import Consts.
From V Require Import C07.Cbor.
Lemma C07_consts_ok :
  Z.of_N max_array_elements = encoder_MaxArrayElements /\ Z.of_N max_map_pairs = encoder_MaxMapPairs.
Proof. split; reflexivity. Qed.
