(* C08: what the RPC model takes from the source by hand, REGENERATED on every run (harness/cmd/genconsts):
   - the l1_accepted clamp: the result expression of rpc/v9 and rpc/v10 helpers.go l1AcceptedBlockNumber
     (`return min(l1Head.BlockNumber, height), nil`, kind zfunc) is the model's [l1_accepted_number];
   - the error answers: the model keeps BlockNotFound / TxnHashNotFound / ContractNotFound / InvalidTxnIndex /
     ClassHashNotFound / NoBlocks / InvalidParams / Internal apart as constructors and the correspondence run maps the
     JSON-RPC codes 24 / 29 / 20 / 27 / 28 / 32 / -32602 / -32603 to them; the `Code:` fields of the rpccore error
     variables and the jsonrpc constants are regenerated and shown to be exactly these, pairwise different numbers. *)
From Coq Require Import ZArith NArith Lia List Bool.
From G Require Import Consts.
From V Require Import C08.Model.
Import ListNotations.
Notation zN := Z.of_N.

Lemma min_eq : forall m h, rpcv10_l1AcceptedBlockNumber (zN m) (zN h) = zN (N.min m h) /\
                           rpcv9_l1AcceptedBlockNumber (zN m) (zN h) = zN (N.min m h).
Proof. intros. unfold rpcv10_l1AcceptedBlockNumber, rpcv9_l1AcceptedBlockNumber. now rewrite N2Z.inj_min. Qed.

Theorem C08_l1_accepted_regenerated : forall d : db,
  l1_accepted_number d =
    match db_l1 d, db_height d with
    | Some m, Some h => Some (Z.to_N (rpcv10_l1AcceptedBlockNumber (zN m) (zN h)))
    | _, _ => None
    end /\
  l1_accepted_number d =
    match db_l1 d, db_height d with
    | Some m, Some h => Some (Z.to_N (rpcv9_l1AcceptedBlockNumber (zN m) (zN h)))
    | _, _ => None
    end.
Proof.
  intro d. unfold l1_accepted_number.
  destruct (db_l1 d) as [m|]; [|split; reflexivity]. destruct (db_height d) as [h|]; [|split; reflexivity].
  destruct (min_eq m h) as [E1 E2]. rewrite E1, E2, N2Z.id. split; reflexivity.
Qed.

(* the code the real server puts on the wire for each error answer of the model *)
Definition code_of (e : err) : Z :=
  match e with
  | BlockNotFound => rpccore_ErrBlockNotFound_Code
  | TxnHashNotFound => rpccore_ErrTxnHashNotFound_Code
  | ContractNotFound => rpccore_ErrContractNotFound_Code
  | InvalidTxnIndex => rpccore_ErrInvalidTxIndex_Code
  | ClassHashNotFound => rpccore_ErrClassHashNotFound_Code
  | NoBlocks => rpccore_ErrNoBlock_Code
  | InvalidParams => jsonrpc_InvalidParams
  | Internal => rpccore_ErrInternal_Code
  end.

(* the Starknet JSON-RPC specification's numbers (and harness/cmd/c08/rpcio.go errName) *)
Definition spec_code (e : err) : Z :=
  match e with
  | BlockNotFound => 24 | TxnHashNotFound => 29 | ContractNotFound => 20 | InvalidTxnIndex => 27
  | ClassHashNotFound => 28 | NoBlocks => 32 | InvalidParams => -32602 | Internal => -32603
  end%Z.

Lemma C08_error_codes_regenerated : forall e, code_of e = spec_code e.
Proof. destruct e; reflexivity. Qed.

Lemma C08_error_codes_distinct : forall a b, code_of a = code_of b -> a = b.
Proof. destruct a, b; intro H; try reflexivity; vm_compute in H; discriminate. Qed.

Lemma C08_consts_ok :
  (forall e, code_of e = spec_code e) /\ (forall a b, code_of a = code_of b -> a = b) /\
  rpccore_ErrInternal_Code = jsonrpc_InternalError /\
  (forall m h, rpcv10_l1AcceptedBlockNumber (zN m) (zN h) = zN (N.min m h)).
Proof.
  split; [exact C08_error_codes_regenerated|]. split; [exact C08_error_codes_distinct|].
  split; [reflexivity|intros; apply min_eq].
Qed.
Print Assumptions C08_l1_accepted_regenerated.
