(* C09: the window arithmetic of the event index is REGENERATED from the Go source on every run
   (harness/cmd/genconsts): core.NumBlocksPerFilter / MaxBlockOffsetPerFilter, blockchain.PreConfirmedFilterSentinel
   as constants; from blockchain/aggregated_bloom_filter_cache.go (kind zfunc, uint64 wrap written out) the aligned
   start of the first window (NewMatchedBlockIterator), the offset of the first block inside it, `fromAligned`,
   `toAligned`, the start of the following window and the two termination tests (loadNextWindow, `done:`).
   The model is parametric in W; instantiated with the regenerated W it is shown that [aligned], [w_to], one step of
   [walk] and the start of [walk_blocks] are exactly these expressions, for all block numbers below 2^64 - W. *)
From Coq Require Import ZArith NArith Lia List Bool.
From G Require Import Consts.
From V Require Import C09.Model.
Import ListNotations.
Notation zN := Z.of_N.
Definition Wn : N := Z.to_N core_NumBlocksPerFilter.
Definition M64 : N := 18446744073709551616.

Lemma W_pos : (0 < Wn)%N. Proof. reflexivity. Qed.
Lemma W_small : (Wn < M64)%N. Proof. reflexivity. Qed.
Lemma W_val : zN Wn = 8192%Z. Proof. reflexivity. Qed.

Lemma aligned_z : forall n, zN (aligned Wn n) = (zN n - zN n mod 8192)%Z.
Proof.
  intro n. unfold aligned. pose proof (N.mod_le n Wn) as H.
  rewrite N2Z.inj_sub, N2Z.inj_mod, W_val by (apply H; discriminate). reflexivity.
Qed.

Lemma aligned_le : forall n, (aligned Wn n <= n)%N.
Proof. intro. unfold aligned. apply N.le_sub_l. Qed.

Lemma window_start_eq : forall n, (n < M64)%N -> blockchain_windowStart (zN n) = zN (aligned Wn n).
Proof.
  unfold M64. intros n H. unfold blockchain_windowStart. cbv zeta. rewrite aligned_z.
  pose proof (aligned_le n). rewrite <- aligned_z. rewrite Z.mod_small; lia.
Qed.

Lemma from_aligned_eq : forall n, (n < M64)%N -> blockchain_fromAligned (zN n) = zN (aligned Wn n).
Proof. exact window_start_eq. Qed.

Lemma first_index_eq : forall n, blockchain_firstIndex (zN n) = zN (n mod Wn).
Proof. intro n. unfold blockchain_firstIndex. cbv zeta. now rewrite N2Z.inj_mod, W_val. Qed.

Lemma aligned_plus_index : forall n, (aligned Wn n + n mod Wn = n)%N.
Proof.
  intro n. unfold aligned. assert (n mod Wn <= n)%N by (apply N.mod_le; discriminate).
  generalize dependent (n mod Wn)%N. intros. lia.
Qed.

Lemma to_aligned_eq : forall f, (f + Wn < M64)%N -> blockchain_toAligned (zN f) = zN (f + Wn - 1).
Proof.
  unfold M64. intros f H. pose proof W_val. unfold blockchain_toAligned. cbv zeta.
  rewrite (Z.mod_small (zN f + 8192)), Z.mod_small by lia. lia.
Qed.

Lemma next_window_eq : forall ws, (ws + Wn < M64)%N -> blockchain_nextWindowStart (zN ws) = zN (ws + Wn).
Proof.
  unfold M64. intros ws H. pose proof W_val. unfold blockchain_nextWindowStart. cbv zeta. rewrite Z.mod_small; lia.
Qed.

Lemma past_range_eq : forall ws to, blockchain_pastRange (zN ws) (zN to) = (to <? ws)%N.
Proof.
  intros. unfold blockchain_pastRange. destruct (N.ltb_spec to ws); destruct (Z.ltb_spec (zN to) (zN ws)); try reflexivity; lia.
Qed.

Lemma iter_done_eq : forall from to, blockchain_iter_done (zN from) (zN to) = (to <? from)%N.
Proof.
  intros. unfold blockchain_iter_done. destruct (N.ltb_spec to from); destruct (Z.ltb_spec (zN to) (zN from)); try reflexivity; lia.
Qed.

(* w_to of a window = fromBlock + MaxBlockOffsetPerFilter *)
Lemma w_to_eq : forall w, zN (w_to Wn w) = (zN (w_from w) + core_MaxBlockOffsetPerFilter)%Z.
Proof. intro w. unfold w_to. pose proof W_val. change core_MaxBlockOffsetPerFilter with 8191%Z. lia. Qed.

(* one step of the iterator's walk over an aligned window start *)
Theorem C09_walk_step_regenerated : forall fuel ws lo to,
  (ws mod Wn = 0)%N -> (ws + Wn < M64)%N ->
  walk Wn (S fuel) ws lo to =
    if blockchain_pastRange (zN ws) (zN to) then []
    else rangeN lo (N.min (Z.to_N (blockchain_toAligned (blockchain_fromAligned (zN ws)))) to)
         ++ walk Wn fuel (Z.to_N (blockchain_nextWindowStart (zN ws))) (Z.to_N (blockchain_nextWindowStart (zN ws))) to.
Proof.
  intros fuel ws lo to Ha Hb. cbn [walk]. rewrite past_range_eq.
  assert (Hal : aligned Wn ws = ws) by (unfold aligned; rewrite Ha; lia).
  rewrite from_aligned_eq, Hal, to_aligned_eq, next_window_eq, !N2Z.id by (unfold M64 in *; lia). reflexivity.
Qed.

(* the walk starts at the aligned window of rangeStart, at offset rangeStart mod W *)
Theorem C09_walk_blocks_regenerated : forall from to, (from < M64)%N ->
  walk_blocks Wn from to =
    walk Wn (S (N.to_nat (to / Wn))) (Z.to_N (blockchain_windowStart (zN from)))
         (Z.to_N (blockchain_windowStart (zN from) + blockchain_firstIndex (zN from))) to.
Proof.
  intros from to H. unfold walk_blocks. rewrite window_start_eq, first_index_eq by assumption.
  rewrite <- N2Z.inj_add, aligned_plus_index, !N2Z.id. reflexivity.
Qed.

Lemma C09_consts_ok :
  zN sentinel = blockchain_PreConfirmedFilterSentinel /\
  core_MaxBlockOffsetPerFilter = (core_NumBlocksPerFilter - 1)%Z /\
  (0 < rpccore_MaxEventChunkSize)%Z /\
  (forall n, (n < M64)%N -> blockchain_windowStart (zN n) = zN (aligned Wn n)) /\
  (forall from to, blockchain_iter_done (zN from) (zN to) = (to <? from)%N).
Proof. repeat split; [exact window_start_eq|exact iter_done_eq]. Qed.
Print Assumptions C09_walk_step_regenerated.
