(* C10: the position arithmetic of the legacy verifier core/trie/proof.go VerifyProof is REGENERATED from the Go source
   on every run (harness/cmd/genconsts): the width of `var curPos uint8` (kind localbits), the two updates `curPos++`
   and `curPos += node.Path.Len()` with their wrap, and the two comparisons against keyBits.Len() (kind zfunc).
   The model's [u8] is that width, and one iteration of [verify1] is shown to consist of exactly these pieces, for every
   hash instance. The three trie heights the proofs are run with are the source's (251). *)
From Coq Require Import ZArith NArith Lia List Bool Arith.
From G Require Import Consts.
From V Require Import C10.Model.
Import ListNotations.

Lemma C10_u8_is_curPos_width : forall n, Z.of_nat (u8 n) = (Z.of_nat n mod 2 ^ trie_VerifyProof_curPos_bits)%Z.
Proof. intro n. unfold u8. change (2 ^ trie_VerifyProof_curPos_bits)%Z with 256%Z. now rewrite Nat2Z.inj_mod. Qed.

Lemma step_binary_eq : forall pos, trie_VerifyProof_step_binary (Z.of_nat pos) = Z.of_nat (u8 (pos + 1)).
Proof. intro. unfold trie_VerifyProof_step_binary. cbv zeta. rewrite C10_u8_is_curPos_width. f_equal. lia. Qed.

Lemma step_edge_eq : forall pos n, trie_VerifyProof_step_edge (Z.of_nat pos) (Z.of_nat n) = Z.of_nat (u8 (pos + n)).
Proof. intros. unfold trie_VerifyProof_step_edge. cbv zeta. rewrite C10_u8_is_curPos_width. f_equal. lia. Qed.

Lemma key_short_eq : forall klen pos, trie_VerifyProof_key_short (Z.of_nat klen) (Z.of_nat pos) = (klen <=? pos)%nat.
Proof.
  intros. unfold trie_VerifyProof_key_short.
  destruct (Nat.leb_spec klen pos); destruct (Z.leb_spec (Z.of_nat klen) (Z.of_nat pos)); try reflexivity; lia.
Qed.

Lemma done_eq : forall pos klen, trie_VerifyProof_done (Z.of_nat pos) (Z.of_nat klen) = (klen <=? pos)%nat.
Proof.
  intros. unfold trie_VerifyProof_done.
  destruct (Nat.leb_spec klen pos); destruct (Z.leb_spec (Z.of_nat klen) (Z.of_nat pos)); try reflexivity; lia.
Qed.

Section Step.
Variable F : Type.
Variable feq : F -> F -> bool.
Variable ped : F -> F -> F.
Variable of_path : list bool -> F.
Variable add_len : F -> nat -> F.
Variable f0 : F.
Notation v1 := (verify1 F feq ped of_path add_len f0).

(* one iteration of the legacy verifier, written with the regenerated pieces *)
Theorem C10_verify1_step_regenerated : forall fuel e key pos ps,
  v1 (S fuel) e key pos ps =
    match pget F feq ps e with
    | None => Err
    | Some n =>
        if negb (feq (phash F ped of_path add_len n) e) then Err
        else match n with
             | PBin l r =>
                 if trie_VerifyProof_key_short (Z.of_nat (length key)) (Z.of_nat pos) then Err
                 else let e' := if nth pos key false then r else l in
                      let pos' := Z.to_nat (trie_VerifyProof_step_binary (Z.of_nat pos)) in
                      if trie_VerifyProof_done (Z.of_nat pos') (Z.of_nat (length key)) then Ok e'
                      else v1 fuel e' key pos' ps
             | PEdge p c =>
                 if negb (pmatch (skipn pos key) p) then Ok f0
                 else let pos' := Z.to_nat (trie_VerifyProof_step_edge (Z.of_nat pos) (Z.of_nat (length p))) in
                      if trie_VerifyProof_done (Z.of_nat pos') (Z.of_nat (length key)) then Ok c
                      else v1 fuel c key pos' ps
             end
    end.
Proof.
  intros fuel e key pos ps. cbn [verify1].
  destruct (pget F feq ps e) as [n|]; [|reflexivity].
  destruct (negb (feq (phash F ped of_path add_len n) e)); [reflexivity|].
  destruct n as [l r|p c]; cbv zeta.
  - rewrite key_short_eq, step_binary_eq, Nat2Z.id, done_eq. reflexivity.
  - rewrite step_edge_eq, Nat2Z.id, done_eq. reflexivity.
Qed.
End Step.

Lemma C10_consts_ok :
  trie_VerifyProof_curPos_bits = 8%Z /\
  (forall n, Z.of_nat (u8 n) = (Z.of_nat n mod 2 ^ trie_VerifyProof_curPos_bits)%Z) /\
  deprecatedstate_globalTrieHeight = 251%Z /\ deprecatedstate_ContractStorageTrieHeight = 251%Z /\
  trie2_contractClassTrieHeight = 251%Z /\
  (* every height fits the uint8 position: the wrap of curPos is never reached on an honest walk *)
  (trie2_contractClassTrieHeight < 2 ^ trie_VerifyProof_curPos_bits)%Z.
Proof. repeat split; try reflexivity. exact C10_u8_is_curPos_width. Qed.
Print Assumptions C10_verify1_step_regenerated.
