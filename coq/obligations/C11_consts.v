(* C11: what the JSON-RPC model copies from jsonrpc/server.go by hand, REGENERATED on every run (harness/cmd/genconsts):
   - the error codes InvalidJSON / InvalidRequest / MethodNotFound / InvalidParams (kind int) and the messages the
     switch of Err() attaches to them (kind casestr): the model's parse_error / invalid_request / method_not_found /
     invalid_params are exactly mk_error with the decimal rendering of the code and the message bytes;
   - isBatch: the labels of its white-space case clause (kind caselits) are the model's [is_ws] set, the byte its
     default clause compares with (kind zfunc, `return buf[n-1] == '['`) is the model's 91, and the peek window is
     bufferSize: one step of [is_batch_w] is built from these, and [is_batch] starts with bufferSize steps. *)
From Coq Require Import String.
From Coq Require Import ZArith NArith Lia List Bool Ascii.
From G Require Import Consts.
From V Require Import C11.Json C11.Model.
Import ListNotations.

(* decimal rendering of an integer (what encoding/json writes for an int) *)
Fixpoint dec_pos (fuel : nat) (n : N) (acc : list ascii) : list ascii :=
  match fuel with
  | O => acc
  | S f => let acc' := ascii_of_N (48 + n mod 10) :: acc in
           if (n / 10 =? 0)%N then acc' else dec_pos f (n / 10) acc'
  end.
Definition dec (z : Z) : list ascii :=
  if (z <? 0)%Z then ascii_of_N 45 :: dec_pos 40 (Z.to_N (- z)) [] else dec_pos 40 (Z.to_N z) [].

(* the bytes whose big-endian number is z (no leading NUL) *)
Fixpoint bytes_of (fuel : nat) (n : N) (acc : list ascii) : list ascii :=
  match fuel with
  | O => acc
  | S f => if (n =? 0)%N then acc else bytes_of f (n / 256) (ascii_of_N (n mod 256) :: acc)
  end.
Definition text (z : Z) : list ascii := bytes_of 64 (Z.to_N z) [].

Lemma C11_error_values_regenerated :
  parse_error = mk_error JNull (dec jsonrpc_InvalidJSON) (text jsonrpc_Err_InvalidJSON_Message) /\
  (forall id, invalid_request id = mk_error id (dec jsonrpc_InvalidRequest) (text jsonrpc_Err_InvalidRequest_Message)) /\
  (forall id, method_not_found id = mk_error id (dec jsonrpc_MethodNotFound) (text jsonrpc_Err_MethodNotFound_Message)) /\
  (forall id, invalid_params id = mk_error id (dec jsonrpc_InvalidParams) (text jsonrpc_Err_InvalidParams_Message)).
Proof.
  repeat split; intros; vm_compute dec; vm_compute text; reflexivity.
Qed.

(* white space of isBatch = the model's is_ws; the opening bracket *)
Lemma C11_is_ws_regenerated : forall c : ascii,
  is_ws c = existsb (Z.eqb (Z.of_N (N_of_ascii c))) jsonrpc_isBatch_space.
Proof.
  intro c. unfold is_ws, is_byte, jsonrpc_isBatch_space. cbn [existsb]. rewrite orb_false_r.
  rewrite <- !orb_assoc.
  repeat match goal with
  | |- context [(N_of_ascii c =? ?k)%N] =>
      replace (N_of_ascii c =? k)%N with (Z.of_N (N_of_ascii c) =? Z.of_N k)%Z
        by (destruct (N.eqb_spec (N_of_ascii c) k); destruct (Z.eqb_spec (Z.of_N (N_of_ascii c)) (Z.of_N k)); try reflexivity; lia)
  end.
  reflexivity.
Qed.

Lemma C11_open_regenerated : forall c : ascii, is_byte c 91 = jsonrpc_isBatch_open (Z.of_N (N_of_ascii c)).
Proof.
  intro c. unfold is_byte, jsonrpc_isBatch_open.
  destruct (N.eqb_spec (N_of_ascii c) 91); destruct (Z.eqb_spec (Z.of_N (N_of_ascii c)) 91); try reflexivity; lia.
Qed.

Theorem C11_is_batch_step_regenerated : forall n c r,
  is_batch_w (S n) (c :: r) =
    if existsb (Z.eqb (Z.of_N (N_of_ascii c))) jsonrpc_isBatch_space then is_batch_w n r
    else jsonrpc_isBatch_open (Z.of_N (N_of_ascii c)).
Proof. intros. cbn [is_batch_w]. now rewrite C11_is_ws_regenerated, C11_open_regenerated. Qed.

Lemma C11_consts_ok :
  Z.of_nat batch_window = jsonrpc_bufferSize /\
  (forall bs, is_batch bs = is_batch_w (Z.to_nat jsonrpc_bufferSize) bs) /\
  parse_error = mk_error JNull (dec jsonrpc_InvalidJSON) (text jsonrpc_Err_InvalidJSON_Message).
Proof. split; [reflexivity|]. split; [intro; reflexivity|exact (proj1 C11_error_values_regenerated)]. Qed.
Print Assumptions C11_is_batch_step_regenerated.
