(* C12: the threshold functions f and q are REGENERATED from consensus/votecounter/vote_counter.go on every run
   (harness/cmd/genconsts, kind "func": Go statements -> Gallina with the uint64 wrap-around written out) and
   shown equal, for every argument, to the model's f_of / q_of; the quorum-intersection theorem is then
   restated for the regenerated functions. types.VotingPower must be a 64-bit unsigned type. *)
From Coq Require Import ZArith NArith Lia.
From G Require Import Consts.
From V Require Import C12.Model C12.Props.
Open Scope N_scope.

Lemma C12_consts_ok :
  types_VotingPower_bits = 64%Z /\ (forall n, votecounter_f n = f_of n) /\ (forall n, votecounter_q n = q_of n).
Proof. split; [reflexivity|split; intro n; reflexivity]. Qed.

Theorem C12_quorum_intersect_regenerated : forall n, 1 <= n < W / 2 ->
  votecounter_f n + n < 2 * votecounter_q n /\ 3 * votecounter_f n < n.
Proof.
  intros n H. destruct C12_consts_ok as [_ [Hf Hq]]. rewrite Hf, Hq. exact (C12_quorum_intersect n H).
Qed.
Print Assumptions C12_quorum_intersect_regenerated.
