(* C13: the tags under which consensus/walstore/record.go writes the five kinds of log entry, and the two kinds of
   record, are REGENERATED from the Go source on every run (harness/cmd/genconsts, kind enum: every constant of the
   types walEntryKind / walRecordKind, iota expressions evaluated). The model replays a log as a list of [entry]
   values with five constructors; that reading needs the five tags to be pairwise different, different from the
   zero value of the envelope's field, and to fit the uint8 they are written as - and an entry record must not be
   mistaken for a prune record. *)
From Coq Require Import ZArith NArith Lia List Bool.
From G Require Import Consts.
From V Require Import C13.Model.
Import ListNotations.
Open Scope Z_scope.

(* position of a model entry in the source's enumeration: Start, Proposal, Prevote, Precommit, Timeout *)
Definition tag (e : entry) : nat :=
  match e with EStart _ => 0 | EProposal _ => 1 | EPrevote _ => 2 | EPrecommit _ => 3 | ETimeout _ _ _ => 4 end%nat.
Definition kind_of (e : entry) : Z := nth (tag e) walstore_walEntryKind_values 0.

Lemma C13_entry_kinds_distinct : forall a b, kind_of a = kind_of b -> tag a = tag b.
Proof. intros a b. unfold kind_of. destruct a, b; cbn [tag]; intro H; try reflexivity; vm_compute in H; discriminate. Qed.

Lemma C13_entry_kinds_wellformed : forall e, 0 < kind_of e < 256.
Proof. intro e. unfold kind_of. destruct e; cbn [tag]; vm_compute; split; reflexivity. Qed.

Lemma C13_consts_ok :
  length walstore_walEntryKind_values = 5%nat /\ NoDup walstore_walEntryKind_values /\
  Forall (fun k => 0 < k < 256) walstore_walEntryKind_values /\
  length walstore_walRecordKind_values = 2%nat /\ NoDup walstore_walRecordKind_values /\
  Forall (fun k => 0 < k < 256) walstore_walRecordKind_values.
Proof.
  assert (D : forall l : list Z, (fix nd (l : list Z) := match l with [] => true | x :: r => negb (existsb (Z.eqb x) r) && nd r end) l = true -> NoDup l).
  { induction l as [|x r IH]; intro H; [constructor|]. apply andb_prop in H. destruct H as [H1 H2].
    constructor; [|exact (IH H2)]. intro Hin. apply negb_true_iff in H1.
    assert (existsb (Z.eqb x) r = true) by (apply existsb_exists; exists x; split; [exact Hin|apply Z.eqb_refl]). congruence. }
  assert (R : forall l : list Z, forallb (fun k => (0 <? k) && (k <? 256)) l = true -> Forall (fun k => 0 < k < 256) l).
  { intros l H. apply Forall_forall. intros k Hk. rewrite forallb_forall in H. specialize (H k Hk). lia. }
  repeat split; try reflexivity; try (apply D; vm_compute; reflexivity); apply R; vm_compute; reflexivity.
Qed.
Print Assumptions C13_entry_kinds_distinct.
