From Coq Require Import ZArith NArith.
From G Require Import Consts.
From V Require Import C14.Model.
Lemma C14_consts_ok : Z.of_N cleanup_interval = walstore_cleanupPruneRecordInterval.
Proof. reflexivity. Qed.
