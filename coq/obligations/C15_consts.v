(* C15: db/dbutils/bound.go UpperBound is REGENERATED from the Go source on every run (harness/cmd/genconsts, kind
   "zfunc": the reverse loop becomes a Fixpoint on the number of remaining iterations, make / copy / ub[i]++ become
   list operations, the byte increment carries its `mod 256`) and shown equal, for EVERY prefix, to the model's
   [upper_bound], about which C15_upper_bound_exact / _nil are proved. nil and the empty slice are identified by the
   translator; the model never returns an empty bound (upper_bound_never_empty), so nothing is lost.
   Hypothesis: len(prefix) < 2^63 (a Go int).
   Also: the bucket prefixes of db/buckets.go are pairwise different single bytes (the contract's prefix scans
   separate buckets only then). *)
From Coq Require Import ZArith NArith Lia List Bool Ascii.
From G Require Import Consts.
From V Require Import C15.Model C15.Props.
Import ListNotations.
Open Scope Z_scope.

Definition zb (k : key) : list Z := map (fun b => Z.of_N (bn b)) k.

Lemma bn_lt : forall b, (bn b < 256)%N.
Proof. intro b. unfold bn. apply N_ascii_bounded. Qed.

Lemma ub_snoc : forall a x,
  upper_bound (a ++ [x]) = if (bn x =? 255)%N then upper_bound a else Some (a ++ [ascii_of_N (bn x + 1)]).
Proof.
  induction a as [|c a IH]; intro x; simpl.
  - destruct (bn x =? 255)%N; reflexivity.
  - rewrite IH. destruct (bn x =? 255)%N; reflexivity.
Qed.

Lemma upper_bound_never_empty : forall p, upper_bound p <> Some [].
Proof.
  induction p as [|c p IH]; simpl; [discriminate|].
  destruct (upper_bound p); [discriminate|]. destruct (bn c =? 255)%N; discriminate.
Qed.

Lemma wrap_small : forall x, -9223372036854775808 <= x < 9223372036854775808 -> wrap_s 18446744073709551616 x = x.
Proof.
  intros x H. unfold wrap_s.
  replace (18446744073709551616 / 2) with 9223372036854775808 by reflexivity.
  rewrite Z.mod_small; lia.
Qed.

Lemma go_copy_zeros : forall n src, (n <= length src)%nat -> go_copy (repeat 0 n) src = firstn n src.
Proof.
  intros n src H. unfold go_copy. rewrite repeat_length, Nat.min_l by exact H.
  rewrite skipn_all2 by (rewrite repeat_length; lia). apply app_nil_r.
Qed.

Lemma go_set_last : forall l y v, go_set (l ++ [y]) (Z.of_nat (length l)) v = l ++ [v].
Proof.
  intros l y v. unfold go_set. rewrite Nat2Z.id.
  induction l as [|a l IH]; simpl; [reflexivity|]. now rewrite IH.
Qed.

Lemma zb_app : forall a b, zb (a ++ b) = zb a ++ zb b.
Proof. intros. unfold zb. apply map_app. Qed.
Lemma zb_len : forall a, length (zb a) = length a.
Proof. intros. unfold zb. apply map_length. Qed.

Lemma loop_spec : forall a b ub0,
  Z.of_nat (length (a ++ b)) < 9223372036854775808 ->
  dbutils_UpperBound_loop1 (length a) (zb (a ++ b)) ub0 = match upper_bound a with Some u => zb u | None => [] end.
Proof.
  induction a as [|x a IH] using rev_ind; intros b ub0 Hlen; [reflexivity|].
  rewrite app_length, Nat.add_1_r. cbn [dbutils_UpperBound_loop1]. cbv zeta.
  rewrite Nat2Z.id.
  assert (Hnth : nth (length a) (zb ((a ++ [x]) ++ b)) 0 = Z.of_N (bn x)).
  { rewrite <- app_assoc, zb_app, app_nth2; rewrite zb_len; [|lia]. now rewrite Nat.sub_diag. }
  rewrite Hnth, ub_snoc.
  pose proof (bn_lt x) as Hx.
  destruct (bn x =? 255)%N eqn:E.
  - apply N.eqb_eq in E. rewrite E. cbn [Z.of_N Z.eqb Pos.eqb].
    rewrite <- app_assoc. apply IH. now rewrite app_assoc.
  - apply N.eqb_neq in E.
    replace (Z.of_N (bn x) =? 255) with false by (symmetry; apply Z.eqb_neq; lia).
    rewrite !app_length in Hlen. cbn [length] in Hlen.
    rewrite wrap_small by lia.
    replace (Z.to_nat (Z.of_nat (length a) + 1)) with (S (length a)) by lia.
    rewrite go_copy_zeros by (rewrite zb_len, !app_length; cbn [length]; lia).
    assert (Hf : firstn (S (length a)) (zb ((a ++ [x]) ++ b)) = zb a ++ [Z.of_N (bn x)]).
    { rewrite zb_app, firstn_app, zb_len, app_length. cbn [length].
      replace (S (length a) - (length a + 1))%nat with 0%nat by lia.
      rewrite firstn_O, app_nil_r, firstn_all2 by (rewrite zb_len, app_length; cbn [length]; lia).
      apply zb_app. }
    rewrite Hf.
    replace (nth (length a) (zb a ++ [Z.of_N (bn x)]) 0) with (Z.of_N (bn x))
      by (rewrite app_nth2, zb_len, Nat.sub_diag by (rewrite zb_len; lia); reflexivity).
    replace (Z.of_nat (length a)) with (Z.of_nat (length (zb a))) by (now rewrite zb_len). rewrite go_set_last, zb_app. f_equal. cbn [zb map]. f_equal.
    unfold bn at 2. rewrite N_ascii_embedding by lia.
    rewrite Z.mod_small by lia. lia.
Qed.

(* the regenerated function = the model's function, for every prefix a Go slice can hold *)
Theorem C15_upper_bound_regenerated : forall p : key,
  Z.of_nat (length p) < 9223372036854775808 ->
  dbutils_UpperBound (zb p) = match upper_bound p with Some u => zb u | None => [] end.
Proof.
  intros p H. unfold dbutils_UpperBound. cbv zeta. rewrite zb_len, wrap_small by lia.
  replace (Z.to_nat (Z.of_nat (length p) - 1 + 1)) with (length p) by lia.
  rewrite <- (app_nil_r p) at 2. apply loop_spec. now rewrite app_nil_r.
Qed.

(* "returns nil" is the same on both sides *)
Corollary C15_upper_bound_regenerated_nil : forall p : key,
  Z.of_nat (length p) < 9223372036854775808 -> (dbutils_UpperBound (zb p) = [] <-> upper_bound p = None).
Proof.
  intros p H. rewrite C15_upper_bound_regenerated by exact H.
  pose proof (upper_bound_never_empty p) as Hne. destruct (upper_bound p) as [u|]; [|tauto].
  split; [|discriminate]. destruct u; [intros _; exfalso; apply Hne; reflexivity|discriminate].
Qed.

(* so the theorem about the model's function is a theorem about the regenerated one: whenever the model's bound is
   [u], the regenerated Go function returns exactly the bytes of [u], and [u] is the exact exclusive end of the scan *)
Theorem C15_upper_bound_exact_regenerated : forall (p u k : key),
  Z.of_nat (length p) < 9223372036854775808 -> upper_bound p = Some u ->
  dbutils_UpperBound (zb p) = zb u /\ has_prefix p k = kle p k && klt k u.
Proof.
  intros p u k Hl H. split; [|exact (C15_upper_bound_exact p u k H)].
  rewrite C15_upper_bound_regenerated by exact Hl. now rewrite H.
Qed.

(* bucket prefixes: one byte each, pairwise different (both the iota enumeration and the exported constants) *)
Lemma C15_buckets_distinct :
  NoDup db_innerBucket_values /\ NoDup db_Bucket_values /\
  Forall (fun b => 0 <= b < 256) db_innerBucket_values /\ Forall (fun b => In b db_innerBucket_values) db_Bucket_values.
Proof.
  assert (D : forall l : list Z, (forallb (fun p => negb (existsb (Z.eqb (fst p)) (snd p)))
              ((fix tails (l : list Z) := match l with [] => [] | x :: r => (x, r) :: tails r end) l)) = true -> NoDup l).
  { induction l as [|x r IH]; intro H; [constructor|]. cbn in H. apply andb_prop in H. destruct H as [H1 H2].
    constructor; [|exact (IH H2)]. intro Hin. apply negb_true_iff in H1.
    assert (existsb (Z.eqb x) r = true) by (apply existsb_exists; exists x; split; [exact Hin|apply Z.eqb_refl]). congruence. }
  repeat split.
  - apply D. vm_compute. reflexivity.
  - apply D. vm_compute. reflexivity.
  - apply Forall_forall. intros b Hb.
    assert (forallb (fun b => (0 <=? b) && (b <? 256)) db_innerBucket_values = true) by (vm_compute; reflexivity).
    rewrite forallb_forall in H. specialize (H b Hb). lia.
  - apply Forall_forall. intros b Hb.
    assert (forallb (fun b => existsb (Z.eqb b) db_innerBucket_values) db_Bucket_values = true) by (vm_compute; reflexivity).
    rewrite forallb_forall in H. specialize (H b Hb). apply existsb_exists in H. destruct H as [y [Hy E]].
    apply Z.eqb_eq in E. now subst.
Qed.

Lemma C15_consts_ok :
  (forall p : key, Z.of_nat (length p) < 9223372036854775808 ->
     dbutils_UpperBound (zb p) = match upper_bound p with Some u => zb u | None => [] end) /\
  NoDup db_Bucket_values.
Proof. split; [exact C15_upper_bound_regenerated|exact (proj1 (proj2 C15_buckets_distinct))]. Qed.
Print Assumptions C15_consts_ok.
