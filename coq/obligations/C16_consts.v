(* C16: constants AND the pruner's floor arithmetic vs the source.
   Regenerated on every run by harness/cmd/genconsts (kind zfunc) from pruner/pruner.go, pruner/retention.go and
   pruner/accessors.go: applyTimeFloor and RetentionFloor.floor as whole functions; the guards, the uint64
   subtractions and the max/min of onNewBlock, onNewL1Head, pruneUpto, Seed, raiseTo, PruneBlockDataUpto and
   pruneAggregatedBloomFiltersUpto as the expressions / statement runs the source holds today (mod 2^64 written out).
   Each model function is shown equal, for ALL arguments below 2^64, to the composition of the regenerated pieces. *)
From Coq Require Import ZArith NArith Lia List Bool.
From G Require Import Consts.
From V Require Import C16.Model.
Import ListNotations.

Lemma C16_consts_ok : Z.of_N LAG = core_BlockHashLag /\ Z.of_N WIN = core_NumBlocksPerFilter.
Proof. split; reflexivity. Qed.

Ltac Zify.zify_post_hook ::= Z.div_mod_to_equations.
Notation zN := Z.of_N.
Definition u64 (n : N) : Prop := (n < W64)%N.

Ltac bl :=
  repeat match goal with
  | |- context [(?a <=? ?b)%N] => destruct (N.leb_spec a b)
  | |- context [(?a <? ?b)%N] => destruct (N.ltb_spec a b)
  | |- context [(?a =? ?b)%N] => destruct (N.eqb_spec a b)
  | |- context [(?a <=? ?b)%Z] => destruct (Z.leb_spec a b)
  | |- context [(?a <? ?b)%Z] => destruct (Z.ltb_spec a b)
  | |- context [(?a =? ?b)%Z] => destruct (Z.eqb_spec a b)
  end; cbn [negb orb andb]; try reflexivity; try (exfalso; lia); try lia.

(* ---- the pieces ---- *)
Lemma sub64_z : forall a b, u64 a -> u64 b -> zN (sub64 a b) = ((zN a - zN b) mod 18446744073709551616)%Z.
Proof.
  unfold u64, sub64, W64. intros a b Ha Hb.
  rewrite N2Z.inj_mod, N2Z.inj_sub, N2Z.inj_add by lia. cbn [Z.of_N].
  replace (zN a + 18446744073709551616 - zN b)%Z with (zN a - zN b + 1 * 18446744073709551616)%Z by lia.
  apply Z.mod_add. lia.
Qed.
Lemma add64_z : forall a b, zN (add64 a b) = ((zN a + zN b) mod 18446744073709551616)%Z.
Proof. unfold add64, W64. intros. now rewrite N2Z.inj_mod, N2Z.inj_add. Qed.

Lemma skip_block_eq : forall l1 b r,
  pruner_onNewBlock_skip (zN l1) (zN b) (zN r) = ((l1 <=? b) || (b <? r))%N.
Proof. intros. unfold pruner_onNewBlock_skip. bl. Qed.
Lemma wait_eq : forall p e, pruner_onNewBlock_wait (zN p) (zN e) = (p <? e)%N.
Proof. intros. unfold pruner_onNewBlock_wait. bl. Qed.
Lemma std_eq : forall b r, u64 b -> u64 r -> pruner_onNewBlock_standardFloor (zN b) (zN r) = zN (sub64 b r).
Proof. intros. unfold pruner_onNewBlock_standardFloor. cbv zeta. now rewrite sub64_z. Qed.
Lemma skip_l1_eq : forall l1 h r,
  pruner_onNewL1Head_skip (zN l1) (zN h) (zN r) = ((h <=? l1) || (l1 <? r))%N.
Proof. intros. unfold pruner_onNewL1Head_skip. bl. Qed.
Lemma l1_floor_eq : forall l1 r, u64 l1 -> u64 r -> pruner_onNewL1Head_floor (zN l1) (zN r) = zN (sub64 l1 r).
Proof. intros. unfold pruner_onNewL1Head_floor. now rewrite sub64_z. Qed.

Definition age_of (on : bool) : Z := if on then 1%Z else 0%Z.   (* any non-zero minAge *)

(* applyTimeFloor, the whole function, for every minAge (a signed 64-bit duration) *)
Lemma C16_apply_time_floor_regenerated : forall (c : pcfg) (s : pst) (std : N) (min_age : Z),
  min_age_on c = negb (min_age =? 0)%Z ->
  pruner_applyTimeFloor min_age (zN (sampled s)) (zN std) = zN (apply_time_floor c s std).
Proof.
  intros c s std a H. unfold pruner_applyTimeFloor, apply_time_floor. rewrite H.
  destruct (a =? 0)%Z; cbn [negb]; [reflexivity|]. now rewrite N2Z.inj_min.
Qed.

(* onNewBlock: the model's decision is the composition of the regenerated guard, counter test, subtraction and
   applyTimeFloor *)
Lemma C16_on_new_block_regenerated : forall c s l1 block within,
  u64 block -> u64 (retained c) ->
  on_new_block c s (Some l1) block within =
    if pruner_onNewBlock_skip (zN l1) (zN block) (zN (retained c)) then (s, Skip) else
    let p := add64 (pending s) 1 in
    if pruner_onNewBlock_wait (zN p) (zN (every c)) then ({| pending := p; sampled := sampled s |}, Skip) else
    let std := pruner_onNewBlock_standardFloor (zN block) (zN (retained c)) in
    let keep := if min_age_on c && within
                then pruner_applyTimeFloor (age_of (min_age_on c)) (zN (sampled s)) std else std in
    ({| pending := 0; sampled := sampled s |}, Prune (Z.to_N keep)).
Proof.
  intros c s l1 block within Hb Hr. unfold on_new_block. cbv zeta.
  rewrite skip_block_eq, wait_eq, std_eq by assumption.
  destruct ((l1 <=? block) || (block <? retained c))%N; [reflexivity|].
  destruct (add64 (pending s) 1 <? every c)%N; [reflexivity|].
  destruct (min_age_on c) eqn:E; cbn [andb].
  - destruct within.
    + rewrite (C16_apply_time_floor_regenerated c s) by (rewrite E; reflexivity). now rewrite N2Z.id.
    + now rewrite N2Z.id.
  - now rewrite N2Z.id.
Qed.

Lemma C16_on_new_l1_head_regenerated : forall c s l1 h,
  u64 l1 -> u64 (retained c) ->
  on_new_l1_head c s l1 (Some h) =
    if pruner_onNewL1Head_skip (zN l1) (zN h) (zN (retained c)) then (s, Skip) else
    ({| pending := 0; sampled := sampled s |},
     Prune (Z.to_N (pruner_applyTimeFloor (age_of (min_age_on c)) (zN (sampled s))
                      (pruner_onNewL1Head_floor (zN l1) (zN (retained c)))))).
Proof.
  intros c s l1 h Hl Hr. unfold on_new_l1_head. rewrite skip_l1_eq, l1_floor_eq by assumption.
  destruct ((h <=? l1) || (l1 <? retained c))%N; [reflexivity|].
  rewrite (C16_apply_time_floor_regenerated c s) by (destruct (min_age_on c); reflexivity). now rewrite N2Z.id.
Qed.

(* pruneUpto: latestSampledHeight = max(latestSampledHeight, oldestKept) *)
Lemma C16_after_prune_regenerated : forall s k,
  after_prune s k = {| pending := pending s; sampled := Z.to_N (pruner_pruneUpto_sampled (zN (sampled s)) (zN k)) |}.
Proof.
  intros. unfold after_prune, pruner_pruneUpto_sampled. cbv zeta. now rewrite <- N2Z.inj_max, N2Z.id.
Qed.

(* retention.go *)
Lemma C16_raise_to_regenerated : forall fl st,
  raise_to fl st = if retention_raiseTo_keeps (zN fl) (zN st) then st else Z.to_N (retention_raiseTo_new (zN fl)).
Proof.
  intros. unfold raise_to, retention_raiseTo_keeps, retention_raiseTo_new.
  replace ((zN fl + 1) mod 18446744073709551616)%Z with (zN (add64 fl 1)) by (rewrite add64_z; reflexivity).
  rewrite N2Z.id. bl.
Qed.

Lemma C16_floor_of_regenerated : forall st, u64 st ->
  retention_floor (zN st) = match floor_of st with None => (0%Z, false) | Some f => (zN f, true) end.
Proof.
  unfold u64, W64. intros st H. unfold retention_floor, floor_of. cbv zeta.
  destruct (N.eqb_spec st 0) as [->|Hn]; [reflexivity|].
  replace (zN st =? 0)%Z with false by (symmetry; apply Z.eqb_neq; lia).
  f_equal. lia.
Qed.

Lemma C16_prune_floor_regenerated : forall keep st, u64 keep ->
  prune_floor keep st =
    if pruner_pruneUpto_raises (zN keep) then raise_to (Z.to_N (pruner_pruneUpto_floor (zN keep))) st else st.
Proof.
  intros keep st H. unfold prune_floor, pruner_pruneUpto_raises, pruner_pruneUpto_floor.
  change 1%Z with (zN 1). rewrite <- sub64_z by (assumption || (unfold u64, W64; lia)). rewrite N2Z.id.
  change 0%Z with (zN 0). bl.
Qed.

Lemma C16_seed_floor_regenerated : forall (o : option N) st, u64 (match o with Some x => x | None => 0%N end) ->
  seed_floor o st = raise_to (Z.to_N (retention_Seed_floor (zN (match o with Some x => x | None => 0%N end)))) st.
Proof.
  intros o st H. unfold seed_floor, retention_Seed_floor.
  set (x := match o with Some x => x | None => 0%N end) in *.
  change 1%Z with (zN 1). rewrite <- N2Z.inj_max, <- sub64_z, N2Z.id; [reflexivity| |unfold u64, W64; lia].
  unfold u64, W64 in *. lia.
Qed.

(* accessors.go: the header carve-out and the bloom-window boundary *)
Lemma C16_header_end_regenerated : forall bn, u64 bn ->
  hd (RCm 0) (range_ops bn) = RHdr (Z.to_N (pruner_headerEnd (zN bn))).
Proof.
  unfold u64, W64. intros bn H. unfold range_ops, pruner_headerEnd, LAG. cbn [hd]. cbv zeta. f_equal.
  destruct (N.ltb_spec 10 bn); destruct (Z.ltb_spec 10 (zN bn)); try lia.
Qed.

Lemma C16_bloom_boundary_regenerated : forall i hi, u64 hi ->
  kills Bloom i (RBloom hi) =
    if pruner_bloom_skip (zN hi) then false else (i <? Z.to_N (pruner_bloom_oldestKept (zN hi)))%N.
Proof.
  unfold u64, W64. intros i hi H. unfold kills, pruner_bloom_skip, pruner_bloom_oldestKept, WIN. cbv zeta.
  destruct (N.ltb_spec hi 8192); destruct (Z.ltb_spec (zN hi) 8192); try lia; try reflexivity.
  f_equal. change 8192%Z with (zN 8192).
  assert (Hm : (hi mod 8192 <= hi)%N) by (apply N.mod_le; discriminate).
  rewrite <- N2Z.inj_mod, <- N2Z.inj_sub by exact Hm.
  assert (Hs : (hi - hi mod 8192 <= hi)%N) by apply N.le_sub_l.
  clear Hm. generalize dependent (hi - hi mod 8192)%N. intros d Hd.
  rewrite Z.mod_small by lia. now rewrite N2Z.id.
Qed.

(* the headline bound of C16, restated for the regenerated onNewBlock pieces: whatever is handed to PruneUpto by
   onNewBlock is at most block - retained (no underflow) *)
Lemma C16_on_new_block_floor_regenerated : forall c s l1 block within p' keep,
  u64 block -> u64 (retained c) ->
  on_new_block c s (Some l1) block within = (p', Prune keep) ->
  (keep + retained c <= block)%N.
Proof.
  intros c s l1 block within p' keep Hb Hr. rewrite C16_on_new_block_regenerated by assumption.
  cbv zeta. rewrite skip_block_eq, wait_eq.
  destruct (N.leb_spec l1 block); cbn [orb]; [discriminate|].
  destruct (N.ltb_spec block (retained c)); [discriminate|].
  destruct (add64 (pending s) 1 <? every c)%N; [discriminate|].
  intro E. injection E as _ E. subst keep.
  unfold pruner_onNewBlock_standardFloor, pruner_applyTimeFloor, age_of. cbv zeta.
  unfold u64, W64 in *.
  destruct (min_age_on c); destruct within; cbn [andb Z.eqb]; lia.
Qed.
Print Assumptions C16_on_new_block_floor_regenerated.
