From Coq Require Import ZArith NArith.
From G Require Import Consts.
From V Require Import C16.Model.
Lemma C16_consts_ok : Z.of_N LAG = core_BlockHashLag /\ Z.of_N WIN = core_NumBlocksPerFilter.
Proof. split; reflexivity. Qed.
