(* C17: the arithmetic of the backward catch-up scan (l1/l1.go catchUpL1HeadUpdates) is REGENERATED from the Go
   source on every run (harness/cmd/genconsts, kind zfunc): the lower end of a chunk (`var from uint64; if to+1 >
   chunk { from = to+1-chunk }`), the finalised test of an event, the stop condition and the next upper end
   (`to = from - 1`), each with its uint64 wrap written out. The model's [scan] is shown to be, for all arguments,
   one step built from exactly these four pieces. Hypotheses: to + 1 and chunk fit a uint64 (the model does not
   describe the overflow of to+1 at latest = 2^64-1; checks/C17.json says so). The default chunk size is not 0 (a zero
   chunk makes the Go loop spin for ever; the model reports a failed scan). *)
From Coq Require Import ZArith NArith Lia List Bool.
From G Require Import Consts.
From V Require Import C17.Model.
Import ListNotations.
Notation zN := Z.of_N.
Definition W : N := 18446744073709551616.

Lemma from_eq : forall to chunk, (to + 1 < W)%N -> (chunk < W)%N ->
  l1_catchUp_from (zN to) (zN chunk) = zN (if (chunk <? to + 1)%N then to + 1 - chunk else 0)%N.
Proof.
  unfold W. intros to chunk Ht Hc. unfold l1_catchUp_from. cbv zeta.
  rewrite (Z.mod_small (zN to + 1)) by lia.
  destruct (N.ltb_spec chunk (to + 1)); destruct (Z.ltb_spec (zN chunk) (zN to + 1)); try lia.
  rewrite Z.mod_small by lia. lia.
Qed.

Lemma next_to_eq : forall from, (0 < from < W)%N -> l1_catchUp_next_to (zN from) = zN (from - 1).
Proof. unfold W. intros f H. unfold l1_catchUp_next_to. cbv zeta. rewrite Z.mod_small by lia. lia. Qed.

Lemma stop_eq : forall found from, l1_catchUp_stop found (zN from) = found || (from =? 0)%N.
Proof.
  intros. unfold l1_catchUp_stop. f_equal.
  destruct (N.eqb_spec from 0); destruct (Z.eqb_spec (zN from) 0); try reflexivity; lia.
Qed.

Lemma fin_eq : forall fin1 l,
  existsb (fun e => l1_catchUp_isFinalised (zN (u_l1 e)) (zN fin1)) l = existsb (fun e => (u_l1 e <=? fin1)%N) l.
Proof.
  intros fin1 l. induction l as [|e l IH]; [reflexivity|]. cbn [existsb]. rewrite IH. f_equal.
  unfold l1_catchUp_isFinalised. destruct (N.leb_spec (u_l1 e) fin1); destruct (Z.leb_spec (zN (u_l1 e)) (zN fin1)); try reflexivity; lia.
Qed.

(* one iteration of the model's scan = the regenerated pieces, for every state of the scan *)
Theorem C17_scan_step_regenerated : forall fuel canon fin1 chunk fail i to b dl,
  (to + 1 < W)%N -> (chunk < W)%N ->
  scan (S fuel) canon fin1 chunk fail i to b dl =
    if (match fail with Some j => Nat.eqb i j | None => false end) then (b, dl, false) else
    let from := Z.to_N (l1_catchUp_from (zN to) (zN chunk)) in
    let evs := filter (in_range from to) canon in
    let b' := fold_left (fun b e => apply_upd b false e) evs b in
    let found := existsb (fun e => l1_catchUp_isFinalised (zN (u_l1 e)) (zN fin1)) evs in
    if l1_catchUp_stop found (zN from) then (b', dl ++ evs, true)
    else scan fuel canon fin1 chunk fail (S i) (Z.to_N (l1_catchUp_next_to (zN from))) b' (dl ++ evs).
Proof.
  intros fuel canon fin1 chunk fail i to b dl Ht Hc. cbn [scan].
  destruct (match fail with Some j => Nat.eqb i j | None => false end); [reflexivity|].
  cbv zeta. rewrite from_eq, N2Z.id by assumption.
  set (from := (if (chunk <? to + 1)%N then (to + 1 - chunk)%N else 0%N)).
  rewrite fin_eq, stop_eq.
  destruct (existsb _ _); cbn [orb]; [reflexivity|].
  destruct (N.eqb_spec from 0); [reflexivity|].
  rewrite next_to_eq, N2Z.id; [reflexivity|].
  unfold W in *. subst from. destruct (chunk <? to + 1)%N; lia.
Qed.

Lemma C17_consts_ok :
  (0 < l1_defaultCatchUpChunkSize < 18446744073709551616)%Z /\
  (forall to chunk, (to + 1 < W)%N -> (chunk < W)%N ->
     l1_catchUp_from (zN to) (zN chunk) = zN (if (chunk <? to + 1)%N then to + 1 - chunk else 0)%N).
Proof. split; [split; reflexivity|exact from_eq]. Qed.
Print Assumptions C17_scan_step_regenerated.
