From Coq Require Import ZArith NArith.
From G Require Import Consts.
From V Require Import C18.Model.
Lemma C18_consts_ok :
  Z.of_nat max_migrations = migration_maxMigrations /\ Z.of_nat batch_size = blocktransactions_batchSize.
Proof. split; reflexivity. Qed.
