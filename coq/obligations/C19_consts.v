(* C19: the length arithmetic of consensus/propeller/padding.go is REGENERATED from the Go source on every run
   (harness/cmd/genconsts, kind zfunc):
     PadMessage    the statement run `unpaddedMsgLen := uint64(varintLen + len(msg)) .. if remainder := .. { paddedMsgLen += .. }`
     UnpadMessage  `end := uint64(varintLen) + msgLen`, `end > uint64(len(padded))`, `varintLen <= 0`, `padded[varintLen:end]`
   (int -> uint64 conversions and every uint64 operation with its wrap written out), and tied to the model:
   the length of [pad m k] IS the regenerated padded length, and [unpad] IS the composition of the regenerated pieces
   (including the wrap-around of `end` that makes the slice expression panic).
   Hypotheses = what a Go int / slice guarantees: lengths below 2^62, 0 < numDataShards < 2^61 (numDataShards = 0 divides
   by zero in Go and is not modelled, as Model.v says). *)
From Coq Require Import ZArith NArith Lia List Bool Ascii.
From G Require Import Consts.
From V Require Import C19.Model.
Import ListNotations.
Notation zN := Z.of_N.
Definition zbytes (l : list byte) : list Z := map (fun b => zN (bn b)) l.
Lemma zbytes_len : forall l, length (zbytes l) = length l.
Proof. intro. apply map_length. Qed.

Lemma wrap_small : forall x, (-9223372036854775808 <= x < 9223372036854775808)%Z -> wrap_s 18446744073709551616 x = x.
Proof.
  intros x H. unfold wrap_s. replace (18446744073709551616 / 2)%Z with 9223372036854775808%Z by reflexivity.
  rewrite Z.mod_small; lia.
Qed.

(* the model's padded length *)
Definition padded_len (un k : N) : N :=
  let d := (2 * k)%N in let r := (un mod d)%N in if (r =? 0)%N then un else (un + (d - r))%N.

Lemma padded_eq : forall (vl : nat) (msg : list Z) (k : N),
  (0 < k)%N -> (zN k < 2305843009213693952)%Z -> (Z.of_nat (vl + length msg) < 4611686018427387904)%Z ->
  propeller_paddedMsgLen (Z.of_nat vl) msg (zN k) = zN (padded_len (N.of_nat (vl + length msg)) k).
Proof.
  intros vl msg k Hk Hk2 Hl. unfold propeller_paddedMsgLen, padded_len. cbv zeta.
  rewrite <- Nat2Z.inj_add, !wrap_small by lia.
  rewrite (Z.mod_small (Z.of_nat (vl + length msg))), (Z.mod_small (2 * zN k)) by lia.
  set (un := N.of_nat (vl + length msg)). replace (Z.of_nat (vl + length msg)) with (zN un) by (unfold un; lia).
  assert (Hun : (zN un < 4611686018427387904)%Z) by (unfold un; lia). clearbody un.
  replace (2 * zN k)%Z with (zN (2 * k)) by lia. rewrite <- N2Z.inj_mod.
  assert (Hr : (un mod (2 * k) < 2 * k)%N) by (apply N.mod_lt; lia).
  set (r := (un mod (2 * k))%N) in *. clearbody r.
  destruct (N.eqb_spec r 0) as [->|Hn]; [reflexivity|].
  replace (zN r =? 0)%Z with false by (symmetry; apply Z.eqb_neq; lia). cbn [negb].
  rewrite (Z.mod_small (zN (2 * k) - zN r)) by lia. rewrite Z.mod_small by lia. lia.
Qed.

Lemma padded_ge : forall un k, (0 < k)%N -> (un <= padded_len un k)%N.
Proof. intros. unfold padded_len. cbv zeta. destruct (_ =? 0)%N; lia. Qed.

(* PadMessage: the length of what the model builds is the padded length the Go source computes today *)
Theorem C19_pad_length_regenerated : forall (m : list byte) (k : N),
  (0 < k)%N -> (zN k < 2305843009213693952)%Z ->
  (Z.of_nat (length (uvarint (N.of_nat (length m))) + length m) < 4611686018427387904)%Z ->
  Z.of_nat (length (pad m k)) =
  propeller_paddedMsgLen (Z.of_nat (length (uvarint (N.of_nat (length m))))) (zbytes m) (zN k).
Proof.
  intros m k Hk Hk2 Hl. rewrite padded_eq by (rewrite ?zbytes_len; assumption). rewrite zbytes_len.
  unfold pad. cbv zeta. fold (padded_len (N.of_nat (length (uvarint (N.of_nat (length m))) + length m)) k).
  pose proof (padded_ge (N.of_nat (length (uvarint (N.of_nat (length m))) + length m)) k Hk).
  rewrite !app_length, repeat_length. lia.
Qed.

(* binary.Uvarint returns a positive byte count whenever the model's decoder succeeds *)
Lemma uv_dec_pos : forall buf i x len vl, uv_dec buf i x = Some (len, vl) -> (0 < vl)%nat.
Proof.
  induction buf as [|b r IH]; intros i x len vl H; cbn [uv_dec] in H; [discriminate|].
  destruct (Nat.eqb i 10); [discriminate|].
  destruct (bn b <? 128)%N.
  - destruct (Nat.eqb i 9 && (1 <? bn b)%N); [discriminate|]. injection H as _ <-. lia.
  - exact (IH _ _ _ _ H).
Qed.

Definition unzbytes (l : list Z) : list byte := map (fun z => B (Z.to_N z)) l.
Lemma unz_z : forall l, unzbytes (zbytes l) = l.
Proof.
  intro l. unfold unzbytes, zbytes. rewrite map_map. rewrite <- (map_id l) at 2. apply map_ext.
  intro b. rewrite N2Z.id. unfold B, bn. apply ascii_N_embedding.
Qed.

(* UnpadMessage: the model's function is the composition of the regenerated pieces *)
Theorem C19_unpad_regenerated : forall (p : list byte) (len : N) (vl : nat),
  uv_dec p 0 0 = Some (len, vl) ->
  (len < two64)%N -> (Z.of_nat vl < 4611686018427387904)%Z -> (Z.of_nat (length p) < 4611686018427387904)%Z ->
  propeller_unpad_bad_prefix (Z.of_nat vl) = false /\
  unpad p =
    let e := propeller_unpad_end (Z.of_nat vl) (zN len) in
    if propeller_unpad_too_long e (zbytes p) then UErr
    else if (e <? Z.of_nat vl)%Z then UPanic
    else UOk (unzbytes (propeller_unpad_result (zbytes p) (Z.of_nat vl) e)).
Proof.
  intros p len vl Hd Hlen Hvl Hp. split.
  - pose proof (uv_dec_pos _ _ _ _ _ Hd). unfold propeller_unpad_bad_prefix. apply Z.leb_gt. lia.
  - unfold unpad. rewrite Hd. cbv zeta.
    unfold propeller_unpad_end, propeller_unpad_too_long, propeller_unpad_result. cbv zeta. unfold two64 in *.
    rewrite zbytes_len, (Z.mod_small (Z.of_nat vl)), (Z.mod_small (Z.of_nat (length p))) by lia.
    set (e := ((N.of_nat vl + len) mod 18446744073709551616)%N).
    replace ((Z.of_nat vl + zN len) mod 18446744073709551616)%Z with (zN e)
      by (unfold e; rewrite N2Z.inj_mod, N2Z.inj_add; f_equal; lia).
    clearbody e.
    destruct (N.ltb_spec (N.of_nat (length p)) e); destruct (Z.ltb_spec (Z.of_nat (length p)) (zN e)); try lia; [reflexivity|].
    destruct (N.ltb_spec e (N.of_nat vl)); destruct (Z.ltb_spec (zN e) (Z.of_nat vl)); try lia; [reflexivity|].
    f_equal. rewrite Nat2Z.id. replace (Z.to_nat (zN e)) with (N.to_nat e) by lia.
    unfold zbytes. rewrite firstn_map, skipn_map. fold (zbytes (skipn vl (firstn (N.to_nat e) p))).
    rewrite unz_z, firstn_skipn_comm. f_equal. f_equal. lia.
Qed.

Lemma C19_consts_ok :
  forall (vl : nat) (msg : list Z) (k : N),
  (0 < k)%N -> (zN k < 2305843009213693952)%Z -> (Z.of_nat (vl + length msg) < 4611686018427387904)%Z ->
  propeller_paddedMsgLen (Z.of_nat vl) msg (zN k) = zN (padded_len (N.of_nat (vl + length msg)) k).
Proof. exact padded_eq. Qed.
Print Assumptions C19_unpad_regenerated.
Print Assumptions C19_pad_length_regenerated.
