(* C20: the window arithmetic of sync/preconfirmed/chain_storage.go is REGENERATED from the Go source on every run
   (harness/cmd/genconsts, kind zfunc; uint64 / int conversions and wraps written out): ChainReader.oldestPreConf
   and ChainReader.contains as whole functions, `want` of SnapshotForBlock, `drop` / `keep` of AdvanceTo, the two
   count comparisons of shouldPreserveSlot; and the blank identifier "0x0" of clients/feeder as a number.
   Each is shown equal to what ChainModel.v writes, for every chain that fits Go's types and satisfies the model's
   own contiguity reading (length - 1 <= tip: the oldest number does not wrap). *)
From Coq Require Import ZArith NArith Lia List Bool.
From G Require Import Consts.
From V Require Import C20.Model.
Import ListNotations.
Notation zN := Z.of_N.

Lemma wrap_small : forall x, (-9223372036854775808 <= x < 9223372036854775808)%Z -> wrap_s 18446744073709551616 x = x.
Proof.
  intros x H. unfold wrap_s. replace (18446744073709551616 / 2)%Z with 9223372036854775808%Z by reflexivity.
  rewrite Z.mod_small; lia.
Qed.

Definition fits (c : chain) : Prop :=
  (zN (tip c) < 18446744073709551616)%Z /\ (Z.of_nat (length c) < 4611686018427387904)%Z /\
  (N.of_nat (length c) - 1 <= tip c)%N.

(* oldestPreConf, the whole method *)
Lemma C20_oldest_regenerated : forall c, c <> [] -> fits c ->
  preconfirmed_oldestPreConf (zN (tip c)) (Z.of_nat (length c)) = zN (oldest c).
Proof.
  intros c Hne (Ht & Hl & Hc). unfold preconfirmed_oldestPreConf, oldest.
  assert (0 < length c)%nat by (destruct c; [congruence|cbn; lia]).
  rewrite wrap_small by lia. rewrite (Z.mod_small (Z.of_nat (length c) - 1)) by lia.
  rewrite Z.mod_small by lia. lia.
Qed.

(* contains, the whole method (c.oldestPreConf() and c.tip() are the calls it makes) *)
Lemma C20_contains_regenerated : forall c n,
  preconfirmed_contains (Z.of_nat (length c)) (zN (oldest c)) (zN (tip c)) (zN n) = contains c n.
Proof.
  intros c n. unfold preconfirmed_contains, contains. destruct c as [|e r]; [reflexivity|].
  replace (0 <? Z.of_nat (length (e :: r)))%Z with true by (symmetry; apply Z.ltb_lt; cbn [length]; lia).
  cbn [andb]. f_equal.
  - destruct (N.leb_spec (oldest (e :: r)) n); destruct (Z.leb_spec (zN (oldest (e :: r))) (zN n)); try reflexivity; lia.
  - destruct (N.leb_spec n (tip (e :: r))); destruct (Z.leb_spec (zN n) (zN (tip (e :: r)))); try reflexivity; lia.
Qed.

(* SnapshotForBlock: the number of nodes of the head-aligned view *)
Lemma C20_snapshot_regenerated : forall c bn, fits c -> contains c bn = true ->
  snapshot c bn = firstn (Z.to_nat (preconfirmed_snapshot_want (zN (tip c)) (zN bn))) c.
Proof.
  intros c bn (Ht & Hl & Hc) Hin. unfold snapshot. rewrite Hin. f_equal.
  unfold contains in Hin. destruct c as [|e r]; [discriminate|].
  apply andb_prop in Hin. destruct Hin as [H1 H2]. apply N.leb_le in H1, H2. unfold oldest in H1.
  unfold preconfirmed_snapshot_want. cbv zeta.
  rewrite (Z.mod_small (zN (tip (e :: r)) - zN bn)) by lia.
  rewrite Z.mod_small by lia. rewrite wrap_small by lia. lia.
Qed.

(* AdvanceTo: how many of the oldest nodes are dropped / how many are kept *)
Lemma C20_advance_regenerated : forall c o, c <> [] -> fits c -> contains c o = true ->
  advance_to c o =
    if (o =? oldest c)%N then (c, false)
    else let drop := preconfirmed_advance_drop (zN o) (zN (oldest c)) in
         (firstn (Z.to_nat (preconfirmed_advance_keep (Z.of_nat (length c)) drop)) c, true).
Proof.
  intros c o Hne (Ht & Hl & Hc) Hin. unfold advance_to. destruct c as [|e r]; [congruence|].
  cbv zeta. rewrite Hin. cbn [negb].
  destruct (N.eqb_spec o (oldest (e :: r))); [reflexivity|].
  unfold contains in Hin. apply andb_prop in Hin. destruct Hin as [H1 H2]. apply N.leb_le in H1, H2.
  f_equal. f_equal. unfold preconfirmed_advance_keep, preconfirmed_advance_drop. cbv zeta.
  assert (Ho : (oldest (e :: r) <= tip (e :: r))%N) by (unfold oldest; lia).
  assert (Hd : (zN o - zN (oldest (e :: r)) < Z.of_nat (length (e :: r)))%Z) by (unfold oldest in *; lia).
  rewrite (Z.mod_small (zN o - zN (oldest (e :: r)))) by lia.
  rewrite (wrap_small (zN o - zN (oldest (e :: r)))) by lia.
  rewrite wrap_small by lia. lia.
Qed.

(* shouldPreserveSlot: the blank identifier is the number the model compares with, and the two count tests *)
Lemma C20_should_preserve_regenerated : forall ex inc,
  should_preserve ex inc =
    if negb (e_id inc =? e_id ex)%N && negb (zN (e_id inc) =? feeder_PreConfirmedBlankIdentifier)%Z then false
    else if preconfirmed_preserve_fewer_txs (zN (len (e_items inc))) (zN (len (e_items ex))) then false
    else if preconfirmed_preserve_fewer_classes (zN (len (e_classes inc))) (zN (len (e_classes ex))) then false
    else true.
Proof.
  intros ex inc. unfold should_preserve, preconfirmed_preserve_fewer_txs, preconfirmed_preserve_fewer_classes.
  change feeder_PreConfirmedBlankIdentifier with 0%Z.
  replace (zN (e_id inc) =? 0)%Z with (e_id inc =? 0)%N
    by (destruct (N.eqb_spec (e_id inc) 0); destruct (Z.eqb_spec (zN (e_id inc)) 0); try reflexivity; lia).
  destruct (negb (e_id inc =? e_id ex)%N && negb (e_id inc =? 0)%N); [reflexivity|].
  replace (zN (len (e_items ex)) <? zN (len (e_items inc)))%Z with (len (e_items ex) <? len (e_items inc))%N
    by (destruct (N.ltb_spec (len (e_items ex)) (len (e_items inc))); destruct (Z.ltb_spec (zN (len (e_items ex))) (zN (len (e_items inc)))); try reflexivity; lia).
  destruct (len (e_items ex) <? len (e_items inc))%N; [reflexivity|].
  replace (zN (len (e_classes ex)) <? zN (len (e_classes inc)))%Z with (len (e_classes ex) <? len (e_classes inc))%N
    by (destruct (N.ltb_spec (len (e_classes ex)) (len (e_classes inc))); destruct (Z.ltb_spec (zN (len (e_classes ex))) (zN (len (e_classes inc)))); try reflexivity; lia).
  reflexivity.
Qed.

Lemma C20_consts_ok :
  feeder_PreConfirmedBlankIdentifier = 0%Z /\
  (forall c n, preconfirmed_contains (Z.of_nat (length c)) (zN (oldest c)) (zN (tip c)) (zN n) = contains c n).
Proof. split; [reflexivity|exact C20_contains_regenerated]. Qed.
Print Assumptions C20_advance_regenerated.
