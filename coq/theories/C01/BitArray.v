(* C01 — core/trie/bitarray.go and core/trie/node.go (WriteTo / UnmarshalBinary) at WORD / BYTE level.
   Executable definitions only (proofs: Proofs_ba_*.v; theorems restated in Props.v).

   type BitArray struct { len uint8; words [4]uint64 }   (words[0] least significant)

   Every operation is written the way the Go code computes it: per-word shifts and masks with Go's
   uint64 semantics (a shift count >= 64 gives 0; << drops the bits that leave the word), uint8
   arithmetic on lengths with wrap-around, the switch over 64-bit word boundaries in Rsh / Lsh /
   LSBsFromLSB / truncateToLength, findFirstSetBit with bits.LeadingZeros64 and its uint8 conversion,
   Cmp with the bits.Sub64 borrow chain, the "active bytes" serialisation.  Go mutates a receiver and
   returns it; the model returns the new value (aliasing receiver = argument is exercised by the
   differential run, see harness/cmd/c01/bitarray.go).  The only receiver state an operation keeps is
   modelled explicitly: Xor keeps the receiver's len (argument [l] of [ba_xor]), SetUint64 keeps
   words[1..3], Node.UnmarshalBinary keeps non-nil LeftHash/RightHash of the receiver.

   Numbers are N.  A [bitarray] value is "in range" when len < 2^8 and every word < 2^64 (what the Go
   types guarantee) and "well formed" when additionally the bits above len are zero (what
   truncateToLength establishes).  The abstraction [bits] lists the low len bits, most significant
   first: it is the [list bool] the legacy-trie model Trie1.v computes with. *)
From Coq Require Import List NArith Bool.
Import ListNotations.
Local Open Scope N_scope.

(* ---------- machine arithmetic ---------- *)
Definition W64 : N := 18446744073709551616.       (* 2^64 *)
Definition max64 : N := 18446744073709551615.     (* maxUint64 *)
Definition u64 (x : N) : N := x mod W64.
Definition u8 (x : N) : N := x mod 256.
Definition shl (x n : N) : N := u64 (N.shiftl x n).   (* uint64 << n; n >= 64 gives 0 *)
Definition shr (x n : N) : N := N.shiftr x n.         (* uint64 >> n; n >= 64 gives 0 for x < 2^64 *)
Definition sub8 (a b : N) : N := u8 (a + 256 - b).    (* uint8 a - b *)
Definition add8 (a b : N) : N := u8 (a + b).          (* uint8 a + b *)

Record bitarray := BA { blen : N; w0 : N; w1 : N; w2 : N; w3 : N }.

Definition word (b : bitarray) (i : N) : N :=
  match i with 0 => w0 b | 1 => w1 b | 2 => w2 b | 3 => w3 b | _ => 0 end.

(* ---------- abstraction ---------- *)
Definition val (b : bitarray) : N :=
  w0 b + 2 ^ 64 * w1 b + 2 ^ 128 * w2 b + 2 ^ 192 * w3 b.

(* the low [l] bits of [v], most significant first *)
Fixpoint bits_of (v : N) (l : nat) : list bool :=
  match l with
  | O => []
  | S l' => N.testbit v (N.of_nat l') :: bits_of v l'
  end.

Definition bits (b : bitarray) : list bool := bits_of (val b) (N.to_nat (blen b)).

Definition inrange (b : bitarray) : Prop :=
  blen b < 256 /\ w0 b < 2 ^ 64 /\ w1 b < 2 ^ 64 /\ w2 b < 2 ^ 64 /\ w3 b < 2 ^ 64.
Definition wf (b : bitarray) : Prop := inrange b /\ val b < 2 ^ blen b.

(* the same as boolean functions (run by the oracle on what the implementation returned) *)
Definition inrangeb (b : bitarray) : bool :=
  (blen b <? 256) && (w0 b <? W64) && (w1 b <? W64) && (w2 b <? W64) && (w3 b <? W64).
Definition wfb (b : bitarray) : bool := inrangeb b && (val b <? 2 ^ blen b).

(* a list of bits (most significant first) as a number *)
Fixpoint N_of_bits_acc (acc : N) (l : list bool) : N :=
  match l with
  | [] => acc
  | b :: r => N_of_bits_acc (2 * acc + N.b2n b) r
  end.
Definition N_of_bits (l : list bool) : N := N_of_bits_acc 0 l.

(* ---------- constructors / trivial operations ---------- *)
Definition ba_empty : bitarray := BA 0 0 0 0 0.          (* new(BitArray), clear() *)
Definition ba_clear : bitarray := ba_empty.
Definition ba_set (x : bitarray) : bitarray := x.        (* Set, Copy *)
Definition ba_len (b : bitarray) : N := blen b.
Definition ba_is_empty (b : bitarray) : bool := blen b =? 0.

(* truncateToLength *)
Definition truncate (b : bitarray) : bitarray :=
  let l := blen b in
  if l =? 0 then BA l 0 0 0 0
  else if l <=? 64 then BA l (N.land (w0 b) (shr max64 (64 - l))) 0 0 0
  else if l <=? 128 then BA l (w0 b) (N.land (w1 b) (shr max64 (128 - l))) 0 0
  else if l <=? 192 then BA l (w0 b) (w1 b) (N.land (w2 b) (shr max64 (192 - l))) 0
  else BA l (w0 b) (w1 b) (w2 b) (N.land (w3 b) (shr max64 (256 - l))).

(* LSBsFromLSB(x, n): the n least significant bits *)
Definition lsbs_from_lsb (x : bitarray) (n : N) : bitarray :=
  if blen x <=? n then x
  else if n =? 0 then BA n 0 0 0 0
  else if n <=? 64 then BA n (N.land (w0 x) (shr max64 (64 - n))) 0 0 0
  else if n <=? 128 then BA n (w0 x) (N.land (w1 x) (shr max64 (128 - n))) 0 0
  else if n <=? 192 then BA n (w0 x) (w1 x) (N.land (w2 x) (shr max64 (192 - n))) 0
  else BA n (w0 x) (w1 x) (w2 x) (N.land (w3 x) (shr max64 (256 - n))).

(* LSBs(x, n) = x[n:] *)
Definition lsbs (x : bitarray) (n : N) : bitarray :=
  if n =? 0 then x
  else if blen x <? n then ba_clear
  else lsbs_from_lsb x (sub8 (blen x) n).

(* the switch of Rsh (0 < n < x.len), before truncateToLength *)
Definition rsh_words (x : bitarray) (n : N) : bitarray :=
  let l := sub8 (blen x) n in
  if 192 <=? n then
    let n := n - 192 in
    BA l (shr (w3 x) n) 0 0 0
  else if 128 <=? n then
    let n := n - 128 in
    BA l (N.lor (shr (w2 x) n) (shl (w3 x) (64 - n))) (shr (w3 x) n) 0 0
  else if 64 <=? n then
    let n := n - 64 in
    BA l (N.lor (shr (w1 x) n) (shl (w2 x) (64 - n)))
         (N.lor (shr (w2 x) n) (shl (w3 x) (64 - n))) (shr (w3 x) n) 0
  else
    BA l (N.lor (shr (w0 x) n) (shl (w1 x) (64 - n)))
         (N.lor (shr (w1 x) n) (shl (w2 x) (64 - n)))
         (N.lor (shr (w2 x) n) (shl (w3 x) (64 - n))) (shr (w3 x) n).

(* Rsh(x, n) *)
Definition rsh (x : bitarray) (n : N) : bitarray :=
  if blen x =? 0 then x
  else if blen x <=? n then ba_clear
  else if n =? 0 then x
  else truncate (rsh_words x n).

(* MSBs(x, n) = x[0:n] *)
Definition msbs (x : bitarray) (n : N) : bitarray :=
  if blen x <=? n then x else rsh x (sub8 (blen x) n).

(* the switch of Lsh (n > 0), before truncateToLength; [l] is the new length *)
Definition lsh_words (l : N) (x : bitarray) (n : N) : bitarray :=
  if 192 <=? n then
    let n := n - 192 in
    BA l 0 0 0 (shl (w0 x) n)
  else if 128 <=? n then
    let n := n - 128 in
    BA l 0 0 (shl (w0 x) n) (N.lor (shl (w1 x) n) (shr (w0 x) (64 - n)))
  else if 64 <=? n then
    let n := n - 64 in
    BA l 0 (shl (w0 x) n) (N.lor (shl (w1 x) n) (shr (w0 x) (64 - n)))
         (N.lor (shl (w2 x) n) (shr (w1 x) (64 - n)))
  else
    BA l (shl (w0 x) n) (N.lor (shl (w1 x) n) (shr (w0 x) (64 - n)))
         (N.lor (shl (w2 x) n) (shr (w1 x) (64 - n)))
         (N.lor (shl (w3 x) n) (shr (w2 x) (64 - n))).

(* Lsh(x, n): on overflow the length saturates at 255 but the words are still shifted by n *)
Definition lsh (x : bitarray) (n : N) : bitarray :=
  if (blen x =? 0) || (n =? 0) then x
  else
    let l := if sub8 255 (blen x) <? n then 255 else add8 (blen x) n in
    truncate (lsh_words l x n).

(* Or / And: the result takes x's length *)
Definition ba_or (x y : bitarray) : bitarray :=
  BA (blen x) (N.lor (w0 x) (w0 y)) (N.lor (w1 x) (w1 y)) (N.lor (w2 x) (w2 y)) (N.lor (w3 x) (w3 y)).
Definition ba_and (x y : bitarray) : bitarray :=
  BA (blen x) (N.land (w0 x) (w0 y)) (N.land (w1 x) (w1 y)) (N.land (w2 x) (w2 y)) (N.land (w3 x) (w3 y)).
(* Xor does not touch the receiver's len: [l] *)
Definition ba_xor (l : N) (x y : bitarray) : bitarray :=
  BA l (N.lxor (w0 x) (w0 y)) (N.lxor (w1 x) (w1 y)) (N.lxor (w2 x) (w2 y)) (N.lxor (w3 x) (w3 y)).

(* Equal (on non-nil pointers) *)
Definition ba_eqb (x y : bitarray) : bool :=
  (blen x =? blen y) && (w0 x =? w0 y) && (w1 x =? w1 y) && (w2 x =? w2 y) && (w3 x =? w3 y).
(* Equal on possibly-nil pointers *)
Definition oba_eqb (x y : option bitarray) : bool :=
  match x, y with
  | Some a, Some b => ba_eqb a b
  | None, None => true
  | _, _ => false
  end.

(* SetBit, Ones, Zeros, SetUint64 (on a receiver whose words[1..3] are r1 r2 r3) *)
Definition set_bit (bit : N) : bitarray := BA 1 (N.land bit 1) 0 0 0.
Definition ones (length : N) : bitarray := truncate (BA length max64 max64 max64 max64).
Definition zeros (length : N) : bitarray := BA length 0 0 0 0.
Definition set_uint64 (recv : bitarray) (length data : N) : bitarray :=
  truncate (BA length data (w1 recv) (w2 recv) (w3 recv)).
Definition new_bit_array (length data : N) : bitarray := set_uint64 ba_empty length data.

(* Append(x, y) *)
Definition append (x y : bitarray) : bitarray :=
  if (blen x =? 0) || (blen y =? 255) then y
  else if blen y =? 0 then x
  else ba_or (lsh x (blen y)) y.
Definition append_bit (x : bitarray) (bit : N) : bitarray := append x (set_bit bit).
Definition append_zeros (x : bitarray) (n : N) : bitarray := append x (zeros n).

(* BitFromLSB / Bit / IsBitSet / MSB / LSB *)
Definition bit_from_lsb (b : bitarray) (n : N) : N :=
  if blen b <=? n then 0
  else if N.land (word b (n / 64)) (shl 1 (n mod 64)) =? 0 then 0 else 1.
Definition is_bit_set_from_lsb (b : bitarray) (n : N) : bool := bit_from_lsb b n =? 1.
Definition bit (b : bitarray) (n : N) : N :=
  if blen b <=? n then 0 else bit_from_lsb b (sub8 (sub8 (blen b) n) 1).
Definition ba_is_bit_set (b : bitarray) (n : N) : bool := bit b n =? 1.
Definition ba_msb (b : bitarray) : N := bit b 0.
Definition ba_lsb (b : bitarray) : N := bit_from_lsb b 0.

(* bits.LeadingZeros64 *)
Definition lz64 (w : N) : N := 64 - N.size w.
(* findFirstSetBit: uint8((i+1)*64 - LeadingZeros64(words[i])) for the most significant non-zero word *)
Definition find_first_set_bit (b : bitarray) : N :=
  if blen b =? 0 then 0
  else if negb (w3 b =? 0) then u8 (256 - lz64 (w3 b))
  else if negb (w2 b =? 0) then u8 (192 - lz64 (w2 b))
  else if negb (w1 b =? 0) then u8 (128 - lz64 (w1 b))
  else if negb (w0 b =? 0) then u8 (64 - lz64 (w0 b))
  else 0.

(* CommonMSBs(x, y) *)
Definition ba_common_msbs (x y : bitarray) : bitarray :=
  if (blen x =? 0) || (blen y =? 0) then ba_clear
  else
    let long := if blen x <? blen y then y else x in
    let short := if blen x <? blen y then x else y in
    let diff := sub8 (blen long) (blen short) in
    let b1 := rsh long diff in
    let b2 := ba_xor (blen b1) b1 short in
    let divergent := find_first_set_bit b2 in
    rsh short divergent.

(* EqualMSBs *)
Definition ba_equal_msbs (b x : bitarray) : bool :=
  if blen b =? blen x then ba_eqb b x
  else if (blen b =? 0) || (blen x =? 0) then true
  else
    let m := N.min (blen b) (blen x) in
    ba_eqb (msbs b m) (msbs x m).

(* Subset(x, startPos, endPos) = x[start:end] *)
Definition subset (x : bitarray) (s e : N) : bitarray :=
  if (e <=? s) || (blen x <=? s) then ba_clear
  else
    let e := if blen x <? e then blen x else e in
    let length := sub8 e s in
    let b := lsbs x s in
    let mask := ones length in
    let zs := zeros (sub8 (blen b) length) in
    let mask := append mask zs in
    msbs (ba_and b mask) length.

(* bits.Sub64 *)
Definition sub64 (x y borrow : N) : N * N :=
  (u64 (x + 2 * W64 - y - borrow), if x <? y + borrow then 1 else 0).
(* Cmp: -1 / 0 / 1 as Lt / Eq / Gt *)
Definition ba_cmp (b x : bitarray) : comparison :=
  if blen b <? blen x then Lt
  else if blen x <? blen b then Gt
  else
    let '(d0, c) := sub64 (w0 b) (w0 x) 0 in
    let '(d1, c) := sub64 (w1 b) (w1 x) c in
    let '(d2, c) := sub64 (w2 b) (w2 x) c in
    let '(d3, c) := sub64 (w3 b) (w3 x) c in
    if c =? 1 then Lt
    else if N.lor (N.lor (N.lor d0 d1) d2) d3 =? 0 then Eq
    else Gt.

(* ---------- bytes ---------- *)
(* k bytes, big endian, of v (binary.BigEndian.PutUint64 for k = 8, felt.Bytes for k = 32) *)
Fixpoint be_bytes (k : nat) (v : N) : list N :=
  match k with
  | O => []
  | S k' => (v / 2 ^ (8 * N.of_nat k')) mod 256 :: be_bytes k' v
  end.
(* big-endian value of a byte string (binary.BigEndian.Uint64 on 8 bytes) *)
Definition be_val (l : list N) : N := fold_left (fun acc b => acc * 256 + b) l 0.

(* Bytes(): 32 bytes, words[3] first *)
Definition bytes32 (b : bitarray) : list N :=
  be_bytes 8 (w3 b) ++ be_bytes 8 (w2 b) ++ be_bytes 8 (w1 b) ++ be_bytes 8 (w0 b).
(* setBytes32 on a 32-byte string *)
Definition set_bytes32 (l : N) (bs : list N) : bitarray :=
  BA l (be_val (firstn 8 (skipn 24 bs))) (be_val (firstn 8 (skipn 16 bs)))
       (be_val (firstn 8 (skipn 8 bs))) (be_val (firstn 8 bs)).

Definition byte_count (b : bitarray) : N := (blen b + 7) / 8.
Definition encoded_len (b : bitarray) : N := byte_count b + 1.
Definition active_bytes (b : bitarray) : list N :=
  skipn (N.to_nat (32 - byte_count b)) (bytes32 b).
(* Write: the length byte, then the active bytes *)
Definition ba_write (b : bitarray) : list N := blen b :: active_bytes b.
(* UnmarshalBinary: trailing bytes beyond the active ones are ignored; no truncation to len *)
Definition ba_unmarshal (data : list N) : option bitarray :=
  match data with
  | [] => None
  | length :: rest =>
      let bc := (length + 7) / 8 in
      if N.of_nat (List.length data) <? bc + 1 then None
      else Some (set_bytes32 length (repeat 0 (N.to_nat (32 - bc)) ++ firstn (N.to_nat bc) rest))
  end.
(* EncodedString: 33 bytes *)
Definition encoded_string (b : bitarray) : list N := blen b :: bytes32 b.

(* SetBytes(length, data): big-endian value of the first 32 bytes (a 32-way switch in Go) *)
Definition set_bytes (length : N) (data : list N) : bitarray :=
  let d := firstn 32 data in
  truncate (set_bytes32 length (repeat 0 (32 - List.length d)%nat ++ d)).

(* felts are numbers below P; felt.Bytes() is the 32-byte big-endian form, felt.SetBytes reduces mod P *)
Definition felt_P : N := 2 ^ 251 + 17 * 2 ^ 192 + 1.
Definition felt_bytes (f : N) : list N := be_bytes 32 f.
Definition felt_set_bytes (bs : list N) : N := be_val bs mod felt_P.

(* SetFelt(length, f) / SetFelt251 / Felt() *)
Definition set_felt (length f : N) : bitarray := truncate (set_bytes32 length (felt_bytes f)).
Definition set_felt251 (f : N) : bitarray := set_felt 251 f.
Definition ba_felt (b : bitarray) : N := felt_set_bytes (bytes32 b).

(* trie.go path(key, parentKey): LSBs(key, parentKey.Len()+1) in uint8; nil parent = copy *)
Definition ba_path (key : bitarray) (parent : option bitarray) : bitarray :=
  match parent with
  | None => key
  | Some p => lsbs key (add8 (blen p) 1)
  end.

(* ---------- trie.Node serialisation (node.go WriteTo / UnmarshalBinary) ---------- *)
Record snode := SN {
  sn_value : option N;                 (* Value *felt.Felt *)
  sn_left : option bitarray;           (* Left *)
  sn_right : option bitarray;          (* Right *)
  sn_lh : option N;                    (* LeftHash *)
  sn_rh : option N                     (* RightHash *)
}.

(* WriteTo. None = the Go code returns an error (nil Value, exactly one of LeftHash/RightHash) or
   dereferences nil (Left set, Right nil) *)
Definition node_encode (n : snode) : option (list N) :=
  match sn_value n with
  | None => None
  | Some v =>
      let vb := felt_bytes v in
      let kids :=
        match sn_left n with
        | None => Some []
        | Some l => match sn_right n with
                    | None => None
                    | Some r => Some (ba_write l ++ ba_write r)
                    end
        end in
      match kids with
      | None => None
      | Some kb =>
          match sn_lh n, sn_rh n with
          | None, None => Some (vb ++ kb)
          | Some lh, Some rh => Some (vb ++ kb ++ felt_bytes lh ++ felt_bytes rh)
          | _, _ => None
          end
      end
  end.

(* UnmarshalBinary on a receiver whose LeftHash/RightHash are rlh / rrh (nodes come from a pool):
   a node with children but without the 64 hash bytes leaves LeftHash/RightHash non-nil: the
   receiver's old values, or zero for a fresh receiver *)
Definition node_decode (rlh rrh : option N) (data : list N) : option snode :=
  if N.of_nat (List.length data) <? 32 then None
  else
    let v := felt_set_bytes (firstn 32 data) in
    let d1 := skipn 32 data in
    match d1 with
    | [] => Some (SN (Some v) None None None None)
    | _ =>
        match ba_unmarshal d1 with
        | None => None
        | Some l =>
            let d2 := skipn (N.to_nat (encoded_len l)) d1 in
            match ba_unmarshal d2 with
            | None => None
            | Some r =>
                let d3 := skipn (N.to_nat (encoded_len r)) d2 in
                let lh0 := match rlh with Some h => h | None => 0 end in
                let rh0 := match rrh with Some h => h | None => 0 end in
                match d3 with
                | [] => Some (SN (Some v) (Some l) (Some r) (Some lh0) (Some rh0))
                | _ =>
                    if negb (N.of_nat (List.length d3) =? 64) then None
                    else Some (SN (Some v) (Some l) (Some r)
                                  (Some (felt_set_bytes (firstn 32 d3)))
                                  (Some (felt_set_bytes (firstn 32 (skipn 32 d3)))))
                end
            end
        end
    end.

(* what a decode of an encoded node yields: the hash fields of an inner node stored without hashes *)
Definition node_fill (rlh rrh : option N) (n : snode) : snode :=
  match sn_left n, sn_lh n with
  | Some _, None =>
      SN (sn_value n) (sn_left n) (sn_right n)
         (Some (match rlh with Some h => h | None => 0 end))
         (Some (match rrh with Some h => h | None => 0 end))
  | _, _ => n
  end.

(* a node WriteTo accepts and UnmarshalBinary gives back: canonical felts, well-formed child keys,
   children both-or-none, hashes both-or-none and only next to children *)
Definition obound (o : option N) : Prop := match o with Some v => v < felt_P | None => True end.
Definition owf (o : option bitarray) : Prop := match o with Some b => wf b | None => True end.
Definition node_wf (n : snode) : Prop :=
  (exists v, sn_value n = Some v /\ v < felt_P) /\
  owf (sn_left n) /\ owf (sn_right n) /\ obound (sn_lh n) /\ obound (sn_rh n) /\
  (sn_left n = None <-> sn_right n = None) /\
  (sn_lh n = None <-> sn_rh n = None) /\
  (sn_left n = None -> sn_lh n = None).
