(* C01 — entry points run by the oracle (term instance of the hash parameters). *)
From Coq Require Import List ZArith Bool.
From V Require Export C01.Trie2 C01.Term C01.State.
Import ListNotations.

Definition tnode := node term.
Definition ttree := tree term.

Definition t_update (t : ttree) (k : list bool) (v : term) : ttree := update term tzero t k v.
Definition t_root (hf : term -> term -> term) (t : ttree) : term := root term hf TPath TAddLen (TC 0) t.
Definition t_canon (h : nat) (t : ttree) : bool := canont term tzero h t.
Definition t_get (t : ttree) (k : list bool) : option term := get term t k.

(* run a sequence of updates (key as a number, height h) from the empty trie, returning every
   intermediate tree *)
Fixpoint t_run (h : nat) (t : ttree) (ops : list (Z * Z)) : list ttree :=
  match ops with
  | [] => []
  | (k, v) :: r => let t' := t_update t (bits_of_Z h k) (TC v) in t' :: t_run h t' r
  end.

(* the abstract key/value set after the same updates *)
Definition abs_run (ops : list (Z * Z)) : list (Z * Z) :=
  fold_left (fun m kv => write_slot m (fst kv) (snd kv)) ops [].

Definition t_spec_root (hf : term -> term -> term) (h : nat) (m : list (Z * Z)) : term :=
  spec_root_fast term hf TPath TAddLen (TC 0) h (map (fun kv => (bits_of_Z h (fst kv), TC (snd kv))) m).

(* states *)
Fixpoint s_run (purge : bool) (st : state) (ds : list diff) : list state :=
  match ds with
  | [] => []
  | d :: r => let st' := apply_diff purge st d in st' :: s_run purge st' r
  end.

(* ---------- the legacy flat trie (Trie1.v), term instance ---------- *)
From V Require C01.Trie1.

Definition t1_state := Trie1.fstate term.
Definition t1_empty : t1_state := Trie1.empty1 term.
Definition t1_put (hf : term -> term -> term) (st : t1_state) (k : list bool) (v : Z) : option t1_state :=
  Trie1.put term tzero hf TPath TAddLen st k (TC v).
Definition t1_commit (hf : term -> term -> term) (h : nat) (st : t1_state) : option (t1_state * term) :=
  Trie1.commit term hf TPath TAddLen (TC 0) h st.

Inductive t1_res := T1Root (t : term) | T1Skip | T1Err.

(* ops: (key, value, call Hash() after this Put?) *)
Fixpoint t1_run (hf : term -> term -> term) (h : nat) (st : t1_state) (ops : list (Z * Z * bool))
  : list t1_res * option t1_state :=
  match ops with
  | [] => ([], Some st)
  | (k, v, hashit) :: r =>
      match t1_put hf st (bits_of_Z h k) v with
      | None => ([T1Err], None)
      | Some st1 =>
          if hashit then
            match t1_commit hf h st1 with
            | None => ([T1Err], None)
            | Some (st2, rt) => let '(l, f) := t1_run hf h st2 r in (T1Root rt :: l, f)
            end
          else let '(l, f) := t1_run hf h st1 r in (T1Skip :: l, f)
      end
  end.

(* the stored node map: (key, left link, right link, stored value) *)
Definition t1_dump (st : t1_state) : list (list bool * option (list bool) * option (list bool) * term) :=
  map (fun ke => (fst ke, Trie1.nleft (snd ke), Trie1.nright (snd ke), Trie1.nval (snd ke))) (Trie1.nodes st).
Definition t1_root_key (st : t1_state) : option (list bool) := Trie1.root_key st.
Definition t1_dirty (st : t1_state) : list (list bool) := Trie1.dirty st.
