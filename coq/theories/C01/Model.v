(* C01 — entry points run by the oracle (term instance of the hash parameters). *)
From Coq Require Import List ZArith Bool.
From V Require Export C01.Trie2 C01.Term C01.State.
Import ListNotations.

Definition tnode := node term.
Definition ttree := tree term.

Definition t_update (t : ttree) (k : list bool) (v : term) : ttree := update term tzero t k v.
Definition t_root (hf : term -> term -> term) (t : ttree) : term := root term hf TPath TAddLen (TC 0) t.
Definition t_canon (h : nat) (t : ttree) : bool := canont term tzero h t.
Definition t_get (t : ttree) (k : list bool) : option term := get term t k.

(* run a sequence of updates (key as a number, height h) from the empty trie, returning every
   intermediate tree *)
Fixpoint t_run (h : nat) (t : ttree) (ops : list (Z * Z)) : list ttree :=
  match ops with
  | [] => []
  | (k, v) :: r => let t' := t_update t (bits_of_Z h k) (TC v) in t' :: t_run h t' r
  end.

(* the abstract key/value set after the same updates *)
Definition abs_run (ops : list (Z * Z)) : list (Z * Z) :=
  fold_left (fun m kv => write_slot m (fst kv) (snd kv)) ops [].

Definition t_spec_root (hf : term -> term -> term) (h : nat) (m : list (Z * Z)) : term :=
  spec_root_fast term hf TPath TAddLen (TC 0) h (map (fun kv => (bits_of_Z h (fst kv), TC (snd kv))) m).

(* states *)
Fixpoint s_run (purge : bool) (st : state) (ds : list diff) : list state :=
  match ds with
  | [] => []
  | d :: r => let st' := apply_diff purge st d in st' :: s_run purge st' r
  end.
