(* C01 — consequences of Trie2Proofs: the abstract map after an update sequence, independence of the
   commitment from enumeration order, and the root-level statements for every hash instance. *)
From Coq Require Import List Bool Arith Lia Permutation.
From V Require Import C01.Trie2 C01.Trie2Proofs.
Import ListNotations.

Section Abs.
Variable F : Type.
Variable fzero : F -> bool.

Definition amap := list bool -> option F.
Definition aempty : amap := fun _ => None.
Definition aupd (m : amap) (k : list bool) (v : F) : amap :=
  fun k' => if list_eq_dec bool_dec k k' then (if fzero v then None else Some v) else m k'.
Definition arun (ops : list (list bool * F)) : amap :=
  fold_left (fun m kv => aupd m (fst kv) (snd kv)) ops aempty.

Lemma fold_get : forall h ops t (m : amap),
  ops_ok F h ops -> canont F fzero h t = true ->
  (forall k, length k = h -> get F t k = m k) ->
  forall k, length k = h ->
    get F (fold_left (fun t kv => update F fzero t (fst kv) (snd kv)) ops t) k =
    fold_left (fun m kv => aupd m (fst kv) (snd kv)) ops m k.
Proof.
  induction ops as [|[k0 v0] ops IH]; intros t m Hok Hc Hm k Hk; cbn; [apply Hm; exact Hk|].
  inversion Hok as [|? ? Hk0 Hok']; subst. cbn in Hk0.
  apply IH; auto.
  - apply update_canon; auto.
  - intros k' Hk'. unfold aupd. rewrite (get_update F fzero (length k)); auto.
    cbn. destruct (list_eq_dec bool_dec k0 k'); auto.
Qed.

(* the tree reached by any update sequence represents exactly the abstract map *)
Theorem run_get : forall h ops k, ops_ok F h ops -> length k = h ->
  get F (run F fzero h ops) k = arun ops k.
Proof.
  intros h ops k Hok Hk. unfold run, arun. apply (fold_get h); auto.
Qed.

(* order, batching, overwrites, zero writes: two sequences with the same resulting map give the same tree *)
Theorem run_same_map : forall h ops1 ops2, ops_ok F h ops1 -> ops_ok F h ops2 ->
  (forall k, length k = h -> arun ops1 k = arun ops2 k) ->
  run F fzero h ops1 = run F fzero h ops2.
Proof.
  intros h ops1 ops2 H1 H2 Hm. apply (run_determined_by_map F fzero h); auto.
  intros k Hk. rewrite !run_get; auto.
Qed.

(* enumeration order of the key/value set (Go map iteration) does not matter *)
Lemma assoc_in : forall (m : list (list bool * F)) k v, NoDup (map fst m) -> In (k, v) m -> assoc F m k = Some v.
Proof.
  induction m as [|[k0 v0] m IH]; intros k v Hnd Hin; [destruct Hin|].
  unfold assoc. cbn [find fst snd]. inversion Hnd as [|? ? Hni Hnd']; subst.
  destruct (list_eq_dec bool_dec k0 k) as [->|Hne].
  - destruct Hin as [E|Hin]; [injection E as ->; reflexivity|].
    exfalso. apply Hni. apply (in_map fst) in Hin. exact Hin.
  - destruct Hin as [E|Hin]; [injection E as -> ->; contradiction|].
    apply (IH k v Hnd' Hin).
Qed.

Lemma assoc_none : forall (m : list (list bool * F)) k, ~ In k (map fst m) -> assoc F m k = None.
Proof.
  induction m as [|[k0 v0] m IH]; intros k Hni; [reflexivity|].
  unfold assoc. cbn [find fst snd]. destruct (list_eq_dec bool_dec k0 k) as [->|Hne].
  - exfalso. apply Hni. left. reflexivity.
  - apply IH. intros Hin. apply Hni. right. exact Hin.
Qed.

Lemma assoc_perm : forall (m m' : list (list bool * F)) k,
  NoDup (map fst m) -> Permutation m m' -> assoc F m k = assoc F m' k.
Proof.
  intros m m' k Hnd Hp.
  assert (Hnd' : NoDup (map fst m')) by (eapply Permutation_NoDup; [apply Permutation_map; exact Hp|exact Hnd]).
  destruct (in_dec (list_eq_dec bool_dec) k (map fst m)) as [Hin|Hni].
  - apply in_map_iff in Hin. destruct Hin as [[k1 v] [E Hin]]. cbn in E. subst k1.
    rewrite (assoc_in m k v Hnd Hin).
    symmetry. apply assoc_in; auto. eapply Permutation_in; eauto.
  - rewrite (assoc_none m k Hni). symmetry. apply assoc_none.
    intros Hin. apply Hni. eapply Permutation_in; [apply Permutation_sym, Permutation_map; exact Hp|exact Hin].
Qed.

Theorem build_perm : forall h m m', wf_map F fzero h m -> Permutation m m' -> build F h m = build F h m'.
Proof.
  intros h m m' [Hnd Hall] Hp.
  assert (Hwf' : wf_map F fzero h m').
  { split.
    - eapply Permutation_NoDup; [apply Permutation_map; exact Hp|exact Hnd].
    - eapply Permutation_Forall; eauto. }
  assert (Hwf : wf_map F fzero h m) by (split; auto).
  apply (canont_unique F fzero h).
  - apply (build_canon F fzero); exact Hwf.
  - apply (build_canon F fzero); exact Hwf'.
  - intros k Hk. rewrite (get_build F fzero h m k Hwf Hk), (get_build F fzero h m' k Hwf' Hk).
    apply assoc_perm; auto.
Qed.

End Abs.

(* ---------- root-level statements, for every instance of the hash parameters ---------- *)
Section Roots.
Variable F : Type.
Variable fzero : F -> bool.
Variable ped : F -> F -> F.
Variable of_path : list bool -> F.
Variable add_len : F -> nat -> F.
Variable f0 : F.

Theorem root_function_of_set : forall h ops1 ops2, ops_ok F h ops1 -> ops_ok F h ops2 ->
  (forall k, length k = h -> arun F fzero ops1 k = arun F fzero ops2 k) ->
  root F ped of_path add_len f0 (run F fzero h ops1) = root F ped of_path add_len f0 (run F fzero h ops2).
Proof. intros h ops1 ops2 H1 H2 Hm. f_equal. apply (run_same_map F fzero h); auto. Qed.

Theorem root_is_spec : forall h ops m, ops_ok F h ops -> wf_map F fzero h m ->
  (forall k, length k = h -> arun F fzero ops k = assoc F m k) ->
  root F ped of_path add_len f0 (run F fzero h ops) = spec_root F ped of_path add_len f0 h m.
Proof.
  intros h ops m Hok Hwf Hm. unfold spec_root. f_equal. apply (run_is_build F fzero h); auto.
  intros k Hk. rewrite (run_get F fzero h); auto.
Qed.

Theorem spec_root_perm : forall h m m', wf_map F fzero h m -> Permutation m m' ->
  spec_root F ped of_path add_len f0 h m = spec_root F ped of_path add_len f0 h m'.
Proof. intros h m m' Hwf Hp. unfold spec_root. f_equal. apply (build_perm F fzero h); auto. Qed.

Theorem spec_root_fast_eq : forall h m,
  spec_root_fast F ped of_path add_len f0 h m = spec_root F ped of_path add_len f0 h m.
Proof. intros. unfold spec_root_fast, spec_root. rewrite (build_fast_eq F). reflexivity. Qed.

End Roots.
