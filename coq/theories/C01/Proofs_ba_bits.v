(* C01 — BitArray proofs, part 1: numbers, testbit, and the list view [bits_of]. *)
From Coq Require Import List NArith Bool Lia ZifyN ZifyNat ZifyBool Arith.
From V Require Import C01.BitArray.
Import ListNotations.
Local Open Scope N_scope.

(* ---------- powers / testbit ---------- *)
Lemma pow2_pos : forall k, 0 < 2 ^ k.
Proof. intro k. apply N.neq_0_lt_0. apply N.pow_nonzero. discriminate. Qed.

Lemma pow2_le : forall a b, a <= b -> 2 ^ a <= 2 ^ b.
Proof. intros. apply N.pow_le_mono_r; [discriminate|assumption]. Qed.

Lemma pow2_lt : forall a b, a < b -> 2 ^ a < 2 ^ b.
Proof. intros. apply N.pow_lt_mono_r; [reflexivity|assumption]. Qed.

Lemma pow2_split : forall a b, a <= b -> 2 ^ b = 2 ^ a * 2 ^ (b - a).
Proof. intros. rewrite <- N.pow_add_r. f_equal. lia. Qed.

Lemma testbit_high : forall a m i, a < 2 ^ m -> m <= i -> N.testbit a i = false.
Proof.
  intros a m i Ha Hi. destruct (N.eq_dec a 0) as [->|Hn]; [apply N.bits_0|].
  apply N.bits_above_log2. apply N.lt_le_trans with m; [|assumption].
  apply N.log2_lt_pow2; lia.
Qed.

Lemma lt_pow2_bits : forall a m, (forall i, m <= i -> N.testbit a i = false) -> a < 2 ^ m.
Proof.
  intros a m H. destruct (N.eq_dec a 0) as [->|Hn]; [apply pow2_pos|].
  apply N.log2_lt_pow2; [lia|].
  destruct (N.lt_ge_cases (N.log2 a) m) as [|Hge]; [assumption|].
  specialize (H _ Hge). rewrite N.bit_log2 in H by assumption. discriminate.
Qed.

Lemma mod_pow2_testbit : forall a m i, N.testbit (a mod 2 ^ m) i = (i <? m) && N.testbit a i.
Proof.
  intros. destruct (N.ltb_spec i m).
  - rewrite N.mod_pow2_bits_low by assumption. reflexivity.
  - rewrite N.mod_pow2_bits_high by assumption. reflexivity.
Qed.

Lemma shiftl_testbit : forall a n i, N.testbit (N.shiftl a n) i = (n <=? i) && N.testbit a (i - n).
Proof.
  intros. destruct (N.leb_spec n i).
  - rewrite N.shiftl_spec_high' by assumption. reflexivity.
  - rewrite N.shiftl_spec_low by assumption. reflexivity.
Qed.

Lemma shiftr_testbit : forall a n i, N.testbit (N.shiftr a n) i = N.testbit a (i + n).
Proof. intros. apply N.shiftr_spec'. Qed.

Lemma ones_testbit : forall n i, N.testbit (N.ones n) i = (i <? n).
Proof.
  intros. destruct (N.ltb_spec i n).
  - apply N.ones_spec_low. assumption.
  - apply N.ones_spec_high. assumption.
Qed.

Lemma mod_small_pow2 : forall a m, a < 2 ^ m -> a mod 2 ^ m = a.
Proof. intros. apply N.mod_small. assumption. Qed.

Lemma testbit_cat : forall a b k i, a < 2 ^ k ->
  N.testbit (a + 2 ^ k * b) i = if i <? k then N.testbit a i else N.testbit b (i - k).
Proof.
  intros a b k i Ha. destruct (N.ltb_spec i k).
  - rewrite <- (N.mod_pow2_bits_low (a + 2 ^ k * b) k i) by assumption.
    rewrite N.mul_comm, N.mod_add by (apply N.pow_nonzero; discriminate).
    rewrite N.mod_small by assumption. reflexivity.
  - replace i with ((i - k) + k) at 1 by lia. rewrite <- N.div_pow2_bits.
    rewrite N.mul_comm, N.div_add by (apply N.pow_nonzero; discriminate).
    rewrite N.div_small by assumption. reflexivity.
Qed.

Lemma lor_lt_pow2 : forall a b m, a < 2 ^ m -> b < 2 ^ m -> N.lor a b < 2 ^ m.
Proof.
  intros. apply lt_pow2_bits. intros i Hi. rewrite N.lor_spec.
  rewrite (testbit_high a m i), (testbit_high b m i) by assumption. reflexivity.
Qed.

Lemma land_lt_pow2 : forall a b m, a < 2 ^ m -> N.land a b < 2 ^ m.
Proof.
  intros. apply lt_pow2_bits. intros i Hi. rewrite N.land_spec.
  rewrite (testbit_high a m i) by assumption. reflexivity.
Qed.

Lemma lxor_lt_pow2 : forall a b m, a < 2 ^ m -> b < 2 ^ m -> N.lxor a b < 2 ^ m.
Proof.
  intros. apply lt_pow2_bits. intros i Hi. rewrite N.lxor_spec.
  rewrite (testbit_high a m i), (testbit_high b m i) by assumption. reflexivity.
Qed.

Lemma shiftr_lt_pow2 : forall a n m, a < 2 ^ m -> N.shiftr a n < 2 ^ m.
Proof.
  intros. apply lt_pow2_bits. intros i Hi. rewrite shiftr_testbit.
  apply (testbit_high a m); [assumption|lia].
Qed.

Lemma shiftr_lt_pow2_sub : forall a n m, a < 2 ^ m -> n <= m -> N.shiftr a n < 2 ^ (m - n).
Proof.
  intros. apply lt_pow2_bits. intros i Hi. rewrite shiftr_testbit.
  apply (testbit_high a m); [assumption|lia].
Qed.

Lemma W64_pow : W64 = 2 ^ 64.
Proof. reflexivity. Qed.

Lemma max64_ones : max64 = N.ones 64.
Proof. reflexivity. Qed.

(* maxUint64 >> (64 - l) is the mask of the low l bits *)
Lemma mask_ones : forall l, l <= 64 -> shr max64 (64 - l) = N.ones l.
Proof.
  intros l Hl. unfold shr. apply N.bits_inj. intro i.
  rewrite shiftr_testbit, max64_ones, !ones_testbit.
  destruct (N.ltb_spec i l), (N.ltb_spec (i + (64 - l)) 64); try reflexivity; lia.
Qed.

Lemma land_ones_mod : forall a l, N.land a (N.ones l) = a mod 2 ^ l.
Proof. intros. apply N.land_ones. Qed.

(* ---------- bits_of ---------- *)
Lemma bits_of_length : forall l v, length (bits_of v l) = l.
Proof. induction l; simpl; intros; [reflexivity|f_equal; apply IHl]. Qed.

Lemma bits_of_ext : forall l v v',
  (forall i, i < N.of_nat l -> N.testbit v i = N.testbit v' i) -> bits_of v l = bits_of v' l.
Proof.
  induction l; simpl; intros v v' H; [reflexivity|]. f_equal.
  - apply H. lia.
  - apply IHl. intros i Hi. apply H. lia.
Qed.

Lemma bits_of_inj : forall l v v', bits_of v l = bits_of v' l ->
  forall i, i < N.of_nat l -> N.testbit v i = N.testbit v' i.
Proof.
  induction l; simpl; intros v v' H i Hi; [lia|]. injection H as H1 H2.
  destruct (N.eq_dec i (N.of_nat l)) as [->|Hne]; [assumption|].
  apply IHl; [assumption|lia].
Qed.

Lemma bits_of_mod : forall l v, bits_of (v mod 2 ^ N.of_nat l) l = bits_of v l.
Proof.
  intros. apply bits_of_ext. intros i Hi. rewrite mod_pow2_testbit.
  destruct (N.ltb_spec i (N.of_nat l)); [reflexivity|lia].
Qed.

Lemma bits_of_eq_mod : forall l v v', bits_of v l = bits_of v' l ->
  v mod 2 ^ N.of_nat l = v' mod 2 ^ N.of_nat l.
Proof.
  intros l v v' H. apply N.bits_inj. intro i. rewrite !mod_pow2_testbit.
  destruct (N.ltb_spec i (N.of_nat l)); [|reflexivity]. simpl.
  apply (bits_of_inj l); assumption.
Qed.

Lemma bits_of_eq_small : forall l v v', v < 2 ^ N.of_nat l -> v' < 2 ^ N.of_nat l ->
  bits_of v l = bits_of v' l -> v = v'.
Proof.
  intros l v v' Hv Hv' H. apply bits_of_eq_mod in H.
  rewrite !N.mod_small in H by assumption. assumption.
Qed.

Lemma bits_of_skipn : forall k l v, skipn k (bits_of v l) = bits_of v (l - k).
Proof.
  induction k; intros l v.
  - rewrite Nat.sub_0_r. reflexivity.
  - destruct l; simpl; [reflexivity|]. apply IHk.
Qed.

Lemma bits_of_firstn : forall k l v, (k <= l)%nat ->
  firstn k (bits_of v l) = bits_of (N.shiftr v (N.of_nat (l - k))) k.
Proof.
  induction k; intros l v Hk; [reflexivity|].
  destruct l; [lia|]. simpl. f_equal.
  - rewrite shiftr_testbit. f_equal. lia.
  - rewrite IHk by lia. reflexivity.
Qed.

Lemma bits_of_app : forall la lb a b,
  bits_of a la ++ bits_of b lb =
  bits_of (N.shiftl a (N.of_nat lb) + b mod 2 ^ N.of_nat lb) (la + lb).
Proof.
  induction la; intros lb a b; simpl.
  - rewrite <- (bits_of_mod lb b). apply bits_of_ext. intros i Hi.
    rewrite N.shiftl_mul_pow2, N.add_comm, N.mul_comm.
    rewrite testbit_cat by (apply N.mod_upper_bound; apply N.pow_nonzero; discriminate).
    destruct (N.ltb_spec i (N.of_nat lb)); [reflexivity|lia].
  - f_equal.
    + rewrite N.shiftl_mul_pow2, N.add_comm, N.mul_comm.
      rewrite testbit_cat by (apply N.mod_upper_bound; apply N.pow_nonzero; discriminate).
      destruct (N.ltb_spec (N.of_nat (la + lb)) (N.of_nat lb)); [lia|]. f_equal. lia.
    + apply IHla.
Qed.

Lemma bits_of_nth : forall l v i, (i < l)%nat ->
  nth i (bits_of v l) false = N.testbit v (N.of_nat (l - 1 - i)).
Proof.
  induction l; intros v i Hi; [lia|]. simpl. destruct i.
  - f_equal. lia.
  - rewrite IHl by lia. f_equal. lia.
Qed.

Lemma bits_of_nth_out : forall l v i, (l <= i)%nat -> nth i (bits_of v l) false = false.
Proof. intros. apply nth_overflow. rewrite bits_of_length. assumption. Qed.

Lemma bits_of_zero : forall l, bits_of 0 l = repeat false l.
Proof. induction l; simpl; [reflexivity|]. rewrite IHl. reflexivity. Qed.

Lemma bits_of_ones : forall l, bits_of (N.ones (N.of_nat l)) l = repeat true l.
Proof.
  intro l. assert (H : forall k, (k <= l)%nat -> bits_of (N.ones (N.of_nat l)) k = repeat true k).
  { induction k; intro Hk; simpl; [reflexivity|]. rewrite ones_testbit.
    destruct (N.ltb_spec (N.of_nat k) (N.of_nat l)); [|lia]. rewrite IHk by lia. reflexivity. }
  apply H. lia.
Qed.

(* ---------- N_of_bits ---------- *)
Lemma N_of_bits_acc_app : forall l acc, N_of_bits_acc acc l = acc * 2 ^ N.of_nat (length l) + N_of_bits l.
Proof.
  unfold N_of_bits. induction l; intro acc; simpl length.
  - simpl. lia.
  - cbn [N_of_bits_acc]. rewrite IHl. rewrite (IHl (2 * 0 + N.b2n a)).
    rewrite Nat2N.inj_succ, N.pow_succ_r'. lia.
Qed.

Lemma N_of_bits_bits_of : forall l v, N_of_bits (bits_of v l) = v mod 2 ^ N.of_nat l.
Proof.
  induction l; intro v.
  - simpl. rewrite N.mod_1_r. reflexivity.
  - cbn [bits_of]. unfold N_of_bits. cbn [N_of_bits_acc]. rewrite N_of_bits_acc_app.
    rewrite bits_of_length, IHl. rewrite N.mul_0_r, N.add_0_l.
    apply N.bits_inj. intro i. rewrite mod_pow2_testbit.
    rewrite N.add_comm, N.mul_comm.
    rewrite testbit_cat by (apply N.mod_upper_bound; apply N.pow_nonzero; discriminate).
    rewrite mod_pow2_testbit.
    destruct (N.ltb_spec i (N.of_nat l)), (N.ltb_spec i (N.of_nat (S l))); try lia; simpl; try reflexivity.
    + replace i with (N.of_nat l) by lia. rewrite N.sub_diag.
      destruct (N.testbit v (N.of_nat l)); reflexivity.
    + apply (testbit_high _ 1); [destruct (N.testbit v (N.of_nat l)); simpl; lia | lia].
Qed.

Lemma N_of_bits_lt : forall l, N_of_bits l < 2 ^ N.of_nat (length l).
Proof.
  unfold N_of_bits. induction l; simpl length.
  - simpl. lia.
  - cbn [N_of_bits_acc]. rewrite N_of_bits_acc_app. fold (N_of_bits l).
    rewrite Nat2N.inj_succ, N.pow_succ_r'. unfold N_of_bits in *. destruct a; simpl N.b2n; lia.
Qed.
