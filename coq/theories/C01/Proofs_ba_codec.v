(* C01 — BitArray proofs, part 4: bytes. Bytes()/setBytes32, Write/UnmarshalBinary ("active bytes"),
   SetBytes / SetFelt / Felt, and the trie.Node serialisation of node.go. *)
From Coq Require Import List NArith ZArith Bool Lia ZifyN ZifyNat ZifyBool Arith.
From V Require Import C01.BitArray C01.Proofs_ba_bits C01.Proofs_ba_words C01.Proofs_ba_ops.
Import ListNotations.
Local Open Scope N_scope.

Ltac Zify.zify_post_hook ::= Z.div_mod_to_equations.

Definition bytes_ok (l : list N) : Prop := Forall (fun b => b < 256) l.

(* ---------- big-endian bytes ---------- *)
Lemma be_bytes_length : forall k v, length (be_bytes k v) = k.
Proof. induction k; intro v; simpl; [reflexivity|f_equal; apply IHk]. Qed.

Lemma be_bytes_ok : forall k v, bytes_ok (be_bytes k v).
Proof.
  induction k; intro v; simpl; constructor; [apply N.mod_upper_bound; discriminate|apply IHk].
Qed.

Lemma be_val_acc : forall l acc,
  fold_left (fun a b => a * 256 + b) l acc = acc * 2 ^ (8 * N.of_nat (length l)) + be_val l.
Proof.
  unfold be_val. induction l as [|x l IH]; intro acc.
  - simpl. lia.
  - cbn [fold_left length]. rewrite IH, (IH (0 * 256 + x)).
    replace (8 * N.of_nat (S (length l))) with (8 + 8 * N.of_nat (length l)) by lia.
    rewrite N.pow_add_r. change (2 ^ 8) with 256. lia.
Qed.

Lemma be_val_cons : forall x l, be_val (x :: l) = x * 2 ^ (8 * N.of_nat (length l)) + be_val l.
Proof. intros. unfold be_val at 1. cbn [fold_left]. rewrite be_val_acc. replace (0 * 256 + x) with x by lia. reflexivity. Qed.

Lemma be_val_app : forall a b, be_val (a ++ b) = be_val a * 2 ^ (8 * N.of_nat (length b)) + be_val b.
Proof.
  intros a b. unfold be_val at 1. rewrite fold_left_app. fold (be_val a). apply be_val_acc.
Qed.

Lemma be_val_lt : forall l, bytes_ok l -> be_val l < 2 ^ (8 * N.of_nat (length l)).
Proof.
  induction l as [|x l IH]; intro H.
  - reflexivity.
  - inversion H; subst. rewrite be_val_cons. specialize (IH H3).
    cbn [length]. replace (8 * N.of_nat (S (length l))) with (8 + 8 * N.of_nat (length l)) by lia.
    rewrite N.pow_add_r. change (2 ^ 8) with 256. nia.
Qed.

Lemma be_val_repeat0 : forall k, be_val (repeat 0 k) = 0.
Proof. induction k; [reflexivity|]. cbn [repeat]. rewrite be_val_cons, IHk. lia. Qed.

Lemma be_val_be_bytes : forall k v, be_val (be_bytes k v) = v mod 2 ^ (8 * N.of_nat k).
Proof.
  induction k; intro v.
  - simpl. rewrite N.mod_1_r. reflexivity.
  - cbn [be_bytes]. rewrite be_val_cons, be_bytes_length, IHk.
    replace (8 * N.of_nat (S k)) with (8 * N.of_nat k + 8) by lia.
    rewrite N.pow_add_r. change (2 ^ 8) with 256.
    rewrite N.mod_mul_r by (try apply N.pow_nonzero; discriminate). lia.
Qed.

Lemma div_mod_pow2 : forall a n m, (a mod 2 ^ (n + m)) / 2 ^ n = (a / 2 ^ n) mod 2 ^ m.
Proof.
  intros. apply N.bits_inj. intro i. rewrite N.div_pow2_bits, !mod_pow2_testbit, N.div_pow2_bits.
  f_equal. destruct (N.ltb_spec (i + n) (n + m)), (N.ltb_spec i m); try reflexivity; lia.
Qed.

Lemma be_bytes_ext : forall k v v', v mod 2 ^ (8 * N.of_nat k) = v' mod 2 ^ (8 * N.of_nat k) ->
  be_bytes k v = be_bytes k v'.
Proof.
  induction k; intros v v' H; [reflexivity|]. cbn [be_bytes].
  replace (8 * N.of_nat (S k)) with (8 * N.of_nat k + 8) in H by lia.
  f_equal.
  - change 256 with (2 ^ 8). rewrite <- !div_mod_pow2, H. reflexivity.
  - apply IHk. apply (f_equal (fun x => x mod 2 ^ (8 * N.of_nat k))) in H.
    rewrite !N.pow_add_r in H.
    rewrite !N.mod_mul_r in H by (apply N.pow_nonzero; discriminate).
    rewrite !(N.mul_comm (2 ^ (8 * N.of_nat k))), !N.mod_add, !N.mod_mod in H by (apply N.pow_nonzero; discriminate).
    exact H.
Qed.

Lemma be_bytes_app : forall a b v,
  be_bytes (a + b) v = be_bytes a (v / 2 ^ (8 * N.of_nat b)) ++ be_bytes b v.
Proof.
  induction a; intros b v; [reflexivity|].
  cbn [Nat.add be_bytes app]. f_equal; [|apply IHa].
  rewrite N.div_div by (apply N.pow_nonzero; discriminate). rewrite <- N.pow_add_r. do 3 f_equal. lia.
Qed.

Lemma be_bytes_0 : forall k, be_bytes k 0 = repeat 0 k.
Proof. induction k; [reflexivity|]. cbn [be_bytes repeat]. rewrite IHk, N.div_0_l by (apply N.pow_nonzero; discriminate). reflexivity. Qed.

Lemma be_bytes_inj : forall k v v', v < 2 ^ (8 * N.of_nat k) -> v' < 2 ^ (8 * N.of_nat k) ->
  be_bytes k v = be_bytes k v' -> v = v'.
Proof.
  intros k v v' Hv Hv' H. apply (f_equal be_val) in H. rewrite !be_val_be_bytes in H.
  rewrite !N.mod_small in H by assumption. exact H.
Qed.

(* ---------- Bytes() / setBytes32 ---------- *)
Lemma bytes32_val : forall b, inrange b -> bytes32 b = be_bytes 32 (val b).
Proof.
  intros b Hr. unfold bytes32.
  change 32%nat with (8 + (8 + (8 + 8)))%nat. rewrite !be_bytes_app.
  assert (H8 : forall j v, j < 4 -> v = val b / 2 ^ (64 * j) -> be_bytes 8 (word b j) = be_bytes 8 v).
  { intros j v Hj ->. apply be_bytes_ext. rewrite word_of_val by assumption.
    change (8 * N.of_nat 8) with 64. apply N.mod_mod. apply N.pow_nonzero. discriminate. }
  f_equal; [|f_equal; [|f_equal]].
  - apply (H8 3); [lia|]. reflexivity.
  - apply (H8 2); [lia|]. reflexivity.
  - apply (H8 1); [lia|]. reflexivity.
  - apply (H8 0); [lia|]. rewrite N.div_1_r. reflexivity.
Qed.

Lemma bytes32_length : forall b, length (bytes32 b) = 32%nat.
Proof. intro. unfold bytes32. rewrite !app_length, !be_bytes_length. reflexivity. Qed.

Lemma split32 : forall (bs : list N), length bs = 32%nat ->
  bs = firstn 8 bs ++ firstn 8 (skipn 8 bs) ++ firstn 8 (skipn 16 bs) ++ firstn 8 (skipn 24 bs).
Proof.
  intros bs H. do 32 (destruct bs as [|? bs]; [discriminate|]). destruct bs; [reflexivity|discriminate].
Qed.

Lemma bytes_ok_firstn : forall k l, bytes_ok l -> bytes_ok (firstn k l).
Proof.
  intros k l H. rewrite <- (firstn_skipn k l) in H. apply Forall_app in H. tauto.
Qed.

Lemma bytes_ok_skipn : forall k l, bytes_ok l -> bytes_ok (skipn k l).
Proof.
  intros k l H. apply Forall_forall. intros x Hx. revert x Hx. apply Forall_forall.
  rewrite <- (firstn_skipn k l) in H. apply Forall_app in H. tauto.
Qed.

Lemma bytes_ok_app : forall a b, bytes_ok a -> bytes_ok b -> bytes_ok (a ++ b).
Proof. intros. apply Forall_app. split; assumption. Qed.

Lemma bytes_ok_repeat0 : forall k, bytes_ok (repeat 0 k).
Proof. intro k. apply Forall_forall. intros x Hx. apply repeat_spec in Hx. subst. reflexivity. Qed.

Lemma set_bytes32_spec : forall l bs, l < 256 -> bytes_ok bs -> length bs = 32%nat ->
  inrange (set_bytes32 l bs) /\ val (set_bytes32 l bs) = be_val bs /\ blen (set_bytes32 l bs) = l.
Proof.
  intros l bs Hl Hok Hlen.
  assert (H8 : forall k, (k + 8 <= 32)%nat -> be_val (firstn 8 (skipn k bs)) < 2 ^ 64).
  { intros k Hk. eapply N.lt_le_trans; [apply be_val_lt; apply bytes_ok_firstn, bytes_ok_skipn; assumption|].
    apply pow2_le. rewrite firstn_length, skipn_length. lia. }
  pose proof (H8 24%nat ltac:(lia)). pose proof (H8 16%nat ltac:(lia)). pose proof (H8 8%nat ltac:(lia)).
  pose proof (H8 0%nat ltac:(lia)) as H00. cbn [skipn] in H00.
  split; [unfold inrange, set_bytes32; cbn [blen w0 w1 w2 w3]; tauto|]. split; [|reflexivity].
  rewrite (f_equal be_val (split32 bs Hlen)). rewrite !be_val_app.
  rewrite !app_length, !firstn_length, !skipn_length, Hlen.
  unfold val, set_bytes32. cbn [blen w0 w1 w2 w3].
  change (8 * N.of_nat (Nat.min 8 (32 - 24))) with 64.
  change (8 * N.of_nat (Nat.min 8 (32 - 16) + Nat.min 8 (32 - 24))) with 128.
  change (8 * N.of_nat (Nat.min 8 (32 - 8) + (Nat.min 8 (32 - 16) + Nat.min 8 (32 - 24)))) with 192.
  lia.
Qed.

Lemma set_bytes32_bytes32 : forall b, inrange b -> set_bytes32 (blen b) (bytes32 b) = b.
Proof.
  intros b Hr. pose proof Hr as (Hl & _).
  assert (Hok : bytes_ok (bytes32 b)) by (rewrite bytes32_val by assumption; apply be_bytes_ok).
  destruct (set_bytes32_spec (blen b) (bytes32 b) Hl Hok (bytes32_length b)) as (Hr' & Hv & Hlen).
  apply ba_ext; try assumption. rewrite Hv, bytes32_val, be_val_be_bytes by assumption.
  apply N.mod_small. apply val_lt. assumption.
Qed.

(* ---------- Write / UnmarshalBinary ---------- *)
Lemma byte_count_le : forall b, blen b < 256 -> byte_count b <= 32.
Proof. intros b H. unfold byte_count. lia. Qed.

Lemma active_bytes_val : forall b, wf b ->
  active_bytes b = be_bytes (N.to_nat (byte_count b)) (val b) /\
  bytes32 b = repeat 0 (N.to_nat (32 - byte_count b)) ++ active_bytes b.
Proof.
  intros b [Hr Hv]. pose proof Hr as (Hl & _). pose proof (byte_count_le b Hl) as Hbc.
  assert (Hz : val b / 2 ^ (8 * N.of_nat (N.to_nat (byte_count b))) = 0).
  { apply N.div_small. eapply N.lt_le_trans; [exact Hv|]. apply pow2_le. unfold byte_count. lia. }
  assert (H32 : be_bytes 32 (val b) =
                repeat 0 (N.to_nat (32 - byte_count b)) ++ be_bytes (N.to_nat (byte_count b)) (val b)).
  { replace 32%nat with (N.to_nat (32 - byte_count b) + N.to_nat (byte_count b))%nat at 1 by lia.
    rewrite be_bytes_app, Hz, be_bytes_0. reflexivity. }
  unfold active_bytes. rewrite bytes32_val, H32 by assumption.
  rewrite skipn_app, skipn_all2 by (rewrite repeat_length; lia). rewrite repeat_length.
  replace (N.to_nat (32 - byte_count b) - N.to_nat (32 - byte_count b))%nat with 0%nat by lia.
  split; reflexivity.
Qed.

Lemma ba_write_length : forall b, blen b < 256 -> N.of_nat (length (ba_write b)) = encoded_len b.
Proof.
  intros b Hl. pose proof (byte_count_le b Hl). unfold ba_write, active_bytes, encoded_len. cbn [length].
  rewrite skipn_length, bytes32_length. lia.
Qed.

Lemma ba_write_ok : forall b, inrange b -> bytes_ok (ba_write b).
Proof.
  intros b Hr. pose proof Hr as (Hl & _). constructor; [assumption|].
  unfold active_bytes. apply bytes_ok_skipn. rewrite bytes32_val by assumption. apply be_bytes_ok.
Qed.

(* decode (encode x ++ anything) = x: the encoding is self-delimiting *)
Lemma ba_unmarshal_write : forall b tail, wf b -> ba_unmarshal (ba_write b ++ tail) = Some b.
Proof.
  intros b tail Hw. pose proof (wf_inrange _ Hw) as Hr. pose proof (wf_len _ Hw) as Hl.
  pose proof (byte_count_le b Hl) as Hbc. destruct (active_bytes_val b Hw) as [Ha Hb].
  unfold ba_write. cbn [app ba_unmarshal]. fold (byte_count b).
  assert (Hal : length (active_bytes b) = N.to_nat (byte_count b)) by (rewrite Ha; apply be_bytes_length).
  cbn [length]. rewrite app_length, Hal.
  destruct (N.ltb_spec (N.of_nat (S (N.to_nat (byte_count b) + length tail))) (byte_count b + 1)); [lia|].
  f_equal. rewrite firstn_app, firstn_all2 by lia. rewrite Hal, Nat.sub_diag. cbn [firstn]. rewrite app_nil_r.
  rewrite <- Hb. apply set_bytes32_bytes32. assumption.
Qed.

Lemma ba_write_inj : forall a b, wf a -> wf b -> ba_write a = ba_write b -> a = b.
Proof.
  intros a b Ha Hb H. pose proof (ba_unmarshal_write a [] Ha) as H1. pose proof (ba_unmarshal_write b [] Hb) as H2.
  rewrite app_nil_r in *. congruence.
Qed.

Lemma ba_write_prefix_free : forall a b t1 t2, wf a -> wf b ->
  ba_write a ++ t1 = ba_write b ++ t2 -> a = b /\ t1 = t2.
Proof.
  intros a b t1 t2 Ha Hb H. pose proof (ba_unmarshal_write a t1 Ha) as H1.
  rewrite H, ba_unmarshal_write in H1 by assumption. injection H1 as <-.
  split; [reflexivity|]. apply app_inv_head in H. exact H.
Qed.

(* what UnmarshalBinary returns in general: length byte taken as is, the active bytes as value (no
   truncation to the length), trailing bytes ignored *)
Lemma ba_unmarshal_spec : forall data b, bytes_ok data -> ba_unmarshal data = Some b ->
  exists l rest, data = l :: rest /\ blen b = l /\ inrange b /\
    (l + 7) / 8 <= N.of_nat (length rest) /\
    val b = be_val (firstn (N.to_nat ((l + 7) / 8)) rest).
Proof.
  intros data b Hok H. destruct data as [|l rest]; [discriminate|]. cbn [ba_unmarshal] in H.
  inversion Hok as [|? ? Hl Hrest]; subst.
  destruct (N.ltb_spec (N.of_nat (length (l :: rest))) ((l + 7) / 8 + 1)); [discriminate|].
  injection H as <-. cbn [length] in *. exists l, rest. split; [reflexivity|].
  set (bc := (l + 7) / 8) in *. assert (bc <= 32) by (unfold bc; lia).
  set (bs := repeat 0 (N.to_nat (32 - bc)) ++ firstn (N.to_nat bc) rest).
  assert (Hlen : length bs = 32%nat).
  { unfold bs. rewrite app_length, repeat_length, firstn_length. lia. }
  assert (Hokb : bytes_ok bs) by (apply bytes_ok_app; [apply bytes_ok_repeat0|apply bytes_ok_firstn; assumption]).
  destruct (set_bytes32_spec l bs Hl Hokb Hlen) as (Hr & Hv & Hbl).
  split; [assumption|]. split; [assumption|]. split; [lia|].
  change (val (set_bytes32 l bs) = be_val (firstn (N.to_nat bc) rest)).
  rewrite Hv. unfold bs. rewrite be_val_app, be_val_repeat0. lia.
Qed.

Lemma ba_unmarshal_short : forall l rest, N.of_nat (length rest) < (l + 7) / 8 -> ba_unmarshal (l :: rest) = None.
Proof.
  intros l rest H. cbn [ba_unmarshal length].
  destruct (N.ltb_spec (N.of_nat (S (length rest))) ((l + 7) / 8 + 1)); [reflexivity|lia].
Qed.

(* ---------- SetBytes / SetFelt / Felt ---------- *)
Lemma set_felt_spec : forall l f, l < 256 -> f < 2 ^ 256 ->
  wf (set_felt l f) /\ bits (set_felt l f) = bits_of f (N.to_nat l) /\ blen (set_felt l f) = l.
Proof.
  intros l f Hl Hf. unfold set_felt, felt_bytes.
  destruct (set_bytes32_spec l (be_bytes 32 f) Hl (be_bytes_ok _ _) (be_bytes_length _ _)) as (Hr & Hv & Hbl).
  split; [apply truncate_wf; assumption|]. split; [|rewrite truncate_len; assumption].
  unfold bits. rewrite truncate_val, truncate_len, Hbl, Hv, be_val_be_bytes by assumption.
  change (2 ^ (8 * N.of_nat 32)) with (2 ^ 256). rewrite (N.mod_small f) by assumption.
  rewrite <- (N2Nat.id l) at 1. apply bits_of_mod.
Qed.

Lemma set_bytes_spec : forall l data, l < 256 -> bytes_ok data ->
  wf (set_bytes l data) /\
  bits (set_bytes l data) = bits_of (be_val (firstn 32 data)) (N.to_nat l) /\
  blen (set_bytes l data) = l.
Proof.
  intros l data Hl Hok. unfold set_bytes. set (d := firstn 32 data).
  assert (Hd : (length d <= 32)%nat) by (unfold d; rewrite firstn_length; lia).
  assert (Hokd : bytes_ok d) by (apply bytes_ok_firstn; assumption).
  set (bs := repeat 0 (32 - length d) ++ d).
  assert (Hlen : length bs = 32%nat) by (unfold bs; rewrite app_length, repeat_length; lia).
  assert (Hokb : bytes_ok bs) by (apply bytes_ok_app; [apply bytes_ok_repeat0|assumption]).
  destruct (set_bytes32_spec l bs Hl Hokb Hlen) as (Hr & Hv & Hbl).
  split; [apply truncate_wf; assumption|]. split; [|rewrite truncate_len; assumption].
  unfold bits. rewrite truncate_val, truncate_len, Hbl, Hv by assumption.
  unfold bs. rewrite be_val_app, be_val_repeat0. cbn [N.mul N.add].
  rewrite <- (N2Nat.id l) at 1. apply bits_of_mod.
Qed.

Lemma ba_felt_val : forall b, inrange b -> ba_felt b = val b mod felt_P.
Proof.
  intros b Hr. unfold ba_felt, felt_set_bytes. rewrite bytes32_val, be_val_be_bytes by assumption.
  change (2 ^ (8 * N.of_nat 32)) with (2 ^ 256). rewrite (N.mod_small (val b)) by (apply val_lt; assumption).
  reflexivity.
Qed.

Lemma felt_P_gt : 2 ^ 251 < felt_P.
Proof. reflexivity. Qed.

Lemma felt_P_lt : felt_P < 2 ^ 256.
Proof. reflexivity. Qed.

(* Felt() of a key of at most 251 bits is the number its bit list denotes *)
Lemma ba_felt_bits : forall b, wf b -> blen b <= 251 -> ba_felt b = N_of_bits (bits b).
Proof.
  intros b Hw Hl. rewrite ba_felt_val by (apply wf_inrange; assumption).
  rewrite <- val_N_of_bits by assumption. apply N.mod_small.
  destruct Hw as [_ Hv]. eapply N.lt_trans; [exact Hv|]. eapply N.le_lt_trans; [|apply felt_P_gt].
  apply pow2_le. assumption.
Qed.

Lemma felt_roundtrip : forall v, v < felt_P -> felt_set_bytes (felt_bytes v) = v.
Proof.
  intros v Hv. unfold felt_set_bytes, felt_bytes. rewrite be_val_be_bytes.
  change (2 ^ (8 * N.of_nat 32)) with (2 ^ 256).
  rewrite (N.mod_small v (2 ^ 256)) by (eapply N.lt_trans; [exact Hv|apply felt_P_lt]).
  apply N.mod_small. assumption.
Qed.

Lemma felt_bytes_inj : forall v v', v < felt_P -> v' < felt_P -> felt_bytes v = felt_bytes v' -> v = v'.
Proof.
  intros v v' Hv Hv' H. apply (f_equal felt_set_bytes) in H. rewrite !felt_roundtrip in H by assumption. exact H.
Qed.

Lemma set_uint64_spec : forall l d, l < 256 -> d < 2 ^ 64 ->
  wf (new_bit_array l d) /\ bits (new_bit_array l d) = bits_of d (N.to_nat l).
Proof.
  intros l d Hl Hd. unfold new_bit_array, set_uint64. cbn [ba_empty w1 w2 w3].
  set (y := BA l d 0 0 0).
  assert (Hy : inrange y) by (unfold inrange, y; simpl; repeat split; (assumption || reflexivity)).
  split; [apply truncate_wf; assumption|].
  unfold bits. rewrite truncate_val, truncate_len by assumption. change (blen y) with l.
  replace (val y) with d by (unfold val, y; cbn [w0 w1 w2 w3]; lia).
  rewrite <- (N2Nat.id l) at 1. apply bits_of_mod.
Qed.

(* ---------- Cmp on the list view ---------- *)
Lemma ba_cmp_bits : forall a b, wf a -> wf b ->
  ba_cmp a b = if blen a <? blen b then Lt else if blen b <? blen a then Gt
               else (N_of_bits (bits a) ?= N_of_bits (bits b)).
Proof.
  intros a b Ha Hb. rewrite ba_cmp_val by (apply wf_inrange; assumption).
  rewrite <- !val_N_of_bits by assumption. reflexivity.
Qed.

Lemma ba_cmp_eq : forall a b, wf a -> wf b -> (ba_cmp a b = Eq <-> a = b).
Proof.
  intros a b Ha Hb. rewrite ba_cmp_val by (apply wf_inrange; assumption). split.
  - destruct (N.ltb_spec (blen a) (blen b)); [discriminate|].
    destruct (N.ltb_spec (blen b) (blen a)); [discriminate|]. intro Hc. apply N.compare_eq_iff in Hc.
    apply ba_ext; try (apply wf_inrange; assumption); [lia|assumption].
  - intros ->. rewrite N.ltb_irrefl. apply N.compare_refl.
Qed.

(* ---------- trie.Node: WriteTo / UnmarshalBinary ---------- *)
Lemma felt_bytes_length : forall v, length (felt_bytes v) = 32%nat.
Proof. intro. apply be_bytes_length. Qed.

Lemma ba_write_nonempty : forall b, ba_write b <> [].
Proof. intro b. discriminate. Qed.

Lemma skipn_app_exact : forall (A : Type) (a b : list A) k, length a = k -> skipn k (a ++ b) = b.
Proof. intros A a b k <-. rewrite skipn_app, skipn_all, Nat.sub_diag. reflexivity. Qed.

Lemma firstn_app_exact : forall (A : Type) (a b : list A) k, length a = k -> firstn k (a ++ b) = a.
Proof. intros A a b k <-. rewrite firstn_app, firstn_all, Nat.sub_diag. cbn [firstn]. apply app_nil_r. Qed.

Theorem node_roundtrip : forall n, node_wf n ->
  exists bs, node_encode n = Some bs /\
    forall rlh rrh, node_decode rlh rrh bs = Some (node_fill rlh rrh n).
Proof.
  intros [v l r lh rh] ((v0 & Hv & Hv0) & Hl & Hr & Hlh & Hrh & Hlr & Hh & Hlh0).
  cbn [sn_value sn_left sn_right sn_lh sn_rh] in *. subst v.
  unfold node_encode. cbn [sn_value sn_left sn_right sn_lh sn_rh].
  assert (Hdec0 : forall rest rlh rrh,
     node_decode rlh rrh (felt_bytes v0 ++ rest) =
       match rest with
       | [] => Some (SN (Some v0) None None None None)
       | _ => match ba_unmarshal rest with
              | None => None
              | Some l =>
                let d2 := skipn (N.to_nat (encoded_len l)) rest in
                match ba_unmarshal d2 with
                | None => None
                | Some r =>
                  let d3 := skipn (N.to_nat (encoded_len r)) d2 in
                  let lh0 := match rlh with Some h => h | None => 0 end in
                  let rh0 := match rrh with Some h => h | None => 0 end in
                  match d3 with
                  | [] => Some (SN (Some v0) (Some l) (Some r) (Some lh0) (Some rh0))
                  | _ => if negb (N.of_nat (length d3) =? 64) then None
                         else Some (SN (Some v0) (Some l) (Some r)
                                       (Some (felt_set_bytes (firstn 32 d3)))
                                       (Some (felt_set_bytes (firstn 32 (skipn 32 d3)))))
                  end
                end
              end
       end).
  { intros rest rlh rrh. unfold node_decode.
    rewrite app_length, felt_bytes_length.
    destruct (N.ltb_spec (N.of_nat (32 + length rest)) 32); [lia|].
    rewrite firstn_app_exact, skipn_app_exact by apply felt_bytes_length.
    rewrite felt_roundtrip by assumption. destruct rest; reflexivity. }
  destruct l as [l|]; destruct r as [r|]; try (exfalso; destruct Hlr as [H1 H2]; (specialize (H1 eq_refl) || specialize (H2 eq_refl)); discriminate).
  - (* inner node *)
    cbn [owf] in Hl, Hr.
    assert (Hel : forall t, skipn (N.to_nat (encoded_len l)) (ba_write l ++ t) = t).
    { intro t. apply skipn_app_exact. pose proof (ba_write_length l (wf_len _ Hl)). lia. }
    assert (Her : forall t, skipn (N.to_nat (encoded_len r)) (ba_write r ++ t) = t).
    { intro t. apply skipn_app_exact. pose proof (ba_write_length r (wf_len _ Hr)). lia. }
    destruct lh as [lh|]; destruct rh as [rh|]; try (exfalso; destruct Hh as [H1 H2]; (specialize (H1 eq_refl) || specialize (H2 eq_refl)); discriminate).
    + eexists. split; [reflexivity|]. intros rlh rrh. rewrite Hdec0. cbn [obound] in Hlh, Hrh.
      rewrite <- !app_assoc. cbn zeta.
      destruct (ba_write l ++ ba_write r ++ felt_bytes lh ++ felt_bytes rh) eqn:E; [destruct (ba_write_nonempty l); destruct (ba_write l); [reflexivity|discriminate]|].
      rewrite <- E. rewrite ba_unmarshal_write by assumption. rewrite Hel.
      rewrite ba_unmarshal_write by assumption. rewrite Her.
      destruct (felt_bytes lh ++ felt_bytes rh) eqn:E2.
      { apply (f_equal (@length N)) in E2. rewrite app_length, !felt_bytes_length in E2. discriminate. }
      rewrite <- E2. rewrite app_length, !felt_bytes_length. cbn [negb N.eqb N.of_nat Nat.add].
      change (N.of_nat 64 =? 64) with true. cbn [negb].
      rewrite firstn_app_exact, skipn_app_exact by apply felt_bytes_length.
      rewrite firstn_all2 by (rewrite felt_bytes_length; lia).
      rewrite !felt_roundtrip by assumption. reflexivity.
    + eexists. split; [reflexivity|]. intros rlh rrh. rewrite Hdec0. cbn zeta.
      destruct (ba_write l ++ ba_write r) eqn:E; [destruct (ba_write l); discriminate|].
      rewrite <- E. rewrite ba_unmarshal_write by assumption. rewrite Hel.
      rewrite <- (app_nil_r (ba_write r)). rewrite ba_unmarshal_write by assumption. rewrite Her.
      reflexivity.
  - (* leaf *)
    assert (lh = None) by (apply Hlh0; reflexivity). subst lh.
    assert (rh = None) by (apply Hh; reflexivity). subst rh.
    eexists. split; [reflexivity|]. intros rlh rrh. rewrite Hdec0. reflexivity.
Qed.

(* decode succeeds only on inputs of one of the three admissible lengths *)
Theorem node_decode_length : forall rlh rrh data n, node_decode rlh rrh data = Some n ->
  match sn_left n, sn_right n with
  | None, None => length data = 32%nat
  | Some l, Some r =>
      N.of_nat (length data) = 32 + encoded_len l + encoded_len r \/
      N.of_nat (length data) = 32 + encoded_len l + encoded_len r + 64
  | _, _ => False
  end.
Proof.
  intros rlh rrh data n H. unfold node_decode in H. cbv zeta in H.
  destruct (N.ltb_spec (N.of_nat (length data)) 32); [discriminate|].
  assert (Hlen : forall d b, ba_unmarshal d = Some b -> encoded_len b <= N.of_nat (length d)).
  { intros d b Hd. destruct d as [|l0 rest]; [discriminate|]. cbn [ba_unmarshal] in Hd.
    destruct (N.ltb_spec (N.of_nat (length (l0 :: rest))) ((l0 + 7) / 8 + 1)); [discriminate|].
    injection Hd as <-. unfold encoded_len, byte_count, set_bytes32. cbn [blen]. lia. }
  remember (skipn 32 data) as d1 eqn:E1.
  assert (Hd1 : length d1 = (length data - 32)%nat) by (subst d1; apply skipn_length).
  destruct d1 as [|x d1'].
  { injection H as <-. cbn. cbn [length] in Hd1. lia. }
  cbv iota in H. remember (x :: d1') as d1 eqn:E1'. clear E1' E1 x d1'.
  destruct (ba_unmarshal d1) as [l|] eqn:El; [|discriminate].
  remember (skipn (N.to_nat (encoded_len l)) d1) as d2 eqn:E2.
  assert (Hd2 : length d2 = (length d1 - N.to_nat (encoded_len l))%nat) by (subst d2; apply skipn_length).
  destruct (ba_unmarshal d2) as [r|] eqn:Er; [|discriminate].
  remember (skipn (N.to_nat (encoded_len r)) d2) as d3 eqn:E3.
  assert (Hd3 : length d3 = (length d2 - N.to_nat (encoded_len r))%nat) by (subst d3; apply skipn_length).
  pose proof (Hlen _ _ El) as Hl1. pose proof (Hlen _ _ Er) as Hl2.
  destruct d3 as [|y d3'].
  { injection H as <-. cbn [sn_left sn_right]. left. cbn [length] in Hd3. lia. }
  cbv iota in H.
  destruct (N.eqb_spec (N.of_nat (length (y :: d3'))) 64) as [E64|E64]; cbn [negb] in H; [|discriminate].
  injection H as <-. cbn [sn_left sn_right]. right. lia.
Qed.

Theorem node_decode_short : forall rlh rrh data, (length data < 32)%nat -> node_decode rlh rrh data = None.
Proof.
  intros rlh rrh data H. unfold node_decode.
  destruct (N.ltb_spec (N.of_nat (length data)) 32); [reflexivity|lia].
Qed.

Lemma some_inj : forall (A : Type) (a b : A), Some a = Some b -> a = b.
Proof. intros. congruence. Qed.

(* WriteTo is injective on well-formed nodes *)
Theorem node_encode_inj : forall n1 n2 bs, node_wf n1 -> node_wf n2 ->
  node_encode n1 = Some bs -> node_encode n2 = Some bs -> n1 = n2.
Proof.
  intros n1 n2 bs H1 H2 E1 E2.
  destruct (node_roundtrip n1 H1) as (b1 & Eb1 & D1). destruct (node_roundtrip n2 H2) as (b2 & Eb2 & D2).
  rewrite E1 in Eb1. rewrite E2 in Eb2. injection Eb1 as <-. injection Eb2 as <-.
  specialize (D1 None None). specialize (D2 None None). rewrite D1 in D2. injection D2 as D.
  (* the fill only hides the difference "no hashes" / "zero hashes", which the lengths separate *)
  destruct n1 as [v1 l1 r1 lh1 rh1], n2 as [v2 l2 r2 lh2 rh2].
  destruct H1 as (_ & Hwl1 & Hwr1 & _ & _ & Hlr1 & Hh1 & Hlh1). destruct H2 as (_ & Hwl2 & Hwr2 & _ & _ & Hlr2 & Hh2 & Hlh2).
  cbn [sn_value sn_left sn_right sn_lh sn_rh] in *.
  unfold node_fill in D. cbn [sn_value sn_left sn_right sn_lh sn_rh] in D.
  assert (Hlen : forall v l r lh rh bs, owf l -> owf r ->
            node_encode (SN v l r lh rh) = Some bs ->
            N.of_nat (length bs) = 32 + (match l, r with Some a, Some b => encoded_len a + encoded_len b | _, _ => 0 end)
                                      + (match lh with Some _ => 64 | None => 0 end)).
  { intros v l r lh rh bs0 Hwl Hwr E. unfold node_encode in E. cbn [sn_value sn_left sn_right sn_lh sn_rh] in E.
    destruct v as [v|]; [|discriminate].
    destruct l as [l|]; [destruct r as [r|]; [|discriminate]|].
    - cbn [owf] in *. pose proof (ba_write_length l (wf_len _ Hwl)). pose proof (ba_write_length r (wf_len _ Hwr)).
      destruct lh, rh; cbv beta iota zeta in E; try discriminate; apply some_inj in E; subst bs0; rewrite ?app_length, ?felt_bytes_length; lia.
    - destruct lh, rh; cbv beta iota zeta in E; try discriminate; apply some_inj in E; subst bs0; rewrite ?app_length, ?felt_bytes_length; cbn [length]; destruct r; lia. }
  pose proof (Hlen _ _ _ _ _ _ Hwl1 Hwr1 E1) as L1. pose proof (Hlen _ _ _ _ _ _ Hwl2 Hwr2 E2) as L2.
  destruct l1 as [l1|], lh1 as [lh1|], l2 as [l2|], lh2 as [lh2|]; try (injection D as -> -> -> -> ->; reflexivity);
    try (injection D; intros; subst; try reflexivity);
    try (exfalso; (specialize (Hlh1 eq_refl) || specialize (Hlh2 eq_refl)); discriminate);
    try discriminate.
  all: try (exfalso; destruct r2; lia).
  all: try (exfalso; destruct r1; lia).
  all: repeat match goal with
       | H : None = None <-> ?x = None |- _ =>
           let E := fresh in assert (E : x = None) by (apply H; reflexivity); clear H; try subst x
       end.
  all: try reflexivity.
Qed.
