(* C01 — BitArray proofs, part 3: every operation preserves well-formedness and commutes with the
   corresponding operation on the bit list [bits] (most significant bit first). *)
From Coq Require Import List NArith ZArith Bool Lia ZifyN ZifyNat ZifyBool Arith.
From V Require Import C01.BitArray C01.Proofs_ba_bits C01.Proofs_ba_words.
From V Require C01.Trie1.
Import ListNotations.
Local Open Scope N_scope.

Ltac Zify.zify_post_hook ::= Z.div_mod_to_equations.

(* ---------- basic facts about bits / wf ---------- *)
Lemma bits_length : forall b, length (bits b) = N.to_nat (blen b).
Proof. intro. apply bits_of_length. Qed.

Lemma wf_inrange : forall b, wf b -> inrange b.
Proof. intros b [H _]. exact H. Qed.

Lemma wf_len : forall b, wf b -> blen b < 256.
Proof. intros b [[H _] _]. exact H. Qed.

Lemma wf_empty : wf ba_empty.
Proof. unfold wf, inrange, ba_empty, val. simpl. repeat split; reflexivity. Qed.

Lemma bits_empty : bits ba_empty = [].
Proof. reflexivity. Qed.

Lemma bits_len0 : forall b, blen b = 0 -> bits b = [].
Proof. intros b H. unfold bits. rewrite H. reflexivity. Qed.

Lemma wf_len0 : forall b, wf b -> blen b = 0 -> b = ba_empty.
Proof.
  intros b [Hr Hv] H0. apply ba_ext; [assumption|apply wf_empty|assumption|].
  rewrite H0 in Hv. simpl in Hv. change (val ba_empty) with 0. lia.
Qed.

(* a well-formed array is determined by its bit list *)
Lemma bits_inj : forall a b, wf a -> wf b -> bits a = bits b -> a = b.
Proof.
  intros a b [Ha Hva] [Hb Hvb] H.
  assert (Hl : blen a = blen b).
  { apply (f_equal (@length bool)) in H. rewrite !bits_length in H. lia. }
  apply ba_ext; try assumption. unfold bits in H. rewrite Hl in H.
  apply (bits_of_eq_small (N.to_nat (blen b))); rewrite ?N2Nat.id; try assumption.
  rewrite <- Hl. assumption.
Qed.

Lemma val_N_of_bits : forall b, wf b -> val b = N_of_bits (bits b).
Proof.
  intros b [_ Hv]. unfold bits. rewrite N_of_bits_bits_of, N2Nat.id. symmetry. apply N.mod_small. assumption.
Qed.

Lemma wfb_wf : forall b, wfb b = true <-> wf b.
Proof.
  intro b. unfold wfb, inrangeb, wf, inrange. rewrite !andb_true_iff, !N.ltb_lt. rewrite W64_pow. tauto.
Qed.

(* ---------- Equal ---------- *)
Lemma ba_eqb_bits : forall a b, wf a -> wf b -> ba_eqb a b = Trie1.peqb (bits a) (bits b).
Proof.
  intros a b Ha Hb. unfold Trie1.peqb.
  destruct (list_eq_dec bool_dec (bits a) (bits b)) as [E|E].
  - apply ba_eqb_eq. apply bits_inj; assumption.
  - destruct (ba_eqb a b) eqn:Eq; [|reflexivity]. apply ba_eqb_eq in Eq. subst. congruence.
Qed.

(* ---------- LSBsFromLSB / LSBs ---------- *)
Lemma lsbs_from_lsb_spec : forall x n, wf x -> n < 256 ->
  wf (lsbs_from_lsb x n) /\
  bits (lsbs_from_lsb x n) = skipn (N.to_nat (blen x) - N.to_nat n) (bits x).
Proof.
  intros x n Hx Hn. pose proof (wf_inrange _ Hx) as Hr. rewrite lsbs_from_lsb_trunc.
  destruct (N.leb_spec (blen x) n).
  - split; [assumption|]. replace (N.to_nat (blen x) - N.to_nat n)%nat with 0%nat by lia. reflexivity.
  - set (y := BA n (w0 x) (w1 x) (w2 x) (w3 x)).
    assert (Hy : inrange y). { destruct Hr as (? & ? & ? & ? & ?). unfold y, inrange. simpl. tauto. }
    split; [apply truncate_wf; assumption|].
    unfold bits. rewrite truncate_val, truncate_len by assumption.
    change (blen y) with n. change (val y) with (val x).
    rewrite <- (N2Nat.id n) at 1. rewrite bits_of_mod, bits_of_skipn. f_equal. lia.
Qed.

Lemma lsbs_spec : forall x n, wf x -> n < 256 ->
  wf (lsbs x n) /\ bits (lsbs x n) = skipn (N.to_nat n) (bits x).
Proof.
  intros x n Hx Hn. unfold lsbs.
  destruct (N.eqb_spec n 0) as [->|Hn0]; [split; [assumption|reflexivity]|].
  destruct (N.ltb_spec (blen x) n).
  - split; [apply wf_empty|]. rewrite skipn_all2; [reflexivity|]. rewrite bits_length. lia.
  - pose proof (wf_len _ Hx). rewrite sub8_exact by lia.
    destruct (lsbs_from_lsb_spec x (blen x - n) Hx ltac:(lia)) as [Hw Hb]. split; [assumption|].
    rewrite Hb. f_equal. lia.
Qed.

(* ---------- Rsh / MSBs ---------- *)
Lemma rsh_spec : forall x n, wf x -> n < 256 ->
  wf (rsh x n) /\ bits (rsh x n) = firstn (N.to_nat (blen x) - N.to_nat n) (bits x) /\
  blen (rsh x n) = blen x - n /\ val (rsh x n) = N.shiftr (val x) n.
Proof.
  intros x n Hx Hn. pose proof (wf_inrange _ Hx) as Hr. pose proof (wf_len _ Hx) as Hl.
  destruct Hx as [_ Hv]. unfold rsh.
  destruct (N.eqb_spec (blen x) 0) as [E0|E0].
  { split; [split; assumption|]. split; [rewrite bits_len0 by assumption; rewrite firstn_nil; reflexivity|].
    split; [lia|]. rewrite E0 in Hv. simpl in Hv. replace (val x) with 0 by lia. rewrite N.shiftr_0_l. reflexivity. }
  destruct (N.leb_spec (blen x) n).
  { split; [apply wf_empty|]. split.
    - replace (N.to_nat (blen x) - N.to_nat n)%nat with 0%nat by lia. reflexivity.
    - split; [simpl; lia|]. change (val ba_clear) with 0. symmetry. apply N.shiftr_eq_0_iff.
      destruct (N.eq_dec (val x) 0); [left; assumption|right]. split; [lia|].
      apply N.log2_lt_pow2; [lia|]. eapply N.lt_le_trans; [exact Hv|]. apply pow2_le. assumption. }
  destruct (N.eqb_spec n 0) as [->|Hn0].
  { split; [split; assumption|]. split; [|split; [lia|rewrite N.shiftr_0_r; reflexivity]].
    rewrite firstn_all2; [reflexivity|]. rewrite bits_length. lia. }
  assert (Hr' : inrange (rsh_words x n)) by (apply rsh_words_inrange; [assumption|lia|assumption]).
  assert (Hlen : blen (rsh_words x n) = blen x - n) by (rewrite rsh_words_len; apply sub8_exact; lia).
  assert (Hval : val (truncate (rsh_words x n)) = N.shiftr (val x) n).
  { rewrite truncate_val by assumption. rewrite rsh_words_val by (assumption || lia). rewrite Hlen.
    apply N.mod_small. apply shiftr_lt_pow2_sub; [assumption|lia]. }
  split; [apply truncate_wf; assumption|]. split; [|split; [rewrite truncate_len; assumption|assumption]].
  unfold bits. rewrite Hval, truncate_len, Hlen.
  rewrite bits_of_firstn by lia. replace (N.to_nat (blen x - n)) with (N.to_nat (blen x) - N.to_nat n)%nat by lia.
  f_equal. f_equal. lia.
Qed.

Lemma msbs_spec : forall x n, wf x -> n < 256 ->
  wf (msbs x n) /\ bits (msbs x n) = firstn (N.to_nat n) (bits x) /\ blen (msbs x n) = N.min (blen x) n.
Proof.
  intros x n Hx Hn. pose proof (wf_len _ Hx) as Hl. unfold msbs.
  destruct (N.leb_spec (blen x) n).
  - split; [assumption|]. split; [|lia]. rewrite firstn_all2; [reflexivity|]. rewrite bits_length. lia.
  - rewrite sub8_exact by lia.
    destruct (rsh_spec x (blen x - n) Hx ltac:(lia)) as (Hw & Hb & Hlen & _).
    split; [assumption|]. split; [|lia]. rewrite Hb. f_equal. lia.
Qed.

(* ---------- Lsh ---------- *)
Lemma lsh_spec : forall x n, wf x -> n < 256 ->
  wf (lsh x n) /\
  bits (lsh x n) = (if blen x =? 0 then []
                    else skipn (N.to_nat (blen x) + N.to_nat n - 255) (bits x ++ repeat false (N.to_nat n))) /\
  blen (lsh x n) = (if blen x =? 0 then 0 else N.min 255 (blen x + n)).
Proof.
  intros x n Hx Hn. pose proof (wf_inrange _ Hx) as Hr. pose proof (wf_len _ Hx) as Hl. unfold lsh.
  destruct (N.eqb_spec (blen x) 0) as [E0|E0].
  { cbn [orb]. split; [assumption|]. split; [apply bits_len0|]; assumption. }
  destruct (N.eqb_spec n 0) as [->|Hn0].
  { cbn [orb]. split; [assumption|]. split; [|lia]. cbn [repeat N.to_nat]. rewrite app_nil_r.
    replace (N.to_nat (blen x) + 0 - 255)%nat with 0%nat by lia. reflexivity. }
  cbn [orb]. rewrite (sub8_exact 255 (blen x)) by lia.
  set (l := if 255 - blen x <? n then 255 else add8 (blen x) n).
  assert (Hl' : l = N.min 255 (blen x + n)).
  { unfold l. destruct (N.ltb_spec (255 - blen x) n); [lia|]. rewrite add8_exact by lia. lia. }
  assert (Hr' : inrange (lsh_words l x n)) by (apply lsh_words_inrange; (assumption || lia)).
  split; [apply truncate_wf; assumption|]. split; [|rewrite truncate_len, lsh_words_len; assumption].
  unfold bits. rewrite truncate_val, truncate_len, lsh_words_len by assumption.
  rewrite lsh_words_val by (assumption || lia).
  rewrite <- (bits_of_zero (N.to_nat n)), bits_of_app. rewrite N.mod_0_l by (apply N.pow_nonzero; discriminate).
  rewrite N.add_0_r, bits_of_skipn, N2Nat.id.
  replace (N.to_nat (blen x) + N.to_nat n - (N.to_nat (blen x) + N.to_nat n - 255))%nat with (N.to_nat l) by lia.
  rewrite <- (N2Nat.id l) at 1. rewrite bits_of_mod. apply bits_of_ext. intros i Hi.
  rewrite mod_pow2_testbit. destruct (N.ltb_spec i 256); [reflexivity|lia].
Qed.

(* ---------- SetBit / Zeros / Ones ---------- *)
Lemma set_bit_spec : forall b, wf (set_bit b) /\ bits (set_bit b) = [N.odd b].
Proof.
  intro b. assert (H : N.land b 1 = b mod 2) by (change 1 with (N.ones 1); apply N.land_ones).
  assert (b mod 2 < 2) by (apply N.mod_upper_bound; discriminate).
  split.
  - unfold wf, inrange, set_bit, val; cbn [blen w0 w1 w2 w3]. rewrite H.
    change (2 ^ 1) with 2. change (2 ^ 64) with 18446744073709551616. lia.
  - unfold bits, set_bit, val; cbn [blen w0 w1 w2 w3 N.to_nat Pos.to_nat Pos.iter_op bits_of N.of_nat].
    rewrite !N.mul_0_r, !N.add_0_r, H. change (Pos.to_nat 1) with 1%nat. cbn [bits_of N.of_nat]. f_equal.
    change (b mod 2) with (b mod 2 ^ 1). rewrite mod_pow2_testbit. apply N.bit0_odd.
Qed.

Lemma zeros_spec : forall n, n < 256 -> wf (zeros n) /\ bits (zeros n) = repeat false (N.to_nat n).
Proof.
  intros n Hn. split.
  - unfold wf, inrange, zeros, val; cbn [blen w0 w1 w2 w3]. pose proof (pow2_pos n).
    change (2 ^ 64) with 18446744073709551616. lia.
  - unfold bits, zeros, val; cbn [blen w0 w1 w2 w3]. rewrite !N.mul_0_r, !N.add_0_r. apply bits_of_zero.
Qed.

Lemma ones_spec : forall n, n < 256 -> wf (ones n) /\ bits (ones n) = repeat true (N.to_nat n).
Proof.
  intros n Hn. set (y := BA n max64 max64 max64 max64).
  assert (Hy : inrange y) by (unfold inrange, y; simpl; repeat split; (assumption || reflexivity)).
  split; [apply truncate_wf; assumption|].
  unfold ones, bits. fold y. rewrite truncate_val, truncate_len by assumption.
  change (blen y) with n. change (val y) with (N.ones 256).
  rewrite <- (N2Nat.id n) at 1. rewrite bits_of_mod.
  rewrite <- bits_of_ones. apply bits_of_ext. intros i Hi. rewrite !ones_testbit.
  destruct (N.ltb_spec i 256), (N.ltb_spec i (N.of_nat (N.to_nat n))); try reflexivity; lia.
Qed.

(* ---------- Append ---------- *)
Lemma append_spec : forall x y, wf x -> wf y ->
  wf (append x y) /\
  bits (append x y) = skipn (N.to_nat (blen x) + N.to_nat (blen y) - 255) (bits x ++ bits y) /\
  blen (append x y) = N.min 255 (blen x + blen y).
Proof.
  intros x y Hx Hy. pose proof (wf_len _ Hx) as Hlx. pose proof (wf_len _ Hy) as Hly. unfold append.
  destruct (N.eqb_spec (blen x) 0) as [Ex|Ex].
  { cbn [orb]. split; [assumption|]. split; [|lia]. rewrite (bits_len0 x) by assumption. cbn [app].
    replace (N.to_nat (blen x) + N.to_nat (blen y) - 255)%nat with 0%nat by lia. reflexivity. }
  destruct (N.eqb_spec (blen y) 255) as [Ey|Ey].
  { cbn [orb]. split; [assumption|]. split; [|lia].
    replace (N.to_nat (blen x) + N.to_nat (blen y) - 255)%nat with (length (bits x) + 0)%nat by (rewrite bits_length; lia).
    rewrite skipn_app, skipn_all2 by lia. replace (length (bits x) + 0 - length (bits x))%nat with 0%nat by lia.
    reflexivity. }
  cbn [orb].
  destruct (N.eqb_spec (blen y) 0) as [Ey0|Ey0].
  { split; [assumption|]. split; [|lia]. rewrite (bits_len0 y) by assumption. rewrite app_nil_r.
    replace (N.to_nat (blen x) + N.to_nat (blen y) - 255)%nat with 0%nat by lia. reflexivity. }
  destruct (lsh_spec x (blen y) Hx Hly) as (Hw & _ & Hlen).
  destruct (N.eqb_spec (blen x) 0); [contradiction|].
  set (s := lsh x (blen y)) in *. pose proof (wf_inrange _ Hw) as Hrs. pose proof (wf_inrange _ Hy) as Hry.
  assert (Hvs : val s = N.shiftl (val x) (blen y) mod 2 ^ blen s).
  { unfold s, lsh. destruct (N.eqb_spec (blen x) 0); [contradiction|]. destruct (N.eqb_spec (blen y) 0); [contradiction|].
    cbn [orb]. set (l := if sub8 255 (blen x) <? blen y then 255 else add8 (blen x) (blen y)).
    assert (l < 256). { unfold l. destruct (sub8 255 (blen x) <? blen y); [lia|apply u8_lt]. }
    assert (Hr' : inrange (lsh_words l x (blen y))) by (apply lsh_words_inrange; (apply wf_inrange; assumption) || lia).
    rewrite truncate_val, truncate_len, lsh_words_len by assumption.
    rewrite lsh_words_val by ((apply wf_inrange; assumption) || lia).
    apply N.bits_inj. intro i. rewrite !mod_pow2_testbit.
    destruct (N.ltb_spec i l), (N.ltb_spec i 256); try reflexivity; lia. }
  assert (Hlt : blen y < blen s) by lia.
  assert (Hvy : val y < 2 ^ blen y) by (destruct Hy; assumption).
  split; [|split; [|unfold ba_or; cbn [blen]; lia]].
  - split; [apply ba_or_inrange; assumption|]. rewrite ba_or_val by assumption.
    change (blen (ba_or s y)) with (blen s). apply lor_lt_pow2.
    + destruct Hw; assumption.
    + eapply N.lt_trans; [exact Hvy|]. apply pow2_lt. assumption.
  - unfold bits at 1. rewrite ba_or_val by assumption. change (blen (ba_or s y)) with (blen s).
    unfold bits. rewrite bits_of_app, bits_of_skipn.
    replace (N.to_nat (blen x) + N.to_nat (blen y) - (N.to_nat (blen x) + N.to_nat (blen y) - 255))%nat
      with (N.to_nat (blen s)) by lia.
    apply bits_of_ext. intros i Hi. rewrite N.lor_spec, Hvs, mod_pow2_testbit, shiftl_testbit.
    rewrite N.shiftl_mul_pow2, N.add_comm, N.mul_comm.
    rewrite testbit_cat by (apply N.mod_upper_bound; apply N.pow_nonzero; discriminate).
    rewrite N2Nat.id. rewrite (N.mod_small (val y)) by assumption.
    destruct (N.ltb_spec i (blen s)); [|lia]. cbn [andb].
    destruct (N.leb_spec (blen y) i), (N.ltb_spec i (blen y)); try lia; cbn [andb orb].
    + rewrite (testbit_high (val y) (blen y)) by assumption. apply orb_false_r.
    + reflexivity.
Qed.

Lemma append_bit_spec : forall x b, wf x ->
  wf (append_bit x b) /\
  bits (append_bit x b) = skipn (N.to_nat (blen x) + 1 - 255) (bits x ++ [N.odd b]).
Proof.
  intros x b Hx. destruct (set_bit_spec b) as [Hw Hb].
  destruct (append_spec x (set_bit b) Hx Hw) as (H1 & H2 & _). split; [assumption|].
  unfold append_bit. rewrite H2, Hb. reflexivity.
Qed.

Lemma append_zeros_spec : forall x n, wf x -> n < 256 ->
  wf (append_zeros x n) /\
  bits (append_zeros x n) = skipn (N.to_nat (blen x) + N.to_nat n - 255) (bits x ++ repeat false (N.to_nat n)).
Proof.
  intros x n Hx Hn. destruct (zeros_spec n Hn) as [Hw Hb].
  destruct (append_spec x (zeros n) Hx Hw) as (H1 & H2 & _). split; [assumption|].
  unfold append_zeros. rewrite H2, Hb. reflexivity.
Qed.

(* ---------- BitFromLSB / Bit / IsBitSet ---------- *)
Lemma bit_spec : forall b n, inrange b -> n < 256 ->
  bit b n = N.b2n (nth (N.to_nat n) (bits b) false).
Proof.
  intros b n Hr Hn. pose proof Hr as (Hl & _). unfold bit.
  destruct (N.leb_spec (blen b) n).
  - rewrite nth_overflow; [reflexivity|]. rewrite bits_length. lia.
  - rewrite (sub8_exact (blen b) n) by lia. rewrite sub8_exact by lia.
    rewrite bit_from_lsb_val by (assumption || lia).
    destruct (N.leb_spec (blen b) (blen b - n - 1)); [lia|].
    unfold bits. rewrite bits_of_nth by lia. do 2 f_equal. lia.
Qed.

Lemma is_bit_set_spec : forall b n, inrange b -> n < 256 ->
  ba_is_bit_set b n = Trie1.is_bit_set (bits b) (N.to_nat n).
Proof.
  intros b n Hr Hn. unfold ba_is_bit_set, Trie1.is_bit_set. rewrite bit_spec by assumption.
  destruct (nth (N.to_nat n) (bits b) false); reflexivity.
Qed.

Lemma bit_from_lsb_spec : forall b n, inrange b -> n < 256 ->
  bit_from_lsb b n = N.b2n (nth (N.to_nat (blen b) - 1 - N.to_nat n) (bits b) false && (n <? blen b)).
Proof.
  intros b n Hr Hn. rewrite bit_from_lsb_val by assumption.
  destruct (N.leb_spec (blen b) n), (N.ltb_spec n (blen b)); try lia.
  - rewrite andb_false_r. reflexivity.
  - rewrite andb_true_r. unfold bits. rewrite bits_of_nth by lia. do 2 f_equal. lia.
Qed.

(* ---------- CommonMSBs ---------- *)
Lemma size_le_iff : forall a l, N.size a <= l <-> a < 2 ^ l.
Proof.
  intros a l. destruct (N.eq_dec a 0) as [->|Hn].
  - simpl. pose proof (pow2_pos l). lia.
  - rewrite size_log2 by assumption. rewrite N.log2_lt_pow2 by lia. lia.
Qed.

Lemma cm_comm : forall a b, Trie1.common_msbs a b = Trie1.common_msbs b a.
Proof.
  induction a as [|x a IH]; destruct b as [|y b]; simpl; try reflexivity.
  destruct x, y; simpl; try reflexivity; rewrite IH; reflexivity.
Qed.

Lemma cm_firstn : forall s l, (length s <= length l)%nat ->
  Trie1.common_msbs l s = Trie1.common_msbs (firstn (length s) l) s.
Proof.
  induction s as [|y s IH]; intros l Hl.
  - destruct l; reflexivity.
  - destruct l as [|x l]; [simpl in Hl; lia|]. simpl. destruct (Bool.eqb x y); [|reflexivity].
    f_equal. apply IH. simpl in Hl. lia.
Qed.

Lemma cm_size : forall l a b, a < 2 ^ N.of_nat l -> b < 2 ^ N.of_nat l ->
  Trie1.common_msbs (bits_of a l) (bits_of b l) =
  firstn (l - N.to_nat (N.size (N.lxor a b))) (bits_of b l).
Proof.
  induction l; intros a b Ha Hb; [reflexivity|].
  cbn [bits_of Trie1.common_msbs].
  assert (Hx : N.lxor a b < 2 ^ N.of_nat (S l)) by (apply lxor_lt_pow2; assumption).
  destruct (Bool.eqb (N.testbit a (N.of_nat l)) (N.testbit b (N.of_nat l))) eqn:E.
  - apply eqb_prop in E.
    assert (Hx' : N.lxor a b < 2 ^ N.of_nat l).
    { apply lt_pow2_bits. intros i Hi. destruct (N.eq_dec i (N.of_nat l)) as [->|Hne].
      - rewrite N.lxor_spec, E. apply xorb_nilpotent.
      - apply (testbit_high _ (N.of_nat (S l))); [assumption|lia]. }
    pose proof Hx' as Hsz. apply size_le_iff in Hsz.
    replace (S l - N.to_nat (N.size (N.lxor a b)))%nat with (S (l - N.to_nat (N.size (N.lxor a b)))) by lia.
    cbn [firstn]. rewrite E. f_equal.
    rewrite <- (bits_of_mod l a), <- (bits_of_mod l b).
    rewrite IHl by (apply N.mod_upper_bound; apply N.pow_nonzero; discriminate).
    assert (Hm : N.lxor (a mod 2 ^ N.of_nat l) (b mod 2 ^ N.of_nat l) = N.lxor a b).
    { apply N.bits_inj. intro i.
      rewrite N.lxor_spec, !mod_pow2_testbit. destruct (N.ltb_spec i (N.of_nat l)).
      - cbn [andb]. rewrite N.lxor_spec. reflexivity.
      - cbn [andb xorb]. symmetry. apply (testbit_high _ (N.of_nat l)); assumption. }
    rewrite Hm. reflexivity.
  - assert (Hs : ~ N.size (N.lxor a b) <= N.of_nat l).
    { intro Hle. apply size_le_iff in Hle. pose proof (testbit_high _ _ (N.of_nat l) Hle ltac:(lia)) as Hb0.
      rewrite N.lxor_spec in Hb0. destruct (N.testbit a (N.of_nat l)), (N.testbit b (N.of_nat l)); simpl in *; discriminate. }
    apply size_le_iff in Hx.
    replace (S l - N.to_nat (N.size (N.lxor a b)))%nat with 0%nat by lia. reflexivity.
Qed.

Lemma common_msbs_spec : forall x y, wf x -> wf y ->
  wf (ba_common_msbs x y) /\ bits (ba_common_msbs x y) = Trie1.common_msbs (bits x) (bits y).
Proof.
  assert (Hmain : forall long short, wf long -> wf short -> blen short <> 0 -> blen short <= blen long ->
    let diff := sub8 (blen long) (blen short) in
    let b1 := rsh long diff in
    let b2 := ba_xor (blen b1) b1 short in
    wf (rsh short (find_first_set_bit b2)) /\
    bits (rsh short (find_first_set_bit b2)) = Trie1.common_msbs (bits long) (bits short)).
  { intros long short Hlg Hsh Hs0 Hle. cbn zeta.
    pose proof (wf_len _ Hlg). pose proof (wf_len _ Hsh).
    rewrite sub8_exact by lia.
    destruct (rsh_spec long (blen long - blen short) Hlg ltac:(lia)) as (Hw1 & Hb1 & Hl1 & Hv1).
    set (b1 := rsh long (blen long - blen short)) in *.
    assert (Hl1' : blen b1 = blen short) by lia.
    destruct (ba_xor_val (blen b1) b1 short (wf_inrange _ Hw1) (wf_inrange _ Hsh) ltac:(lia)) as [Hxv Hxr].
    set (b2 := ba_xor (blen b1) b1 short) in *.
    assert (Hv1b : val b1 < 2 ^ blen short) by (rewrite <- Hl1'; destruct Hw1; assumption).
    assert (Hvs : val short < 2 ^ blen short) by (destruct Hsh; assumption).
    assert (Hxlt : val b2 < 2 ^ blen short) by (rewrite Hxv; apply lxor_lt_pow2; assumption).
    assert (Hf : find_first_set_bit b2 = N.size (val b2)).
    { rewrite find_first_set_bit_val by assumption. change (blen b2) with (blen b1).
      destruct (N.eqb_spec (blen b1) 0); [lia|]. apply N.mod_small.
      apply size_le_iff in Hxlt. lia. }
    rewrite Hf. apply size_le_iff in Hxlt.
    destruct (rsh_spec short (N.size (val b2)) Hsh ltac:(lia)) as (Hw & Hb & _ & _).
    split; [assumption|]. rewrite Hb.
    rewrite cm_firstn by (rewrite !bits_length; lia).
    rewrite bits_length.
    assert (Hb1' : bits b1 = firstn (N.to_nat (blen short)) (bits long)) by (rewrite Hb1; f_equal; lia).
    rewrite <- Hb1'. unfold bits. rewrite Hl1'.
    rewrite cm_size by (rewrite N2Nat.id; assumption). rewrite Hxv. reflexivity. }
  intros x y Hx Hy. unfold ba_common_msbs.
  destruct (N.eqb_spec (blen x) 0) as [Ex|Ex].
  { cbn [orb]. split; [apply wf_empty|]. rewrite (bits_len0 x) by assumption. reflexivity. }
  destruct (N.eqb_spec (blen y) 0) as [Ey|Ey].
  { cbn [orb]. split; [apply wf_empty|]. rewrite (bits_len0 y) by assumption.
    destruct (bits x); reflexivity. }
  cbn [orb]. destruct (N.ltb_spec (blen x) (blen y)).
  - destruct (Hmain y x Hy Hx Ex ltac:(lia)) as [Hw Hb]. split; [exact Hw|]. rewrite cm_comm. exact Hb.
  - apply Hmain; assumption.
Qed.

(* ---------- EqualMSBs ---------- *)
Lemma em_firstn : forall a b,
  Trie1.equal_msbs a b = Trie1.peqb (firstn (Nat.min (length a) (length b)) a) (firstn (Nat.min (length a) (length b)) b).
Proof.
  assert (Hp : forall a, Trie1.peqb a a = true).
  { intro a. unfold Trie1.peqb. destruct (list_eq_dec bool_dec a a); congruence. }
  induction a as [|x a IH]; intro b.
  - simpl. symmetry. apply Hp.
  - destruct b as [|y b]; [simpl; symmetry; apply Hp|].
    cbn [Trie1.equal_msbs length Nat.min firstn]. rewrite IH.
    unfold Trie1.peqb.
    destruct (list_eq_dec bool_dec (firstn (Nat.min (length a) (length b)) a) (firstn (Nat.min (length a) (length b)) b)) as [E|E];
    destruct (list_eq_dec bool_dec (x :: firstn (Nat.min (length a) (length b)) a) (y :: firstn (Nat.min (length a) (length b)) b)) as [E'|E'];
    destruct x, y; simpl; try reflexivity; try congruence.
Qed.

Lemma equal_msbs_spec : forall b x, wf b -> wf x ->
  ba_equal_msbs b x = Trie1.equal_msbs (bits b) (bits x).
Proof.
  intros b x Hb Hx. pose proof (wf_len _ Hb). pose proof (wf_len _ Hx).
  rewrite em_firstn, !bits_length. unfold ba_equal_msbs.
  destruct (N.eqb_spec (blen b) (blen x)) as [E|E].
  { rewrite E, Nat.min_id. rewrite <- (bits_length x) at 2. rewrite firstn_all.
    rewrite <- E, <- (bits_length b), firstn_all. apply ba_eqb_bits; assumption. }
  destruct (N.eqb_spec (blen b) 0) as [Eb|Eb].
  { cbn [orb]. rewrite Eb. reflexivity. }
  destruct (N.eqb_spec (blen x) 0) as [Ex|Ex].
  { cbn [orb]. rewrite Ex, Nat.min_0_r. reflexivity. }
  cbn [orb].
  destruct (msbs_spec b (N.min (blen b) (blen x)) Hb ltac:(lia)) as (Hw1 & Hb1 & _).
  destruct (msbs_spec x (N.min (blen b) (blen x)) Hx ltac:(lia)) as (Hw2 & Hb2 & _).
  rewrite ba_eqb_bits by assumption. rewrite Hb1, Hb2.
  replace (N.to_nat (N.min (blen b) (blen x))) with (Nat.min (N.to_nat (blen b)) (N.to_nat (blen x))) by lia.
  reflexivity.
Qed.

(* ---------- Subset ---------- *)
Lemma nth_repeat_true : forall k i, (i < k)%nat -> nth i (repeat true k) false = true.
Proof. induction k; intros i Hi; [lia|]. destruct i; [reflexivity|]. simpl. apply IHk. lia. Qed.

Lemma subset_spec : forall x s e, wf x -> s < 256 -> e < 256 ->
  wf (subset x s e) /\
  bits (subset x s e) = firstn (N.to_nat e - N.to_nat s) (skipn (N.to_nat s) (bits x)).
Proof.
  intros x s e Hx Hs He. pose proof (wf_len _ Hx) as Hlx. unfold subset.
  destruct (N.leb_spec e s).
  { cbn [orb]. split; [apply wf_empty|]. replace (N.to_nat e - N.to_nat s)%nat with 0%nat by lia. reflexivity. }
  destruct (N.leb_spec (blen x) s).
  { cbn [orb]. split; [apply wf_empty|]. rewrite skipn_all2 by (rewrite bits_length; lia). rewrite firstn_nil. reflexivity. }
  cbn [orb].
  set (e' := if blen x <? e then blen x else e).
  assert (He' : e' = N.min (blen x) e) by (unfold e'; destruct (N.ltb_spec (blen x) e); lia).
  rewrite (sub8_exact e' s) by lia.
  destruct (lsbs_spec x s Hx Hs) as [Hwb Hbb]. set (b := lsbs x s) in *.
  assert (Hlb : blen b = blen x - s).
  { apply (f_equal (@length bool)) in Hbb. rewrite skipn_length, !bits_length in Hbb. lia. }
  rewrite (sub8_exact (blen b)) by lia.
  destruct (ones_spec (e' - s) ltac:(lia)) as [Hwo Hbo].
  destruct (zeros_spec (blen b - (e' - s)) ltac:(lia)) as [Hwz Hbz].
  destruct (append_spec _ _ Hwo Hwz) as (Hwm & Hbm & Hlm).
  set (mask := append (ones (e' - s)) (zeros (blen b - (e' - s)))) in *.
  assert (Hlo : blen (ones (e' - s)) = e' - s) by (unfold ones; rewrite truncate_len; reflexivity).
  change (blen (zeros (blen b - (e' - s)))) with (blen b - (e' - s)) in *.
  rewrite Hlo in *.
  assert (Hlm' : blen mask = blen b) by lia.
  pose proof (wf_inrange _ Hwb) as Hrb. pose proof (wf_inrange _ Hwm) as Hrm.
  assert (Hwa : wf (ba_and b mask)).
  { split; [apply ba_and_inrange; assumption|]. rewrite ba_and_val by assumption.
    change (blen (ba_and b mask)) with (blen b). apply land_lt_pow2. destruct Hwb; assumption. }
  destruct (msbs_spec _ (e' - s) Hwa ltac:(lia)) as (Hw & Hb & _).
  split; [assumption|]. rewrite Hb.
  (* the first e'-s bits of b & mask are those of b *)
  assert (Hk : firstn (N.to_nat (e' - s)) (bits (ba_and b mask)) = firstn (N.to_nat (e' - s)) (bits b)).
  { unfold bits at 1. rewrite ba_and_val by assumption. change (blen (ba_and b mask)) with (blen b).
    unfold bits. rewrite !bits_of_firstn by lia. apply bits_of_ext. intros i Hi.
    rewrite !shiftr_testbit, N.land_spec.
    assert (Hmb : N.testbit (val mask) (i + N.of_nat (N.to_nat (blen b) - N.to_nat (e' - s))) = true).
    { assert (Hn := bits_of_nth (N.to_nat (blen mask)) (val mask)
                     (N.to_nat (blen b) - 1 - N.to_nat (i + N.of_nat (N.to_nat (blen b) - N.to_nat (e' - s)))) ltac:(lia)).
      fold (bits mask) in Hn. rewrite Hbm in Hn.
      replace (N.to_nat (e' - s) + N.to_nat (blen b - (e' - s)) - 255)%nat with 0%nat in Hn by lia.
      cbn [skipn] in Hn. rewrite Hbo, Hbz in Hn. rewrite app_nth1 in Hn by (rewrite repeat_length; lia).
      rewrite nth_repeat_true in Hn by lia. rewrite Hn. f_equal. lia. }
    rewrite Hmb. apply andb_true_r. }
  rewrite Hk, Hbb, He'.
  destruct (N.le_gt_cases e (blen x)).
  - replace (N.min (blen x) e) with e by lia. f_equal. lia.
  - rewrite !firstn_all2; [reflexivity| |]; rewrite skipn_length, bits_length; lia.
Qed.
