(* C01 — BitArray proofs, part 5: the key computations of the legacy trie (trie.go, node.go,
   storage.go) on BitArray words are the images under [bits] of the list computations of Trie1.v.
   One lemma per call site. *)
From Coq Require Import List NArith ZArith Bool Lia ZifyN ZifyNat ZifyBool Arith.
From V Require Import C01.BitArray C01.Proofs_ba_bits C01.Proofs_ba_words C01.Proofs_ba_ops C01.Proofs_ba_codec.
From V Require C01.Trie1 C01.Term.
Import ListNotations.
Local Open Scope N_scope.

(* ---------- FeltToKey: SetFelt(height, k) ---------- *)
Lemma bits_of_snoc : forall l v, bits_of v (S l) = bits_of (N.div2 v) l ++ [N.odd v].
Proof.
  induction l; intro v.
  - cbn [bits_of N.of_nat app]. rewrite N.bit0_odd. reflexivity.
  - change (bits_of v (S (S l))) with (N.testbit v (N.of_nat (S l)) :: bits_of v (S l)).
    rewrite IHl. cbn [bits_of app]. f_equal.
    rewrite Nat2N.inj_succ, N.div2_spec, N.shiftr_spec'. f_equal. lia.
Qed.

Lemma bits_of_Z_N : forall h v, Term.bits_of_Z h (Z.of_N v) = bits_of v h.
Proof.
  induction h; intro v; [reflexivity|].
  rewrite bits_of_snoc. cbn [Term.bits_of_Z].
  rewrite <- N2Z.inj_div2, IHh. f_equal. f_equal.
  destruct v as [|[p|p|]]; reflexivity.
Qed.

Lemma felt_to_key_refines : forall h k, h < 256 -> k < 2 ^ 256 ->
  wf (set_felt h k) /\ bits (set_felt h k) = Term.bits_of_Z (N.to_nat h) (Z.of_N k).
Proof.
  intros h k Hh Hk. destruct (set_felt_spec h k Hh Hk) as (Hw & Hb & _). split; [assumption|].
  rewrite Hb. symmetry. apply bits_of_Z_N.
Qed.

(* ---------- path(key, parentKey) ---------- *)
Lemma path_refines : forall key parent, wf key -> blen parent < 255 ->
  wf (ba_path key (Some parent)) /\
  bits (ba_path key (Some parent)) = Trie1.rel_path (bits key) (Some (bits parent)).
Proof.
  intros key parent Hk Hp. unfold ba_path, Trie1.rel_path. rewrite add8_exact by lia.
  destruct (lsbs_spec key (blen parent + 1) Hk ltac:(lia)) as [Hw Hb]. split; [assumption|].
  rewrite Hb, bits_length. f_equal. lia.
Qed.

Lemma path_nil_refines : forall key, ba_path key None = key /\ Trie1.rel_path (bits key) None = bits key.
Proof. intro. split; reflexivity. Qed.

(* ---------- Len() comparisons ---------- *)
Lemma len_refines : forall a, wf a -> blen a = N.of_nat (length (bits a)).
Proof. intros a Ha. rewrite bits_length. lia. Qed.

Lemma len_le_refines : forall a b, (blen a <=? blen b) = Nat.leb (length (bits a)) (length (bits b)).
Proof.
  intros a b. rewrite !bits_length.
  destruct (N.leb_spec (blen a) (blen b)), (Nat.leb_spec (N.to_nat (blen a)) (N.to_nat (blen b))); try reflexivity; lia.
Qed.

Lemma len_lt_refines : forall a b, (blen a <? blen b) = Nat.ltb (length (bits a)) (length (bits b)).
Proof.
  intros a b. rewrite !bits_length.
  destruct (N.ltb_spec (blen a) (blen b)), (Nat.ltb_spec (N.to_nat (blen a)) (N.to_nat (blen b))); try reflexivity; lia.
Qed.

Lemma len_eq_refines : forall a h, (blen a =? h) = Nat.eqb (length (bits a)) (N.to_nat h).
Proof.
  intros a h. rewrite bits_length.
  destruct (N.eqb_spec (blen a) h), (Nat.eqb_spec (N.to_nat (blen a)) (N.to_nat h)); try reflexivity; lia.
Qed.

(* ---------- Equal on possibly-nil pointers ---------- *)
Lemma oba_eqb_refines : forall x y, owf x -> owf y ->
  oba_eqb x y = Trie1.opeqb (option_map bits x) (option_map bits y).
Proof.
  intros [x|] [y|] Hx Hy; try reflexivity. cbn. apply ba_eqb_bits; assumption.
Qed.

(* ---------- database keys: prefix ++ Write(key) ---------- *)
Lemma db_key_injective : forall (prefix : list N) a b, wf a -> wf b ->
  prefix ++ ba_write a = prefix ++ ba_write b -> a = b.
Proof. intros prefix a b Ha Hb H. apply app_inv_head in H. apply ba_write_inj; assumption. Qed.

(* ---------- node.Hash: path.Len() == 0, path.Felt(), felt(path.Len()) ---------- *)
Lemma path_empty_refines : forall p, (blen p =? 0) = match bits p with [] => true | _ => false end.
Proof.
  intro p. pose proof (bits_length p) as H. destruct (N.eqb_spec (blen p) 0) as [E|E].
  - rewrite bits_len0 by assumption. reflexivity.
  - destruct (bits p); [simpl in H; lia|reflexivity].
Qed.

(* ---------- combined statements restated in Props.v ---------- *)
Lemma truncate_spec : forall b, inrange b ->
  wf (truncate b) /\ blen (truncate b) = blen b /\ val (truncate b) = val b mod 2 ^ blen b.
Proof. intros b H. split; [apply truncate_wf; exact H|]. split; [apply truncate_len|apply truncate_val; exact H]. Qed.

Lemma rsh_words_spec : forall x n, inrange x -> 0 < n -> n < 256 ->
  inrange (rsh_words x n) /\ val (rsh_words x n) = N.shiftr (val x) n.
Proof. intros. split; [apply rsh_words_inrange|apply rsh_words_val]; assumption. Qed.

Lemma lsh_words_spec : forall l x n, inrange x -> l < 256 -> 0 < n -> n < 256 ->
  inrange (lsh_words l x n) /\ val (lsh_words l x n) = N.shiftl (val x) n mod 2 ^ 256.
Proof. intros. split; [apply lsh_words_inrange|apply lsh_words_val]; assumption. Qed.

Lemma append_fits : forall x y, wf x -> wf y -> blen x + blen y <= 255 ->
  wf (append x y) /\ bits (append x y) = bits x ++ bits y.
Proof.
  intros x y Hx Hy Hl. destruct (append_spec x y Hx Hy) as (Hw & Hb & _). split; [exact Hw|].
  rewrite Hb. replace (N.to_nat (blen x) + N.to_nat (blen y) - 255)%nat with 0%nat by lia. reflexivity.
Qed.

Lemma or_and_xor_spec : forall l x y, inrange x -> inrange y -> l < 256 ->
  val (ba_or x y) = N.lor (val x) (val y) /\ val (ba_and x y) = N.land (val x) (val y) /\
  val (ba_xor l x y) = N.lxor (val x) (val y) /\
  inrange (ba_or x y) /\ inrange (ba_and x y) /\ inrange (ba_xor l x y).
Proof.
  intros l x y Hx Hy Hl. destruct (ba_xor_val l x y Hx Hy Hl) as [Hv Hr].
  split; [apply ba_or_val; assumption|]. split; [apply ba_and_val; assumption|]. split; [assumption|].
  split; [apply ba_or_inrange; assumption|]. split; [apply ba_and_inrange; assumption|assumption].
Qed.

Lemma unmarshal_rejects : forall l rest,
  ba_unmarshal nil = None /\
  (N.of_nat (length rest) < (l + 7) / 8 -> ba_unmarshal (l :: rest) = None).
Proof. intros. split; [reflexivity|apply ba_unmarshal_short]. Qed.

Lemma len_refines_all : forall a b h,
  (blen a <=? blen b) = Nat.leb (length (bits a)) (length (bits b)) /\
  (blen a <? blen b) = Nat.ltb (length (bits a)) (length (bits b)) /\
  (blen a =? h) = Nat.eqb (length (bits a)) (N.to_nat h).
Proof. intros. split; [apply len_le_refines|split; [apply len_lt_refines|apply len_eq_refines]]. Qed.

Lemma path_felt_refines : forall p, wf p -> blen p <= 251 ->
  ba_felt p = N_of_bits (bits p) /\
  (blen p =? 0) = match bits p with nil => true | _ => false end.
Proof. intros p Hw Hl. split; [apply ba_felt_bits; assumption|apply path_empty_refines]. Qed.
