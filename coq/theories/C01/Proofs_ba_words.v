(* C01 — BitArray proofs, part 2: from the four uint64 words to the 256-bit number [val]:
   what each word-level algorithm of bitarray.go computes, as a statement about [val]. *)
From Coq Require Import List NArith ZArith Bool Lia ZifyN ZifyNat ZifyBool Arith.
From V Require Import C01.BitArray C01.Proofs_ba_bits.
Import ListNotations.
Local Open Scope N_scope.

Ltac Zify.zify_post_hook ::= Z.div_mod_to_equations.

(* ---------- words and val ---------- *)
Lemma word_high : forall b j, 4 <= j -> word b j = 0.
Proof.
  intros b j H. destruct j as [|p]; [lia|].
  destruct p as [[p|p|]|[p|p|]|]; try reflexivity; lia.
Qed.

Lemma inrange_word : forall b j, inrange b -> word b j < 2 ^ 64.
Proof.
  intros b j (_ & H0 & H1 & H2 & H3).
  destruct j as [|p]; [assumption|].
  destruct p as [[p|p|]|[p|p|]|]; simpl; try assumption; reflexivity.
Qed.

Lemma val_nested : forall b,
  val b = w0 b + 2 ^ 64 * (w1 b + 2 ^ 64 * (w2 b + 2 ^ 64 * w3 b)).
Proof.
  intro b. unfold val.
  change (2 ^ 128) with (2 ^ 64 * 2 ^ 64). change (2 ^ 192) with (2 ^ 64 * (2 ^ 64 * 2 ^ 64)). lia.
Qed.

Lemma val_testbit : forall b i, inrange b ->
  N.testbit (val b) i = N.testbit (word b (i / 64)) (i mod 64).
Proof.
  intros b i Hr. pose proof Hr as (_ & H0 & H1 & H2 & H3). rewrite val_nested.
  rewrite testbit_cat by assumption.
  destruct (N.ltb_spec i 64).
  { replace (i / 64) with 0 by lia. replace (i mod 64) with i by lia. reflexivity. }
  rewrite testbit_cat by assumption.
  destruct (N.ltb_spec (i - 64) 64).
  { replace (i / 64) with 1 by lia. replace (i mod 64) with (i - 64) by lia. reflexivity. }
  rewrite testbit_cat by assumption.
  destruct (N.ltb_spec (i - 64 - 64) 64).
  { replace (i / 64) with 2 by lia. replace (i mod 64) with (i - 64 - 64) by lia. reflexivity. }
  destruct (N.lt_ge_cases i 256).
  { replace (i / 64) with 3 by lia. replace (i mod 64) with (i - 64 - 64 - 64) by lia. reflexivity. }
  rewrite word_high by lia. rewrite N.bits_0. apply (testbit_high _ 64); [assumption|lia].
Qed.

Lemma val_lt : forall b, inrange b -> val b < 2 ^ 256.
Proof.
  intros b Hr. apply lt_pow2_bits. intros i Hi. rewrite val_testbit by assumption.
  rewrite word_high by lia. apply N.bits_0.
Qed.

(* two in-range arrays with the same length and value are the same record *)
Lemma word_of_val : forall b j, inrange b -> j < 4 -> word b j = (val b / 2 ^ (64 * j)) mod 2 ^ 64.
Proof.
  intros b j Hr Hj. apply N.bits_inj. intro k.
  rewrite mod_pow2_testbit. rewrite N.div_pow2_bits.
  destruct (N.ltb_spec k 64).
  - rewrite val_testbit by assumption.
    replace ((k + 64 * j) / 64) with j by lia. replace ((k + 64 * j) mod 64) with k by lia. reflexivity.
  - simpl. apply (testbit_high _ 64); [apply inrange_word; assumption|assumption].
Qed.

Lemma ba_ext : forall a b, inrange a -> inrange b -> blen a = blen b -> val a = val b -> a = b.
Proof.
  intros a b Ha Hb Hl Hv.
  assert (Hw : forall j, j < 4 -> word a j = word b j).
  { intros j Hj. rewrite !word_of_val by assumption. rewrite Hv. reflexivity. }
  destruct a as [la a0 a1 a2 a3], b as [lb b0 b1 b2 b3]. simpl in *. subst lb.
  pose proof (Hw 0 ltac:(lia)). pose proof (Hw 1 ltac:(lia)).
  pose proof (Hw 2 ltac:(lia)). pose proof (Hw 3 ltac:(lia)). simpl in *. congruence.
Qed.

(* building the value from per-word bit descriptions *)
Lemma val_bits_eq : forall b v, inrange b -> v < 2 ^ 256 ->
  (forall j k, j < 4 -> k < 64 -> N.testbit (word b j) k = N.testbit v (64 * j + k)) -> val b = v.
Proof.
  intros b v Hr Hv H. apply N.bits_inj. intro i. rewrite val_testbit by assumption.
  destruct (N.lt_ge_cases i 256).
  - rewrite H by lia. f_equal. lia.
  - rewrite word_high by lia. rewrite N.bits_0. symmetry. apply (testbit_high _ 256); assumption.
Qed.

(* ---------- machine shifts ---------- *)
Lemma shl_lt : forall a n, shl a n < 2 ^ 64.
Proof. intros. unfold shl, u64. rewrite W64_pow. apply N.mod_upper_bound. apply N.pow_nonzero. discriminate. Qed.

Lemma shr_lt : forall a n, a < 2 ^ 64 -> shr a n < 2 ^ 64.
Proof. intros. apply shiftr_lt_pow2. assumption. Qed.

Lemma shl_0 : forall n, shl 0 n = 0.
Proof. intro n. unfold shl, u64. rewrite N.shiftl_0_l. reflexivity. Qed.

Lemma shr_0 : forall n, shr 0 n = 0.
Proof. intro n. apply N.shiftr_0_l. Qed.

Lemma shl_testbit : forall a n k, N.testbit (shl a n) k = (k <? 64) && (n <=? k) && N.testbit a (k - n).
Proof.
  intros. unfold shl, u64. rewrite W64_pow, mod_pow2_testbit, shiftl_testbit. apply andb_assoc.
Qed.

Lemma shr_testbit : forall a n k, N.testbit (shr a n) k = N.testbit a (k + n).
Proof. intros. apply shiftr_testbit. Qed.

(* (a >> r) | (b << (64-r)): the double-word right shift *)
Definition dshr (a b r : N) : N := N.lor (shr a r) (shl b (64 - r)).
(* (a << r) | (b >> (64-r)): the double-word left shift *)
Definition dshl (a b r : N) : N := N.lor (shl a r) (shr b (64 - r)).

Lemma dshr_lt : forall a b r, a < 2 ^ 64 -> dshr a b r < 2 ^ 64.
Proof. intros. apply lor_lt_pow2; [apply shr_lt; assumption|apply shl_lt]. Qed.

Lemma dshl_lt : forall a b r, b < 2 ^ 64 -> dshl a b r < 2 ^ 64.
Proof. intros. apply lor_lt_pow2; [apply shl_lt|apply shr_lt; assumption]. Qed.

Lemma dshr_testbit : forall a b r k, a < 2 ^ 64 -> r < 64 -> k < 64 ->
  N.testbit (dshr a b r) k = if k + r <? 64 then N.testbit a (k + r) else N.testbit b (k + r - 64).
Proof.
  intros a b r k Ha Hr Hk. unfold dshr. rewrite N.lor_spec, shr_testbit, shl_testbit.
  destruct (N.ltb_spec (k + r) 64).
  - destruct (N.ltb_spec k 64); [|lia]. destruct (N.leb_spec (64 - r) k); [lia|].
    cbn [orb andb]. apply orb_false_r.
  - rewrite (testbit_high a 64) by (assumption || lia).
    destruct (N.ltb_spec k 64); [|lia]. destruct (N.leb_spec (64 - r) k); [|lia].
    cbn [orb andb]. f_equal. lia.
Qed.

Lemma dshl_testbit : forall a b r k, b < 2 ^ 64 -> r < 64 -> k < 64 ->
  N.testbit (dshl a b r) k = if k <? r then N.testbit b (k + 64 - r) else N.testbit a (k - r).
Proof.
  intros a b r k Hb Hr Hk. unfold dshl. rewrite N.lor_spec, shr_testbit, shl_testbit.
  destruct (N.ltb_spec k r).
  - destruct (N.ltb_spec k 64); [|lia]. destruct (N.leb_spec r k); [lia|]. cbn [orb andb]. f_equal. lia.
  - rewrite (testbit_high b 64) by (assumption || lia).
    destruct (N.ltb_spec k 64); [|lia]. destruct (N.leb_spec r k); [|lia]. cbn [orb andb]. apply orb_false_r.
Qed.

Lemma dshr_0_r : forall a r, dshr a 0 r = shr a r.
Proof. intros. unfold dshr. rewrite shl_0. apply N.lor_0_r. Qed.

Lemma dshr_0_0 : forall r, dshr 0 0 r = 0.
Proof. intros. rewrite dshr_0_r. apply shr_0. Qed.

Lemma dshl_0_r : forall a r, dshl a 0 r = shl a r.
Proof. intros. unfold dshl. rewrite shr_0. apply N.lor_0_r. Qed.

Lemma dshl_0_0 : forall r, dshl 0 0 r = 0.
Proof. intros. rewrite dshl_0_r. apply shl_0. Qed.

Lemma u8_lt : forall x, u8 x < 256.
Proof. intro. unfold u8. apply N.mod_upper_bound. discriminate. Qed.

Lemma sub8_exact : forall a b, b <= a -> a < 256 -> sub8 a b = a - b.
Proof. intros. unfold sub8, u8. replace (a + 256 - b) with ((a - b) + 1 * 256) by lia.
  rewrite N.mod_add by discriminate. apply N.mod_small. lia. Qed.

Lemma add8_exact : forall a b, a + b < 256 -> add8 a b = a + b.
Proof. intros. unfold add8, u8. apply N.mod_small. assumption. Qed.

(* ---------- Rsh ---------- *)
Ltac word_cases j :=
  let H := fresh "Hj" in
  destruct (N.eq_dec j 0) as [->|H]; [|
  destruct (N.eq_dec j 1) as [->|?]; [|
  destruct (N.eq_dec j 2) as [->|?]; [|
  destruct (N.eq_dec j 3) as [->|?]; [| assert (4 <= j) by lia ]]]].

Ltac norm_idx :=
  repeat match goal with
  | |- context [word ?x (?a + ?b)] =>
      let v := eval vm_compute in (a + b) in
      lazymatch v with
      | N0 => change (a + b) with v
      | Npos ?p => change (a + b) with v
      end
  end.

Lemma rsh_words_word : forall x n j, 0 < n -> n < 256 ->
  word (rsh_words x n) j = dshr (word x (j + n / 64)) (word x (j + n / 64 + 1)) (n mod 64).
Proof.
  intros x n j Hn0 Hn. unfold rsh_words.
  destruct (N.leb_spec 192 n).
  { replace (n / 64) with 3 by lia. replace (n mod 64) with (n - 192) by lia.
    word_cases j; norm_idx; cbn [word blen w0 w1 w2 w3];
      rewrite ?(word_high x (j + 3)), ?(word_high x (j + 3 + 1)) by lia;
      rewrite ?dshr_0_r, ?dshr_0_0, ?shr_0; try reflexivity.
    rewrite word_high by lia. reflexivity. }
  destruct (N.leb_spec 128 n).
  { replace (n / 64) with 2 by lia. replace (n mod 64) with (n - 128) by lia.
    word_cases j; norm_idx; cbn [word blen w0 w1 w2 w3];
      rewrite ?(word_high x (j + 2)), ?(word_high x (j + 2 + 1)) by lia;
      rewrite ?dshr_0_r, ?dshr_0_0, ?shr_0; try reflexivity.
    rewrite word_high by lia. reflexivity. }
  destruct (N.leb_spec 64 n).
  { replace (n / 64) with 1 by lia. replace (n mod 64) with (n - 64) by lia.
    word_cases j; norm_idx; cbn [word blen w0 w1 w2 w3];
      rewrite ?(word_high x (j + 1)), ?(word_high x (j + 1 + 1)) by lia;
      rewrite ?dshr_0_r, ?dshr_0_0, ?shr_0; try reflexivity.
    rewrite word_high by lia. reflexivity. }
  { replace (n / 64) with 0 by lia. replace (n mod 64) with n by lia.
    word_cases j; norm_idx; cbn [word blen w0 w1 w2 w3];
      rewrite ?(word_high x (j + 0)), ?(word_high x (j + 0 + 1)) by lia;
      rewrite ?dshr_0_r, ?dshr_0_0, ?shr_0; try reflexivity.
    rewrite word_high by lia. reflexivity. }
Qed.

Lemma rsh_words_inrange : forall x n, inrange x -> 0 < n -> n < 256 -> inrange (rsh_words x n).
Proof.
  intros x n Hr Hn0 Hn.
  assert (Hw : forall j, word (rsh_words x n) j < 2 ^ 64).
  { intro j. rewrite rsh_words_word by assumption. apply dshr_lt. apply inrange_word. assumption. }
  assert (Hl : blen (rsh_words x n) < 256).
  { unfold rsh_words. repeat match goal with |- context [if ?c then _ else _] => destruct c end;
      simpl; apply u8_lt. }
  pose proof (Hw 0) as H0. pose proof (Hw 1) as H1. pose proof (Hw 2) as H2. pose proof (Hw 3) as H3.
  unfold inrange. destruct (rsh_words x n). simpl in *. tauto.
Qed.

Lemma rsh_words_val : forall x n, inrange x -> 0 < n -> n < 256 ->
  val (rsh_words x n) = N.shiftr (val x) n.
Proof.
  intros x n Hr Hn0 Hn. apply val_bits_eq.
  - apply rsh_words_inrange; assumption.
  - apply shiftr_lt_pow2. apply val_lt. assumption.
  - intros j k Hj Hk. rewrite rsh_words_word by assumption.
    rewrite dshr_testbit by (try apply inrange_word; try assumption; lia).
    rewrite shiftr_testbit, val_testbit by assumption.
    destruct (N.ltb_spec (k + n mod 64) 64).
    + replace ((64 * j + k + n) / 64) with (j + n / 64) by lia.
      replace ((64 * j + k + n) mod 64) with (k + n mod 64) by lia. reflexivity.
    + replace ((64 * j + k + n) / 64) with (j + n / 64 + 1) by lia.
      replace ((64 * j + k + n) mod 64) with (k + n mod 64 - 64) by lia. reflexivity.
Qed.

Lemma rsh_words_len : forall x n, blen (rsh_words x n) = sub8 (blen x) n.
Proof.
  intros. unfold rsh_words.
  repeat match goal with |- context [if ?c then _ else _] => destruct c end; reflexivity.
Qed.

(* ---------- Lsh ---------- *)
(* word j - q of x, zero when that index is negative *)
Definition wsel (x : bitarray) (j q : N) : N := if j <? q then 0 else word x (j - q).

Lemma wsel_lt : forall x j q, inrange x -> wsel x j q < 2 ^ 64.
Proof. intros. unfold wsel. destruct (j <? q); [reflexivity|apply inrange_word; assumption]. Qed.

Ltac norm_wsel :=
  unfold wsel;
  repeat match goal with
  | |- context [?a <? ?b] =>
      let v := eval vm_compute in (a <? b) in
      lazymatch v with
      | true => change (a <? b) with true
      | false => change (a <? b) with false
      end
  end;
  repeat match goal with
  | |- context [word ?x (?a - ?b)] =>
      let v := eval vm_compute in (a - b) in
      lazymatch v with
      | N0 => change (a - b) with v
      | Npos ?p => change (a - b) with v
      end
  end;
  norm_idx; cbn [word blen w0 w1 w2 w3].

Lemma lsh_words_word : forall l x n j, 0 < n -> n < 256 -> j < 4 ->
  word (lsh_words l x n) j = dshl (wsel x j (n / 64)) (wsel x j (n / 64 + 1)) (n mod 64).
Proof.
  intros l x n j Hn0 Hn Hj. unfold lsh_words.
  assert (Hc : j = 0 \/ j = 1 \/ j = 2 \/ j = 3) by lia.
  destruct (N.leb_spec 192 n).
  { replace (n / 64) with 3 by lia. replace (n mod 64) with (n - 192) by lia.
    destruct Hc as [ -> | [ -> | [ -> | -> ] ] ]; norm_idx; norm_wsel; rewrite ?dshl_0_r, ?dshl_0_0, ?shl_0; reflexivity. }
  destruct (N.leb_spec 128 n).
  { replace (n / 64) with 2 by lia. replace (n mod 64) with (n - 128) by lia.
    destruct Hc as [ -> | [ -> | [ -> | -> ] ] ]; norm_idx; norm_wsel; rewrite ?dshl_0_r, ?dshl_0_0, ?shl_0; reflexivity. }
  destruct (N.leb_spec 64 n).
  { replace (n / 64) with 1 by lia. replace (n mod 64) with (n - 64) by lia.
    destruct Hc as [ -> | [ -> | [ -> | -> ] ] ]; norm_idx; norm_wsel; rewrite ?dshl_0_r, ?dshl_0_0, ?shl_0; reflexivity. }
  { replace (n / 64) with 0 by lia. replace (n mod 64) with n by lia.
    destruct Hc as [ -> | [ -> | [ -> | -> ] ] ]; norm_idx; norm_wsel; rewrite ?dshl_0_r, ?dshl_0_0, ?shl_0; reflexivity. }
Qed.

Lemma lsh_words_len : forall l x n, blen (lsh_words l x n) = l.
Proof.
  intros. unfold lsh_words.
  repeat match goal with |- context [if ?c then _ else _] => destruct c end; reflexivity.
Qed.

Lemma lsh_words_inrange : forall l x n, inrange x -> l < 256 -> 0 < n -> n < 256 ->
  inrange (lsh_words l x n).
Proof.
  intros l x n Hr Hl Hn0 Hn.
  assert (Hw : forall j, j < 4 -> word (lsh_words l x n) j < 2 ^ 64).
  { intros j Hj. rewrite lsh_words_word by assumption. apply dshl_lt. apply wsel_lt. assumption. }
  pose proof (Hw 0 ltac:(lia)) as H0. pose proof (Hw 1 ltac:(lia)) as H1.
  pose proof (Hw 2 ltac:(lia)) as H2. pose proof (Hw 3 ltac:(lia)) as H3.
  pose proof (lsh_words_len l x n) as Hlen.
  unfold inrange. destruct (lsh_words l x n). simpl in *. subst. tauto.
Qed.

Lemma lsh_words_val : forall l x n, inrange x -> l < 256 -> 0 < n -> n < 256 ->
  val (lsh_words l x n) = (N.shiftl (val x) n) mod 2 ^ 256.
Proof.
  intros l x n Hr Hl Hn0 Hn. apply val_bits_eq.
  - apply lsh_words_inrange; assumption.
  - apply N.mod_upper_bound. apply N.pow_nonzero. discriminate.
  - intros j k Hj Hk. rewrite lsh_words_word by assumption.
    rewrite dshl_testbit by (try apply wsel_lt; try assumption; lia).
    rewrite mod_pow2_testbit, shiftl_testbit.
    destruct (N.ltb_spec (64 * j + k) 256); [|lia]. cbn [andb].
    unfold wsel.
    destruct (N.ltb_spec k (n mod 64)).
    + destruct (N.ltb_spec j (n / 64 + 1)).
      * rewrite N.bits_0. destruct (N.leb_spec n (64 * j + k)); [lia|reflexivity].
      * destruct (N.leb_spec n (64 * j + k)); [|lia]. cbn [andb].
        rewrite val_testbit by assumption. f_equal; [f_equal|]; lia.
    + destruct (N.ltb_spec j (n / 64)).
      * rewrite N.bits_0. destruct (N.leb_spec n (64 * j + k)); [lia|reflexivity].
      * destruct (N.leb_spec n (64 * j + k)); [|lia]. cbn [andb].
        rewrite val_testbit by assumption. f_equal; [f_equal|]; lia.
Qed.

(* ---------- truncateToLength ---------- *)
Lemma land_mask : forall w s l, l <= 64 -> s = 64 - l -> N.land w (shr max64 s) = w mod 2 ^ l.
Proof. intros w s l Hl ->. rewrite mask_ones by assumption. apply N.land_ones. Qed.

Lemma truncate_len : forall b, blen (truncate b) = blen b.
Proof.
  intro b. unfold truncate.
  repeat match goal with |- context [if ?c then _ else _] => destruct c end; reflexivity.
Qed.

Lemma truncate_word : forall b j, inrange b ->
  word (truncate b) j = word b j mod 2 ^ (blen b - 64 * j).
Proof.
  intros b j Hr. pose proof Hr as (Hl & H0 & H1 & H2 & H3). unfold truncate.
  assert (Hbig : forall w e, w < 2 ^ 64 -> 64 <= e -> w = w mod 2 ^ e).
  { intros w e Hw He. symmetry. apply N.mod_small. eapply N.lt_le_trans; [exact Hw|]. apply pow2_le. assumption. }
  assert (Hz : forall w e, e = 0 -> 0 = w mod 2 ^ e).
  { intros w e ->. rewrite N.mod_1_r. reflexivity. }
  destruct (N.eqb_spec (blen b) 0).
  { word_cases j; cbn [word blen w0 w1 w2 w3]; try (apply Hz; lia).
    rewrite !word_high by lia. apply Hz. lia. }
  destruct (N.leb_spec (blen b) 64).
  { word_cases j; cbn [word blen w0 w1 w2 w3]; try (apply Hz; lia).
    - rewrite (land_mask _ _ (blen b)) by lia; repeat f_equal; lia.
    - rewrite !word_high by lia. apply Hz. lia. }
  destruct (N.leb_spec (blen b) 128).
  { word_cases j; cbn [word blen w0 w1 w2 w3]; try (apply Hz; lia).
    - apply Hbig; [assumption|lia].
    - rewrite (land_mask _ _ (blen b - 64)) by lia; repeat f_equal; lia.
    - rewrite !word_high by lia. apply Hz. lia. }
  destruct (N.leb_spec (blen b) 192).
  { word_cases j; cbn [word blen w0 w1 w2 w3]; try (apply Hz; lia).
    - apply Hbig; [assumption|lia].
    - apply Hbig; [assumption|lia].
    - rewrite (land_mask _ _ (blen b - 128)) by lia; repeat f_equal; lia.
    - rewrite !word_high by lia. apply Hz. lia. }
  { word_cases j; cbn [word blen w0 w1 w2 w3]; try (apply Hz; lia).
    - apply Hbig; [assumption|lia].
    - apply Hbig; [assumption|lia].
    - apply Hbig; [assumption|lia].
    - rewrite (land_mask _ _ (blen b - 192)) by lia; repeat f_equal; lia.
    - rewrite !word_high by lia. apply Hz. lia. }
Qed.

Lemma truncate_inrange : forall b, inrange b -> inrange (truncate b).
Proof.
  intros b Hr.
  assert (Hw : forall j, word (truncate b) j < 2 ^ 64).
  { intro j. rewrite truncate_word by assumption.
    eapply N.le_lt_trans; [apply N.mod_le; apply N.pow_nonzero; discriminate|apply inrange_word; assumption]. }
  pose proof (Hw 0) as H0. pose proof (Hw 1) as H1. pose proof (Hw 2) as H2. pose proof (Hw 3) as H3.
  pose proof (truncate_len b) as Hlen. destruct Hr as (Hl & _).
  unfold inrange. destruct (truncate b). simpl in *. subst. tauto.
Qed.

Lemma truncate_val : forall b, inrange b -> val (truncate b) = val b mod 2 ^ blen b.
Proof.
  intros b Hr. pose proof Hr as (Hl & _). apply val_bits_eq.
  - apply truncate_inrange. assumption.
  - eapply N.le_lt_trans; [apply N.mod_le; apply N.pow_nonzero; discriminate|apply val_lt; assumption].
  - intros j k Hj Hk. rewrite truncate_word by assumption. rewrite !mod_pow2_testbit.
    rewrite val_testbit by assumption.
    replace ((64 * j + k) / 64) with j by lia. replace ((64 * j + k) mod 64) with k by lia.
    f_equal. destruct (N.ltb_spec k (blen b - 64 * j)), (N.ltb_spec (64 * j + k) (blen b)); try reflexivity; lia.
Qed.

Lemma truncate_wf : forall b, inrange b -> wf (truncate b).
Proof.
  intros b Hr. split; [apply truncate_inrange; assumption|].
  rewrite truncate_val, truncate_len by assumption.
  apply N.mod_upper_bound. apply N.pow_nonzero. discriminate.
Qed.

Lemma truncate_id : forall b, wf b -> truncate b = b.
Proof.
  intros b [Hr Hv]. apply ba_ext; [apply truncate_inrange; assumption|assumption|apply truncate_len|].
  rewrite truncate_val by assumption. apply N.mod_small. assumption.
Qed.

(* ---------- LSBsFromLSB ---------- *)
Lemma lsbs_from_lsb_trunc : forall x n,
  lsbs_from_lsb x n = if blen x <=? n then x else truncate (BA n (w0 x) (w1 x) (w2 x) (w3 x)).
Proof.
  intros. unfold lsbs_from_lsb, truncate. cbn [blen w0 w1 w2 w3].
  repeat match goal with |- context [if ?c then _ else _] => destruct c end; reflexivity.
Qed.

(* ---------- Or / And / Xor ---------- *)
Lemma ba_or_val : forall x y, inrange x -> inrange y -> val (ba_or x y) = N.lor (val x) (val y).
Proof.
  intros x y Hx Hy. pose proof Hx as (? & ? & ? & ? & ?). pose proof Hy as (? & ? & ? & ? & ?).
  apply val_bits_eq.
  - unfold inrange, ba_or; cbn [blen w0 w1 w2 w3]. repeat split; try assumption; apply lor_lt_pow2; assumption.
  - apply lor_lt_pow2; apply val_lt; assumption.
  - intros j k Hj Hk. rewrite N.lor_spec, !val_testbit by assumption.
    replace ((64 * j + k) / 64) with j by lia. replace ((64 * j + k) mod 64) with k by lia.
    rewrite <- N.lor_spec. f_equal.
    assert (Hc : j = 0 \/ j = 1 \/ j = 2 \/ j = 3) by lia. destruct Hc as [ -> | [ -> | [ -> | -> ] ] ]; reflexivity.
Qed.

Lemma ba_and_val : forall x y, inrange x -> inrange y -> val (ba_and x y) = N.land (val x) (val y).
Proof.
  intros x y Hx Hy. pose proof Hx as (? & ? & ? & ? & ?). pose proof Hy as (? & ? & ? & ? & ?).
  apply val_bits_eq.
  - unfold inrange, ba_and; cbn [blen w0 w1 w2 w3]. repeat split; try assumption; apply land_lt_pow2; assumption.
  - apply land_lt_pow2; apply val_lt; assumption.
  - intros j k Hj Hk. rewrite N.land_spec, !val_testbit by assumption.
    replace ((64 * j + k) / 64) with j by lia. replace ((64 * j + k) mod 64) with k by lia.
    rewrite <- N.land_spec. f_equal.
    assert (Hc : j = 0 \/ j = 1 \/ j = 2 \/ j = 3) by lia. destruct Hc as [ -> | [ -> | [ -> | -> ] ] ]; reflexivity.
Qed.

Lemma ba_xor_val : forall l x y, inrange x -> inrange y -> l < 256 ->
  val (ba_xor l x y) = N.lxor (val x) (val y) /\ inrange (ba_xor l x y).
Proof.
  intros l x y Hx Hy Hl. pose proof Hx as (? & ? & ? & ? & ?). pose proof Hy as (? & ? & ? & ? & ?).
  assert (Hr : inrange (ba_xor l x y)).
  { unfold inrange, ba_xor; cbn [blen w0 w1 w2 w3]. repeat split; try assumption; apply lxor_lt_pow2; assumption. }
  split; [|assumption]. apply val_bits_eq.
  - assumption.
  - apply lxor_lt_pow2; apply val_lt; assumption.
  - intros j k Hj Hk. rewrite N.lxor_spec, !val_testbit by assumption.
    replace ((64 * j + k) / 64) with j by lia. replace ((64 * j + k) mod 64) with k by lia.
    rewrite <- N.lxor_spec. f_equal.
    assert (Hc : j = 0 \/ j = 1 \/ j = 2 \/ j = 3) by lia. destruct Hc as [ -> | [ -> | [ -> | -> ] ] ]; reflexivity.
Qed.

Lemma ba_or_inrange : forall x y, inrange x -> inrange y -> inrange (ba_or x y).
Proof.
  intros x y Hx Hy. pose proof Hx as (? & ? & ? & ? & ?). pose proof Hy as (? & ? & ? & ? & ?).
  unfold inrange, ba_or; cbn [blen w0 w1 w2 w3]. repeat split; try assumption; apply lor_lt_pow2; assumption.
Qed.

Lemma ba_and_inrange : forall x y, inrange x -> inrange y -> inrange (ba_and x y).
Proof.
  intros x y Hx Hy. pose proof Hx as (? & ? & ? & ? & ?). pose proof Hy as (? & ? & ? & ? & ?).
  unfold inrange, ba_and; cbn [blen w0 w1 w2 w3]. repeat split; try assumption; apply land_lt_pow2; assumption.
Qed.

(* ---------- Equal ---------- *)
Lemma ba_eqb_eq : forall x y, ba_eqb x y = true <-> x = y.
Proof.
  intros [lx a0 a1 a2 a3] [ly b0 b1 b2 b3]. unfold ba_eqb. cbn [blen w0 w1 w2 w3].
  rewrite !andb_true_iff, !N.eqb_eq. split.
  - intros [[[[-> ->] ->] ->] ->]. reflexivity.
  - intro H. injection H as -> -> -> -> ->. tauto.
Qed.

(* ---------- BitFromLSB ---------- *)
Lemma land_pow2_eqb : forall w k, (N.land w (2 ^ k) =? 0) = negb (N.testbit w k).
Proof.
  intros w k. destruct (N.testbit w k) eqn:Hb; simpl.
  - apply N.eqb_neq. intro H. assert (Ht : N.testbit (N.land w (2 ^ k)) k = true).
    { rewrite N.land_spec, Hb, N.pow2_bits_true. reflexivity. }
    rewrite H, N.bits_0 in Ht. discriminate.
  - apply N.eqb_eq. apply N.bits_inj. intro i. rewrite N.land_spec, N.bits_0.
    destruct (N.eq_dec i k) as [->|Hne].
    + rewrite Hb. reflexivity.
    + rewrite N.pow2_bits_false by congruence. apply andb_false_r.
Qed.

Lemma shl_1 : forall k, k < 64 -> shl 1 k = 2 ^ k.
Proof.
  intros k Hk. unfold shl, u64. rewrite N.shiftl_1_l, W64_pow. apply N.mod_small. apply pow2_lt. assumption.
Qed.

Lemma bit_from_lsb_val : forall b n, inrange b -> n < 256 ->
  bit_from_lsb b n = if blen b <=? n then 0 else N.b2n (N.testbit (val b) n).
Proof.
  intros b n Hr Hn. unfold bit_from_lsb. destruct (blen b <=? n); [reflexivity|].
  rewrite shl_1 by lia. rewrite land_pow2_eqb. rewrite val_testbit by assumption.
  destruct (N.testbit (word b (n / 64)) (n mod 64)); reflexivity.
Qed.

(* ---------- findFirstSetBit ---------- *)
Lemma size_log2 : forall a, a <> 0 -> N.size a = N.succ (N.log2 a).
Proof. intros a Ha. destruct a; [congruence|]. simpl. destruct p; simpl; try reflexivity; rewrite ?Pos.add_1_r; reflexivity. Qed.

Lemma size_le64 : forall w, w < 2 ^ 64 -> N.size w <= 64.
Proof.
  intros w Hw. destruct (N.eq_dec w 0) as [->|Hn]; [simpl; lia|].
  rewrite size_log2 by assumption. assert (N.log2 w < 64) by (apply N.log2_lt_pow2; lia). lia.
Qed.

Lemma log2_cat : forall a b k, a < 2 ^ k -> b <> 0 -> N.log2 (a + 2 ^ k * b) = k + N.log2 b.
Proof.
  intros a b k Ha Hb. apply N.log2_unique; [lia|].
  pose proof (N.log2_spec b ltac:(lia)) as [Hlo Hhi].
  rewrite N.pow_succ_r' in Hhi. rewrite N.pow_succ_r', !N.pow_add_r.
  pose proof (pow2_pos k). pose proof (pow2_pos (N.log2 b)). split; nia.
Qed.

Lemma size_cat : forall a b k, a < 2 ^ k -> b <> 0 -> N.size (a + 2 ^ k * b) = k + N.size b.
Proof.
  intros a b k Ha Hb. rewrite !size_log2; [rewrite log2_cat by assumption; lia|assumption|].
  pose proof (pow2_pos k). nia.
Qed.

Lemma find_first_set_bit_val : forall b, inrange b ->
  find_first_set_bit b = if blen b =? 0 then 0 else N.size (val b) mod 256.
Proof.
  intros b Hr. pose proof Hr as (Hl & H0 & H1 & H2 & H3). unfold find_first_set_bit.
  destruct (blen b =? 0); [reflexivity|]. unfold lz64, u8.
  pose proof (size_le64 _ H0). pose proof (size_le64 _ H1).
  pose proof (size_le64 _ H2). pose proof (size_le64 _ H3).
  destruct (N.eqb_spec (w3 b) 0) as [E3|E3]; cbn [negb].
  2:{ f_equal. unfold val.
      rewrite (size_cat (w0 b + 2 ^ 64 * w1 b + 2 ^ 128 * w2 b) (w3 b) 192); [lia| |assumption].
      change (2 ^ 192) with (2 ^ 64 * 2 ^ 64 * 2 ^ 64). change (2 ^ 128) with (2 ^ 64 * 2 ^ 64).
      change (2 ^ 64) with 18446744073709551616 in *. nia. }
  destruct (N.eqb_spec (w2 b) 0) as [E2|E2]; cbn [negb].
  2:{ f_equal. unfold val. rewrite E3, N.mul_0_r, N.add_0_r.
      rewrite (size_cat (w0 b + 2 ^ 64 * w1 b) (w2 b) 128); [lia| |assumption].
      change (2 ^ 128) with (2 ^ 64 * 2 ^ 64).
      change (2 ^ 64) with 18446744073709551616 in *. nia. }
  destruct (N.eqb_spec (w1 b) 0) as [E1|E1]; cbn [negb].
  2:{ f_equal. unfold val. rewrite E3, E2, !N.mul_0_r, !N.add_0_r.
      rewrite (size_cat (w0 b) (w1 b) 64); [lia|assumption|assumption]. }
  destruct (N.eqb_spec (w0 b) 0) as [E0|E0]; cbn [negb].
  2:{ unfold val. rewrite E3, E2, E1, !N.mul_0_r, !N.add_0_r. f_equal. lia. }
  unfold val. rewrite E3, E2, E1, E0. reflexivity.
Qed.

(* ---------- Cmp ---------- *)
Lemma sub64_spec : forall x y c d c', x < 2 ^ 64 -> y < 2 ^ 64 -> c <= 1 ->
  sub64 x y c = (d, c') -> d < 2 ^ 64 /\ c' <= 1 /\ x + c' * 2 ^ 64 = y + c + d.
Proof.
  intros x y c d c' Hx Hy Hc H. unfold sub64, u64 in H. injection H as Hd Hc'. subst d c'.
  change (2 ^ 64) with 18446744073709551616 in *. change W64 with 18446744073709551616.
  destruct (N.ltb_spec x (y + c)); lia.
Qed.

Lemma ba_cmp_val : forall b x, inrange b -> inrange x ->
  ba_cmp b x = if blen b <? blen x then Lt else if blen x <? blen b then Gt else (val b ?= val x).
Proof.
  intros b x Hb Hx. pose proof Hb as (? & ? & ? & ? & ?). pose proof Hx as (? & ? & ? & ? & ?).
  unfold ba_cmp. destruct (blen b <? blen x); [reflexivity|]. destruct (blen x <? blen b); [reflexivity|].
  destruct (sub64 (w0 b) (w0 x) 0) as [d0 c0] eqn:E0.
  destruct (sub64 (w1 b) (w1 x) c0) as [d1 c1] eqn:E1.
  destruct (sub64 (w2 b) (w2 x) c1) as [d2 c2] eqn:E2.
  destruct (sub64 (w3 b) (w3 x) c2) as [d3 c3] eqn:E3.
  apply sub64_spec in E0; try assumption; [|lia]. destruct E0 as (? & ? & ?).
  apply sub64_spec in E1; try assumption. destruct E1 as (? & ? & ?).
  apply sub64_spec in E2; try assumption. destruct E2 as (? & ? & ?).
  apply sub64_spec in E3; try assumption. destruct E3 as (? & ? & ?).
  unfold val. change (2 ^ 192) with (2 ^ 64 * 2 ^ 64 * 2 ^ 64). change (2 ^ 128) with (2 ^ 64 * 2 ^ 64).
  change (2 ^ 64) with 18446744073709551616 in *.
  destruct (N.eqb_spec c3 1).
  { symmetry. apply N.compare_lt_iff. nia. }
  destruct (N.eqb_spec (N.lor (N.lor (N.lor d0 d1) d2) d3) 0) as [Ez|Ez].
  { apply N.lor_eq_0_iff in Ez. destruct Ez as [Ez ?]. apply N.lor_eq_0_iff in Ez. destruct Ez as [Ez ?].
    apply N.lor_eq_0_iff in Ez. destruct Ez as [? ?]. symmetry. apply N.compare_eq_iff. nia. }
  symmetry. apply N.compare_gt_iff.
  assert (d0 <> 0 \/ d1 <> 0 \/ d2 <> 0 \/ d3 <> 0).
  { destruct (N.eq_dec d0 0), (N.eq_dec d1 0), (N.eq_dec d2 0), (N.eq_dec d3 0); try tauto. subst. exfalso. apply Ez. reflexivity. }
  nia.
Qed.
