(* C01 — property theorems only (proofs in Trie2Proofs.v / Proofs2.v). F, the zero test and all hash
   primitives are universally quantified: nothing here depends on Pedersen / Poseidon. *)
From Coq Require Import List Bool Arith Permutation ZArith.
From V Require Import C01.Trie2 C01.Trie2Proofs C01.Proofs2 C01.Model.
Import ListNotations.

(* every update (insert / overwrite / delete-by-zero, absent or present key) keeps the canonical form *)
Theorem C01_update_canon : forall F fzero h t k v,
  canont F fzero h t = true -> length k = h -> canont F fzero h (update F fzero t k v) = true.
Proof. exact update_canon. Qed.
Print Assumptions C01_update_canon.

(* ... and changes the represented key/value set at exactly that key (what must NOT change is stated) *)
Theorem C01_get_update : forall F fzero h t k v k',
  canont F fzero h t = true -> length k = h -> length k' = h ->
  get F (update F fzero t k v) k' =
    if list_eq_dec bool_dec k k' then (if fzero v then None else Some v) else get F t k'.
Proof. exact get_update. Qed.
Print Assumptions C01_get_update.

(* after ANY sequence of updates the tree represents the abstract map obtained by the same updates *)
Theorem C01_run_represents_map : forall F fzero h ops k, ops_ok F h ops -> length k = h ->
  get F (run F fzero h ops) k = arun F fzero ops k.
Proof. exact run_get. Qed.
Print Assumptions C01_run_represents_map.

(* canonical trees are determined by their key/value set *)
Theorem C01_canon_unique : forall F fzero h (a b : tree F),
  canont F fzero h a = true -> canont F fzero h b = true ->
  (forall k, length k = h -> get F a k = get F b k) -> a = b.
Proof. exact canont_unique. Qed.
Print Assumptions C01_canon_unique.

(* the root is a pure function of the key/value set: any two update sequences (any order, batching,
   overwrites, zero writes) that end in the same map give the same root, for every hash instance *)
Theorem C01_root_function_of_set : forall F fzero ped of_path add_len f0 h ops1 ops2,
  ops_ok F h ops1 -> ops_ok F h ops2 ->
  (forall k, length k = h -> arun F fzero ops1 k = arun F fzero ops2 k) ->
  root F ped of_path add_len f0 (run F fzero h ops1) = root F ped of_path add_len f0 (run F fzero h ops2).
Proof. exact root_function_of_set. Qed.
Print Assumptions C01_root_function_of_set.

(* ... namely the Merkle-Patricia commitment [spec_root] of that set *)
Theorem C01_root_is_commitment : forall F fzero ped of_path add_len f0 h ops m,
  ops_ok F h ops -> wf_map F fzero h m ->
  (forall k, length k = h -> arun F fzero ops k = assoc F m k) ->
  root F ped of_path add_len f0 (run F fzero h ops) = spec_root F ped of_path add_len f0 h m.
Proof. exact root_is_spec. Qed.
Print Assumptions C01_root_is_commitment.

(* the commitment does not depend on the order in which the set is enumerated (Go map iteration) *)
Theorem C01_commitment_order_independent : forall F fzero ped of_path add_len f0 h m m',
  wf_map F fzero h m -> Permutation m m' ->
  spec_root F ped of_path add_len f0 h m = spec_root F ped of_path add_len f0 h m'.
Proof. exact spec_root_perm. Qed.
Print Assumptions C01_commitment_order_independent.

(* the spec construction is canonical and represents its argument *)
Theorem C01_build_represents : forall F fzero h m k, wf_map F fzero h m -> length k = h ->
  canont F fzero h (build F h m) = true /\ get F (build F h m) k = assoc F m k.
Proof. intros F fzero h m k Hwf Hk. split; [apply (build_canon F fzero) | apply (get_build F fzero)]; assumption. Qed.
Print Assumptions C01_build_represents.

(* what the oracle executes (early exit on empty sub-maps) is the same function *)
Theorem C01_spec_root_fast_eq : forall F ped of_path add_len f0 h m,
  spec_root_fast F ped of_path add_len f0 h m = spec_root F ped of_path add_len f0 h m.
Proof. exact spec_root_fast_eq. Qed.
Print Assumptions C01_spec_root_fast_eq.

(* ---------- non-vacuity: a concrete history over the term instance ---------- *)
Example run_nontrivial :
  let ops := [(5, 7); (1, 2); (5, 0); (4, 9); (6, 0); (4, 3)]%Z in
  t_canon 3 (last (t_run 3 None ops) None) = true /\
  t_root TPed (last (t_run 3 None ops) None) = t_spec_root TPed 3 (abs_run ops).
Proof. vm_compute. split; reflexivity. Qed.

(* ====================================================================================== *)
(* The LEGACY flat trie core/trie (Trie1.v) refines the Trie2 model (proofs: Trie1Proofs.v) *)
(* ====================================================================================== *)
From V Require C01.Trie1.
From V Require Import C01.Trie1Proofs.

(* One Put, every case (updateLeaf overwrite / empty trie / delete as root, with the sibling becoming
   root, with the grandparent relinked / zero to an absent key / insert under a new parent at the
   common prefix, as new root or below a relinked parent): no error, and the flat state represents
   the updated tree. [repr ... true] = stored shape (root key, every Bin under its full path with
   child links = the compressed children's full paths, leaves at full-length keys, NOTHING ELSE stored)
   AND the dirty-list invariant Inv1 (every stored inner value is the hash of its
   subtree or some dirty key strictly extends the node key); [repr ... false] = the shape alone. *)
Theorem C01_trie1_put_refines : forall F fzero ped of_path add_len (f0 : F) chk h st t k v,
  canont F fzero h t = true -> length k = h -> repr F ped of_path add_len chk h st t ->
  exists st', Trie1.put F fzero ped of_path add_len st k v = Some st' /\
              repr F ped of_path add_len chk h st' (update F fzero t k v).
Proof. exact put_refines. Qed.
Print Assumptions C01_trie1_put_refines.

(* Hash(): under Inv1 the lazy rehash returns the hash of the represented tree, leaves every stored
   inner value fresh and the dirty list empty *)
Theorem C01_trie1_commit_fixes : forall F fzero ped of_path add_len f0 h st t,
  canont F fzero h t = true -> repr F ped of_path add_len true h st t ->
  exists st', Trie1.commit F ped of_path add_len f0 h st = Some (st', root F ped of_path add_len f0 t) /\
    repr F ped of_path add_len true h st' t /\
    match t with
    | Some n => Trie1.dirty st' = nil /\ T F (Pfresh F ped of_path add_len) (Trie1.nodes st') nil n
    | None => True
    end.
Proof. exact commit_fixes. Qed.
Print Assumptions C01_trie1_commit_fixes.

(* the refinement: for EVERY update sequence the legacy trie's Hash() is the root of the Trie2 model *)
Theorem C01_trie1_refines : forall F fzero ped of_path add_len f0 h ops, ops_ok F h ops ->
  Trie1.root1 F ped of_path add_len f0 h (Trie1.run1 F fzero ped of_path add_len ops) =
  Some (root F ped of_path add_len f0 (run F fzero h ops)).
Proof. exact trie1_refines. Qed.
Print Assumptions C01_trie1_refines.

(* ... also with Hash() calls (None) interleaved anywhere between the Puts *)
Theorem C01_trie1_refines_interleaved : forall F fzero ped of_path add_len f0 h ops,
  ops_ok F h (puts_of F ops) ->
  Trie1.root1 F ped of_path add_len f0 h
    (fold_left (step1 F fzero ped of_path add_len f0 h) ops (Some (Trie1.empty1 F))) =
  Some (root F ped of_path add_len f0 (run F fzero h (puts_of F ops))).
Proof. exact trie1_refines_interleaved. Qed.
Print Assumptions C01_trie1_refines_interleaved.

(* hence the legacy trie's root is the Merkle-Patricia commitment of the resulting key/value set *)
Theorem C01_trie1_root_is_commitment : forall F fzero ped of_path add_len f0 h ops m,
  ops_ok F h ops -> wf_map F fzero h m ->
  (forall k, length k = h -> arun F fzero ops k = assoc F m k) ->
  Trie1.root1 F ped of_path add_len f0 h (Trie1.run1 F fzero ped of_path add_len ops) =
  Some (spec_root F ped of_path add_len f0 h m).
Proof.
  intros. rewrite trie1_refines by assumption. f_equal. apply root_is_spec; assumption.
Qed.
Print Assumptions C01_trie1_root_is_commitment.

(* the node set is a function of the key/value set: two update sequences that end in the same map
   leave, after Hash(), the same root key and extensionally the same stored node map (keys, child
   links and stored values) -- what the harness compares with the real database *)
Theorem C01_trie1_node_map_function_of_set : forall F fzero ped of_path add_len f0 h ops1 ops2,
  ops_ok F h ops1 -> ops_ok F h ops2 ->
  (forall k, length k = h -> arun F fzero ops1 k = arun F fzero ops2 k) ->
  exists st1 st2,
    committed F fzero ped of_path add_len f0 h ops1 = Some st1 /\
    committed F fzero ped of_path add_len f0 h ops2 = Some st2 /\
    Trie1.root_key st1 = Trie1.root_key st2 /\
    forall q, Trie1.nget F (Trie1.nodes st1) q = Trie1.nget F (Trie1.nodes st2) q.
Proof.
  intros. apply committed_determined; try assumption. apply (run_same_map F fzero h); assumption.
Qed.
Print Assumptions C01_trie1_node_map_function_of_set.

(* non-vacuity: the same concrete history on the flat model, Hash() after some of the Puts only *)
Example trie1_nontrivial :
  let ops := [(5, 7, false); (1, 2, true); (5, 0, false); (4, 9, false); (6, 0, true); (4, 3, false); (2, 8, true)]%Z in
  let ops2 := map (fun x => (fst (fst x), snd (fst x))) ops in
  match snd (t1_run TPed 3 t1_empty ops) with
  | Some st => t1_commit TPed 3 st = Some (st, t_spec_root TPed 3 (abs_run ops2)) /\ t1_dirty st = []
  | None => False
  end.
Proof. vm_compute. split; reflexivity. Qed.
