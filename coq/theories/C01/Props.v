(* C01 — property theorems only (proofs in Trie2Proofs.v / Proofs2.v). F, the zero test and all hash
   primitives are universally quantified: nothing here depends on Pedersen / Poseidon. *)
From Coq Require Import List Bool Arith Permutation ZArith.
From V Require Import C01.Trie2 C01.Trie2Proofs C01.Proofs2 C01.Model.
Import ListNotations.

(* every update (insert / overwrite / delete-by-zero, absent or present key) keeps the canonical form *)
Theorem C01_update_canon : forall F fzero h t k v,
  canont F fzero h t = true -> length k = h -> canont F fzero h (update F fzero t k v) = true.
Proof. exact update_canon. Qed.
Print Assumptions C01_update_canon.

(* ... and changes the represented key/value set at exactly that key (what must NOT change is stated) *)
Theorem C01_get_update : forall F fzero h t k v k',
  canont F fzero h t = true -> length k = h -> length k' = h ->
  get F (update F fzero t k v) k' =
    if list_eq_dec bool_dec k k' then (if fzero v then None else Some v) else get F t k'.
Proof. exact get_update. Qed.
Print Assumptions C01_get_update.

(* after ANY sequence of updates the tree represents the abstract map obtained by the same updates *)
Theorem C01_run_represents_map : forall F fzero h ops k, ops_ok F h ops -> length k = h ->
  get F (run F fzero h ops) k = arun F fzero ops k.
Proof. exact run_get. Qed.
Print Assumptions C01_run_represents_map.

(* canonical trees are determined by their key/value set *)
Theorem C01_canon_unique : forall F fzero h (a b : tree F),
  canont F fzero h a = true -> canont F fzero h b = true ->
  (forall k, length k = h -> get F a k = get F b k) -> a = b.
Proof. exact canont_unique. Qed.
Print Assumptions C01_canon_unique.

(* the root is a pure function of the key/value set: any two update sequences (any order, batching,
   overwrites, zero writes) that end in the same map give the same root, for every hash instance *)
Theorem C01_root_function_of_set : forall F fzero ped of_path add_len f0 h ops1 ops2,
  ops_ok F h ops1 -> ops_ok F h ops2 ->
  (forall k, length k = h -> arun F fzero ops1 k = arun F fzero ops2 k) ->
  root F ped of_path add_len f0 (run F fzero h ops1) = root F ped of_path add_len f0 (run F fzero h ops2).
Proof. exact root_function_of_set. Qed.
Print Assumptions C01_root_function_of_set.

(* ... namely the Merkle-Patricia commitment [spec_root] of that set *)
Theorem C01_root_is_commitment : forall F fzero ped of_path add_len f0 h ops m,
  ops_ok F h ops -> wf_map F fzero h m ->
  (forall k, length k = h -> arun F fzero ops k = assoc F m k) ->
  root F ped of_path add_len f0 (run F fzero h ops) = spec_root F ped of_path add_len f0 h m.
Proof. exact root_is_spec. Qed.
Print Assumptions C01_root_is_commitment.

(* the commitment does not depend on the order in which the set is enumerated (Go map iteration) *)
Theorem C01_commitment_order_independent : forall F fzero ped of_path add_len f0 h m m',
  wf_map F fzero h m -> Permutation m m' ->
  spec_root F ped of_path add_len f0 h m = spec_root F ped of_path add_len f0 h m'.
Proof. exact spec_root_perm. Qed.
Print Assumptions C01_commitment_order_independent.

(* the spec construction is canonical and represents its argument *)
Theorem C01_build_represents : forall F fzero h m k, wf_map F fzero h m -> length k = h ->
  canont F fzero h (build F h m) = true /\ get F (build F h m) k = assoc F m k.
Proof. intros F fzero h m k Hwf Hk. split; [apply (build_canon F fzero) | apply (get_build F fzero)]; assumption. Qed.
Print Assumptions C01_build_represents.

(* what the oracle executes (early exit on empty sub-maps) is the same function *)
Theorem C01_spec_root_fast_eq : forall F ped of_path add_len f0 h m,
  spec_root_fast F ped of_path add_len f0 h m = spec_root F ped of_path add_len f0 h m.
Proof. exact spec_root_fast_eq. Qed.
Print Assumptions C01_spec_root_fast_eq.

(* ---------- non-vacuity: a concrete history over the term instance ---------- *)
Example run_nontrivial :
  let ops := [(5, 7); (1, 2); (5, 0); (4, 9); (6, 0); (4, 3)]%Z in
  t_canon 3 (last (t_run 3 None ops) None) = true /\
  t_root TPed (last (t_run 3 None ops) None) = t_spec_root TPed 3 (abs_run ops).
Proof. vm_compute. split; reflexivity. Qed.

(* ====================================================================================== *)
(* The LEGACY flat trie core/trie (Trie1.v) refines the Trie2 model (proofs: Trie1Proofs.v) *)
(* ====================================================================================== *)
From V Require C01.Trie1.
From V Require Import C01.Trie1Proofs.

(* One Put, every case (updateLeaf overwrite / empty trie / delete as root, with the sibling becoming
   root, with the grandparent relinked / zero to an absent key / insert under a new parent at the
   common prefix, as new root or below a relinked parent): no error, and the flat state represents
   the updated tree. [repr ... true] = stored shape (root key, every Bin under its full path with
   child links = the compressed children's full paths, leaves at full-length keys, NOTHING ELSE stored)
   AND the dirty-list invariant Inv1 (every stored inner value is the hash of its
   subtree or some dirty key strictly extends the node key); [repr ... false] = the shape alone. *)
Theorem C01_trie1_put_refines : forall F fzero ped of_path add_len (f0 : F) chk h st t k v,
  canont F fzero h t = true -> length k = h -> repr F ped of_path add_len chk h st t ->
  exists st', Trie1.put F fzero ped of_path add_len st k v = Some st' /\
              repr F ped of_path add_len chk h st' (update F fzero t k v).
Proof. exact put_refines. Qed.
Print Assumptions C01_trie1_put_refines.

(* Hash(): under Inv1 the lazy rehash returns the hash of the represented tree, leaves every stored
   inner value fresh and the dirty list empty *)
Theorem C01_trie1_commit_fixes : forall F fzero ped of_path add_len f0 h st t,
  canont F fzero h t = true -> repr F ped of_path add_len true h st t ->
  exists st', Trie1.commit F ped of_path add_len f0 h st = Some (st', root F ped of_path add_len f0 t) /\
    repr F ped of_path add_len true h st' t /\
    match t with
    | Some n => Trie1.dirty st' = nil /\ T F (Pfresh F ped of_path add_len) (Trie1.nodes st') nil n
    | None => True
    end.
Proof. exact commit_fixes. Qed.
Print Assumptions C01_trie1_commit_fixes.

(* the refinement: for EVERY update sequence the legacy trie's Hash() is the root of the Trie2 model *)
Theorem C01_trie1_refines : forall F fzero ped of_path add_len f0 h ops, ops_ok F h ops ->
  Trie1.root1 F ped of_path add_len f0 h (Trie1.run1 F fzero ped of_path add_len ops) =
  Some (root F ped of_path add_len f0 (run F fzero h ops)).
Proof. exact trie1_refines. Qed.
Print Assumptions C01_trie1_refines.

(* ... also with Hash() calls (None) interleaved anywhere between the Puts *)
Theorem C01_trie1_refines_interleaved : forall F fzero ped of_path add_len f0 h ops,
  ops_ok F h (puts_of F ops) ->
  Trie1.root1 F ped of_path add_len f0 h
    (fold_left (step1 F fzero ped of_path add_len f0 h) ops (Some (Trie1.empty1 F))) =
  Some (root F ped of_path add_len f0 (run F fzero h (puts_of F ops))).
Proof. exact trie1_refines_interleaved. Qed.
Print Assumptions C01_trie1_refines_interleaved.

(* hence the legacy trie's root is the Merkle-Patricia commitment of the resulting key/value set *)
Theorem C01_trie1_root_is_commitment : forall F fzero ped of_path add_len f0 h ops m,
  ops_ok F h ops -> wf_map F fzero h m ->
  (forall k, length k = h -> arun F fzero ops k = assoc F m k) ->
  Trie1.root1 F ped of_path add_len f0 h (Trie1.run1 F fzero ped of_path add_len ops) =
  Some (spec_root F ped of_path add_len f0 h m).
Proof.
  intros. rewrite trie1_refines by assumption. f_equal. apply root_is_spec; assumption.
Qed.
Print Assumptions C01_trie1_root_is_commitment.

(* the node set is a function of the key/value set: two update sequences that end in the same map
   leave, after Hash(), the same root key and extensionally the same stored node map (keys, child
   links and stored values) -- what the harness compares with the real database *)
Theorem C01_trie1_node_map_function_of_set : forall F fzero ped of_path add_len f0 h ops1 ops2,
  ops_ok F h ops1 -> ops_ok F h ops2 ->
  (forall k, length k = h -> arun F fzero ops1 k = arun F fzero ops2 k) ->
  exists st1 st2,
    committed F fzero ped of_path add_len f0 h ops1 = Some st1 /\
    committed F fzero ped of_path add_len f0 h ops2 = Some st2 /\
    Trie1.root_key st1 = Trie1.root_key st2 /\
    forall q, Trie1.nget F (Trie1.nodes st1) q = Trie1.nget F (Trie1.nodes st2) q.
Proof.
  intros. apply committed_determined; try assumption. apply (run_same_map F fzero h); assumption.
Qed.
Print Assumptions C01_trie1_node_map_function_of_set.

(* non-vacuity: the same concrete history on the flat model, Hash() after some of the Puts only *)
Example trie1_nontrivial :
  let ops := [(5, 7, false); (1, 2, true); (5, 0, false); (4, 9, false); (6, 0, true); (4, 3, false); (2, 8, true)]%Z in
  let ops2 := map (fun x => (fst (fst x), snd (fst x))) ops in
  match snd (t1_run TPed 3 t1_empty ops) with
  | Some st => t1_commit TPed 3 st = Some (st, t_spec_root TPed 3 (abs_run ops2)) /\ t1_dirty st = []
  | None => False
  end.
Proof. vm_compute. split; reflexivity. Qed.

(* ====================================================================================== *)
(* core/trie/bitarray.go at WORD level (BitArray.v) and node.go WriteTo / UnmarshalBinary    *)
(* proofs: Proofs_ba_bits.v, Proofs_ba_words.v, Proofs_ba_ops.v, Proofs_ba_codec.v,        *)
(* Proofs_ba_refine.v                                                                       *)
(* ====================================================================================== *)
From Coq Require Import NArith.
From V Require Import C01.BitArray C01.Proofs_ba_bits C01.Proofs_ba_words C01.Proofs_ba_ops
  C01.Proofs_ba_codec C01.Proofs_ba_refine.
Local Open Scope N_scope.

(* [bits b] = the low [blen b] bits of the four words, most significant first; [wf b] = len < 2^8,
   words < 2^64, and the bits above len are zero. A well-formed array IS its bit list. *)
Definition ba_bits_length_stmt : Prop := forall b, length (bits b) = N.to_nat (blen b).

Definition ba_bits_injective_stmt : Prop := forall a b, wf a -> wf b -> bits a = bits b -> a = b.

Definition ba_wfb_correct_stmt : Prop := forall b, wfb b = true <-> wf b.

(* truncateToLength establishes well-formedness from any in-range words and is the identity on
   well-formed arrays *)
Definition ba_truncate_stmt : Prop := forall b, inrange b ->
  wf (truncate b) /\ blen (truncate b) = blen b /\ val (truncate b) = val b mod 2 ^ blen b.

Definition ba_truncate_id_stmt : Prop := forall b, wf b -> truncate b = b.

(* the statements above, proved (one theorem per group keeps the per-run axiom check short) *)
Theorem C01_ba_abstraction :
  ba_bits_length_stmt /\
  ba_bits_injective_stmt /\
  ba_wfb_correct_stmt /\
  ba_truncate_stmt /\
  ba_truncate_id_stmt.
Proof. exact (conj bits_length (conj bits_inj (conj wfb_wf (conj truncate_spec truncate_id)))). Qed.
Print Assumptions C01_ba_abstraction.

(* the word-level shifts across 64-bit boundaries are shifts of the 256-bit number, for every
   count 0 < n < 256 (all four cases of the switch, n a multiple of 64 included) *)
Definition ba_rsh_words_stmt : Prop := forall x n, inrange x -> 0 < n -> n < 256 ->
  inrange (rsh_words x n) /\ val (rsh_words x n) = N.shiftr (val x) n.

Definition ba_lsh_words_stmt : Prop := forall l x n, inrange x -> l < 256 -> 0 < n -> n < 256 ->
  inrange (lsh_words l x n) /\ val (lsh_words l x n) = N.shiftl (val x) n mod 2 ^ 256.

(* LSBs(x, n) = x[n:], LSBsFromLSB(x, n) = the last n bits, MSBs(x, n) = x[:n], Rsh(x, n) drops the
   last n bits: all lengths 0..255 and all n in uint8 *)
Definition ba_lsbs_stmt : Prop := forall x n, wf x -> n < 256 ->
  wf (lsbs x n) /\ bits (lsbs x n) = skipn (N.to_nat n) (bits x).

Definition ba_lsbs_from_lsb_stmt : Prop := forall x n, wf x -> n < 256 ->
  wf (lsbs_from_lsb x n) /\ bits (lsbs_from_lsb x n) = skipn (N.to_nat (blen x) - N.to_nat n) (bits x).

Definition ba_msbs_stmt : Prop := forall x n, wf x -> n < 256 ->
  wf (msbs x n) /\ bits (msbs x n) = firstn (N.to_nat n) (bits x) /\ blen (msbs x n) = N.min (blen x) n.

Definition ba_rsh_stmt : Prop := forall x n, wf x -> n < 256 ->
  wf (rsh x n) /\ bits (rsh x n) = firstn (N.to_nat (blen x) - N.to_nat n) (bits x) /\
  blen (rsh x n) = blen x - n /\ val (rsh x n) = N.shiftr (val x) n.

(* Lsh appends n zeros; an empty array stays empty; when len + n exceeds 255 the length saturates at
   255 and the leading len + n - 255 bits are lost (the uint8 guard of the Go code) *)
Definition ba_lsh_stmt : Prop := forall x n, wf x -> n < 256 ->
  wf (lsh x n) /\
  bits (lsh x n) = (if blen x =? 0 then nil
                    else skipn (N.to_nat (blen x) + N.to_nat n - 255) (bits x ++ repeat false (N.to_nat n))) /\
  blen (lsh x n) = (if blen x =? 0 then 0 else N.min 255 (blen x + n)).

(* Append is list concatenation whenever the lengths fit into 255 bits (every caller: keys of at most
   251 bits); beyond that it keeps the LAST 255 bits *)
Definition ba_append_stmt : Prop := forall x y, wf x -> wf y ->
  wf (append x y) /\
  bits (append x y) = skipn (N.to_nat (blen x) + N.to_nat (blen y) - 255) (bits x ++ bits y) /\
  blen (append x y) = N.min 255 (blen x + blen y).

Definition ba_append_fits_stmt : Prop := forall x y, wf x -> wf y -> blen x + blen y <= 255 ->
  wf (append x y) /\ bits (append x y) = bits x ++ bits y.

Definition ba_append_bit_stmt : Prop := forall x b, wf x ->
  wf (append_bit x b) /\ bits (append_bit x b) = skipn (N.to_nat (blen x) + 1 - 255) (bits x ++ N.odd b :: nil).

Definition ba_append_zeros_stmt : Prop := forall x n, wf x -> n < 256 ->
  wf (append_zeros x n) /\
  bits (append_zeros x n) = skipn (N.to_nat (blen x) + N.to_nat n - 255) (bits x ++ repeat false (N.to_nat n)).

Definition ba_subset_stmt : Prop := forall x s e, wf x -> s < 256 -> e < 256 ->
  wf (subset x s e) /\ bits (subset x s e) = firstn (N.to_nat e - N.to_nat s) (skipn (N.to_nat s) (bits x)).

(* the statements above, proved (one theorem per group keeps the per-run axiom check short) *)
Theorem C01_ba_slices :
  ba_lsbs_stmt /\
  ba_lsbs_from_lsb_stmt /\
  ba_msbs_stmt /\
  ba_rsh_stmt /\
  ba_subset_stmt.
Proof. exact (conj lsbs_spec (conj lsbs_from_lsb_spec (conj msbs_spec (conj rsh_spec subset_spec)))). Qed.
Print Assumptions C01_ba_slices.

Definition ba_set_bit_stmt : Prop := forall b, wf (set_bit b) /\ bits (set_bit b) = N.odd b :: nil.

Definition ba_ones_stmt : Prop := forall n, n < 256 -> wf (ones n) /\ bits (ones n) = repeat true (N.to_nat n).

Definition ba_zeros_stmt : Prop := forall n, n < 256 -> wf (zeros n) /\ bits (zeros n) = repeat false (N.to_nat n).

(* the statements above, proved (one theorem per group keeps the per-run axiom check short) *)
Theorem C01_ba_concat :
  ba_lsh_stmt /\
  ba_append_stmt /\
  ba_append_fits_stmt /\
  ba_append_bit_stmt /\
  ba_append_zeros_stmt /\
  ba_set_bit_stmt /\
  ba_ones_stmt /\
  ba_zeros_stmt.
Proof. exact (conj lsh_spec (conj append_spec (conj append_fits (conj append_bit_spec (conj append_zeros_spec (conj set_bit_spec (conj ones_spec zeros_spec))))))). Qed.
Print Assumptions C01_ba_concat.

(* Or / And / Xor are the bitwise operations on the 256-bit numbers (the result takes x's length, Xor
   the receiver's) *)
Definition ba_or_and_xor_stmt : Prop := forall l x y, inrange x -> inrange y -> l < 256 ->
  val (ba_or x y) = N.lor (val x) (val y) /\ val (ba_and x y) = N.land (val x) (val y) /\
  val (ba_xor l x y) = N.lxor (val x) (val y) /\
  inrange (ba_or x y) /\ inrange (ba_and x y) /\ inrange (ba_xor l x y).

(* findFirstSetBit = bit length of the 256-bit number, as uint8 (256 wraps to 0: only when bit 255 is
   set, which a well-formed array never has) *)
Definition ba_find_first_set_bit_stmt : Prop := forall b, inrange b ->
  find_first_set_bit b = if blen b =? 0 then 0 else N.size (val b) mod 256.

(* the statements above, proved (one theorem per group keeps the per-run axiom check short) *)
Theorem C01_ba_word_algorithms :
  ba_rsh_words_stmt /\
  ba_lsh_words_stmt /\
  ba_or_and_xor_stmt /\
  ba_find_first_set_bit_stmt.
Proof. exact (conj rsh_words_spec (conj lsh_words_spec (conj or_and_xor_spec find_first_set_bit_val))). Qed.
Print Assumptions C01_ba_word_algorithms.

Definition ba_bit_stmt : Prop := forall b n, inrange b -> n < 256 -> bit b n = N.b2n (nth (N.to_nat n) (bits b) false).

Definition ba_bit_from_lsb_stmt : Prop := forall b n, inrange b -> n < 256 ->
  bit_from_lsb b n = N.b2n (nth (N.to_nat (blen b) - 1 - N.to_nat n) (bits b) false && (n <? blen b)).

(* Cmp: by length first, then the bit lists as numbers (the bits.Sub64 borrow chain) *)
Definition ba_cmp_stmt : Prop := forall a b, wf a -> wf b ->
  ba_cmp a b = if blen a <? blen b then Lt else if blen b <? blen a then Gt
               else (N_of_bits (bits a) ?= N_of_bits (bits b)).

Definition ba_cmp_eq_stmt : Prop := forall a b, wf a -> wf b -> (ba_cmp a b = Eq <-> a = b).

(* the statements above, proved (one theorem per group keeps the per-run axiom check short) *)
Theorem C01_ba_bit_access_and_cmp :
  ba_bit_stmt /\
  ba_bit_from_lsb_stmt /\
  ba_cmp_stmt /\
  ba_cmp_eq_stmt.
Proof. exact (conj bit_spec (conj bit_from_lsb_spec (conj ba_cmp_bits ba_cmp_eq))). Qed.
Print Assumptions C01_ba_bit_access_and_cmp.

(* SetFelt / SetBytes / SetUint64 / Felt *)
Definition ba_set_felt_stmt : Prop := forall l f, l < 256 -> f < 2 ^ 256 ->
  wf (set_felt l f) /\ bits (set_felt l f) = bits_of f (N.to_nat l) /\ blen (set_felt l f) = l.

Definition ba_set_bytes_stmt : Prop := forall l data, l < 256 -> bytes_ok data ->
  wf (set_bytes l data) /\ bits (set_bytes l data) = bits_of (be_val (firstn 32 data)) (N.to_nat l) /\
  blen (set_bytes l data) = l.

Definition ba_new_bit_array_stmt : Prop := forall l d, l < 256 -> d < 2 ^ 64 ->
  wf (new_bit_array l d) /\ bits (new_bit_array l d) = bits_of d (N.to_nat l).

Definition ba_felt_stmt : Prop := forall b, inrange b -> ba_felt b = val b mod felt_P.

(* the statements above, proved (one theorem per group keeps the per-run axiom check short) *)
Theorem C01_ba_setters :
  ba_set_felt_stmt /\
  ba_set_bytes_stmt /\
  ba_new_bit_array_stmt /\
  ba_felt_stmt.
Proof. exact (conj set_felt_spec (conj set_bytes_spec (conj set_uint64_spec ba_felt_val))). Qed.
Print Assumptions C01_ba_setters.

(* Write / UnmarshalBinary ("active bytes"): self-delimiting round trip, injective, prefix free;
   what UnmarshalBinary accepts in general; what it rejects *)
Definition ba_unmarshal_write_stmt : Prop := forall b tail, wf b -> ba_unmarshal (ba_write b ++ tail) = Some b.

Definition ba_write_injective_stmt : Prop := forall a b, wf a -> wf b -> ba_write a = ba_write b -> a = b.

Definition ba_write_prefix_free_stmt : Prop := forall a b t1 t2, wf a -> wf b ->
  ba_write a ++ t1 = ba_write b ++ t2 -> a = b /\ t1 = t2.

Definition ba_write_length_stmt : Prop := forall b, blen b < 256 -> N.of_nat (length (ba_write b)) = encoded_len b.

Definition ba_unmarshal_accepts_stmt : Prop := forall data b, bytes_ok data -> ba_unmarshal data = Some b ->
  exists l rest, data = l :: rest /\ blen b = l /\ inrange b /\
    (l + 7) / 8 <= N.of_nat (length rest) /\ val b = be_val (firstn (N.to_nat ((l + 7) / 8)) rest).

Definition ba_unmarshal_rejects_stmt : Prop := forall l rest,
  ba_unmarshal nil = None /\
  (N.of_nat (length rest) < (l + 7) / 8 -> ba_unmarshal (l :: rest) = None).

(* the statements above, proved (one theorem per group keeps the per-run axiom check short) *)
Theorem C01_ba_codec :
  ba_unmarshal_write_stmt /\
  ba_write_injective_stmt /\
  ba_write_prefix_free_stmt /\
  ba_write_length_stmt /\
  ba_unmarshal_accepts_stmt /\
  ba_unmarshal_rejects_stmt.
Proof. exact (conj ba_unmarshal_write (conj ba_write_inj (conj ba_write_prefix_free (conj ba_write_length (conj ba_unmarshal_spec unmarshal_rejects))))). Qed.
Print Assumptions C01_ba_codec.

(* beyond Write's image: bits above len are kept (no truncateToLength), trailing bytes are ignored *)
Example ba_unmarshal_beyond_image :
  ba_unmarshal (3 :: 255 :: nil) = Some (BA 3 255 0 0 0) /\ wfb (BA 3 255 0 0 0) = false /\
  ba_unmarshal (3 :: 5 :: 9 :: 9 :: nil) = Some (BA 3 5 0 0 0) /\ ba_write (BA 3 5 0 0 0) = 3 :: 5 :: nil.
Proof. vm_compute. repeat split; reflexivity. Qed.

(* ---------- node.go WriteTo / UnmarshalBinary ---------- *)
(* decode (encode n) gives n back, except that an inner node written WITHOUT hashes comes back with
   non-nil LeftHash/RightHash: zero for a fresh receiver, the receiver's old values for a pooled one
   ([node_fill]); Value, Left and Right always round-trip *)
Definition node_roundtrip_stmt : Prop := forall n, node_wf n ->
  exists bs, node_encode n = Some bs /\
    forall rlh rrh, node_decode rlh rrh bs = Some (node_fill rlh rrh n).

Definition node_encode_injective_stmt : Prop := forall n1 n2 bs, node_wf n1 -> node_wf n2 ->
  node_encode n1 = Some bs -> node_encode n2 = Some bs -> n1 = n2.

(* decode rejects inputs of a wrong length: a result is a leaf exactly on 32 bytes, otherwise an inner
   node on 32 + both encoded child keys (+ 64 bytes of hashes); anything shorter than 32 is rejected *)
Definition node_decode_length_stmt : Prop := forall rlh rrh data n, node_decode rlh rrh data = Some n ->
  match sn_left n, sn_right n with
  | None, None => length data = 32%nat
  | Some l, Some r =>
      N.of_nat (length data) = 32 + encoded_len l + encoded_len r \/
      N.of_nat (length data) = 32 + encoded_len l + encoded_len r + 64
  | _, _ => False
  end.

Definition node_decode_short_stmt : Prop := forall rlh rrh data, (length data < 32)%nat -> node_decode rlh rrh data = None.

(* the statements above, proved (one theorem per group keeps the per-run axiom check short) *)
Theorem C01_node_codec :
  node_roundtrip_stmt /\
  node_encode_injective_stmt /\
  node_decode_length_stmt /\
  node_decode_short_stmt.
Proof. exact (conj node_roundtrip (conj node_encode_inj (conj node_decode_length node_decode_short))). Qed.
Print Assumptions C01_node_codec.

(* witnesses: a concrete inner node round-trips; the stale-hash effect of a pooled receiver; what the
   decoder accepts beyond encode's image (a value >= P is reduced; child keys with bits above len) *)
Example node_roundtrip_nontrivial :
  let n := SN (Some 7) (Some (BA 3 5 0 0 0)) (Some (BA 251 1 2 3 4)) None None in
  node_encode n = Some (felt_bytes 7 ++ ba_write (BA 3 5 0 0 0) ++ ba_write (BA 251 1 2 3 4)) /\
  wfb (BA 251 1 2 3 4) = true /\
  (match node_encode n with
   | Some bs => node_decode None None bs = Some (SN (Some 7) (Some (BA 3 5 0 0 0)) (Some (BA 251 1 2 3 4)) (Some 0) (Some 0)) /\
                node_decode (Some 11) (Some 13) bs = Some (SN (Some 7) (Some (BA 3 5 0 0 0)) (Some (BA 251 1 2 3 4)) (Some 11) (Some 13))
   | None => False
   end).
Proof. vm_compute. repeat split; reflexivity. Qed.

(* consequence (observation 1 of findings/C01.md): writing back a node that was read from storage is not
   the identity on bytes - an inner node stored without hashes grows by 64 (zero or stale) bytes *)
Example node_reencode_grows :
  let n := SN (Some 7) (Some (BA 3 5 0 0 0)) (Some (BA 251 1 2 3 4)) None None in
  match node_encode n with
  | Some bs => match node_decode None None bs with
               | Some m => node_encode m = Some (bs ++ repeat 0 64)
               | None => False
               end
  | None => False
  end.
Proof. vm_compute. reflexivity. Qed.

Example node_decode_beyond_image :
  node_decode None None (repeat 255 32) = Some (SN (Some ((2 ^ 256 - 1) mod felt_P)) None None None None) /\
  node_decode None None (repeat 0 32 ++ 3 :: 255 :: 0 :: nil) =
    Some (SN (Some 0) (Some (BA 3 255 0 0 0)) (Some (BA 0 0 0 0 0)) (Some 0) (Some 0)) /\
  node_decode None None (repeat 0 32 ++ 3 :: 5 :: 0 :: 1 :: nil) = None.
Proof. vm_compute. repeat split; reflexivity. Qed.

(* ---------- refinement link: trie.go's key computations are Trie1.v's under [bits] ---------- *)
(* FeltToKey = SetFelt(height, key) *)
Theorem C01_bitarray_felt_to_key : forall h k, h < 256 -> k < 2 ^ 256 ->
  wf (set_felt h k) /\ bits (set_felt h k) = bits_of_Z (N.to_nat h) (Z.of_N k).
Proof. exact felt_to_key_refines. Qed.
Print Assumptions C01_bitarray_felt_to_key.

(* path(key, parentKey) = LSBs(key, parentKey.Len()+1); the uint8 sum wraps only for a 255-bit parent
   key: callers pass parents strictly shorter than the key, keys have at most 251 bits *)
Theorem C01_bitarray_path : forall key parent, wf key -> blen parent < 255 ->
  wf (ba_path key (Some parent)) /\
  bits (ba_path key (Some parent)) = Trie1.rel_path (bits key) (Some (bits parent)).
Proof. exact path_refines. Qed.
Print Assumptions C01_bitarray_path.

Theorem C01_bitarray_path_nil : forall key, ba_path key None = key /\ Trie1.rel_path (bits key) None = bits key.
Proof. exact path_nil_refines. Qed.
Print Assumptions C01_bitarray_path_nil.

(* nodesFromRoot / updateValueIfDirty: key.EqualMSBs(cur), key.IsBitSet(cur.Len()), the Len() tests *)
Theorem C01_bitarray_equal_msbs : forall b x, wf b -> wf x ->
  ba_equal_msbs b x = Trie1.equal_msbs (bits b) (bits x).
Proof. exact equal_msbs_spec. Qed.
Print Assumptions C01_bitarray_equal_msbs.

Theorem C01_bitarray_is_bit_set : forall b n, inrange b -> n < 256 ->
  ba_is_bit_set b n = Trie1.is_bit_set (bits b) (N.to_nat n).
Proof. exact is_bit_set_spec. Qed.
Print Assumptions C01_bitarray_is_bit_set.

Theorem C01_bitarray_len : forall a b h,
  (blen a <=? blen b) = Nat.leb (length (bits a)) (length (bits b)) /\
  (blen a <? blen b) = Nat.ltb (length (bits a)) (length (bits b)) /\
  (blen a =? h) = Nat.eqb (length (bits a)) (N.to_nat h).
Proof. exact len_refines_all. Qed.
Print Assumptions C01_bitarray_len.

(* insertOrUpdateValue: commonKey.CommonMSBs(nodeKey, sibling.key) is the longest common prefix *)
Theorem C01_bitarray_common_msbs : forall x y, wf x -> wf y ->
  wf (ba_common_msbs x y) /\ bits (ba_common_msbs x y) = Trie1.common_msbs (bits x) (bits y).
Proof. exact common_msbs_spec. Qed.
Print Assumptions C01_bitarray_common_msbs.

(* Equal on keys / child links (nil = None) *)
Theorem C01_bitarray_equal : forall x y, owf x -> owf y ->
  oba_eqb x y = Trie1.opeqb (option_map bits x) (option_map bits y).
Proof. exact oba_eqb_refines. Qed.
Print Assumptions C01_bitarray_equal.

(* node.Hash: path.Len() == 0 and path.Felt() on keys of at most 251 bits *)
Theorem C01_bitarray_path_felt : forall p, wf p -> blen p <= 251 ->
  ba_felt p = N_of_bits (bits p) /\
  (blen p =? 0) = match bits p with nil => true | _ => false end.
Proof. exact path_felt_refines. Qed.
Print Assumptions C01_bitarray_path_felt.

(* storage.go dbKey = prefix ++ key.Write(): distinct node paths get distinct database keys, so the
   finite map "node path -> node" of Trie1.v is what the key/value store holds under the prefix *)
Theorem C01_bitarray_db_key_injective : forall (prefix : list N) a b, wf a -> wf b ->
  prefix ++ ba_write a = prefix ++ ba_write b -> a = b.
Proof. exact db_key_injective. Qed.
Print Assumptions C01_bitarray_db_key_injective.

(* non-vacuity on word boundaries: a 251-bit key and a 193-bit key sharing 130 bits *)
Example bitarray_nontrivial :
  let k := set_felt 251 (2 ^ 250 + 2 ^ 121 + 5) in
  let s := rsh (set_felt 251 (2 ^ 250 + 2 ^ 120 + 2 ^ 64)) 58 in
  wfb k = true /\ wfb s = true /\ blen s = 193 /\
  blen (ba_common_msbs k s) = 129 /\
  bits (ba_common_msbs k s) = Trie1.common_msbs (bits k) (bits s) /\
  ba_is_bit_set k 129 = true /\ ba_is_bit_set s 129 = false /\
  ba_unmarshal (ba_write k) = Some k /\
  bits (ba_path k (Some (ba_common_msbs k s))) = skipn 130 (bits k).
Proof. vm_compute. repeat split; reflexivity. Qed.
