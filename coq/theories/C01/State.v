(* C01 — the state commitment: abstract state, application of a state diff, and the commitment
   formula of core/state/state_reader.go stateCommitment + core/deprecatedstate calculateContractCommitment. *)
From Coq Require Import List ZArith Bool.
From V Require Import C01.Trie2 C01.Term.
Import ListNotations.
Open Scope Z_scope.

(* finite maps Z -> A as association lists; last write wins by replacement *)
Fixpoint zset {A} (m : list (Z * A)) (k : Z) (v : A) : list (Z * A) :=
  match m with
  | [] => [(k, v)]
  | (k', v') :: r => if Z.eqb k k' then (k, v) :: r else (k', v') :: zset r k v
  end.
Fixpoint zget {A} (m : list (Z * A)) (k : Z) : option A :=
  match m with
  | [] => None
  | (k', v') :: r => if Z.eqb k k' then Some v' else zget r k
  end.
Fixpoint zdel {A} (m : list (Z * A)) (k : Z) : list (Z * A) :=
  match m with
  | [] => []
  | (k', v') :: r => if Z.eqb k k' then r else (k', v') :: zdel r k
  end.

Record contract := { c_class : Z; c_nonce : Z; c_storage : list (Z * Z) }.   (* storage: non-zero slots *)

Record state := {
  contracts : list (Z * contract);
  classes : list (Z * Z)                   (* Sierra class hash -> compiled (CASM) class hash *)
}.

Definition empty_state : state := {| contracts := []; classes := [] |}.

Record diff := {
  d_deployed : list (Z * Z);               (* address -> class hash *)
  d_replaced : list (Z * Z);
  d_nonces : list (Z * Z);
  d_storage : list (Z * list (Z * Z));     (* address -> slot -> value (0 deletes) *)
  d_declared : list (Z * Z);               (* DeclaredV1Classes: class hash -> casm hash *)
  d_migrated : list (Z * Z)                (* MigratedClasses: class hash -> new casm hash *)
}.

Definition sys_contract (a : Z) : bool := Z.eqb a 1 || Z.eqb a 2.

Definition get_contract (st : list (Z * contract)) (a : Z) : contract :=
  match zget st a with Some c => c | None => {| c_class := 0; c_nonce := 0; c_storage := [] |} end.

Definition write_slot (s : list (Z * Z)) (k v : Z) : list (Z * Z) :=
  if Z.eqb v 0 then zdel s k else zset s k v.

Definition apply_diff (purge : bool) (st : state) (d : diff) : state :=
  let cs0 := fold_left (fun cs av => zset cs (fst av) {| c_class := snd av; c_nonce := 0; c_storage := [] |})
                       (d_deployed d) (contracts st) in
  let cs1 := fold_left (fun cs av => let c := get_contract cs (fst av) in
                          zset cs (fst av) {| c_class := snd av; c_nonce := c_nonce c; c_storage := c_storage c |})
                       (d_replaced d) cs0 in
  let cs2 := fold_left (fun cs av => let c := get_contract cs (fst av) in
                          zset cs (fst av) {| c_class := c_class c; c_nonce := snd av; c_storage := c_storage c |})
                       (d_nonces d) cs1 in
  let cs3 := fold_left (fun cs asl => let c := get_contract cs (fst asl) in
                          zset cs (fst asl) {| c_class := c_class c; c_nonce := c_nonce c;
                                               c_storage := fold_left (fun s kv => write_slot s (fst kv) (snd kv)) (snd asl) (c_storage c) |})
                       (d_storage d) cs2 in
  (* system contracts 0x1 / 0x2 have no class: the first storage diff that mentions one deploys it with
     class hash 0 (get_contract's default). core/state (purge = true) drops a system contract from the
     contract trie at every commit while its storage root is zero; core/deprecatedstate (purge = false)
     only does so when reverting (C04). *)
  let cs4 := if purge
             then filter (fun ac => negb (sys_contract (fst ac) && match c_storage (snd ac) with [] => true | _ => false end)) cs3
             else cs3 in
  let cl := fold_left (fun m cv => zset m (fst cv) (snd cv)) (d_declared d ++ d_migrated d) (classes st) in
  {| contracts := cs4; classes := cl |}.

(* ---------- commitment ---------- *)
Definition H := 251%nat.
Definition key (z : Z) : list bool := bits_of_Z H z.

Definition ttrie_root (m : list (list bool * term)) (hashf : term -> term -> term) : term :=
  spec_root_fast term hashf TPath TAddLen (TC 0) H m.

Definition storage_root (s : list (Z * Z)) : term :=
  ttrie_root (map (fun kv => (key (fst kv), TC (snd kv))) s) TPed.

(* calculateContractCommitment: H(H(H(class, storageRoot), nonce), 0) *)
Definition contract_leaf (c : contract) : term :=
  TPed (TPed (TPed (TC (c_class c)) (storage_root (c_storage c))) (TC (c_nonce c))) (TC 0).

Definition contract_root (st : state) : term :=
  ttrie_root (map (fun ac => (key (fst ac), contract_leaf (snd ac))) (contracts st)) TPed.

(* "CONTRACT_CLASS_LEAF_V0" as a felt *)
Definition leaf_version : Z := 25183581894556924416237943157264143779807617924159024.
Definition class_leaf (casm : Z) : term := TPos2 (TC leaf_version) (TC casm).

Definition class_root (st : state) : term :=
  ttrie_root (map (fun cv => (key (fst cv), class_leaf (snd cv))) (classes st)) TPos2.

(* "STARKNET_STATE_V0" *)
Definition state_version : Z := 28355430774503553497671514844211693180464.

(* pre_0_14 = protocol version < 0.14.0 *)
Definition commitment (pre_0_14 : bool) (st : state) : term :=
  let cr := contract_root st in
  let kr := class_root st in
  if tzero kr && tzero cr then TC 0
  else if tzero kr && pre_0_14 then cr
  else TPosN [TC state_version; cr; kr].
