(* Free term algebra over the hash primitives: the executable instance of the hash parameters.
   The oracle prints terms; the Go harness evaluates them with juno's core/crypto. No accidental
   collisions, and no 252-bit curve arithmetic inside Coq. *)
From Coq Require Import List ZArith Bool.
Import ListNotations.

Inductive term :=
| TC (z : Z)                           (* a felt constant *)
| TPed (a b : term)                    (* crypto.Pedersen *)
| TPos2 (a b : term)                   (* crypto.Poseidon *)
| TPosN (l : list term)                (* crypto.PoseidonArray *)
| TPedN (l : list term)                (* crypto.PedersenArray *)
| TAddLen (a : term) (n : nat)         (* felt addition of a small number (edge length) *)
| TPath (p : list bool).               (* bits, most significant first, as a felt *)

(* felt.IsZero. NZ (DESIGN §3): hash outputs are never the zero felt; juno relies on it. *)
Definition tzero (t : term) : bool :=
  match t with
  | TC z => Z.eqb z 0
  | TPath p => forallb negb p
  | _ => false
  end.

(* the low [h] bits of z, most significant first: trieutils.FeltToPath *)
Fixpoint bits_of_Z (h : nat) (z : Z) : list bool :=
  match h with
  | O => []
  | S h' => bits_of_Z h' (Z.div2 z) ++ [Z.odd z]
  end.
