(* C01 — core/trie: the LEGACY flat ("dense") Merkle-Patricia trie. Transcription of
   trie.go Put / updateLeaf / handleEmptyTrie / nodesFromRoot / deleteExistingKey / deleteLast /
   insertOrUpdateValue / replaceLinkWithNewParent / setRootKey / updateValueIfDirty / Hash and of
   node.go Hash + trie.go path. Executable; no proofs (those are in Trie1Proofs.v).

   Storage model: the key/value database under the trie's prefix is a finite map from the full node
   path (BitArray, most significant bit first = list bool) to the node record. Go's nil / empty
   BitArray child link is [None]; the root key is [None] for Go's nil (empty trie) and [Some []]
   for the legitimate zero-length root key. Serialisation (Node.WriteTo / UnmarshalBinary), the node
   pool and the SyncedStorage wrapper are not modelled (the map is read and written directly).

   OUT OF SCOPE (stated, not modelled): proof nodes (LeftHash/RightHash, one empty child link),
   PutWithProof, PutInner, the persisted copy of the root key (written by Hash() when
   rootKeyIsDirty) and reopening. A state in which a one-sided node is met makes the model return
   None (= "outside the modelled fragment"), exactly like a storage miss that Go reports as an error. *)
From Coq Require Import List Bool Arith.
Import ListNotations.

(* BitArray: bits, most significant first *)
Notation path := (list bool) (only parsing).

Section Trie1.
Variable F : Type.                 (* felts / hash values *)
Variable fzero : F -> bool.        (* felt.IsZero *)
Variable ped : F -> F -> F.        (* the trie's hash function (Pedersen or Poseidon) *)
Variable of_path : list bool -> F. (* BitArray.Felt() *)
Variable add_len : F -> nat -> F.  (* felt addition of the path length *)
Variable f0 : F.                   (* felt.Zero *)


(* trie.Node without the proof-only fields *)
Record fnode := mk_fnode { nval : F; nleft : option path; nright : option path }.

Record fstate := mk_fstate {
  nodes : list (path * fnode);     (* Storage: node key -> node *)
  root_key : option path;          (* TrieReader.rootKey *)
  dirty : list path                (* Trie.dirtyNodes *)
}.

Definition empty1 : fstate := mk_fstate [] None [].

(* ---------- BitArray helpers ---------- *)
Definition peqb (a b : path) : bool := if list_eq_dec bool_dec a b then true else false.

(* BitArray.Equal on possibly-nil pointers *)
Definition opeqb (a b : option path) : bool :=
  match a, b with
  | Some x, Some y => peqb x y
  | None, None => true
  | _, _ => false
  end.

(* EqualMSBs: the first min(len) bits coincide *)
Fixpoint equal_msbs (a b : path) : bool :=
  match a, b with
  | x :: a', y :: b' => Bool.eqb x y && equal_msbs a' b'
  | _, _ => true
  end.

(* CommonMSBs: longest common prefix *)
Fixpoint common_msbs (a b : path) : path :=
  match a, b with
  | x :: a', y :: b' => if Bool.eqb x y then x :: common_msbs a' b' else []
  | _, _ => []
  end.

(* IsBitSet(n), n = 0 is the most significant bit; out of range = false *)
Definition is_bit_set (k : path) (n : nat) : bool := nth n k false.

(* trie.go path(key, parentKey): drop the parent key and one more bit *)
Definition rel_path (key : path) (parent : option path) : path :=
  match parent with
  | None => key
  | Some pk => skipn (S (length pk)) key
  end.

(* node.go Hash(path): value itself for an empty path, else H(value, path) + len *)
Definition node_hash (n : fnode) (p : path) : F :=
  match p with
  | [] => nval n
  | _ => add_len (ped (nval n) (of_path p)) (length p)
  end.

(* ---------- the storage map ---------- *)
Fixpoint nget (m : list (path * fnode)) (k : path) : option fnode :=
  match m with
  | [] => None
  | (k', e) :: r => if peqb k k' then Some e else nget r k
  end.

Fixpoint nput (m : list (path * fnode)) (k : path) (e : fnode) : list (path * fnode) :=
  match m with
  | [] => [(k, e)]
  | (k', e') :: r => if peqb k k' then (k, e) :: r else (k', e') :: nput r k e
  end.

Fixpoint ndel (m : list (path * fnode)) (k : path) : list (path * fnode) :=
  match m with
  | [] => []
  | (k', e') :: r => if peqb k k' then ndel r k else (k', e') :: ndel r k
  end.

Definition set_nodes (st : fstate) (m : list (path * fnode)) : fstate := mk_fstate m (root_key st) (dirty st).
Definition set_root (st : fstate) (r : option path) : fstate := mk_fstate (nodes st) r (dirty st).   (* setRootKey *)
Definition add_dirty (st : fstate) (d : path) : fstate := mk_fstate (nodes st) (root_key st) (dirty st ++ [d]).

(* ---------- Put ---------- *)

(* updateLeaf: a non-zero write to a stored leaf overwrites it without walking the trie.
   Some st' = handled; None = fall through *)
Definition update_leaf (st : fstate) (k : path) (node : fnode) (v : F) : option fstate :=
  if fzero v then None
  else match nget (nodes st) k with
       | Some _ => Some (add_dirty (set_nodes st (nput (nodes st) k node)) k)
       | None => None
       end.

(* nodesFromRoot: the stored nodes met from the root towards [key]; None = storage miss (Go: error)
   or fuel exhausted (cannot happen when child keys are longer than their parent's) *)
Fixpoint walk (fuel : nat) (m : list (path * fnode)) (key : path) (cur : option path)
              (acc : list (path * fnode)) : option (list (path * fnode)) :=
  match fuel with
  | O => None
  | S fuel' =>
      match cur with
      | None => Some acc
      | Some c =>
          if negb (match acc with [] => true | _ => false end) && Nat.eqb (length c) 0 then Some acc
          else match nget m c with
               | None => None
               | Some n =>
                   let acc' := acc ++ [(c, n)] in
                   if Nat.leb (length key) (length c) || negb (equal_msbs key c) then Some acc'
                   else walk fuel' m key (if is_bit_set key (length c) then nright n else nleft n) acc'
               end
      end
  end.

Definition nodes_from_root (st : fstate) (key : path) : option (list (path * fnode)) :=
  walk (S (S (length key))) (nodes st) key (root_key st) [].

(* handleEmptyTrie *)
Definition handle_empty (st : fstate) (k : path) (node : fnode) (v : F) : option fstate :=
  if fzero v then Some st
  else Some (set_root (set_nodes st (nput (nodes st) k node)) (Some k)).

(* deleteLast; [rnodes] is the walk result REVERSED (last node first) *)
Definition delete_last (st : fstate) (rnodes : list (path * fnode)) : option fstate :=
  match rnodes with
  | [] => None
  | (lk, _) :: rest =>
      let m1 := ndel (nodes st) lk in
      match rest with
      | [] => Some (set_root (set_nodes st m1) None)                 (* deleted node was root *)
      | (pk, pn) :: rest' =>
          let m2 := ndel m1 pk in
          let sibling := if opeqb (nleft pn) (Some lk) then nright pn else nleft pn in
          match sibling with
          | None => None                                             (* Go: nil dereference *)
          | Some sk =>
              match rest' with
              | [] => Some (set_root (set_nodes st m2) (Some sk))    (* sibling becomes root *)
              | (gk, gn) :: _ =>
                  let gn' := if opeqb (nleft gn) (Some pk)
                             then mk_fnode (nval gn) (Some sk) (nright gn)
                             else mk_fnode (nval gn) (nleft gn) (Some sk) in
                  Some (add_dirty (set_nodes st (nput m2 gk gn')) sk)
              end
          end
      end
  end.

(* insertOrUpdateValue with siblingIsParentProof = false (+ replaceLinkWithNewParent) *)
Definition insert_or_update (st : fstate) (k : path) (node : fnode)
                            (rnodes : list (path * fnode)) : option fstate :=
  match rnodes with
  | [] => None
  | (sk, sn) :: rest =>
      let ck := common_msbs k sk in
      let bit := is_bit_set k (length ck) in
      let lkey := if bit then sk else k in
      let rkey := if bit then k else sk in
      let lchild := if bit then sn else node in
      let rchild := if bit then node else sn in
      let lh := node_hash lchild (rel_path lkey (Some ck)) in
      let rh := node_hash rchild (rel_path rkey (Some ck)) in
      let np := mk_fnode (ped lh rh) (Some lkey) (Some rkey) in
      let m1 := nput (nodes st) ck np in
      let st1 :=
        match rest with
        | (pk, pn) :: _ =>                                           (* sibling has a parent *)
            let pn' := if opeqb (nleft pn) (Some sk)
                       then mk_fnode (nval pn) (Some ck) (nright pn)
                       else mk_fnode (nval pn) (nleft pn) (Some ck) in
            add_dirty (set_nodes st (nput m1 pk pn')) ck
        | [] => set_root (set_nodes st m1) (Some ck)
        end in
      Some (set_nodes st1 (nput (nodes st1) k node))
  end.

Definition put (st : fstate) (k : path) (v : F) : option fstate :=
  let node := mk_fnode v None None in
  match update_leaf st k node v with
  | Some st' => Some st'
  | None =>
      match nodes_from_root st k with
      | None => None
      | Some nds =>
          match rev nds with
          | [] => handle_empty st k node v
          | (sk, sn) :: rest =>
              if peqb k sk then delete_last st ((sk, sn) :: rest)   (* deleteExistingKey *)
              else if fzero v then Some st                           (* zero to an absent key: no-op *)
              else insert_or_update st k node ((sk, sn) :: rest)
          end
      end
  end.

(* ---------- Hash() ---------- *)

(* the prefix test of updateValueIfDirty against dirtyNodes *)
Definition is_dirty (d : list path) (key : path) : bool :=
  existsb (fun dn => Nat.ltb (length key) (length dn) && equal_msbs key dn) d.

(* updateValueIfDirty: returns the updated storage and the (possibly rewritten) node.
   The two children are processed left then right (Go runs them concurrently above depth 8; they
   touch disjoint keys). fuel bounds the recursion depth (child keys are longer than the parent's). *)
Fixpoint update_value_if_dirty (fuel : nat) (h : nat) (d : list path) (m : list (path * fnode)) (key : path)
  : option (list (path * fnode) * fnode) :=
  match fuel with
  | O => None
  | S fuel' =>
      match nget m key with
      | None => None
      | Some node =>
          if Nat.eqb (length key) h then Some (m, node)               (* leaf node *)
          else
            match nleft node, nright node with
            | None, None => Some (m, node)                            (* "leaf": shouldUpdate = false *)
            | Some lk, Some rk =>
                if negb (is_dirty d key) then Some (m, node)
                else
                  match update_value_if_dirty fuel' h d m lk with
                  | None => None
                  | Some (m1, lc) =>
                      match update_value_if_dirty fuel' h d m1 rk with
                      | None => None
                      | Some (m2, rc) =>
                          let lh := node_hash lc (rel_path lk (Some key)) in
                          let rh := node_hash rc (rel_path rk (Some key)) in
                          let node' := mk_fnode (ped lh rh) (Some lk) (Some rk) in
                          Some (nput m2 key node', node')
                      end
                  end
            | _, _ => None                                            (* proof node: out of scope *)
            end
      end
  end.

(* Trie.Hash(): note that the empty trie returns before dirtyNodes is cleared *)
Definition commit (h : nat) (st : fstate) : option (fstate * F) :=
  match root_key st with
  | None => Some (st, f0)
  | Some rk =>
      match update_value_if_dirty (S (S h)) h (dirty st) (nodes st) rk with
      | None => None
      | Some (m, rootn) => Some (mk_fstate m (Some rk) [], node_hash rootn (rel_path rk None))
      end
  end.

(* a sequence of Put, then one Hash() *)
Definition run1 (ops : list (path * F)) : option fstate :=
  fold_left (fun o kv => match o with Some st => put st (fst kv) (snd kv) | None => None end) ops (Some empty1).

Definition root1 (h : nat) (o : option fstate) : option F :=
  match o with
  | None => None
  | Some st => match commit h st with Some (_, r) => Some r | None => None end
  end.

End Trie1.

Arguments mk_fnode {F}. Arguments nval {F}. Arguments nleft {F}. Arguments nright {F}.
Arguments mk_fstate {F}. Arguments nodes {F}. Arguments root_key {F}. Arguments dirty {F}.
