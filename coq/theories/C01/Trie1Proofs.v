(* C01 — core/trie (legacy flat trie): the transcription Trie1.v refines the Trie2-style tree.
   T P m pi n : the flat map m stores, below position pi, exactly the shape of the compressed tree n
   (every Bin under its full path with child links = the compressed children's full paths, every
   leaf at its full-length key), each cached inner value c satisfying P. With
   P = PI dirty : "c is the hash of the subtree, or some dirty key strictly extends the node key"
   (the test updateValueIfDirty makes) this is the invariant Inv1 of DESIGN Appendix B.
   put_refines : one lemma per Put case; commit_fixes : Hash() recomputes every stale value. *)
From Coq Require Import List Bool Arith Lia.
From V Require Import C01.Trie2 C01.Trie2Proofs C01.Trie1.
Import ListNotations.

Section Proofs1.
Variable F : Type.
Variable fzero : F -> bool.
Variable ped : F -> F -> F.
Variable of_path : list bool -> F.
Variable add_len : F -> nat -> F.
Variable f0 : F.

Notation node := (Trie2.node F).
Notation fnode := (Trie1.fnode F).
Notation fstate := (Trie1.fstate F).
Notation path := (list bool).
Notation nget := (Trie1.nget F).
Notation nput := (Trie1.nput F).
Notation ndel := (Trie1.ndel F).
Notation hash := (Trie2.hash F ped of_path add_len).
Notation node_hash := (Trie1.node_hash F ped of_path add_len).
Notation canonb := (Trie2.canonb F fzero).
Notation canont := (Trie2.canont F fzero).
Notation leafn v := (mk_fnode v None None).

(* ------------------------------------------------------------------ *)
(* paths                                                               *)
(* ------------------------------------------------------------------ *)

Lemma peqb_true : forall a b, peqb a b = true <-> a = b.
Proof. intros a b. unfold peqb. destruct (list_eq_dec bool_dec a b); split; congruence. Qed.

Lemma peqb_refl : forall a, peqb a a = true.
Proof. intros. apply peqb_true. reflexivity. Qed.

Lemma peqb_false : forall a b, a <> b -> peqb a b = false.
Proof. intros a b H. unfold peqb. destruct (list_eq_dec bool_dec a b); congruence. Qed.

Lemma app_len_neq : forall (a s : path), s <> [] -> a ++ s <> a.
Proof.
  intros a s H E. apply (f_equal (@length bool)) in E. rewrite app_length in E.
  destruct s; [congruence|simpl in E; lia].
Qed.

Lemma app_bit_neq : forall (p : path) a b s s', a <> b -> (p ++ [a]) ++ s <> (p ++ [b]) ++ s'.
Proof.
  intros p a b s s' N E. rewrite <- !app_assoc in E. apply app_inv_head in E.
  simpl in E. congruence.
Qed.

Lemma equal_msbs_app : forall (p s : path), equal_msbs (p ++ s) p = true.
Proof.
  induction p as [|a p IH]; intros s; simpl.
  - destruct s; reflexivity.
  - rewrite eqb_reflx. simpl. apply IH.
Qed.

Lemma equal_msbs_app_r : forall (p s : path), equal_msbs p (p ++ s) = true.
Proof.
  induction p as [|a p IH]; intros s; simpl.
  - reflexivity.
  - rewrite eqb_reflx. simpl. apply IH.
Qed.

Lemma equal_msbs_diverge : forall (p : path) a b s s', a <> b ->
  equal_msbs (p ++ a :: s) (p ++ b :: s') = false.
Proof.
  induction p as [|x p IH]; intros a b s s' N; simpl.
  - apply eqb_false_iff in N. rewrite N. reflexivity.
  - rewrite eqb_reflx. simpl. apply IH; auto.
Qed.

Lemma equal_msbs_prefix : forall (a b : path), length a <= length b -> equal_msbs a b = true ->
  exists s, b = a ++ s.
Proof.
  induction a as [|x a IH]; intros b L E.
  - exists b. reflexivity.
  - destruct b as [|y b]; [simpl in L; lia|].
    simpl in E. apply andb_true_iff in E. destruct E as [E1 E2].
    apply eqb_prop in E1. subst y. simpl in L.
    destruct (IH b) as [s ->]; [lia|auto|]. exists s. reflexivity.
Qed.

Lemma common_msbs_app : forall (p a b : path), common_msbs (p ++ a) (p ++ b) = p ++ common_msbs a b.
Proof.
  induction p as [|x p IH]; intros a b; simpl; auto.
  rewrite eqb_reflx. f_equal. apply IH.
Qed.

Lemma common_msbs_diverge : forall (a b : bool) s s', a <> b -> common_msbs (a :: s) (b :: s') = [].
Proof. intros a b s s' N. simpl. apply eqb_false_iff in N. rewrite N. reflexivity. Qed.

Lemma is_bit_set_app : forall (p : path) b s, is_bit_set (p ++ b :: s) (length p) = b.
Proof.
  intros p b s. unfold is_bit_set. rewrite app_nth2 by lia.
  rewrite Nat.sub_diag. reflexivity.
Qed.

Lemma rel_path_app : forall (p : path) b s, rel_path (p ++ b :: s) (Some p) = s.
Proof.
  intros p b s. unfold rel_path.
  replace (p ++ b :: s) with ((p ++ [b]) ++ s) by (rewrite <- app_assoc; reflexivity).
  replace (S (length p)) with (length (p ++ [b])) by (rewrite app_length; simpl; lia).
  rewrite skipn_app, Nat.sub_diag, skipn_all. reflexivity.
Qed.

(* ------------------------------------------------------------------ *)
(* the storage map                                                     *)
(* ------------------------------------------------------------------ *)

Lemma nget_nput : forall m k e k', nget (nput m k e) k' = if peqb k' k then Some e else nget m k'.
Proof.
  induction m as [|[k0 e0] m IH]; intros k e k'; simpl.
  - reflexivity.
  - destruct (peqb k k0) eqn:E.
    + apply peqb_true in E. subst k0. simpl. destruct (peqb k' k); reflexivity.
    + simpl. destruct (peqb k' k0) eqn:E2.
      * apply peqb_true in E2. subst k0.
        rewrite peqb_false; auto. intro; subst. rewrite peqb_refl in E. discriminate.
      * apply IH.
Qed.

Lemma nget_ndel : forall m k k', nget (ndel m k) k' = if peqb k' k then None else nget m k'.
Proof.
  induction m as [|[k0 e0] m IH]; intros k k'; simpl.
  - destruct (peqb k' k); reflexivity.
  - destruct (peqb k k0) eqn:E.
    + apply peqb_true in E. subst k0. rewrite IH. destruct (peqb k' k); reflexivity.
    + simpl. destruct (peqb k' k0) eqn:E2.
      * apply peqb_true in E2. subst k0.
        rewrite peqb_false; auto. intro; subst. rewrite peqb_refl in E. discriminate.
      * apply IH.
Qed.

Lemma nget_nput_same : forall m k e, nget (nput m k e) k = Some e.
Proof. intros. rewrite nget_nput, peqb_refl. reflexivity. Qed.

Lemma nget_nput_other : forall m k e k', k' <> k -> nget (nput m k e) k' = nget m k'.
Proof. intros. rewrite nget_nput, peqb_false; auto. Qed.

Lemma nget_ndel_same : forall m k, nget (ndel m k) k = None.
Proof. intros. rewrite nget_ndel, peqb_refl. reflexivity. Qed.

Lemma nget_ndel_other : forall m k k', k' <> k -> nget (ndel m k) k' = nget m k'.
Proof. intros. rewrite nget_ndel, peqb_false; auto. Qed.

(* ------------------------------------------------------------------ *)
(* the representation relation                                         *)
(* ------------------------------------------------------------------ *)

Definition epath (n : node) : path := match n with Edge p _ => p | _ => [] end.
Definition unedge (n : node) : node := match n with Edge _ c => c | _ => n end.
(* the key under which the (non-edge part of the) subtree n sitting at position pi is stored *)
Definition skey (pi : path) (n : node) : path := pi ++ epath n.

Fixpoint T (P : path -> node -> F -> Prop) (m : list (path * fnode)) (pi : path) (n : node) : Prop :=
  match n with
  | Leaf v => nget m pi = Some (leafn v)
  | Edge p c => T P m (pi ++ p) c
  | Bin l r =>
      (exists c, nget m pi = Some (mk_fnode c (Some (skey (pi ++ [false]) l)) (Some (skey (pi ++ [true]) r)))
                 /\ P pi (Bin l r) c)
      /\ T P m (pi ++ [false]) l /\ T P m (pi ++ [true]) r
  end.

Lemma T_frame : forall P n m m' pi, (forall s, nget m' (pi ++ s) = nget m (pi ++ s)) ->
  T P m pi n -> T P m' pi n.
Proof.
  induction n as [v|p c IH|l IHl r IHr]; intros m m' pi A H; simpl in *.
  - specialize (A []). rewrite app_nil_r in A. congruence.
  - eapply IH; [|exact H]. intros s. rewrite <- !app_assoc. apply A.
  - destruct H as ((c & E & HP) & Hl & Hr). split; [|split].
    + exists c. split; auto. specialize (A []). rewrite app_nil_r in A. congruence.
    + eapply IHl; [|exact Hl]. intros s. rewrite <- !app_assoc. apply A.
    + eapply IHr; [|exact Hr]. intros s. rewrite <- !app_assoc. apply A.
Qed.

Lemma T_mono : forall (P P' : path -> node -> F -> Prop) n m pi,
  (forall s x c, P (pi ++ s) x c -> P' (pi ++ s) x c) -> T P m pi n -> T P' m pi n.
Proof.
  induction n as [v|p c IH|l IHl r IHr]; intros m pi A H; simpl in *.
  - exact H.
  - eapply IH; [|exact H]. intros s x c0. rewrite <- !app_assoc. apply A.
  - destruct H as ((c & E & HP) & Hl & Hr). split; [|split].
    + exists c. split; auto. specialize (A [] (Bin l r) c). rewrite app_nil_r in A. auto.
    + eapply IHl; [|exact Hl]. intros s x c0. rewrite <- !app_assoc. apply A.
    + eapply IHr; [|exact Hr]. intros s x c0. rewrite <- !app_assoc. apply A.
Qed.

Lemma T_wrap : forall P m pi p (c : node), T P m pi (wrap F p c) <-> T P m (pi ++ p) c.
Proof. intros P m pi [|a p] c; simpl; [rewrite app_nil_r|]; tauto. Qed.

Lemma skey_wrap : forall pi p (c : node), is_edge F c = false -> skey pi (wrap F p c) = pi ++ p.
Proof.
  intros pi [|a p] c E; unfold skey; simpl; auto.
  destruct c; simpl in *; try discriminate; reflexivity.
Qed.

Lemma skey_nonedge : forall pi (c : node), is_edge F c = false -> skey pi c = pi.
Proof. intros pi c E. unfold skey. destruct c; simpl in *; try discriminate; apply app_nil_r. Qed.

Lemma T_prepend : forall P m pi b (n : node), T P m pi (prepend F b n) <-> T P m (pi ++ [b]) n.
Proof.
  intros P m pi b [v|p c|l r]; cbn [prepend T]; try tauto.
  rewrite <- app_assoc. simpl. tauto.
Qed.

Lemma skey_prepend : forall pi b (n : node), skey pi (prepend F b n) = skey (pi ++ [b]) n.
Proof.
  intros pi b [v|p c|l r]; unfold skey; simpl; rewrite <- app_assoc; reflexivity.
Qed.

(* ------------------------------------------------------------------ *)
(* nodesFromRoot                                                       *)
(* ------------------------------------------------------------------ *)

Definition ent (m : list (path * fnode)) (c : path) : fnode :=
  match nget m c with Some e => e | None => leafn f0 end.

(* the stored nodes met below position pi on the way to key pi ++ k' *)
Fixpoint trail (m : list (path * fnode)) (pi : path) (n : node) (k' : path) : list (path * fnode) :=
  match n with
  | Leaf v => [(pi, ent m pi)]
  | Edge p c =>
      match strip p k' with
      | Some k'' => trail m (pi ++ p) c k''
      | None => [(pi ++ p, ent m (pi ++ p))]
      end
  | Bin l r =>
      (pi, ent m pi) :: match k' with
                        | b :: k'' => trail m (pi ++ [b]) (if b then r else l) k''
                        | [] => []
                        end
  end.

Lemma T_top : forall P m pi h (n : node), canonb h n = true -> is_edge F n = false -> T P m pi n ->
  exists e, nget m pi = Some e.
Proof.
  intros P m pi h [v|p c|l r] C E H; simpl in *; try discriminate; eauto.
  destruct H as ((c & E1 & _) & _). eauto.
Qed.

Lemma strip_none_split : forall p k, strip p k = None -> length p <= length k ->
  exists mm a b s s', a <> b /\ p = mm ++ a :: s /\ k = mm ++ b :: s'.
Proof.
  induction p as [|x p IH]; intros k H L; simpl in H; [discriminate|].
  destruct k as [|y k]; [simpl in L; lia|].
  destruct (eqb x y) eqn:E.
  - apply eqb_prop in E. subst y. simpl in L.
    destruct (IH k H) as (mm & a & b & s & s' & N & -> & ->); [lia|].
    exists (x :: mm), a, b, s, s'. auto.
  - apply eqb_false_iff in E. exists [], x, y, p, k. auto.
Qed.

Lemma walk_T : forall P m (n : node) h pi k' acc fuel,
  canonb h n = true -> length k' = h -> T P m pi n -> h < fuel ->
  (acc = [] \/ skey pi n <> []) ->
  walk F fuel m (pi ++ k') (Some (skey pi n)) acc = Some (acc ++ trail m pi n k').
Proof.
  intros P m n.
  induction n as [v|p c IH|l IHl r IHr]; intros h pi k' acc fuel C L H Fu A.
  - apply canon_leaf_inv in C. destruct C as [-> _]. destruct k'; [|discriminate].
    destruct fuel as [|fuel]; [lia|].
    unfold skey in *. simpl epath in *. rewrite app_nil_r in *. simpl in H.
    cbn [walk trail]. unfold ent. rewrite H.
    replace (negb match acc with [] => true | _ :: _ => false end && (length pi =? 0)) with false.
    2:{ destruct A as [->|A]; [reflexivity|]. destruct pi; [congruence|]. simpl. rewrite andb_false_r. reflexivity. }
    rewrite Nat.leb_refl. reflexivity.
  - apply canon_edge_inv in C. destruct C as (C1 & C2 & C3 & C4).
    cbn [T] in H.
    replace (skey pi (Edge p c)) with (skey (pi ++ p) c) in * by (rewrite skey_nonedge; auto).
    cbn [trail]. destruct (strip p k') as [k''|] eqn:S.
    + apply strip_some in S. subst k'. rewrite app_length in L.
      rewrite app_assoc. apply (IH (h - length p)); auto; lia.
    + destruct (strip_none_split _ _ S) as (mm & a & b & s & s' & N & -> & ->); [lia|].
      rewrite skey_nonedge in * by auto.
      destruct (T_top _ _ _ _ _ C4 C3 H) as [e He].
      destruct fuel as [|fuel]; [lia|]. cbn [walk]. unfold ent. rewrite He.
      replace (negb match acc with [] => true | _ :: _ => false end && (length (pi ++ mm ++ a :: s) =? 0)) with false.
      2:{ destruct A as [->|A]; [reflexivity|].
          destruct (pi ++ mm ++ a :: s); [congruence|]. simpl. rewrite andb_false_r. reflexivity. }
      rewrite !app_assoc. rewrite equal_msbs_diverge by auto. simpl. rewrite orb_true_r. reflexivity.
  - apply canon_bin_inv in C. destruct C as (h' & -> & Cl & Cr).
    destruct k' as [|b k'']; [discriminate|]. simpl in L.
    destruct fuel as [|fuel]; [lia|].
    unfold skey in *. simpl epath in *. rewrite app_nil_r in *.
    destruct H as ((c & E & HP) & Hl & Hr).
    cbn [walk trail]. unfold ent at 1. rewrite E.
    replace (negb match acc with [] => true | _ :: _ => false end && (length pi =? 0)) with false.
    2:{ destruct A as [->|A]; [reflexivity|]. destruct pi; [congruence|]. simpl. rewrite andb_false_r. reflexivity. }
    rewrite equal_msbs_app. rewrite is_bit_set_app.
    replace (length (pi ++ b :: k'') <=? length pi) with false.
    2:{ symmetry. apply Nat.leb_gt. rewrite app_length. simpl. lia. }
    cbn [orb negb nleft nright].
    replace (pi ++ b :: k'') with ((pi ++ [b]) ++ k'') by (rewrite <- app_assoc; reflexivity).
    replace (acc ++ (pi, mk_fnode c (Some (skey (pi ++ [false]) l)) (Some (skey (pi ++ [true]) r))) ::
                    trail m (pi ++ [b]) (if b then r else l) k'')
      with ((acc ++ [(pi, mk_fnode c (Some (skey (pi ++ [false]) l)) (Some (skey (pi ++ [true]) r)))]) ++
                    trail m (pi ++ [b]) (if b then r else l) k'')
      by (rewrite <- app_assoc; reflexivity).
    assert (NE : forall x : node, skey (pi ++ [b]) x <> []).
    { intros x. unfold skey. destruct pi; simpl; discriminate. }
    destruct b.
    + apply (IHr h'); auto; [lia|right; apply NE].
    + apply (IHl h'); auto; [lia|right; apply NE].
Qed.

Lemma T_lookup : forall P m (n : node) pi k' v, T P m pi n -> lookup F n k' = Some v ->
  nget m (pi ++ k') = Some (leafn v).
Proof.
  intros P m n. induction n as [v0|p c IH|l IHl r IHr]; intros pi k' v H L.
  - destruct k'; simpl in L; [|discriminate]. injection L as <-. rewrite app_nil_r. exact H.
  - simpl in L. destruct (strip p k') as [k''|] eqn:S; [|discriminate].
    apply strip_some in S. subst k'. rewrite app_assoc. apply IH; auto.
  - destruct k' as [|b k'']; simpl in L; [discriminate|].
    destruct H as (_ & Hl & Hr).
    replace (pi ++ b :: k'') with ((pi ++ [b]) ++ k'') by (rewrite <- app_assoc; reflexivity).
    destruct b; [apply IHr|apply IHl]; auto.
Qed.

Lemma trail_last : forall m (n : node) h pi k', canonb h n = true -> length k' = h ->
  exists sk rest, rev (trail m pi n k') = (sk, ent m sk) :: rest /\
    (lookup F n k' <> None -> sk = pi ++ k') /\ (lookup F n k' = None -> sk <> pi ++ k').
Proof.
  intros m n. induction n as [v0|p c IH|l IHl r IHr]; intros h pi k' C L.
  - apply canon_leaf_inv in C. destruct C as [-> _]. destruct k'; [|discriminate].
    exists pi, []. simpl. rewrite app_nil_r. repeat split; auto. intros; discriminate.
  - apply canon_edge_inv in C. destruct C as (C1 & C2 & C3 & C4).
    cbn [trail lookup]. destruct (strip p k') as [k''|] eqn:S.
    + apply strip_some in S. subst k'. rewrite app_length in L.
      destruct (IH (h - length p) (pi ++ p) k'') as (sk & rest & E & A & B); auto; [lia|].
      exists sk, rest. rewrite app_assoc. auto.
    + exists (pi ++ p), []. simpl. repeat split; auto; [congruence|].
      intros _ E. apply app_inv_head in E. subst k'.
      rewrite <- (app_nil_r p) in S at 2. rewrite strip_app in S. discriminate.
  - apply canon_bin_inv in C. destruct C as (h' & -> & Cl & Cr).
    destruct k' as [|b k'']; [discriminate|]. simpl in L.
    assert (Cc : canonb h' (if b then r else l) = true) by (destruct b; auto).
    cbn [trail lookup].
    destruct b.
    + destruct (IHr h' (pi ++ [true]) k'') as (sk & rest & E & A & B); auto; try lia.
      exists sk, (rest ++ [(pi, ent m pi)]). cbn [rev]. rewrite E. rewrite <- app_assoc in A, B. auto.
    + destruct (IHl h' (pi ++ [false]) k'') as (sk & rest & E & A & B); auto; try lia.
      exists sk, (rest ++ [(pi, ent m pi)]). cbn [rev]. rewrite E. rewrite <- app_assoc in A, B. auto.
Qed.

(* ------------------------------------------------------------------ *)
(* the cached-hash invariant                                           *)
(* ------------------------------------------------------------------ *)

(* some dirty key strictly extends rho *)
Definition dirtydesc (D : list path) (rho : path) : Prop := exists s, s <> [] /\ In (rho ++ s) D.

(* chk = false: shape only; chk = true: Inv1 *)
Definition PI (chk : bool) (D : list path) (rho : path) (x : node) (c : F) : Prop :=
  chk = true -> c = hash x \/ dirtydesc D rho.

Lemma dirtydesc_mono : forall D D' rho, incl D D' -> dirtydesc D rho -> dirtydesc D' rho.
Proof. intros D D' rho I (s & N & H). exists s. auto. Qed.

Lemma dirtydesc_up : forall D rho s, dirtydesc D (rho ++ s) -> dirtydesc D rho.
Proof.
  intros D rho s (s' & N & H). exists (s ++ s'). rewrite app_assoc. split; auto.
  destruct s; simpl; [auto|discriminate].
Qed.

Lemma T_PI_mono : forall chk D D' m pi (n : node), incl D D' -> T (PI chk D) m pi n -> T (PI chk D') m pi n.
Proof.
  intros chk D D' m pi n I. apply T_mono. intros s x c H Hc.
  destruct (H Hc) as [E|E]; [left; auto|right; eapply dirtydesc_mono; eauto].
Qed.

Lemma T_top_val : forall chk D m pi h (n : node), canonb h n = true -> is_edge F n = false ->
  T (PI chk D) m pi n ->
  exists e, nget m pi = Some e /\ (chk = true -> nval e = hash n \/ dirtydesc D pi).
Proof.
  intros chk D m pi h [v|p c|l r] C E H; simpl in *; try discriminate.
  - eexists; split; eauto.
  - destruct H as ((c & E1 & HP) & _). eexists; split; eauto.
Qed.

Lemma node_hash_wrap : forall (e : fnode) p (c : node), nval e = hash c -> node_hash e p = hash (wrap F p c).
Proof. intros e [|a p] c H; simpl; rewrite H; reflexivity. Qed.

(* ------------------------------------------------------------------ *)
(* context of an operation below position pi: the last ancestor        *)
(* ------------------------------------------------------------------ *)

Definition relink (e : fnode) (old new : path) : fnode :=
  if opeqb (nleft e) (Some old) then mk_fnode (nval e) (Some new) (nright e)
  else mk_fnode (nval e) (nleft e) (Some new).

Definition Hyp (st : fstate) (pi old : path) (anc : list (path * fnode)) : Prop :=
  match rev anc with
  | [] => root_key st = Some old
  | (rho, e) :: _ => nget (nodes st) rho = Some e /\ (nleft e = Some old \/ nright e = Some old)
                     /\ length rho < length pi
  end.

Definition Post (st st' : fstate) (pi old new : path) (anc : list (path * fnode)) (k : path) : Prop :=
  (forall q, (forall s, q <> pi ++ s) -> (forall rho e r, rev anc = (rho, e) :: r -> q <> rho) ->
             nget (nodes st') q = nget (nodes st) q)
  /\ (forall q, length q = length k -> q <> k -> nget (nodes st') q = nget (nodes st) q)
  /\ match rev anc with
     | [] => root_key st' = Some new
     | (rho, e) :: _ => root_key st' = root_key st /\ nget (nodes st') rho = Some (relink e old new)
     end
  /\ exists dl, dirty st' = dirty st ++ dl /\ (anc <> [] -> exists s, In (pi ++ s) dl).

Lemma opeqb_true : forall a b, opeqb a b = true <-> a = b.
Proof.
  intros [a|] [b|]; simpl; try (split; congruence).
  rewrite peqb_true. split; congruence.
Qed.

Lemma relink_same : forall e old, nleft e = Some old \/ nright e = Some old -> relink e old old = e.
Proof.
  intros [c l r] old H. unfold relink. cbn [nleft nright nval] in *.
  destruct (opeqb l (Some old)) eqn:E.
  - apply opeqb_true in E. subst l. reflexivity.
  - destruct H as [H|H]; subst.
    + assert (opeqb (Some old) (Some old) = true) by (apply opeqb_true; auto). congruence.
    + reflexivity.
Qed.

Lemma relink_bin : forall c pi (l r : node) b new,
  relink (mk_fnode c (Some (skey (pi ++ [false]) l)) (Some (skey (pi ++ [true]) r)))
         (skey (pi ++ [b]) (if b then r else l)) new =
  if b then mk_fnode c (Some (skey (pi ++ [false]) l)) (Some new)
  else mk_fnode c (Some new) (Some (skey (pi ++ [true]) r)).
Proof.
  intros c pi l r b new. unfold relink. cbn [nleft nright nval].
  destruct b.
  - replace (opeqb (Some (skey (pi ++ [false]) l)) (Some (skey (pi ++ [true]) r))) with false; auto.
    symmetry. simpl. apply peqb_false. unfold skey. apply app_bit_neq. discriminate.
  - replace (opeqb (Some (skey (pi ++ [false]) l)) (Some (skey (pi ++ [false]) l))) with true; auto.
    symmetry. apply opeqb_true. reflexivity.
Qed.

(* ------------------------------------------------------------------ *)
(* Put, case "insert under a new parent at the common prefix"          *)
(* ------------------------------------------------------------------ *)

Lemma strip_diverge : forall (mm : path) a b s s', a <> b -> strip (mm ++ a :: s) (mm ++ b :: s') = None.
Proof.
  induction mm as [|x mm IH]; intros a b s s' N; simpl.
  - apply eqb_false_iff in N. rewrite N. reflexivity.
  - rewrite eqb_reflx. apply IH; auto.
Qed.

Lemma in_region : forall (pi p s : path), (pi ++ p) ++ s = pi ++ (p ++ s).
Proof. intros. rewrite app_assoc. reflexivity. Qed.

(* ------------------------------------------------------------------ *)
(* nothing else is stored                                              *)
(* ------------------------------------------------------------------ *)

(* the keys under which the subtree n at position pi is stored *)
Fixpoint keys (pi : path) (n : node) : list path :=
  match n with
  | Leaf _ => [pi]
  | Edge p c => keys (pi ++ p) c
  | Bin l r => pi :: keys (pi ++ [false]) l ++ keys (pi ++ [true]) r
  end.

(* within the region below pi only the keys of n are stored *)
Definition EX (m : list (path * fnode)) (pi : path) (n : node) : Prop :=
  forall s, nget m (pi ++ s) <> None -> In (pi ++ s) (keys pi n).

Lemma keys_prefix : forall (n : node) pi q, In q (keys pi n) -> exists s, q = pi ++ s.
Proof.
  induction n as [v|p c IH|l IHl r IHr]; intros pi q H; simpl in H.
  - destruct H as [<-|[]]. exists []. rewrite app_nil_r. reflexivity.
  - destruct (IH _ _ H) as [s ->]. exists (p ++ s). apply in_region.
  - destruct H as [<-|H]; [exists []; rewrite app_nil_r; reflexivity|].
    apply in_app_or in H. destruct H as [H|H].
    + destruct (IHl _ _ H) as [s ->]. exists (false :: s). rewrite <- app_assoc. reflexivity.
    + destruct (IHr _ _ H) as [s ->]. exists (true :: s). rewrite <- app_assoc. reflexivity.
Qed.

Lemma EX_frame : forall m m' pi (n : node), (forall s, nget m' (pi ++ s) = nget m (pi ++ s)) ->
  EX m pi n -> EX m' pi n.
Proof. intros m m' pi n A H s Hs. apply H. rewrite <- A. exact Hs. Qed.

Lemma EX_bin : forall m pi (l r : node),
  EX m pi (Bin l r) <-> EX m (pi ++ [false]) l /\ EX m (pi ++ [true]) r.
Proof.
  intros m pi l r. split.
  - intros H. split; intros s Hs; rewrite <- app_assoc in *; specialize (H _ Hs); simpl in H;
      (destruct H as [H|H]; [exfalso; symmetry in H; revert H; apply app_len_neq; discriminate|]);
      apply in_app_or in H; destruct H as [H|H]; auto;
      exfalso; apply keys_prefix in H; destruct H as [s' H]; rewrite <- app_assoc in H;
      apply app_inv_head in H; discriminate.
  - intros [Hl Hr] s Hs. simpl. destruct s as [|b s].
    + left. rewrite app_nil_r. reflexivity.
    + right. apply in_or_app. replace (pi ++ b :: s) with ((pi ++ [b]) ++ s) in * by (rewrite <- app_assoc; reflexivity).
      destruct b; [right; apply Hr|left; apply Hl]; exact Hs.
Qed.

(* the subtree is stored unchanged p levels further down and nothing sits in between *)
Lemma EX_shift : forall m pi p (n' c' : node), keys pi n' = keys (pi ++ p) c' ->
  (EX m pi n' <-> EX m (pi ++ p) c' /\ (forall s, (forall s', s <> p ++ s') -> nget m (pi ++ s) = None)).
Proof.
  intros m pi p n' c' K. unfold EX. rewrite K. split.
  - intros H. split.
    + intros s Hs. rewrite in_region in *. apply H. exact Hs.
    + intros s Ns. destruct (nget m (pi ++ s)) eqn:G; auto. exfalso.
      assert (G' : nget m (pi ++ s) <> None) by congruence.
      apply H in G'. apply keys_prefix in G'. destruct G' as [s' G']. rewrite in_region in G'.
      apply app_inv_head in G'. exact (Ns _ G').
  - intros [H1 H2] s Hs. destruct (strip p s) as [s'|] eqn:S.
    + apply strip_some in S. subst s. rewrite <- in_region in *. apply H1. exact Hs.
    + exfalso. apply Hs. apply H2. intros s' ->. rewrite strip_app in S. discriminate.
Qed.

Lemma EX_edge : forall m pi p (c : node),
  EX m pi (Edge p c) <-> EX m (pi ++ p) c /\ (forall s, (forall s', s <> p ++ s') -> nget m (pi ++ s) = None).
Proof. intros. apply EX_shift. reflexivity. Qed.

Lemma keys_wrap : forall pi p (c : node), keys pi (wrap F p c) = keys (pi ++ p) c.
Proof. intros pi [|a p] c; simpl; [rewrite app_nil_r|]; reflexivity. Qed.

Lemma keys_prepend : forall pi b (n : node), keys pi (prepend F b n) = keys (pi ++ [b]) n.
Proof. intros pi b [v|p c|l r]; simpl; rewrite <- ?app_assoc; reflexivity. Qed.

Lemma keys_edge_merge : forall pi p (c' n' : node), edge_merge F p (Some c') = Some n' ->
  keys pi n' = keys (pi ++ p) c'.
Proof.
  intros pi p c' n' E. destruct c' as [v|p' c''|l r]; simpl in E; injection E as <-; simpl;
    rewrite <- ?app_assoc; reflexivity.
Qed.

Lemma keys_newbin : forall (ck : path) (nb : bool) (kr' pr' : path) (c : node) v q,
  q = ck \/ q = ck ++ nb :: kr' \/ In q (keys (ck ++ negb nb :: pr') c) ->
  In q (keys ck (mkbin F nb (wrap F kr' (Leaf v)) (wrap F pr' c))).
Proof.
  intros ck nb kr' pr' c v q H.
  assert (A : forall b (x : path), (ck ++ [b]) ++ x = ck ++ b :: x) by (intros; rewrite <- app_assoc; reflexivity).
  destruct nb; cbn [mkbin keys negb] in *; rewrite !keys_wrap, !A; cbn [keys];
    destruct H as [->|[->|H]]; [left; reflexivity|right; apply in_or_app; right; left; reflexivity
    |right; apply in_or_app; left; exact H|left; reflexivity|right; apply in_or_app; left; left; reflexivity
    |right; apply in_or_app; right; exact H].
Qed.

Lemma T_newbin : forall (P' : path -> node -> F -> Prop) m' (ck : path) (nb : bool) (kr' pr' : path) (c : node) v cv,
  is_edge F c = false ->
  nget m' ck = Some (mk_fnode cv (Some (if nb then ck ++ negb nb :: pr' else ck ++ nb :: kr'))
                                 (Some (if nb then ck ++ nb :: kr' else ck ++ negb nb :: pr'))) ->
  nget m' (ck ++ nb :: kr') = Some (leafn v) -> T P' m' (ck ++ negb nb :: pr') c ->
  P' ck (mkbin F nb (wrap F kr' (Leaf v)) (wrap F pr' c)) cv ->
  T P' m' ck (mkbin F nb (wrap F kr' (Leaf v)) (wrap F pr' c)).
Proof.
  intros P' m' ck nb kr' pr' c v cv E H1 H2 H3 H4.
  assert (A : forall b (x : path), (ck ++ [b]) ++ x = ck ++ b :: x) by (intros; rewrite <- app_assoc; reflexivity).
  destruct nb; cbn [mkbin negb] in *; cbn [T]; (split; [|split]).
  - exists cv. split; auto. rewrite H1. rewrite !skey_wrap, !A by auto. reflexivity.
  - apply T_wrap. rewrite A. exact H3.
  - apply T_wrap. rewrite A. exact H2.
  - exists cv. split; auto. rewrite H1. rewrite !skey_wrap, !A by auto. reflexivity.
  - apply T_wrap. rewrite A. exact H2.
  - apply T_wrap. rewrite A. exact H3.
Qed.

Lemma newbin_PI : forall chk D D' (ck : path) (nb ob : bool) (kr' pr' : path) (c : node) v (es : fnode),
  incl D D' ->
  (chk = true -> nval es = hash c \/ dirtydesc D (ck ++ ob :: pr')) ->
  PI chk D' ck (mkbin F nb (wrap F kr' (Leaf v)) (wrap F pr' c))
     (ped (node_hash (if nb then es else leafn v) (if nb then pr' else kr'))
          (node_hash (if nb then leafn v else es) (if nb then kr' else pr'))).
Proof.
  intros chk D D' ck nb ob kr' pr' c v es I Ves Hc.
  destruct (Ves Hc) as [E|E].
  - left. destruct nb; cbn [mkbin hash];
      rewrite (node_hash_wrap es pr' c E), (node_hash_wrap (leafn v) kr' (Leaf v) eq_refl); reflexivity.
  - right. eapply dirtydesc_mono; [exact I|]. eapply dirtydesc_up; exact E.
Qed.

Ltac neq := solve [auto | apply not_eq_sym; auto].

Lemma insert_T : forall chk (n : node) st h pi k' anc v,
  canonb h n = true -> length k' = h -> lookup F n k' = None ->
  T (PI chk (dirty st)) (nodes st) pi n ->
  Hyp st pi (skey pi n) anc ->
  exists st', insert_or_update F ped of_path add_len st (pi ++ k') (leafn v)
                 (rev (anc ++ trail (nodes st) pi n k')) = Some st'
    /\ T (PI chk (dirty st')) (nodes st') pi (insert F n k' v)
    /\ Post st st' pi (skey pi n) (skey pi (insert F n k' v)) anc (pi ++ k')
    /\ (EX (nodes st) pi n -> EX (nodes st') pi (insert F n k' v)).
Proof.
  intros chk n st.
  induction n as [v0|p c IH|l IHl r IHr]; intros h pi k' anc v C L LK H HY.
  - apply canon_leaf_inv in C. destruct C as [-> _]. destruct k'; [|discriminate]. discriminate.
  - (* ---- Edge ---- *)
    apply canon_edge_inv in C. destruct C as (C1 & C2 & C3 & C4).
    destruct k' as [|kb k0].
    { simpl in L. subst h. destruct p; [congruence|simpl in C2; lia]. }
    cbn [insert].
    destruct (split p (kb :: k0)) as [[mm pr] kr] eqn:S.
    apply split_spec in S. destruct S as (S1 & S2 & S3).
    assert (L1 := f_equal (@length bool) S1). assert (L2 := f_equal (@length bool) S2).
    rewrite app_length in L1, L2. rewrite L in L2.
    rewrite S2 in *. clear S2.
    destruct pr as [|ob pr'].
    + (* the whole edge matches: descend *)
      rewrite app_nil_r in S1. subst mm.
      rewrite lookup_edge_key in LK.
      cbn [trail T] in *. rewrite strip_app.
      assert (SK : skey (pi ++ p) c = skey pi (Edge p c)) by (rewrite skey_nonedge; auto).
      destruct (IH (h - length p) (pi ++ p) kr anc v) as (st' & E & T' & PO & EE); auto; try lia.
      { rewrite SK. unfold Hyp in *. destruct (rev anc) as [|[rho e] ra]; auto.
        destruct HY as (A1 & A2 & A3). repeat split; auto. rewrite app_length. lia. }
      exists st'. rewrite <- in_region in *. split; [exact E|]. split; [exact T'|].
      assert (SK' : skey (pi ++ p) (insert F c kr v) = skey pi (Edge p (insert F c kr v))).
      { rewrite skey_nonedge; auto. apply insert_nonedge; auto. }
      rewrite SK, SK' in PO.
      destruct PO as (P1 & P2 & P3 & dl & P4 & P5).
      split.
      { split; [|split; [|split]]; auto.
        * intros q Q1 Q2. apply P1; auto. intros s. rewrite in_region. apply Q1.
        * exists dl. split; auto. intros NE. destruct (P5 NE) as [s Hs].
          exists (p ++ s). rewrite <- in_region. exact Hs. }
      { intros EN. apply EX_edge in EN. destruct EN as (EN1 & EN2). apply EX_edge.
        split; [apply EE; exact EN1|]. intros s Ns. rewrite P1; [apply EN2; exact Ns| |].
        - intros s0 E0. rewrite in_region in E0. apply app_inv_head in E0. exact (Ns _ E0).
        - intros rho e0 r0 R. unfold Hyp in HY. rewrite R in HY. destruct HY as (_ & _ & A3).
          intros E0. apply (f_equal (@length bool)) in E0. rewrite app_length in E0. lia. }
    + (* divergence inside the edge: new parent at pi ++ mm *)
      destruct kr as [|nb kr']; simpl in L1, L2; [exfalso; lia|].
      subst p. cbn [trail]. rewrite strip_diverge by auto.
      rewrite rev_app_distr. cbn [rev app].
      set (ck := pi ++ mm).
      set (sg := pi ++ mm ++ ob :: pr').
      set (k := pi ++ mm ++ nb :: kr').
      assert (Ek : k = ck ++ nb :: kr') by (unfold k, ck; rewrite <- app_assoc; reflexivity).
      assert (Esg : sg = ck ++ ob :: pr') by (unfold sg, ck; rewrite <- app_assoc; reflexivity).
      cbn [T] in H. fold sg in H.
      destruct (T_top_val _ _ _ _ _ _ C4 C3 H) as (es & Ees & Ves).
      unfold ent. rewrite Ees.
      assert (Eck : common_msbs k sg = ck).
      { rewrite Ek, Esg, common_msbs_app, common_msbs_diverge by auto. apply app_nil_r. }
      assert (Ebit : is_bit_set k (length ck) = nb) by (rewrite Ek; apply is_bit_set_app).
      assert (Erk : rel_path k (Some ck) = kr') by (rewrite Ek; apply rel_path_app).
      assert (Ers : rel_path sg (Some ck) = pr') by (rewrite Esg; apply rel_path_app).
      unfold insert_or_update. rewrite Eck, Ebit.
      replace (rel_path (if nb then sg else k) (Some ck)) with (if nb then pr' else kr') by (destruct nb; auto).
      replace (rel_path (if nb then k else sg) (Some ck)) with (if nb then kr' else pr') by (destruct nb; auto).
      set (cv := ped _ _).
      set (np := mk_fnode cv (Some (if nb then sg else k)) (Some (if nb then k else sg))).
      assert (Lck : length ck = length pi + length mm) by (unfold ck; rewrite app_length; lia).
      assert (Lk : length k = length pi + length mm + S (length kr')) by (unfold k; rewrite !app_length; simpl; lia).
      assert (Lsg : length sg = length pi + length mm + S (length pr')) by (unfold sg; rewrite !app_length; simpl; lia).
      assert (Eob : ob = negb nb) by (destruct ob, nb; try reflexivity; congruence).
      assert (Nsgk : forall s, sg ++ s <> k).
      { intros s. rewrite Esg, Ek.
        replace (ck ++ ob :: pr') with ((ck ++ [ob]) ++ pr') by (rewrite <- app_assoc; reflexivity).
        replace (ck ++ nb :: kr') with ((ck ++ [nb]) ++ kr') by (rewrite <- app_assoc; reflexivity).
        rewrite <- app_assoc. apply app_bit_neq. auto. }
      assert (Nsgck : forall s, sg ++ s <> ck).
      { intros s E. apply (f_equal (@length bool)) in E. rewrite app_length in E. lia. }
      assert (Nkck : k <> ck) by (intro E; apply (f_equal (@length bool)) in E; lia).
      assert (SKold : skey pi (Edge (mm ++ ob :: pr') c) = sg) by reflexivity.
      assert (SKnew : skey pi (wrap F mm (mkbin F nb (wrap F kr' (Leaf v)) (wrap F pr' c))) = ck).
      { apply skey_wrap. apply mkbin_nonedge. }
      rewrite SKold, SKnew. rewrite SKold in HY.
      assert (TT : forall m' D', incl (dirty st) D' -> nget m' ck = Some np -> nget m' k = Some (leafn v) ->
                   (forall s, nget m' (sg ++ s) = nget (nodes st) (sg ++ s)) ->
                   T (PI chk D') m' pi (wrap F mm (mkbin F nb (wrap F kr' (Leaf v)) (wrap F pr' c)))).
      { intros m' D' I G1 G2 G3. apply T_wrap. fold ck.
        apply T_newbin with (cv := cv); auto.
        - rewrite G1. unfold np. rewrite <- Eob, <- Ek, <- Esg. reflexivity.
        - rewrite <- Ek. exact G2.
        - rewrite <- Eob, <- Esg. eapply T_frame; [exact G3|]. eapply T_PI_mono; eauto.
        - unfold cv. apply newbin_PI with (D := dirty st) (ob := ob); auto. rewrite <- Esg. exact Ves. }
      unfold Hyp in HY. unfold Post.
      destruct (rev anc) as [|[pk pn] ra] eqn:RA.
      * (* the sibling was the root: the new parent becomes the root *)
        eexists. split; [reflexivity|].
        cbn [nodes dirty root_key set_root set_nodes add_dirty].
        split; [|split; [split; [|split; [|split]]|]].
        -- apply TT.
           ++ apply incl_refl.
           ++ rewrite nget_nput_other by neq. apply nget_nput_same.
           ++ apply nget_nput_same.
           ++ intros s. rewrite !nget_nput_other; auto.
        -- intros q Q1 _. rewrite !nget_nput_other; auto.
           ++ intros ->. apply (Q1 mm). reflexivity.
           ++ intros ->. apply (Q1 (mm ++ nb :: kr')). reflexivity.
        -- intros q Q1 Q2. rewrite !nget_nput_other; auto. intros ->. lia.
        -- reflexivity.
        -- exists []. rewrite app_nil_r. split; auto. intros NE. exfalso. apply NE.
           destruct anc; auto. simpl in RA. destruct (rev anc); discriminate.
        -- intros EN s Hs. rewrite keys_wrap. fold ck. apply keys_newbin.
           destruct (list_eq_dec bool_dec (pi ++ s) ck) as [Q1|Q1]; [left; exact Q1|].
           destruct (list_eq_dec bool_dec (pi ++ s) k) as [Q2|Q2]; [right; left; rewrite <- Ek; exact Q2|].
           right. right. rewrite <- Eob, <- Esg. apply EN. rewrite !nget_nput_other in Hs by auto. exact Hs.
      * (* the sibling has a parent: relink it and mark the new parent dirty *)
        destruct HY as (A1 & A2 & A3).
        assert (Npk1 : pk <> ck) by (intro E; apply (f_equal (@length bool)) in E; lia).
        assert (Npk2 : pk <> k) by (intro E; apply (f_equal (@length bool)) in E; lia).
        assert (Npk3 : forall s, sg ++ s <> pk).
        { intros s E. apply (f_equal (@length bool)) in E. rewrite app_length in E. lia. }
        eexists. split; [reflexivity|].
        cbn [nodes dirty root_key set_root set_nodes add_dirty].
        fold (relink pn sg ck).
        split; [|split; [split; [|split; [|split]]|]].
        -- apply TT.
           ++ apply incl_appl, incl_refl.
           ++ do 2 rewrite nget_nput_other by neq. apply nget_nput_same.
           ++ apply nget_nput_same.
           ++ intros s. rewrite !nget_nput_other; auto.
        -- intros q Q1 Q2. rewrite !nget_nput_other; auto.
           ++ intros ->. apply (Q1 mm). reflexivity.
           ++ eapply Q2; reflexivity.
           ++ intros ->. apply (Q1 (mm ++ nb :: kr')). reflexivity.
        -- intros q Q1 Q2. rewrite !nget_nput_other; auto; intros ->; lia.
        -- split; [reflexivity|]. rewrite nget_nput_other, nget_nput_same; auto.
        -- exists [ck]. split; auto. intros _. exists mm. left. reflexivity.
        -- intros EN s Hs. rewrite keys_wrap. fold ck. apply keys_newbin.
           destruct (list_eq_dec bool_dec (pi ++ s) ck) as [Q1|Q1]; [left; exact Q1|].
           destruct (list_eq_dec bool_dec (pi ++ s) k) as [Q2|Q2]; [right; left; rewrite <- Ek; exact Q2|].
           right. right. rewrite <- Eob, <- Esg. apply EN.
           assert (Q3 : pi ++ s <> pk).
           { intros E0. apply (f_equal (@length bool)) in E0. rewrite app_length in E0. lia. }
           rewrite !nget_nput_other in Hs by auto. exact Hs.
  - (* ---- Bin ---- *)
    apply canon_bin_inv in C. destruct C as (h' & -> & Cl & Cr).
    destruct k' as [|b k'']; [discriminate|]. simpl in L.
    destruct H as ((c & E & HP) & Hl & Hr).
    pose proof (fun (Q : node -> Prop) (Hr : Q r) (Hl : Q l) =>
                  (if b as b0 return Q (if b0 then r else l) then Hr else Hl)) as pick.
    pose proof IHr as IHx. pattern r in IHx.
    match type of IHx with ?Q r => clear IHx; pose proof (pick Q IHr IHl) as IHx end. cbv beta in IHx.
    pose proof Cr as Cx. pattern r in Cx.
    match type of Cx with ?Q r => clear Cx; pose proof (pick Q Cr Cl) as Cx end. cbv beta in Cx.
    assert (LKx : lookup F (if b then r else l) k'' = None) by (destruct b; exact LK).
    assert (Hxx : T (PI chk (dirty st)) (nodes st) (pi ++ [b]) (if b then r else l)) by (destruct b; auto).
    clear pick.
    set (e0 := mk_fnode c (Some (skey (pi ++ [false]) l)) (Some (skey (pi ++ [true]) r))) in *.
    cbn [trail]. unfold ent at 1. rewrite E.
    replace (anc ++ (pi, e0) :: trail (nodes st) (pi ++ [b]) (if b then r else l) k'')
      with ((anc ++ [(pi, e0)]) ++ trail (nodes st) (pi ++ [b]) (if b then r else l) k'')
      by (rewrite <- app_assoc; reflexivity).
    replace (pi ++ b :: k'') with ((pi ++ [b]) ++ k'') by (rewrite <- app_assoc; reflexivity).
    destruct (IHx h' (pi ++ [b]) k'' (anc ++ [(pi, e0)]) v) as (st' & E' & T' & PO & EE); auto; try lia.
    { unfold Hyp. rewrite rev_app_distr. cbn [rev app]. split; [exact E|]. split.
      - unfold e0. cbn [nleft nright]. destruct b; auto.
      - rewrite app_length. simpl. lia. }
    exists st'. split; [exact E'|].
    destruct PO as (P1 & P2 & P3 & dl & P4 & P5).
    rewrite rev_app_distr in P3. cbn [rev app] in P3. destruct P3 as (P3a & P3b).
    unfold e0 in P3b. rewrite relink_bin in P3b.
    assert (SKb : forall y : node, skey pi (Bin l r) = skey pi (if b then Bin l y else Bin y r)) by (destruct b; reflexivity).
    destruct P5 as [s5 Hs5]. { destruct anc; discriminate. }
    assert (DD : dirtydesc (dirty st') pi).
    { exists (b :: s5). split; [discriminate|]. rewrite P4. apply in_or_app. right.
      rewrite <- app_assoc in Hs5. exact Hs5. }
    assert (FR : forall b' s, b' <> b -> nget (nodes st') ((pi ++ [b']) ++ s) = nget (nodes st) ((pi ++ [b']) ++ s)).
    { intros b' s N. apply P1.
      - intros s'. apply app_bit_neq. exact N.
      - intros rho e0' r0 R. rewrite rev_app_distr in R. cbn [rev app] in R. injection R as <- _ _.
        rewrite <- app_assoc. apply app_len_neq. discriminate. }
    assert (INC : incl (dirty st) (dirty st')) by (rewrite P4; apply incl_appl, incl_refl).
    split; [|split].
    + cbn [insert]. destruct b; cbn [T]; (split; [|split]).
      * eexists. split; [exact P3b|]. intros _. right. exact DD.
      * eapply T_frame; [intros s; apply FR; discriminate|]. eapply T_PI_mono; eauto.
      * exact T'.
      * eexists. split; [exact P3b|]. intros _. right. exact DD.
      * exact T'.
      * eapply T_frame; [intros s; apply FR; discriminate|]. eapply T_PI_mono; eauto.
    + replace (skey pi (insert F (Bin l r) (b :: k'') v)) with (skey pi (Bin l r)) by (destruct b; reflexivity).
      unfold Post. split; [|split; [|split]].
      * intros q Q1 Q2. apply P1.
        -- intros s. rewrite <- app_assoc. apply Q1.
        -- intros rho e0' r0 R. rewrite rev_app_distr in R. cbn [rev app] in R. injection R as <- _ _.
           specialize (Q1 []). rewrite app_nil_r in Q1. exact Q1.
      * exact P2.
      * unfold Hyp in HY. destruct (rev anc) as [|[rho e] ra] eqn:RA.
        -- rewrite P3a. exact HY.
        -- destruct HY as (A1 & A2 & A3). split; [exact P3a|].
           rewrite relink_same by exact A2. rewrite <- A1. apply P1.
           ++ intros s E0. apply (f_equal (@length bool)) in E0. rewrite !app_length in E0. simpl in E0. lia.
           ++ intros rho' e0' r0 R. rewrite rev_app_distr in R. cbn [rev app] in R. injection R as <- _ _.
              intros E0. apply (f_equal (@length bool)) in E0. lia.
      * exists dl. split; [exact P4|]. intros _. exists (b :: s5). rewrite <- app_assoc in Hs5. exact Hs5.
    + intros EN. apply EX_bin in EN. destruct EN as (ENl & ENr).
      assert (EXx : EX (nodes st') (pi ++ [b]) (insert F (if b then r else l) k'' v)) by (apply EE; destruct b; auto).
      cbn [insert]. destruct b; apply EX_bin; (split; [|]); auto.
      * eapply EX_frame; [intros s; apply FR; discriminate|exact ENl].
      * eapply EX_frame; [intros s; apply FR; discriminate|exact ENr].
Qed.

(* ------------------------------------------------------------------ *)
(* Put, case updateLeaf (non-zero write to a stored leaf)              *)
(* ------------------------------------------------------------------ *)

Lemma split_app : forall (p k : path), split p (p ++ k) = (p, [], k).
Proof.
  induction p as [|a p IH]; intros k; simpl.
  - destruct k; reflexivity.
  - rewrite eqb_reflx, IH. reflexivity.
Qed.

Lemma update_leaf_T : forall chk D m (n : node) h pi k' v0 v,
  canonb h n = true -> length k' = h -> lookup F n k' = Some v0 ->
  T (PI chk D) m pi n ->
  T (PI chk (D ++ [pi ++ k'])) (nput m (pi ++ k') (leafn v)) pi (insert F n k' v)
  /\ skey pi (insert F n k' v) = skey pi n
  /\ keys pi (insert F n k' v) = keys pi n.
Proof.
  intros chk D m n.
  induction n as [v1|p c IH|l IHl r IHr]; intros h pi k' v0 v C L LK H.
  - apply canon_leaf_inv in C. destruct C as [-> _]. destruct k'; [|discriminate].
    simpl. rewrite app_nil_r. split; [apply nget_nput_same|split; reflexivity].
  - apply canon_edge_inv in C. destruct C as (C1 & C2 & C3 & C4).
    simpl in LK. destruct (strip p k') as [k''|] eqn:S; [|discriminate].
    apply strip_some in S. subst k'. rewrite app_length in L.
    assert (E : insert F (Edge p c) (p ++ k'') v = Edge p (insert F c k'' v)).
    { destruct p as [|a p]; [congruence|]. cbn [insert app].
      change (a :: p ++ k'') with ((a :: p) ++ k''). rewrite split_app. reflexivity. }
    rewrite E. cbn [T] in *.
    destruct (IH (h - length p) (pi ++ p) k'' v0 v) as (A & B & K); auto; try lia.
    rewrite <- app_assoc in A. split; [exact A|split; [reflexivity|exact K]].
  - apply canon_bin_inv in C. destruct C as (h' & -> & Cl & Cr).
    destruct k' as [|b k'']; [discriminate|]. simpl in L, LK.
    destruct H as ((c & E & HP) & Hl & Hr).
    assert (DD : dirtydesc (D ++ [pi ++ b :: k'']) pi).
    { exists (b :: k''). split; [discriminate|]. apply in_or_app. right. left. reflexivity. }
    assert (NE : pi <> pi ++ b :: k'').
    { intro E0. apply (f_equal (@length bool)) in E0. rewrite app_length in E0. simpl in E0. lia. }
    assert (FR : forall b' s, b' <> b ->
              nget (nput m (pi ++ b :: k'') (leafn v)) ((pi ++ [b']) ++ s) = nget m ((pi ++ [b']) ++ s)).
    { intros b' s N. apply nget_nput_other.
      replace (pi ++ b :: k'') with ((pi ++ [b]) ++ k'') by (rewrite <- app_assoc; reflexivity).
      apply app_bit_neq. exact N. }
    assert (INC : incl D (D ++ [pi ++ b :: k''])) by (apply incl_appl, incl_refl).
    replace (pi ++ b :: k'') with ((pi ++ [b]) ++ k'') in * by (rewrite <- app_assoc; reflexivity).
    destruct b; cbn [insert T].
    + destruct (IHr h' (pi ++ [true]) k'' v0 v) as (A & B & K); auto; try lia.
      split; [|split; [reflexivity|cbn [keys]; rewrite K; reflexivity]]. split; [|split].
      * exists c. rewrite nget_nput_other by exact NE. rewrite B. split; auto. intros _. right. exact DD.
      * eapply T_frame; [intros s; apply FR; discriminate|]. eapply T_PI_mono; eauto.
      * exact A.
    + destruct (IHl h' (pi ++ [false]) k'' v0 v) as (A & B & K); auto; try lia.
      split; [|split; [reflexivity|cbn [keys]; rewrite K; reflexivity]]. split; [|split].
      * exists c. rewrite nget_nput_other by exact NE. rewrite B. split; auto. intros _. right. exact DD.
      * exact A.
      * eapply T_frame; [intros s; apply FR; discriminate|]. eapply T_PI_mono; eauto.
Qed.

(* ------------------------------------------------------------------ *)
(* Put, case delete (deleteExistingKey / deleteLast)                   *)
(* ------------------------------------------------------------------ *)

Lemma delete_none : forall (n : node) h k, canonb h n = true -> length k = h ->
  delete F n k = None -> exists v, n = wrap F k (Leaf v).
Proof.
  induction n as [v0|p c IH|l IHl r IHr]; intros h k C L D.
  - apply canon_leaf_inv in C. destruct C as [-> _]. destruct k; [|discriminate]. exists v0. reflexivity.
  - rewrite delete_edge_eq in D.
    destruct (split p k) as [[mm pr] kr] eqn:S.
    apply split_spec in S. destruct S as (S1 & S2 & S3).
    apply canon_edge_inv in C. destruct C as (C1 & C2 & C3 & C4).
    destruct pr as [|ob pr']; [|discriminate].
    rewrite app_nil_r in S1. subst mm. subst k. rewrite app_length in L.
    destruct kr as [|nb kr'].
    + rewrite app_nil_r. replace (h - length p) with 0 in C4 by (simpl in L; lia).
      destruct c as [v|p' c'|l' r']; simpl in C3, C4; try discriminate.
      exists v. destruct p; [congruence|reflexivity].
    + exfalso. destruct (delete F c (nb :: kr')) as [c'|] eqn:Dc.
      * destruct c'; discriminate.
      * destruct (IH (h - length p) (nb :: kr')) as (v & E); auto; [simpl in *; lia|].
        subst c. simpl in C3. discriminate.
  - destruct k as [|b k0].
    + apply canon_bin_inv in C. destruct C as (h' & -> & _). discriminate.
    + rewrite delete_bin_eq in D. destruct (delete F (if b then r else l) k0); discriminate.
Qed.

Lemma T_edge_merge : forall P m pi p (c' n' : node), edge_merge F p (Some c') = Some n' ->
  (T P m pi n' <-> T P m (pi ++ p) c') /\ skey pi n' = skey (pi ++ p) c'.
Proof.
  intros P m pi p c' n' E. unfold skey.
  destruct c' as [v|p' c''|l r]; simpl in E; injection E as <-; cbn [T epath];
    rewrite <- ?app_assoc, ?app_nil_r; split; tauto || reflexivity.
Qed.

Lemma trail_wrap_leaf : forall m rho p v,
  trail m rho (wrap F p (Leaf v)) p = [(rho ++ p, ent m (rho ++ p))].
Proof.
  intros m rho [|a p] v; cbn [wrap trail].
  - rewrite app_nil_r. reflexivity.
  - rewrite <- (app_nil_r (a :: p)) at 2. rewrite strip_app. reflexivity.
Qed.

Lemma lookup_wrap_leaf_self : forall p v, lookup F (wrap F p (Leaf v)) p = Some v.
Proof.
  intros p v. rewrite lookup_wrap. rewrite <- (app_nil_r p) at 2. rewrite lookup_edge_key. reflexivity.
Qed.

Lemma delete_T : forall chk (n : node) st h pi k' anc n',
  canonb h n = true -> length k' = h -> lookup F n k' <> None -> delete F n k' = Some n' ->
  T (PI chk (dirty st)) (nodes st) pi n ->
  Hyp st pi (skey pi n) anc ->
  exists st', delete_last F st (rev (anc ++ trail (nodes st) pi n k')) = Some st'
    /\ T (PI chk (dirty st')) (nodes st') pi n'
    /\ Post st st' pi (skey pi n) (skey pi n') anc (pi ++ k')
    /\ nget (nodes st') (pi ++ k') = None
    /\ (EX (nodes st) pi n -> EX (nodes st') pi n').
Proof.
  intros chk n st.
  induction n as [v0|p c IH|l IHl r IHr]; intros h pi k' anc n' C L LK D H HY.
  - discriminate.
  - (* ---- Edge ---- *)
    rewrite delete_edge_eq in D.
    destruct (split p k') as [[mm pr] kr] eqn:S.
    apply split_spec in S. destruct S as (S1 & S2 & S3).
    apply canon_edge_inv in C. destruct C as (C1 & C2 & C3 & C4).
    assert (L2 := f_equal (@length bool) S2). rewrite app_length in L2. rewrite L in L2.
    destruct pr as [|ob pr'].
    2:{ exfalso. apply LK. subst p k'. destruct kr as [|nb kr'].
        - simpl. rewrite app_nil_r.
          assert (strip (mm ++ ob :: pr') mm = None) as ->; auto.
          clear. induction mm; simpl; auto. rewrite eqb_reflx. auto.
        - simpl. rewrite strip_diverge; auto. }
    rewrite app_nil_r in S1. subst mm. subst k'.
    destruct kr as [|nb kr']; [discriminate|].
    destruct (delete F c (nb :: kr')) as [c'|] eqn:Dc; [|discriminate].
    rewrite lookup_edge_key in LK.
    cbn [trail T] in *. rewrite strip_app.
    assert (SK : skey (pi ++ p) c = skey pi (Edge p c)) by (rewrite skey_nonedge; auto).
    destruct (IH (h - length p) (pi ++ p) (nb :: kr') anc c') as (st' & E & T' & PO & Z & EE); auto; try lia.
    { rewrite SK. unfold Hyp in *. destruct (rev anc) as [|[rho e] ra]; auto.
      destruct HY as (A1 & A2 & A3). repeat split; auto. rewrite app_length. lia. }
    destruct (T_edge_merge (PI chk (dirty st')) (nodes st') pi p c' n' D) as (TE & SE).
    exists st'. rewrite <- in_region in *. split; [exact E|]. split; [apply TE; exact T'|].
    rewrite SK, <- SE in PO.
    destruct PO as (P1 & P2 & P3 & dl & P4 & P5).
    split; [|split; [exact Z|]].
    { split; [|split; [|split]]; auto.
      * intros q Q1 Q2. apply P1; auto. intros s. rewrite in_region. apply Q1.
      * exists dl. split; auto. intros NE. destruct (P5 NE) as [s Hs].
        exists (p ++ s). rewrite <- in_region. exact Hs. }
    { intros EN. apply EX_edge in EN. destruct EN as (EN1 & EN2).
      apply (EX_shift (nodes st') pi p n' c' (keys_edge_merge pi p c' n' D)).
      split; [apply EE; exact EN1|]. intros s Ns. rewrite P1; [apply EN2; exact Ns| |].
      - intros s0 E0. rewrite in_region in E0. apply app_inv_head in E0. exact (Ns _ E0).
      - intros rho e0 r0 R. unfold Hyp in HY. rewrite R in HY. destruct HY as (_ & _ & A3).
        intros E0. apply (f_equal (@length bool)) in E0. rewrite app_length in E0. lia. }
  - (* ---- Bin ---- *)
    apply canon_bin_inv in C. destruct C as (h' & -> & Cl & Cr).
    destruct k' as [|b k'']; [discriminate|]. simpl in L.
    rewrite delete_bin_eq in D.
    destruct H as ((c & E & HP) & Hl & Hr).
    pose proof (fun (Q : node -> Prop) (Hr : Q r) (Hl : Q l) =>
                  (if b as b0 return Q (if b0 then r else l) then Hr else Hl)) as pick.
    pose proof IHr as IHx. pattern r in IHx.
    match type of IHx with ?Q r => clear IHx; pose proof (pick Q IHr IHl) as IHx end. cbv beta in IHx.
    pose proof Cr as Cx. pattern r in Cx.
    match type of Cx with ?Q r => clear Cx; pose proof (pick Q Cr Cl) as Cx end. cbv beta in Cx.
    assert (LKx : lookup F (if b then r else l) k'' <> None) by (destruct b; exact LK).
    assert (Hxx : T (PI chk (dirty st)) (nodes st) (pi ++ [b]) (if b then r else l)) by (destruct b; auto).
    assert (Hoo : T (PI chk (dirty st)) (nodes st) (pi ++ [negb b]) (if b then l else r)) by (destruct b; auto).
    clear pick.
    set (e0 := mk_fnode c (Some (skey (pi ++ [false]) l)) (Some (skey (pi ++ [true]) r))) in *.
    cbn [trail]. unfold ent at 1. rewrite E.
    replace (pi ++ b :: k'') with ((pi ++ [b]) ++ k'') by (rewrite <- app_assoc; reflexivity).
    destruct (delete F (if b then r else l) k'') as [c'|] eqn:Dx.
    + (* the child subtree survives *)
      injection D as <-.
      replace (anc ++ (pi, e0) :: trail (nodes st) (pi ++ [b]) (if b then r else l) k'')
        with ((anc ++ [(pi, e0)]) ++ trail (nodes st) (pi ++ [b]) (if b then r else l) k'')
        by (rewrite <- app_assoc; reflexivity).
      destruct (IHx h' (pi ++ [b]) k'' (anc ++ [(pi, e0)]) c') as (st' & E' & T' & PO & Z & EE); auto; try lia.
      { unfold Hyp. rewrite rev_app_distr. cbn [rev app]. split; [exact E|]. split.
        - unfold e0. cbn [nleft nright]. destruct b; auto.
        - rewrite app_length. simpl. lia. }
      exists st'. split; [exact E'|].
      destruct PO as (P1 & P2 & P3 & dl & P4 & P5).
      rewrite rev_app_distr in P3. cbn [rev app] in P3. destruct P3 as (P3a & P3b).
      unfold e0 in P3b. rewrite relink_bin in P3b.
      destruct P5 as [s5 Hs5]. { destruct anc; discriminate. }
      assert (DD : dirtydesc (dirty st') pi).
      { exists (b :: s5). split; [discriminate|]. rewrite P4. apply in_or_app. right.
        rewrite <- app_assoc in Hs5. exact Hs5. }
      assert (FR : forall s, nget (nodes st') ((pi ++ [negb b]) ++ s) = nget (nodes st) ((pi ++ [negb b]) ++ s)).
      { intros s. apply P1.
        - intros s'. apply app_bit_neq. destruct b; discriminate.
        - intros rho e0' r0 R. rewrite rev_app_distr in R. cbn [rev app] in R. injection R as <- _ _.
          rewrite <- app_assoc. apply app_len_neq. discriminate. }
      assert (INC : incl (dirty st) (dirty st')) by (rewrite P4; apply incl_appl, incl_refl).
      assert (Too : T (PI chk (dirty st')) (nodes st') (pi ++ [negb b]) (if b then l else r)).
      { eapply T_frame; [exact FR|]. eapply T_PI_mono; eauto. }
      split; [|split; [|split; [exact Z|]]].
      * destruct b; cbn [T negb] in *; (split; [|split]); auto.
        -- eexists. split; [exact P3b|]. intros _. right. exact DD.
        -- eexists. split; [exact P3b|]. intros _. right. exact DD.
      * replace (skey pi (if b then Bin l c' else Bin c' r)) with (skey pi (Bin l r)) by (destruct b; reflexivity).
        unfold Post. split; [|split; [|split]].
        -- intros q Q1 Q2. apply P1.
           ++ intros s. rewrite <- app_assoc. apply Q1.
           ++ intros rho e0' r0 R. rewrite rev_app_distr in R. cbn [rev app] in R. injection R as <- _ _.
              specialize (Q1 []). rewrite app_nil_r in Q1. exact Q1.
        -- exact P2.
        -- unfold Hyp in HY. destruct (rev anc) as [|[rho e] ra] eqn:RA.
           ++ rewrite P3a. exact HY.
           ++ destruct HY as (A1 & A2 & A3). split; [exact P3a|].
              rewrite relink_same by exact A2. rewrite <- A1. apply P1.
              ** intros s E0. apply (f_equal (@length bool)) in E0. rewrite !app_length in E0. simpl in E0. lia.
              ** intros rho' e0' r0 R. rewrite rev_app_distr in R. cbn [rev app] in R. injection R as <- _ _.
                 intros E0. apply (f_equal (@length bool)) in E0. lia.
        -- exists dl. split; [exact P4|]. intros _. exists (b :: s5). rewrite <- app_assoc in Hs5. exact Hs5.
      * intros EN. apply EX_bin in EN. destruct EN as (ENl & ENr).
        assert (EXx : EX (nodes st') (pi ++ [b]) c') by (apply EE; destruct b; auto).
        assert (EXo : EX (nodes st') (pi ++ [negb b]) (if b then l else r)).
        { eapply EX_frame; [exact FR|]. destruct b; auto. }
        destruct b; apply EX_bin; cbn [negb] in *; split; auto.
    + (* the child is the leaf itself: the Bin node disappears, its other child moves up *)
      injection D as <-.
      assert (Lx : length k'' = h') by lia.
      destruct (delete_none _ _ _ Cx Lx Dx) as (vx & Ex).
      rewrite Ex. rewrite trail_wrap_leaf.
      set (k := (pi ++ [b]) ++ k'').
      rewrite rev_app_distr. cbn [rev app].
      set (ot := if b then l else r) in *.
      set (tau := skey (pi ++ [negb b]) ot).
      assert (Esib : (if opeqb (nleft e0) (Some k) then nright e0 else nleft e0) = Some tau).
      { unfold e0, tau, ot, k; cbn [nleft nright]. destruct b; cbn [negb].
        - replace (opeqb (Some (skey (pi ++ [false]) l)) (Some ((pi ++ [true]) ++ k''))) with false; auto.
          symmetry. simpl. apply peqb_false. unfold skey. apply app_bit_neq. discriminate.
        - rewrite Ex. rewrite skey_wrap by reflexivity.
          replace (opeqb (Some ((pi ++ [false]) ++ k'')) (Some ((pi ++ [false]) ++ k''))) with true; auto.
          symmetry. apply opeqb_true. reflexivity. }
      unfold delete_last. rewrite Esib.
      assert (Lk : length k = length pi + S (length k'')) by (unfold k; rewrite !app_length; simpl; lia).
      assert (Nkpi : k <> pi) by (intro E0; apply (f_equal (@length bool)) in E0; lia).
      assert (Nok : forall s, (pi ++ [negb b]) ++ s <> k).
      { intros s. unfold k. apply app_bit_neq. destruct b; discriminate. }
      assert (Nopi : forall s, (pi ++ [negb b]) ++ s <> pi).
      { intros s. rewrite <- app_assoc. apply app_len_neq. discriminate. }
      assert (SKold : skey pi (Bin l r) = pi) by (unfold skey; apply app_nil_r).
      assert (SKnew : skey pi (prepend F (negb b) ot) = tau) by apply skey_prepend.
      rewrite SKold, SKnew. rewrite SKold in HY.
      assert (Etau : tau = pi ++ negb b :: epath ot) by (unfold tau, skey; rewrite <- app_assoc; reflexivity).
      unfold Hyp in HY. unfold Post.
      destruct (rev anc) as [|[gk gn] ra] eqn:RA.
      * (* the parent was the root: the sibling becomes the root *)
        eexists. split; [reflexivity|].
        cbn [nodes dirty root_key set_root set_nodes add_dirty].
        split; [|split; [split; [|split; [|split]]|split]].
        -- apply T_prepend. eapply T_frame; [|exact Hoo].
           intros s. rewrite !nget_ndel_other; auto.
        -- intros q Q1 _. rewrite !nget_ndel_other; auto.
           ++ intros ->. apply (Q1 (b :: k'')). unfold k. rewrite <- app_assoc. reflexivity.
           ++ intros ->. apply (Q1 []). rewrite app_nil_r. reflexivity.
        -- intros q Q1 Q2. rewrite !nget_ndel_other; auto. intros ->. lia.
        -- reflexivity.
        -- exists []. rewrite app_nil_r. split; auto. intros NE. exfalso. apply NE.
           destruct anc; auto. simpl in RA. destruct (rev anc); discriminate.
        -- rewrite nget_ndel_other by exact Nkpi. apply nget_ndel_same.
        -- intros EN s Hs. rewrite keys_prepend. apply EX_bin in EN.
           assert (EN' : EX (nodes st) (pi ++ [b]) (if b then r else l) /\ EX (nodes st) (pi ++ [negb b]) ot).
           { unfold ot. destruct b; cbn [negb]; tauto. }
           clear EN. rename EN' into EN.
           destruct s as [|b0 s0].
           { exfalso. apply Hs. rewrite app_nil_r. apply nget_ndel_same. }
           replace (pi ++ b0 :: s0) with ((pi ++ [b0]) ++ s0) in * by (rewrite <- app_assoc; reflexivity).
           assert (Nq : (pi ++ [b0]) ++ s0 <> pi) by (rewrite <- app_assoc; apply app_len_neq; discriminate).
           rewrite nget_ndel_other in Hs by exact Nq.
           destruct (list_eq_dec bool_dec ((pi ++ [b0]) ++ s0) k) as [Qk|Qk].
           { exfalso. apply Hs. rewrite Qk. apply nget_ndel_same. }
           rewrite nget_ndel_other in Hs by exact Qk.
           destruct (bool_dec b0 b) as [->|Nb].
           { exfalso. apply (proj1 EN) in Hs. rewrite Ex, keys_wrap in Hs. destruct Hs as [Hs|[]].
             apply Qk. symmetry. exact Hs. }
           assert (b0 = negb b) as -> by (destruct b0, b; try reflexivity; exfalso; apply Nb; reflexivity).
           apply (proj2 EN). exact Hs.
      * (* grandparent: relink it to the sibling and mark the sibling dirty *)
        destruct HY as (A1 & A2 & A3).
        assert (Ng1 : gk <> pi) by (intro E0; apply (f_equal (@length bool)) in E0; lia).
        assert (Ng2 : gk <> k) by (intro E0; apply (f_equal (@length bool)) in E0; lia).
        assert (Ng3 : forall s, (pi ++ [negb b]) ++ s <> gk).
        { intros s E0. apply (f_equal (@length bool)) in E0. rewrite !app_length in E0. simpl in E0. lia. }
        eexists. split; [reflexivity|].
        cbn [nodes dirty root_key set_root set_nodes add_dirty].
        fold (relink gn pi tau).
        split; [|split; [split; [|split; [|split]]|split]].
        -- apply T_prepend. eapply T_frame; [|eapply T_PI_mono; [|exact Hoo]].
           ++ intros s. rewrite nget_nput_other by auto. rewrite !nget_ndel_other; auto.
           ++ apply incl_appl, incl_refl.
        -- intros q Q1 Q2. rewrite nget_nput_other by (eapply Q2; reflexivity). rewrite !nget_ndel_other; auto.
           ++ intros ->. apply (Q1 (b :: k'')). unfold k. rewrite <- app_assoc. reflexivity.
           ++ intros ->. apply (Q1 []). rewrite app_nil_r. reflexivity.
        -- intros q Q1 Q2. rewrite nget_nput_other by (intros ->; lia). rewrite !nget_ndel_other; auto. intros ->. lia.
        -- split; [reflexivity|]. apply nget_nput_same.
        -- exists [tau]. split; auto. intros _. exists (negb b :: epath ot). left. exact Etau.
        -- rewrite nget_nput_other by neq. rewrite nget_ndel_other by exact Nkpi. apply nget_ndel_same.
        -- intros EN s Hs. rewrite keys_prepend. apply EX_bin in EN.
           assert (EN' : EX (nodes st) (pi ++ [b]) (if b then r else l) /\ EX (nodes st) (pi ++ [negb b]) ot).
           { unfold ot. destruct b; cbn [negb]; tauto. }
           clear EN. rename EN' into EN.
           assert (Ngs : pi ++ s <> gk).
           { intros E0. apply (f_equal (@length bool)) in E0. rewrite app_length in E0. lia. }
           rewrite nget_nput_other in Hs by exact Ngs.
           destruct s as [|b0 s0].
           { exfalso. apply Hs. rewrite app_nil_r. apply nget_ndel_same. }
           replace (pi ++ b0 :: s0) with ((pi ++ [b0]) ++ s0) in * by (rewrite <- app_assoc; reflexivity).
           assert (Nq : (pi ++ [b0]) ++ s0 <> pi) by (rewrite <- app_assoc; apply app_len_neq; discriminate).
           rewrite nget_ndel_other in Hs by exact Nq.
           destruct (list_eq_dec bool_dec ((pi ++ [b0]) ++ s0) k) as [Qk|Qk].
           { exfalso. apply Hs. rewrite Qk. apply nget_ndel_same. }
           rewrite nget_ndel_other in Hs by exact Qk.
           destruct (bool_dec b0 b) as [->|Nb].
           { exfalso. apply (proj1 EN) in Hs. rewrite Ex, keys_wrap in Hs. destruct Hs as [Hs|[]].
             apply Qk. symmetry. exact Hs. }
           assert (b0 = negb b) as -> by (destruct b0, b; try reflexivity; exfalso; apply Nb; reflexivity).
           apply (proj2 EN). exact Hs.
Qed.

(* ------------------------------------------------------------------ *)
(* Put refines update                                                  *)
(* ------------------------------------------------------------------ *)

Notation put := (Trie1.put F fzero ped of_path add_len).
Notation update := (Trie2.update F fzero).

(* no full-length key is stored that is not a key of the tree (what updateLeaf relies on) *)
Definition leaf_exact (h : nat) (m : list (path * fnode)) (t : tree F) : Prop :=
  forall k, length k = h -> nget m k <> None -> get F t k <> None.

(* nothing but the tree's node keys is stored *)
Definition exact1 (m : list (path * fnode)) (t : tree F) : Prop :=
  forall q, nget m q <> None -> match t with Some n => In q (keys [] n) | None => False end.

(* the flat state st represents the tree t; chk = true adds the cached-hash invariant Inv1 *)
Definition repr (chk : bool) (h : nat) (st : fstate) (t : tree F) : Prop :=
  leaf_exact h (nodes st) t /\ exact1 (nodes st) t /\
  match t with
  | None => root_key st = None
  | Some n => root_key st = Some (skey [] n) /\ T (PI chk (dirty st)) (nodes st) [] n
  end.

Lemma leaf_exact_step : forall h t k v m m', canont h t = true -> length k = h ->
  leaf_exact h m t ->
  (forall q, length q = h -> q <> k -> nget m' q = nget m q) ->
  (fzero v = true -> nget m' k = None) ->
  leaf_exact h m' (update t k v).
Proof.
  intros h t k v m m' C L LE A B q Lq Hq.
  rewrite (get_update F fzero h) by auto.
  destruct (list_eq_dec bool_dec k q) as [->|N].
  - destruct (fzero v) eqn:Z; [|discriminate]. rewrite B in Hq; auto.
  - apply LE; auto. rewrite <- A; auto.
Qed.

Lemma update_absent : forall h t k v, canont h t = true -> length k = h ->
  get F t k = None -> fzero v = true -> update t k v = t.
Proof.
  intros h t k v C L G Z. apply (canont_unique F fzero h); auto.
  - apply update_canon; auto.
  - intros q Lq. rewrite (get_update F fzero h) by auto.
    destruct (list_eq_dec bool_dec k q) as [->|N]; auto. rewrite Z. auto.
Qed.

Lemma walk_none : forall fuel m key, walk F (S fuel) m key None [] = Some [].
Proof. reflexivity. Qed.

Theorem put_refines : forall chk h st t k v,
  canont h t = true -> length k = h -> repr chk h st t ->
  exists st', put st k v = Some st' /\ repr chk h st' (update t k v).
Proof.
  intros chk h st t k v C L (LE & EXA & R).
  unfold Trie1.put, update_leaf, nodes_from_root.
  destruct t as [n|].
  - (* non-empty trie *)
    destruct R as (RK & HT). cbn [Trie2.canont] in C.
    assert (EXN : EX (nodes st) [] n) by (intros s Hs; exact (EXA s Hs)).
    destruct (lookup F n k) as [v0|] eqn:LK.
    + (* key present *)
      assert (G : nget (nodes st) k = Some (leafn v0)) by (apply (T_lookup _ _ _ [] k v0 HT LK)).
      destruct (fzero v) eqn:Z.
      * (* delete *)
        rewrite RK. rewrite (walk_T _ _ n h [] k [] _ C L HT) by (auto; lia).
        cbn [app].
        destruct (trail_last (nodes st) n h [] k C L) as (sk & rest & E & A & _).
        rewrite E. rewrite A by congruence. cbn [app]. rewrite peqb_refl.
        rewrite A in E by congruence. cbn [app] in E. rewrite <- E.
        destruct (delete F n k) as [n'|] eqn:D.
        -- destruct (delete_T chk n st h [] k [] n' C L) as (st' & E' & T' & PO & Z' & EE); auto; try congruence.
           exists st'. split; [exact E'|].
           destruct PO as (P1 & P2 & P3 & _).
           split; [|split].
           ++ apply (leaf_exact_step h (Some n) k v (nodes st) (nodes st') C L LE).
              ** intros q Lq Nq. apply P2; simpl; congruence.
              ** intros _. exact Z'.
           ++ unfold Trie2.update. rewrite Z, D. intros q Hq. exact (EE EXN q Hq).
           ++ unfold Trie2.update. rewrite Z, D. split; [exact P3|exact T'].
        -- destruct (delete_none n h k C L D) as (vx & ->).
           rewrite trail_wrap_leaf. cbn [rev app delete_last].
           eexists. split; [reflexivity|].
           split; [|split].
           ++ replace None with (update (Some (wrap F k (Leaf vx))) k v) by (unfold Trie2.update; rewrite Z; auto).
              apply (leaf_exact_step h (Some (wrap F k (Leaf vx))) k v (nodes st) _ C L LE); cbn [nodes set_nodes set_root].
              ** intros q Lq Nq. apply nget_ndel_other; auto.
              ** intros _. apply nget_ndel_same.
           ++ unfold Trie2.update. rewrite Z, D. cbn [nodes set_nodes set_root]. intros q Hq.
              destruct (list_eq_dec bool_dec q k) as [->|Nq].
              ** apply Hq. apply nget_ndel_same.
              ** rewrite nget_ndel_other in Hq by exact Nq. apply EXA in Hq.
                 rewrite keys_wrap in Hq. destruct Hq as [Hq|[]]. apply Nq. symmetry. exact Hq.
           ++ unfold Trie2.update. rewrite Z, D. reflexivity.
      * (* overwrite: updateLeaf *)
        rewrite G.
        eexists. split; [reflexivity|].
        destruct (update_leaf_T chk (dirty st) (nodes st) n h [] k v0 v C L LK HT) as (T' & SK & KK).
        split; [|split].
        -- apply (leaf_exact_step h (Some n) k v (nodes st) _ C L LE); cbn [nodes set_nodes add_dirty].
           ++ intros q Lq Nq. apply nget_nput_other; auto.
           ++ congruence.
        -- unfold Trie2.update. rewrite Z. cbn [nodes set_nodes add_dirty]. intros q Hq. rewrite KK.
           apply EXA. destruct (list_eq_dec bool_dec q k) as [->|Nq]; [congruence|].
           rewrite nget_nput_other in Hq by exact Nq. exact Hq.
        -- unfold Trie2.update. rewrite Z. cbn [nodes dirty root_key set_nodes add_dirty].
           split; [rewrite SK; exact RK|exact T'].
    + (* key absent *)
      assert (G : nget (nodes st) k = None).
      { destruct (nget (nodes st) k) eqn:G; auto. exfalso.
        apply (LE k L); [congruence|]. exact LK. }
      rewrite G.
      replace (if fzero v then None else None) with (@None fstate) by (destruct (fzero v); reflexivity).
      rewrite RK. rewrite (walk_T _ _ n h [] k [] _ C L HT) by (auto; lia).
      cbn [app].
      destruct (trail_last (nodes st) n h [] k C L) as (sk & rest & E & _ & B).
      rewrite E. rewrite peqb_false by (intro E0; apply (B LK); symmetry; exact E0).
      destruct (fzero v) eqn:Z.
      * (* zero to an absent key *)
        exists st. split; [reflexivity|].
        rewrite (update_absent h (Some n) k v); auto. split; [|split]; auto.
      * (* insert *)
        rewrite <- E.
        destruct (insert_T chk n st h [] k [] v C L LK HT) as (st' & E' & T' & PO & EE); [exact RK|].
        exists st'. split; [exact E'|].
        destruct PO as (P1 & P2 & P3 & _).
        split; [|split].
        -- apply (leaf_exact_step h (Some n) k v (nodes st) _ C L LE).
           ++ intros q Lq Nq. apply P2; simpl; congruence.
           ++ congruence.
        -- unfold Trie2.update. rewrite Z. intros q Hq. exact (EE EXN q Hq).
        -- unfold Trie2.update. rewrite Z. split; [exact P3|exact T'].
  - (* empty trie *)
    assert (G : nget (nodes st) k = None).
    { destruct (nget (nodes st) k) eqn:G; auto. exfalso. apply (LE k L); [congruence|reflexivity]. }
    rewrite G, R.
    replace (if fzero v then None else None) with (@None fstate) by (destruct (fzero v); reflexivity).
    rewrite walk_none. cbn [rev]. unfold handle_empty.
    destruct (fzero v) eqn:Z.
    + exists st. split; [reflexivity|]. unfold Trie2.update. rewrite Z. split; [|split]; auto.
    + eexists. split; [reflexivity|].
      split; [|split].
      * apply (leaf_exact_step h None k v (nodes st) _ C L LE); cbn [nodes set_nodes set_root].
        -- intros q Lq Nq. apply nget_nput_other; auto.
        -- congruence.
      * unfold Trie2.update. rewrite Z. cbn [nodes set_nodes set_root]. intros q Hq.
        rewrite keys_wrap. cbn [keys app]. left.
        destruct (list_eq_dec bool_dec q k) as [->|Nq]; [reflexivity|].
        rewrite nget_nput_other in Hq by exact Nq. destruct (EXA q Hq).
      * unfold Trie2.update. rewrite Z. cbn [nodes dirty root_key set_nodes set_root].
        split.
        -- rewrite skey_wrap by reflexivity. reflexivity.
        -- apply T_wrap. cbn [T app]. apply nget_nput_same.
Qed.

(* ------------------------------------------------------------------ *)
(* Hash(): updateValueIfDirty recomputes every stale value             *)
(* ------------------------------------------------------------------ *)

Notation uvid := (Trie1.update_value_if_dirty F ped of_path add_len).
Notation commit := (Trie1.commit F ped of_path add_len f0).

Definition Pfresh (rho : path) (x : node) (c : F) : Prop := c = hash x.

Lemma is_dirty_spec : forall D rho, is_dirty D rho = true <-> dirtydesc D rho.
Proof.
  intros D rho. unfold is_dirty. rewrite existsb_exists. split.
  - intros (dn & I & H). apply andb_true_iff in H. destruct H as [H1 H2].
    apply Nat.ltb_lt in H1. destruct (equal_msbs_prefix rho dn) as [s ->]; auto; [lia|].
    exists s. split; auto. intros ->. rewrite app_nil_r in H1. lia.
  - intros (s & N & I). exists (rho ++ s). split; auto.
    rewrite equal_msbs_app_r, andb_true_r. apply Nat.ltb_lt. rewrite app_length.
    destruct s; [congruence|simpl; lia].
Qed.

Lemma clean_fresh : forall D m pi (n : node), ~ dirtydesc D pi -> T (PI true D) m pi n -> T Pfresh m pi n.
Proof.
  intros D m pi n ND. apply T_mono. intros s x c H.
  destruct (H eq_refl) as [E|E]; [exact E|]. exfalso. apply ND. eapply dirtydesc_up; exact E.
Qed.

Lemma node_hash_unedge : forall h (x : node) (e : fnode), canonb h x = true ->
  nval e = hash (unedge x) -> node_hash e (epath x) = hash x.
Proof.
  intros h [v|p c|l r] e C E; simpl in *; auto.
  apply canon_edge_inv in C. destruct C as (C1 & _).
  destruct p; [congruence|]. unfold Trie1.node_hash. rewrite E. reflexivity.
Qed.

Lemma commit_T : forall h D (n : node) h' pi fuel m,
  canonb h' n = true -> length pi + h' = h -> T (PI true D) m pi n -> h' < fuel ->
  exists m' e', uvid fuel h D m (skey pi n) = Some (m', e') /\ nval e' = hash (unedge n)
    /\ T Pfresh m' pi n
    /\ (forall q, (forall s, q <> pi ++ s) -> nget m' q = nget m q)
    /\ (forall q, length q = h -> nget m' q = nget m q)
    /\ (forall q, nget m' q <> None -> nget m q <> None).
Proof.
  intros h D n.
  induction n as [v|p c IH|l IHl r IHr]; intros h' pi fuel m C L H Fu.
  - apply canon_leaf_inv in C. destruct C as [-> _].
    unfold skey. simpl epath. rewrite app_nil_r. simpl in H.
    destruct fuel as [|fuel]; [lia|]. cbn [Trie1.update_value_if_dirty]. rewrite H.
    replace (length pi =? h) with true by (symmetry; apply Nat.eqb_eq; lia).
    exists m, (leafn v). repeat split; auto.
  - apply canon_edge_inv in C. destruct C as (C1 & C2 & C3 & C4).
    cbn [T] in H.
    replace (skey pi (Edge p c)) with (skey (pi ++ p) c) by (rewrite skey_nonedge; auto).
    destruct (IH (h' - length p) (pi ++ p) fuel m) as (m' & e' & E & V & T' & FR & LF & DM); auto; try lia.
    { rewrite app_length. lia. }
    exists m', e'. split; [exact E|]. split.
    { rewrite V. destruct c; simpl in C3; try discriminate; reflexivity. }
    split; [exact T'|]. split; [|split; [exact LF|exact DM]].
    intros q Q. apply FR. intros s. rewrite in_region. apply Q.
  - apply canon_bin_inv in C. destruct C as (h'' & -> & Cl & Cr).
    destruct H as ((c & E & HP) & Hl & Hr).
    unfold skey. simpl epath. rewrite app_nil_r.
    destruct fuel as [|fuel]; [lia|]. cbn [Trie1.update_value_if_dirty]. rewrite E.
    replace (length pi =? h) with false by (symmetry; apply Nat.eqb_neq; lia).
    cbn [nleft nright].
    destruct (is_dirty D pi) eqn:ID; cbn [negb].
    + (* recompute *)
      destruct (IHl h'' (pi ++ [false]) fuel m) as (m1 & lc & E1 & V1 & T1 & FR1 & LF1 & DM1); auto; try lia.
      { rewrite app_length. simpl. lia. }
      rewrite E1.
      assert (Hr1 : T (PI true D) m1 (pi ++ [true]) r).
      { eapply T_frame; [|exact Hr]. intros s. apply FR1. intros s'. apply app_bit_neq. discriminate. }
      destruct (IHr h'' (pi ++ [true]) fuel m1) as (m2 & rc & E2 & V2 & T2 & FR2 & LF2 & DM2); auto; try lia.
      { rewrite app_length. simpl. lia. }
      rewrite E2.
      assert (RL : rel_path (skey (pi ++ [false]) l) (Some pi) = epath l).
      { unfold skey. rewrite <- app_assoc. apply rel_path_app. }
      assert (RR : rel_path (skey (pi ++ [true]) r) (Some pi) = epath r).
      { unfold skey. rewrite <- app_assoc. apply rel_path_app. }
      rewrite RL, RR.
      rewrite (node_hash_unedge h'' l lc Cl V1), (node_hash_unedge h'' r rc Cr V2).
      eexists. eexists. split; [reflexivity|]. split; [reflexivity|].
      assert (NP : forall b s, (pi ++ [b]) ++ s <> pi).
      { intros b s. rewrite <- app_assoc. apply app_len_neq. discriminate. }
      split; [|split; [|split]].
      * cbn [T]. split; [|split].
        -- eexists. split; [apply nget_nput_same|]. reflexivity.
        -- eapply T_frame; [|exact T1]. intros s. rewrite nget_nput_other by apply NP.
           apply FR2. intros s'. apply app_bit_neq. discriminate.
        -- eapply T_frame; [|exact T2]. intros s. rewrite nget_nput_other by apply NP. reflexivity.
      * intros q Q. rewrite nget_nput_other.
        -- rewrite FR2, FR1; auto; intros s; rewrite <- app_assoc; apply Q.
        -- specialize (Q []). rewrite app_nil_r in Q. exact Q.
      * intros q Lq. rewrite nget_nput_other by (intros ->; lia). rewrite LF2, LF1; auto.
      * intros q Hq. destruct (list_eq_dec bool_dec q pi) as [->|Nq]; [congruence|].
        rewrite nget_nput_other in Hq by exact Nq. apply DM1, DM2, Hq.
    + (* not marked: nothing below is stale *)
      assert (ND : ~ dirtydesc D pi).
      { intros DD. apply is_dirty_spec in DD. congruence. }
      eexists. eexists. split; [reflexivity|]. split.
      { cbn [nval unedge]. destruct (HP eq_refl) as [V|V]; [exact V|contradiction]. }
      split; [|split; [|split]; auto].
      apply (clean_fresh D); auto. cbn [T]. split; [|split]; auto. exists c. split; auto.
Qed.

Theorem commit_fixes : forall h st t, canont h t = true -> repr true h st t ->
  exists st', commit h st = Some (st', root F ped of_path add_len f0 t) /\ repr true h st' t
    /\ match t with None => True | Some n => dirty st' = [] /\ T Pfresh (nodes st') [] n end.
Proof.
  intros h st t C (LE & EXA & R). unfold Trie1.commit.
  destruct t as [n|].
  - destruct R as (RK & HT). cbn [Trie2.canont] in C. rewrite RK.
    destruct (commit_T h (dirty st) n h [] (S (S h)) (nodes st)) as (m' & e' & E & V & T' & FR & LF & DM); auto.
    rewrite E. unfold rel_path.
    replace (node_hash e' (skey [] n)) with (hash n) by (symmetry; apply (node_hash_unedge h); auto).
    eexists. split; [reflexivity|].
    cbn [nodes dirty root_key]. split; [|split; auto].
    split; [|split].
    + intros k Lk Hk. apply LE; [exact Lk|]. rewrite <- LF; auto.
    + intros q Hq. apply EXA. apply DM. exact Hq.
    + split; auto. eapply T_mono; [|exact T']. intros s x c0 H _. left. exact H.
  - rewrite R. exists st. split; [reflexivity|]. split; auto. split; auto.
Qed.

(* ------------------------------------------------------------------ *)
(* headline: the legacy trie computes the root of the Trie2 model      *)
(* ------------------------------------------------------------------ *)

Notation run1 := (Trie1.run1 F fzero ped of_path add_len).
Notation root1 := (Trie1.root1 F ped of_path add_len f0).
Notation root := (Trie2.root F ped of_path add_len f0).

Lemma repr_empty : forall chk h, repr chk h (empty1 F) None.
Proof. intros chk h. split; [|split; [|reflexivity]]; intros k; simpl; congruence. Qed.

Lemma fold_put_refines : forall chk h ops st t, ops_ok F h ops -> canont h t = true -> repr chk h st t ->
  exists st',
    fold_left (fun o kv => match o with Some st => put st (fst kv) (snd kv) | None => None end) ops (Some st) = Some st'
    /\ repr chk h st' (fold_left (fun t kv => update t (fst kv) (snd kv)) ops t).
Proof.
  intros chk h ops. induction ops as [|[k v] ops IH]; intros st t O C R.
  - exists st. auto.
  - assert (Hk := Forall_inv O). assert (O' := Forall_inv_tail O). cbn [fst] in Hk. cbn [fold_left fst snd].
    destruct (put_refines chk h st t k v C Hk R) as (st1 & E & R1).
    rewrite E. apply IH; auto. apply update_canon; auto.
Qed.

(* any sequence of Puts from the empty trie: no error, and the resulting flat state represents the
   tree the Trie2 model reaches, with the cached-hash invariant *)
Theorem run1_repr : forall h ops, ops_ok F h ops ->
  exists st, run1 ops = Some st /\ repr true h st (run F fzero h ops).
Proof.
  intros h ops O. unfold Trie1.run1, run.
  apply (fold_put_refines true h ops (empty1 F) None); auto. apply repr_empty.
Qed.

(* ... hence Hash() after any sequence of Puts returns the root of the Trie2 model's tree *)
Theorem trie1_refines : forall h ops, ops_ok F h ops ->
  root1 h (run1 ops) = Some (root (run F fzero h ops)).
Proof.
  intros h ops O. destruct (run1_repr h ops O) as (st & E & R).
  rewrite E. unfold Trie1.root1.
  destruct (commit_fixes h st _ (run_canon F fzero h ops O) R) as (st' & E' & _).
  rewrite E'. reflexivity.
Qed.

(* Hash() calls interleaved anywhere between the Puts (None = Hash()) change nothing *)
Definition step1 (h : nat) (o : option fstate) (op : option (path * F)) : option fstate :=
  match o with
  | None => None
  | Some st =>
      match op with
      | Some (k, v) => put st k v
      | None => match commit h st with Some (st', _) => Some st' | None => None end
      end
  end.

Definition puts_of (ops : list (option (path * F))) : list (path * F) :=
  flat_map (fun op => match op with Some kv => [kv] | None => [] end) ops.

Lemma fold_step_refines : forall h ops st t, ops_ok F h (puts_of ops) -> canont h t = true -> repr true h st t ->
  exists st', fold_left (step1 h) ops (Some st) = Some st'
    /\ repr true h st' (fold_left (fun t kv => update t (fst kv) (snd kv)) (puts_of ops) t).
Proof.
  intros h ops. induction ops as [|[[k v]|] ops IH]; intros st t O C R.
  - exists st. auto.
  - cbn [puts_of flat_map app] in O. assert (Hk := Forall_inv O). assert (O' := Forall_inv_tail O). cbn [fst] in Hk.
    cbn [fold_left step1 puts_of flat_map app fst snd].
    destruct (put_refines true h st t k v C Hk R) as (st1 & E & R1).
    rewrite E. apply IH; auto. apply update_canon; auto.
  - cbn [fold_left step1 puts_of flat_map app].
    destruct (commit_fixes h st t C R) as (st1 & E & R1 & _).
    rewrite E. apply IH; auto.
Qed.

Theorem trie1_refines_interleaved : forall h ops, ops_ok F h (puts_of ops) ->
  root1 h (fold_left (step1 h) ops (Some (empty1 F))) = Some (root (run F fzero h (puts_of ops))).
Proof.
  intros h ops O.
  destruct (fold_step_refines h ops (empty1 F) None O eq_refl (repr_empty true h)) as (st & E & R).
  rewrite E. unfold Trie1.root1.
  destruct (commit_fixes h st _ (run_canon F fzero h _ O) R) as (st' & E' & _).
  unfold run. rewrite E'. reflexivity.
Qed.

(* ------------------------------------------------------------------ *)
(* the committed node map is a function of the key/value set           *)
(* ------------------------------------------------------------------ *)

Lemma T_fresh_det : forall (n : node) m m' pi, T Pfresh m pi n -> T Pfresh m' pi n ->
  forall q, In q (keys pi n) -> nget m q = nget m' q.
Proof.
  induction n as [v|p c IH|l IHl r IHr]; intros m m' pi H H' q I; simpl in *.
  - destruct I as [<-|[]]. congruence.
  - eapply IH; eauto.
  - destruct H as ((c & E & HP) & Hl & Hr). destruct H' as ((c' & E' & HP') & Hl' & Hr').
    unfold Pfresh in *. destruct I as [<-|I]; [congruence|].
    apply in_app_or in I. destruct I as [I|I]; [eapply IHl|eapply IHr]; eauto.
Qed.

(* Puts, then Hash(): the state left in the database *)
Definition committed (h : nat) (ops : list (path * F)) : option fstate :=
  match run1 ops with
  | Some st => match commit h st with Some (st', _) => Some st' | None => None end
  | None => None
  end.

Theorem committed_determined : forall h ops1 ops2, ops_ok F h ops1 -> ops_ok F h ops2 ->
  run F fzero h ops1 = run F fzero h ops2 ->
  exists st1 st2, committed h ops1 = Some st1 /\ committed h ops2 = Some st2 /\
    root_key st1 = root_key st2 /\ forall q, nget (nodes st1) q = nget (nodes st2) q.
Proof.
  intros h ops1 ops2 O1 O2 ER. unfold committed.
  destruct (run1_repr h ops1 O1) as (s1 & E1 & R1).
  destruct (run1_repr h ops2 O2) as (s2 & E2 & R2).
  rewrite E1, E2. rewrite <- ER in R2.
  destruct (commit_fixes h s1 _ (run_canon F fzero h ops1 O1) R1) as (s1' & C1 & (_ & X1 & K1) & F1).
  destruct (commit_fixes h s2 _ (run_canon F fzero h ops1 O1) R2) as (s2' & C2 & (_ & X2 & K2) & F2).
  rewrite C1, C2. exists s1', s2'. split; [reflexivity|]. split; [reflexivity|].
  destruct (run F fzero h ops1) as [n|].
  - destruct K1 as (K1 & _). destruct K2 as (K2 & _). destruct F1 as (_ & F1). destruct F2 as (_ & F2).
    split; [congruence|]. intros q.
    destruct (in_dec (list_eq_dec bool_dec) q (keys [] n)) as [I|NI].
    + eapply T_fresh_det; eauto.
    + destruct (nget (nodes s1') q) eqn:G1.
      { exfalso. apply NI. apply (X1 q). congruence. }
      destruct (nget (nodes s2') q) eqn:G2; auto.
      exfalso. apply NI. apply (X2 q). congruence.
  - split; [congruence|]. intros q.
    destruct (nget (nodes s1') q) eqn:G1.
    { exfalso. apply (X1 q). congruence. }
    destruct (nget (nodes s2') q) eqn:G2; auto.
    exfalso. apply (X2 q). congruence.
Qed.

End Proofs1.
