(* C01 — core/trie2: persistent Merkle-Patricia trie with edge (path-compressed) and binary nodes.
   Transcription of trie.go insert/delete/update and hasher.go / trienode Hash. Executable; no proofs. *)
From Coq Require Import List Bool Arith.
Import ListNotations.

Section Trie2.
Variable F : Type.                 (* felts / hash values *)
Variable fzero : F -> bool.        (* felt.IsZero *)

Inductive node :=
| Leaf (v : F)                     (* trienode.ValueNode *)
| Edge (p : list bool) (c : node)  (* trienode.EdgeNode: Path (MSB first), Child *)
| Bin (l r : node).                (* trienode.BinaryNode: Children[0], Children[1] *)

(* CommonMSBs + MSBs/LSBs: the common prefix and the two remainders *)
Fixpoint split (p k : list bool) : list bool * list bool * list bool :=
  match p, k with
  | a :: p', b :: k' =>
      if Bool.eqb a b then let '(m, pr, kr) := split p' k' in (a :: m, pr, kr) else ([], p, k)
  | _, _ => ([], p, k)
  end.

(* insert(nil, path, child): the child itself when the path is empty, else a fresh edge *)
Definition wrap (p : list bool) (c : node) : node :=
  match p with [] => c | _ => Edge p c end.

Definition mkbin (bit : bool) (at_bit other : node) : node :=
  if bit then Bin other at_bit else Bin at_bit other.

Fixpoint insert (n : node) (k : list bool) (v : F) : node :=
  match k with
  | [] => Leaf v                                   (* key.Len() == 0: the value node *)
  | kb :: k' =>
      match n with
      | Leaf _ => Leaf v                           (* unreachable for fixed-height keys *)
      | Edge p c =>
          let '(m, pr, kr) := split p k in
          match pr with
          | [] => Edge p (insert c kr v)           (* match.Len() == Path.Len() *)
          | ob :: pr' =>
              match kr with
              | nb :: kr' =>
                  let branch := mkbin nb (wrap kr' (Leaf v)) (wrap pr' c) in
                  wrap m branch
              | [] => Leaf v                       (* key shorter than the edge: unreachable *)
              end
          end
      | Bin l r => if kb then Bin l (insert r k' v) else Bin (insert l k' v) r
      end
  end.

(* delete returns the new subtree (None = nil) *)
Fixpoint delete (n : node) (k : list bool) : option node :=
  match n with
  | Leaf _ => None
  | Edge p c =>
      let '(m, pr, kr) := split p k in
      match pr with
      | _ :: _ => Some n                           (* mismatch: nothing to do *)
      | [] =>
          match kr with
          | [] => None                             (* whole key matched: drop edge and value *)
          | _ :: _ =>
              match delete c kr with
              | Some (Edge p' c') => Some (Edge (p ++ p') c')
              | Some c' => Some (Edge p c')
              | None => None                       (* "child can never be nil": unreachable when canonical *)
              end
          end
      end
  | Bin l r =>
      match k with
      | [] => Some n                               (* unreachable *)
      | b :: k' =>
          match delete (if b then r else l) k' with
          | Some c' => Some (if b then Bin l c' else Bin c' r)
          | None =>
              let other := if b then l else r in
              match other with
              | Edge p' c' => Some (Edge (negb b :: p') c')
              | _ => Some (Edge [negb b] other)
              end
          end
      end
  end.

Definition tree := option node.

(* Trie.update: zero value deletes *)
Definition update (t : tree) (k : list bool) (v : F) : tree :=
  if fzero v then match t with None => None | Some n => delete n k end
  else Some (match t with None => wrap k (Leaf v) | Some n => insert n k v end).

Fixpoint strip (p k : list bool) : option (list bool) :=
  match p, k with
  | [], _ => Some k
  | a :: p', b :: k' => if Bool.eqb a b then strip p' k' else None
  | _ :: _, [] => None
  end.

Fixpoint lookup (n : node) (k : list bool) : option F :=
  match n with
  | Leaf v => match k with [] => Some v | _ => None end
  | Edge p c => match strip p k with Some k' => lookup c k' | None => None end
  | Bin l r => match k with b :: k' => lookup (if b then r else l) k' | [] => None end
  end.

Definition get (t : tree) (k : list bool) : option F :=
  match t with None => None | Some n => lookup n k end.

(* ---------- hashing ---------- *)
Variable ped : F -> F -> F.                 (* the trie's hash function (Pedersen or Poseidon) *)
Variable of_path : list bool -> F.          (* Path.Felt(): the bits as a big-endian number *)
Variable add_len : F -> nat -> F.           (* felt addition of the path length *)
Variable f0 : F.                            (* felt.Zero *)

Fixpoint hash (n : node) : F :=
  match n with
  | Leaf v => v
  | Edge p c => add_len (ped (hash c) (of_path p)) (length p)
  | Bin l r => ped (hash l) (hash r)
  end.

Definition root (t : tree) : F := match t with None => f0 | Some n => hash n end.

(* ---------- canonical form (decidable) ---------- *)
Definition is_edge (n : node) : bool := match n with Edge _ _ => true | _ => false end.

Fixpoint canonb (h : nat) (n : node) : bool :=
  match n with
  | Leaf v => Nat.eqb h 0 && negb (fzero v)
  | Edge p c => negb (Nat.eqb (length p) 0) && Nat.leb (length p) h && negb (is_edge c) && canonb (h - length p) c
  | Bin l r => match h with O => false | S h' => canonb h' l && canonb h' r end
  end.

Definition canont (h : nat) (t : tree) : bool := match t with None => true | Some n => canonb h n end.

(* ---------- the commitment as a function of the key/value set ---------- *)
(* [build h m]: the Starknet Merkle-Patricia tree of the finite map m (keys of length h): split on
   the first bit, compress one-child levels into edges. *)
Definition prepend (b : bool) (n : node) : node :=
  match n with Edge p c => Edge (b :: p) c | _ => Edge [b] n end.

Definition tails (b : bool) (m : list (list bool * F)) : list (list bool * F) :=
  flat_map (fun kv => match fst kv with
                      | x :: k' => if Bool.eqb x b then [(k', snd kv)] else []
                      | [] => []
                      end) m.

Fixpoint build (h : nat) (m : list (list bool * F)) : tree :=
  match h with
  | O => match m with (_, v) :: _ => Some (Leaf v) | [] => None end
  | S h' =>
      match build h' (tails false m), build h' (tails true m) with
      | None, None => None
      | Some a, None => Some (prepend false a)
      | None, Some b => Some (prepend true b)
      | Some a, Some b => Some (Bin a b)
      end
  end.

Definition spec_root (h : nat) (m : list (list bool * F)) : F := root (build h m).

(* the same function with an early exit on empty sub-maps (what the oracle runs; [build] itself
   explores both empty halves at every level). Proved equal in Trie2Proofs.build_fast_eq. *)
Fixpoint build_fast (h : nat) (m : list (list bool * F)) : tree :=
  match m with
  | [] => None
  | _ :: _ =>
      match h with
      | O => match m with (_, v) :: _ => Some (Leaf v) | [] => None end
      | S h' =>
          match build_fast h' (tails false m), build_fast h' (tails true m) with
          | None, None => None
          | Some a, None => Some (prepend false a)
          | None, Some b => Some (prepend true b)
          | Some a, Some b => Some (Bin a b)
          end
      end
  end.

Definition spec_root_fast (h : nat) (m : list (list bool * F)) : F := root (build_fast h m).

End Trie2.

Arguments Leaf {F}. Arguments Edge {F}. Arguments Bin {F}.
