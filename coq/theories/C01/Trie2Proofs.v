(* C01 — core/trie2: proofs about the executable model in Trie2.v.
   insert/delete/update preserve the canonical form and implement the abstract finite-map update;
   canonical trees are determined by their key/value set; build is canonical and represents its
   map; hence any update sequence reaches the spec tree of the resulting map. *)
From Coq Require Import List Bool Arith Lia.
From V Require Import C01.Trie2.
Import ListNotations.

Section Proofs.
Variable F : Type.
Variable fzero : F -> bool.
Notation node := (node F).
Notation canonb := (canonb F fzero).
Notation canont := (canont F fzero).
Notation update := (update F fzero).

(* ------------------------------------------------------------------ *)
(* split / strip                                                       *)
(* ------------------------------------------------------------------ *)

Lemma split_spec : forall p k m pr kr, split p k = (m, pr, kr) ->
  p = m ++ pr /\ k = m ++ kr /\
  match pr, kr with x :: _, y :: _ => x <> y | _, _ => True end.
Proof.
  induction p as [|a p IH]; intros k m pr kr H.
  - simpl in H. inversion H; subst. simpl. auto.
  - destruct k as [|b k].
    + simpl in H. inversion H; subst. simpl. auto.
    + simpl in H. destruct (eqb a b) eqn:E.
      * destruct (split p k) as [[m' pr'] kr'] eqn:S. inversion H; subst.
        apply eqb_prop in E. subst b.
        destruct (IH _ _ _ _ S) as (H1 & H2 & H3). subst p k. simpl. auto.
      * inversion H; subst. simpl. repeat split; auto.
        intro; subst. rewrite eqb_reflx in E. discriminate.
Qed.

Lemma strip_app : forall p k, strip p (p ++ k) = Some k.
Proof.
  induction p as [|a p IH]; intros k; simpl; auto.
  rewrite eqb_reflx. apply IH.
Qed.

Lemma strip_some : forall p k k', strip p k = Some k' -> k = p ++ k'.
Proof.
  induction p as [|a p IH]; intros k k' H; simpl in *.
  - congruence.
  - destruct k as [|b k]; [discriminate|].
    destruct (eqb a b) eqn:E; [|discriminate].
    apply eqb_prop in E. subst b. f_equal. auto.
Qed.

Lemma strip_app_l : forall p q k,
  strip (p ++ q) k = match strip p k with Some k' => strip q k' | None => None end.
Proof.
  induction p as [|a p IH]; intros q k; simpl; auto.
  destruct k as [|b k].
  - destruct q; reflexivity.
  - destruct (eqb a b); auto.
Qed.

(* ------------------------------------------------------------------ *)
(* lookup through edges                                                *)
(* ------------------------------------------------------------------ *)

Lemma lookup_wrap : forall p (c : node) k, lookup F (wrap F p c) k = lookup F (Edge p c) k.
Proof. intros [|a p] c k; reflexivity. Qed.

Lemma lookup_edge_nil : forall (c : node) k, lookup F (Edge [] c) k = lookup F c k.
Proof. reflexivity. Qed.

Lemma lookup_edge_app : forall p q (c : node) k,
  lookup F (Edge (p ++ q) c) k = lookup F (Edge p (Edge q c)) k.
Proof.
  intros. simpl. rewrite strip_app_l. destruct (strip p k); reflexivity.
Qed.

Lemma lookup_edge_key : forall p (c : node) k, lookup F (Edge p c) (p ++ k) = lookup F c k.
Proof. intros. simpl. rewrite strip_app. reflexivity. Qed.

Lemma lookup_edge_cons : forall a p (c : node) b k,
  lookup F (Edge (a :: p) c) (b :: k) = if eqb a b then lookup F (Edge p c) k else None.
Proof. intros. simpl. destruct (eqb a b); reflexivity. Qed.

Lemma lookup_edge_some : forall p (c : node) k v,
  lookup F (Edge p c) k = Some v -> exists k', k = p ++ k' /\ lookup F c k' = Some v.
Proof.
  intros p c k v H. simpl in H. destruct (strip p k) as [k'|] eqn:S; [|discriminate].
  exists k'. split; auto. apply strip_some; auto.
Qed.

Lemma lookup_prepend : forall b (n : node) k,
  lookup F (prepend F b n) k = lookup F (Edge [b] n) k.
Proof.
  intros b [v|p c|l r] k; try reflexivity.
  apply (lookup_edge_app [b] p c k).
Qed.

Lemma lookup_mkbin : forall nb (A B : node) x k,
  lookup F (mkbin F nb A B) (x :: k) = if eqb x nb then lookup F A k else lookup F B k.
Proof. intros [|] A B [|] k; reflexivity. Qed.

(* ------------------------------------------------------------------ *)
(* canonical form: inversion and introduction                          *)
(* ------------------------------------------------------------------ *)

Lemma canon_leaf_inv : forall h v, canonb h (Leaf v) = true -> h = 0 /\ fzero v = false.
Proof.
  intros h v H. simpl in H. apply andb_true_iff in H. destruct H as [A B].
  apply Nat.eqb_eq in A. apply negb_true_iff in B. auto.
Qed.

Lemma canon_edge_inv : forall h p (c : node), canonb h (Edge p c) = true ->
  p <> [] /\ length p <= h /\ is_edge F c = false /\ canonb (h - length p) c = true.
Proof.
  intros h p c H. cbn [Trie2.canonb] in H.
  repeat rewrite andb_true_iff in H. destruct H as [[[A B] C] D].
  apply negb_true_iff in A, C. apply Nat.eqb_neq in A. apply Nat.leb_le in B.
  repeat split; auto. intro; subst; simpl in A; congruence.
Qed.

Lemma canon_edge_intro : forall h p (c : node),
  p <> [] -> length p <= h -> is_edge F c = false -> canonb (h - length p) c = true ->
  canonb h (Edge p c) = true.
Proof.
  intros h p c A B C D. cbn [Trie2.canonb]. rewrite C, D.
  apply Nat.leb_le in B. rewrite B.
  destruct p; [congruence|]. reflexivity.
Qed.

Lemma canon_bin_inv : forall h (l r : node), canonb h (Bin l r) = true ->
  exists h', h = S h' /\ canonb h' l = true /\ canonb h' r = true.
Proof.
  intros h l r H. destruct h as [|h']; simpl in H; [discriminate|].
  apply andb_true_iff in H. exists h'. tauto.
Qed.

Lemma canon_nonedge : forall h (n : node), canonb h n = true -> is_edge F n = false ->
  (h = 0 /\ exists v, n = Leaf v) \/ (exists h' l r, h = S h' /\ n = Bin l r).
Proof.
  intros h [v|p c|l r] H E.
  - left. apply canon_leaf_inv in H. split; [tauto|eauto].
  - discriminate.
  - right. apply canon_bin_inv in H. destruct H as (h' & -> & _). eauto.
Qed.

Lemma wrap_canon : forall p (c : node) h h',
  is_edge F c = false -> canonb h' c = true -> h = length p + h' -> canonb h (wrap F p c) = true.
Proof.
  intros [|a p] c h h' E C ->.
  - exact C.
  - cbn [wrap]. apply canon_edge_intro; auto.
    + discriminate.
    + lia.
    + replace (length (a :: p) + h' - length (a :: p)) with h' by lia. exact C.
Qed.

Lemma prepend_canon : forall b (n : node) h, canonb h n = true -> canonb (S h) (prepend F b n) = true.
Proof.
  intros b [v|p c|l r] h H.
  - cbn [prepend]. apply canon_edge_intro; simpl; auto; try discriminate; try lia.
    rewrite Nat.sub_0_r. exact H.
  - apply canon_edge_inv in H. destruct H as (A & B & C & D).
    cbn [prepend]. apply canon_edge_intro; simpl; auto; try discriminate; try lia.
  - cbn [prepend]. apply canon_edge_intro; simpl; auto; try discriminate; try lia.
    rewrite Nat.sub_0_r. exact H.
Qed.

Lemma mkbin_canon : forall nb (A B : node) h,
  canonb h A = true -> canonb h B = true -> canonb (S h) (mkbin F nb A B) = true.
Proof. intros [|] A B h HA HB; simpl; rewrite HA, HB; reflexivity. Qed.

Lemma mkbin_nonedge : forall nb (A B : node), is_edge F (mkbin F nb A B) = false.
Proof. intros [|] A B; reflexivity. Qed.

(* ------------------------------------------------------------------ *)
(* 1. insert                                                           *)
(* ------------------------------------------------------------------ *)

Lemma wrap_leaf_canon : forall k v, fzero v = false -> canonb (length k) (wrap F k (Leaf v)) = true.
Proof.
  intros k v H.
  apply wrap_canon with (h' := 0); [reflexivity | simpl; rewrite H; reflexivity | lia].
Qed.

Lemma lookup_wrap_leaf : forall k v k', length k' = length k ->
  lookup F (wrap F k (Leaf v)) k' = if list_eq_dec bool_dec k k' then Some v else None.
Proof.
  intros k v k' L. rewrite lookup_wrap. simpl.
  destruct (list_eq_dec bool_dec k k') as [->|N].
  - rewrite <- (app_nil_r k') at 2. rewrite strip_app. reflexivity.
  - destruct (strip k k') as [k''|] eqn:S; auto.
    apply strip_some in S. destruct k''; auto.
    rewrite app_nil_r in S. congruence.
Qed.

Lemma insert_nonedge : forall (n : node) k v, is_edge F n = false -> is_edge F (insert F n k v) = false.
Proof.
  intros [v0|p c|l r] [|kb k] v E; try reflexivity; try discriminate.
  simpl. destruct kb; reflexivity.
Qed.

Lemma insert_canon : forall h (n : node) k v,
  canonb h n = true -> length k = h -> fzero v = false -> canonb h (insert F n k v) = true.
Proof.
  intros h n; revert h.
  induction n as [v0|p c IHc|l IHl r IHr]; intros h k v Hc Hl Hz.
  - apply canon_leaf_inv in Hc. destruct Hc as [-> _].
    destruct k; [|discriminate]. simpl. rewrite Hz. reflexivity.
  - apply canon_edge_inv in Hc. destruct Hc as (A & B & C & D).
    destruct k as [|kb k0].
    { simpl in Hl. subst h. destruct p; [congruence|simpl in B; lia]. }
    cbn [insert].
    destruct (split p (kb :: k0)) as [[m pr] kr] eqn:S.
    apply split_spec in S. destruct S as (S1 & S2 & S3).
    assert (L1 := f_equal (@length bool) S1). assert (L2 := f_equal (@length bool) S2).
    rewrite app_length in L1, L2. rewrite Hl in L2.
    destruct pr as [|ob pr'].
    + rewrite app_nil_r in S1. subst m.
      apply canon_edge_intro; auto.
      * apply insert_nonedge; auto.
      * apply IHc; auto. lia.
    + destruct kr as [|nb kr']; simpl in L1, L2.
      * exfalso. lia.
      * cbv zeta. apply wrap_canon with (h' := S (length kr')); [| |lia].
        { apply mkbin_nonedge. }
        apply mkbin_canon.
        { apply wrap_leaf_canon; auto. }
        apply wrap_canon with (h' := h - length p); auto. lia.
  - apply canon_bin_inv in Hc. destruct Hc as (h' & -> & Cl & Cr).
    destruct k as [|kb k0]; [discriminate|]. simpl in Hl.
    cbn [insert]. destruct kb; cbn [Trie2.canonb].
    + rewrite Cl. rewrite IHr; auto.
    + rewrite Cr. rewrite IHl; auto.
Qed.

Ltac deceq :=
  repeat match goal with
         | |- context [list_eq_dec bool_dec ?a ?b] => destruct (list_eq_dec bool_dec a b)
         end.

Ltac headinv :=
  try match goal with e : _ ++ _ = _ ++ _ |- _ => apply app_inv_head in e end.

Lemma lookup_insert : forall h (n : node) k v k',
  canonb h n = true -> length k = h -> length k' = h ->
  lookup F (insert F n k v) k' = if list_eq_dec bool_dec k k' then Some v else lookup F n k'.
Proof.
  intros h n; revert h.
  induction n as [v0|p c IHc|l IHl r IHr]; intros h k v k' Hc Hl Hl'.
  - apply canon_leaf_inv in Hc. destruct Hc as [-> _].
    destruct k; [|discriminate]. destruct k'; [|discriminate]. simpl.
    deceq; congruence.
  - apply canon_edge_inv in Hc. destruct Hc as (A & B & C & D).
    destruct k as [|kb k0].
    { simpl in Hl. subst h. destruct p; [congruence|simpl in B; lia]. }
    cbn [insert].
    destruct (split p (kb :: k0)) as [[m pr] kr] eqn:S.
    apply split_spec in S. destruct S as (S1 & S2 & S3).
    assert (L1 := f_equal (@length bool) S1). assert (L2 := f_equal (@length bool) S2).
    rewrite app_length in L1, L2. rewrite Hl in L2.
    rewrite S2. clear S2.
    destruct pr as [|ob pr'].
    + rewrite app_nil_r in S1. subst m. simpl in L1.
      cbn [lookup]. destruct (strip p k') as [k''|] eqn:St.
      * apply strip_some in St. subst k'. rewrite app_length in Hl'.
        rewrite (IHc (h - length p)); auto; try lia.
        deceq; try congruence; exfalso; headinv; congruence.
      * deceq; auto. subst k'. rewrite strip_app in St. discriminate.
    + destruct kr as [|nb kr']; simpl in L1, L2.
      * exfalso. lia.
      * cbv zeta. rewrite lookup_wrap. subst p.
        rewrite (lookup_edge_app m (ob :: pr') c k').
        cbn [lookup]. destruct (strip m k') as [k''|] eqn:St.
        2:{ deceq; auto. subst k'. rewrite strip_app in St. discriminate. }
        apply strip_some in St. subst k'. rewrite app_length in Hl'.
        destruct k'' as [|x k3]; simpl in Hl'; [exfalso; lia|].
        rewrite lookup_mkbin.
        change (match strip (ob :: pr') (x :: k3) with
                | Some k'0 => lookup F c k'0 | None => None end)
          with (lookup F (Edge (ob :: pr') c) (x :: k3)).
        rewrite lookup_edge_cons.
        destruct (eqb x nb) eqn:E.
        -- apply eqb_prop in E. subst x.
           assert (eqb ob nb = false) as -> by (apply eqb_false_iff; auto).
           rewrite lookup_wrap_leaf by lia.
           deceq; try congruence; exfalso; headinv; congruence.
        -- apply eqb_false_iff in E.
           assert (eqb ob x = true) as ->.
           { destruct ob, x, nb; try reflexivity; congruence. }
           rewrite lookup_wrap.
           deceq; auto; exfalso; headinv; congruence.
  - apply canon_bin_inv in Hc. destruct Hc as (h' & -> & Cl & Cr).
    destruct k as [|kb k0]; [discriminate|]. simpl in Hl.
    destruct k' as [|x k1]; [discriminate|]. simpl in Hl'.
    cbn [insert].
    destruct kb, x; cbn [lookup];
      try rewrite (IHr h') by (auto; lia); try rewrite (IHl h') by (auto; lia);
      deceq; congruence.
Qed.

(* ------------------------------------------------------------------ *)
(* 2. delete                                                           *)
(* ------------------------------------------------------------------ *)

(* the edge case of delete, after the child has been processed *)
Definition edge_merge (p : list bool) (d : option node) : option node :=
  match d with
  | Some (Edge p' c') => Some (Edge (p ++ p') c')
  | Some c' => Some (Edge p c')
  | None => None
  end.

Lemma delete_edge_eq : forall p (c : node) k,
  delete F (Edge p c) k =
  let '(m, pr, kr) := split p k in
  match pr with
  | _ :: _ => Some (Edge p c)
  | [] => match kr with [] => None | _ :: _ => edge_merge p (delete F c kr) end
  end.
Proof.
  intros. cbn [delete]. destruct (split p k) as [[m pr] kr].
  destruct pr; [destruct kr|]; reflexivity.
Qed.

Lemma delete_bin_eq : forall (l r : node) b k,
  delete F (Bin l r) (b :: k) =
  match delete F (if b then r else l) k with
  | Some c' => Some (if b then Bin l c' else Bin c' r)
  | None => Some (prepend F (negb b) (if b then l else r))
  end.
Proof.
  intros. cbn [delete]. destruct (delete F (if b then r else l) k); auto.
  cbv zeta. destruct (if b then l else r); reflexivity.
Qed.

Lemma edge_merge_canon : forall h p d, p <> [] -> length p <= h ->
  h - length p > 0 ->
  canont (h - length p) d = true -> canont h (edge_merge p d) = true.
Proof.
  intros h p d A B G H. destruct d as [c'|]; [|reflexivity].
  simpl in H. destruct c' as [v'|p' c''|l' r']; simpl edge_merge; cbn [Trie2.canont].
  - apply canon_edge_intro; auto.
  - apply canon_edge_inv in H. destruct H as (A' & B' & C' & D').
    apply canon_edge_intro; auto.
    + destruct p; [congruence|discriminate].
    + rewrite app_length. lia.
    + rewrite app_length. replace (h - (length p + length p')) with (h - length p - length p') by lia.
      exact D'.
  - apply canon_edge_intro; auto.
Qed.

Lemma get_edge_merge : forall p d k,
  get F (edge_merge p d) k = match strip p k with Some k' => get F d k' | None => None end.
Proof.
  intros p d k. destruct d as [[v'|p' c''|l' r']|]; simpl edge_merge; cbn [get].
  - reflexivity.
  - rewrite lookup_edge_app. reflexivity.
  - reflexivity.
  - destruct (strip p k); reflexivity.
Qed.

Lemma delete_canon : forall h (n : node) k, canonb h n = true -> length k = h ->
  canont h (delete F n k) = true.
Proof.
  intros h n; revert h.
  induction n as [v0|p c IHc|l IHl r IHr]; intros h k Hc Hl.
  - reflexivity.
  - rewrite delete_edge_eq.
    destruct (split p k) as [[m pr] kr] eqn:S.
    apply split_spec in S. destruct S as (S1 & S2 & S3).
    destruct pr as [|ob pr']; [|exact Hc].
    destruct kr as [|nb kr']; [reflexivity|].
    apply canon_edge_inv in Hc. destruct Hc as (A & B & C & D).
    rewrite app_nil_r in S1. subst m.
    assert (L2 := f_equal (@length bool) S2). rewrite app_length in L2. simpl in L2.
    apply edge_merge_canon; auto; try lia.
    apply IHc; auto. simpl. lia.
  - apply canon_bin_inv in Hc. destruct Hc as (h' & -> & Cl & Cr).
    destruct k as [|b k0]; [discriminate|]. simpl in Hl.
    rewrite delete_bin_eq.
    destruct (delete F (if b then r else l) k0) as [c'|] eqn:Dl.
    + assert (canonb h' c' = true) as Cc.
      { destruct b; [specialize (IHr h' k0)|specialize (IHl h' k0)];
          rewrite Dl in *; [apply IHr|apply IHl]; auto; lia. }
      destruct b; cbn [Trie2.canont Trie2.canonb]; rewrite Cc; [rewrite Cl|rewrite Cr]; reflexivity.
    + cbn [Trie2.canont]. apply prepend_canon. destruct b; auto.
Qed.

Lemma lookup_delete : forall h (n : node) k k', canonb h n = true -> length k = h -> length k' = h ->
  get F (delete F n k) k' = if list_eq_dec bool_dec k k' then None else lookup F n k'.
Proof.
  intros h n; revert h.
  induction n as [v0|p c IHc|l IHl r IHr]; intros h k k' Hc Hl Hl'.
  - apply canon_leaf_inv in Hc. destruct Hc as [-> _].
    destruct k; [|discriminate]. destruct k'; [|discriminate]. simpl.
    deceq; congruence.
  - rewrite delete_edge_eq.
    destruct (split p k) as [[m pr] kr] eqn:S.
    apply split_spec in S. destruct S as (S1 & S2 & S3).
    apply canon_edge_inv in Hc. destruct Hc as (A & B & C & D).
    assert (L1 := f_equal (@length bool) S1). assert (L2 := f_equal (@length bool) S2).
    rewrite app_length in L1, L2. rewrite Hl in L2.
    destruct pr as [|ob pr'].
    + rewrite app_nil_r in S1. subst m. subst k.
      destruct kr as [|nb kr'].
      * cbn [get]. deceq; auto.
        cbn [lookup]. destruct (strip p k') as [k''|] eqn:St; auto.
        apply strip_some in St. subst k'. rewrite app_length in Hl'. simpl in L2.
        destruct k''; simpl in Hl'; [congruence|exfalso; lia].
      * rewrite get_edge_merge. cbn [lookup].
        destruct (strip p k') as [k''|] eqn:St.
        -- apply strip_some in St. subst k'. rewrite app_length in Hl'.
           rewrite (IHc (h - length p)); auto; try lia.
           deceq; try congruence; exfalso; headinv; congruence.
        -- deceq; reflexivity.
    + cbn [get]. deceq; auto. subst k'. subst p k.
      rewrite lookup_edge_app, lookup_edge_key.
      destruct kr as [|nb kr']; [reflexivity|].
      rewrite lookup_edge_cons.
      assert (eqb ob nb = false) as -> by (apply eqb_false_iff; auto). reflexivity.
  - apply canon_bin_inv in Hc. destruct Hc as (h' & -> & Cl & Cr).
    destruct k as [|b k0]; [discriminate|]. simpl in Hl.
    destruct k' as [|x k1]; [discriminate|]. simpl in Hl'.
    rewrite delete_bin_eq.
    assert (get F (delete F (if b then r else l) k0) k1 =
            if list_eq_dec bool_dec k0 k1 then None else lookup F (if b then r else l) k1) as IH.
    { destruct b; [apply (IHr h')|apply (IHl h')]; auto; lia. }
    destruct (delete F (if b then r else l) k0) as [c'|] eqn:Dl; cbn [get] in *.
    + destruct b, x; cbn [lookup]; try rewrite IH; deceq; congruence.
    + rewrite lookup_prepend, lookup_edge_cons, lookup_edge_nil.
      destruct b, x; cbn [negb eqb lookup]; revert IH; deceq; intros; congruence.
Qed.

(* ------------------------------------------------------------------ *)
(* 3. update                                                           *)
(* ------------------------------------------------------------------ *)

Theorem update_canon : forall h t k v, canont h t = true -> length k = h -> canont h (update t k v) = true.
Proof.
  intros h t k v Hc Hl. unfold Trie2.update.
  destruct (fzero v) eqn:Z.
  - destruct t as [n|]; [|reflexivity]. apply delete_canon; auto.
  - destruct t as [n|]; cbn [Trie2.canont].
    + apply insert_canon; auto.
    + subst h. apply wrap_leaf_canon; auto.
Qed.

Theorem get_update : forall h t k v k', canont h t = true -> length k = h -> length k' = h ->
  get F (update t k v) k' =
    if list_eq_dec bool_dec k k' then (if fzero v then None else Some v) else get F t k'.
Proof.
  intros h t k v k' Hc Hl Hl'. unfold Trie2.update.
  destruct (fzero v) eqn:Z.
  - destruct t as [n|].
    + rewrite (lookup_delete h); auto.
    + simpl. deceq; reflexivity.
  - destruct t as [n|]; cbn [get].
    + apply (lookup_insert h); auto.
    + apply lookup_wrap_leaf. congruence.
Qed.

(* ------------------------------------------------------------------ *)
(* 4. canonical trees are determined by their key/value set            *)
(* ------------------------------------------------------------------ *)

Lemma canon_has_key : forall (n : node) h, canonb h n = true ->
  exists k v, length k = h /\ lookup F n k = Some v.
Proof.
  induction n as [v0|p c IHc|l IHl r IHr]; intros h Hc.
  - apply canon_leaf_inv in Hc. destruct Hc as [-> _]. exists [], v0. auto.
  - apply canon_edge_inv in Hc. destruct Hc as (A & B & C & D).
    destruct (IHc _ D) as (k & v & L & E).
    exists (p ++ k), v. rewrite app_length, lookup_edge_key. split; [lia|auto].
  - apply canon_bin_inv in Hc. destruct Hc as (h' & -> & Cl & Cr).
    destruct (IHl _ Cl) as (k & v & L & E).
    exists (false :: k), v. simpl. auto.
Qed.

Lemma bin_has_keys : forall (l r : node) h b, canonb (S h) (Bin l r) = true ->
  exists k v, length k = h /\ lookup F (Bin l r) (b :: k) = Some v.
Proof.
  intros l r h b Hc. apply canon_bin_inv in Hc. destruct Hc as (h' & E & Cl & Cr).
  injection E as ->.
  destruct b; cbn [lookup]; apply canon_has_key; auto.
Qed.

Lemma edge_bin_differ : forall h p (c l r : node),
  canonb h (Edge p c) = true -> canonb h (Bin l r) = true ->
  exists k, length k = h /\ lookup F (Edge p c) k <> lookup F (Bin l r) k.
Proof.
  intros h p c l r He Hb.
  apply canon_edge_inv in He. destruct He as (A & B & C & D).
  destruct p as [|x p]; [congruence|].
  destruct h as [|h]; [simpl in Hb; discriminate|].
  destruct (bin_has_keys l r h (negb x) Hb) as (k & v & L & E).
  exists (negb x :: k). split; [simpl; lia|].
  rewrite E, lookup_edge_cons. destruct x; simpl; discriminate.
Qed.

Lemma edge_prefix_absurd : forall h p y q (c c' : node),
  canonb h (Edge p c) = true -> canonb h (Edge (p ++ y :: q) c') = true ->
  (forall k, length k = h -> lookup F (Edge p c) k = lookup F (Edge (p ++ y :: q) c') k) -> False.
Proof.
  intros h p y q c c' H1 H2 HL.
  apply canon_edge_inv in H1. destruct H1 as (A & B & C & D).
  apply canon_edge_inv in H2. destruct H2 as (A' & B' & C' & D').
  rewrite app_length in B', D'. simpl in B', D'.
  assert (canonb (h - length p) (Edge (y :: q) c') = true) as He.
  { apply canon_edge_intro; auto; simpl; try discriminate; try lia.
    replace (h - length p - S (length q)) with (h - (length p + S (length q))) by lia. exact D'. }
  destruct (canon_nonedge _ _ D C) as [[Z _]|(h' & l & r & Eh & ->)]; [lia|].
  destruct (edge_bin_differ _ _ _ _ _ He D) as (k & L & N).
  apply N. specialize (HL (p ++ k)).
  rewrite lookup_edge_app, !lookup_edge_key in HL.
  symmetry. apply HL. rewrite app_length. lia.
Qed.

Lemma edge_path_eq : forall h p p' (c c' : node),
  canonb h (Edge p c) = true -> canonb h (Edge p' c') = true ->
  (forall k, length k = h -> lookup F (Edge p c) k = lookup F (Edge p' c') k) -> p = p'.
Proof.
  intros h p p' c c' H1 H2 HL.
  destruct (split p p') as [[m pr] pr'] eqn:S.
  apply split_spec in S. destruct S as (S1 & S2 & S3).
  destruct pr as [|x pr]; destruct pr' as [|y pr'].
  - congruence.
  - exfalso. rewrite app_nil_r in S1. subst m p'.
    exact (edge_prefix_absurd h p y pr' c c' H1 H2 HL).
  - exfalso. rewrite app_nil_r in S2. subst m p.
    apply (edge_prefix_absurd h p' x pr c' c H2 H1).
    intros k L. symmetry. apply HL; auto.
  - exfalso. subst p p'.
    assert (H1' := H1). apply canon_edge_inv in H1'. destruct H1' as (A & B & C & D).
    destruct (canon_has_key _ _ D) as (k & v & L & E).
    specialize (HL ((m ++ x :: pr) ++ k)).
    rewrite lookup_edge_key in HL. rewrite <- app_assoc in HL.
    rewrite lookup_edge_app, lookup_edge_key in HL. simpl app in HL.
    rewrite lookup_edge_cons in HL.
    assert (eqb y x = false) as Eyx by (apply eqb_false_iff; auto).
    rewrite Eyx, E in HL.
    assert (Some v = None) as Abs; [|discriminate].
    apply HL. rewrite app_length in *. simpl in *. rewrite app_length. lia.
Qed.

Theorem canon_unique : forall h (a b : node), canonb h a = true -> canonb h b = true ->
  (forall k, length k = h -> lookup F a k = lookup F b k) -> a = b.
Proof.
  intros h a; revert h.
  induction a as [v0|p c IHc|l IHl r IHr]; intros h b Ha Hb HL.
  - apply canon_leaf_inv in Ha. destruct Ha as [-> _].
    destruct b as [v1|p' c'|l' r'].
    + specialize (HL [] eq_refl). simpl in HL. congruence.
    + apply canon_edge_inv in Hb. destruct Hb as (A & B & _). destruct p'; [congruence|simpl in B; lia].
    + simpl in Hb. discriminate.
  - destruct b as [v1|p' c'|l' r'].
    + apply canon_leaf_inv in Hb. destruct Hb as [-> _].
      apply canon_edge_inv in Ha. destruct Ha as (A & B & _). destruct p; [congruence|simpl in B; lia].
    + assert (p = p') by (eapply edge_path_eq; eauto). subst p'.
      f_equal.
      apply canon_edge_inv in Ha. destruct Ha as (A & B & C & D).
      apply canon_edge_inv in Hb. destruct Hb as (_ & _ & C' & D').
      apply (IHc (h - length p)); auto.
      intros k L. specialize (HL (p ++ k)). rewrite !lookup_edge_key in HL.
      apply HL. rewrite app_length. lia.
    + exfalso. destruct (edge_bin_differ _ _ _ _ _ Ha Hb) as (k & L & N). auto.
  - destruct b as [v1|p' c'|l' r'].
    + apply canon_leaf_inv in Hb. destruct Hb as [-> _]. simpl in Ha. discriminate.
    + exfalso. destruct (edge_bin_differ _ _ _ _ _ Hb Ha) as (k & L & N).
      apply N. symmetry. auto.
    + apply canon_bin_inv in Ha. destruct Ha as (h' & -> & Cl & Cr).
      apply canon_bin_inv in Hb. destruct Hb as (h'' & E & Cl' & Cr'). injection E as <-.
      f_equal.
      * apply (IHl h'); auto. intros k L. apply (HL (false :: k)). simpl. lia.
      * apply (IHr h'); auto. intros k L. apply (HL (true :: k)). simpl. lia.
Qed.

Theorem canont_unique : forall h (a b : tree F), canont h a = true -> canont h b = true ->
  (forall k, length k = h -> get F a k = get F b k) -> a = b.
Proof.
  intros h [a|] [b|] Ha Hb HL; simpl in *.
  - f_equal. eapply canon_unique; eauto.
  - exfalso. destruct (canon_has_key _ _ Ha) as (k & v & L & E).
    rewrite HL in E; auto. discriminate.
  - exfalso. destruct (canon_has_key _ _ Hb) as (k & v & L & E).
    rewrite <- HL in E; auto. discriminate.
  - reflexivity.
Qed.

(* ------------------------------------------------------------------ *)
(* 5. the spec construction                                            *)
(* ------------------------------------------------------------------ *)

Definition wf_map (h : nat) (m : list (list bool * F)) : Prop :=
  NoDup (map fst m) /\ Forall (fun kv => length (fst kv) = h /\ fzero (snd kv) = false) m.
Definition assoc (m : list (list bool * F)) (k : list bool) : option F :=
  match find (fun kv => if list_eq_dec bool_dec (fst kv) k then true else false) m with
  | Some kv => Some (snd kv) | None => None end.

Lemma tails_cons : forall b kv m,
  tails F b (kv :: m) =
  match fst kv with
  | x :: k' => if eqb x b then (k', snd kv) :: tails F b m else tails F b m
  | [] => tails F b m
  end.
Proof.
  intros b [[|x k'] v] m; unfold tails; simpl; auto.
  destruct (eqb x b); reflexivity.
Qed.

Lemma assoc_tails : forall b m k', assoc (tails F b m) k' = assoc m (b :: k').
Proof.
  intros b m k'. induction m as [|[k v] m IH].
  - reflexivity.
  - rewrite tails_cons. unfold assoc in *. cbn [fst snd find].
    destruct k as [|x k].
    + destruct (list_eq_dec bool_dec [] (b :: k')); [discriminate|]. exact IH.
    + destruct (eqb x b) eqn:E.
      * apply eqb_prop in E. subst x. cbn [fst snd find].
        destruct (list_eq_dec bool_dec k k'); destruct (list_eq_dec bool_dec (b :: k) (b :: k'));
          try congruence; auto.
      * apply eqb_false_iff in E.
        destruct (list_eq_dec bool_dec (x :: k) (b :: k')); [congruence|]. exact IH.
Qed.

Lemma in_tails : forall b m k', In k' (map fst (tails F b m)) -> In (b :: k') (map fst m).
Proof.
  intros b m k'. induction m as [|[k v] m IH]; intros H.
  - exact H.
  - rewrite tails_cons in H. cbn [fst snd map] in *.
    destruct k as [|x k]; [right; auto|].
    destruct (eqb x b) eqn:E.
    + apply eqb_prop in E. subst x. simpl in H. destruct H as [->|H]; [left; auto|right; auto].
    + right; auto.
Qed.

Lemma wf_tails : forall h b m, wf_map (S h) m -> wf_map h (tails F b m).
Proof.
  intros h b m [ND FA]. induction m as [|[k v] m IH].
  - split; constructor.
  - cbn [map fst] in ND. inversion ND as [|? ? NI ND']; subst.
    inversion FA as [|? ? [L Z] FA']; subst. cbn [fst snd] in L, Z.
    destruct (IH ND' FA') as [ND1 FA1].
    rewrite tails_cons. cbn [fst snd].
    destruct k as [|x k]; [split; auto|].
    destruct (eqb x b) eqn:E; [|split; auto].
    apply eqb_prop in E. subst x.
    split.
    + cbn [map fst]. constructor.
      * intro HI. apply NI. apply in_tails; auto.
      * exact ND1.
    + constructor; [cbn [fst snd]; simpl in L; split; [lia|exact Z] | exact FA1].
Qed.

Theorem build_canon : forall h m, wf_map h m -> canont h (build F h m) = true.
Proof.
  induction h as [|h IH]; intros m W.
  - destruct m as [|[k v] m]; [reflexivity|].
    destruct W as [_ FA]. inversion FA as [|? ? [L Z] _]; subst.
    simpl in *. rewrite Z. reflexivity.
  - cbn [build].
    assert (Hf := IH _ (wf_tails h false m W)).
    assert (Ht := IH _ (wf_tails h true m W)).
    destruct (build F h (tails F false m)) as [a|]; destruct (build F h (tails F true m)) as [b|];
      cbn [Trie2.canont] in *.
    + cbn [Trie2.canonb]. rewrite Hf, Ht. reflexivity.
    + apply prepend_canon; auto.
    + apply prepend_canon; auto.
    + reflexivity.
Qed.

Theorem get_build : forall h m k, wf_map h m -> length k = h -> get F (build F h m) k = assoc m k.
Proof.
  induction h as [|h IH]; intros m k W L.
  - destruct k; [|discriminate].
    destruct m as [|[k v] m]; [reflexivity|].
    destruct W as [_ FA]. inversion FA as [|? ? [L' Z] _]; subst.
    cbn [fst] in L'. destruct k; [|discriminate].
    unfold assoc. cbn [build get lookup find fst snd].
    destruct (list_eq_dec bool_dec [] []); [reflexivity|congruence].
  - destruct k as [|x k]; [discriminate|]. simpl in L.
    assert (Hf := IH _ k (wf_tails h false m W)).
    assert (Ht := IH _ k (wf_tails h true m W)).
    rewrite assoc_tails in Hf, Ht.
    cbn [build].
    destruct (build F h (tails F false m)) as [a|]; destruct (build F h (tails F true m)) as [b|];
      cbn [get] in *; try rewrite lookup_prepend, lookup_edge_cons, lookup_edge_nil;
      destruct x; cbn [lookup eqb]; try (apply Hf; lia); try (apply Ht; lia).
Qed.

(* ------------------------------------------------------------------ *)
(* 6. headline                                                         *)
(* ------------------------------------------------------------------ *)

Definition run (h : nat) (ops : list (list bool * F)) : tree F :=
  fold_left (fun t kv => update t (fst kv) (snd kv)) ops None.
Definition ops_ok (h : nat) (ops : list (list bool * F)) : Prop := Forall (fun kv => length (fst kv) = h) ops.

Lemma fold_update_canon : forall h ops t, ops_ok h ops -> canont h t = true ->
  canont h (fold_left (fun t kv => update t (fst kv) (snd kv)) ops t) = true.
Proof.
  intros h ops. induction ops as [|[k v] ops IH]; intros t O C.
  - exact C.
  - inversion O; subst. cbn [fold_left]. apply IH; auto.
    apply update_canon; auto.
Qed.

Theorem run_canon : forall h ops, ops_ok h ops -> canont h (run h ops) = true.
Proof.
  intros h ops O. unfold run. apply fold_update_canon; auto.
Qed.

Theorem run_determined_by_map : forall h ops1 ops2, ops_ok h ops1 -> ops_ok h ops2 ->
  (forall k, length k = h -> get F (run h ops1) k = get F (run h ops2) k) -> run h ops1 = run h ops2.
Proof.
  intros h ops1 ops2 O1 O2 HL.
  apply (canont_unique h); auto using run_canon.
Qed.

Theorem run_is_build : forall h ops m, ops_ok h ops -> wf_map h m ->
  (forall k, length k = h -> get F (run h ops) k = assoc m k) -> run h ops = build F h m.
Proof.
  intros h ops m O W HL.
  apply (canont_unique h); auto using run_canon, build_canon.
  intros k L. rewrite HL, get_build; auto.
Qed.

Lemma build_nil : forall h, build F h [] = None.
Proof. induction h as [|h IH]; cbn; [reflexivity|]. rewrite IH. reflexivity. Qed.

Theorem build_fast_eq : forall h m, build_fast F h m = build F h m.
Proof.
  induction h as [|h IH]; intros m; destruct m as [|kv m]; try reflexivity.
  - symmetry. apply build_nil.
  - cbn [build_fast build]. rewrite !IH. reflexivity.
Qed.

End Proofs.
