(* C02 — block acceptance: hashes of transactions, receipts, events, state diff, the commitments and
   the block hash (formats >= 0.13.4 and 0.13.2 <= v < 0.13.4) as hash TERMS over C01's free term
   algebra, and the acceptance decision of SanityCheckNewHeight + Store.
   Transcribed from core/block.go, core/transaction.go, core/receipt.go, core/state_update.go,
   blockchain/blockchain.go, blockchain/statebackend/{block_ops,statebackend,deprecated}.go.
   Executable definitions only; extracted to the oracle. *)
From Coq Require Import List ZArith Bool.
From V Require Import C01.Trie2 C01.Term C01.State.
Import ListNotations.
Open Scope Z_scope.

(* ---------- constants: ASCII strings as big-endian numbers (felt.SetBytes) ---------- *)
Definition c_invoke : Z := 115923154332517.                                        (* "invoke" *)
Definition c_declare : Z := 28258975365558885.                                     (* "declare" *)
Definition c_l1_handler : Z := 510926345461491391292786.                           (* "l1_handler" *)
Definition c_deploy_account : Z := 2036277798190617858034555652763252.             (* "deploy_account" *)
Definition c_block_hash0 : Z := 475725186876893409797969912327711741284550133808.  (* "STARKNET_BLOCK_HASH0" *)
Definition c_block_hash1 : Z := 475725186876893409797969912327711741284550133809.  (* "STARKNET_BLOCK_HASH1" *)
Definition c_gas_prices0 : Z := 475725186876893409797975905086584484877786501936.  (* "STARKNET_GAS_PRICES0" *)
Definition c_state_diff0 : Z := 475725186876893409797990501588545926137486132784.  (* "STARKNET_STATE_DIFF0" *)
Definition c_l1_gas : Z := 83774935613779.                                         (* "L1_GAS" *)
Definition c_l2_gas : Z := 83779230581075.                                         (* "L2_GAS" *)
Definition c_l1_data : Z := 21446383466796097.                                     (* "L1_DATA" *)
Definition felt_P : Z := 2^251 + 17 * 2^192 + 1.

Definition tcs (l : list Z) : list term := map TC l.
Definition tlen {A} (l : list A) : term := TC (Z.of_nat (length l)).

(* ---------- transactions ---------- *)
Record rbound := { rb_amount : Z; rb_price : Z }.       (* MaxAmount uint64, MaxPricePerUnit (low 128 bits are hashed) *)

(* ResourceBounds.Bytes: 0x00 ++ name ++ amount (8 bytes BE) ++ price[16:] (16 bytes BE), as a number *)
Definition rb_felt (name : Z) (r : rbound) : Z :=
  name * 2^192 + (rb_amount r mod 2^64) * 2^128 + rb_price r mod 2^128.

Record v3c := {                                         (* fields shared by all version-3 transactions *)
  v_tip : Z;
  v_l1 : rbound; v_l2 : rbound;
  v_l1d : option rbound;                                (* L1_DATA bounds: present in the map with non-nil price *)
  v_paymaster : list Z;
  v_nonce_da : Z; v_fee_da : Z                          (* DataAvailabilityMode, uint32 *)
}.

Inductive tx :=
| InvokeV0 (q : bool) (contract selector maxfee : Z) (calldata : list Z)
| InvokeV1 (q : bool) (sender maxfee nonce : Z) (calldata : list Z)
| InvokeV3 (q : bool) (sender nonce : Z) (c : v3c) (acct_deploy calldata proof_facts : list Z)
| DeclareV1 (q : bool) (sender maxfee nonce class_hash : Z)
| DeclareV2 (q : bool) (sender maxfee nonce class_hash compiled : Z)
| DeclareV3 (q : bool) (sender nonce : Z) (c : v3c) (acct_deploy : list Z) (class_hash compiled : Z)
| DeployAccountV1 (q : bool) (contract maxfee nonce class_hash salt : Z) (ctor : list Z)
| DeployAccountV3 (q : bool) (contract nonce : Z) (c : v3c) (ctor : list Z) (class_hash salt : Z)
| L1Handler (q : bool) (contract selector nonce : Z) (calldata : list Z)
(* kinds whose hash juno does not recompute (core.TransactionHash returns the declared hash): Deploy,
   Declare v0, L1 handler without nonce. Only "has a signature" and "is an invoke" matter downstream. *)
| Unverified (has_sig : bool).

(* the version felt: the number, plus 2^128 when the query bit is set (Version.AsFelt is hashed as is) *)
Definition ver_felt (v : Z) (q : bool) : term := TC (v + (if q then 2^128 else 0)).

(* dataAvailabilityMode: uint64(fee) + uint64(nonce) << 32 *)
Definition da_pack (fee nonce : Z) : Z := (fee mod 2^32 + (nonce mod 2^32) * 2^32) mod 2^64.

(* tipAndResourcesHash *)
Definition tip_rb_hash (c : v3c) : term :=
  TPosN ([TC (v_tip c); TC (rb_felt c_l1_gas (v_l1 c)); TC (rb_felt c_l2_gas (v_l2 c))]
         ++ match v_l1d c with Some r => [TC (rb_felt c_l1_data r)] | None => [] end).

(* core.TransactionHash; [chain] = network.L2ChainIDFelt() *)
Definition tx_hash (chain : Z) (t : tx) : term :=
  match t with
  | InvokeV0 q contract selector maxfee calldata =>
      TPedN [TC c_invoke; ver_felt 0 q; TC contract; TC selector; TPedN (tcs calldata); TC maxfee; TC chain]
  | InvokeV1 q sender maxfee nonce calldata =>
      TPedN [TC c_invoke; ver_felt 1 q; TC sender; TC 0; TPedN (tcs calldata); TC maxfee; TC chain; TC nonce]
  | InvokeV3 q sender nonce c ad calldata pf =>
      TPosN ([TC c_invoke; ver_felt 3 q; TC sender; tip_rb_hash c; TPosN (tcs (v_paymaster c)); TC chain;
              TC nonce; TC (da_pack (v_fee_da c) (v_nonce_da c)); TPosN (tcs ad); TPosN (tcs calldata)]
             ++ match pf with [] => [] | _ => [TPosN (tcs pf)] end)
  | DeclareV1 q sender maxfee nonce ch =>
      TPedN [TC c_declare; ver_felt 1 q; TC sender; TC 0; TPedN [TC ch]; TC maxfee; TC chain; TC nonce]
  | DeclareV2 q sender maxfee nonce ch compiled =>
      TPedN [TC c_declare; ver_felt 2 q; TC sender; TC 0; TPedN [TC ch]; TC maxfee; TC chain; TC nonce; TC compiled]
  | DeclareV3 q sender nonce c ad ch compiled =>
      TPosN [TC c_declare; ver_felt 3 q; TC sender; tip_rb_hash c; TPosN (tcs (v_paymaster c)); TC chain;
             TC nonce; TC (da_pack (v_fee_da c) (v_nonce_da c)); TPosN (tcs ad); TC ch; TC compiled]
  | DeployAccountV1 q contract maxfee nonce ch salt ctor =>
      TPedN [TC c_deploy_account; ver_felt 1 q; TC contract; TC 0; TPedN (TC ch :: TC salt :: tcs ctor);
             TC maxfee; TC chain; TC nonce]
  | DeployAccountV3 q contract nonce c ctor ch salt =>
      TPosN [TC c_deploy_account; ver_felt 3 q; TC contract; tip_rb_hash c; TPosN (tcs (v_paymaster c)); TC chain;
             TC nonce; TC (da_pack (v_fee_da c) (v_nonce_da c)); TPosN (tcs ctor); TC ch; TC salt]
  | L1Handler q contract selector nonce calldata =>
      TPedN [TC c_l1_handler; ver_felt 0 q; TC contract; TC selector; TPedN (tcs calldata); TC 0; TC chain; TC nonce]
  | Unverified _ => TC 0      (* never compared: see tx_hashes_ok *)
  end.

(* a transaction as it travels in a block: body, signature, declared hash *)
Record txrec := { t_body : tx; t_sig : list Z; t_hash : term }.

(* Transaction.Signature(): L1 handler transactions have none *)
Definition sig_of (t : txrec) : list Z :=
  match t_body t with L1Handler _ _ _ _ _ => [] | Unverified false => [] | _ => t_sig t end.
Definition is_invoke (t : txrec) : bool :=
  match t_body t with InvokeV0 _ _ _ _ _ | InvokeV1 _ _ _ _ _ | InvokeV3 _ _ _ _ _ _ _ => true | _ => false end.
Definition is_unverified (t : txrec) : bool := match t_body t with Unverified _ => true | _ => false end.

(* ---------- commitment tries: height 64, keyed by the index ---------- *)
Definition CH := 64%nat.
Definition ikey (i : nat) : list bool := bits_of_Z CH (Z.of_nat i).
Definition indexed (l : list term) : list (list bool * term) :=
  map (fun iv => (ikey (fst iv), snd iv)) (combine (seq 0 (length l)) l).
Definition commit_root (hf : term -> term -> term) (leaves : list term) : term :=
  spec_root_fast term hf TPath TAddLen (TC 0) CH (indexed leaves).

(* transactionCommitmentPoseidon0134 / 0132 *)
Definition tx_leaf_0134 (t : txrec) : term := TPosN (t_hash t :: tcs (sig_of t)).
Definition tx_leaf_0132 (t : txrec) : term :=
  TPosN (t_hash t :: match sig_of t with [] => [TC 0] | s => tcs s end).
Definition tx_commitment (v0134 : bool) (txs : list txrec) : term :=
  commit_root TPos2 (map (if v0134 then tx_leaf_0134 else tx_leaf_0132) txs).

(* ---------- receipts, events, messages ---------- *)
Record event := { e_from : Z; e_keys : list Z; e_data : list Z }.
Record msg := { m_from : Z; m_to : Z; m_payload : list Z }.     (* L2ToL1Message; To = Ethereum address as a number *)
Record receipt := {
  r_txhash : term;
  r_fee : Z;
  r_msgs : list msg;
  r_revert : option Z;      (* Some k: Reverted with StarknetKeccak(RevertReason) = k (computed by the harness) *)
  r_l1gas : Z; r_l1datagas : Z;   (* TotalGasConsumed.{L1Gas,L1DataGas}; zero when absent *)
  r_events : list event
}.

Definition msg_enc (m : msg) : list term :=
  TC (m_from m) :: TC (m_to m) :: tlen (m_payload m) :: tcs (m_payload m).
Definition msgs_hash (ms : list msg) : term := TPosN (tlen ms :: concat (map msg_enc ms)).

Definition revert_felt (r : receipt) : Z := match r_revert r with Some k => k | None => 0 end.

(* TransactionReceipt.hash: L2 gas consumed is hashed as the constant 0 *)
Definition receipt_hash (r : receipt) : term :=
  TPosN [r_txhash r; TC (r_fee r); msgs_hash (r_msgs r); TC (revert_felt r); TC 0; TC (r_l1gas r); TC (r_l1datagas r)].
Definition receipt_commitment (rs : list receipt) : term := commit_root TPos2 (map receipt_hash rs).

(* eventCommitmentPoseidon: all events of the block in order, each with its receipt's transaction hash *)
Definition event_hash (th : term) (e : event) : term :=
  TPosN (TC (e_from e) :: th :: tlen (e_keys e) :: tcs (e_keys e) ++ tlen (e_data e) :: tcs (e_data e)).
Definition block_events (rs : list receipt) : list (term * event) :=
  flat_map (fun r => map (fun e => (r_txhash r, e)) (r_events r)) rs.
Definition event_commitment (rs : list receipt) : term :=
  commit_root TPos2 (map (fun te => event_hash (fst te) (snd te)) (block_events rs)).

(* transactionCommitmentPedersen (block version < 0.13.2): H(tx hash, H(signature)); before 0.11.1 only invoke
   transactions contribute their signature *)
Definition tx_leaf_ped (v0111 : bool) (t : txrec) : term :=
  TPed (t_hash t) (TPedN (tcs (if v0111 || is_invoke t then sig_of t else []))).
Definition tx_commitment_ped (v0111 : bool) (txs : list txrec) : term := commit_root TPed (map (tx_leaf_ped v0111) txs).

(* eventCommitmentPedersen: the transaction hash is NOT part of the leaf *)
Definition event_hash_ped (e : event) : term := TPedN [TC (e_from e); TPedN (tcs (e_keys e)); TPedN (tcs (e_data e))].
Definition event_commitment_ped (rs : list receipt) : term :=
  commit_root TPed (map (fun te => event_hash_ped (snd te)) (block_events rs)).

(* ---------- state diff ---------- *)
(* Go maps are unordered; every section is hashed in ascending key order (sortedFeltKeys). The model
   takes association lists in any order and sorts them. *)
Fixpoint ins_by {A} (key : A -> Z) (x : A) (l : list A) : list A :=
  match l with
  | [] => [x]
  | y :: r => if Z.leb (key x) (key y) then x :: l else y :: ins_by key x r
  end.
Definition sort_by {A} (key : A -> Z) (l : list A) : list A := fold_right (ins_by key) [] l.

Record sdiff := {
  sd_deployed : list (Z * Z);                 (* address -> class hash *)
  sd_replaced : list (Z * Z);
  sd_nonces : list (Z * Z);
  sd_storage : list (Z * list (Z * Z));       (* address -> key -> value; an address may carry an empty map *)
  sd_declared_v0 : list Z;
  sd_declared_v1 : list (Z * Z);              (* class hash -> compiled class hash *)
  sd_migrated : list (Z * Z)
}.

(* StateDiff.Length *)
Definition sd_length (d : sdiff) : Z :=
  Z.of_nat (fold_right (fun s acc => (length (snd s) + acc)%nat) 0%nat (sd_storage d)
            + length (sd_nonces d) + length (sd_deployed d) + length (sd_declared_v0 d)
            + length (sd_declared_v1 d) + length (sd_replaced d) + length (sd_migrated d))%nat.

Definition pair_enc (kv : Z * Z) : list term := [TC (fst kv); TC (snd kv)].

(* updatedContractsDigest: count = len(deployed)+len(replaced); the entries are the keys of the MERGED map
   (maps.Copy: replaced overrides deployed), sorted *)
Definition merged_updates (d : sdiff) : list (Z * Z) :=
  sort_by fst (fold_left (fun m kv => zset m (fst kv) (snd kv)) (sd_replaced d)
                 (fold_left (fun m kv => zset m (fst kv) (snd kv)) (sd_deployed d) [])).
Definition updated_enc (d : sdiff) : list term :=
  TC (Z.of_nat (length (sd_deployed d) + length (sd_replaced d))) :: concat (map pair_enc (merged_updates d)).

(* declaredClassesDigest: the keys of both maps concatenated and sorted; a key found in declared takes the
   declared value, otherwise the migrated one *)
Definition declared_entries (d : sdiff) : list (Z * Z) :=
  map (fun k => (k, match zget (sd_declared_v1 d) k with
                    | Some c => c
                    | None => match zget (sd_migrated d) k with Some c => c | None => 0 end
                    end))
      (sort_by (fun k => k) (map fst (sd_declared_v1 d) ++ map fst (sd_migrated d))).
Definition declared_enc (d : sdiff) : list term :=
  tlen (declared_entries d) :: concat (map pair_enc (declared_entries d)).

Definition v0_sorted (d : sdiff) : list Z := sort_by (fun k => k) (sd_declared_v0 d).
Definition v0_enc (d : sdiff) : list term := tlen (v0_sorted d) :: tcs (v0_sorted d).

Definition storage_sorted (d : sdiff) : list (Z * list (Z * Z)) :=
  sort_by fst (map (fun s => (fst s, sort_by fst (snd s))) (sd_storage d)).
Definition storage_entry_enc (s : Z * list (Z * Z)) : list term :=
  TC (fst s) :: tlen (snd s) :: concat (map pair_enc (snd s)).
Definition storage_enc (d : sdiff) : list term :=
  tlen (storage_sorted d) :: concat (map storage_entry_enc (storage_sorted d)).

Definition nonces_sorted (d : sdiff) : list (Z * Z) := sort_by fst (sd_nonces d).
Definition nonces_enc (d : sdiff) : list term := tlen (nonces_sorted d) :: concat (map pair_enc (nonces_sorted d)).

(* StateDiff.Hash *)
Definition sd_hash (d : sdiff) : term :=
  TPosN (TC c_state_diff0 :: updated_enc d ++ declared_enc d ++ v0_enc d ++ [TC 1; TC 0] ++ storage_enc d ++ nonces_enc d).

(* the diff as C01's state model applies it *)
Definition to_diff (d : sdiff) : diff :=
  {| d_deployed := sd_deployed d; d_replaced := sd_replaced d; d_nonces := sd_nonces d;
     d_storage := sd_storage d; d_declared := sd_declared_v1 d; d_migrated := sd_migrated d |}.

(* ---------- Sierra class hash (core/class.go SierraClass.Hash composed with what the two producers of a
   core.SierraClass - adapters/sn2core.AdaptSierraClass and adapters/p2p2core.AdaptSierraClass - put into its
   AbiHash / ProgramHash fields: StarknetKeccak of the ABI text and PoseidonArray of the program) ---------- *)
Definition c_contract_class_v : Z := 89470055877985019834276923082200538966.        (* "CONTRACT_CLASS_V" *)

Record entry_point := { ep_selector : Z; ep_index : Z }.     (* SierraEntryPoint: Selector felt, Index uint64 *)
Record sierra := {
  sc_version : list Z;                        (* []byte(SemanticVersion), e.g. "0.1.0" *)
  sc_external : list entry_point;
  sc_l1handler : list entry_point;
  sc_constructor : list entry_point;
  sc_abi : list Z;                            (* []byte(Abi) *)
  sc_program : list Z
}.

(* big-endian number of a byte string (felt.SetBytes, before the reduction modulo P) *)
Definition be_num (bs : list Z) : Z := fold_left (fun acc b => acc * 256 + b) bs 0.
(* felt.NewFromBytes([]byte("CONTRACT_CLASS_V" + SemanticVersion)) *)
Definition version_felt (v : list Z) : Z := (c_contract_class_v * 256 ^ Z.of_nat (length v) + be_num v) mod felt_P.

(* sierraEntryPointsHash: a Poseidon digest fed (selector, index) per entry point = PoseidonArray of the flattening *)
Definition ep_enc (e : entry_point) : list term := [TC (ep_selector e); TC (ep_index e)].
Definition eps_hash (l : list entry_point) : term := TPosN (concat (map ep_enc l)).

(* [kec] = crypto.StarknetKeccak on byte strings: external code, a parameter *)
Definition class_hash (kec : list Z -> Z) (c : sierra) : term :=
  TPosN [TC (version_felt (sc_version c)); eps_hash (sc_external c); eps_hash (sc_l1handler c);
         eps_hash (sc_constructor c); TC (kec (sc_abi c)); TPosN (tcs (sc_program c))].

(* a class definition delivered with a block: Cairo-0 definitions are not verified (VerifyClassHashes skips them) *)
Inductive cdef := Cairo0 | Sierra (c : sierra).

(* ---------- header, block hash ---------- *)
Record header := {
  h_number : Z;
  h_state_root : term;
  h_sequencer : Z;
  h_timestamp : Z;
  h_tx_count : Z; h_event_count : Z;          (* uint64 header fields, NOT recomputed from the lists *)
  h_blob : bool;                              (* L1DAMode == Blob *)
  h_l1_gas_wei : Z; h_l1_gas_fri : Z;
  h_l1_data_wei : Z; h_l1_data_fri : Z;
  h_l2_wei : Z; h_l2_fri : Z;
  h_prices_present : bool;                    (* Header.L1DataGasPrice and Header.L2GasPrice objects are both non-nil *)
  h_version_str : Z;                          (* []byte(ProtocolVersion) as a number *)
  h_ver : Z * Z * Z;                          (* ParseBlockVersion: major, minor, patch *)
  h_parent : term
}.

(* ConcatCounts: 8 bytes tx count, 8 bytes event count, 8 bytes state diff length, 1 byte DA mode (0x80 = blob),
   7 zero bytes; felt.SetBytes reduces modulo P *)
Definition concat_counts (txc evc sdl : Z) (blob : bool) : Z :=
  ((txc mod 2^64) * 2^192 + (evc mod 2^64) * 2^128 + (sdl mod 2^64) * 2^64 + (if blob then 2^63 else 0)) mod felt_P.

Definition gas_prices_hash (h : header) : term :=
  TPosN [TC c_gas_prices0; TC (h_l1_gas_wei h); TC (h_l1_gas_fri h); TC (h_l1_data_wei h); TC (h_l1_data_fri h);
         TC (h_l2_wei h); TC (h_l2_fri h)].

Record block := {
  b_hdr : header;
  b_txs : list txrec;
  b_rcpts : list receipt;
  b_diff : sdiff;
  b_hash : term;                              (* declared: Header.Hash *)
  b_old_root : term;                          (* StateUpdate.OldRoot *)
  b_su_hash : term;                           (* StateUpdate.BlockHash *)
  b_su_new_root : term;                       (* StateUpdate.NewRoot (Header.GlobalStateRoot is h_state_root) *)
  b_classes : list (Z * cdef)                 (* the definitions delivered with the block, by the key they come under *)
}.

Definition counts_term (b : block) : term :=
  TC (concat_counts (h_tx_count (b_hdr b)) (h_event_count (b_hdr b)) (sd_length (b_diff b)) (h_blob (b_hdr b))).

(* post0134Hash *)
Definition block_hash_0134 (b : block) : term :=
  let h := b_hdr b in
  TPosN [TC c_block_hash1; TC (h_number h); h_state_root h; TC (h_sequencer h); TC (h_timestamp h);
         counts_term b; sd_hash (b_diff b); tx_commitment true (b_txs b); event_commitment (b_rcpts b);
         receipt_commitment (b_rcpts b); gas_prices_hash h; TC (h_version_str h); TC 0; h_parent h].

(* Post0132Hash (all optional header fields present) *)
Definition block_hash_0132 (b : block) : term :=
  let h := b_hdr b in
  TPosN [TC c_block_hash0; TC (h_number h); h_state_root h; TC (h_sequencer h); TC (h_timestamp h);
         counts_term b; sd_hash (b_diff b); tx_commitment false (b_txs b); event_commitment (b_rcpts b);
         receipt_commitment (b_rcpts b); TC (h_l1_gas_wei h); TC (h_l1_gas_fri h); TC (h_l1_data_wei h);
         TC (h_l1_data_fri h); TC (h_version_str h); TC 0; h_parent h].

Definition ver_ge (v w : Z * Z * Z) : bool :=
  let '(a, b, c) := v in let '(x, y, z) := w in
  (x <? a) || ((x =? a) && ((y <? b) || ((y =? b) && (z <=? c)))).

(* post07Hash: block version < 0.13.2 and number >= network.First07Block (0 on Sepolia and the integration
   networks; the pre-0.7 format of early mainnet / goerli blocks is outside the model). Version string, gas
   prices, DA mode, receipts and the state diff are NOT hashed; the sequencer address is assumed present. *)
Definition block_hash_post07 (b : block) : term :=
  let h := b_hdr b in
  TPedN [TC (h_number h); h_state_root h; TC (h_sequencer h); TC (h_timestamp h); TC (h_tx_count h);
         tx_commitment_ped (ver_ge (h_ver h) (0, 11, 1)) (b_txs b); TC (h_event_count h);
         event_commitment_ped (b_rcpts b); TC 0; TC 0; h_parent h].

(* pre07Hash: block version < 0.13.2 and number < network.First07Block (mainnet < 833, goerli < 47028; never on
   Sepolia or the integration networks, where First07Block = 0 — hence not part of [block_hash] below, which has
   no network parameter). Only number, root, transaction count, transaction commitment, chain id and parent. *)
Definition block_hash_pre07 (chain : Z) (b : block) : term :=
  let h := b_hdr b in
  TPedN [TC (h_number h); h_state_root h; TC 0; TC 0; TC (h_tx_count h);
         tx_commitment_ped (ver_ge (h_ver h) (0, 11, 1)) (b_txs b); TC 0; TC 0; TC 0; TC 0; TC chain; h_parent h].

(* core.BlockHash dispatch; post0134Hash fails on a header without the two price objects (/repo 6c79775) *)
Definition block_hash (b : block) : option term :=
  let v := h_ver (b_hdr b) in
  if ver_ge v (0, 13, 4) then (if h_prices_present (b_hdr b) then Some (block_hash_0134 b) else None)
  else if ver_ge v (0, 13, 2) then Some (block_hash_0132 b)
  else Some (block_hash_post07 b).

(* CheckBlockVersion: major < 0 or (major = 0 and minor <= 14) *)
Definition version_supported (v : Z * Z * Z) : bool :=
  let '(a, b, _) := v in (a <? 0) || ((a =? 0) && (b <=? 14)).

(* ---------- decidable equality of terms (felt.Equal on evaluated hashes) ---------- *)
Fixpoint term_eqb (a b : term) : bool :=
  match a, b with
  | TC x, TC y => Z.eqb x y
  | TPed a1 a2, TPed b1 b2 => term_eqb a1 b1 && term_eqb a2 b2
  | TPos2 a1 a2, TPos2 b1 b2 => term_eqb a1 b1 && term_eqb a2 b2
  | TPosN l, TPosN m =>
      (fix go (l m : list term) : bool :=
         match l, m with
         | [], [] => true
         | x :: l', y :: m' => term_eqb x y && go l' m'
         | _, _ => false
         end) l m
  | TPedN l, TPedN m =>
      (fix go (l m : list term) : bool :=
         match l, m with
         | [], [] => true
         | x :: l', y :: m' => term_eqb x y && go l' m'
         | _, _ => false
         end) l m
  | TAddLen a1 n, TAddLen b1 m => term_eqb a1 b1 && Nat.eqb n m
  | TPath p, TPath q =>
      (fix go (p q : list bool) : bool :=
         match p, q with
         | [], [] => true
         | x :: p', y :: q' => Bool.eqb x y && go p' q'
         | _, _ => false
         end) p q
  | _, _ => false
  end.

(* ---------- acceptance: SanityCheckNewHeight + Store ---------- *)
(* core.ClassCasmHashMetadata of a Sierra class: block of declaration, declared with the V2 (>= 0.14.1) hash,
   migrated *)
Record casm_meta := { cm_at : Z; cm_v2 : bool; cm_migrated : bool }.

Record chain_state := {
  cs_head : option (Z * term);       (* number and hash of the head; None = empty chain *)
  cs_state : state;                  (* the head state (C01.State) *)
  cs_blocks : list block;            (* everything stored, newest first *)
  cs_casm : list (Z * casm_meta)     (* bucket ClassCasmHashMetadata *)
}.

Definition empty_chain : chain_state := {| cs_head := None; cs_state := empty_state; cs_blocks := []; cs_casm := [] |}.

Definition tx_verified (b : block) : bool := ver_ge (h_ver (b_hdr b)) (0, 11, 0).
Definition pre_0_14 (b : block) : bool := negb (ver_ge (h_ver (b_hdr b)) (0, 14, 0)).

(* updateClassTrie / updateDeclaredClassesTrie (both backends): a class declared by the diff enters the class
   trie only if its definition came with the block *)
Definition has_def (cl : list (Z * cdef)) (k : Z) : bool := existsb (fun kc => Z.eqb (fst kc) k) cl.
Definition to_diff_b (b : block) : diff :=
  let d := b_diff b in
  {| d_deployed := sd_deployed d; d_replaced := sd_replaced d; d_nonces := sd_nonces d;
     d_storage := sd_storage d;
     d_declared := filter (fun kv => has_def (b_classes b) (fst kv)) (sd_declared_v1 d);
     d_migrated := sd_migrated d |}.
(* state.Update: the diff applied to the state the node holds *)
Definition new_state (cs : chain_state) (b : block) : state := apply_diff true (cs_state cs) (to_diff_b b).

(* ---------- what the state layer and the CASM-hash bookkeeping refuse (no hashing involved) ---------- *)
Definition deployed_in (cs : list (Z * contract)) (a : Z) : bool :=
  match zget cs a with Some _ => true | None => false end.
(* state.Update, both backends: a deployed address must be new (ErrContractAlreadyDeployed); a replaced class, a
   nonce, a storage diff need a deployed contract (deployed earlier or by this diff) - except storage of the
   system contracts 0x1 / 0x2, which are created on first write *)
Definition diff_applicable (st : state) (d : sdiff) : bool :=
  let live a := deployed_in (contracts st) a || existsb (fun av => Z.eqb (fst av) a) (sd_deployed d) in
  forallb (fun av => negb (deployed_in (contracts st) (fst av))) (sd_deployed d) &&
  forallb (fun av => live (fst av)) (sd_replaced d) &&
  forallb (fun av => live (fst av)) (sd_nonces d) &&
  forallb (fun asl => live (fst asl) || sys_contract (fst asl)) (sd_storage d).

Definition get_def (cl : list (Z * cdef)) (k : Z) : option cdef :=
  match find (fun kc => Z.eqb (fst kc) k) cl with Some kc => Some (snd kc) | None => None end.
Definition v0141 (b : block) : bool := ver_ge (h_ver (b_hdr b)) (0, 14, 1).
(* storeCasmHashMetadata (blockchain/statebackend/casm_metadata.go; it reads the database as it was BEFORE the
   block): below 0.14.1 every declared class needs a Sierra definition among the delivered classes (its V2
   CASM hash is computed from it); from 0.14.1 on every migrated class must have metadata, not be declared
   with the V2 hash, be declared in an earlier block and not be migrated already *)
Definition casm_ok (cs : chain_state) (b : block) : bool :=
  if v0141 b then
    forallb (fun km => match zget (cs_casm cs) (fst km) with
                       | Some m => negb (cm_v2 m) && (cm_at m <? h_number (b_hdr b)) && negb (cm_migrated m)
                       | None => false
                       end) (sd_migrated (b_diff b))
  else
    forallb (fun kv => match get_def (b_classes b) (fst kv) with Some (Sierra _) => true | _ => false end)
            (sd_declared_v1 (b_diff b)).
Definition new_casm (cs : chain_state) (b : block) : list (Z * casm_meta) :=
  let n := h_number (b_hdr b) in
  let d := b_diff b in
  if v0141 b then
    let m1 := fold_left (fun m kv => zset m (fst kv) {| cm_at := n; cm_v2 := true; cm_migrated := false |})
                        (sd_declared_v1 d) (cs_casm cs) in
    fold_left (fun m km => match zget (cs_casm cs) (fst km) with
                           | Some x => zset m (fst km) {| cm_at := cm_at x; cm_v2 := cm_v2 x; cm_migrated := true |}
                           | None => m
                           end) (sd_migrated d) m1
  else
    fold_left (fun m kv => zset m (fst kv) {| cm_at := n; cm_v2 := false; cm_migrated := false |})
              (sd_declared_v1 d) (cs_casm cs).

(* the chain after storing b *)
Definition next_state (cs : chain_state) (b : block) : chain_state :=
  {| cs_head := Some (h_number (b_hdr b), b_hash b);
     cs_state := new_state cs b;
     cs_blocks := b :: cs_blocks cs;
     cs_casm := new_casm cs b |}.

(* Every comparison juno makes is felt.Equal on EVALUATED hashes. [ev] is the evaluation of hash terms:
   the identity for the free algebra (comparisons are then syntactic: the instance of the injectivity theorems),
   juno's Pedersen / Poseidon for the oracle of the correspondence run (which decides accept / reject with this
   very function on the fields juno was given). [kec] is crypto.StarknetKeccak on byte strings. *)
Section Ev.
Variable ev : term -> term.
Variable kec : list Z -> Z.

Definition eqv (a b : term) : bool := term_eqb (ev a) (ev b).

(* SanityCheckNewHeight, first two comparisons: header vs state update *)
Definition su_ok (b : block) : bool :=
  eqv (b_hash b) (b_su_hash b) && eqv (h_state_root (b_hdr b)) (b_su_new_root b).

(* core.VerifyClassHashes: every delivered Sierra definition hashes to the key it is delivered under *)
Definition class_ok (kc : Z * cdef) : bool :=
  match snd kc with
  | Cairo0 => true
  | Sierra c => eqv (class_hash kec c) (TC (fst kc))
  end.
Definition classes_ok (b : block) : bool := forallb class_ok (b_classes b).

(* verifyBlockSuccession *)
Definition succession_ok (cs : chain_state) (b : block) : bool :=
  version_supported (h_ver (b_hdr b)) &&
  match cs_head cs with
  | None => (h_number (b_hdr b) =? 0) && eqv (h_parent (b_hdr b)) (TC 0)
  | Some (n, hh) => (h_number (b_hdr b) =? n + 1) && eqv (h_parent (b_hdr b)) hh
  end.

(* VerifyBlockHash: receipts pair up with transactions; VerifyTransactions recomputes every hash *)
Fixpoint receipts_match (txs : list txrec) (rs : list receipt) : bool :=
  match txs, rs with
  | [], [] => true
  | t :: txs', r :: rs' => eqv (t_hash t) (r_txhash r) && receipts_match txs' rs'
  | _, _ => false
  end.
(* VerifyTransactions: nothing is recomputed for block versions below 0.11.0, nor for the unverified kinds *)
Definition tx_hashes_ok (chain : Z) (b : block) : bool :=
  negb (tx_verified b) ||
  forallb (fun t => is_unverified t || eqv (tx_hash chain (t_body t)) (t_hash t)) (b_txs b).
Definition block_hash_ok (b : block) : bool :=
  match block_hash b with Some h => eqv h (b_hash b) | None => false end.

(* Both backends open the HEAD's state (the new backend since /repo 14a038f; the legacy one always did) and
   require StateUpdate.OldRoot to be its commitment computed under the NEW block's protocol version
   (verifyComm / verifyStateUpdateRoot); the block hash does not cover OldRoot. The diff applied to it must
   give the declared root. *)
Definition roots_ok (cs : chain_state) (b : block) : bool :=
  eqv (commitment (pre_0_14 b) (cs_state cs)) (b_old_root b) &&
  eqv (commitment (pre_0_14 b) (new_state cs b)) (h_state_root (b_hdr b)).

(* core.VerifyBlockHash alone (what a block without a chain can be checked against) *)
Definition verify_block_hash (chain : Z) (b : block) : bool :=
  receipts_match (b_txs b) (b_rcpts b) && tx_hashes_ok chain b && block_hash_ok b.

Definition accept_ev (chain : Z) (cs : chain_state) (b : block) : option chain_state :=
  if su_ok b && classes_ok b && receipts_match (b_txs b) (b_rcpts b) && tx_hashes_ok chain b && block_hash_ok b
     && succession_ok cs b && diff_applicable (cs_state cs) (b_diff b) && roots_ok cs b && casm_ok cs b
  then Some (next_state cs b)
  else None.

(* store a sequence of blocks; rejected blocks leave the chain as it is *)
Definition push_ev (chain : Z) (cs : chain_state) (b : block) : chain_state :=
  match accept_ev chain cs b with Some cs' => cs' | None => cs end.
Definition run_ev (chain : Z) (bs : list block) : chain_state := fold_left (push_ev chain) bs empty_chain.

(* the key a Sierra definition must be delivered under *)
Definition felt_of (t : term) : Z := match t with TC z => z | _ => -1 end.
Definition class_key (c : sierra) : Z := felt_of (ev (class_hash kec c)).

(* ---------- sealing: complete a block's hashes, linkage, roots and class keys from the model (what the
   harness does with evaluated terms; used by the non-vacuity examples) ---------- *)
Definition seal_ev (chain : Z) (cs : chain_state) (b : block) : block :=
  let txs := map (fun t => {| t_body := t_body t; t_sig := t_sig t;
                            t_hash := if is_unverified t then t_hash t else ev (tx_hash chain (t_body t)) |}) (b_txs b) in
  let rs := map (fun tr => let r := snd tr in
                  {| r_txhash := t_hash (fst tr); r_fee := r_fee r; r_msgs := r_msgs r; r_revert := r_revert r;
                     r_l1gas := r_l1gas r; r_l1datagas := r_l1datagas r; r_events := r_events r |})
                (combine txs (b_rcpts b)) in
  let cls := map (fun kc => match snd kc with Sierra c => (class_key c, Sierra c) | Cairo0 => kc end) (b_classes b) in
  let h := b_hdr b in
  let '(num, par) := match cs_head cs with None => (0, TC 0) | Some (n, hh) => (n + 1, hh) end in
  let b0 := {| b_hdr := h; b_txs := txs; b_rcpts := rs; b_diff := b_diff b; b_hash := TC 0; b_old_root := TC 0;
               b_su_hash := TC 0; b_su_new_root := TC 0; b_classes := cls |} in
  let root := ev (commitment (pre_0_14 b) (new_state cs b0)) in
  let hdr := {| h_number := num; h_state_root := root;
                h_sequencer := h_sequencer h; h_timestamp := h_timestamp h; h_tx_count := h_tx_count h;
                h_event_count := h_event_count h; h_blob := h_blob h;
                h_l1_gas_wei := h_l1_gas_wei h; h_l1_gas_fri := h_l1_gas_fri h; h_l1_data_wei := h_l1_data_wei h;
                h_l1_data_fri := h_l1_data_fri h; h_l2_wei := h_l2_wei h; h_l2_fri := h_l2_fri h;
                h_prices_present := h_prices_present h;
                h_version_str := h_version_str h; h_ver := h_ver h; h_parent := par |} in
  let old := ev (commitment (pre_0_14 b) (cs_state cs)) in
  let b1 := {| b_hdr := hdr; b_txs := txs; b_rcpts := rs; b_diff := b_diff b; b_hash := TC 0;
               b_old_root := old; b_su_hash := TC 0; b_su_new_root := root; b_classes := cls |} in
  match block_hash b1 with
  | Some hh => {| b_hdr := hdr; b_txs := txs; b_rcpts := rs; b_diff := b_diff b; b_hash := ev hh;
                  b_old_root := old; b_su_hash := ev hh; b_su_new_root := root; b_classes := cls |}
  | None => b1
  end.
End Ev.

(* the free-algebra instance: hash terms are compared syntactically (no Sierra definition can verify there: a
   class key is a felt, a class hash a Poseidon term; the class theorems are stated for arbitrary [ev]) *)
Definition tid (t : term) : term := t.
Definition kec0 (_ : list Z) : Z := 0.
Definition accept : Z -> chain_state -> block -> option chain_state := accept_ev tid kec0.
Definition push : Z -> chain_state -> block -> chain_state := push_ev tid kec0.
Definition run : Z -> list block -> chain_state := run_ev tid kec0.
Definition seal : Z -> chain_state -> block -> block := seal_ev tid kec0.
