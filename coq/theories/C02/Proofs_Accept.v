(* C02 — the acceptance decision: soundness of [accept], purity of rejection, rejection of tampered blocks. *)
From Coq Require Import List ZArith Bool Lia.
From V Require Import C01.Term C01.State C02.Model C02.Proofs_Enc C02.Proofs_Trie C02.Proofs_Tx C02.Proofs_Block.
Import ListNotations.
Open Scope Z_scope.

(* ---------- term_eqb decides syntactic equality ---------- *)
Section TermInd.
Variable P : term -> Prop.
Hypothesis HC : forall z, P (TC z).
Hypothesis HPed : forall a b, P a -> P b -> P (TPed a b).
Hypothesis HPos2 : forall a b, P a -> P b -> P (TPos2 a b).
Hypothesis HPosN : forall l, Forall P l -> P (TPosN l).
Hypothesis HPedN : forall l, Forall P l -> P (TPedN l).
Hypothesis HAdd : forall a n, P a -> P (TAddLen a n).
Hypothesis HPath : forall p, P (TPath p).
Fixpoint term_ind2 (t : term) : P t :=
  match t with
  | TC z => HC z
  | TPed a b => HPed a b (term_ind2 a) (term_ind2 b)
  | TPos2 a b => HPos2 a b (term_ind2 a) (term_ind2 b)
  | TPosN l => HPosN l ((fix go (l : list term) : Forall P l :=
                           match l with [] => Forall_nil P | x :: r => Forall_cons x (term_ind2 x) (go r) end) l)
  | TPedN l => HPedN l ((fix go (l : list term) : Forall P l :=
                           match l with [] => Forall_nil P | x :: r => Forall_cons x (term_ind2 x) (go r) end) l)
  | TAddLen a n => HAdd a n (term_ind2 a)
  | TPath p => HPath p
  end.
End TermInd.

Definition list_eqb (l m : list term) : bool :=
  (fix go (l m : list term) : bool :=
     match l, m with
     | [], [] => true
     | x :: l', y :: m' => term_eqb x y && go l' m'
     | _, _ => false
     end) l m.

Lemma list_eqb_true : forall l, Forall (fun a => forall b, term_eqb a b = true -> a = b) l ->
  forall m, list_eqb l m = true -> l = m.
Proof.
  induction 1 as [|x l Hx Hl IH]; intros [|y m] E; simpl in E; try discriminate; auto.
  apply andb_true_iff in E. destruct E as [E1 E2]. f_equal; [apply Hx; exact E1 | apply IH; exact E2].
Qed.

Lemma bits_eqb_true : forall p q : list bool,
  (fix go (p q : list bool) : bool :=
     match p, q with
     | [], [] => true
     | x :: p', y :: q' => Bool.eqb x y && go p' q'
     | _, _ => false
     end) p q = true -> p = q.
Proof.
  induction p as [|x p IH]; intros [|y q] E; try discriminate; auto.
  apply andb_true_iff in E. destruct E as [E1 E2]. apply eqb_prop in E1. f_equal; auto.
Qed.

Theorem term_eqb_true : forall a b, term_eqb a b = true -> a = b.
Proof.
  induction a using term_ind2; intros b E; destruct b; simpl in E; try discriminate.
  - apply Z.eqb_eq in E. congruence.
  - apply andb_true_iff in E. destruct E as [E1 E2]. f_equal; auto.
  - apply andb_true_iff in E. destruct E as [E1 E2]. f_equal; auto.
  - f_equal. apply list_eqb_true; assumption.
  - f_equal. apply list_eqb_true; assumption.
  - apply andb_true_iff in E. destruct E as [E1 E2]. apply Nat.eqb_eq in E2. f_equal; auto.
  - f_equal. apply bits_eqb_true. exact E.
Qed.

(* ---------- soundness of accept ---------- *)
Definition linked (cs : chain_state) (b : block) : Prop :=
  match cs_head cs with
  | None => h_number (b_hdr b) = 0 /\ h_parent (b_hdr b) = TC 0
  | Some (n, hh) => h_number (b_hdr b) = n + 1 /\ h_parent (b_hdr b) = hh
  end.

Lemma succession_ok_linked : forall cs b, succession_ok cs b = true -> linked cs b.
Proof.
  unfold succession_ok, linked. intros cs b H. apply andb_true_iff in H. destruct H as [_ H].
  destruct (cs_head cs) as [[n hh]|]; apply andb_true_iff in H; destruct H as [A B];
    apply Z.eqb_eq in A; apply term_eqb_true in B; auto.
Qed.

Definition tx_recomputes (ch : Z) (t : txrec) : Prop := is_unverified t = true \/ tx_hash ch (t_body t) = t_hash t.

Lemma tx_hashes_ok_sound : forall ch b, tx_hashes_ok ch b = true ->
  tx_verified b = true -> Forall (tx_recomputes ch) (b_txs b).
Proof.
  unfold tx_hashes_ok. intros ch b H V. rewrite V in H. cbn [negb orb] in H.
  rewrite forallb_forall in H. apply Forall_forall.
  intros t I. specialize (H t I). apply orb_true_iff in H. destruct H as [H|H]; [left; exact H | right; apply term_eqb_true; exact H].
Qed.

Lemma receipts_match_sound : forall txs rs, receipts_match txs rs = true ->
  Forall2 (fun t r => t_hash t = r_txhash r) txs rs.
Proof.
  induction txs as [|t txs IH]; intros [|r rs] H; simpl in H; try discriminate; constructor.
  - apply andb_true_iff in H. destruct H as [A _]. apply term_eqb_true. exact A.
  - apply IH. apply andb_true_iff in H. tauto.
Qed.

Lemma accept_inv : forall ch cs b cs', accept ch cs b = Some cs' ->
  (receipts_match (b_txs b) (b_rcpts b) = true /\ tx_hashes_ok ch b = true /\ block_hash_ok b = true /\
   succession_ok cs b = true /\ roots_ok cs b = true) /\
  cs' = {| cs_head := Some (h_number (b_hdr b), b_hash b); cs_state := new_state cs b; cs_blocks := b :: cs_blocks cs |}.
Proof.
  intros ch cs b cs'. unfold accept.
  generalize (receipts_match (b_txs b) (b_rcpts b)) (tx_hashes_ok ch b) (block_hash_ok b)
             (succession_ok cs b) (roots_ok cs b).
  intros [|] [|] [|] [|] [|]; cbn [andb]; intros H; try discriminate.
  injection H as <-. repeat split.
Time Qed.

Lemma block_hash_ok_sound : forall b, block_hash_ok b = true -> block_hash b = Some (b_hash b).
Proof.
  unfold block_hash_ok. intros b. generalize (block_hash b). intros [h|] H; [|discriminate].
  apply term_eqb_true in H. congruence.
Time Qed.

Lemma roots_ok_sound : forall cs b, roots_ok cs b = true ->
  commitment (pre_0_14 b) (cs_state cs) = b_old_root b /\
  commitment (pre_0_14 b) (new_state cs b) = h_state_root (b_hdr b).
Proof.
  unfold roots_ok. intros cs b.
  generalize (commitment (pre_0_14 b) (cs_state cs)) (commitment (pre_0_14 b) (new_state cs b)).
  intros x y H. apply andb_true_iff in H. destruct H as [R1 R2].
  apply term_eqb_true in R1. apply term_eqb_true in R2. auto.
Qed.

Theorem accept_sound : forall ch cs b cs', accept ch cs b = Some cs' ->
  linked cs b /\
  Forall2 (fun t r => t_hash t = r_txhash r) (b_txs b) (b_rcpts b) /\
  (tx_verified b = true -> Forall (tx_recomputes ch) (b_txs b)) /\
  block_hash b = Some (b_hash b) /\
  commitment (pre_0_14 b) (cs_state cs) = b_old_root b /\
  commitment (pre_0_14 b) (new_state cs b) = h_state_root (b_hdr b) /\
  cs' = {| cs_head := Some (h_number (b_hdr b), b_hash b);
           cs_state := new_state cs b;
           cs_blocks := b :: cs_blocks cs |}.
Proof.
  intros ch cs b cs' H. apply accept_inv in H. destruct H as ((R & T & B & S & Ro) & E).
  apply roots_ok_sound in Ro. destruct Ro as (R1 & R2).
  split; [apply succession_ok_linked; exact S|].
  split; [apply receipts_match_sound; exact R|].
  split; [apply tx_hashes_ok_sound; exact T|].
  split; [apply block_hash_ok_sound; exact B|].
  split; [exact R1|]. split; [exact R2 | exact E].
Time Qed.

(* ---------- rejection is pure ---------- *)
Theorem reject_pure : forall ch cs b, accept ch cs b = None -> push ch cs b = cs.
Proof. intros ch cs b H. unfold push. rewrite H. reflexivity. Qed.

(* ... at every position of a history: a rejected block can be deleted from the input without any effect *)
Theorem reject_pure_run : forall ch bs1 b bs2,
  accept ch (run ch bs1) b = None -> run ch (bs1 ++ b :: bs2) = run ch (bs1 ++ bs2).
Proof.
  intros ch bs1 b bs2 H. unfold run in *. rewrite !fold_left_app. simpl.
  rewrite (reject_pure _ _ _ H). reflexivity.
Qed.

(* ---------- the committed projection by format, and the tamper theorem ---------- *)
Definition committed (b : block) :=
  let v := h_ver (b_hdr b) in
  if ver_ge v (0, 13, 4) then inl (committed_0134 b)
  else if ver_ge v (0, 13, 2) then inr (inl (committed_0132 b))
  else inr (inr (committed_post07 b)).

Lemma some_inj : forall A (a b : A), Some a = Some b -> a = b.
Proof. intros A a b H. injection H. auto. Qed.

Local Opaque block_hash_0134 block_hash_0132 block_hash_post07.

(* for two blocks of the Pedersen format the (unhashed) protocol versions must agree on the 0.11.1 signature rule *)
Definition same_sig_rule (b1 b2 : block) : Prop :=
  ver_ge (h_ver (b_hdr b1)) (0, 13, 2) = false -> ver_ge (h_ver (b_hdr b2)) (0, 13, 2) = false -> sig_rule b1 = sig_rule b2.

Theorem preimage_injective : forall b1 b2 h, block_wf b1 -> block_wf b2 -> same_sig_rule b1 b2 ->
  block_hash b1 = Some h -> block_hash b2 = Some h -> committed b1 = committed b2.
Proof.
  unfold block_hash, committed, same_sig_rule. intros b1 b2 h W1 W2 SR H1 H2.
  destruct (ver_ge (h_ver (b_hdr b1)) (0, 13, 4)), (ver_ge (h_ver (b_hdr b2)) (0, 13, 4)).
  - apply some_inj in H1. apply some_inj in H2. rewrite <- H2 in H1.
    rewrite (preimage_injective_0134 _ _ W1 W2 H1). reflexivity.
  - exfalso. destruct (ver_ge (h_ver (b_hdr b2)) (0, 13, 2));
      apply some_inj in H1; apply some_inj in H2; rewrite <- H2 in H1.
    + apply formats_disjoint in H1. exact H1.
    + symmetry in H1. apply (post07_disjoint b2 b1) in H1. exact H1.
  - exfalso. destruct (ver_ge (h_ver (b_hdr b1)) (0, 13, 2));
      apply some_inj in H1; apply some_inj in H2; rewrite <- H1 in H2.
    + apply formats_disjoint in H2. exact H2.
    + symmetry in H2. apply (post07_disjoint b1 b2) in H2. exact H2.
  - destruct (ver_ge (h_ver (b_hdr b1)) (0, 13, 2)), (ver_ge (h_ver (b_hdr b2)) (0, 13, 2));
      apply some_inj in H1; apply some_inj in H2; rewrite <- H2 in H1.
    + rewrite (preimage_injective_0132 _ _ W1 W2 H1). reflexivity.
    + exfalso. symmetry in H1. apply (post07_disjoint b2 b1) in H1. exact H1.
    + exfalso. apply (post07_disjoint b1 b2) in H1. exact H1.
    + rewrite (preimage_injective_post07 _ _ W1 W2 (SR eq_refl eq_refl) H1). reflexivity.
Qed.

(* b is a block whose declared hash recomputes; b' carries the same declared hash but differs from b in a
   committed field: it is rejected, whatever the chain state *)
Theorem tamper_rejected : forall ch cs b b', block_wf b -> block_wf b' -> same_sig_rule b' b ->
  block_hash b = Some (b_hash b) -> b_hash b' = b_hash b -> committed b' <> committed b ->
  accept ch cs b' = None.
Proof.
  intros ch cs b b' W W' SR V D N. destruct (accept ch cs b') as [cs'|] eqn:A; [|reflexivity].
  exfalso. apply accept_sound in A. destruct A as (_ & _ & _ & BH & _).
  rewrite D in BH. apply N. eapply preimage_injective; eauto.
Qed.

(* a transaction whose declared hash belongs to different fields *)
Theorem tx_tamper_rejected : forall ch cs b' t' body, In t' (b_txs b') -> tx_verified b' = true ->
  tx_ok body -> tx_ok (t_body t') -> tx_hash ch body = t_hash t' -> t_body t' <> body ->
  accept ch cs b' = None.
Proof.
  intros ch cs b' t' body I TV O O' V N. destruct (accept ch cs b') as [cs'|] eqn:A; [|reflexivity].
  exfalso. apply accept_sound in A. destruct A as (_ & _ & T & _). specialize (T TV).
  rewrite Forall_forall in T. specialize (T _ I). destruct T as [T|T].
  - unfold is_unverified in T. destruct (t_body t'); try discriminate. exact O'.
  - apply N. apply (tx_hash_injective ch); auto. congruence.
Qed.

(* a declared state root that is not the commitment of (current state + diff), a stale old root, or a broken
   linkage: rejected *)
Theorem wrong_root_rejected : forall ch cs b,
  commitment (pre_0_14 b) (new_state cs b) <> h_state_root (b_hdr b) \/
  commitment (pre_0_14 b) (cs_state cs) <> b_old_root b \/ ~ linked cs b ->
  accept ch cs b = None.
Proof.
  intros ch cs b H. destruct (accept ch cs b) as [cs'|] eqn:A; [|reflexivity].
  exfalso. apply accept_sound in A. destruct A as (L & _ & _ & _ & R1 & R2 & _). tauto.
Qed.
