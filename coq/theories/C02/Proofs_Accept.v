(* C02 — the acceptance decision: soundness of [accept], purity of rejection, rejection of tampered blocks. *)
From Coq Require Import List ZArith Bool Lia.
From V Require Import C01.Term C01.State C02.Model C02.Proofs_Enc C02.Proofs_Trie C02.Proofs_Tx C02.Proofs_Block.
Import ListNotations.
Open Scope Z_scope.

(* ---------- term_eqb decides syntactic equality ---------- *)
Section TermInd.
Variable P : term -> Prop.
Hypothesis HC : forall z, P (TC z).
Hypothesis HPed : forall a b, P a -> P b -> P (TPed a b).
Hypothesis HPos2 : forall a b, P a -> P b -> P (TPos2 a b).
Hypothesis HPosN : forall l, Forall P l -> P (TPosN l).
Hypothesis HPedN : forall l, Forall P l -> P (TPedN l).
Hypothesis HAdd : forall a n, P a -> P (TAddLen a n).
Hypothesis HPath : forall p, P (TPath p).
Fixpoint term_ind2 (t : term) : P t :=
  match t with
  | TC z => HC z
  | TPed a b => HPed a b (term_ind2 a) (term_ind2 b)
  | TPos2 a b => HPos2 a b (term_ind2 a) (term_ind2 b)
  | TPosN l => HPosN l ((fix go (l : list term) : Forall P l :=
                           match l with [] => Forall_nil P | x :: r => Forall_cons x (term_ind2 x) (go r) end) l)
  | TPedN l => HPedN l ((fix go (l : list term) : Forall P l :=
                           match l with [] => Forall_nil P | x :: r => Forall_cons x (term_ind2 x) (go r) end) l)
  | TAddLen a n => HAdd a n (term_ind2 a)
  | TPath p => HPath p
  end.
End TermInd.

Definition list_eqb (l m : list term) : bool :=
  (fix go (l m : list term) : bool :=
     match l, m with
     | [], [] => true
     | x :: l', y :: m' => term_eqb x y && go l' m'
     | _, _ => false
     end) l m.

Lemma list_eqb_true : forall l, Forall (fun a => forall b, term_eqb a b = true -> a = b) l ->
  forall m, list_eqb l m = true -> l = m.
Proof.
  induction 1 as [|x l Hx Hl IH]; intros [|y m] E; simpl in E; try discriminate; auto.
  apply andb_true_iff in E. destruct E as [E1 E2]. f_equal; [apply Hx; exact E1 | apply IH; exact E2].
Qed.

Lemma bits_eqb_true : forall p q : list bool,
  (fix go (p q : list bool) : bool :=
     match p, q with
     | [], [] => true
     | x :: p', y :: q' => Bool.eqb x y && go p' q'
     | _, _ => false
     end) p q = true -> p = q.
Proof.
  induction p as [|x p IH]; intros [|y q] E; try discriminate; auto.
  apply andb_true_iff in E. destruct E as [E1 E2]. apply eqb_prop in E1. f_equal; auto.
Qed.

Theorem term_eqb_true : forall a b, term_eqb a b = true -> a = b.
Proof.
  induction a using term_ind2; intros b E; destruct b; simpl in E; try discriminate.
  - apply Z.eqb_eq in E. congruence.
  - apply andb_true_iff in E. destruct E as [E1 E2]. f_equal; auto.
  - apply andb_true_iff in E. destruct E as [E1 E2]. f_equal; auto.
  - f_equal. apply list_eqb_true; assumption.
  - f_equal. apply list_eqb_true; assumption.
  - apply andb_true_iff in E. destruct E as [E1 E2]. apply Nat.eqb_eq in E2. f_equal; auto.
  - f_equal. apply bits_eqb_true. exact E.
Qed.

(* ---------- soundness of accept ---------- *)
Definition linked (cs : chain_state) (b : block) : Prop :=
  match cs_head cs with
  | None => h_number (b_hdr b) = 0 /\ h_parent (b_hdr b) = TC 0
  | Some (n, hh) => h_number (b_hdr b) = n + 1 /\ h_parent (b_hdr b) = hh
  end.

Lemma succession_ok_linked : forall cs b, succession_ok cs b = true -> linked cs b.
Proof.
  unfold succession_ok, linked. intros cs b H. apply andb_true_iff in H. destruct H as [_ H].
  destruct (cs_head cs) as [[n hh]|]; apply andb_true_iff in H; destruct H as [A B];
    apply Z.eqb_eq in A; apply term_eqb_true in B; auto.
Qed.

Lemma tx_hashes_ok_sound : forall ch txs, tx_hashes_ok ch txs = true ->
  Forall (fun t => tx_hash ch (t_body t) = t_hash t) txs.
Proof.
  unfold tx_hashes_ok. intros ch txs H. rewrite forallb_forall in H. apply Forall_forall.
  intros t I. apply term_eqb_true. apply H. exact I.
Qed.

Lemma receipts_match_sound : forall txs rs, receipts_match txs rs = true ->
  Forall2 (fun t r => t_hash t = r_txhash r) txs rs.
Proof.
  induction txs as [|t txs IH]; intros [|r rs] H; simpl in H; try discriminate; constructor.
  - apply andb_true_iff in H. destruct H as [A _]. apply term_eqb_true. exact A.
  - apply IH. apply andb_true_iff in H. tauto.
Qed.

Theorem accept_sound : forall ch cs b cs', accept ch cs b = Some cs' ->
  linked cs b /\
  Forall2 (fun t r => t_hash t = r_txhash r) (b_txs b) (b_rcpts b) /\
  Forall (fun t => tx_hash ch (t_body t) = t_hash t) (b_txs b) /\
  block_hash b = Some (b_hash b) /\
  commitment (pre_0_14 b) (cs_state cs) = b_old_root b /\
  commitment (pre_0_14 b) (apply_diff true (cs_state cs) (to_diff (b_diff b))) = h_state_root (b_hdr b) /\
  cs' = {| cs_head := Some (h_number (b_hdr b), b_hash b);
           cs_state := apply_diff true (cs_state cs) (to_diff (b_diff b));
           cs_blocks := b :: cs_blocks cs |}.
Proof.
  unfold accept. intros ch cs b cs' H.
  destruct (receipts_match (b_txs b) (b_rcpts b)) eqn:R; [|discriminate].
  destruct (tx_hashes_ok ch (b_txs b)) eqn:T; [|discriminate].
  destruct (block_hash_ok b) eqn:B; [|discriminate].
  destruct (succession_ok cs b) eqn:S; [|discriminate].
  destruct (roots_ok cs b) eqn:Ro; [|discriminate].
  simpl in H. injection H as <-.
  unfold roots_ok in Ro. apply andb_true_iff in Ro. destruct Ro as [R1 R2].
  apply term_eqb_true in R1. apply term_eqb_true in R2.
  unfold block_hash_ok in B. destruct (block_hash b) as [h|] eqn:BH; [|discriminate]. apply term_eqb_true in B. subst h.
  repeat split; auto using succession_ok_linked, tx_hashes_ok_sound, receipts_match_sound.
Qed.

(* ---------- rejection is pure ---------- *)
Theorem reject_pure : forall ch cs b, accept ch cs b = None -> push ch cs b = cs.
Proof. intros ch cs b H. unfold push. rewrite H. reflexivity. Qed.

(* ... at every position of a history: a rejected block can be deleted from the input without any effect *)
Theorem reject_pure_run : forall ch bs1 b bs2,
  accept ch (run ch bs1) b = None -> run ch (bs1 ++ b :: bs2) = run ch (bs1 ++ bs2).
Proof.
  intros ch bs1 b bs2 H. unfold run in *. rewrite !fold_left_app. simpl.
  rewrite (reject_pure _ _ _ H). reflexivity.
Qed.

(* ---------- the committed projection by format, and the tamper theorem ---------- *)
Definition committed (b : block) :=
  let v := h_ver (b_hdr b) in
  if ver_ge v (0, 13, 4) then Some (inl (committed_0134 b))
  else if ver_ge v (0, 13, 2) then Some (inr (committed_0132 b))
  else None.

Theorem preimage_injective : forall b1 b2 h, block_wf b1 -> block_wf b2 ->
  block_hash b1 = Some h -> block_hash b2 = Some h -> committed b1 = committed b2.
Proof.
  unfold block_hash, committed. intros b1 b2 h W1 W2 H1 H2.
  destruct (ver_ge (h_ver (b_hdr b1)) (0, 13, 4)), (ver_ge (h_ver (b_hdr b2)) (0, 13, 4)).
  - injection H1 as <-. injection H2 as H2. symmetry in H2. rewrite (preimage_injective_0134 _ _ W1 W2 H2). reflexivity.
  - destruct (ver_ge (h_ver (b_hdr b2)) (0, 13, 2)); [|discriminate].
    injection H1 as <-. injection H2 as H2. symmetry in H2. apply formats_disjoint in H2. contradiction.
  - destruct (ver_ge (h_ver (b_hdr b1)) (0, 13, 2)); [|discriminate].
    injection H1 as <-. injection H2 as H2. apply formats_disjoint in H2. contradiction.
  - destruct (ver_ge (h_ver (b_hdr b1)) (0, 13, 2)); [|discriminate].
    destruct (ver_ge (h_ver (b_hdr b2)) (0, 13, 2)); [|discriminate].
    injection H1 as <-. injection H2 as H2. symmetry in H2. rewrite (preimage_injective_0132 _ _ W1 W2 H2). reflexivity.
Qed.

(* b is a block whose declared hash recomputes; b' carries the same declared hash but differs from b in a
   committed field: it is rejected, whatever the chain state *)
Theorem tamper_rejected : forall ch cs b b', block_wf b -> block_wf b' ->
  block_hash b = Some (b_hash b) -> b_hash b' = b_hash b -> committed b' <> committed b ->
  accept ch cs b' = None.
Proof.
  intros ch cs b b' W W' V D N. destruct (accept ch cs b') as [cs'|] eqn:A; [|reflexivity].
  exfalso. apply accept_sound in A. destruct A as (_ & _ & _ & BH & _).
  rewrite D in BH. apply N. eapply preimage_injective; eauto.
Qed.

(* a transaction whose declared hash belongs to different fields *)
Theorem tx_tamper_rejected : forall ch cs b' t' body, In t' (b_txs b') ->
  tx_ok body -> tx_ok (t_body t') -> tx_hash ch body = t_hash t' -> t_body t' <> body ->
  accept ch cs b' = None.
Proof.
  intros ch cs b' t' body I O O' V N. destruct (accept ch cs b') as [cs'|] eqn:A; [|reflexivity].
  exfalso. apply accept_sound in A. destruct A as (_ & _ & T & _).
  rewrite Forall_forall in T. specialize (T _ I). apply N. apply (tx_hash_injective ch); auto. congruence.
Qed.

(* a declared state root that is not the commitment of (current state + diff), a stale old root, or a broken
   linkage: rejected *)
Theorem wrong_root_rejected : forall ch cs b,
  commitment (pre_0_14 b) (apply_diff true (cs_state cs) (to_diff (b_diff b))) <> h_state_root (b_hdr b) \/
  commitment (pre_0_14 b) (cs_state cs) <> b_old_root b \/ ~ linked cs b ->
  accept ch cs b = None.
Proof.
  intros ch cs b H. destruct (accept ch cs b) as [cs'|] eqn:A; [|reflexivity].
  exfalso. apply accept_sound in A. destruct A as (L & _ & _ & _ & R1 & R2 & _). tauto.
Qed.
