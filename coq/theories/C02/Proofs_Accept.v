(* C02 — the acceptance decision: soundness of [accept], purity of rejection, rejection of tampered blocks. *)
From Coq Require Import List ZArith Bool Lia.
From V Require Import C01.Term C01.State C02.Model C02.Proofs_Enc C02.Proofs_Trie C02.Proofs_Tx C02.Proofs_Block C02.Proofs_Class.
Import ListNotations.
Open Scope Z_scope.

(* ---------- term_eqb decides syntactic equality ---------- *)
Section TermInd.
Variable P : term -> Prop.
Hypothesis HC : forall z, P (TC z).
Hypothesis HPed : forall a b, P a -> P b -> P (TPed a b).
Hypothesis HPos2 : forall a b, P a -> P b -> P (TPos2 a b).
Hypothesis HPosN : forall l, Forall P l -> P (TPosN l).
Hypothesis HPedN : forall l, Forall P l -> P (TPedN l).
Hypothesis HAdd : forall a n, P a -> P (TAddLen a n).
Hypothesis HPath : forall p, P (TPath p).
Fixpoint term_ind2 (t : term) : P t :=
  match t with
  | TC z => HC z
  | TPed a b => HPed a b (term_ind2 a) (term_ind2 b)
  | TPos2 a b => HPos2 a b (term_ind2 a) (term_ind2 b)
  | TPosN l => HPosN l ((fix go (l : list term) : Forall P l :=
                           match l with [] => Forall_nil P | x :: r => Forall_cons x (term_ind2 x) (go r) end) l)
  | TPedN l => HPedN l ((fix go (l : list term) : Forall P l :=
                           match l with [] => Forall_nil P | x :: r => Forall_cons x (term_ind2 x) (go r) end) l)
  | TAddLen a n => HAdd a n (term_ind2 a)
  | TPath p => HPath p
  end.
End TermInd.

Definition list_eqb (l m : list term) : bool :=
  (fix go (l m : list term) : bool :=
     match l, m with
     | [], [] => true
     | x :: l', y :: m' => term_eqb x y && go l' m'
     | _, _ => false
     end) l m.

Lemma list_eqb_true : forall l, Forall (fun a => forall b, term_eqb a b = true -> a = b) l ->
  forall m, list_eqb l m = true -> l = m.
Proof.
  induction 1 as [|x l Hx Hl IH]; intros [|y m] E; simpl in E; try discriminate; auto.
  apply andb_true_iff in E. destruct E as [E1 E2]. f_equal; [apply Hx; exact E1 | apply IH; exact E2].
Qed.

Lemma bits_eqb_true : forall p q : list bool,
  (fix go (p q : list bool) : bool :=
     match p, q with
     | [], [] => true
     | x :: p', y :: q' => Bool.eqb x y && go p' q'
     | _, _ => false
     end) p q = true -> p = q.
Proof.
  induction p as [|x p IH]; intros [|y q] E; try discriminate; auto.
  apply andb_true_iff in E. destruct E as [E1 E2]. apply eqb_prop in E1. f_equal; auto.
Qed.

Theorem term_eqb_true : forall a b, term_eqb a b = true -> a = b.
Proof.
  induction a using term_ind2; intros b E; destruct b; simpl in E; try discriminate.
  - apply Z.eqb_eq in E. congruence.
  - apply andb_true_iff in E. destruct E as [E1 E2]. f_equal; auto.
  - apply andb_true_iff in E. destruct E as [E1 E2]. f_equal; auto.
  - f_equal. apply list_eqb_true; assumption.
  - f_equal. apply list_eqb_true; assumption.
  - apply andb_true_iff in E. destruct E as [E1 E2]. apply Nat.eqb_eq in E2. f_equal; auto.
  - f_equal. apply bits_eqb_true. exact E.
Qed.

(* ---------- the committed projection by format ---------- *)
Definition committed (b : block) :=
  let v := h_ver (b_hdr b) in
  if ver_ge v (0, 13, 4) then inl (committed_0134 b)
  else if ver_ge v (0, 13, 2) then inr (inl (committed_0132 b))
  else inr (inr (committed_post07 b)).

Lemma some_inj : forall A (a b : A), Some a = Some b -> a = b.
Proof. intros A a b H. injection H. auto. Qed.

Local Opaque block_hash_0134 block_hash_0132 block_hash_post07.

(* for two blocks of the Pedersen format the (unhashed) protocol versions must agree on the 0.11.1 signature rule *)
Definition same_sig_rule (b1 b2 : block) : Prop :=
  ver_ge (h_ver (b_hdr b1)) (0, 13, 2) = false -> ver_ge (h_ver (b_hdr b2)) (0, 13, 2) = false -> sig_rule b1 = sig_rule b2.

Theorem preimage_injective : forall b1 b2 h, block_wf b1 -> block_wf b2 -> same_sig_rule b1 b2 ->
  block_hash b1 = Some h -> block_hash b2 = Some h -> committed b1 = committed b2.
Proof.
  unfold block_hash, committed, same_sig_rule. intros b1 b2 h W1 W2 SR H1 H2.
  destruct (ver_ge (h_ver (b_hdr b1)) (0, 13, 4)), (ver_ge (h_ver (b_hdr b2)) (0, 13, 4)).
  - destruct (h_prices_present (b_hdr b1)); [|discriminate]. destruct (h_prices_present (b_hdr b2)); [|discriminate].
    apply some_inj in H1. apply some_inj in H2. rewrite <- H2 in H1.
    rewrite (preimage_injective_0134 _ _ W1 W2 H1). reflexivity.
  - exfalso. destruct (h_prices_present (b_hdr b1)); [|discriminate].
    destruct (ver_ge (h_ver (b_hdr b2)) (0, 13, 2));
      apply some_inj in H1; apply some_inj in H2; rewrite <- H2 in H1.
    + apply formats_disjoint in H1. exact H1.
    + symmetry in H1. apply (post07_disjoint b2 b1) in H1. exact H1.
  - exfalso. destruct (h_prices_present (b_hdr b2)); [|discriminate].
    destruct (ver_ge (h_ver (b_hdr b1)) (0, 13, 2));
      apply some_inj in H1; apply some_inj in H2; rewrite <- H1 in H2.
    + apply formats_disjoint in H2. exact H2.
    + symmetry in H2. apply (post07_disjoint b1 b2) in H2. exact H2.
  - destruct (ver_ge (h_ver (b_hdr b1)) (0, 13, 2)), (ver_ge (h_ver (b_hdr b2)) (0, 13, 2));
      apply some_inj in H1; apply some_inj in H2; rewrite <- H2 in H1.
    + rewrite (preimage_injective_0132 _ _ W1 W2 H1). reflexivity.
    + exfalso. symmetry in H1. apply (post07_disjoint b2 b1) in H1. exact H1.
    + exfalso. apply (post07_disjoint b1 b2) in H1. exact H1.
    + rewrite (preimage_injective_post07 _ _ W1 W2 (SR eq_refl eq_refl) H1). reflexivity.
Qed.

(* ================= acceptance under an arbitrary evaluation of hash terms ================= *)
Section AcceptEv.
Variable ev : term -> term.
Variable kec : list Z -> Z.

Lemma eqv_true : forall a b, eqv ev a b = true -> ev a = ev b.
Proof. unfold eqv. intros a b H. apply term_eqb_true. exact H. Qed.

Definition linked_ev (cs : chain_state) (b : block) : Prop :=
  match cs_head cs with
  | None => h_number (b_hdr b) = 0 /\ ev (h_parent (b_hdr b)) = ev (TC 0)
  | Some (n, hh) => h_number (b_hdr b) = n + 1 /\ ev (h_parent (b_hdr b)) = ev hh
  end.

Lemma succession_ok_linked : forall cs b, succession_ok ev cs b = true -> linked_ev cs b.
Proof.
  unfold succession_ok, linked_ev. intros cs b H. apply andb_true_iff in H. destruct H as [_ H].
  destruct (cs_head cs) as [[n hh]|]; apply andb_true_iff in H; destruct H as [A B];
    apply Z.eqb_eq in A; apply eqv_true in B; auto.
Qed.

Definition tx_recomputes_ev (ch : Z) (t : txrec) : Prop :=
  is_unverified t = true \/ ev (tx_hash ch (t_body t)) = ev (t_hash t).

Lemma tx_hashes_ok_sound : forall ch b, tx_hashes_ok ev ch b = true ->
  tx_verified b = true -> Forall (tx_recomputes_ev ch) (b_txs b).
Proof.
  unfold tx_hashes_ok. intros ch b H V. rewrite V in H. cbn [negb orb] in H.
  rewrite forallb_forall in H. apply Forall_forall.
  intros t I. specialize (H t I). apply orb_true_iff in H. destruct H as [H|H]; [left; exact H | right; apply eqv_true; exact H].
Qed.

Lemma receipts_match_sound : forall txs rs, receipts_match ev txs rs = true ->
  Forall2 (fun t r => ev (t_hash t) = ev (r_txhash r)) txs rs.
Proof.
  induction txs as [|t txs IH]; intros [|r rs] H; simpl in H; try discriminate; constructor.
  - apply andb_true_iff in H. destruct H as [A _]. apply eqv_true. exact A.
  - apply IH. apply andb_true_iff in H. tauto.
Qed.

(* a delivered definition verifies: Cairo-0 definitions are not checked at all *)
Definition class_verifies (kc : Z * cdef) : Prop :=
  match snd kc with
  | Cairo0 => True
  | Sierra c => ev (class_hash kec c) = ev (TC (fst kc))
  end.

Lemma classes_ok_sound : forall b, classes_ok ev kec b = true -> Forall class_verifies (b_classes b).
Proof.
  unfold classes_ok. intros b H. rewrite forallb_forall in H. apply Forall_forall. intros kc I.
  specialize (H kc I). unfold class_ok in H. unfold class_verifies. destruct (snd kc); [exact Logic.I|].
  apply eqv_true. exact H.
Qed.

Lemma su_ok_sound : forall b, su_ok ev b = true ->
  ev (b_hash b) = ev (b_su_hash b) /\ ev (h_state_root (b_hdr b)) = ev (b_su_new_root b).
Proof.
  unfold su_ok. intros b H. apply andb_true_iff in H. destruct H as [A B]. split; apply eqv_true; assumption.
Qed.

Lemma accept_ev_inv : forall ch cs b cs', accept_ev ev kec ch cs b = Some cs' ->
  (su_ok ev b = true /\ classes_ok ev kec b = true /\ receipts_match ev (b_txs b) (b_rcpts b) = true /\
   tx_hashes_ok ev ch b = true /\ block_hash_ok ev b = true /\
   succession_ok ev cs b = true /\ diff_applicable (cs_state cs) (b_diff b) = true /\ roots_ok ev cs b = true /\
   casm_ok cs b = true) /\
  cs' = next_state cs b.
Proof.
  intros ch cs b cs'. unfold accept_ev.
  generalize (su_ok ev b) (classes_ok ev kec b) (receipts_match ev (b_txs b) (b_rcpts b)) (tx_hashes_ok ev ch b)
             (block_hash_ok ev b) (succession_ok ev cs b) (diff_applicable (cs_state cs) (b_diff b)) (roots_ok ev cs b)
             (casm_ok cs b) (next_state cs b).
  intros [|] [|] [|] [|] [|] [|] [|] [|] [|] n; cbn [andb]; intros H; try discriminate.
  injection H as <-. repeat split.
Qed.

Lemma block_hash_ok_sound : forall b, block_hash_ok ev b = true ->
  exists h, block_hash b = Some h /\ ev h = ev (b_hash b).
Proof.
  unfold block_hash_ok. intros b. generalize (block_hash b). intros [h|] H; [|discriminate].
  exists h. split; [reflexivity | apply eqv_true; exact H].
Qed.

Lemma roots_ok_sound : forall cs b, roots_ok ev cs b = true ->
  ev (commitment (pre_0_14 b) (cs_state cs)) = ev (b_old_root b) /\
  ev (commitment (pre_0_14 b) (new_state cs b)) = ev (h_state_root (b_hdr b)).
Proof.
  unfold roots_ok. intros cs b.
  generalize (commitment (pre_0_14 b) (cs_state cs)) (commitment (pre_0_14 b) (new_state cs b)).
  intros x y H. apply andb_true_iff in H. destruct H as [R1 R2].
  apply eqv_true in R1. apply eqv_true in R2. auto.
Qed.

Theorem accept_ev_sound : forall ch cs b cs', accept_ev ev kec ch cs b = Some cs' ->
  ev (b_hash b) = ev (b_su_hash b) /\ ev (h_state_root (b_hdr b)) = ev (b_su_new_root b) /\
  Forall class_verifies (b_classes b) /\
  linked_ev cs b /\
  Forall2 (fun t r => ev (t_hash t) = ev (r_txhash r)) (b_txs b) (b_rcpts b) /\
  (tx_verified b = true -> Forall (tx_recomputes_ev ch) (b_txs b)) /\
  (exists h, block_hash b = Some h /\ ev h = ev (b_hash b)) /\
  ev (commitment (pre_0_14 b) (cs_state cs)) = ev (b_old_root b) /\
  ev (commitment (pre_0_14 b) (new_state cs b)) = ev (h_state_root (b_hdr b)) /\
  cs' = next_state cs b.
Proof.
  intros ch cs b cs' H. apply accept_ev_inv in H. destruct H as ((U & C & R & T & B & S & _ & Ro & _) & E).
  apply roots_ok_sound in Ro. destruct Ro as (R1 & R2). apply su_ok_sound in U. destruct U as (U1 & U2).
  split; [exact U1|]. split; [exact U2|].
  split; [apply classes_ok_sound; exact C|].
  split; [apply succession_ok_linked; exact S|].
  split; [apply receipts_match_sound; exact R|].
  split; [apply tx_hashes_ok_sound; exact T|].
  split; [apply block_hash_ok_sound; exact B|].
  split; [exact R1|]. split; [exact R2 | exact E].
Qed.

(* ---------- rejection is pure ---------- *)
Theorem reject_pure_ev : forall ch cs b, accept_ev ev kec ch cs b = None -> push_ev ev kec ch cs b = cs.
Proof. intros ch cs b H. unfold push_ev. rewrite H. reflexivity. Qed.

(* ... at every position of a history: a rejected block can be deleted from the input without any effect *)
Theorem reject_pure_run_ev : forall ch bs1 b bs2,
  accept_ev ev kec ch (run_ev ev kec ch bs1) b = None ->
  run_ev ev kec ch (bs1 ++ b :: bs2) = run_ev ev kec ch (bs1 ++ bs2).
Proof.
  intros ch bs1 b bs2 H. unfold run_ev in *. rewrite !fold_left_app. simpl.
  rewrite (reject_pure_ev _ _ _ H). reflexivity.
Qed.

(* ---------- tampering ---------- *)
(* b is a block whose declared hash recomputes (under ev); b' carries the same declared hash value but differs
   from b in a committed field: it is rejected, whatever the chain state - or the two block-hash preimages are
   an explicit pair of DIFFERENT hash inputs that ev maps to the same felt *)
Theorem tamper_rejected_ev : forall ch cs b b' h, block_wf b -> block_wf b' -> same_sig_rule b' b ->
  block_hash b = Some h -> ev h = ev (b_hash b) -> ev (b_hash b') = ev (b_hash b) -> committed b' <> committed b ->
  accept_ev ev kec ch cs b' = None \/
  (exists h', block_hash b' = Some h' /\ h' <> h /\ ev h' = ev h).
Proof.
  intros ch cs b b' h W W' SR V Vh D N. destruct (accept_ev ev kec ch cs b') as [cs'|] eqn:A; [|left; reflexivity].
  right. apply accept_ev_sound in A. destruct A as (_ & _ & _ & _ & _ & _ & (h' & BH & E) & _).
  exists h'. split; [exact BH|]. split.
  - intros ->. apply N. eapply preimage_injective; eauto.
  - congruence.
Qed.

(* a transaction whose declared hash is the hash of different fields *)
Theorem tx_tamper_rejected_ev : forall ch cs b' t' body, In t' (b_txs b') -> tx_verified b' = true ->
  tx_ok body -> tx_ok (t_body t') -> ev (tx_hash ch body) = ev (t_hash t') -> t_body t' <> body ->
  accept_ev ev kec ch cs b' = None \/
  (tx_hash ch (t_body t') <> tx_hash ch body /\ ev (tx_hash ch (t_body t')) = ev (tx_hash ch body)).
Proof.
  intros ch cs b' t' body I TV O O' V N. destruct (accept_ev ev kec ch cs b') as [cs'|] eqn:A; [|left; reflexivity].
  right. apply accept_ev_sound in A. destruct A as (_ & _ & _ & _ & _ & T & _). specialize (T TV).
  rewrite Forall_forall in T. specialize (T _ I). destruct T as [T|T].
  - exfalso. unfold is_unverified in T. destruct (t_body t'); try discriminate. exact O'.
  - split; [|congruence]. intros E. apply N. apply (tx_hash_injective ch); auto.
Qed.

(* a delivered Sierra definition c' under the key of a different class c (the class the state diff commits to:
   its hash evaluates to the key k): rejected - or an explicit pair of different class-hash inputs with the same
   felt, or an explicit Keccak collision on the two ABI texts *)
Theorem class_tamper_rejected_ev : forall ch cs b' k c c', In (k, Sierra c') (b_classes b') ->
  ev (class_hash kec c) = ev (TC k) -> class_ok_wf c -> class_ok_wf c' -> c' <> c ->
  accept_ev ev kec ch cs b' = None \/
  (class_hash kec c' <> class_hash kec c /\ ev (class_hash kec c') = ev (class_hash kec c)) \/
  kec_collision kec (sc_abi c') (sc_abi c).
Proof.
  intros ch cs b' k c c' I V W W' N. destruct (accept_ev ev kec ch cs b') as [cs'|] eqn:A; [|left; reflexivity].
  right. apply accept_ev_sound in A. destruct A as (_ & _ & C & _).
  rewrite Forall_forall in C. specialize (C _ I). unfold class_verifies in C. cbn [snd fst] in C.
  destruct (class_field_committed kec c c' W W' N) as [D|K]; [left | right; exact K].
  split; [exact D | congruence].
Qed.

(* a declared root that is not (under ev) the commitment of (held state + diff), a stale old root, a broken
   linkage, or a state update that disagrees with the header: rejected *)
Theorem wrong_root_rejected_ev : forall ch cs b,
  ev (commitment (pre_0_14 b) (new_state cs b)) <> ev (h_state_root (b_hdr b)) \/
  ev (commitment (pre_0_14 b) (cs_state cs)) <> ev (b_old_root b) \/ ~ linked_ev cs b \/
  ev (b_hash b) <> ev (b_su_hash b) \/ ev (h_state_root (b_hdr b)) <> ev (b_su_new_root b) ->
  accept_ev ev kec ch cs b = None.
Proof.
  intros ch cs b H. destruct (accept_ev ev kec ch cs b) as [cs'|] eqn:A; [|reflexivity].
  exfalso. apply accept_ev_sound in A. destruct A as (U1 & U2 & _ & L & _ & _ & _ & R1 & R2 & _). tauto.
Qed.

(* a >= 0.13.4 block without the price objects has no hash: rejected (fixed defect sanity-panic:nil-gas-price) *)
Theorem missing_prices_rejected_ev : forall ch cs b,
  ver_ge (h_ver (b_hdr b)) (0, 13, 4) = true -> h_prices_present (b_hdr b) = false ->
  accept_ev ev kec ch cs b = None.
Proof.
  intros ch cs b V P. destruct (accept_ev ev kec ch cs b) as [cs'|] eqn:A; [|reflexivity].
  exfalso. apply accept_ev_sound in A. destruct A as (_ & _ & _ & _ & _ & _ & (h & BH & _) & _).
  unfold block_hash in BH. rewrite V, P in BH. discriminate.
Qed.
(* what the state layer and the CASM-hash bookkeeping refuse: a contract deployed twice, a class replaced / a
   nonce / a storage diff for a contract that is not deployed, a (pre-0.14.1) declared class without a Sierra
   definition, a migration of a class that was never declared, was declared with the V2 hash or is migrated already *)
Theorem accepted_applicable : forall ch cs b cs', accept_ev ev kec ch cs b = Some cs' ->
  diff_applicable (cs_state cs) (b_diff b) = true /\ casm_ok cs b = true.
Proof.
  intros ch cs b cs' H. apply accept_ev_inv in H. destruct H as ((_ & _ & _ & _ & _ & _ & A & _ & K) & _). auto.
Qed.
End AcceptEv.

(* ================= the free-algebra instance (ev = identity: syntactic comparison) ================= *)
Definition linked (cs : chain_state) (b : block) : Prop :=
  match cs_head cs with
  | None => h_number (b_hdr b) = 0 /\ h_parent (b_hdr b) = TC 0
  | Some (n, hh) => h_number (b_hdr b) = n + 1 /\ h_parent (b_hdr b) = hh
  end.
Definition tx_recomputes (ch : Z) (t : txrec) : Prop := is_unverified t = true \/ tx_hash ch (t_body t) = t_hash t.

Lemma tid_eq : forall a b : term, tid a = tid b -> a = b.
Proof. intros a b H. exact H. Qed.
Lemma tid_neq : forall a b : term, a <> b -> tid a <> tid b.
Proof. intros a b H. exact H. Qed.

Lemma linked_tid : forall cs b, linked_ev tid cs b -> linked cs b.
Proof.
  unfold linked_ev, linked. intros cs b. destruct (cs_head cs) as [[n hh]|]; intros [A B]; split; auto; apply tid_eq; exact B.
Qed.
Lemma linked_tid_inv : forall cs b, linked cs b -> linked_ev tid cs b.
Proof.
  unfold linked_ev, linked. intros cs b. destruct (cs_head cs) as [[n hh]|]; intros [A B]; split; auto; rewrite B; reflexivity.
Qed.

Lemma forall2_tid : forall txs rs, Forall2 (fun t r => tid (t_hash t) = tid (r_txhash r)) txs rs ->
  Forall2 (fun t r => t_hash t = r_txhash r) txs rs.
Proof. induction 1; constructor; auto. Qed.

Lemma recomputes_tid : forall ch l, Forall (tx_recomputes_ev tid ch) l -> Forall (tx_recomputes ch) l.
Proof. induction 1 as [|t l H _ IH]; constructor; auto. Qed.

Theorem accept_sound : forall ch cs b cs', accept ch cs b = Some cs' ->
  b_hash b = b_su_hash b /\ h_state_root (b_hdr b) = b_su_new_root b /\
  linked cs b /\
  Forall2 (fun t r => t_hash t = r_txhash r) (b_txs b) (b_rcpts b) /\
  (tx_verified b = true -> Forall (tx_recomputes ch) (b_txs b)) /\
  block_hash b = Some (b_hash b) /\
  commitment (pre_0_14 b) (cs_state cs) = b_old_root b /\
  commitment (pre_0_14 b) (new_state cs b) = h_state_root (b_hdr b) /\
  cs' = next_state cs b.
Proof.
  intros ch cs b cs' H. apply (accept_ev_sound tid kec0) in H.
  destruct H as (U1 & U2 & _ & L & R & T & (h & BH & E) & R1 & R2 & C).
  apply tid_eq in U1, U2, E, R1, R2. subst h.
  split; [exact U1|]. split; [exact U2|]. split; [apply linked_tid; exact L|].
  split; [apply forall2_tid; exact R|]. split; [intros V; apply recomputes_tid; apply T; exact V|].
  split; [exact BH|]. split; [exact R1|]. split; [exact R2 | exact C].
Qed.

Theorem reject_pure : forall ch cs b, accept ch cs b = None -> push ch cs b = cs.
Proof. exact (reject_pure_ev tid kec0). Qed.

Theorem reject_pure_run : forall ch bs1 b bs2,
  accept ch (run ch bs1) b = None -> run ch (bs1 ++ b :: bs2) = run ch (bs1 ++ bs2).
Proof. exact (reject_pure_run_ev tid kec0). Qed.

Theorem tamper_rejected : forall ch cs b b', block_wf b -> block_wf b' -> same_sig_rule b' b ->
  block_hash b = Some (b_hash b) -> b_hash b' = b_hash b -> committed b' <> committed b ->
  accept ch cs b' = None.
Proof.
  intros ch cs b b' W W' SR V D N.
  destruct (tamper_rejected_ev tid kec0 ch cs b b' (b_hash b) W W' SR V eq_refl (f_equal tid D) N) as [H|(h' & _ & NE & E)];
    [exact H | exfalso; apply NE; exact E].
Qed.

Theorem tx_tamper_rejected : forall ch cs b' t' body, In t' (b_txs b') -> tx_verified b' = true ->
  tx_ok body -> tx_ok (t_body t') -> tx_hash ch body = t_hash t' -> t_body t' <> body ->
  accept ch cs b' = None.
Proof.
  intros ch cs b' t' body I TV O O' V N.
  destruct (tx_tamper_rejected_ev tid kec0 ch cs b' t' body I TV O O' (f_equal tid V) N) as [H|(NE & E)];
    [exact H | exfalso; apply NE; exact E].
Qed.

Theorem wrong_root_rejected : forall ch cs b,
  commitment (pre_0_14 b) (new_state cs b) <> h_state_root (b_hdr b) \/
  commitment (pre_0_14 b) (cs_state cs) <> b_old_root b \/ ~ linked cs b ->
  accept ch cs b = None.
Proof.
  intros ch cs b H. apply (wrong_root_rejected_ev tid kec0).
  destruct H as [H|[H|H]].
  - left. apply tid_neq. exact H.
  - right; left. apply tid_neq. exact H.
  - right; right; left. intros L. apply H. apply linked_tid. exact L.
Qed.
