(* C02 — preimage injectivity of the receipt / event / transaction-leaf / state-diff / block-hash
   encodings over the free term algebra: equal hash terms, equal committed projections. *)
From Coq Require Import List ZArith Bool Lia.
From V Require Import C01.Term C01.State C02.Model C02.Proofs_Enc C02.Proofs_Trie C02.Proofs_Tx.
Import ListNotations.
Open Scope Z_scope.

(* ---------- the committed projection ---------- *)
Definition tx_proj_0134 (t : txrec) : term * list Z := (t_hash t, sig_of t).
(* protocol-level carve-out: the 0.13.2 format hashes an empty signature as [0] *)
Definition sig_0132 (t : txrec) : list Z := match sig_of t with [] => [0] | s => s end.
Definition tx_proj_0132 (t : txrec) : term * list Z := (t_hash t, sig_0132 t).

(* protocol-level carve-outs: L2 gas is hashed as the constant 0; the revert reason enters only through
   its Starknet-keccak (0 when not reverted); fee unit, execution resources other than L1 gas / L1 data gas
   and the L1->L2 message are not hashed; events are committed by the event commitment *)
Definition receipt_proj (r : receipt) : term * Z * list msg * Z * Z * Z :=
  (r_txhash r, r_fee r, r_msgs r, revert_felt r, r_l1gas r, r_l1datagas r).

(* protocol-level carve-out: the state-diff hash covers the MERGED deployed+replaced map and the merged
   declared+migrated list, each in key order — it does not say which of the two maps an entry came from *)
Definition diff_proj (d : sdiff) :=
  (Z.of_nat (length (sd_deployed d) + length (sd_replaced d)), merged_updates d, declared_entries d,
   v0_sorted d, storage_sorted d, nonces_sorted d).

(* post-0.7 format: signature only as hashed (before 0.11.1 only invoke signatures are), events without their
   transaction hash; version string, gas prices, DA mode, receipts and the state diff are not hashed at all *)
Definition sig_ped (v0111 : bool) (t : txrec) : list Z := if v0111 || is_invoke t then sig_of t else [].
Definition tx_proj_ped (v0111 : bool) (t : txrec) : term * list Z := (t_hash t, sig_ped v0111 t).

Definition header_common (h : header) := (h_number h, h_state_root h, h_sequencer h, h_timestamp h, h_version_str h, h_parent h).
Definition counts_proj (b : block) := (h_tx_count (b_hdr b), h_event_count (b_hdr b), sd_length (b_diff b), h_blob (b_hdr b)).
Definition gas_0134 (h : header) := (h_l1_gas_wei h, h_l1_gas_fri h, h_l1_data_wei h, h_l1_data_fri h, h_l2_wei h, h_l2_fri h).
Definition gas_0132 (h : header) := (h_l1_gas_wei h, h_l1_gas_fri h, h_l1_data_wei h, h_l1_data_fri h).

Definition committed_0134 (b : block) :=
  (header_common (b_hdr b), counts_proj b, map tx_proj_0134 (b_txs b), block_events (b_rcpts b),
   map receipt_proj (b_rcpts b), diff_proj (b_diff b), gas_0134 (b_hdr b)).
Definition committed_0132 (b : block) :=
  (header_common (b_hdr b), counts_proj b, map tx_proj_0132 (b_txs b), block_events (b_rcpts b),
   map receipt_proj (b_rcpts b), diff_proj (b_diff b), gas_0132 (b_hdr b)).

(* the protocol version is not hashed in this format, yet decides (at 0.11.1) whether non-invoke signatures are *)
Definition sig_rule (b : block) : bool := ver_ge (h_ver (b_hdr b)) (0, 11, 1).
Definition committed_post07 (b : block) :=
  let h := b_hdr b in
  (h_number h, h_state_root h, h_sequencer h, h_timestamp h, h_tx_count h, h_event_count h, h_parent h,
   map (tx_proj_ped (ver_ge (h_ver h) (0, 11, 1))) (b_txs b), map snd (block_events (b_rcpts b))).

(* ---------- side conditions (all are width bounds of fixed-width fields, or the sequencer guarantee) ---------- *)
(* updatedContractsDigest writes len(deployed)+len(replaced) but enumerates the merged map: the count is
   the number of entries only if no address is both deployed and replaced (core/state_update.go comment) *)
Definition updated_ok (d : sdiff) : Prop :=
  length (merged_updates d) = (length (sd_deployed d) + length (sd_replaced d))%nat.

Definition block_wf (b : block) : Prop :=
  0 <= h_tx_count (b_hdr b) < 2^59 /\ u64 (h_event_count (b_hdr b)) /\ u64 (sd_length (b_diff b)) /\
  small (length (b_txs b)) /\ small (length (b_rcpts b)) /\ small (length (block_events (b_rcpts b))) /\
  updated_ok (b_diff b).

(* ---------- helpers ---------- *)
Lemma map_proj_inj : forall A B C (f : A -> B) (g : A -> C), (forall x y, f x = f y -> g x = g y) ->
  forall l1 l2, map f l1 = map f l2 -> map g l1 = map g l2.
Proof.
  intros A B C f g H. induction l1 as [|x l1 IH]; destruct l2 as [|y l2]; simpl; intros E; try discriminate; auto.
  injection E as E1 E2. f_equal; auto.
Qed.

Lemma leaves_ok_map : forall A (f : A -> term) l, (forall x, tzero (f x) = false) -> leaves_ok (map f l).
Proof. intros A f l H. unfold leaves_ok. apply Forall_forall. intros v I. apply in_map_iff in I. destruct I as (x & <- & _). apply H. Qed.

Lemma counted_tcs_inj0 : forall l1 l2, tlen l1 :: tcs l1 = tlen l2 :: tcs l2 -> l1 = l2.
Proof.
  intros l1 l2 H. rewrite <- (app_nil_r (tcs l1)), <- (app_nil_r (tcs l2)) in H.
  apply counted_tcs_inj in H. tauto.
Qed.

Lemma delim0 : forall A (enc : A -> list term), self_delim enc -> forall a b, enc a = enc b -> a = b.
Proof.
  intros A enc SD a b H. rewrite <- (app_nil_r (enc a)), <- (app_nil_r (enc b)) in H. apply SD in H. tauto.
Qed.

(* ---------- transaction leaves ---------- *)
Lemma tx_leaf_0134_inj : forall t1 t2, tx_leaf_0134 t1 = tx_leaf_0134 t2 -> tx_proj_0134 t1 = tx_proj_0134 t2.
Proof.
  unfold tx_leaf_0134, tx_proj_0134. intros t1 t2 H. injection H as E S. apply tcs_inj in S. congruence.
Qed.

Lemma tx_leaf_0132_inj : forall t1 t2, tx_leaf_0132 t1 = tx_leaf_0132 t2 -> tx_proj_0132 t1 = tx_proj_0132 t2.
Proof.
  unfold tx_leaf_0132, tx_proj_0132, sig_0132. intros t1 t2 H. injection H as E S.
  destruct (sig_of t1) as [|a s1], (sig_of t2) as [|b s2]; cbn [tcs map] in S.
  - congruence.
  - injection S as S0 S1. destruct s2; [|discriminate]. congruence.
  - injection S as S0 S1. destruct s1; [|discriminate]. congruence.
  - change (tcs (a :: s1) = tcs (b :: s2)) in S. apply tcs_inj in S. congruence.
Qed.

(* 0.13.2 really identifies the empty signature with [0] *)
Example sig_0132_not_injective : forall b h,
  tx_leaf_0132 {| t_body := b; t_sig := []; t_hash := h |} = tx_leaf_0132 {| t_body := b; t_sig := [0]; t_hash := h |}.
Proof. intros. unfold tx_leaf_0132, sig_of. simpl. destruct b; try reflexivity. destruct has_sig; reflexivity. Qed.

(* unfolding lemmas: used with [rewrite] so that no conversion problem ever mentions the trie at height 64 *)
Lemma tx_commitment_unfold : forall v l,
  tx_commitment v l = commit_root TPos2 (map (if v then tx_leaf_0134 else tx_leaf_0132) l).
Proof. reflexivity. Qed.
Lemma receipt_commitment_unfold : forall l, receipt_commitment l = commit_root TPos2 (map receipt_hash l).
Proof. reflexivity. Qed.
Lemma event_commitment_unfold : forall rs,
  event_commitment rs = commit_root TPos2 (map (fun te => event_hash (fst te) (snd te)) (block_events rs)).
Proof. reflexivity. Qed.
Lemma tx_commitment_ped_unfold : forall v l, tx_commitment_ped v l = commit_root TPed (map (tx_leaf_ped v) l).
Proof. reflexivity. Qed.
Lemma event_commitment_ped_unfold : forall rs,
  event_commitment_ped rs = commit_root TPed (map (fun te => event_hash_ped (snd te)) (block_events rs)).
Proof. reflexivity. Qed.
Global Opaque commit_root tx_commitment receipt_commitment event_commitment tx_commitment_ped event_commitment_ped.

Theorem tx_commitment_injective : forall v l1 l2, small (length l1) -> small (length l2) ->
  tx_commitment v l1 = tx_commitment v l2 ->
  if v then map tx_proj_0134 l1 = map tx_proj_0134 l2 else map tx_proj_0132 l1 = map tx_proj_0132 l2.
Proof.
  intros v l1 l2 S1 S2 H. rewrite !tx_commitment_unfold in H.
  apply commit_pos_injective in H; try (rewrite map_length; assumption);
    try (apply leaves_ok_map; intros x; destruct v; reflexivity).
  destruct v.
  - eapply map_proj_inj; [exact tx_leaf_0134_inj | exact H].
  - eapply map_proj_inj; [exact tx_leaf_0132_inj | exact H].
Qed.

(* ---------- receipts ---------- *)
Lemma msgs_hash_inj : forall m1 m2, msgs_hash m1 = msgs_hash m2 -> m1 = m2.
Proof.
  unfold msgs_hash. intros m1 m2 H. injection H as L T. apply Nat2Z.inj in L.
  destruct (concat_map_delim _ _ msg_enc_delim m1 m2 [] [] L) as [E _]; [rewrite !app_nil_r; exact T | exact E].
Qed.

Lemma receipt_hash_inj : forall r1 r2, receipt_hash r1 = receipt_hash r2 -> receipt_proj r1 = receipt_proj r2.
Proof.
  unfold receipt_hash, receipt_proj. intros r1 r2 H.
  assert (E : r_txhash r1 = r_txhash r2 /\ r_fee r1 = r_fee r2 /\ msgs_hash (r_msgs r1) = msgs_hash (r_msgs r2) /\
              revert_felt r1 = revert_felt r2 /\ r_l1gas r1 = r_l1gas r2 /\ r_l1datagas r1 = r_l1datagas r2).
  { remember (msgs_hash (r_msgs r1)) as a. remember (msgs_hash (r_msgs r2)) as b.
    injection H. intros. repeat split; assumption. }
  destruct E as (A & B & C & D & E & F). apply msgs_hash_inj in C. congruence.
Qed.

Theorem receipt_commitment_injective : forall l1 l2, small (length l1) -> small (length l2) ->
  receipt_commitment l1 = receipt_commitment l2 -> map receipt_proj l1 = map receipt_proj l2.
Proof.
  intros l1 l2 S1 S2 H. rewrite !receipt_commitment_unfold in H.
  apply commit_pos_injective in H; try (rewrite map_length; assumption);
    try (apply leaves_ok_map; intros x; reflexivity).
  eapply map_proj_inj; [exact receipt_hash_inj | exact H].
Qed.

(* ---------- events ---------- *)
Lemma event_hash_inj : forall t1 e1 t2 e2, event_hash t1 e1 = event_hash t2 e2 -> (t1, e1) = (t2, e2).
Proof.
  unfold event_hash. intros t1 [f1 k1 d1] t2 [f2 k2 d2]. cbn [e_from e_keys e_data]. intros H.
  assert (E : f1 = f2 /\ t1 = t2 /\ tlen k1 :: tcs k1 ++ tlen d1 :: tcs d1 = tlen k2 :: tcs k2 ++ tlen d2 :: tcs d2).
  { remember (tlen k1 :: tcs k1 ++ tlen d1 :: tcs d1) as a. remember (tlen k2 :: tcs k2 ++ tlen d2 :: tcs d2) as b.
    injection H. intros. repeat split; assumption. }
  destruct E as (-> & -> & E). apply counted_tcs_inj in E. destruct E as [-> E].
  apply counted_tcs_inj0 in E. subst. reflexivity.
Qed.

Theorem event_commitment_injective : forall r1 r2,
  small (length (block_events r1)) -> small (length (block_events r2)) ->
  event_commitment r1 = event_commitment r2 -> block_events r1 = block_events r2.
Proof.
  intros r1 r2 S1 S2 H. rewrite !event_commitment_unfold in H.
  apply commit_pos_injective in H; try (rewrite map_length; assumption);
    try (apply leaves_ok_map; intros x; reflexivity).
  rewrite <- (map_id (block_events r1)), <- (map_id (block_events r2)).
  eapply map_proj_inj; [|exact H]. intros [t1 e1] [t2 e2] E. cbn [fst snd] in E. apply event_hash_inj in E. exact E.
Qed.

(* ---------- state diff ---------- *)
Lemma single_delim : self_delim (fun z : Z => [TC z]).
Proof. intros a b r s H. simpl in H. injection H as -> ->. auto. Qed.

Lemma tcs_concat : forall l, tcs l = concat (map (fun z : Z => [TC z]) l).
Proof. induction l; simpl; [reflexivity | f_equal; exact IHl]. Qed.

Theorem sd_hash_injective : forall d1 d2, updated_ok d1 -> updated_ok d2 ->
  sd_hash d1 = sd_hash d2 -> diff_proj d1 = diff_proj d2.
Proof.
  unfold sd_hash, diff_proj, updated_ok. intros d1 d2 U1 U2 H.
  apply TPosN_inj in H. apply cons_inj in H. destruct H as [_ H].
  unfold updated_enc, declared_enc, v0_enc, storage_enc, nonces_enc in H.
  rewrite <- U1, <- U2 in *.
  (* section 1: updated contracts *)
  change (TC (Z.of_nat (length (merged_updates d1)))) with (tlen (merged_updates d1)) in H.
  change (TC (Z.of_nat (length (merged_updates d2)))) with (tlen (merged_updates d2)) in H.
  apply (counted_delim _ _ pair_enc_delim) in H. destruct H as [E1 H].
  (* section 2: declared + migrated *)
  apply (counted_delim _ _ pair_enc_delim) in H. destruct H as [E2 H].
  (* section 3: deprecated declared classes *)
  rewrite !tcs_concat in H.
  apply (counted_delim _ _ single_delim) in H. destruct H as [E3 H].
  (* placeholders, section 4: storage *)
  cbn [app] in H. apply cons_inj in H. destruct H as [_ H]. apply cons_inj in H. destruct H as [_ H].
  apply (counted_delim _ _ storage_entry_delim) in H. destruct H as [E4 H].
  (* section 5: nonces *)
  apply (delim0 _ _ (counted_delim _ _ pair_enc_delim)) in H.
  rewrite E1, E2, E3, E4, H. reflexivity.
Qed.

(* without the sequencer guarantee the encoding is ambiguous: a contract that is both deployed and replaced
   makes the count exceed the number of entries, and the surplus swallows part of the next section *)
Example sd_hash_needs_updated_ok :
  let d1 := {| sd_deployed := [(0, 1)]; sd_replaced := [(0, 2)]; sd_nonces := []; sd_storage := [];
               sd_declared_v0 := []; sd_declared_v1 := [(9, 0)]; sd_migrated := [] |} in
  let d2 := {| sd_deployed := [(0, 2); (1, 9)]; sd_replaced := []; sd_nonces := []; sd_storage := [];
               sd_declared_v0 := []; sd_declared_v1 := []; sd_migrated := [] |} in
  sd_hash d1 = sd_hash d2 /\ diff_proj d1 <> diff_proj d2.
Proof. split; [vm_compute; reflexivity | vm_compute; discriminate]. Qed.

(* ---------- block hash ---------- *)
Lemma gas_prices_hash_inj : forall h1 h2, gas_prices_hash h1 = gas_prices_hash h2 -> gas_0134 h1 = gas_0134 h2.
Proof. unfold gas_prices_hash, gas_0134. intros h1 h2 H. injection H. intros. congruence. Qed.

Lemma counts_term_inj : forall b1 b2, block_wf b1 -> block_wf b2 -> counts_term b1 = counts_term b2 ->
  counts_proj b1 = counts_proj b2.
Proof.
  unfold counts_term, counts_proj. intros b1 b2 (T1 & E1 & S1 & _) (T2 & E2 & S2 & _) H. injection H as H.
  apply concat_counts_injective in H; auto. destruct H as (-> & -> & -> & ->). reflexivity.
Qed.

Local Opaque tx_commitment event_commitment receipt_commitment sd_hash gas_prices_hash counts_term commit_root tx_commitment_ped event_commitment_ped.


Theorem preimage_injective_0134 : forall b1 b2, block_wf b1 -> block_wf b2 ->
  block_hash_0134 b1 = block_hash_0134 b2 -> committed_0134 b1 = committed_0134 b2.
Proof.
  intros b1 b2 W1 W2 H. unfold block_hash_0134 in H. cbv zeta in H.
  apply TPosN_inj in H. peel H.
  assert (W1' := W1). assert (W2' := W2).
  destruct W1' as (_ & _ & _ & St1 & Sr1 & Se1 & U1), W2' as (_ & _ & _ & St2 & Sr2 & Se2 & U2).
  apply TC_inj in E0. apply TC_inj in E2. apply TC_inj in E3. apply TC_inj in E10.
  apply counts_term_inj in E4; auto.
  apply sd_hash_injective in E5; auto.
  apply (tx_commitment_injective true) in E6; auto.
  apply event_commitment_injective in E7; auto.
  apply receipt_commitment_injective in E8; auto.
  apply gas_prices_hash_inj in E9.
  unfold committed_0134, header_common. rewrite E0, E1, E2, E3, E4, E5, E6, E7, E8, E9, E10, E12. reflexivity.
Qed.

Theorem preimage_injective_0132 : forall b1 b2, block_wf b1 -> block_wf b2 ->
  block_hash_0132 b1 = block_hash_0132 b2 -> committed_0132 b1 = committed_0132 b2.
Proof.
  intros b1 b2 W1 W2 H. unfold block_hash_0132 in H. cbv zeta in H.
  apply TPosN_inj in H. peel H.
  assert (W1' := W1). assert (W2' := W2).
  destruct W1' as (_ & _ & _ & St1 & Sr1 & Se1 & U1), W2' as (_ & _ & _ & St2 & Sr2 & Se2 & U2).
  apply TC_inj in E0. apply TC_inj in E2. apply TC_inj in E3.
  apply TC_inj in E9. apply TC_inj in E10. apply TC_inj in E11. apply TC_inj in E12. apply TC_inj in E13.
  apply counts_term_inj in E4; auto.
  apply sd_hash_injective in E5; auto.
  apply (tx_commitment_injective false) in E6; auto.
  apply event_commitment_injective in E7; auto.
  apply receipt_commitment_injective in E8; auto.
  unfold committed_0132, header_common, gas_0132.
  rewrite E0, E1, E2, E3, E4, E5, E6, E7, E8, E9, E10, E11, E12, E13, E15. reflexivity.
Qed.

(* the two formats never produce the same hash term: the domain-separation constant differs *)
Theorem formats_disjoint : forall b1 b2, block_hash_0134 b1 <> block_hash_0132 b2.
Proof.
  intros b1 b2 H. unfold block_hash_0134, block_hash_0132 in H. cbv zeta in H.
  apply TPosN_inj in H. apply cons_inj in H. destruct H as [H _]. apply TC_inj in H. vm_compute in H. discriminate H.
Qed.

(* ---------- post-0.7 format ---------- *)
Lemma TPedN_inj : forall a b, TPedN a = TPedN b -> a = b.
Proof. intros a b H. injection H. auto. Qed.

Lemma tx_leaf_ped_inj : forall v t1 t2, tx_leaf_ped v t1 = tx_leaf_ped v t2 -> tx_proj_ped v t1 = tx_proj_ped v t2.
Proof.
  unfold tx_leaf_ped, tx_proj_ped, sig_ped. intros v t1 t2 H. apply ped_inj in H. destruct H as [E S].
  apply TPedN_inj in S. apply tcs_inj in S. congruence.
Qed.

Lemma event_hash_ped_inj : forall e1 e2, event_hash_ped e1 = event_hash_ped e2 -> e1 = e2.
Proof.
  unfold event_hash_ped. intros [f1 k1 d1] [f2 k2 d2]. cbn [e_from e_keys e_data]. intros H.
  apply TPedN_inj in H. peel H. apply TC_inj in E. apply TPedN_inj in E0. apply TPedN_inj in E1.
  apply tcs_inj in E0. apply tcs_inj in E1. subst. reflexivity.
Qed.

Theorem tx_commitment_ped_injective : forall v l1 l2, small (length l1) -> small (length l2) ->
  tx_commitment_ped v l1 = tx_commitment_ped v l2 -> map (tx_proj_ped v) l1 = map (tx_proj_ped v) l2.
Proof.
  intros v l1 l2 S1 S2 H. rewrite !tx_commitment_ped_unfold in H.
  apply commit_ped_injective in H; try (rewrite map_length; assumption);
    try (apply leaves_ok_map; intros x; reflexivity).
  eapply map_proj_inj; [exact (tx_leaf_ped_inj v) | exact H].
Qed.

Theorem event_commitment_ped_injective : forall r1 r2,
  small (length (block_events r1)) -> small (length (block_events r2)) ->
  event_commitment_ped r1 = event_commitment_ped r2 -> map snd (block_events r1) = map snd (block_events r2).
Proof.
  intros r1 r2 S1 S2 H. rewrite !event_commitment_ped_unfold in H.
  apply commit_ped_injective in H; try (rewrite map_length; assumption);
    try (apply leaves_ok_map; intros x; reflexivity).
  eapply map_proj_inj; [|exact H]. intros [t1 e1] [t2 e2] E. cbn [snd] in *. apply event_hash_ped_inj. exact E.
Qed.

Theorem preimage_injective_post07 : forall b1 b2, block_wf b1 -> block_wf b2 ->
  sig_rule b1 = sig_rule b2 ->
  block_hash_post07 b1 = block_hash_post07 b2 -> committed_post07 b1 = committed_post07 b2.
Proof.
  intros b1 b2 W1 W2 V H. unfold sig_rule in V. unfold block_hash_post07 in H. cbv zeta in H. rewrite V in H.
  apply TPedN_inj in H. peel H.
  destruct W1 as (_ & _ & _ & St1 & Sr1 & Se1 & U1), W2 as (_ & _ & _ & St2 & Sr2 & Se2 & U2).
  apply TC_inj in E. apply TC_inj in E1. apply TC_inj in E2. apply TC_inj in E3. apply TC_inj in E5.
  apply tx_commitment_ped_injective in E4; auto.
  apply event_commitment_ped_injective in E6; auto.
  unfold committed_post07. cbv zeta. rewrite V, E, E0, E1, E2, E3, E4, E5, E6, E9. reflexivity.
Qed.

(* the Pedersen format never coincides with a Poseidon format *)
Theorem post07_disjoint : forall b1 b2, block_hash_post07 b1 <> block_hash_0134 b2 /\ block_hash_post07 b1 <> block_hash_0132 b2.
Proof. intros b1 b2. split; intros H; unfold block_hash_post07, block_hash_0134, block_hash_0132 in H; cbv zeta in H; discriminate H. Qed.

(* ---------- pre-0.7 format (early mainnet / goerli blocks) ---------- *)
Definition committed_pre07 (b : block) :=
  let h := b_hdr b in
  (h_number h, h_state_root h, h_tx_count h, h_parent h, map (tx_proj_ped (ver_ge (h_ver h) (0, 11, 1))) (b_txs b)).

Theorem preimage_injective_pre07 : forall ch b1 b2, block_wf b1 -> block_wf b2 -> sig_rule b1 = sig_rule b2 ->
  block_hash_pre07 ch b1 = block_hash_pre07 ch b2 -> committed_pre07 b1 = committed_pre07 b2.
Proof.
  intros ch b1 b2 W1 W2 V H. unfold sig_rule in V. unfold block_hash_pre07 in H. cbv zeta in H. rewrite V in H.
  apply TPedN_inj in H. peel H.
  destruct W1 as (_ & _ & _ & St1 & _), W2 as (_ & _ & _ & St2 & _).
  apply TC_inj in E. apply TC_inj in E3.
  apply tx_commitment_ped_injective in E4; auto.
  unfold committed_pre07. cbv zeta. rewrite V, E, E0, E3, E4, E10. reflexivity.
Qed.

(* 12 elements against 11: never the post-0.7 hash of any block *)
Theorem pre07_disjoint : forall ch b1 b2, block_hash_pre07 ch b1 <> block_hash_post07 b2.
Proof.
  intros ch b1 b2 H. unfold block_hash_pre07, block_hash_post07 in H. cbv zeta in H.
  apply TPedN_inj in H. apply (f_equal (@length term)) in H. simpl in H. discriminate H.
Qed.
