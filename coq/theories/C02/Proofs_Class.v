(* C02 — the Sierra class hash is an injective encoding of the class definition: version string, the three
   entry-point lists (selectors, function indices, order and lengths), the ABI text (through StarknetKeccak: equal
   or an explicit Keccak collision) and the program felts. *)
From Coq Require Import List ZArith Bool Lia ZifyBool.
From V Require Import C01.Term C02.Model C02.Proofs_Enc.
Import ListNotations.
Open Scope Z_scope.

(* ---------- byte strings as big-endian numbers ---------- *)
Definition bytes_ok (l : list Z) : Prop := Forall (fun b => 0 <= b < 256) l.

Lemma be_fold_acc : forall l a,
  fold_left (fun acc b => acc * 256 + b) l a = a * 256 ^ Z.of_nat (length l) + be_num l.
Proof.
  unfold be_num. induction l as [|x l IH]; intros a.
  - simpl. lia.
  - cbn [fold_left length]. rewrite IH. rewrite (IH (0 * 256 + x)).
    rewrite Nat2Z.inj_succ, Z.pow_succ_r by lia. lia.
Qed.

Lemma be_num_cons : forall x l, be_num (x :: l) = x * 256 ^ Z.of_nat (length l) + be_num l.
Proof. intros x l. unfold be_num at 1. cbn [fold_left]. rewrite be_fold_acc. lia. Qed.

Lemma be_num_bound : forall l, bytes_ok l -> 0 <= be_num l < 256 ^ Z.of_nat (length l).
Proof.
  induction 1 as [|x l Hx Hl IH].
  - cbn. lia.
  - rewrite be_num_cons. cbn [length]. rewrite Nat2Z.inj_succ, Z.pow_succ_r by lia.
    assert (0 < 256 ^ Z.of_nat (length l)) by (apply Z.pow_pos_nonneg; lia). nia.
Qed.

Lemma be_num_inj : forall l1 l2, bytes_ok l1 -> bytes_ok l2 -> length l1 = length l2 ->
  be_num l1 = be_num l2 -> l1 = l2.
Proof.
  induction l1 as [|x l1 IH]; intros [|y l2] B1 B2 L E; try discriminate; auto.
  inversion B1 as [|? ? Hx B1']; inversion B2 as [|? ? Hy B2']; subst.
  injection L as L. rewrite !be_num_cons, <- L in E.
  pose proof (be_num_bound _ B1') as R1. pose proof (be_num_bound _ B2') as R2. rewrite <- L in R2.
  assert (0 < 256 ^ Z.of_nat (length l1)) by (apply Z.pow_pos_nonneg; lia).
  assert (x = y) by nia. subst y. f_equal. apply IH; auto. lia.
Qed.

(* ---------- "CONTRACT_CLASS_V" ++ version ---------- *)
(* the whole string must fit a felt without reduction: at most 15 version bytes after the 16-byte prefix *)
Definition version_ok (v : list Z) : Prop := bytes_ok v /\ (length v <= 15)%nat.

Lemma prefix_bound : 256 ^ 15 <= c_contract_class_v < 256 ^ 16.
Proof. unfold c_contract_class_v. split; [apply Z.leb_le | apply Z.ltb_lt]; reflexivity. Qed.

Lemma version_word_small : forall v, version_ok v ->
  0 <= c_contract_class_v * 256 ^ Z.of_nat (length v) + be_num v < felt_P.
Proof.
  intros v [B L]. pose proof (be_num_bound v B) as R. pose proof prefix_bound as PB.
  assert (M : 256 ^ Z.of_nat (length v) <= 256 ^ 15) by (apply Z.pow_le_mono_r; lia).
  assert (0 < 256 ^ Z.of_nat (length v)) by (apply Z.pow_pos_nonneg; lia).
  assert (F : 256 ^ 16 * 256 ^ 15 < felt_P) by (apply Z.ltb_lt; reflexivity).
  split; [nia|].
  apply Z.lt_le_trans with ((c_contract_class_v + 1) * 256 ^ Z.of_nat (length v)); [nia|].
  apply Z.le_trans with (256 ^ 16 * 256 ^ 15); [|lia].
  apply Z.mul_le_mono_nonneg; lia.
Qed.

Lemma version_word_inj : forall v1 v2, bytes_ok v1 -> bytes_ok v2 ->
  c_contract_class_v * 256 ^ Z.of_nat (length v1) + be_num v1 =
  c_contract_class_v * 256 ^ Z.of_nat (length v2) + be_num v2 -> v1 = v2.
Proof.
  assert (K : forall v1 v2, bytes_ok v1 -> bytes_ok v2 -> (length v1 < length v2)%nat ->
              c_contract_class_v * 256 ^ Z.of_nat (length v1) + be_num v1 <
              c_contract_class_v * 256 ^ Z.of_nat (length v2) + be_num v2).
  { intros v1 v2 B1 B2 L. pose proof (be_num_bound _ B1) as R1. pose proof (be_num_bound _ B2) as R2.
    pose proof prefix_bound as PB.
    assert (P15 : 0 < 256 ^ 15) by (apply Z.pow_pos_nonneg; lia).
    replace (Z.of_nat (length v2)) with (Z.of_nat (length v1) + Z.of_nat (length v2 - length v1)) by lia.
    rewrite Z.pow_add_r by lia.
    assert (P1 : 0 < 256 ^ Z.of_nat (length v1)) by (apply Z.pow_pos_nonneg; lia).
    assert (D : 256 <= 256 ^ Z.of_nat (length v2 - length v1)).
    { change 256 with (256 ^ 1) at 1. apply Z.pow_le_mono_r; lia. }
    assert (c_contract_class_v * 256 ^ Z.of_nat (length v1) + be_num v1 < (c_contract_class_v + 1) * 256 ^ Z.of_nat (length v1)) by nia.
    assert ((c_contract_class_v + 1) * 256 ^ Z.of_nat (length v1) <= c_contract_class_v * (256 ^ Z.of_nat (length v1) * 256)) by nia.
    assert (c_contract_class_v * (256 ^ Z.of_nat (length v1) * 256) <=
            c_contract_class_v * (256 ^ Z.of_nat (length v1) * 256 ^ Z.of_nat (length v2 - length v1))).
    { apply Z.mul_le_mono_nonneg_l; [lia|]. apply Z.mul_le_mono_nonneg_l; lia. }
    lia. }
  intros v1 v2 B1 B2 E.
  destruct (Nat.lt_trichotomy (length v1) (length v2)) as [L|[L|L]].
  - specialize (K _ _ B1 B2 L). lia.
  - rewrite L in E. apply be_num_inj; auto. lia.
  - specialize (K _ _ B2 B1 L). lia.
Qed.

Theorem version_felt_injective : forall v1 v2, version_ok v1 -> version_ok v2 ->
  version_felt v1 = version_felt v2 -> v1 = v2.
Proof.
  unfold version_felt. intros v1 v2 O1 O2 E.
  rewrite !Z.mod_small in E by (apply version_word_small; assumption).
  destruct O1, O2. apply version_word_inj; auto.
Qed.

(* the bound is needed: felt.SetBytes reduces modulo P, so two long version strings can coincide (32 version
   bytes: zero, and P itself) *)
Definition long_v1 : list Z := repeat 0 32.
Definition long_v2 : list Z := [8;0;0;0;0;0;0;17] ++ repeat 0 23 ++ [1].
Example version_bound_needed :
  bytes_ok long_v1 /\ bytes_ok long_v2 /\ long_v1 <> long_v2 /\ version_felt long_v1 = version_felt long_v2.
Proof.
  split; [|split; [|split]].
  - unfold bytes_ok, long_v1. cbn [repeat]. repeat constructor; lia.
  - unfold bytes_ok, long_v2. cbn [repeat app]. repeat constructor; lia.
  - discriminate.
  - vm_compute. reflexivity.
Qed.

(* ---------- entry-point lists ---------- *)
Lemma eps_enc_inj : forall l1 l2, concat (map ep_enc l1) = concat (map ep_enc l2) -> l1 = l2.
Proof.
  induction l1 as [|[s1 i1] l1 IH]; intros [|[s2 i2] l2] H; simpl in H; try discriminate; auto.
  injection H as -> -> T. f_equal. apply IH. exact T.
Qed.

Lemma eps_hash_inj : forall l1 l2, eps_hash l1 = eps_hash l2 -> l1 = l2.
Proof. unfold eps_hash. intros l1 l2 H. injection H as H. apply eps_enc_inj. exact H. Qed.

(* ---------- the class hash ---------- *)
Definition class_ok_wf (c : sierra) : Prop := version_ok (sc_version c).

(* an explicit Keccak collision: two different byte strings with the same StarknetKeccak *)
Definition kec_collision (kec : list Z -> Z) (a1 a2 : list Z) : Prop := a1 <> a2 /\ kec a1 = kec a2.

Lemma list_Z_eq_dec : forall a b : list Z, {a = b} + {a <> b}.
Proof. apply list_eq_dec. apply Z.eq_dec. Qed.

Theorem class_hash_injective : forall kec c1 c2, class_ok_wf c1 -> class_ok_wf c2 ->
  class_hash kec c1 = class_hash kec c2 ->
  c1 = c2 \/ kec_collision kec (sc_abi c1) (sc_abi c2).
Proof.
  intros kec [v1 e1 h1 k1 a1 p1] [v2 e2 h2 k2 a2 p2] W1 W2 H.
  unfold class_hash, class_ok_wf in *. cbn [sc_version sc_external sc_l1handler sc_constructor sc_abi sc_program] in *.
  injection H as Hv He Hh Hk Ha Hp.
  apply version_felt_injective in Hv; auto.
  apply eps_enc_inj in He. apply eps_enc_inj in Hh. apply eps_enc_inj in Hk. apply tcs_inj in Hp.
  subst. destruct (list_Z_eq_dec a1 a2) as [->|N]; [left; reflexivity | right; split; assumption].
Qed.

(* every field takes part: a class that differs from c in any field has a different hash term, or exhibits a
   Keccak collision on the two ABI texts *)
Corollary class_field_committed : forall kec c c', class_ok_wf c -> class_ok_wf c' -> c' <> c ->
  class_hash kec c' <> class_hash kec c \/ kec_collision kec (sc_abi c') (sc_abi c).
Proof.
  intros kec c c' W W' N.
  destruct (list_Z_eq_dec (sc_abi c') (sc_abi c)) as [E|NE].
  - left. intros H. destruct (class_hash_injective kec c' c W' W H) as [->|[NA _]]; [apply N; reflexivity | apply NA; exact E].
  - destruct (Z.eq_dec (kec (sc_abi c')) (kec (sc_abi c))) as [K|K].
    + right. split; assumption.
    + left. intros H. unfold class_hash in H. injection H as _ _ _ _ Ha _. apply K. exact Ha.
Qed.
