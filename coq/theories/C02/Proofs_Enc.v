(* C02 — arithmetic packings are injective under their stated bounds; length-prefixed flattenings are
   self-delimiting. *)
From Coq Require Import List ZArith Bool Lia.
From V Require Import C01.Term C02.Model.
Import ListNotations.
Open Scope Z_scope.

(* ---------- ConcatCounts ---------- *)
Definition u64 (z : Z) : Prop := 0 <= z < 2^64.
Definition u32 (z : Z) : Prop := 0 <= z < 2^32.
Definition u128 (z : Z) : Prop := 0 <= z < 2^128.

Lemma pow_consts :
  2^32 = 4294967296 /\ 2^63 = 9223372036854775808 /\ 2^64 = 18446744073709551616 /\
  2^128 = 340282366920938463463374607431768211456 /\
  2^192 = 6277101735386680763835789423207666416102355444464034512896 /\
  2^59 = 576460752303423488 /\
  felt_P = 3618502788666131213697322783095070105623107215331596699973092056135872020481.
Proof. repeat split; reflexivity. Qed.

(* the transaction count must stay below 2^59: the 256-bit word is reduced modulo P (felt.SetBytes) *)
Theorem concat_counts_injective : forall t1 e1 s1 b1 t2 e2 s2 b2,
  0 <= t1 < 2^59 -> 0 <= t2 < 2^59 -> u64 e1 -> u64 e2 -> u64 s1 -> u64 s2 ->
  concat_counts t1 e1 s1 b1 = concat_counts t2 e2 s2 b2 ->
  t1 = t2 /\ e1 = e2 /\ s1 = s2 /\ b1 = b2.
Proof.
  unfold concat_counts, u64. intros t1 e1 s1 b1 t2 e2 s2 b2 Ht1 Ht2 He1 He2 Hs1 Hs2 H.
  destruct pow_consts as (P32 & P63 & P64 & P128 & P192 & P59 & PP).
  rewrite P59 in *. rewrite P64 in *.
  rewrite (Z.mod_small t1), (Z.mod_small e1), (Z.mod_small s1),
          (Z.mod_small t2), (Z.mod_small e2), (Z.mod_small s2) in H by lia.
  rewrite P192, P128, P63, PP in H.
  assert (D1 : 0 <= (if b1 then 9223372036854775808 else 0) < 18446744073709551616) by (destruct b1; lia).
  assert (D2 : 0 <= (if b2 then 9223372036854775808 else 0) < 18446744073709551616) by (destruct b2; lia).
  rewrite !Z.mod_small in H by lia.
  assert (t1 = t2) by lia. subst t2.
  assert (e1 = e2) by lia. subst e2.
  assert (s1 = s2) by lia. subst s2.
  repeat split; try reflexivity.
  destruct b1, b2; try reflexivity; lia.
Qed.

(* ---------- DA-mode packing ---------- *)
Theorem da_pack_injective : forall f1 n1 f2 n2, u32 f1 -> u32 n1 -> u32 f2 -> u32 n2 ->
  da_pack f1 n1 = da_pack f2 n2 -> f1 = f2 /\ n1 = n2.
Proof.
  unfold da_pack, u32. intros f1 n1 f2 n2 A B C D H.
  destruct pow_consts as (P32 & P63 & P64 & _). rewrite P32 in *. rewrite P64 in *.
  rewrite (Z.mod_small f1), (Z.mod_small n1), (Z.mod_small f2), (Z.mod_small n2) in H by lia.
  rewrite !Z.mod_small in H by lia. lia.
Qed.

(* ---------- resource bounds word ---------- *)
Theorem rb_felt_injective : forall name r1 r2,
  u64 (rb_amount r1) -> u64 (rb_amount r2) -> u128 (rb_price r1) -> u128 (rb_price r2) ->
  rb_felt name r1 = rb_felt name r2 -> r1 = r2.
Proof.
  unfold rb_felt, u64, u128. intros name [a1 p1] [a2 p2]; cbn [rb_amount rb_price]. intros A B C D H.
  destruct pow_consts as (_ & _ & P64 & P128 & P192 & _). rewrite P64, P128 in *. rewrite P192 in *.
  rewrite (Z.mod_small a1), (Z.mod_small a2), (Z.mod_small p1), (Z.mod_small p2) in H by lia.
  assert (a1 = a2) by lia. subst. assert (p1 = p2) by lia. subst. reflexivity.
Qed.

(* only the low 128 bits of the price are hashed (maxPriceBytes[16:]) *)
Example rb_price_bound_needed :
  rb_felt c_l1_gas {| rb_amount := 1; rb_price := 5 |} = rb_felt c_l1_gas {| rb_amount := 1; rb_price := 5 + 2^128 |}.
Proof. reflexivity. Qed.

Lemma ver_felt_inj : forall v1 q1 v2 q2, 0 <= v1 < 2^128 -> 0 <= v2 < 2^128 ->
  ver_felt v1 q1 = ver_felt v2 q2 -> v1 = v2 /\ q1 = q2.
Proof.
  unfold ver_felt. intros v1 q1 v2 q2 A B H. injection H as H.
  destruct pow_consts as (_ & _ & _ & P128 & _). rewrite P128 in *.
  destruct q1, q2; split; try reflexivity; lia.
Qed.

(* ---------- lists of constants ---------- *)
Lemma TC_inj : forall a b, TC a = TC b -> a = b.
Proof. intros a b H. injection H. auto. Qed.

Lemma tcs_inj : forall l1 l2, tcs l1 = tcs l2 -> l1 = l2.
Proof.
  unfold tcs. induction l1 as [|a l1 IH]; destruct l2 as [|b l2]; simpl; intros H; try discriminate; auto.
  injection H as E T. f_equal; auto.
Qed.

Lemma tcs_length : forall l, length (tcs l) = length l.
Proof. intros. unfold tcs. apply map_length. Qed.

Lemma tlen_inj : forall A B (l1 : list A) (l2 : list B), tlen l1 = tlen l2 -> length l1 = length l2.
Proof. unfold tlen. intros A B l1 l2 H. injection H as H. lia. Qed.

Lemma app_inj_len : forall A (a1 a2 r1 r2 : list A), length a1 = length a2 ->
  a1 ++ r1 = a2 ++ r2 -> a1 = a2 /\ r1 = r2.
Proof.
  induction a1 as [|x a1 IH]; destruct a2 as [|y a2]; simpl; intros r1 r2 L H; try discriminate; auto.
  injection H as E T. injection L as L. destruct (IH _ _ _ L T). subst. auto.
Qed.

(* a length-prefixed list of constants followed by anything *)
Lemma counted_tcs_inj : forall l1 l2 r1 r2,
  tlen l1 :: tcs l1 ++ r1 = tlen l2 :: tcs l2 ++ r2 -> l1 = l2 /\ r1 = r2.
Proof.
  intros l1 l2 r1 r2 H. injection H as L T. apply Nat2Z.inj in L.
  destruct (app_inj_len _ (tcs l1) (tcs l2) r1 r2) as [E R]; [rewrite !tcs_length; exact L | exact T |].
  split; [apply tcs_inj; exact E | exact R].
Qed.

(* ---------- self-delimiting encodings ---------- *)
Definition self_delim {A} (enc : A -> list term) : Prop :=
  forall a b r s, enc a ++ r = enc b ++ s -> a = b /\ r = s.

Lemma concat_map_delim : forall A (enc : A -> list term), self_delim enc ->
  forall l1 l2 r s, length l1 = length l2 ->
  concat (map enc l1) ++ r = concat (map enc l2) ++ s -> l1 = l2 /\ r = s.
Proof.
  intros A enc SD. induction l1 as [|a l1 IH]; destruct l2 as [|b l2]; simpl; intros r s L H; try discriminate; auto.
  injection L as L. rewrite <- !app_assoc in H. apply SD in H. destruct H as [-> H].
  destruct (IH _ _ _ L H). subst. auto.
Qed.

Lemma counted_delim : forall A (enc : A -> list term), self_delim enc ->
  self_delim (fun l : list A => tlen l :: concat (map enc l)).
Proof.
  intros A enc SD l1 l2 r s H. simpl in H. injection H as L T. apply Nat2Z.inj in L.
  eapply concat_map_delim; eauto.
Qed.

Lemma pair_enc_delim : self_delim pair_enc.
Proof.
  intros [a b] [c d] r s H. unfold pair_enc in H. simpl in H. injection H as -> -> ->. auto.
Qed.

Lemma storage_entry_delim : self_delim storage_entry_enc.
Proof.
  intros [a l1] [b l2] r s H. unfold storage_entry_enc in H. simpl in H.
  injection H as -> L T. apply Nat2Z.inj in L.
  destruct (concat_map_delim _ _ pair_enc_delim _ _ _ _ L T). subst. auto.
Qed.

Lemma msg_enc_delim : self_delim msg_enc.
Proof.
  intros [f1 t1 p1] [f2 t2 p2] r s H. unfold msg_enc in H. simpl in H.
  injection H as -> -> L T. apply Nat2Z.inj in L.
  destruct (app_inj_len _ (tcs p1) (tcs p2) r s) as [E R]; [rewrite !tcs_length; exact L | exact T |].
  apply tcs_inj in E. subst. auto.
Qed.
