(* C02 — the commitment tries (height 64, keyed by index) are injective on the free term algebra:
   equal roots, equal leaf lists. Built on C01's theorems (build is canonical and represents its map). *)
From Coq Require Import List ZArith Bool Arith Lia.
From V Require Import C01.Trie2 C01.Term C01.Trie2Proofs C01.Proofs2 C02.Model.
Import ListNotations.
Local Open Scope nat_scope.

Section TermTrie.
Variable hf : term -> term -> term.
Hypothesis hf_inj : forall a b c d, hf a b = hf c d -> a = c /\ b = d.
Hypothesis hf_not_addlen : forall a b c n, hf a b <> TAddLen c n.
Hypothesis hf_not_const : forall a b z, hf a b <> TC z.

Notation thash := (hash term hf TPath TAddLen).

Lemma thash_inj : forall (a : node term) h b,
  canonb term tzero h a = true -> canonb term tzero h b = true -> thash a = thash b -> a = b.
Proof.
  induction a as [v0|p c IHc|l IHl r IHr]; intros h b Ha Hb E.
  - apply canon_leaf_inv in Ha. destruct Ha as [-> _].
    destruct b as [v1|p' c'|l' r'].
    + simpl in E. congruence.
    + apply canon_edge_inv in Hb. destruct Hb as (A & B & _). destruct p'; [congruence|simpl in B; lia].
    + simpl in Hb. discriminate.
  - destruct b as [v1|p' c'|l' r'].
    + apply canon_leaf_inv in Hb. destruct Hb as [-> _].
      apply canon_edge_inv in Ha. destruct Ha as (A & B & _). destruct p; [congruence|simpl in B; lia].
    + simpl in E. injection E as E L.
      apply hf_inj in E. destruct E as [E1 E2]. injection E2 as ->.
      apply canon_edge_inv in Ha. destruct Ha as (A & B & C & D).
      apply canon_edge_inv in Hb. destruct Hb as (_ & _ & C' & D').
      f_equal. eapply IHc; eauto.
    + simpl in E. symmetry in E. apply hf_not_addlen in E. contradiction.
  - destruct b as [v1|p' c'|l' r'].
    + apply canon_leaf_inv in Hb. destruct Hb as [-> _]. simpl in Ha. discriminate.
    + simpl in E. apply hf_not_addlen in E. contradiction.
    + simpl in E. apply hf_inj in E. destruct E as [E1 E2].
      apply canon_bin_inv in Ha. destruct Ha as (h' & -> & Cl & Cr).
      apply canon_bin_inv in Hb. destruct Hb as (h'' & E & Cl' & Cr'). injection E as <-.
      f_equal; [eapply IHl | eapply IHr]; eauto.
Qed.

Lemma thash_not_zero : forall (a : node term) h, canonb term tzero h a = true -> thash a <> TC 0.
Proof.
  intros [v|p c|l r] h Ha; simpl.
  - apply canon_leaf_inv in Ha. destruct Ha as [_ Z]. intros ->. simpl in Z. discriminate.
  - discriminate.
  - apply hf_not_const.
Qed.

Notation troot := (root term hf TPath TAddLen (TC 0)).

Lemma troot_inj : forall h (a b : tree term),
  canont term tzero h a = true -> canont term tzero h b = true -> troot a = troot b -> a = b.
Proof.
  intros h [a|] [b|] Ha Hb E; simpl in *.
  - f_equal. eapply thash_inj; eauto.
  - exfalso. eapply thash_not_zero; eauto.
  - exfalso. eapply thash_not_zero; eauto.
  - reflexivity.
Qed.

(* equal commitments of two well-formed maps: the maps agree on every key *)
Lemma spec_root_assoc : forall h m1 m2, wf_map term tzero h m1 -> wf_map term tzero h m2 ->
  spec_root term hf TPath TAddLen (TC 0) h m1 = spec_root term hf TPath TAddLen (TC 0) h m2 ->
  forall k, length k = h -> assoc term m1 k = assoc term m2 k.
Proof.
  intros h m1 m2 W1 W2 E k L. unfold spec_root in E.
  assert (B : build term h m1 = build term h m2).
  { eapply troot_inj; eauto using build_canon. }
  rewrite <- (get_build term tzero h m1 k W1 L), <- (get_build term tzero h m2 k W2 L), B. reflexivity.
Qed.
End TermTrie.

(* ---------- index keys ---------- *)
Lemma bits_of_Z_inj : forall h a b, (0 <= a < 2 ^ Z.of_nat h)%Z -> (0 <= b < 2 ^ Z.of_nat h)%Z ->
  bits_of_Z h a = bits_of_Z h b -> a = b.
Proof.
  induction h as [|h IH]; intros a b A B E.
  - simpl in A, B. lia.
  - simpl in E. apply app_inj_tail in E. destruct E as [E O].
    assert (P : (2 ^ Z.of_nat (S h) = 2 * 2 ^ Z.of_nat h)%Z) by (rewrite Nat2Z.inj_succ; apply Z.pow_succ_r; lia).
    rewrite P in A, B.
    assert (Da := Z.div2_odd a). assert (Db := Z.div2_odd b).
    assert (Z.div2 a = Z.div2 b).
    { apply IH; auto.
      - destruct (Z.odd a); unfold Z.b2z in Da; lia.
      - destruct (Z.odd b); unfold Z.b2z in Db; lia. }
    rewrite Da, Db, O. congruence.
Qed.

Lemma bits_of_Z_length : forall h z, length (bits_of_Z h z) = h.
Proof. induction h; intros; simpl; [reflexivity | rewrite app_length, IHh; simpl; lia]. Qed.

Definition small (n : nat) : Prop := (Z.of_nat n <= 2 ^ 64)%Z.

Lemma ikey_inj : forall i j, (Z.of_nat i < 2 ^ 64)%Z -> (Z.of_nat j < 2 ^ 64)%Z -> ikey i = ikey j -> i = j.
Proof.
  intros i j A B E. unfold ikey, CH in E. apply bits_of_Z_inj in E; simpl Z.of_nat; try lia.
Qed.

Lemma ikey_length : forall i, length (ikey i) = CH.
Proof. intros. apply bits_of_Z_length. Qed.

(* indexed with an explicit start offset *)
Definition indexed_from (s : nat) (l : list term) : list (list bool * term) :=
  map (fun iv => (ikey (fst iv), snd iv)) (combine (seq s (length l)) l).

Lemma indexed_from_cons : forall s x l, indexed_from s (x :: l) = (ikey s, x) :: indexed_from (S s) l.
Proof. reflexivity. Qed.

Lemma indexed_is_from : forall l, indexed l = indexed_from 0 l.
Proof. reflexivity. Qed.

Lemma in_indexed_from : forall l s k v, In (k, v) (indexed_from s l) ->
  exists i, k = ikey (s + i) /\ nth_error l i = Some v.
Proof.
  induction l as [|x l IH]; intros s k v H.
  - destruct H.
  - rewrite indexed_from_cons in H. destruct H as [H|H].
    + injection H as <- <-. exists 0. rewrite Nat.add_0_r. auto.
    + apply IH in H. destruct H as (i & -> & N). exists (S i). rewrite Nat.add_succ_r. auto.
Qed.

Lemma nth_in_indexed_from : forall l s i v, nth_error l i = Some v -> In (ikey (s + i), v) (indexed_from s l).
Proof.
  induction l as [|x l IH]; intros s i v H.
  - destruct i; discriminate.
  - rewrite indexed_from_cons. destruct i as [|i]; simpl in H.
    + injection H as ->. left. rewrite Nat.add_0_r. reflexivity.
    + right. rewrite Nat.add_succ_r. apply (IH (S s)). exact H.
Qed.

Lemma keys_indexed_from : forall l s k, In k (map fst (indexed_from s l)) -> exists i, i < length l /\ k = ikey (s + i).
Proof.
  intros l s k H. apply in_map_iff in H. destruct H as ([k' v] & <- & H).
  apply in_indexed_from in H. destruct H as (i & -> & N). exists i. split; auto.
  apply nth_error_Some. congruence.
Qed.

Lemma nodup_indexed_from : forall l s, (Z.of_nat (s + length l) <= 2 ^ 64)%Z -> NoDup (map fst (indexed_from s l)).
Proof.
  induction l as [|x l IH]; intros s B.
  - constructor.
  - rewrite indexed_from_cons. simpl map. constructor.
    + intros H. apply keys_indexed_from in H. destruct H as (i & L & E).
      simpl in B. apply ikey_inj in E; lia.
    + apply IH. simpl in B. lia.
Qed.

Definition leaves_ok (l : list term) : Prop := Forall (fun v => tzero v = false) l.

Lemma wf_indexed : forall l, small (length l) -> leaves_ok l -> wf_map term tzero CH (indexed l).
Proof.
  intros l S Z. split.
  - rewrite indexed_is_from. apply nodup_indexed_from. exact S.
  - apply Forall_forall. intros [k v] H. rewrite indexed_is_from in H. apply in_indexed_from in H.
    destruct H as (i & -> & N). split; [apply ikey_length|].
    cbn [snd]. unfold leaves_ok in Z. rewrite Forall_forall in Z. apply Z. eapply nth_error_In; eauto.
Qed.

Lemma assoc_indexed : forall l i, small (length l) -> (Z.of_nat i < 2 ^ 64)%Z ->
  assoc term (indexed l) (ikey i) = nth_error l i.
Proof.
  intros l i S B. destruct (nth_error l i) as [v|] eqn:N.
  - apply assoc_in.
    + rewrite indexed_is_from. apply nodup_indexed_from. exact S.
    + rewrite indexed_is_from. apply (nth_in_indexed_from l 0 i v N).
  - apply assoc_none. intros H. rewrite indexed_is_from in H. apply keys_indexed_from in H.
    destruct H as (j & L & E). simpl in E. unfold small in S. apply ikey_inj in E; try lia.
    subst j. apply nth_error_None in N. lia.
Qed.

Lemma nth_error_ext' : forall A (l1 l2 : list A), (forall i, nth_error l1 i = nth_error l2 i) -> l1 = l2.
Proof.
  induction l1 as [|x l1 IH]; destruct l2 as [|y l2]; intros H; auto.
  - specialize (H 0). discriminate.
  - specialize (H 0). discriminate.
  - f_equal. + specialize (H 0). simpl in H. congruence.
    + apply IH. intros i. apply (H (S i)).
Qed.

(* the commitment over the term algebra determines the list of leaves *)
(* stated for an arbitrary height so that no term ever contains [build] at the literal height 64
   ([build] recurses on the height first and explores both halves: conversion on it would not finish) *)
Lemma spec_fast_assoc : forall hf,
  (forall a b c d, hf a b = hf c d -> a = c /\ b = d) ->
  (forall a b c n, hf a b <> TAddLen c n) -> (forall a b z, hf a b <> TC z) ->
  forall h m1 m2, wf_map term tzero h m1 -> wf_map term tzero h m2 ->
  spec_root_fast term hf TPath TAddLen (TC 0) h m1 = spec_root_fast term hf TPath TAddLen (TC 0) h m2 ->
  forall k, length k = h -> assoc term m1 k = assoc term m2 k.
Proof.
  intros hf I N C h m1 m2 W1 W2 E. rewrite !spec_root_fast_eq in E.
  exact (spec_root_assoc hf I N C h _ _ W1 W2 E).
Qed.

Lemma commit_root_unfold : forall hf l,
  commit_root hf l = spec_root_fast term hf TPath TAddLen (TC 0) CH (indexed l).
Proof. intros. unfold commit_root. apply eq_refl. Qed.

Lemma commit_root_assoc : forall hf,
  (forall a b c d, hf a b = hf c d -> a = c /\ b = d) ->
  (forall a b c n, hf a b <> TAddLen c n) -> (forall a b z, hf a b <> TC z) ->
  forall l1 l2, small (length l1) -> small (length l2) -> leaves_ok l1 -> leaves_ok l2 ->
  commit_root hf l1 = commit_root hf l2 ->
  forall k, length k = CH -> assoc term (indexed l1) k = assoc term (indexed l2) k.
Proof.
  intros hf I N C l1 l2 S1 S2 Z1 Z2 E.
  assert (W1 := wf_indexed l1 S1 Z1). assert (W2 := wf_indexed l2 S2 Z2).
  rewrite !commit_root_unfold in E. revert W1 W2 E. generalize (indexed l1) (indexed l2). generalize CH.
  intros h m1 m2 W1 W2 E. exact (spec_fast_assoc hf I N C h m1 m2 W1 W2 E).
Time Qed.

Lemma nth_from_assoc : forall l1 l2, small (length l1) -> small (length l2) ->
  (forall k, length k = CH -> assoc term (indexed l1) k = assoc term (indexed l2) k) ->
  forall i, nth_error l1 i = nth_error l2 i.
Proof.
  intros l1 l2 S1 S2 A i.
  destruct (Z_lt_dec (Z.of_nat i) (2 ^ 64)) as [B|B].
  - rewrite <- (assoc_indexed l1 i S1 B), <- (assoc_indexed l2 i S2 B). apply A. apply ikey_length.
  - unfold small in *.
    assert (N1 : nth_error l1 i = None) by (apply nth_error_None; lia).
    assert (N2 : nth_error l2 i = None) by (apply nth_error_None; lia).
    congruence.
Time Qed.

Theorem commit_root_injective : forall hf,
  (forall a b c d, hf a b = hf c d -> a = c /\ b = d) ->
  (forall a b c n, hf a b <> TAddLen c n) -> (forall a b z, hf a b <> TC z) ->
  forall l1 l2, small (length l1) -> small (length l2) -> leaves_ok l1 -> leaves_ok l2 ->
  commit_root hf l1 = commit_root hf l2 -> l1 = l2.
Proof.
  intros hf I N C l1 l2 S1 S2 Z1 Z2 E.
  apply nth_error_ext'. apply nth_from_assoc; auto.
  eapply commit_root_assoc; eauto.
Time Qed.

Lemma pos2_inj : forall a b c d, TPos2 a b = TPos2 c d -> a = c /\ b = d.
Proof. intros a b c d H. injection H. auto. Qed.
Lemma pos2_not_addlen : forall a b c n, TPos2 a b <> TAddLen c n.
Proof. discriminate. Qed.
Lemma pos2_not_const : forall a b z, TPos2 a b <> TC z.
Proof. discriminate. Qed.

Corollary commit_pos_injective : forall l1 l2, small (length l1) -> small (length l2) ->
  leaves_ok l1 -> leaves_ok l2 -> commit_root TPos2 l1 = commit_root TPos2 l2 -> l1 = l2.
Proof. apply commit_root_injective; [exact pos2_inj | exact pos2_not_addlen | exact pos2_not_const]. Qed.

Lemma ped_inj : forall a b c d, TPed a b = TPed c d -> a = c /\ b = d.
Proof. intros a b c d H. injection H. auto. Qed.
Lemma ped_not_addlen : forall a b c n, TPed a b <> TAddLen c n.
Proof. discriminate. Qed.
Lemma ped_not_const : forall a b z, TPed a b <> TC z.
Proof. discriminate. Qed.

Corollary commit_ped_injective : forall l1 l2, small (length l1) -> small (length l2) ->
  leaves_ok l1 -> leaves_ok l2 -> commit_root TPed l1 = commit_root TPed l2 -> l1 = l2.
Proof. apply commit_root_injective; [exact ped_inj | exact ped_not_addlen | exact ped_not_const]. Qed.
