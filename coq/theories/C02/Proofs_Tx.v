(* C02 — the transaction hash is an injective encoding of the transaction's fields (free term algebra),
   for every modelled kind and across kinds, under the width bounds of the packed fields. *)
From Coq Require Import List ZArith Bool Lia.
From V Require Import C01.Term C02.Model C02.Proofs_Enc.
Import ListNotations.
Open Scope Z_scope.

Definition rb_ok (r : rbound) : Prop := u64 (rb_amount r) /\ u128 (rb_price r).
Definition v3_ok (c : v3c) : Prop :=
  rb_ok (v_l1 c) /\ rb_ok (v_l2 c) /\ match v_l1d c with Some r => rb_ok r | None => True end /\
  u32 (v_nonce_da c) /\ u32 (v_fee_da c).
Definition tx_ok (t : tx) : Prop :=
  match t with
  | InvokeV3 _ _ _ c _ _ _ | DeclareV3 _ _ _ c _ _ _ | DeployAccountV3 _ _ _ c _ _ _ => v3_ok c
  | Unverified _ => False        (* its hash is not a function of its fields: juno does not recompute it *)
  | _ => True
  end.

Lemma tip_rb_hash_inj : forall c1 c2, v3_ok c1 -> v3_ok c2 -> tip_rb_hash c1 = tip_rb_hash c2 ->
  v_tip c1 = v_tip c2 /\ v_l1 c1 = v_l1 c2 /\ v_l2 c1 = v_l2 c2 /\ v_l1d c1 = v_l1d c2.
Proof.
  intros c1 c2 (A1 & B1 & D1 & _) (A2 & B2 & D2 & _) H. unfold tip_rb_hash in H.
  destruct A1, A2, B1, B2.
  destruct (v_l1d c1) as [r1|], (v_l1d c2) as [r2|]; simpl in H; try discriminate.
  - injection H as T L1 L2 L3. destruct D1, D2.
    apply rb_felt_injective in L1; [|assumption..]. apply rb_felt_injective in L2; [|assumption..].
    apply rb_felt_injective in L3; [|assumption..].
    repeat split; congruence.
  - injection H as T L1 L2.
    apply rb_felt_injective in L1; [|assumption..]. apply rb_felt_injective in L2; [|assumption..].
    repeat split; congruence.
Qed.

Lemma v3c_inj : forall c1 c2, v3_ok c1 -> v3_ok c2 ->
  tip_rb_hash c1 = tip_rb_hash c2 -> tcs (v_paymaster c1) = tcs (v_paymaster c2) ->
  da_pack (v_fee_da c1) (v_nonce_da c1) = da_pack (v_fee_da c2) (v_nonce_da c2) -> c1 = c2.
Proof.
  intros c1 c2 O1 O2 H P D.
  destruct (tip_rb_hash_inj _ _ O1 O2 H) as (T & L1 & L2 & L3).
  destruct O1 as (_ & _ & _ & N1 & F1), O2 as (_ & _ & _ & N2 & F2).
  apply da_pack_injective in D; auto. destruct D as [Df Dn]. apply tcs_inj in P.
  destruct c1, c2; simpl in *; subst; reflexivity.
Qed.

Lemma ver_q : forall v q1 q2, 0 <= v < 2^128 -> ver_felt v q1 = ver_felt v q2 -> q1 = q2.
Proof. intros v q1 q2 B H. apply ver_felt_inj in H; auto. tauto. Qed.

Lemma small_vers : (0 <= 0 < 2^128) /\ (0 <= 1 < 2^128) /\ (0 <= 2 < 2^128) /\ (0 <= 3 < 2^128).
Proof. destruct pow_consts as (_ & _ & _ & P128 & _). rewrite P128. lia. Qed.

Lemma consts_distinct :
  c_invoke <> c_declare /\ c_invoke <> c_l1_handler /\ c_invoke <> c_deploy_account /\
  c_declare <> c_l1_handler /\ c_declare <> c_deploy_account /\ c_l1_handler <> c_deploy_account.
Proof. repeat split; intro H; vm_compute in H; discriminate H. Qed.

Local Opaque tip_rb_hash da_pack.

Ltac q_step :=
  match goal with
  | V : context [if ?a then _ else _] |- _ =>
      match type of V with
      | context [if ?b then _ else _] =>
          tryif constr_eq a b then fail else
          let ty := type of a in
          lazymatch ty with bool => idtac | _ => fail end;
          (assert (a = b) by (destruct a, b; try reflexivity; exfalso; vm_compute in V; discriminate V); subst b; clear V)
      end
  end.
Ltac inj_all H :=
  injection H; clear H; intros;
  repeat match goal with
         | E : tcs _ = tcs _ |- _ => apply tcs_inj in E
         end;
  try q_step.

Lemma cons_inj : forall A (x y : A) l m, x :: l = y :: m -> x = y /\ l = m.
Proof. intros A x y l m H. injection H. auto. Qed.
Lemma TPosN_inj : forall a b, TPosN a = TPosN b -> a = b.
Proof. intros a b H. injection H. auto. Qed.
Lemma TPosN_tcs_inj : forall a b, TPosN (tcs a) = TPosN (tcs b) -> a = b.
Proof. intros a b H. apply TPosN_inj in H. apply tcs_inj. exact H. Qed.
(* peel a list equation element by element without ever reducing the elements *)
Ltac peel H := repeat (let E := fresh "E" in apply cons_inj in H; destruct H as [E H]).

(* per-kind statements *)
Theorem tx_hash_injective_invoke_v0 : forall ch q1 a1 b1 c1 d1 q2 a2 b2 c2 d2,
  tx_hash ch (InvokeV0 q1 a1 b1 c1 d1) = tx_hash ch (InvokeV0 q2 a2 b2 c2 d2) ->
  InvokeV0 q1 a1 b1 c1 d1 = InvokeV0 q2 a2 b2 c2 d2.
Proof.
  intros until d2. cbn [tx_hash]. intros H. inj_all H. subst. reflexivity.
Qed.

Theorem tx_hash_injective_invoke_v1 : forall ch q1 a1 b1 c1 d1 q2 a2 b2 c2 d2,
  tx_hash ch (InvokeV1 q1 a1 b1 c1 d1) = tx_hash ch (InvokeV1 q2 a2 b2 c2 d2) ->
  InvokeV1 q1 a1 b1 c1 d1 = InvokeV1 q2 a2 b2 c2 d2.
Proof.
  intros until d2. cbn [tx_hash]. intros H. inj_all H. subst. reflexivity.
Qed.

Theorem tx_hash_injective_invoke_v3 : forall ch q1 s1 n1 c1 ad1 cd1 pf1 q2 s2 n2 c2 ad2 cd2 pf2,
  v3_ok c1 -> v3_ok c2 ->
  tx_hash ch (InvokeV3 q1 s1 n1 c1 ad1 cd1 pf1) = tx_hash ch (InvokeV3 q2 s2 n2 c2 ad2 cd2 pf2) ->
  InvokeV3 q1 s1 n1 c1 ad1 cd1 pf1 = InvokeV3 q2 s2 n2 c2 ad2 cd2 pf2.
Proof.
  intros until pf2. intros O1 O2. cbn [tx_hash app]. intros H.
  assert (E : q1 = q2 /\ s1 = s2 /\ n1 = n2 /\ c1 = c2 /\ ad1 = ad2 /\ cd1 = cd2 /\
              match pf1 with [] => [] | _ => [TPosN (tcs pf1)] end = match pf2 with [] => [] | _ => [TPosN (tcs pf2)] end).
  { apply TPosN_inj in H. peel H.
    apply ver_q in E0; [|apply small_vers]. apply TC_inj in E1. apply TPosN_inj in E3. apply TC_inj in E5.
    apply TC_inj in E6. apply TPosN_tcs_inj in E7. apply TPosN_tcs_inj in E8.
    assert (c1 = c2) by (apply v3c_inj; auto). repeat split; auto. }
  destruct E as (-> & -> & -> & -> & -> & -> & F).
  assert (pf1 = pf2).
  { destruct pf1 as [|x1 p1], pf2 as [|x2 p2]; try discriminate; auto.
    apply cons_inj in F. destruct F as [F _]. apply TPosN_tcs_inj in F. exact F. }
  subst. reflexivity.
Qed.

Theorem tx_hash_injective_declare_v1 : forall ch q1 a1 b1 c1 d1 q2 a2 b2 c2 d2,
  tx_hash ch (DeclareV1 q1 a1 b1 c1 d1) = tx_hash ch (DeclareV1 q2 a2 b2 c2 d2) ->
  DeclareV1 q1 a1 b1 c1 d1 = DeclareV1 q2 a2 b2 c2 d2.
Proof.
  intros until d2. cbn [tx_hash]. intros H. inj_all H. subst. reflexivity.
Qed.

Theorem tx_hash_injective_declare_v2 : forall ch q1 a1 b1 c1 d1 e1 q2 a2 b2 c2 d2 e2,
  tx_hash ch (DeclareV2 q1 a1 b1 c1 d1 e1) = tx_hash ch (DeclareV2 q2 a2 b2 c2 d2 e2) ->
  DeclareV2 q1 a1 b1 c1 d1 e1 = DeclareV2 q2 a2 b2 c2 d2 e2.
Proof.
  intros until e2. cbn [tx_hash]. intros H. inj_all H. subst. reflexivity.
Qed.

Theorem tx_hash_injective_declare_v3 : forall ch q1 s1 n1 c1 ad1 h1 k1 q2 s2 n2 c2 ad2 h2 k2,
  v3_ok c1 -> v3_ok c2 ->
  tx_hash ch (DeclareV3 q1 s1 n1 c1 ad1 h1 k1) = tx_hash ch (DeclareV3 q2 s2 n2 c2 ad2 h2 k2) ->
  DeclareV3 q1 s1 n1 c1 ad1 h1 k1 = DeclareV3 q2 s2 n2 c2 ad2 h2 k2.
Proof.
  intros until k2. intros O1 O2. cbn [tx_hash]. intros H. apply TPosN_inj in H. peel H.
  apply ver_q in E0; [|apply small_vers]. apply TC_inj in E1. apply TPosN_inj in E3. apply TC_inj in E5.
  apply TC_inj in E6. apply TPosN_tcs_inj in E7. apply TC_inj in E8. apply TC_inj in E9.
  assert (c1 = c2) by (apply v3c_inj; auto). subst. reflexivity.
Qed.

Theorem tx_hash_injective_deploy_account_v1 : forall ch q1 a1 b1 c1 d1 e1 f1 q2 a2 b2 c2 d2 e2 f2,
  tx_hash ch (DeployAccountV1 q1 a1 b1 c1 d1 e1 f1) = tx_hash ch (DeployAccountV1 q2 a2 b2 c2 d2 e2 f2) ->
  DeployAccountV1 q1 a1 b1 c1 d1 e1 f1 = DeployAccountV1 q2 a2 b2 c2 d2 e2 f2.
Proof.
  intros until f2. cbn [tx_hash]. intros H. inj_all H. subst. reflexivity.
Qed.

Theorem tx_hash_injective_deploy_account_v3 : forall ch q1 a1 n1 c1 ct1 h1 s1 q2 a2 n2 c2 ct2 h2 s2,
  v3_ok c1 -> v3_ok c2 ->
  tx_hash ch (DeployAccountV3 q1 a1 n1 c1 ct1 h1 s1) = tx_hash ch (DeployAccountV3 q2 a2 n2 c2 ct2 h2 s2) ->
  DeployAccountV3 q1 a1 n1 c1 ct1 h1 s1 = DeployAccountV3 q2 a2 n2 c2 ct2 h2 s2.
Proof.
  intros until s2. intros O1 O2. cbn [tx_hash]. intros H. apply TPosN_inj in H. peel H.
  apply ver_q in E0; [|apply small_vers]. apply TC_inj in E1. apply TPosN_inj in E3. apply TC_inj in E5.
  apply TC_inj in E6. apply TPosN_tcs_inj in E7. apply TC_inj in E8. apply TC_inj in E9.
  assert (c1 = c2) by (apply v3c_inj; auto). subst. reflexivity.
Qed.

Theorem tx_hash_injective_l1_handler : forall ch q1 a1 b1 c1 d1 q2 a2 b2 c2 d2,
  tx_hash ch (L1Handler q1 a1 b1 c1 d1) = tx_hash ch (L1Handler q2 a2 b2 c2 d2) ->
  L1Handler q1 a1 b1 c1 d1 = L1Handler q2 a2 b2 c2 d2.
Proof.
  intros until d2. cbn [tx_hash]. intros H. inj_all H. subst. reflexivity.
Qed.

(* across kinds: the type prefix, the version word, the hash family and the arity separate them *)
Theorem tx_hash_injective : forall ch t1 t2, tx_ok t1 -> tx_ok t2 -> tx_hash ch t1 = tx_hash ch t2 -> t1 = t2.
Proof.
  intros ch t1 t2 O1 O2 H.
  destruct consts_distinct as (D1 & D2 & D3 & D4 & D5 & D6).
  destruct t1, t2; try (simpl in O1, O2; contradiction);
    try (exfalso; simpl in H;
         repeat match goal with
                | H : context [match ?pf with [] => _ | _ :: _ => _ end] |- _ => destruct pf
                end; simpl in H; congruence).
  - apply (tx_hash_injective_invoke_v0 ch); exact H.
  - apply (tx_hash_injective_invoke_v1 ch); exact H.
  - apply (tx_hash_injective_invoke_v3 ch); auto.
  - apply (tx_hash_injective_declare_v1 ch); exact H.
  - apply (tx_hash_injective_declare_v2 ch); exact H.
  - apply (tx_hash_injective_declare_v3 ch); auto.
  - apply (tx_hash_injective_deploy_account_v1 ch); exact H.
  - apply (tx_hash_injective_deploy_account_v3 ch); auto.
  - apply (tx_hash_injective_l1_handler ch); exact H.
Qed.
