(* C02 — property theorems only (proofs in Proofs_*.v). Everything is over the FREE term algebra of the
   hash primitives (C01.Term): equality of hash terms is syntactic, so the injectivity theorems say that the
   ENCODINGS juno feeds to Pedersen/Poseidon are unambiguous and that every committed field reaches the hash
   input. Collision resistance of the primitives themselves is out of scope (and not assumed). *)
From Coq Require Import List ZArith Bool Lia.
From V Require Import C01.Term C01.State C02.Model C02.Proofs_Enc C02.Proofs_Trie C02.Proofs_Tx C02.Proofs_Block C02.Proofs_Accept.
Import ListNotations.
Open Scope Z_scope.

(* ConcatCounts: injective for tx count < 2^59 (above, the 256-bit word wraps modulo P), 64-bit other counts *)
Theorem C02_concat_counts_injective : forall t1 e1 s1 b1 t2 e2 s2 b2,
  0 <= t1 < 2^59 -> 0 <= t2 < 2^59 -> u64 e1 -> u64 e2 -> u64 s1 -> u64 s2 ->
  concat_counts t1 e1 s1 b1 = concat_counts t2 e2 s2 b2 -> t1 = t2 /\ e1 = e2 /\ s1 = s2 /\ b1 = b2.
Proof. exact concat_counts_injective. Qed.
Print Assumptions C02_concat_counts_injective.

(* every transaction kind and version of the model, and across kinds *)
Theorem C02_tx_hash_injective : forall ch t1 t2, tx_ok t1 -> tx_ok t2 -> tx_hash ch t1 = tx_hash ch t2 -> t1 = t2.
Proof. exact tx_hash_injective. Qed.
Print Assumptions C02_tx_hash_injective.

(* commitment tries (height 64, keyed by index): equal roots, equal leaf lists *)
Theorem C02_commitment_injective : forall l1 l2, small (length l1) -> small (length l2) ->
  leaves_ok l1 -> leaves_ok l2 -> commit_root TPos2 l1 = commit_root TPos2 l2 -> l1 = l2.
Proof. exact commit_pos_injective. Qed.
Print Assumptions C02_commitment_injective.

Theorem C02_state_diff_hash_injective : forall d1 d2, updated_ok d1 -> updated_ok d2 ->
  sd_hash d1 = sd_hash d2 -> diff_proj d1 = diff_proj d2.
Proof. exact sd_hash_injective. Qed.
Print Assumptions C02_state_diff_hash_injective.

(* block hash, format >= 0.13.4 and format 0.13.2/0.13.3 *)
Theorem C02_preimage_injective_0134 : forall b1 b2, block_wf b1 -> block_wf b2 ->
  block_hash_0134 b1 = block_hash_0134 b2 -> committed_0134 b1 = committed_0134 b2.
Proof. exact preimage_injective_0134. Qed.
Print Assumptions C02_preimage_injective_0134.

Theorem C02_preimage_injective_0132 : forall b1 b2, block_wf b1 -> block_wf b2 ->
  block_hash_0132 b1 = block_hash_0132 b2 -> committed_0132 b1 = committed_0132 b2.
Proof. exact preimage_injective_0132. Qed.
Print Assumptions C02_preimage_injective_0132.

(* block hash of the post-0.7 Pedersen format (version < 0.13.2): only number, root, sequencer, timestamp, the
   two counts, parent, (tx hash, signature-as-hashed) and the events (from, keys, data) are committed *)
Theorem C02_preimage_injective_post07 : forall b1 b2, block_wf b1 -> block_wf b2 -> sig_rule b1 = sig_rule b2 ->
  block_hash_post07 b1 = block_hash_post07 b2 -> committed_post07 b1 = committed_post07 b2.
Proof. exact preimage_injective_post07. Qed.
Print Assumptions C02_preimage_injective_post07.

(* pre-0.7 format (early mainnet / goerli blocks; selected by the network's First07Block, not by the version) *)
Theorem C02_preimage_injective_pre07 : forall ch b1 b2, block_wf b1 -> block_wf b2 -> sig_rule b1 = sig_rule b2 ->
  block_hash_pre07 ch b1 = block_hash_pre07 ch b2 -> committed_pre07 b1 = committed_pre07 b2.
Proof. exact preimage_injective_pre07. Qed.
Print Assumptions C02_preimage_injective_pre07.

(* whatever the protocol versions of the two blocks (the three formats never coincide) *)
Theorem C02_preimage_injective : forall b1 b2 h, block_wf b1 -> block_wf b2 -> same_sig_rule b1 b2 ->
  block_hash b1 = Some h -> block_hash b2 = Some h -> committed b1 = committed b2.
Proof. exact preimage_injective. Qed.
Print Assumptions C02_preimage_injective.

(* a stored block: linked to the head, receipts pair with transactions, every transaction hash (block version >= 0.11.0, kinds juno recomputes) and the
   block hash recompute, the old root is the commitment (under the block's protocol version) of the state the
   node holds, and state + diff has exactly the declared root *)
Theorem C02_accept_sound : forall ch cs b cs', accept ch cs b = Some cs' ->
  linked cs b /\
  Forall2 (fun t r => t_hash t = r_txhash r) (b_txs b) (b_rcpts b) /\
  (tx_verified b = true -> Forall (tx_recomputes ch) (b_txs b)) /\
  block_hash b = Some (b_hash b) /\
  commitment (pre_0_14 b) (cs_state cs) = b_old_root b /\
  commitment (pre_0_14 b) (new_state cs b) = h_state_root (b_hdr b) /\
  cs' = {| cs_head := Some (h_number (b_hdr b), b_hash b);
           cs_state := new_state cs b; cs_blocks := b :: cs_blocks cs |}.
Proof. exact accept_sound. Qed.
Print Assumptions C02_accept_sound.

(* a rejected block changes nothing, at any position of any history *)
Theorem C02_reject_pure : forall ch bs1 b bs2,
  accept ch (run ch bs1) b = None -> run ch (bs1 ++ b :: bs2) = run ch (bs1 ++ bs2).
Proof. exact reject_pure_run. Qed.
Print Assumptions C02_reject_pure.

(* a block that differs from a valid one in a committed field but carries its hash is rejected *)
Theorem C02_tamper_rejected : forall ch cs b b', block_wf b -> block_wf b' -> same_sig_rule b' b ->
  block_hash b = Some (b_hash b) -> b_hash b' = b_hash b -> committed b' <> committed b ->
  accept ch cs b' = None.
Proof. exact tamper_rejected. Qed.
Print Assumptions C02_tamper_rejected.

Theorem C02_tx_tamper_rejected : forall ch cs b' t' body, In t' (b_txs b') -> tx_verified b' = true ->
  tx_ok body -> tx_ok (t_body t') -> tx_hash ch body = t_hash t' -> t_body t' <> body ->
  accept ch cs b' = None.
Proof. exact tx_tamper_rejected. Qed.
Print Assumptions C02_tx_tamper_rejected.

(* a declared root that is not the commitment of (held state + diff), an old root that is not the commitment
   of the held state (this includes the zero root on a non-empty chain and the root of any older block), or a
   broken linkage: rejected *)
Theorem C02_wrong_root_or_linkage_rejected : forall ch cs b,
  commitment (pre_0_14 b) (new_state cs b) <> h_state_root (b_hdr b) \/
  commitment (pre_0_14 b) (cs_state cs) <> b_old_root b \/ ~ linked cs b ->
  accept ch cs b = None.
Proof. exact wrong_root_rejected. Qed.
Print Assumptions C02_wrong_root_or_linkage_rejected.

(* ---------- non-vacuity: a concrete chain over the term instance ---------- *)
Definition ex_chain : Z := 393402133025997798000961.   (* "SN_SEPOLIA" *)
Definition ex_v3 : v3c := {| v_tip := 5; v_l1 := {| rb_amount := 1; rb_price := 2 |}; v_l2 := {| rb_amount := 3; rb_price := 4 |};
  v_l1d := Some {| rb_amount := 5; rb_price := 6 |}; v_paymaster := []; v_nonce_da := 0; v_fee_da := 1 |}.
Definition ex_hdr (ver : Z * Z * Z) : header := {| h_number := 0; h_state_root := TC 0; h_sequencer := 1000; h_timestamp := 17;
  h_tx_count := 2; h_event_count := 1; h_blob := true; h_l1_gas_wei := 1; h_l1_gas_fri := 2; h_l1_data_wei := 3;
  h_l1_data_fri := 4; h_l2_wei := 5; h_l2_fri := 6; h_version_str := 52974952066612; h_ver := ver; h_parent := TC 0 |}.
Definition ex_raw (ver : Z * Z * Z) (d : sdiff) : block := {|
  b_hdr := ex_hdr ver;
  b_txs := [ {| t_body := InvokeV3 false 77 1 ex_v3 [] [1; 2] []; t_sig := [9; 8]; t_hash := TC 0 |};
             {| t_body := L1Handler false 5 6 7 [1]; t_sig := []; t_hash := TC 0 |} ];
  b_rcpts := [ {| r_txhash := TC 0; r_fee := 3; r_msgs := [ {| m_from := 1; m_to := 2; m_payload := [3] |} ]; r_revert := None;
                  r_l1gas := 1; r_l1datagas := 2; r_events := [ {| e_from := 4; e_keys := [1]; e_data := [] |} ] |};
               {| r_txhash := TC 0; r_fee := 4; r_msgs := []; r_revert := Some 99; r_l1gas := 0; r_l1datagas := 0; r_events := [] |} ];
  b_diff := d; b_hash := TC 0; b_old_root := TC 0 |}.
Definition ex_d0 : sdiff := {| sd_deployed := [(100, 500)]; sd_replaced := []; sd_nonces := [(100, 1)];
  sd_storage := [(100, [(1, 11)])]; sd_declared_v0 := [500]; sd_declared_v1 := []; sd_migrated := [] |}.
Definition ex_d1 : sdiff := {| sd_deployed := []; sd_replaced := []; sd_nonces := []; sd_storage := [(100, [(2, 22)])];
  sd_declared_v0 := []; sd_declared_v1 := [(600, 601)]; sd_migrated := [] |}.
Definition ex_b0 := seal ex_chain empty_chain (ex_raw (0, 13, 4) ex_d0).
Definition ex_cs1 := push ex_chain empty_chain ex_b0.
Definition ex_b1 := seal ex_chain ex_cs1 (ex_raw (0, 13, 2) ex_d1).

Definition ex_cs2 := push ex_chain ex_cs1 ex_b1.
Definition ex_d2 : sdiff := {| sd_deployed := []; sd_replaced := []; sd_nonces := [(100, 2)]; sd_storage := [];
  sd_declared_v0 := []; sd_declared_v1 := []; sd_migrated := [] |}.
Definition ex_b2 := seal ex_chain ex_cs2 (ex_raw (0, 12, 3) ex_d2).

(* all three formats: the sealed blocks are accepted one after the other *)
Example accept_nontrivial :
  cs_head (run ex_chain [ex_b0; ex_b1; ex_b2]) = Some (2, b_hash ex_b2) /\
  length (cs_blocks (run ex_chain [ex_b0; ex_b1; ex_b2])) = 3%nat.
Proof. vm_compute. split; reflexivity. Qed.

(* a tampered timestamp under the valid hash is rejected; so is the same block presented twice *)
Definition ex_tampered : block :=
  {| b_hdr := {| h_number := 1; h_state_root := h_state_root (b_hdr ex_b1); h_sequencer := 1000; h_timestamp := 18;
                 h_tx_count := 2; h_event_count := 1; h_blob := true; h_l1_gas_wei := 1; h_l1_gas_fri := 2; h_l1_data_wei := 3;
                 h_l1_data_fri := 4; h_l2_wei := 5; h_l2_fri := 6; h_version_str := 52974952066612; h_ver := (0, 13, 2);
                 h_parent := h_parent (b_hdr ex_b1) |};
     b_txs := b_txs ex_b1; b_rcpts := b_rcpts ex_b1; b_diff := b_diff ex_b1; b_hash := b_hash ex_b1; b_old_root := b_old_root ex_b1 |}.
Example tamper_nontrivial :
  accept ex_chain ex_cs1 ex_tampered = None /\ accept ex_chain (push ex_chain ex_cs1 ex_b1) ex_b1 = None /\
  run ex_chain [ex_b0; ex_tampered; ex_b1] = run ex_chain [ex_b0; ex_b1].
Proof. vm_compute. repeat split; reflexivity. Qed.

(* the hypotheses of the tamper theorem are met by that pair *)
Example tamper_hypotheses :
  block_hash ex_b1 = Some (b_hash ex_b1) /\ b_hash ex_tampered = b_hash ex_b1 /\ committed ex_tampered <> committed ex_b1.
Proof. split; [vm_compute; reflexivity|]. split; [reflexivity|]. vm_compute. discriminate. Qed.

Example block_wf_nontrivial : block_wf ex_b1.
Proof.
  unfold block_wf, u64, small, updated_ok. vm_compute.
  repeat split; try reflexivity; try discriminate.
Qed.

(* the stale-old-root input (fixed defect new-state:store-accepts-stale-old-root): a block sealed on the
   EMPTY chain (old root 0, declared root = commitment of (empty state + its diff)), renumbered and
   re-parented onto the head of a non-empty chain with its hash recomputed: rejected *)
Definition ex_dx : sdiff := {| sd_deployed := [(200, 501)]; sd_replaced := []; sd_nonces := [];
  sd_storage := [(200, [(9, 99)])]; sd_declared_v0 := [501]; sd_declared_v1 := []; sd_migrated := [] |}.
Definition ex_stale : block :=
  let g := seal ex_chain empty_chain (ex_raw (0, 13, 4) ex_dx) in
  let h := b_hdr g in
  let hdr := {| h_number := 1; h_state_root := h_state_root h; h_sequencer := h_sequencer h; h_timestamp := h_timestamp h;
                h_tx_count := h_tx_count h; h_event_count := h_event_count h; h_blob := h_blob h;
                h_l1_gas_wei := h_l1_gas_wei h; h_l1_gas_fri := h_l1_gas_fri h; h_l1_data_wei := h_l1_data_wei h;
                h_l1_data_fri := h_l1_data_fri h; h_l2_wei := h_l2_wei h; h_l2_fri := h_l2_fri h;
                h_version_str := h_version_str h; h_ver := h_ver h; h_parent := b_hash ex_b0 |} in
  let b1 := {| b_hdr := hdr; b_txs := b_txs g; b_rcpts := b_rcpts g; b_diff := b_diff g; b_hash := TC 0; b_old_root := b_old_root g |} in
  {| b_hdr := hdr; b_txs := b_txs g; b_rcpts := b_rcpts g; b_diff := b_diff g;
     b_hash := match block_hash b1 with Some x => x | None => TC 0 end; b_old_root := b_old_root g |}.
Example stale_old_root_rejected :
  b_old_root ex_stale = TC 0 /\ block_hash ex_stale = Some (b_hash ex_stale) /\ linked ex_cs1 ex_stale /\
  accept ex_chain ex_cs1 ex_stale = None /\ accept ex_chain ex_cs1 ex_stale = None /\
  accept ex_chain empty_chain (seal ex_chain empty_chain (ex_raw (0, 13, 4) ex_dx)) <> None.
Proof. vm_compute. repeat split; try reflexivity. discriminate. Qed.

(* version crossing with an empty class trie: block 0 under the pre-0.14 rule (root = contract root), block 1
   under 0.14.0 (root = Poseidon(STATE_V0, contract root, 0)); the old root of block 1 is the commitment of the
   SAME state under the new rule, not the root written in block 0's header, and the chain extends *)
Definition ex_x0 := seal ex_chain empty_chain (ex_raw (0, 13, 6) ex_d0).
Definition ex_xs := push ex_chain empty_chain ex_x0.
Definition ex_dn : sdiff := {| sd_deployed := []; sd_replaced := []; sd_nonces := [(100, 7)]; sd_storage := [];
  sd_declared_v0 := []; sd_declared_v1 := []; sd_migrated := [] |}.
Definition ex_x1 := seal ex_chain ex_xs (ex_raw (0, 14, 0) ex_dn).
Example version_crossing_extends :
  b_old_root ex_x1 <> h_state_root (b_hdr ex_x0) /\ cs_head (run ex_chain [ex_x0; ex_x1]) = Some (1, b_hash ex_x1).
Proof. vm_compute. split; [discriminate | reflexivity]. Qed.
