(* C02 — property theorems (placeholder while the proofs are being written). *)
From Coq Require Import List ZArith Bool.
From V Require Import C02.Model.
Import ListNotations.

Theorem C02_reject_pure : forall chain cs b, accept chain cs b = None -> push chain cs b = cs.
Proof. intros chain cs b H. unfold push. rewrite H. reflexivity. Qed.
Print Assumptions C02_reject_pure.
