(* C02 — property theorems only (proofs in Proofs_*.v). Everything is over the FREE term algebra of the
   hash primitives (C01.Term): equality of hash terms is syntactic, so the injectivity theorems say that the
   ENCODINGS juno feeds to Pedersen/Poseidon are unambiguous and that every committed field reaches the hash
   input. Collision resistance of the primitives themselves is out of scope (and not assumed). *)
From Coq Require Import List ZArith Bool Lia.
From V Require Import C01.Term C01.State C02.Model C02.Proofs_Enc C02.Proofs_Trie C02.Proofs_Tx C02.Proofs_Block C02.Proofs_Class C02.Proofs_Accept.
Import ListNotations.
Open Scope Z_scope.

(* ConcatCounts: injective for tx count < 2^59 (above, the 256-bit word wraps modulo P), 64-bit other counts *)
Theorem C02_concat_counts_injective : forall t1 e1 s1 b1 t2 e2 s2 b2,
  0 <= t1 < 2^59 -> 0 <= t2 < 2^59 -> u64 e1 -> u64 e2 -> u64 s1 -> u64 s2 ->
  concat_counts t1 e1 s1 b1 = concat_counts t2 e2 s2 b2 -> t1 = t2 /\ e1 = e2 /\ s1 = s2 /\ b1 = b2.
Proof. exact concat_counts_injective. Qed.
Print Assumptions C02_concat_counts_injective.

(* every transaction kind and version of the model, and across kinds *)
Theorem C02_tx_hash_injective : forall ch t1 t2, tx_ok t1 -> tx_ok t2 -> tx_hash ch t1 = tx_hash ch t2 -> t1 = t2.
Proof. exact tx_hash_injective. Qed.
Print Assumptions C02_tx_hash_injective.

(* commitment tries (height 64, keyed by index): equal roots, equal leaf lists *)
Theorem C02_commitment_injective : forall l1 l2, small (length l1) -> small (length l2) ->
  leaves_ok l1 -> leaves_ok l2 -> commit_root TPos2 l1 = commit_root TPos2 l2 -> l1 = l2.
Proof. exact commit_pos_injective. Qed.
Print Assumptions C02_commitment_injective.

Theorem C02_state_diff_hash_injective : forall d1 d2, updated_ok d1 -> updated_ok d2 ->
  sd_hash d1 = sd_hash d2 -> diff_proj d1 = diff_proj d2.
Proof. exact sd_hash_injective. Qed.
Print Assumptions C02_state_diff_hash_injective.

(* block hash, format >= 0.13.4 and format 0.13.2/0.13.3 *)
Theorem C02_preimage_injective_0134 : forall b1 b2, block_wf b1 -> block_wf b2 ->
  block_hash_0134 b1 = block_hash_0134 b2 -> committed_0134 b1 = committed_0134 b2.
Proof. exact preimage_injective_0134. Qed.
Print Assumptions C02_preimage_injective_0134.

Theorem C02_preimage_injective_0132 : forall b1 b2, block_wf b1 -> block_wf b2 ->
  block_hash_0132 b1 = block_hash_0132 b2 -> committed_0132 b1 = committed_0132 b2.
Proof. exact preimage_injective_0132. Qed.
Print Assumptions C02_preimage_injective_0132.

(* block hash of the post-0.7 Pedersen format (version < 0.13.2): only number, root, sequencer, timestamp, the
   two counts, parent, (tx hash, signature-as-hashed) and the events (from, keys, data) are committed *)
Theorem C02_preimage_injective_post07 : forall b1 b2, block_wf b1 -> block_wf b2 -> sig_rule b1 = sig_rule b2 ->
  block_hash_post07 b1 = block_hash_post07 b2 -> committed_post07 b1 = committed_post07 b2.
Proof. exact preimage_injective_post07. Qed.
Print Assumptions C02_preimage_injective_post07.

(* pre-0.7 format (early mainnet / goerli blocks; selected by the network's First07Block, not by the version) *)
Theorem C02_preimage_injective_pre07 : forall ch b1 b2, block_wf b1 -> block_wf b2 -> sig_rule b1 = sig_rule b2 ->
  block_hash_pre07 ch b1 = block_hash_pre07 ch b2 -> committed_pre07 b1 = committed_pre07 b2.
Proof. exact preimage_injective_pre07. Qed.
Print Assumptions C02_preimage_injective_pre07.

(* whatever the protocol versions of the two blocks (the three formats never coincide) *)
Theorem C02_preimage_injective : forall b1 b2 h, block_wf b1 -> block_wf b2 -> same_sig_rule b1 b2 ->
  block_hash b1 = Some h -> block_hash b2 = Some h -> committed b1 = committed b2.
Proof. exact preimage_injective. Qed.
Print Assumptions C02_preimage_injective.

(* ---------- the Sierra class hash ---------- *)
(* two class definitions with the same hash term agree on the version string, every entry point of every list
   (selector, function index, order, list lengths), the ABI text and every program felt - or their ABI texts are an
   explicit StarknetKeccak collision. class_ok_wf: the version string fits a felt (<= 15 bytes after the 16-byte
   prefix "CONTRACT_CLASS_V"; Proofs_Class.version_bound_needed shows two 32-byte strings that coincide) *)
Theorem C02_class_hash_injective : forall kec c1 c2, class_ok_wf c1 -> class_ok_wf c2 ->
  class_hash kec c1 = class_hash kec c2 ->
  c1 = c2 \/ kec_collision kec (sc_abi c1) (sc_abi c2).
Proof. exact class_hash_injective. Qed.
Print Assumptions C02_class_hash_injective.

(* ---------- acceptance under ANY evaluation ev of the hash terms (juno: Pedersen / Poseidon on felts; the
   oracle of the correspondence run decides with accept_ev and the harness-evaluated primitives) ---------- *)
(* a stored block: header and state update agree, every delivered Sierra definition hashes to its key, the block
   is linked to the head, receipts pair with transactions, every transaction hash (block version >= 0.11.0, kinds
   juno recomputes) and the block hash recompute, the old root is the commitment (under the block's protocol
   version) of the state the node holds, and state + diff has exactly the declared root *)
Theorem C02_accept_ev_sound : forall ev kec ch cs b cs', accept_ev ev kec ch cs b = Some cs' ->
  ev (b_hash b) = ev (b_su_hash b) /\ ev (h_state_root (b_hdr b)) = ev (b_su_new_root b) /\
  Forall (class_verifies ev kec) (b_classes b) /\
  linked_ev ev cs b /\
  Forall2 (fun t r => ev (t_hash t) = ev (r_txhash r)) (b_txs b) (b_rcpts b) /\
  (tx_verified b = true -> Forall (tx_recomputes_ev ev ch) (b_txs b)) /\
  (exists h, block_hash b = Some h /\ ev h = ev (b_hash b)) /\
  ev (commitment (pre_0_14 b) (cs_state cs)) = ev (b_old_root b) /\
  ev (commitment (pre_0_14 b) (new_state cs b)) = ev (h_state_root (b_hdr b)) /\
  cs' = next_state cs b.
Proof. exact accept_ev_sound. Qed.
Print Assumptions C02_accept_ev_sound.

Theorem C02_reject_pure_ev : forall ev kec ch bs1 b bs2,
  accept_ev ev kec ch (run_ev ev kec ch bs1) b = None ->
  run_ev ev kec ch (bs1 ++ b :: bs2) = run_ev ev kec ch (bs1 ++ bs2).
Proof. exact reject_pure_run_ev. Qed.
Print Assumptions C02_reject_pure_ev.

(* a block that carries the declared hash VALUE of a valid block b but differs from b in a committed field is
   rejected - or the two block-hash inputs are an explicit pair of different terms with the same value *)
Theorem C02_tamper_rejected_ev : forall ev kec ch cs b b' h, block_wf b -> block_wf b' -> same_sig_rule b' b ->
  block_hash b = Some h -> ev h = ev (b_hash b) -> ev (b_hash b') = ev (b_hash b) -> committed b' <> committed b ->
  accept_ev ev kec ch cs b' = None \/
  (exists h', block_hash b' = Some h' /\ h' <> h /\ ev h' = ev h).
Proof. exact tamper_rejected_ev. Qed.
Print Assumptions C02_tamper_rejected_ev.

Theorem C02_tx_tamper_rejected_ev : forall ev kec ch cs b' t' body, In t' (b_txs b') -> tx_verified b' = true ->
  tx_ok body -> tx_ok (t_body t') -> ev (tx_hash ch body) = ev (t_hash t') -> t_body t' <> body ->
  accept_ev ev kec ch cs b' = None \/
  (tx_hash ch (t_body t') <> tx_hash ch body /\ ev (tx_hash ch (t_body t')) = ev (tx_hash ch body)).
Proof. exact tx_tamper_rejected_ev. Qed.
Print Assumptions C02_tx_tamper_rejected_ev.

(* a block delivering, under the key k of class c (the class hash its state diff commits to), a Sierra
   definition c' that differs from c in ANY field is rejected - or an explicit collision is exhibited: two
   different class-hash inputs with the same value, or two different ABI texts with the same StarknetKeccak *)
Theorem C02_class_tamper_rejected_ev : forall ev kec ch cs b' k c c', In (k, Sierra c') (b_classes b') ->
  ev (class_hash kec c) = ev (TC k) -> class_ok_wf c -> class_ok_wf c' -> c' <> c ->
  accept_ev ev kec ch cs b' = None \/
  (class_hash kec c' <> class_hash kec c /\ ev (class_hash kec c') = ev (class_hash kec c)) \/
  kec_collision kec (sc_abi c') (sc_abi c).
Proof. exact class_tamper_rejected_ev. Qed.
Print Assumptions C02_class_tamper_rejected_ev.

Theorem C02_wrong_root_or_linkage_rejected_ev : forall ev kec ch cs b,
  ev (commitment (pre_0_14 b) (new_state cs b)) <> ev (h_state_root (b_hdr b)) \/
  ev (commitment (pre_0_14 b) (cs_state cs)) <> ev (b_old_root b) \/ ~ linked_ev ev cs b \/
  ev (b_hash b) <> ev (b_su_hash b) \/ ev (h_state_root (b_hdr b)) <> ev (b_su_new_root b) ->
  accept_ev ev kec ch cs b = None.
Proof. exact wrong_root_rejected_ev. Qed.
Print Assumptions C02_wrong_root_or_linkage_rejected_ev.

(* what the state layer and the CASM-hash bookkeeping refuse (no hashing involved): a contract deployed twice; a
   replaced class, a nonce or a storage diff for a contract that is not deployed; below 0.14.1 a declared class
   without a delivered Sierra definition; from 0.14.1 a migration of a class that was never declared, was declared
   with the V2 hash, or is migrated already *)
Theorem C02_accepted_applicable : forall ev kec ch cs b cs', accept_ev ev kec ch cs b = Some cs' ->
  diff_applicable (cs_state cs) (b_diff b) = true /\ casm_ok cs b = true.
Proof. exact accepted_applicable. Qed.
Print Assumptions C02_accepted_applicable.

(* a >= 0.13.4 block whose header lacks a price object has no hash (repaired defect sanity-panic:nil-gas-price) *)
Theorem C02_missing_prices_rejected_ev : forall ev kec ch cs b,
  ver_ge (h_ver (b_hdr b)) (0, 13, 4) = true -> h_prices_present (b_hdr b) = false ->
  accept_ev ev kec ch cs b = None.
Proof. exact missing_prices_rejected_ev. Qed.
Print Assumptions C02_missing_prices_rejected_ev.

(* ---------- the free-algebra instance: accept = accept_ev (identity), comparisons are syntactic and the
   collision disjuncts vanish ---------- *)
Theorem C02_accept_sound : forall ch cs b cs', accept ch cs b = Some cs' ->
  b_hash b = b_su_hash b /\ h_state_root (b_hdr b) = b_su_new_root b /\
  linked cs b /\
  Forall2 (fun t r => t_hash t = r_txhash r) (b_txs b) (b_rcpts b) /\
  (tx_verified b = true -> Forall (tx_recomputes ch) (b_txs b)) /\
  block_hash b = Some (b_hash b) /\
  commitment (pre_0_14 b) (cs_state cs) = b_old_root b /\
  commitment (pre_0_14 b) (new_state cs b) = h_state_root (b_hdr b) /\
  cs' = next_state cs b.
Proof. exact accept_sound. Qed.
Print Assumptions C02_accept_sound.

(* a rejected block changes nothing, at any position of any history *)
Theorem C02_reject_pure : forall ch bs1 b bs2,
  accept ch (run ch bs1) b = None -> run ch (bs1 ++ b :: bs2) = run ch (bs1 ++ bs2).
Proof. exact reject_pure_run. Qed.
Print Assumptions C02_reject_pure.

(* a block that differs from a valid one in a committed field but carries its hash is rejected *)
Theorem C02_tamper_rejected : forall ch cs b b', block_wf b -> block_wf b' -> same_sig_rule b' b ->
  block_hash b = Some (b_hash b) -> b_hash b' = b_hash b -> committed b' <> committed b ->
  accept ch cs b' = None.
Proof. exact tamper_rejected. Qed.
Print Assumptions C02_tamper_rejected.

Theorem C02_tx_tamper_rejected : forall ch cs b' t' body, In t' (b_txs b') -> tx_verified b' = true ->
  tx_ok body -> tx_ok (t_body t') -> tx_hash ch body = t_hash t' -> t_body t' <> body ->
  accept ch cs b' = None.
Proof. exact tx_tamper_rejected. Qed.
Print Assumptions C02_tx_tamper_rejected.

(* a declared root that is not the commitment of (held state + diff), an old root that is not the commitment
   of the held state (this includes the zero root on a non-empty chain and the root of any older block), or a
   broken linkage: rejected *)
Theorem C02_wrong_root_or_linkage_rejected : forall ch cs b,
  commitment (pre_0_14 b) (new_state cs b) <> h_state_root (b_hdr b) \/
  commitment (pre_0_14 b) (cs_state cs) <> b_old_root b \/ ~ linked cs b ->
  accept ch cs b = None.
Proof. exact wrong_root_rejected. Qed.
Print Assumptions C02_wrong_root_or_linkage_rejected.

(* ---------- non-vacuity: a concrete chain over the term instance ---------- *)
Definition ex_chain : Z := 393402133025997798000961.   (* "SN_SEPOLIA" *)
Definition ex_v3 : v3c := {| v_tip := 5; v_l1 := {| rb_amount := 1; rb_price := 2 |}; v_l2 := {| rb_amount := 3; rb_price := 4 |};
  v_l1d := Some {| rb_amount := 5; rb_price := 6 |}; v_paymaster := []; v_nonce_da := 0; v_fee_da := 1 |}.
Definition ex_hdr (ver : Z * Z * Z) : header := {| h_number := 0; h_state_root := TC 0; h_sequencer := 1000; h_timestamp := 17;
  h_tx_count := 2; h_event_count := 1; h_blob := true; h_l1_gas_wei := 1; h_l1_gas_fri := 2; h_l1_data_wei := 3;
  h_l1_data_fri := 4; h_l2_wei := 5; h_l2_fri := 6; h_prices_present := true; h_version_str := 52974952066612; h_ver := ver; h_parent := TC 0 |}.
Definition ex_raw (ver : Z * Z * Z) (d : sdiff) : block := {|
  b_hdr := ex_hdr ver;
  b_txs := [ {| t_body := InvokeV3 false 77 1 ex_v3 [] [1; 2] []; t_sig := [9; 8]; t_hash := TC 0 |};
             {| t_body := L1Handler false 5 6 7 [1]; t_sig := []; t_hash := TC 0 |} ];
  b_rcpts := [ {| r_txhash := TC 0; r_fee := 3; r_msgs := [ {| m_from := 1; m_to := 2; m_payload := [3] |} ]; r_revert := None;
                  r_l1gas := 1; r_l1datagas := 2; r_events := [ {| e_from := 4; e_keys := [1]; e_data := [] |} ] |};
               {| r_txhash := TC 0; r_fee := 4; r_msgs := []; r_revert := Some 99; r_l1gas := 0; r_l1datagas := 0; r_events := [] |} ];
  b_diff := d; b_hash := TC 0; b_old_root := TC 0; b_su_hash := TC 0; b_su_new_root := TC 0; b_classes := [] |}.
Definition ex_d0 : sdiff := {| sd_deployed := [(100, 500)]; sd_replaced := []; sd_nonces := [(100, 1)];
  sd_storage := [(100, [(1, 11)])]; sd_declared_v0 := [500]; sd_declared_v1 := []; sd_migrated := [] |}.
Definition ex_d1 : sdiff := {| sd_deployed := []; sd_replaced := []; sd_nonces := []; sd_storage := [(100, [(2, 22)])];
  sd_declared_v0 := []; sd_declared_v1 := []; sd_migrated := [] |}.
(* (a diff declaring a Sierra class needs its definition delivered: see ex_c0 below, under a felt-valued evaluation) *)
Definition ex_b0 := seal ex_chain empty_chain (ex_raw (0, 13, 4) ex_d0).
Definition ex_cs1 := push ex_chain empty_chain ex_b0.
Definition ex_b1 := seal ex_chain ex_cs1 (ex_raw (0, 13, 2) ex_d1).

Definition ex_cs2 := push ex_chain ex_cs1 ex_b1.
Definition ex_d2 : sdiff := {| sd_deployed := []; sd_replaced := []; sd_nonces := [(100, 2)]; sd_storage := [];
  sd_declared_v0 := []; sd_declared_v1 := []; sd_migrated := [] |}.
Definition ex_b2 := seal ex_chain ex_cs2 (ex_raw (0, 12, 3) ex_d2).

(* all three formats: the sealed blocks are accepted one after the other *)
Example accept_nontrivial :
  cs_head (run ex_chain [ex_b0; ex_b1; ex_b2]) = Some (2, b_hash ex_b2) /\
  length (cs_blocks (run ex_chain [ex_b0; ex_b1; ex_b2])) = 3%nat.
Proof. vm_compute. split; reflexivity. Qed.

(* a tampered timestamp under the valid hash is rejected; so is the same block presented twice *)
Definition ex_tampered : block :=
  {| b_hdr := {| h_number := 1; h_state_root := h_state_root (b_hdr ex_b1); h_sequencer := 1000; h_timestamp := 18;
                 h_tx_count := 2; h_event_count := 1; h_blob := true; h_l1_gas_wei := 1; h_l1_gas_fri := 2; h_l1_data_wei := 3;
                 h_l1_data_fri := 4; h_l2_wei := 5; h_l2_fri := 6; h_prices_present := true; h_version_str := 52974952066612; h_ver := (0, 13, 2);
                 h_parent := h_parent (b_hdr ex_b1) |};
     b_txs := b_txs ex_b1; b_rcpts := b_rcpts ex_b1; b_diff := b_diff ex_b1; b_hash := b_hash ex_b1; b_old_root := b_old_root ex_b1;
     b_su_hash := b_su_hash ex_b1; b_su_new_root := b_su_new_root ex_b1; b_classes := [] |}.
Example tamper_nontrivial :
  accept ex_chain ex_cs1 ex_tampered = None /\ accept ex_chain (push ex_chain ex_cs1 ex_b1) ex_b1 = None /\
  run ex_chain [ex_b0; ex_tampered; ex_b1] = run ex_chain [ex_b0; ex_b1].
Proof. vm_compute. repeat split; reflexivity. Qed.

(* the hypotheses of the tamper theorem are met by that pair *)
Example tamper_hypotheses :
  block_hash ex_b1 = Some (b_hash ex_b1) /\ b_hash ex_tampered = b_hash ex_b1 /\ committed ex_tampered <> committed ex_b1.
Proof. split; [vm_compute; reflexivity|]. split; [reflexivity|]. vm_compute. discriminate. Qed.

Example block_wf_nontrivial : block_wf ex_b1.
Proof.
  unfold block_wf, u64, small, updated_ok. vm_compute.
  repeat split; try reflexivity; try discriminate.
Qed.

(* the stale-old-root input (fixed defect new-state:store-accepts-stale-old-root): a block sealed on the
   EMPTY chain (old root 0, declared root = commitment of (empty state + its diff)), renumbered and
   re-parented onto the head of a non-empty chain with its hash recomputed: rejected *)
Definition ex_dx : sdiff := {| sd_deployed := [(200, 501)]; sd_replaced := []; sd_nonces := [];
  sd_storage := [(200, [(9, 99)])]; sd_declared_v0 := [501]; sd_declared_v1 := []; sd_migrated := [] |}.
Definition ex_stale : block :=
  let g := seal ex_chain empty_chain (ex_raw (0, 13, 4) ex_dx) in
  let h := b_hdr g in
  let hdr := {| h_number := 1; h_state_root := h_state_root h; h_sequencer := h_sequencer h; h_timestamp := h_timestamp h;
                h_tx_count := h_tx_count h; h_event_count := h_event_count h; h_blob := h_blob h;
                h_l1_gas_wei := h_l1_gas_wei h; h_l1_gas_fri := h_l1_gas_fri h; h_l1_data_wei := h_l1_data_wei h;
                h_l1_data_fri := h_l1_data_fri h; h_l2_wei := h_l2_wei h; h_l2_fri := h_l2_fri h; h_prices_present := true;
                h_version_str := h_version_str h; h_ver := h_ver h; h_parent := b_hash ex_b0 |} in
  let b1 := {| b_hdr := hdr; b_txs := b_txs g; b_rcpts := b_rcpts g; b_diff := b_diff g; b_hash := TC 0; b_old_root := b_old_root g;
               b_su_hash := TC 0; b_su_new_root := h_state_root h; b_classes := [] |} in
  {| b_hdr := hdr; b_txs := b_txs g; b_rcpts := b_rcpts g; b_diff := b_diff g;
     b_hash := match block_hash b1 with Some x => x | None => TC 0 end; b_old_root := b_old_root g;
     b_su_hash := match block_hash b1 with Some x => x | None => TC 0 end; b_su_new_root := h_state_root h; b_classes := [] |}.
Example stale_old_root_rejected :
  b_old_root ex_stale = TC 0 /\ block_hash ex_stale = Some (b_hash ex_stale) /\ linked ex_cs1 ex_stale /\
  accept ex_chain ex_cs1 ex_stale = None /\ accept ex_chain ex_cs1 ex_stale = None /\
  accept ex_chain empty_chain (seal ex_chain empty_chain (ex_raw (0, 13, 4) ex_dx)) <> None.
Proof. vm_compute. repeat split; try reflexivity. discriminate. Qed.

(* version crossing with an empty class trie: block 0 under the pre-0.14 rule (root = contract root), block 1
   under 0.14.0 (root = Poseidon(STATE_V0, contract root, 0)); the old root of block 1 is the commitment of the
   SAME state under the new rule, not the root written in block 0's header, and the chain extends *)
Definition ex_x0 := seal ex_chain empty_chain (ex_raw (0, 13, 6) ex_d0).
Definition ex_xs := push ex_chain empty_chain ex_x0.
Definition ex_dn : sdiff := {| sd_deployed := []; sd_replaced := []; sd_nonces := [(100, 7)]; sd_storage := [];
  sd_declared_v0 := []; sd_declared_v1 := []; sd_migrated := [] |}.
Definition ex_x1 := seal ex_chain ex_xs (ex_raw (0, 14, 0) ex_dn).
Example version_crossing_extends :
  b_old_root ex_x1 <> h_state_root (b_hdr ex_x0) /\ cs_head (run ex_chain [ex_x0; ex_x1]) = Some (1, b_hash ex_x1).
Proof. vm_compute. split; [discriminate | reflexivity]. Qed.

(* ---------- non-vacuity of the class theorems: a concrete evaluation (a toy polynomial hash into felts) under
   which a block DELIVERING a Sierra class is sealed, accepted, and its class tamperings rejected ---------- *)
Definition toyM : Z := 2305843009213693951.       (* 2^61 - 1 *)
Fixpoint toy (t : term) : Z :=
  match t with
  | TC z => z
  | TPed a b => (toy a * 1000003 + toy b * 999983 + 11) mod toyM
  | TPos2 a b => (toy a * 1000033 + toy b * 999979 + 13) mod toyM
  | TPosN l => (fix go (l : list term) : Z := match l with [] => 17 | x :: r => (toy x + 1000037 * go r + 1) mod toyM end) l
  | TPedN l => (fix go (l : list term) : Z := match l with [] => 19 | x :: r => (toy x + 1000039 * go r + 1) mod toyM end) l
  | TAddLen a n => toy a + Z.of_nat n
  | TPath p => fold_left (fun acc (b : bool) => 2 * acc + (if b then 1 else 0)) p 0
  end.
Definition ev_toy (t : term) : term := TC (toy t).
Definition kec_toy (bs : list Z) : Z := be_num (1 :: bs).

Definition ex_sierra : sierra := {|
  sc_version := [48; 46; 49; 46; 48];                                   (* "0.1.0" *)
  sc_external := [ {| ep_selector := 11; ep_index := 0 |}; {| ep_selector := 12; ep_index := 1 |} ];
  sc_l1handler := [];
  sc_constructor := [ {| ep_selector := 13; ep_index := 2 |} ];
  sc_abi := [91; 93];                                                   (* "[]" *)
  sc_program := [1; 2; 3] |}.
Definition ex_key : Z := class_key ev_toy kec_toy ex_sierra.
Definition ex_dc : sdiff := {| sd_deployed := [(100, 500)]; sd_replaced := []; sd_nonces := []; sd_storage := [(100, [(1, 11)])];
  sd_declared_v0 := [500]; sd_declared_v1 := [(ex_key, 777)]; sd_migrated := [] |}.
Definition with_classes (b : block) (cl : list (Z * cdef)) : block :=
  {| b_hdr := b_hdr b; b_txs := b_txs b; b_rcpts := b_rcpts b; b_diff := b_diff b; b_hash := b_hash b;
     b_old_root := b_old_root b; b_su_hash := b_su_hash b; b_su_new_root := b_su_new_root b; b_classes := cl |}.
Definition ex_c0 : block :=
  seal_ev ev_toy kec_toy ex_chain empty_chain (with_classes (ex_raw (0, 14, 0) ex_dc) [(0, Sierra ex_sierra); (500, Cairo0)]).

(* the sealed block delivers the class under its evaluated hash, is accepted, and the class enters the class trie *)
Example class_block_accepted :
  b_classes ex_c0 = [(ex_key, Sierra ex_sierra); (500, Cairo0)] /\
  (exists cs', accept_ev ev_toy kec_toy ex_chain empty_chain ex_c0 = Some cs' /\ classes (cs_state cs') = [(ex_key, 777)]).
Proof. split; [vm_compute; reflexivity|]. eexists. split; vm_compute; reflexivity. Qed.

(* every single-field tampering of the delivered definition is rejected: an entry-point selector, a function
   index, the order of a list, a dropped / an added entry point, an entry point moved to another list, an ABI
   byte, a program felt (changed, dropped), the version string *)
Definition ex_tamperings : list sierra :=
  let c := ex_sierra in
  let mk v e l k a p := {| sc_version := v; sc_external := e; sc_l1handler := l; sc_constructor := k; sc_abi := a; sc_program := p |} in
  [ mk (sc_version c) [ {| ep_selector := 14; ep_index := 0 |}; {| ep_selector := 12; ep_index := 1 |} ] [] (sc_constructor c) (sc_abi c) (sc_program c);
    mk (sc_version c) [ {| ep_selector := 11; ep_index := 5 |}; {| ep_selector := 12; ep_index := 1 |} ] [] (sc_constructor c) (sc_abi c) (sc_program c);
    mk (sc_version c) [ {| ep_selector := 12; ep_index := 1 |}; {| ep_selector := 11; ep_index := 0 |} ] [] (sc_constructor c) (sc_abi c) (sc_program c);
    mk (sc_version c) [ {| ep_selector := 11; ep_index := 0 |} ] [] (sc_constructor c) (sc_abi c) (sc_program c);
    mk (sc_version c) (sc_external c) [ {| ep_selector := 0; ep_index := 0 |} ] (sc_constructor c) (sc_abi c) (sc_program c);
    mk (sc_version c) [ {| ep_selector := 11; ep_index := 0 |} ] [ {| ep_selector := 12; ep_index := 1 |} ] (sc_constructor c) (sc_abi c) (sc_program c);
    mk (sc_version c) (sc_external c) [] [] (sc_abi c) (sc_program c);
    mk (sc_version c) (sc_external c) [] (sc_constructor c) [91; 32; 93] (sc_program c);
    mk (sc_version c) (sc_external c) [] (sc_constructor c) [] (sc_program c);
    mk (sc_version c) (sc_external c) [] (sc_constructor c) (sc_abi c) [1; 2; 4];
    mk (sc_version c) (sc_external c) [] (sc_constructor c) (sc_abi c) [1; 2];
    mk (sc_version c) (sc_external c) [] (sc_constructor c) (sc_abi c) [];
    mk [48; 46; 49; 46; 49] (sc_external c) [] (sc_constructor c) (sc_abi c) (sc_program c);
    mk [48; 46; 49; 46; 48; 48] (sc_external c) [] (sc_constructor c) (sc_abi c) (sc_program c) ].
Example class_tamperings_rejected :
  forallb (fun c' => match accept_ev ev_toy kec_toy ex_chain empty_chain (with_classes ex_c0 [(ex_key, Sierra c'); (500, Cairo0)]) with
                     | None => true | Some _ => false end) ex_tamperings = true /\
  (* a tampered Cairo-0 definition is not looked at (VerifyClassHashes skips it): nothing to tamper in the model *)
  (* the definition withheld: the declared class does not enter the class trie, the declared root is not reached *)
  accept_ev ev_toy kec_toy ex_chain empty_chain (with_classes ex_c0 [(500, Cairo0)]) = None /\
  (* delivered under another key *)
  accept_ev ev_toy kec_toy ex_chain empty_chain (with_classes ex_c0 [(ex_key + 1, Sierra ex_sierra); (500, Cairo0)]) = None.
Proof. vm_compute. repeat split; reflexivity. Qed.

(* the hypotheses of C02_class_tamper_rejected_ev are met by the first tampering *)
Example class_tamper_hypotheses :
  let c' := hd ex_sierra ex_tamperings in
  In (ex_key, Sierra c') (b_classes (with_classes ex_c0 [(ex_key, Sierra c'); (500, Cairo0)])) /\
  ev_toy (class_hash kec_toy ex_sierra) = ev_toy (TC ex_key) /\ class_ok_wf ex_sierra /\ class_ok_wf c' /\ c' <> ex_sierra.
Proof.
  cbv zeta. split; [left; reflexivity|]. split; [vm_compute; reflexivity|].
  split; [|split]; [| |vm_compute; discriminate];
    (split; [unfold bytes_ok; cbn; repeat constructor; lia | cbn; lia]).
Qed.

(* in the free algebra no Sierra definition verifies (a key is a felt, a class hash a Poseidon term): the symbolic
   [accept] rejects the same block - the class theorems are therefore stated for arbitrary ev *)
Example class_block_symbolic : accept ex_chain empty_chain ex_c0 = None.
Proof. vm_compute. reflexivity. Qed.

(* a >= 0.13.4 block without price objects *)
Example missing_prices_nontrivial :
  let h := b_hdr ex_b0 in
  let hdr := {| h_number := h_number h; h_state_root := h_state_root h; h_sequencer := h_sequencer h; h_timestamp := h_timestamp h;
                h_tx_count := h_tx_count h; h_event_count := h_event_count h; h_blob := h_blob h;
                h_l1_gas_wei := h_l1_gas_wei h; h_l1_gas_fri := h_l1_gas_fri h; h_l1_data_wei := 0;
                h_l1_data_fri := 0; h_l2_wei := 0; h_l2_fri := 0; h_prices_present := false;
                h_version_str := h_version_str h; h_ver := h_ver h; h_parent := h_parent h |} in
  accept ex_chain empty_chain {| b_hdr := hdr; b_txs := b_txs ex_b0; b_rcpts := b_rcpts ex_b0; b_diff := b_diff ex_b0;
    b_hash := b_hash ex_b0; b_old_root := b_old_root ex_b0; b_su_hash := b_su_hash ex_b0; b_su_new_root := b_su_new_root ex_b0;
    b_classes := [] |} = None /\ accept ex_chain empty_chain ex_b0 <> None.
Proof. vm_compute. split; [reflexivity | discriminate]. Qed.

(* ---------- non-vacuity of the applicability rules ---------- *)
(* address 100 exists after ex_b0: a block deploying it again is consistent in every hash and root (sealed), yet
   refused; so is a nonce for an address nobody deployed *)
Definition ex_dup : sdiff := {| sd_deployed := [(100, 500)]; sd_replaced := []; sd_nonces := []; sd_storage := [];
  sd_declared_v0 := []; sd_declared_v1 := []; sd_migrated := [] |}.
Definition ex_ghost : sdiff := {| sd_deployed := []; sd_replaced := []; sd_nonces := [(4242, 1)]; sd_storage := [];
  sd_declared_v0 := []; sd_declared_v1 := []; sd_migrated := [] |}.
Example applicability_nontrivial :
  let b := seal ex_chain ex_cs1 (ex_raw (0, 13, 4) ex_dup) in
  let g := seal ex_chain ex_cs1 (ex_raw (0, 13, 4) ex_ghost) in
  diff_applicable (cs_state ex_cs1) ex_dup = false /\ roots_ok tid ex_cs1 b = true /\ block_hash_ok tid b = true /\
  accept ex_chain ex_cs1 b = None /\
  diff_applicable (cs_state ex_cs1) ex_ghost = false /\ roots_ok tid ex_cs1 g = true /\ accept ex_chain ex_cs1 g = None /\
  diff_applicable (cs_state ex_cs1) ex_d1 = true.
Proof. vm_compute. repeat split; reflexivity. Qed.

(* CASM-hash bookkeeping: the class declared by ex_c0 (0.14.0) is migrated by a 0.14.1 block; a second migration,
   and a migration of a class that was never declared, are refused *)
Definition ex_cc1 : chain_state := push_ev ev_toy kec_toy ex_chain empty_chain ex_c0.
Definition ex_dm (k : Z) : sdiff := {| sd_deployed := []; sd_replaced := []; sd_nonces := []; sd_storage := [];
  sd_declared_v0 := []; sd_declared_v1 := []; sd_migrated := [(k, 778)] |}.
Definition ex_m1 : block := seal_ev ev_toy kec_toy ex_chain ex_cc1 (ex_raw (0, 14, 1) (ex_dm ex_key)).
Definition ex_cc2 : chain_state := push_ev ev_toy kec_toy ex_chain ex_cc1 ex_m1.
Example casm_bookkeeping_nontrivial :
  cs_casm ex_cc1 = [(ex_key, {| cm_at := 0; cm_v2 := false; cm_migrated := false |})] /\
  cs_head ex_cc2 = Some (1, b_hash ex_m1) /\
  cs_casm ex_cc2 = [(ex_key, {| cm_at := 0; cm_v2 := false; cm_migrated := true |})] /\
  classes (cs_state ex_cc2) = [(ex_key, 778)] /\
  accept_ev ev_toy kec_toy ex_chain ex_cc2 (seal_ev ev_toy kec_toy ex_chain ex_cc2 (ex_raw (0, 14, 1) (ex_dm ex_key))) = None /\
  accept_ev ev_toy kec_toy ex_chain ex_cc1 (seal_ev ev_toy kec_toy ex_chain ex_cc1 (ex_raw (0, 14, 1) (ex_dm 31337))) = None /\
  (* below 0.14.1 a declared class whose definition is withheld is refused by this rule too *)
  casm_ok empty_chain (with_classes ex_c0 [(500, Cairo0)]) = false /\ casm_ok empty_chain ex_c0 = true.
Proof. vm_compute. repeat split; reflexivity. Qed.
