(* C03 — executable model of juno's two state-history encodings.

   Keys of every bucket are lists of numbers compared lexicographically (the real keys are
   fixed-width big-endian byte strings: same order).  A bucket is a strictly sorted association list.
   Buckets of the state part of the database (both backends use the same logical head buckets):

     s_class  [a]       class hash of contract a          (new: stateContract.ClassHash)
     s_nonce  [a]       nonce                             (new: stateContract.Nonce)
     s_dh     [a]       deployment height                 (new: stateContract.DeployedHeight)
     s_store  [a;k]     non-zero storage leaves           (tries delete zero leaves)
     s_decl   [h]       class h -> block it was declared at (DeclaredClassDefinition.At): EVERY class definition
                        delivered with a block is registered (putClass / dirtyClasses, first writer wins) - the
                        classes the block declares AND the definitions the synchroniser fetched for the class
                        hashes of the block's deployed contracts (sync/data_source.go fetchUnknownClasses)
     s_lstore [a;k;b]   storage history   } NEW   : value AFTER block b   (core/state/state.go writeHistory)
     s_lnonce [a;b]     nonce history     } LEGACY: value BEFORE block b  (deprecatedstate updateContracts,
     s_lclass [a;b]     class-hash history}          onValueChanged)

   store_new / revert_new / read_new  transcribe core/state/{state,state_reader,history}.go,
   store_old / revert_old / read_old  transcribe core/deprecatedstate/{state,history,contract}.go.
   [truth] is the abstract ground truth: the state after each block as plain functions.

   SYSTEM CONTRACTS 0x1 / 0x2 (core/state/state.go: SystemContracts; class hash 0, never listed under
   deployed_contracts).  Both backends create a missing system contract when a storage diff names it,
   with the very constructor used for deployed contracts (newContractDeployed / putNewContract: class hash 0,
   nonce 0, deployment height = the block being applied - or being REVERTED, when the reverse diff is
   applied) but write no class-hash history entry for it.  They are removed again "when their storage no
   longer exists" (storage root zero): the new backend in commit(), i.e. in Update AND in Revert, for the
   system contracts the block touched; the legacy backend only in Revert (purgesystemContracts), for
   both system contracts, touched or not, followed by the check of the old state root.
   No proofs here; the file is extracted and run against the Go code. *)
From Coq Require Import List NArith Bool.
Import ListNotations.
Open Scope N_scope.

(* ---------- keys and sorted maps ---------- *)
Definition key := list N.

Fixpoint lcmp (a b : key) : comparison :=
  match a, b with
  | [], [] => Eq
  | [], _ :: _ => Lt
  | _ :: _, [] => Gt
  | x :: a', y :: b' => match N.compare x y with Eq => lcmp a' b' | c => c end
  end.

Definition keqb (a b : key) : bool := match lcmp a b with Eq => true | _ => false end.

Section Maps.
  Context {V : Type}.
  Definition smap := list (key * V).

  Fixpoint get (m : smap) (k : key) : option V :=
    match m with
    | [] => None
    | (k', v) :: r => if keqb k k' then Some v else get r k
    end.

  Fixpoint put (k : key) (v : V) (m : smap) : smap :=
    match m with
    | [] => [(k, v)]
    | (k', v') :: r =>
        match lcmp k k' with
        | Lt => (k, v) :: m
        | Eq => (k, v) :: r
        | Gt => (k', v') :: put k v r
        end
    end.

  Fixpoint del (k : key) (m : smap) : smap :=
    match m with
    | [] => []
    | (k', v') :: r =>
        match lcmp k k' with
        | Lt => m
        | Eq => r
        | Gt => (k', v') :: del k r
        end
    end.

  (* strip p k = Some rest  iff  k = p ++ rest *)
  Fixpoint strip (p k : key) : option key :=
    match p, k with
    | [], _ => Some k
    | _ :: _, [] => None
    | x :: p', y :: k' => if x =? y then strip p' k' else None
    end.

  Definition has_prefix (p k : key) : bool := match strip p k with Some _ => true | None => false end.

  (* range delete of everything below a prefix (trieutils.DeleteStorageNodesByPath) *)
  Definition del_prefix (p : key) (m : smap) : smap := filter (fun e => negb (has_prefix p (fst e))) m.

  (* what a prefix-bounded iterator sees: the entries p ++ [b], in key order, as (b, value) *)
  Fixpoint sub (m : smap) (p : key) : list (N * V) :=
    match m with
    | [] => []
    | (k, v) :: r => match strip p k with Some [b] => (b, v) :: sub r p | _ => sub r p end
    end.

  (* Seek(p ++ [n]): walk forward to the first entry with block >= n, remembering what was passed
     (most recent first) so that Prev() is the head of [before]. *)
  Fixpoint seek (l : list (N * V)) (n : N) (before : list (N * V)) : list (N * V) * list (N * V) :=
    match l with
    | [] => (before, [])
    | e :: r => if n <=? fst e then (before, l) else seek r n (e :: before)
    end.

  (* core/state/state_reader.go valueAt:
       if !it.Seek(seekKey) || block(it.Key()) != blockNum { if !it.Prev() { return ErrNoHistoryValue } }
       return it.Value() *)
  Definition valueAt_new (l : list (N * V)) (n : N) : option V :=
    let (before, after) := seek l n [] in
    let prev := match before with p :: _ => Some (snd p) | [] => None end in
    match after with
    | e :: _ => if fst e =? n then Some (snd e) else prev
    | [] => prev
    end.

  (* core/deprecatedstate/state.go valueAt:
       for it.Seek(seekKey); it.Valid(); it.Next() {
         if h < height { break } else if h == height { continue }
         return it.Value() }
       return ErrCheckHeadState        (None here) *)
  Fixpoint old_loop (after : list (N * V)) (n : N) : option V :=
    match after with
    | [] => None
    | e :: r => if fst e <? n then None else if fst e =? n then old_loop r n else Some (snd e)
    end.
  Definition valueAt_old (l : list (N * V)) (n : N) : option V := old_loop (snd (seek l n [])) n.
End Maps.
Arguments smap V : clear implicits.

Definition getd (m : smap N) (k : key) : N := match get m k with Some v => v | None => 0 end.
(* trie leaf write: zero deletes *)
Definition put_nz (k : key) (v : N) (m : smap N) : smap N := if v =? 0 then del k m else put k v m.

(* ---------- state diffs (Go maps become lists with pairwise distinct keys) ---------- *)
Record diff := mkDiff {
  d_deploy  : list (N * N);          (* address, class hash *)
  d_replace : list (N * N);          (* address, class hash *)
  d_nonce   : list (N * N);          (* address, nonce *)
  d_store   : list ((N * N) * N);    (* (address, slot), value *)
  d_decl    : list N;                (* declared class hashes (Cairo0 and Sierra definitions) *)
  d_deliv   : list N                 (* class hashes whose (Cairo0) definition is DELIVERED with the block for its
                                        deployed contracts without being declared by it *)
}.
(* the classes a block registers: Update walks the one map of delivered definitions *)
Definition d_reg (d : diff) : list N := d_decl d ++ d_deliv d.

Record st := mkSt {
  s_next   : N;          (* number of stored blocks; the chain height key holds s_next-1 *)
  s_class  : smap N;
  s_nonce  : smap N;
  s_dh     : smap N;
  s_store  : smap N;
  s_decl   : smap N;
  s_lstore : smap N;
  s_lnonce : smap N;
  s_lclass : smap N
}.

Definition st_empty : st := mkSt 0 [] [] [] [] [] [] [] [].

(* fold over the entries of one diff map; keys are distinct so the order is immaterial, the
   first entry of the list wins to match [find]. *)
Definition foldd {A M} (f : A -> M -> M) (l : list A) (m : M) : M := fold_right f m l.

(* ----- the part of Update both backends share: head buckets ----- *)
Definition upd_decl (n : N) (d : diff) (m : smap N) : smap N :=
  foldd (fun h m => match get m [h] with Some _ => m | None => put [h] n m end) (d_reg d) m.
Definition upd_class (d : diff) (m : smap N) : smap N :=
  foldd (fun e m => put [fst e] (snd e) m) (d_replace d)
    (foldd (fun e m => put [fst e] (snd e) m) (d_deploy d) m).
Definition upd_nonce (d : diff) (m : smap N) : smap N :=
  foldd (fun e m => put [fst e] (snd e) m) (d_nonce d)
    (foldd (fun e m => put [fst e] 0 m) (d_deploy d) m).
Definition upd_dh (n : N) (d : diff) (m : smap N) : smap N :=
  foldd (fun e m => put [fst e] n m) (d_deploy d) m.
Definition upd_store (l : list ((N * N) * N)) (m : smap N) : smap N :=
  foldd (fun e m => put_nz [fst (fst e); snd (fst e)] (snd e) m) l m.

(* ---------- system contracts ---------- *)
Definition mem (l : list N) (x : N) : bool := existsb (fun y => y =? x) l.
Definition sys_addrs : list N := [1; 2].
Definition is_sys (a : N) : bool := mem sys_addrs a.
(* the address has an entry in StateDiff.StorageDiffs *)
Definition touched (d : diff) (a : N) : bool := existsb (fun e => fst (fst e) =? a) (d_store d).
(* the contract's storage trie is not empty (the bucket holds non-zero leaves only) *)
Definition has_store (m : smap N) (a : N) : bool := existsb (fun e => has_prefix [a] (fst e)) m.
Definition present (m : smap N) (a : N) : bool := match get m [a] with Some _ => true | None => false end.
(* updateContractStorage / updateContractStorages: a system contract named by the storage diff that has no
   contract record is created like a deployed contract with class hash 0 at the current block number *)
Definition sys_missing (cls : smap N) (d : diff) : list N :=
  filter (fun a => touched d a && negb (present cls a)) sys_addrs.
Definition sys_new (cls : smap N) (d : diff) : list (N * N) := map (fun a => (a, 0)) (sys_missing cls d).
(* the diff as the head buckets see it: the created system contracts count as deployments *)
Definition with_sys (cls : smap N) (d : diff) : diff :=
  mkDiff (sys_new cls d ++ d_deploy d) (d_replace d) (d_nonce d) (d_store d) (d_decl d) (d_deliv d).

(* ---------- NEW backend ---------- *)
(* State.Update ... writeHistory: post values at (prefix, block); replaced classes first, then
   deployed contracts. *)
Definition store_new (s : st) (d : diff) : st :=
  let n := s_next s in
  let dx := with_sys (s_class s) d in
  let store' := upd_store (d_store d) (s_store s) in
  (* commit(): a touched system contract whose storage root is zero is removed with its storage nodes *)
  let gone := filter (fun a => touched d a && negb (has_store store' a)) sys_addrs in
  mkSt (n + 1)
    (foldd (fun a m => del [a] m) gone (upd_class dx (s_class s)))
    (foldd (fun a m => del [a] m) gone (upd_nonce dx (s_nonce s)))
    (foldd (fun a m => del [a] m) gone (upd_dh n dx (s_dh s)))
    (foldd (fun a m => del_prefix [a] m) gone store')
    (upd_decl n d (s_decl s))
    (foldd (fun e m => put [fst (fst e); snd (fst e); n] (snd e) m) (d_store d) (s_lstore s))
    (foldd (fun e m => put [fst e; n] (snd e) m) (d_nonce d) (s_lnonce s))
    (foldd (fun e m => put [fst e; n] (snd e) m) (d_deploy d)
       (foldd (fun e m => put [fst e; n] (snd e) m) (d_replace d) (s_lclass s))).

(* getHistoricalValue: ErrNoHistoryValue -> zero *)
Definition hist_new (m : smap N) (p : key) (n : N) : N :=
  match valueAt_new (sub m p) n with Some v => v | None => 0 end.

(* removal of the classes declared by the reverted block (both backends):
   s.Class(hash) must exist; deleted only when At = block number. *)
Fixpoint rm_decl (n : N) (l : list N) (m : smap N) : option (smap N) :=
  match l with
  | [] => Some m
  | h :: r =>
      match get m [h] with
      | None => None
      | Some a => rm_decl n r (if a =? n then del [h] m else m)
      end
  end.

(* removal of the classes registered with the reverted block for its deployed contracts (juno commit 007ff78;
   core/deprecatedstate removeDeployedContractClasses, core/state Revert second loop): for the class hash of EVERY
   deployed contract of the block, a missing record is skipped (db.ErrKeyNotFound -> continue), a record is deleted
   iff At = block number; no class-trie write.  The legacy backend deletes at once (a second visit of the same hash
   finds no record); the new backend collects the hashes in dirtyClasses, reading the unchanged database, skips a
   hash already collected, and deletes at flush: the same map. *)
Fixpoint rm_deliv (n : N) (l : list N) (m : smap N) : smap N :=
  match l with
  | [] => m
  | h :: r =>
      rm_deliv n r (match get m [h] with
                    | Some a => if a =? n then del [h] m else m
                    | None => m
                    end)
  end.

(* Revert's class part: declared lists first, then the class hashes of the deployed contracts *)
Definition rm_classes (n : N) (d : diff) (m : smap N) : option (smap N) :=
  match rm_decl n (d_decl d) m with
  | None => None
  | Some m' => Some (rm_deliv n (map snd (d_deploy d)) m')
  end.
(* ... as it was before juno commit 007ff78: the declared lists only.  Used by no theorem; kept for the witness
   C04_revert_before_fix_refuted (a class delivered for a deployed contract survived RevertHead). *)
Definition rm_classes_before_007ff78 (n : N) (d : diff) (m : smap N) : option (smap N) := rm_decl n (d_decl d) m.

(* GetReverseStateDiff of the new backend: values at n-1, zero for block 0 *)
Definition rev_val_new (m : smap N) (p : key) (n : N) : N := if n =? 0 then 0 else hist_new m p (n - 1).

Definition revert_new_with (rmc : N -> diff -> smap N -> option (smap N)) (s : st) (d : diff) : option st :=
  if s_next s =? 0 then None else
  let n := s_next s - 1 in
  match rmc n d (s_decl s) with
  | None => None
  | Some decl' =>
      let r_store := map (fun e => (fst e, rev_val_new (s_lstore s) [fst (fst e); snd (fst e)] n)) (d_store d) in
      let r_nonce := map (fun e => (fst e, rev_val_new (s_lnonce s) [fst e] n)) (d_nonce d) in
      let r_class := map (fun e => (fst e, rev_val_new (s_lclass s) [fst e] n)) (d_replace d) in
      (* updateContracts(reverse diff): a system contract the reverse storage diff names and that has no
         record (it was removed when its storage became empty) is created again, stamped with the number of
         the block being reverted *)
      let sx := sys_new (s_class s) d in
      let class0 := foldd (fun e m => put [fst e] (snd e) m) sx (s_class s) in
      let nonce0 := foldd (fun e m => put [fst e] 0 m) sx (s_nonce s) in
      let dh0 := foldd (fun e m => put [fst e] n m) sx (s_dh s) in
      let class1 := foldd (fun e m => put [fst e] (snd e) m) r_class class0 in
      let nonce1 := foldd (fun e m => put [fst e] (snd e) m) r_nonce nonce0 in
      let store1 := upd_store r_store (s_store s) in
      (* then deployed contracts are deleted with their storage, and commit() removes the touched system
         contracts whose storage root is zero *)
      let gone := filter (fun a => touched d a && negb (has_store store1 a)) sys_addrs in
      Some (mkSt n
        (foldd (fun a m => del [a] m) gone (foldd (fun e m => del [fst e] m) (d_deploy d) class1))
        (foldd (fun a m => del [a] m) gone (foldd (fun e m => del [fst e] m) (d_deploy d) nonce1))
        (foldd (fun a m => del [a] m) gone (foldd (fun e m => del [fst e] m) (d_deploy d) dh0))
        (foldd (fun a m => del_prefix [a] m) gone (foldd (fun e m => del_prefix [fst e] m) (d_deploy d) store1))
        decl'
        (* deleteHistory *)
        (foldd (fun e m => del [fst (fst e); snd (fst e); n] m) (d_store d) (s_lstore s))
        (foldd (fun e m => del [fst e; n] m) (d_deploy d)
           (foldd (fun e m => del [fst e; n] m) (d_nonce d) (s_lnonce s)))
        (foldd (fun e m => del [fst e; n] m) (d_deploy d)
           (foldd (fun e m => del [fst e; n] m) (d_replace d) (s_lclass s))))
  end.
Definition revert_new : st -> diff -> option st := revert_new_with rm_classes.
Definition revert_new_before_007ff78 : st -> diff -> option st := revert_new_with rm_classes_before_007ff78.

(* ---------- LEGACY backend ---------- *)
(* Update: old values are logged at the changing block.  Replaced classes and nonces always log
   (read after the deployments of the same block are registered); a storage write logs unless
   trie.Put reports a no-op, i.e. writing zero over an absent leaf. *)
Definition store_old (s : st) (d : diff) : st :=
  let n := s_next s in
  let dx := with_sys (s_class s) d in
  let class_dep := foldd (fun e m => put [fst e] (snd e) m) (d_deploy d) (s_class s) in
  let nonce_dep := foldd (fun e m => put [fst e] 0 m) (d_deploy d) (s_nonce s) in
  (* no system contract is removed by Update, whatever its storage root *)
  mkSt (n + 1)
    (upd_class dx (s_class s)) (upd_nonce dx (s_nonce s)) (upd_dh n dx (s_dh s))
    (upd_store (d_store d) (s_store s)) (upd_decl n d (s_decl s))
    (foldd (fun e m =>
        let old := getd (s_store s) [fst (fst e); snd (fst e)] in
        if (old =? 0) && (snd e =? 0) then m else put [fst (fst e); snd (fst e); n] old m)
      (d_store d) (s_lstore s))
    (foldd (fun e m => put [fst e; n] (getd nonce_dep [fst e]) m) (d_nonce d) (s_lnonce s))
    (foldd (fun e m => put [fst e; n] (getd class_dep [fst e]) m) (d_replace d) (s_lclass s)).

(* GetReverseStateDiff of the legacy backend: for nonces and class hashes ErrCheckHeadState is an error
   (their logs are always written); for a storage slot it means "no change since n-1" and the head value
   is used (juno commit 1b89e86; before it this was an error too and RevertHead failed after a zero
   write to an absent slot). *)
Definition rev_val_old (m : smap N) (p : key) (n : N) : option N :=
  if n =? 0 then Some 0 else valueAt_old (sub m p) (n - 1).
Definition rev_store_old (s : st) (p : key) (n : N) : N :=
  if n =? 0 then 0 else
  match valueAt_old (sub (s_lstore s) p) (n - 1) with Some v => v | None => getd (s_store s) p end.

Fixpoint map_opt {A B} (f : A -> option B) (l : list A) : option (list B) :=
  match l with
  | [] => Some []
  | x :: r => match f x, map_opt f r with Some y, Some r' => Some (y :: r') | _, _ => None end
  end.

Definition revert_old_with (rmc : N -> diff -> smap N -> option (smap N)) (s : st) (d : diff) : option st :=
  if s_next s =? 0 then None else
  let n := s_next s - 1 in
  match rmc n d (s_decl s) with
  | None => None
  | Some decl' =>
    let r_store := map (fun e => (fst e, rev_store_old s [fst (fst e); snd (fst e)] n)) (d_store d) in
    match map_opt (fun e => option_map (fun v => (fst e, v)) (rev_val_old (s_lnonce s) [fst e] n)) (d_nonce d),
          map_opt (fun e => option_map (fun v => (fst e, v)) (rev_val_old (s_lclass s) [fst e] n)) (d_replace d) with
    | Some r_nonce, Some r_class =>
        (* updateContractStorages(reverse diff) deploys a missing system contract at the reverted block's number *)
        let sx := sys_new (s_class s) d in
        let class0 := foldd (fun e m => put [fst e] (snd e) m) sx (s_class s) in
        let nonce0 := foldd (fun e m => put [fst e] 0 m) sx (s_nonce s) in
        let dh0 := foldd (fun e m => put [fst e] n m) sx (s_dh s) in
        let class1 := foldd (fun e m => put [fst e] (snd e) m) r_class class0 in
        let nonce1 := foldd (fun e m => put [fst e] (snd e) m) r_nonce nonce0 in
        let store1 := upd_store r_store (s_store s) in
        (* purgeContract: deployment height, class hash and nonce keys; storage is assumed cleared *)
        let class2 := foldd (fun e m => del [fst e] m) (d_deploy d) class1 in
        let nonce2 := foldd (fun e m => del [fst e] m) (d_deploy d) nonce1 in
        let dh2 := foldd (fun e m => del [fst e] m) (d_deploy d) dh0 in
        (* purgesystemContracts: EVERY system contract that exists with a zero storage root is purged, whether
           the block touched it or not; then verifyStateUpdateRoot(OldRoot).  State roots are not modelled:
           the check fails exactly when a purged contract was part of the state before the reverted block,
           i.e. when its deployment height is below the reverted block's number (a contract stamped with that
           number was created by the block, or just now by the reverse diff) *)
        let gone := filter (fun a => present class2 a && negb (has_store store1 a)) sys_addrs in
        if existsb (fun a => negb (getd dh2 [a] =? n)) gone then None else
        Some (mkSt n
          (foldd (fun a m => del [a] m) gone class2)
          (foldd (fun a m => del [a] m) gone nonce2)
          (foldd (fun a m => del [a] m) gone dh2)
          store1
          decl'
          (* performStateDeletions *)
          (foldd (fun e m => del [fst (fst e); snd (fst e); n] m) (d_store d) (s_lstore s))
          (foldd (fun e m => del [fst e; n] m) (d_nonce d) (s_lnonce s))
          (foldd (fun e m => del [fst e; n] m) (d_replace d) (s_lclass s)))
    | _, _ => None
    end
  end.
Definition revert_old : st -> diff -> option st := revert_old_with rm_classes.
Definition revert_old_before_007ff78 : st -> diff -> option st := revert_old_with rm_classes_before_007ff78.

(* ---------- queries ---------- *)
Inductive query := QClass (a : N) | QNonce (a : N) | QSlot (a k : N) | QDecl (h : N).
Inductive ans := Found (v : N) | NotFound.

Definition deployed_at (s : st) (a n : N) : bool :=
  match get (s_dh s) [a] with Some h => h <=? n | None => false end.

(* core/state/history.go *)
Definition read_new (s : st) (q : query) (n : N) : ans :=
  match q with
  | QClass a => if deployed_at s a n then Found (hist_new (s_lclass s) [a] n) else NotFound
  | QNonce a => if deployed_at s a n then Found (hist_new (s_lnonce s) [a] n) else NotFound
  | QSlot a k => if deployed_at s a n then Found (hist_new (s_lstore s) [a; k] n) else NotFound
  | QDecl h => match get (s_decl s) [h] with
               | Some a => if n <? a then NotFound else Found a
               | None => NotFound
               end
  end.

(* core/deprecatedstate/history.go: ErrCheckHeadState -> head value; storage skips the deployment
   probe for non-zero values. *)
Definition read_old (s : st) (q : query) (n : N) : ans :=
  match q with
  | QClass a =>
      if deployed_at s a n then
        match valueAt_old (sub (s_lclass s) [a]) n with
        | Some v => Found v
        | None => match get (s_class s) [a] with Some v => Found v | None => NotFound end
        end
      else NotFound
  | QNonce a =>
      if deployed_at s a n then
        match valueAt_old (sub (s_lnonce s) [a]) n with
        | Some v => Found v
        | None => match get (s_nonce s) [a] with Some v => Found v | None => NotFound end
        end
      else NotFound
  | QSlot a k =>
      let v := match valueAt_old (sub (s_lstore s) [a; k]) n with
               | Some v => v
               | None => getd (s_store s) [a; k]
               end in
      if negb (v =? 0) then Found v
      else if deployed_at s a n then Found 0 else NotFound
  | QDecl h => match get (s_decl s) [h] with
               | Some a => if n <? a then NotFound else Found a
               | None => NotFound
               end
  end.

(* head reads (both backends).  A head storage read of a missing contract yields zero in juno; the
   RPC layer then probes the class hash (rpc/v10/storage.go) — the observation modelled here is that
   composite. *)
Definition read_head (s : st) (q : query) : ans :=
  match q with
  | QClass a => match get (s_class s) [a] with Some v => Found v | None => NotFound end
  | QNonce a => match get (s_nonce s) [a] with Some v => Found v | None => NotFound end
  | QSlot a k =>
      let v := getd (s_store s) [a; k] in
      if negb (v =? 0) then Found v
      else match get (s_class s) [a] with Some _ => Found 0 | None => NotFound end
  | QDecl h => match get (s_decl s) [h] with Some a => Found a | None => NotFound end
  end.

(* ---------- abstract ground truth ---------- *)
(* System contracts: they hold storage only (class hash 0, nonce 0, never deployed by a transaction).  In
   the protocol's state commitment a contract with class hash 0, nonce 0 and an empty storage is the EMPTY
   leaf, and both backends remove a system contract "when its storage no longer exists"; so a system
   contract EXISTS in the state after block n iff one of its slots is non-zero in that state.  It then has
   class hash 0 and nonce 0.  [a_sysk] lists the system-contract slots written so far, which makes that
   test computable. *)
Record astate := mkA {
  a_contract : N -> option (N * N);   (* address -> (class hash, nonce), ordinary contracts *)
  a_slot     : N -> N -> N;
  a_decl     : N -> option N;         (* class hash -> declared at *)
  a_sysk     : list (N * N)           (* (system address, slot) pairs written so far *)
}.
Definition a_empty : astate := mkA (fun _ => None) (fun _ _ => 0) (fun _ => None) [].

Definition assoc (l : list (N * N)) (x : N) : option N :=
  match find (fun e => fst e =? x) l with Some e => Some (snd e) | None => None end.
Definition assoc2 (l : list ((N * N) * N)) (x y : N) : option N :=
  match find (fun e => (fst (fst e) =? x) && (snd (fst e) =? y)) l with Some e => Some (snd e) | None => None end.

Definition apply_diff (a : astate) (n : N) (d : diff) : astate :=
  mkA
    (fun x =>
       let base := match assoc (d_deploy d) x with Some c => Some (c, 0) | None => a_contract a x end in
       match base with
       | None => None
       | Some (c, nn) =>
           Some (match assoc (d_replace d) x with Some c' => c' | None => c end,
                 match assoc (d_nonce d) x with Some v => v | None => nn end)
       end)
    (fun x k => match assoc2 (d_store d) x k with Some v => v | None => a_slot a x k end)
    (fun h => match a_decl a h with Some b => Some b | None => if mem (d_reg d) h then Some n else None end)
    (map fst (filter (fun e => is_sys (fst (fst e))) (d_store d)) ++ a_sysk a).

Definition sys_exists (a : astate) (x : N) : bool :=
  existsb (fun e => (fst e =? x) && negb (a_slot a (fst e) (snd e) =? 0)) (a_sysk a).
(* the contract at address x in the abstract state: (class hash, nonce) *)
Definition a_exists (a : astate) (x : N) : option (N * N) :=
  if is_sys x then (if sys_exists a x then Some (0, 0) else None) else a_contract a x.

Definition lookup (a : astate) (q : query) : ans :=
  match q with
  | QClass x => match a_exists a x with Some (c, _) => Found c | None => NotFound end
  | QNonce x => match a_exists a x with Some (_, v) => Found v | None => NotFound end
  | QSlot x k => match a_exists a x with Some _ => Found (a_slot a x k) | None => NotFound end
  | QDecl h => match a_decl a h with Some b => Found b | None => NotFound end
  end.

(* a chain is kept newest-first; block numbers count from the old end *)
Definition blen (rc : list diff) : N := N.of_nat (length rc).
Fixpoint truth (rc : list diff) : astate :=
  match rc with
  | [] => a_empty
  | d :: older => apply_diff (truth older) (blen older) d
  end.
(* the state after block n of the chain (n < blen rc) *)
Definition upto (rc : list diff) (n : N) : list diff := skipn (length rc - S (N.to_nat n)) rc.
Definition truth_at (rc : list diff) (n : N) : astate := truth (upto rc n).

(* ---------- which diffs are valid on top of a state ---------- *)
Fixpoint nodupk (l : list key) : bool :=
  match l with
  | [] => true
  | k :: r => negb (existsb (keqb k) r) && nodupk r
  end.

Definition is_deployed (s : st) (d : diff) (a : N) : bool :=
  match get (s_class s) [a] with Some _ => true | None => mem (map fst (d_deploy d)) a end.

(* System contracts are never deployed, replaced or given a nonce by a state diff (they are not accounts
   and have no class); a storage entry may name them whether they exist or not.
   Delivered classes: a definition that comes with the block without being declared by it is the class of one of
   the block's own deployed contracts (that is the only reason the synchroniser fetches one:
   sync/data_source.go fetchUnknownClasses walks DeployedContracts and the declared lists), listed once. *)
Definition deliv_ok (d : diff) : bool :=
  nodupk (map (fun h => [h]) (d_deliv d)) &&
  forallb (fun h => mem (map snd (d_deploy d)) h && negb (mem (d_decl d) h)) (d_deliv d).
Definition valid_diffb (s : st) (d : diff) : bool :=
  nodupk (map (fun e => [fst e]) (d_deploy d)) &&
  nodupk (map (fun e => [fst e]) (d_replace d)) &&
  nodupk (map (fun e => [fst e]) (d_nonce d)) &&
  nodupk (map (fun e => [fst (fst e); snd (fst e)]) (d_store d)) &&
  nodupk (map (fun h => [h]) (d_decl d)) &&
  forallb (fun e => negb (is_sys (fst e)) && negb (present (s_class s) (fst e))) (d_deploy d) &&
  (* a class replacement targets a contract that existed before the block *)
  forallb (fun e => negb (is_sys (fst e)) && present (s_class s) (fst e)) (d_replace d) &&
  forallb (fun e => negb (is_sys (fst e)) && is_deployed s d (fst e)) (d_nonce d) &&
  forallb (fun e => is_sys (fst (fst e)) || is_deployed s d (fst (fst e))) (d_store d) &&
  deliv_ok d.

(* the diff leaves every system contract it writes to with a non-empty storage.  Chains of such diffs are
   the ones for which both backends answer every read correctly (C03_new / C03_old); a diff that EMPTIES a
   system contract (or writes only zeros to a missing one) is stored by juno as well, and is where the
   backends go wrong (C03_new_sys_refuted / C03_old_sys_refuted, C04_*_sys_refuted). *)
Definition sys_guard (s : st) (d : diff) : bool :=
  forallb (fun a => negb (touched d a) || has_store (upd_store (d_store d) (s_store s)) a) sys_addrs.

(* the condition under which the legacy revert failed BEFORE juno commit 1b89e86 (DESIGN §8.1): no zero
   write to a slot that is absent.  No theorem needs it any more; kept for the oracle's diagnostics. *)
Definition no_noop_zero_write (s : st) (d : diff) : bool :=
  forallb (fun e => negb ((snd e =? 0) && (getd (s_store s) [fst (fst e); snd (fst e)] =? 0))) (d_store d).

(* ---------- operation sequences ---------- *)
Inductive op := Store (d : diff) | Revert.

Definition step (store : st -> diff -> st) (revert : st -> diff -> option st)
                (c : st * list diff) (o : op) : st * list diff :=
  let (s, rc) := c in
  match o with
  | Store d => if valid_diffb s d then (store s d, d :: rc) else c   (* not a block the node is given / juno rejects it: nothing changes *)
  | Revert =>
      match rc with
      | [] => c
      | d :: older => match revert s d with
                      | Some s' => (s', older)
                      | None => c          (* the batch is dropped: nothing changes *)
                      end
      end
  end.

Definition run_new (ops : list op) : st * list diff := fold_left (step store_new revert_new) ops (st_empty, []).
Definition run_old (ops : list op) : st * list diff := fold_left (step store_old revert_old) ops (st_empty, []).

(* an operation sequence all of whose accepted Stores satisfy [sys_guard] on the state they are applied to *)
Definition gstep (store : st -> diff -> st) (revert : st -> diff -> option st)
                 (cg : (st * list diff) * bool) (o : op) : (st * list diff) * bool :=
  (step store revert (fst cg) o,
   snd cg && match o with
             | Store d => negb (valid_diffb (fst (fst cg)) d) || sys_guard (fst (fst cg)) d
             | Revert => true
             end).
Definition sys_guarded_new (ops : list op) : bool := snd (fold_left (gstep store_new revert_new) ops ((st_empty, []), true)).
Definition sys_guarded_old (ops : list op) : bool := snd (fold_left (gstep store_old revert_old) ops ((st_empty, []), true)).

(* the property predicate, evaluated by the harness on the implementation's answers as well:
   an observed answer [o] for query q at block n of chain rc is right iff it equals the truth *)
Definition ans_eqb (x y : ans) : bool :=
  match x, y with
  | Found u, Found v => u =? v
  | NotFound, NotFound => true
  | _, _ => false
  end.
Definition c03_ok (rc : list diff) (q : query) (n : N) (o : ans) : bool := ans_eqb o (lookup (truth_at rc n) q).

(* ---------- CASM-hash metadata of Sierra classes ----------
   core/class.go ClassCasmHashMetadata {declaredAt, casmHashV2, migratedAt, casmHashV1} and
   blockchain/statebackend/casm_metadata.go (store / revert), read by CompiledClassHash of the head readers
   (CasmHash) and of the history readers (CompiledClassHashAt = CasmHashAt(block)) of BOTH state backends.
   The bucket is independent of the state buckets above: a little machine of its own. *)
Record meta := mkMeta {
  m_at   : N;           (* declaredAt *)
  m_migr : N;           (* migratedAt, 0 = not migrated *)
  m_v1   : option N;    (* casmHashV1: absent for classes declared from 0.14.1 on *)
  m_v2   : N            (* casmHashV2: declared, or pre-computed from the delivered CASM *)
}.
(* what a block says about Sierra classes *)
Record cblk := mkCblk {
  c_v2   : bool;                  (* protocol version >= 0.14.1 *)
  c_decl : list (N * (N * N));    (* DeclaredV1Classes: class -> (compiled class hash in the diff,
                                     Blake2s hash of the delivered CASM) *)
  c_migr : list (N * N)           (* MigratedClasses: class -> new compiled class hash *)
}.

(* NewCasmHashMetadataDeclaredV2 / DeclaredV1 *)
Definition casm_declare (n : N) (v2 : bool) (e : N * (N * N)) : meta :=
  if v2 then mkMeta n 0 None (fst (snd e)) else mkMeta n 0 (Some (fst (snd e))) (snd (snd e)).

(* storeCasmHashMetadata: V1 protocol stores the declarations only; V2 protocol also marks the migrated
   classes (metadata read through the reader, i.e. as it was before the block; a missing record or a
   refused Migrate fails the Store - excluded by [cvalid]) *)
Definition casm_store (n : N) (b : cblk) (m : smap meta) : smap meta :=
  let m1 := foldd (fun e m' => put [fst e] (casm_declare n (c_v2 b) e) m') (c_decl b) m in
  if c_v2 b then
    foldd (fun e m' => match get m [fst e] with
                       | Some md => put [fst e] (mkMeta (m_at md) n (m_v1 md) (m_v2 md)) m'
                       | None => m'
                       end) (c_migr b) m1
  else m1.

(* revertCasmHashMetadata: delete the declared, Unmigrate the migrated ones *)
Definition casm_revert (b : cblk) (m : smap meta) : smap meta :=
  foldd (fun e m' => match get m [fst e] with
                     | Some md => put [fst e] (mkMeta (m_at md) 0 (m_v1 md) (m_v2 md)) m'
                     | None => m'
                     end) (c_migr b)
    (foldd (fun e m' => del [fst e] m') (c_decl b) m).

(* CasmHashAt(height) *)
Definition casm_read (m : smap meta) (h n : N) : ans :=
  match get m [h] with
  | None => NotFound
  | Some md =>
      if n <? m_at md then NotFound else
      Found (match m_v1 md with
             | None => m_v2 md
             | Some v1 => if (0 <? m_migr md) && (m_migr md <=? n) then m_v2 md else v1
             end)
  end.
(* CasmHash() *)
Definition casm_head (m : smap meta) (h : N) : ans :=
  match get m [h] with
  | None => NotFound
  | Some md => Found (match m_v1 md with
                      | None => m_v2 md
                      | Some v1 => if 0 <? m_migr md then m_v2 md else v1
                      end)
  end.

(* the truth: the compiled class hash the chain's diffs give a class *)
Definition cassoc {B} (l : list (N * B)) (x : N) : option B :=
  match find (fun e => fst e =? x) l with Some e => Some (snd e) | None => None end.
Definition capply (t : N -> option N) (b : cblk) : N -> option N :=
  fun h => match t h with
           | Some v => match cassoc (c_migr b) h with Some v' => Some v' | None => Some v end
           | None => match cassoc (c_decl b) h with Some e => Some (fst e) | None => None end
           end.
Fixpoint ctruth (rc : list cblk) : N -> option N :=
  match rc with [] => fun _ => None | b :: older => capply (ctruth older) b end.
Definition ctruth_at (rc : list cblk) (n : N) : N -> option N := ctruth (skipn (length rc - S (N.to_nat n)) rc).
Definition ans_of (o : option N) : ans := match o with Some v => Found v | None => NotFound end.

(* blocks juno stores and every Starknet chain satisfies: a class is declared once; a migration names a
   class declared under the old hash and not yet migrated, in a >= 0.14.1 block, and its new hash is the
   Blake2s hash of the CASM delivered at declaration *)
Definition cvalid (m : smap meta) (b : cblk) : bool :=
  nodupk (map (fun e => [fst e]) (c_decl b)) &&
  forallb (fun e => match get m [fst e] with Some _ => false | None => true end) (c_decl b) &&
  nodupk (map (fun e => [fst e]) (c_migr b)) &&
  forallb (fun e => c_v2 b &&
                    match get m [fst e] with
                    | Some md => (m_migr md =? 0) && (match m_v1 md with Some _ => true | None => false end) && (m_v2 md =? snd e)
                    | None => false
                    end) (c_migr b).

Inductive cop := CStore (b : cblk) | CRevert.
Definition clen (rc : list cblk) : N := N.of_nat (length rc).
Definition cstep (c : smap meta * list cblk) (o : cop) : smap meta * list cblk :=
  let (m, rc) := c in
  match o with
  | CStore b => if cvalid m b then (casm_store (clen rc) b m, b :: rc) else c
  | CRevert => match rc with [] => c | b :: older => (casm_revert b m, older) end
  end.
Definition crun (ops : list cop) : smap meta * list cblk := fold_left cstep ops ([], []).
(* the predicate the harness evaluates on the implementation's answers *)
Definition casm_ok (rc : list cblk) (h n : N) (o : ans) : bool := ans_eqb o (ans_of (ctruth_at rc n h)).
