(* C03 — main theorems: every operation sequence leaves the model in the state built from the
   surviving chain, and every read of that state equals the abstract truth. *)
From Coq Require Import List NArith Bool Lia ZifyN ZifyNat ZifyBool.
From V Require Import C03.Model C03.Proofs_map C03.Proofs_inv C03.Proofs_store C03.Proofs_new C03.Proofs_read C03.Proofs_old.
Import ListNotations.
Open Scope N_scope.

Section Chains.
  Variable store : st -> diff -> st.
  Fixpoint build (rc : list diff) : st :=
    match rc with [] => st_empty | d :: older => store (build older) d end.
  (* every block was accepted and left the system contracts it wrote to with a non-empty storage *)
  Fixpoint valid_chain (rc : list diff) : Prop :=
    match rc with
    | [] => True
    | d :: older => valid_chain older /\ valid_diffb (build older) d = true /\ sys_guard (build older) d = true
    end.
End Chains.

Lemma build_new_ok : forall rc, valid_chain store_new rc ->
  Inv (build store_new rc) /\ Hist_new (build store_new rc) /\ Agree (build store_new rc) (truth rc) /\
  s_next (build store_new rc) = blen rc.
Proof.
  induction rc; simpl; intros.
  - split; [apply Inv_empty | split; [apply Hist_empty | split; [apply Agree_empty | auto]]].
  - destruct H as [H1 [H2 H3]]. destruct (IHrc H1) as [I [Hs [Ag En]]]. pose proof (valid_diffb_VS _ _ H2 H3) as V.
    pose proof (Inv_store_new _ _ I V) as I'.
    split; [|split; [|split]]; auto.
    + apply Hist_store_new; auto.
    + rewrite <- En. eapply Agree_store; eauto. rewrite store_new_eq by auto. repeat split; auto.
    + rewrite En. unfold blen. simpl length. lia.
Qed.

Lemma build_old_ok : forall rc, valid_chain store_old rc ->
  Inv (build store_old rc) /\ Agree (build store_old rc) (truth rc) /\ s_next (build store_old rc) = blen rc.
Proof.
  induction rc; simpl; intros.
  - split; [apply Inv_empty | split; [apply Agree_empty | auto]].
  - destruct H as [H1 [H2 H3]]. destruct (IHrc H1) as [I [Ag En]]. pose proof (valid_diffb_VS _ _ H2 H3) as V.
    pose proof (Inv_store_old _ _ I V) as I'.
    split; [|split]; auto.
    + rewrite <- En. eapply Agree_store; eauto. rewrite store_old_eq. unfold same_head. simpl. repeat split; auto.
    + rewrite En. unfold blen. simpl length. lia.
Qed.

Lemma chain_VS : forall store d rc, valid_chain store (d :: rc) -> VS (build store rc) d.
Proof. intros. destruct H as [_ [H2 H3]]. apply valid_diffb_VS; auto. Qed.

Lemma blen_cons : forall (d : diff) older, blen (d :: older) = blen older + 1.
Proof. intros. unfold blen. simpl length. lia. Qed.

Lemma reads_new : forall rc q n, valid_chain store_new rc -> n < blen rc ->
  read_new (build store_new rc) q n = lookup (truth_at rc n) q.
Proof.
  induction rc; intros.
  - unfold blen in H0. simpl in H0. lia.
  - pose proof H as Hv. simpl in H. destruct H as [H1 [H2 H3]].
    destruct (build_new_ok rc H1) as [I [Hs [Ag En]]].
    rewrite blen_cons in H0. destruct (N.eq_dec n (blen rc)).
    + subst. rewrite truth_at_head. destruct (build_new_ok (a :: rc) Hv) as [I' [Hs' [Ag' En']]].
      apply read_new_head; auto. rewrite En'. apply blen_cons.
    + simpl build. rewrite read_new_stable; auto; [| apply (chain_VS store_new); auto | lia].
      rewrite IHrc; auto; [|lia]. rewrite truth_at_old; auto. lia.
Qed.

Lemma reads_old : forall rc q n, valid_chain store_old rc -> n < blen rc ->
  read_old (build store_old rc) q n = lookup (truth_at rc n) q.
Proof.
  induction rc; intros.
  - unfold blen in H0. simpl in H0. lia.
  - pose proof H as Hv. simpl in H. destruct H as [H1 [H2 H3]].
    destruct (build_old_ok rc H1) as [I [Ag En]].
    rewrite blen_cons in H0. destruct (N.eq_dec n (blen rc)).
    + subst. rewrite truth_at_head. destruct (build_old_ok (a :: rc) Hv) as [I' [Ag' En']].
      apply read_old_head; auto. rewrite En'. apply blen_cons.
    + simpl build. rewrite read_old_stable; auto; [| apply (chain_VS store_old); auto | lia].
      rewrite IHrc; auto; [|lia]. rewrite truth_at_old; auto. lia.
Qed.

(* ---------- operation sequences ---------- *)
(* the configuration of a guarded run: the state is the one built from the surviving chain, whose blocks
   were all accepted and satisfied the guard - as long as the guard flag is still up *)
Definition RunInv (store : st -> diff -> st) (cg : (st * list diff) * bool) : Prop :=
  snd cg = true -> fst (fst cg) = build store (snd (fst cg)) /\ valid_chain store (snd (fst cg)).

Lemma gstep_new_inv : forall cg o, RunInv store_new cg -> RunInv store_new (gstep store_new revert_new cg o).
Proof.
  intros [[s rc] g] o H. unfold RunInv, gstep in *. cbn [fst snd] in *. intros G.
  apply andb_true_iff in G. destruct G as [G1 G2]. destruct (H G1) as [H1 H2]. subst s.
  destruct o; simpl.
  - destruct (valid_diffb (build store_new rc) d) eqn:E; simpl in *; auto.
  - destruct rc as [|d older]; [split; auto|]. simpl in *. pose proof (chain_VS store_new d older H2) as V.
    destruct H2 as [H2 H3].
    destruct (build_new_ok older H2) as [I [Hs [Ag En]]].
    rewrite revert_store_new; auto.
Qed.

Lemma gstep_old_inv : forall cg o, RunInv store_old cg -> RunInv store_old (gstep store_old revert_old cg o).
Proof.
  intros [[s rc] g] o H. unfold RunInv, gstep in *. cbn [fst snd] in *. intros G.
  apply andb_true_iff in G. destruct G as [G1 G2]. destruct (H G1) as [H1 H2]. subst s.
  destruct o; simpl.
  - destruct (valid_diffb (build store_old rc) d) eqn:E; simpl in *; auto.
  - destruct rc as [|d older]; [split; auto|]. simpl in *. pose proof (chain_VS store_old d older H2) as V.
    destruct H2 as [H2 H3].
    destruct (build_old_ok older H2) as [I [Ag En]].
    rewrite revert_store_old; auto.
Qed.

Lemma grun_inv : forall store revert, (forall cg o, RunInv store cg -> RunInv store (gstep store revert cg o)) ->
  forall ops cg, RunInv store cg -> RunInv store (fold_left (gstep store revert) ops cg).
Proof. induction ops; simpl; intros; auto. Qed.

(* the guarded run is the run, with the flag beside it *)
Lemma grun_fst : forall store revert ops cg,
  fst (fold_left (gstep store revert) ops cg) = fold_left (step store revert) ops (fst cg).
Proof. induction ops; simpl; intros; auto. rewrite IHops. auto. Qed.

Lemma run_new_inv : forall ops, sys_guarded_new ops = true ->
  fst (run_new ops) = build store_new (snd (run_new ops)) /\ valid_chain store_new (snd (run_new ops)).
Proof.
  intros ops G. unfold sys_guarded_new in G.
  pose proof (grun_inv store_new revert_new gstep_new_inv ops ((st_empty, []), true)) as H.
  unfold RunInv in H at 2. rewrite grun_fst in H. apply H; auto. intros _. simpl. auto.
Qed.

Lemma run_old_inv : forall ops, sys_guarded_old ops = true ->
  fst (run_old ops) = build store_old (snd (run_old ops)) /\ valid_chain store_old (snd (run_old ops)).
Proof.
  intros ops G. unfold sys_guarded_old in G.
  pose proof (grun_inv store_old revert_old gstep_old_inv ops ((st_empty, []), true)) as H.
  unfold RunInv in H at 2. rewrite grun_fst in H. apply H; auto. intros _. simpl. auto.
Qed.

Lemma c03_new_lemma : forall ops s rc, run_new ops = (s, rc) -> sys_guarded_new ops = true ->
  (forall q n, n < blen rc -> read_new s q n = lookup (truth_at rc n) q) /\
  (forall q, read_head s q = lookup (truth rc) q).
Proof.
  intros ops s rc H G. pose proof (run_new_inv ops G) as [H1 H2]. rewrite H in *. simpl in *. subst. split; intros.
  - apply reads_new; auto.
  - destruct (build_new_ok rc H2) as [I [_ [Ag _]]]. apply read_head_ok; auto.
Qed.

Lemma c03_old_lemma : forall ops s rc, run_old ops = (s, rc) -> sys_guarded_old ops = true ->
  (forall q n, n < blen rc -> read_old s q n = lookup (truth_at rc n) q) /\
  (forall q, read_head s q = lookup (truth rc) q).
Proof.
  intros ops s rc H G. pose proof (run_old_inv ops G) as [H1 H2]. rewrite H in *. simpl in *. subst. split; intros.
  - apply reads_old; auto.
  - destruct (build_old_ok rc H2) as [I [Ag _]]. apply read_head_ok; auto.
Qed.

(* a sequence that never writes to a system contract is guarded *)
Lemma sys_guard_untouched : forall s d, (forall e, In e (d_store d) -> is_sys (fst (fst e)) = false) -> sys_guard s d = true.
Proof.
  intros. unfold sys_guard. apply forallb_forall. intros a Ha. apply is_sys_in in Ha.
  destruct (touched d a) eqn:T; auto. unfold touched in T. apply existsb_exists in T. destruct T as [e [Hin E]].
  apply N.eqb_eq in E. subst. rewrite (H _ Hin) in Ha. discriminate.
Qed.

Definition no_sys_write (o : op) : Prop :=
  match o with Store d => forall e, In e (d_store d) -> is_sys (fst (fst e)) = false | Revert => True end.

Lemma guarded_no_sys : forall store revert ops cg, Forall no_sys_write ops ->
  snd (fold_left (gstep store revert) ops cg) = snd cg.
Proof.
  induction ops; simpl; intros; auto. inversion H; subst. rewrite IHops; auto.
  unfold gstep. simpl. destruct a; simpl.
  - rewrite (sys_guard_untouched _ _ H2). rewrite orb_true_r. apply andb_true_r.
  - apply andb_true_r.
Qed.

Lemma c03_new_no_sys_lemma : forall (ops : list op) (s : st) (rc : list diff), Forall no_sys_write ops ->
  run_new ops = (s, rc) ->
  (forall q n, n < blen rc -> read_new s q n = lookup (truth_at rc n) q) /\
  (forall q, read_head s q = lookup (truth rc) q).
Proof.
  intros. apply (c03_new_lemma ops); auto. unfold sys_guarded_new. rewrite guarded_no_sys; auto.
Qed.

Lemma c03_old_no_sys_lemma : forall (ops : list op) (s : st) (rc : list diff), Forall no_sys_write ops ->
  run_old ops = (s, rc) ->
  (forall q n, n < blen rc -> read_old s q n = lookup (truth_at rc n) q) /\
  (forall q, read_head s q = lookup (truth rc) q).
Proof.
  intros. apply (c03_old_lemma ops); auto. unfold sys_guarded_old. rewrite guarded_no_sys; auto.
Qed.

(* what "equals the truth" says about existence and unset slots *)
Lemma lookup_notfound : forall a q, lookup a q = NotFound <->
  match q with
  | QClass x | QNonce x | QSlot x _ => a_exists a x = None
  | QDecl h => a_decl a h = None
  end.
Proof.
  intros. destruct q; simpl.
  - destruct (a_exists a a0) as [[? ?]|]; split; intros; auto; discriminate.
  - destruct (a_exists a a0) as [[? ?]|]; split; intros; auto; discriminate.
  - destruct (a_exists a a0) as [[? ?]|]; split; intros; auto; discriminate.
  - destruct (a_decl a h); split; intros; auto; discriminate.
Qed.

Lemma truth_unset_zero : forall rc x k, (forall d, In d rc -> assoc2 (d_store d) x k = None) -> a_slot (truth rc) x k = 0.
Proof.
  induction rc; simpl; intros; auto. rewrite H by auto. apply IHrc. intros. apply H. auto.
Qed.

