(* C03 — main theorems: every operation sequence leaves the model in the state built from the
   surviving chain, and every read of that state equals the abstract truth. *)
From Coq Require Import List NArith Bool Lia ZifyN ZifyNat ZifyBool.
From V Require Import C03.Model C03.Proofs_map C03.Proofs_inv C03.Proofs_store C03.Proofs_new C03.Proofs_read C03.Proofs_old.
Import ListNotations.
Open Scope N_scope.

Section Chains.
  Variable store : st -> diff -> st.
  Fixpoint build (rc : list diff) : st :=
    match rc with [] => st_empty | d :: older => store (build older) d end.
  Fixpoint valid_chain (rc : list diff) : Prop :=
    match rc with [] => True | d :: older => valid_chain older /\ valid_diffb (build older) d = true end.
End Chains.

Lemma build_new_ok : forall rc, valid_chain store_new rc ->
  Inv (build store_new rc) /\ Hist_new (build store_new rc) /\ Agree (build store_new rc) (truth rc) /\
  s_next (build store_new rc) = blen rc.
Proof.
  induction rc; simpl; intros.
  - split; [apply Inv_empty | split; [apply Hist_empty | split; [apply Agree_empty | auto]]].
  - destruct H as [H1 H2]. destruct (IHrc H1) as [I [Hs [Ag En]]]. apply valid_diffb_Valid in H2.
    split; [|split; [|split]].
    + apply Inv_store_new; auto.
    + apply Hist_store_new; auto.
    + rewrite <- En. eapply Agree_store; eauto. repeat split; auto.
    + simpl. rewrite En. unfold blen. simpl length. lia.
Qed.

Lemma build_old_ok : forall rc, valid_chain store_old rc ->
  Inv (build store_old rc) /\ Agree (build store_old rc) (truth rc) /\ s_next (build store_old rc) = blen rc.
Proof.
  induction rc; simpl; intros.
  - split; [apply Inv_empty | split; [apply Agree_empty | auto]].
  - destruct H as [H1 H2]. destruct (IHrc H1) as [I [Ag En]]. apply valid_diffb_Valid in H2.
    split; [|split].
    + apply Inv_store_old; auto.
    + rewrite <- En. eapply Agree_store; eauto. unfold same_head. simpl. repeat split; auto.
    + rewrite En. unfold blen. simpl length. lia.
Qed.

Lemma blen_cons : forall (d : diff) older, blen (d :: older) = blen older + 1.
Proof. intros. unfold blen. simpl length. lia. Qed.

Lemma reads_new : forall rc q n, valid_chain store_new rc -> n < blen rc ->
  read_new (build store_new rc) q n = lookup (truth_at rc n) q.
Proof.
  induction rc; intros.
  - unfold blen in H0. simpl in H0. lia.
  - pose proof H as Hv. simpl in H. destruct H as [H1 H2].
    destruct (build_new_ok rc H1) as [I [Hs [Ag En]]].
    rewrite blen_cons in H0. destruct (N.eq_dec n (blen rc)).
    + subst. rewrite truth_at_head. destruct (build_new_ok (a :: rc) Hv) as [I' [Hs' [Ag' En']]].
      apply read_new_head; auto. rewrite En'. apply blen_cons.
    + simpl build. rewrite read_new_stable; auto using valid_diffb_Valid; [|lia].
      rewrite IHrc; auto; [|lia]. rewrite truth_at_old; auto. lia.
Qed.

Lemma reads_old : forall rc q n, valid_chain store_old rc -> n < blen rc ->
  read_old (build store_old rc) q n = lookup (truth_at rc n) q.
Proof.
  induction rc; intros.
  - unfold blen in H0. simpl in H0. lia.
  - pose proof H as Hv. simpl in H. destruct H as [H1 H2].
    destruct (build_old_ok rc H1) as [I [Ag En]].
    rewrite blen_cons in H0. destruct (N.eq_dec n (blen rc)).
    + subst. rewrite truth_at_head. destruct (build_old_ok (a :: rc) Hv) as [I' [Ag' En']].
      apply read_old_head; auto. rewrite En'. apply blen_cons.
    + simpl build. rewrite read_old_stable; auto using valid_diffb_Valid; [|lia].
      rewrite IHrc; auto; [|lia]. rewrite truth_at_old; auto. lia.
Qed.

(* ---------- operation sequences ---------- *)
Definition RunInv (store : st -> diff -> st) (c : st * list diff) : Prop :=
  fst c = build store (snd c) /\ valid_chain store (snd c).

Lemma step_new_inv : forall c o, RunInv store_new c -> RunInv store_new (step store_new revert_new c o).
Proof.
  intros [s rc] o [H1 H2]. simpl in *. subst. destruct o; simpl.
  - destruct (valid_diffb (build store_new rc) d) eqn:E; split; simpl; auto.
  - destruct rc as [|d older]; [split; auto|]. simpl in *. destruct H2 as [H2 H3].
    destruct (build_new_ok older H2) as [I [Hs [Ag En]]].
    rewrite revert_store_new; auto using valid_diffb_Valid. split; auto.
Qed.

Lemma step_old_inv : forall c o, RunInv store_old c -> RunInv store_old (step store_old revert_old c o).
Proof.
  intros [s rc] o [H1 H2]. simpl in *. subst. destruct o; simpl.
  - destruct (valid_diffb (build store_old rc) d) eqn:E; split; simpl; auto.
  - destruct rc as [|d older]; [split; auto|]. simpl in *. destruct H2 as [H2 H3].
    destruct (build_old_ok older H2) as [I [Ag En]]. pose proof (valid_diffb_Valid _ _ H3) as Vd.
    rewrite revert_store_old; auto. split; auto.
Qed.

Lemma run_inv : forall store revert, (forall c o, RunInv store c -> RunInv store (step store revert c o)) ->
  forall ops c, RunInv store c -> RunInv store (fold_left (step store revert) ops c).
Proof. induction ops; simpl; intros; auto. Qed.

Lemma run_new_inv : forall ops, RunInv store_new (run_new ops).
Proof. intros. apply run_inv; [apply step_new_inv | split; simpl; auto]. Qed.

Lemma run_old_inv : forall ops, RunInv store_old (run_old ops).
Proof. intros. apply run_inv; [apply step_old_inv | split; simpl; auto]. Qed.

Lemma c03_new_lemma : forall ops s rc, run_new ops = (s, rc) ->
  (forall q n, n < blen rc -> read_new s q n = lookup (truth_at rc n) q) /\
  (forall q, read_head s q = lookup (truth rc) q).
Proof.
  intros. pose proof (run_new_inv ops) as [H1 H2]. rewrite H in *. simpl in *. subst. split; intros.
  - apply reads_new; auto.
  - destruct (build_new_ok rc H2) as [I [_ [Ag _]]]. apply read_head_ok; auto.
Qed.

Lemma c03_old_lemma : forall ops s rc, run_old ops = (s, rc) ->
  (forall q n, n < blen rc -> read_old s q n = lookup (truth_at rc n) q) /\
  (forall q, read_head s q = lookup (truth rc) q).
Proof.
  intros. pose proof (run_old_inv ops) as [H1 H2]. rewrite H in *. simpl in *. subst. split; intros.
  - apply reads_old; auto.
  - destruct (build_old_ok rc H2) as [I [Ag _]]. apply read_head_ok; auto.
Qed.

(* what "equals the truth" says about existence and unset slots *)
Lemma lookup_notfound : forall a q, lookup a q = NotFound <->
  match q with
  | QClass x | QNonce x | QSlot x _ => a_contract a x = None
  | QDecl h => a_decl a h = None
  end.
Proof.
  intros. destruct q; simpl.
  - destruct (a_contract a a0) as [[? ?]|]; split; intros; auto; discriminate.
  - destruct (a_contract a a0) as [[? ?]|]; split; intros; auto; discriminate.
  - destruct (a_contract a a0) as [[? ?]|]; split; intros; auto; discriminate.
  - destruct (a_decl a h); split; intros; auto; discriminate.
Qed.

Lemma truth_unset_zero : forall rc x k, (forall d, In d rc -> assoc2 (d_store d) x k = None) -> a_slot (truth rc) x k = 0.
Proof.
  induction rc; simpl; intros; auto. rewrite H by auto. apply IHrc. intros. apply H. auto.
Qed.

