(* C03 — the CASM-hash metadata machine: reads by block and at head equal the truth, for every sequence of
   block additions and head reverts; Revert undoes Store exactly. *)
From Coq Require Import List NArith Bool Lia ZifyN ZifyNat ZifyBool.
From V Require Import C03.Model C03.Proofs_map C03.Proofs_inv.
Import ListNotations.
Open Scope N_scope.

Definition dmeta : meta := mkMeta 0 0 None 0.
Definition getmd (m : smap meta) (h : N) : meta := match get m [h] with Some md => md | None => dmeta end.
Definition setmig (n : N) (md : meta) : meta := mkMeta (m_at md) n (m_v1 md) (m_v2 md).

Lemma setmig_id : forall md, setmig (m_migr md) md = md.
Proof. destruct md; auto. Qed.

(* ---------- what cvalid gives ---------- *)
Record CV (m : smap meta) (b : cblk) : Prop := mkCV {
  cv_fresh : forall e, In e (c_decl b) -> get m [fst e] = None;
  cv_migr : forall e, In e (c_migr b) ->
            c_v2 b = true /\ exists md v1, get m [fst e] = Some md /\ m_migr md = 0 /\ m_v1 md = Some v1 /\ m_v2 md = snd e
}.

Lemma cvalid_CV : forall m b, cvalid m b = true -> CV m b.
Proof.
  unfold cvalid. intros. repeat (apply andb_true_iff in H; destruct H as [H ?]).
  rewrite forallb_forall in H0, H2. constructor.
  - intros e Hin. apply H2 in Hin. destruct (get m [fst e]); auto. discriminate.
  - intros e Hin. apply H0 in Hin. apply andb_true_iff in Hin. destruct Hin as [Hv Hin]. split; auto.
    destruct (get m [fst e]) as [md|]; [|discriminate].
    apply andb_true_iff in Hin. destruct Hin as [Hin H3]. apply andb_true_iff in Hin. destruct Hin as [H4 H5].
    destruct (m_v1 md) eqn:E; [|discriminate]. exists md, n. repeat split; auto; lia.
Qed.

(* ---------- the two folds as plain put folds ---------- *)
Definition decl_fold (n : N) (b : cblk) (m : smap meta) : smap meta :=
  foldd (fun e m' => put [fst e] (casm_declare n (c_v2 b) e) m') (c_decl b) m.

Lemma casm_store_eq : forall n b m, CV m b ->
  casm_store n b m = foldd (fun e m' => put [fst e] (setmig n (getmd m (fst e))) m') (c_migr b) (decl_fold n b m).
Proof.
  intros. unfold casm_store. fold (decl_fold n b m). destruct (c_v2 b) eqn:E.
  - apply foldd_ext. intros e y Hin. destruct (cv_migr _ _ H e Hin) as [_ [md [v1 [G _]]]].
    unfold getmd. rewrite G. auto.
  - destruct (c_migr b) eqn:Em; auto. destruct (cv_migr _ _ H p) as [Hv _]; [rewrite Em; simpl; auto | congruence].
Qed.

Lemma sorted_decl_fold : forall n b m, sorted m -> sorted (decl_fold n b m).
Proof. intros. apply sorted_fold_put. auto. Qed.

Lemma sorted_casm_store : forall n b m, CV m b -> sorted m -> sorted (casm_store n b m).
Proof. intros. rewrite casm_store_eq by auto. apply sorted_fold_put. apply sorted_decl_fold. auto. Qed.

Lemma get_casm_store : forall n b m k, CV m b ->
  get (casm_store n b m) k =
  match find (fun e => keqb k [fst e]) (c_migr b) with
  | Some e => Some (setmig n (getmd m (fst e)))
  | None => match find (fun e => keqb k [fst e]) (c_decl b) with
            | Some e => Some (casm_declare n (c_v2 b) e)
            | None => get m k
            end
  end.
Proof. intros. rewrite casm_store_eq by auto. unfold decl_fold. rewrite !get_fold_put. auto. Qed.

Lemma casm_revert_eq : forall b m, (forall e, In e (c_migr b) -> get m [fst e] <> None) ->
  casm_revert b m = foldd (fun e m' => put [fst e] (setmig 0 (getmd m (fst e))) m') (c_migr b)
                      (foldd (fun e m' => del [fst e] m') (c_decl b) m).
Proof.
  intros. unfold casm_revert. apply foldd_ext. intros e y Hin. apply H in Hin. unfold getmd.
  destruct (get m [fst e]); auto. contradiction.
Qed.

(* ---------- Revert undoes Store ---------- *)
Lemma casm_undo : forall n b m, sorted m -> CV m b -> casm_revert b (casm_store n b m) = m.
Proof.
  intros n b m S H.
  assert (MP : forall e, In e (c_migr b) -> get (casm_store n b m) [fst e] = Some (setmig n (getmd m (fst e)))).
  { intros e Hin. rewrite get_casm_store by auto.
    destruct (find (fun e0 => keqb [fst e] [fst e0]) (c_migr b)) eqn:F.
    - apply find_key_some in F. destruct F as [K _]. inversion K. rewrite H1. auto.
    - eapply find_none in F; eauto. rewrite keqb_refl in F. discriminate. }
  rewrite casm_revert_eq by (intros e Hin; rewrite (MP e Hin); discriminate).
  assert (S2 : sorted (casm_store n b m)) by (apply sorted_casm_store; auto).
  apply sorted_ext; auto.
  - apply sorted_fold_put. apply sorted_fold_del. auto.
  - intros k. rewrite get_fold_put.
    destruct (find (fun e => keqb k [fst e]) (c_migr b)) eqn:F.
    + apply find_key_some in F. destruct F as [K Hin]. subst. unfold getmd at 1. rewrite (MP _ Hin).
      destruct (cv_migr _ _ H _ Hin) as [_ [md [v1 [G [Z _]]]]]. unfold getmd. rewrite G. unfold setmig. simpl.
      f_equal. destruct md; simpl in *; subst; auto.
    + rewrite get_fold_del by auto.
      destruct (find (fun e => keqb k [fst e]) (c_decl b)) eqn:F1.
      * apply find_key_some in F1. destruct F1 as [K Hin]. subst. symmetry. apply (cv_fresh _ _ H); auto.
      * rewrite get_casm_store by auto. rewrite F, F1. auto.
Qed.

Lemma casm_undo_b : forall n b m, sorted m -> cvalid m b = true -> casm_revert b (casm_store n b m) = m.
Proof. intros. apply casm_undo; auto. apply cvalid_CV; auto. Qed.

(* ---------- invariant, agreement with the truth ---------- *)
Record CInv (m : smap meta) (n : N) : Prop := mkCInv {
  ci_sorted : sorted m;
  ci_below : forall h md, get m [h] = Some md -> m_at md < n /\ m_migr md < n
}.

Definition CAgree (m : smap meta) (t : N -> option N) : Prop := forall h, casm_head m h = ans_of (t h).

Lemma CAgree_none : forall m t h, CAgree m t -> (get m [h] = None <-> t h = None).
Proof.
  intros. specialize (H h). unfold casm_head in H. destruct (get m [h]); destruct (t h); simpl in H; split; intros; auto; discriminate.
Qed.

Lemma cassoc_find : forall {B} (l : list (N * B)) h,
  cassoc l h = match find (fun e => keqb [h] [fst e]) l with Some e => Some (snd e) | None => None end.
Proof. intros. unfold cassoc. rewrite find_k1. auto. Qed.

Lemma CInv_store : forall m n b, CInv m n -> CV m b -> CInv (casm_store n b m) (n + 1).
Proof.
  intros m n b [S B] H. constructor; [apply sorted_casm_store; auto|].
  intros h md G. rewrite get_casm_store in G by auto.
  destruct (find (fun e => keqb [h] [fst e]) (c_migr b)) eqn:F.
  - apply find_key_some in F. destruct F as [K Hin]. inversion K; subst.
    destruct (cv_migr _ _ H _ Hin) as [_ [md0 [v1 [G0 _]]]]. inversion G; subst. unfold getmd. rewrite G0. simpl.
    apply B in G0. lia.
  - destruct (find (fun e => keqb [h] [fst e]) (c_decl b)) eqn:F1.
    + inversion G; subst. unfold casm_declare. destruct (c_v2 b); simpl; lia.
    + apply B in G. lia.
Qed.

Lemma CAgree_store : forall m n t b, CInv m n -> CV m b -> CAgree m t -> CAgree (casm_store n b m) (capply t b).
Proof.
  intros m n t b [S B] H Ag h. unfold casm_head, capply. rewrite get_casm_store by auto. rewrite !cassoc_find.
  pose proof (Ag h) as A. unfold casm_head in A.
  destruct (find (fun e => keqb [h] [fst e]) (c_migr b)) eqn:F.
  - apply find_key_some in F. destruct F as [K Hin]. inversion K; subst.
    destruct (cv_migr _ _ H _ Hin) as [_ [md [v1 [G [Z [V1 V2]]]]]]. rewrite G in A.
    destruct (t (fst p)); [|discriminate]. unfold getmd. rewrite G. simpl. rewrite V1.
    apply B in G. destruct (0 <? n) eqn:E; [|lia]. simpl. rewrite V2. auto.
  - destruct (get m [h]) eqn:G.
    + destruct (t h); [|discriminate].
      destruct (find (fun e => keqb [h] [fst e]) (c_decl b)) eqn:F1; auto.
      apply find_key_some in F1. destruct F1 as [K Hin]. inversion K; subst.
      rewrite (cv_fresh _ _ H _ Hin) in G. discriminate.
    + destruct (t h); [discriminate|].
      destruct (find (fun e => keqb [h] [fst e]) (c_decl b)) eqn:F1; auto.
      unfold casm_declare. destruct (c_v2 b); simpl; auto.
Qed.

(* ---------- reads ---------- *)
Lemma casm_read_head : forall m n h, CInv m (n + 1) -> casm_read m h n = casm_head m h.
Proof.
  intros m n h [S B]. unfold casm_read, casm_head. destruct (get m [h]) eqn:G; auto.
  apply B in G. destruct G. destruct (n <? m_at m0) eqn:E; [lia|]. f_equal.
  destruct (m_v1 m0); auto. destruct (0 <? m_migr m0) eqn:E1; simpl; auto.
  destruct (m_migr m0 <=? n) eqn:E2; auto. lia.
Qed.

Lemma casm_read_stable : forall m n b h k, CInv m n -> CV m b -> k < n ->
  casm_read (casm_store n b m) h k = casm_read m h k.
Proof.
  intros m n b h k [S B] H Hk. unfold casm_read. rewrite get_casm_store by auto.
  destruct (find (fun e => keqb [h] [fst e]) (c_migr b)) eqn:F.
  - apply find_key_some in F. destruct F as [K Hin]. inversion K; subst.
    destruct (cv_migr _ _ H _ Hin) as [_ [md [v1 [G [Z [V1 V2]]]]]]. unfold getmd. rewrite G. simpl.
    destruct (k <? m_at md); auto. rewrite V1, Z. simpl.
    destruct (0 <? n) eqn:E; simpl; auto. destruct (n <=? k) eqn:E1; auto. lia.
  - destruct (find (fun e => keqb [h] [fst e]) (c_decl b)) eqn:F1; auto.
    apply find_key_some in F1. destruct F1 as [K Hin]. inversion K; subst.
    rewrite (cv_fresh _ _ H _ Hin).
    unfold casm_declare. destruct (c_v2 b); simpl; destruct (k <? n) eqn:E; auto; lia.
Qed.

(* ---------- chains and operation sequences ---------- *)
Fixpoint cbuild (rc : list cblk) : smap meta :=
  match rc with [] => [] | b :: older => casm_store (clen older) b (cbuild older) end.
Fixpoint cvalid_chain (rc : list cblk) : Prop :=
  match rc with [] => True | b :: older => cvalid_chain older /\ cvalid (cbuild older) b = true end.

Lemma clen_cons : forall (b : cblk) rc, clen (b :: rc) = clen rc + 1.
Proof. intros. unfold clen. simpl length. lia. Qed.

Lemma cbuild_ok : forall rc, cvalid_chain rc -> CInv (cbuild rc) (clen rc) /\ CAgree (cbuild rc) (ctruth rc).
Proof.
  induction rc; simpl; intros.
  - split; [constructor; simpl; auto; intros; discriminate | intro h; auto].
  - destruct H as [H1 H2]. destruct (IHrc H1) as [I Ag]. apply cvalid_CV in H2. split.
    + rewrite clen_cons. apply CInv_store; auto.
    + eapply CAgree_store; eauto.
Qed.

Lemma ctruth_at_old : forall (b : cblk) older k, k < clen older -> ctruth_at (b :: older) k = ctruth_at older k.
Proof.
  intros. unfold ctruth_at, clen in *. simpl length.
  replace (S (length older) - S (N.to_nat k))%nat with (S (length older - S (N.to_nat k)))%nat by lia.
  simpl. auto.
Qed.

Lemma ctruth_at_head : forall (b : cblk) older, ctruth_at (b :: older) (clen older) = ctruth (b :: older).
Proof.
  intros. unfold ctruth_at, clen. rewrite Nat2N.id.
  replace (length (b :: older) - S (length older))%nat with 0%nat by (simpl; lia). auto.
Qed.

Lemma creads : forall rc h k, cvalid_chain rc -> k < clen rc ->
  casm_read (cbuild rc) h k = ans_of (ctruth_at rc k h).
Proof.
  induction rc; intros.
  - unfold clen in H0. simpl in H0. lia.
  - pose proof H as Hv. simpl in H. destruct H as [H1 H2]. destruct (cbuild_ok rc H1) as [I Ag].
    rewrite clen_cons in H0. destruct (N.eq_dec k (clen rc)).
    + subst. rewrite ctruth_at_head. destruct (cbuild_ok (a :: rc) Hv) as [I' Ag'].
      rewrite casm_read_head; [apply Ag' | rewrite <- (clen_cons a rc); auto].
    + simpl cbuild. rewrite casm_read_stable; auto using cvalid_CV; [|lia].
      rewrite IHrc; auto; [|lia]. rewrite ctruth_at_old; auto. lia.
Qed.

Definition CRunInv (c : smap meta * list cblk) : Prop := fst c = cbuild (snd c) /\ cvalid_chain (snd c).

Lemma cstep_inv : forall c o, CRunInv c -> CRunInv (cstep c o).
Proof.
  intros [m rc] o [H1 H2]. simpl in *. subst. destruct o; simpl.
  - destruct (cvalid (cbuild rc) b) eqn:E; split; simpl; auto.
  - destruct rc as [|b older]; [split; auto|]. simpl in *. destruct H2 as [H2 H3].
    destruct (cbuild_ok older H2) as [I _]. rewrite casm_undo; [split; auto | apply I | apply cvalid_CV; auto].
Qed.

Lemma crun_inv : forall ops, CRunInv (crun ops).
Proof.
  unfold crun. intros. assert (G : forall ops c, CRunInv c -> CRunInv (fold_left cstep ops c)).
  { induction ops0; simpl; intros; auto. apply IHops0. apply cstep_inv. auto. }
  apply G. split; simpl; auto.
Qed.

Lemma c03_casm_lemma : forall ops m rc, crun ops = (m, rc) ->
  (forall h n, n < clen rc -> casm_read m h n = ans_of (ctruth_at rc n h)) /\
  (forall h, casm_head m h = ans_of (ctruth rc h)).
Proof.
  intros. pose proof (crun_inv ops) as [H1 H2]. rewrite H in *. simpl in *. subst. split; intros.
  - apply creads; auto.
  - destruct (cbuild_ok rc H2) as [_ Ag]. apply Ag.
Qed.
