(* C03 — invariants of the model states, fold lemmas, and what the shared head-bucket update does. *)
From Coq Require Import List NArith Bool Lia ZifyN ZifyNat ZifyBool.
From V Require Import C03.Model C03.Proofs_map.
Import ListNotations.
Open Scope N_scope.

(* ---------- folds in the shapes the model uses ---------- *)
Section Folds.
  Context {V A : Type}.
  Variable K : A -> key.

  Lemma get_fold_put : forall (W : A -> V) l (m : smap V) k,
    get (foldd (fun e m => put (K e) (W e) m) l m) k =
    match find (fun e => keqb k (K e)) l with Some e => Some (W e) | None => get m k end.
  Proof.
    induction l; simpl; intros; auto. rewrite get_put. destruct (keqb k (K a)); auto.
  Qed.

  Lemma sorted_fold_put : forall (W : A -> V) l (m : smap V), sorted m -> sorted (foldd (fun e m => put (K e) (W e) m) l m).
  Proof. induction l; simpl; intros; auto. apply sorted_put. auto. Qed.

  Lemma sorted_fold_del : forall l (m : smap V), sorted m -> sorted (foldd (fun e m => del (K e) m) l m).
  Proof. induction l; simpl; intros; auto. apply sorted_del. auto. Qed.

  Lemma get_fold_del : forall l (m : smap V) k, sorted m ->
    get (foldd (fun e m => del (K e) m) l m) k =
    match find (fun e => keqb k (K e)) l with Some _ => None | None => get m k end.
  Proof.
    induction l; simpl; intros; auto. rewrite get_del by (apply sorted_fold_del; auto).
    destruct (keqb k (K a)); auto.
  Qed.
End Folds.

Lemma sorted_put_nz : forall k v m, sorted m -> sorted (put_nz k v m).
Proof. unfold put_nz. intros. destruct (v =? 0); [apply sorted_del | apply sorted_put]; auto. Qed.

Lemma get_put_nz : forall k v m k', sorted m ->
  get (put_nz k v m) k' = if keqb k' k then (if v =? 0 then None else Some v) else get m k'.
Proof.
  unfold put_nz. intros. destruct (v =? 0).
  - apply get_del; auto.
  - apply get_put.
Qed.

Definition skey (e : (N * N) * N) : key := [fst (fst e); snd (fst e)].

Lemma sorted_upd_store : forall l m, sorted m -> sorted (upd_store l m).
Proof. unfold upd_store. induction l; simpl; intros; auto. apply sorted_put_nz. auto. Qed.

Lemma get_upd_store : forall l m k, sorted m ->
  get (upd_store l m) k =
  match find (fun e => keqb k (skey e)) l with
  | Some e => if snd e =? 0 then None else Some (snd e)
  | None => get m k
  end.
Proof.
  unfold upd_store. induction l; simpl; intros; auto.
  rewrite get_put_nz by (apply sorted_upd_store; auto). fold (skey a).
  destruct (keqb k (skey a)); auto.
Qed.

Lemma sorted_fold_del_prefix : forall {A V} (K : A -> N) l (m : smap V), sorted m ->
  sorted (foldd (fun e m => del_prefix [K e] m) l m).
Proof. induction l; simpl; intros; auto. apply sorted_del_prefix. auto. Qed.

Lemma get_fold_del_prefix : forall {A V} (K : A -> N) l (m : smap V) k,
  get (foldd (fun e m => del_prefix [K e] m) l m) k =
  if existsb (fun e => has_prefix [K e] k) l then None else get m k.
Proof.
  induction l; simpl; intros; auto. rewrite get_del_prefix.
  destruct (has_prefix [K a] k); simpl; auto.
Qed.

Lemma keqb1 : forall x y, keqb [x] [y] = (x =? y).
Proof.
  intros. unfold keqb. simpl. destruct (N.compare_spec x y); subst.
  - rewrite N.eqb_refl. auto.
  - destruct (x =? y) eqn:E; auto. lia.
  - destruct (x =? y) eqn:E; auto. lia.
Qed.

Lemma find_ext : forall {A} (p q : A -> bool) l, (forall x, p x = q x) -> find p l = find q l.
Proof. induction l; simpl; intros; auto. rewrite H. destruct (q a); auto. Qed.

Lemma find_map : forall {A B} (g : A -> B) p l, find p (map g l) = option_map g (find (fun x => p (g x)) l).
Proof. induction l; simpl; auto. destruct (p (g a)); auto. Qed.

Lemma find_none_iff : forall {A} (p : A -> bool) l, find p l = None <-> forall x, In x l -> p x = false.
Proof.
  split; intros.
  - eapply find_none; eauto.
  - induction l; simpl; auto. rewrite (H a) by (simpl; auto). apply IHl. intros. apply H. simpl. auto.
Qed.

(* membership of an address among the keys of a diff map *)
Definition inkeys {B} (l : list (N * B)) (a : N) : bool := existsb (fun e => fst e =? a) l.

Lemma find_k1 : forall {B} (l : list (N * B)) a,
  find (fun e => keqb [a] [fst e]) l = find (fun e => fst e =? a) l.
Proof. intros. apply find_ext. intros. rewrite keqb1. apply N.eqb_sym. Qed.

Lemma find_inkeys : forall {B} (l : list (N * B)) a,
  inkeys l a = match find (fun e => fst e =? a) l with Some _ => true | None => false end.
Proof. unfold inkeys. induction l; simpl; intros; auto. destruct (fst a =? a0); simpl; auto. Qed.

Lemma mem_map_fst : forall {B} (l : list (N * B)) a, mem (map fst l) a = inkeys l a.
Proof. unfold mem, inkeys. induction l; simpl; intros; auto. rewrite IHl. auto. Qed.

(* a key that matches an entry of a diff map has that entry's shape *)
Lemma find_key_some : forall {A} (K : A -> key) l k e, find (fun e => keqb k (K e)) l = Some e -> k = K e /\ In e l.
Proof. intros. apply find_some in H. destruct H. apply keqb_eq in H0. auto. Qed.

(* ---------- lists ---------- *)
Lemma find_app : forall {A} (p : A -> bool) l1 l2,
  find p (l1 ++ l2) = match find p l1 with Some x => Some x | None => find p l2 end.
Proof. induction l1; simpl; intros; auto. destruct (p a); auto. Qed.

Lemma foldd_app : forall {A M} (f : A -> M -> M) l1 l2 (m : M), foldd f (l1 ++ l2) m = foldd f l1 (foldd f l2 m).
Proof. intros. unfold foldd. apply fold_right_app. Qed.

Lemma foldd_map : forall {A B M} (g : A -> B) (f : B -> M -> M) l (m : M),
  foldd f (map g l) m = foldd (fun a m => f (g a) m) l m.
Proof. induction l; simpl; intros; auto. rewrite IHl. auto. Qed.

Lemma filter_nil : forall {A} (f : A -> bool) l, (forall x, In x l -> f x = false) -> filter f l = [].
Proof. induction l; simpl; intros; auto. rewrite H by auto. auto. Qed.

(* ---------- membership in a sorted map, non-empty storage ---------- *)
Lemma get_in : forall {V} (m : smap V) k v, get m k = Some v -> In (k, v) m.
Proof.
  induction m as [|[k0 v0] r]; simpl; intros; [discriminate|].
  destruct (keqb k k0) eqn:E.
  - apply keqb_eq in E. inversion H; subst. auto.
  - right. auto.
Qed.

Lemma in_get : forall {V} (m : smap V) k v, sorted m -> In (k, v) m -> get m k = Some v.
Proof.
  induction m as [|[k0 v0] r]; simpl; intros; [contradiction|].
  destruct H as [L S]. destruct H0.
  - inversion H; subst. rewrite keqb_refl. auto.
  - destruct (keqb k k0) eqn:E; auto.
    apply keqb_eq in E. subst. specialize (IHr k0 v S H).
    rewrite (lt_all_get _ _ L) in IHr. discriminate.
Qed.

Lemma has_store_iff : forall (m : smap N) a, sorted m ->
  (has_store m a = true <-> exists k v, get m k = Some v /\ has_prefix [a] k = true).
Proof.
  unfold has_store. intros. rewrite existsb_exists. split.
  - intros [[k v] [Hin Hp]]. exists k, v. split; auto. apply in_get; auto.
  - intros [k [v [G Hp]]]. exists (k, v). split; auto. apply get_in; auto.
Qed.

Lemma has_prefix_2 : forall a x sl, has_prefix [a] [x; sl] = (a =? x).
Proof. intros. unfold has_prefix. simpl. destruct (a =? x); auto. Qed.

Lemma is_sys_in : forall a, is_sys a = true <-> In a sys_addrs.
Proof.
  unfold is_sys, mem. intros. rewrite existsb_exists. split.
  - intros [y [Hin E]]. apply N.eqb_eq in E. subst. auto.
  - intros. exists a. split; auto. apply N.eqb_refl.
Qed.

(* ---------- head buckets after Update ---------- *)
Lemma get_upd_class : forall d m k,
  get (upd_class d m) k =
  match find (fun e => keqb k [fst e]) (d_replace d) with
  | Some e => Some (snd e)
  | None => match find (fun e => keqb k [fst e]) (d_deploy d) with Some e => Some (snd e) | None => get m k end
  end.
Proof. intros. unfold upd_class. rewrite !get_fold_put. auto. Qed.

Lemma get_upd_nonce : forall d m k,
  get (upd_nonce d m) k =
  match find (fun e => keqb k [fst e]) (d_nonce d) with
  | Some e => Some (snd e)
  | None => match find (fun e => keqb k [fst e]) (d_deploy d) with Some e => Some 0 | None => get m k end
  end.
Proof. intros. unfold upd_nonce. rewrite !get_fold_put. auto. Qed.

Lemma get_upd_dh : forall n d m k,
  get (upd_dh n d m) k =
  match find (fun e => keqb k [fst e]) (d_deploy d) with Some e => Some n | None => get m k end.
Proof. intros. unfold upd_dh. rewrite !get_fold_put. auto. Qed.

Lemma sorted_upd_decl : forall n d m, sorted m -> sorted (upd_decl n d m).
Proof.
  unfold upd_decl. intros n d. induction (d_reg d); simpl; intros; auto.
  destruct (get _ [a]); auto. apply sorted_put. auto.
Qed.

Lemma get_upd_decl : forall n d m k,
  get (upd_decl n d m) k =
  match get m k with
  | Some a => Some a
  | None => if existsb (fun h => keqb k [h]) (d_reg d) then Some n else None
  end.
Proof.
  unfold upd_decl. intros n d. induction (d_reg d); simpl; intros.
  - destruct (get m k); auto.
  - destruct (get (foldd _ l m) [a]) eqn:E.
    + rewrite IHl. destruct (get m k) eqn:E1; auto.
      destruct (keqb k [a]) eqn:E2; simpl; auto.
      apply keqb_eq in E2. subst. rewrite IHl in E. rewrite E1 in E.
      destruct (existsb _ l); auto. discriminate.
    + rewrite get_put. destruct (keqb k [a]) eqn:E2; simpl.
      * apply keqb_eq in E2. subst. rewrite IHl in E. destruct (get m [a]); auto. discriminate.
      * apply IHl.
Qed.

(* ---------- invariants ---------- *)
Definition below (m : smap N) (n : N) : Prop := forall p b v, get m (p ++ [b]) = Some v -> b < n.
Definition vals_below (m : smap N) (n : N) : Prop := forall k v, get m k = Some v -> v < n.

(* no history entry for an address that is not deployed *)
Definition nolog (ls ln lc : smap N) (a : N) : Prop :=
  (forall b, get ln [a; b] = None) /\ (forall b, get lc [a; b] = None) /\ (forall sl b, get ls [a; sl; b] = None).

Record Inv (s : st) : Prop := mkInv {
  i_s1 : sorted (s_class s); i_s2 : sorted (s_nonce s); i_s3 : sorted (s_dh s); i_s4 : sorted (s_store s);
  i_s5 : sorted (s_decl s); i_s6 : sorted (s_lstore s); i_s7 : sorted (s_lnonce s); i_s8 : sorted (s_lclass s);
  i_empty : s_next s = 0 -> s = st_empty;
  i_dom1 : forall a, get (s_class s) [a] = None -> get (s_nonce s) [a] = None /\ get (s_dh s) [a] = None;
  i_dom2 : forall a, get (s_class s) [a] <> None -> get (s_nonce s) [a] <> None /\ get (s_dh s) [a] <> None;
  i_store : forall k v, get (s_store s) k = Some v ->
            v <> 0 /\ exists a sl, k = [a; sl] /\ get (s_class s) [a] <> None;
  i_b1 : below (s_lstore s) (s_next s); i_b2 : below (s_lnonce s) (s_next s); i_b3 : below (s_lclass s) (s_next s);
  i_nolog : forall a, get (s_class s) [a] = None -> nolog (s_lstore s) (s_lnonce s) (s_lclass s) a;
  i_dh : vals_below (s_dh s) (s_next s);
  i_decl : vals_below (s_decl s) (s_next s);
  (* a system contract that exists has a non-empty storage *)
  i_sys : forall a, is_sys a = true -> get (s_class s) [a] <> None -> has_store (s_store s) a = true
}.

Lemma Inv_empty : Inv st_empty.
Proof.
  constructor; simpl; auto; try (intros; discriminate); try (unfold below, vals_below; simpl; intros; discriminate);
    try (intros; contradiction).
  intros. repeat split; auto.
Qed.

(* ---------- what valid_diffb gives ---------- *)
Record Valid (s : st) (d : diff) : Prop := mkValid {
  v_nodup_decl : NoDup (d_decl d);
  v_nodup_store : nodupk (map skey (d_store d)) = true;
  v_deploy : forall e, In e (d_deploy d) -> get (s_class s) [fst e] = None;
  v_replace : forall e, In e (d_replace d) -> get (s_class s) [fst e] <> None;
  v_nonce : forall e, In e (d_nonce d) -> get (s_class s) [fst e] <> None \/ inkeys (d_deploy d) (fst e) = true;
  v_store : forall e, In e (d_store d) -> get (s_class s) [fst (fst e)] <> None \/ inkeys (d_deploy d) (fst (fst e)) = true
}.

Lemma nodupk_NoDup1 : forall l, nodupk (map (fun h => [h]) l) = true -> NoDup l.
Proof.
  induction l; simpl; intros; [constructor|].
  apply andb_true_iff in H. destruct H. constructor; auto.
  intro Hin. apply negb_true_iff in H. rewrite <- not_true_iff_false in H. apply H.
  apply existsb_exists. exists [a]. split; [apply (in_map (fun h => [h])); auto | apply keqb_refl].
Qed.

(* the system-contract part: what [valid_diffb] says about them, and the guard *)
Record VS (s : st) (d : diff) : Prop := mkVS {
  vs_valid : Valid s (with_sys (s_class s) d);
  vs_dep : forall e, In e (d_deploy d) -> is_sys (fst e) = false;
  vs_rep : forall e, In e (d_replace d) -> is_sys (fst e) = false;
  vs_non : forall e, In e (d_nonce d) -> is_sys (fst e) = false;
  (* a class delivered with the block without being declared is the class of one of its deployed contracts *)
  vs_deliv : forall h, In h (d_deliv d) -> In h (map snd (d_deploy d));
  vs_guard : forall a, is_sys a = true -> touched d a = true ->
             has_store (upd_store (d_store d) (s_store s)) a = true
}.

Lemma present_iff : forall (m : smap N) a, present m a = true <-> get m [a] <> None.
Proof. unfold present. intros. destruct (get m [a]); split; intros; try discriminate; auto; try congruence. Qed.

Lemma present_false : forall (m : smap N) a, present m a = false <-> get m [a] = None.
Proof. unfold present. intros. destruct (get m [a]); split; intros; try discriminate; auto. Qed.

Lemma inkeys_app : forall {B} (l1 l2 : list (N * B)) a, inkeys (l1 ++ l2) a = inkeys l1 a || inkeys l2 a.
Proof. unfold inkeys. intros. apply existsb_app. Qed.

Lemma in_sys_missing : forall cls d a, In a (sys_missing cls d) <-> (is_sys a = true /\ touched d a = true /\ get cls [a] = None).
Proof.
  unfold sys_missing. intros. rewrite filter_In, andb_true_iff, negb_true_iff, present_false, is_sys_in. tauto.
Qed.

Lemma inkeys_sys_new : forall cls d a, inkeys (sys_new cls d) a = true <-> In a (sys_missing cls d).
Proof.
  unfold inkeys, sys_new. intros. rewrite existsb_exists. split.
  - intros [e [Hin E]]. apply in_map_iff in Hin. destruct Hin as [x [Hx Hin]]. subst. simpl in E.
    apply N.eqb_eq in E. subst. auto.
  - intros. exists (a, 0). split; [apply in_map_iff; eauto | simpl; apply N.eqb_refl].
Qed.

Lemma in_sys_new : forall cls d e, In e (sys_new cls d) -> snd e = 0 /\ In (fst e) (sys_missing cls d).
Proof. unfold sys_new. intros. apply in_map_iff in H. destruct H as [x [Hx Hin]]. subst. auto. Qed.

Lemma touched_in : forall d e, In e (d_store d) -> touched d (fst (fst e)) = true.
Proof. unfold touched. intros. apply existsb_exists. exists e. split; auto. apply N.eqb_refl. Qed.

Lemma mem_In : forall l x, mem l x = true -> In x l.
Proof.
  unfold mem. intros. apply existsb_exists in H. destruct H as [y [Hin E]]. apply N.eqb_eq in E. subst. auto.
Qed.

Lemma deliv_ok_incl : forall d, deliv_ok d = true -> forall h, In h (d_deliv d) -> In h (map snd (d_deploy d)).
Proof.
  unfold deliv_ok. intros d H h Hin. apply andb_true_iff in H. destruct H as [_ H].
  rewrite forallb_forall in H. apply H in Hin. apply andb_true_iff in Hin. destruct Hin as [Hin _].
  apply mem_In. auto.
Qed.

Lemma valid_diffb_VS : forall s d, valid_diffb s d = true -> sys_guard s d = true -> VS s d.
Proof.
  unfold valid_diffb. intros s d H G. apply andb_true_iff in H. destruct H as [H DL].
  repeat (apply andb_true_iff in H; destruct H as [H ?]).
  rewrite forallb_forall in H0, H1, H2, H3.
  assert (Dep : forall e, In e (d_deploy d) -> is_sys (fst e) = false /\ get (s_class s) [fst e] = None).
  { intros e Hin. apply H3 in Hin. apply andb_true_iff in Hin. destruct Hin as [A B].
    apply negb_true_iff in A. apply negb_true_iff in B. apply present_false in B. auto. }
  assert (Rep : forall e, In e (d_replace d) -> is_sys (fst e) = false /\ get (s_class s) [fst e] <> None).
  { intros e Hin. apply H2 in Hin. apply andb_true_iff in Hin. destruct Hin as [A B].
    apply negb_true_iff in A. apply present_iff in B. auto. }
  constructor.
  - constructor; cbn [with_sys d_deploy d_replace d_nonce d_store d_decl].
    + apply nodupk_NoDup1; auto.
    + auto.
    + intros e Hin. apply in_app_or in Hin. destruct Hin as [Hin | Hin].
      * apply in_sys_new in Hin. destruct Hin as [_ Hin]. apply in_sys_missing in Hin. tauto.
      * apply Dep; auto.
    + intros. apply Rep; auto.
    + intros e Hin. apply H1 in Hin. apply andb_true_iff in Hin. destruct Hin as [_ Hin].
      unfold is_deployed in Hin. destruct (get (s_class s) [fst e]); [left; discriminate | right].
      rewrite mem_map_fst in Hin. rewrite inkeys_app, Hin. apply orb_true_r.
    + intros e Hin. pose proof (H0 _ Hin) as Hv. apply orb_true_iff in Hv.
      destruct (get (s_class s) [fst (fst e)]) eqn:E; [left; discriminate | right].
      rewrite inkeys_app. destruct Hv as [Hs | Hd].
      * replace (inkeys (sys_new (s_class s) d) (fst (fst e))) with true; auto. symmetry.
        apply inkeys_sys_new. apply in_sys_missing. split; auto. split; auto. apply touched_in; auto.
      * unfold is_deployed in Hd. rewrite E in Hd. rewrite mem_map_fst in Hd. rewrite Hd. apply orb_true_r.
  - intros. apply Dep; auto.
  - intros. apply Rep; auto.
  - intros e Hin. apply H1 in Hin. apply andb_true_iff in Hin. destruct Hin as [A _]. apply negb_true_iff in A. auto.
  - apply deliv_ok_incl. auto.
  - intros a Ha Ht. unfold sys_guard in G. rewrite forallb_forall in G. apply is_sys_in in Ha.
    apply G in Ha. rewrite Ht in Ha. simpl in Ha. auto.
Qed.
