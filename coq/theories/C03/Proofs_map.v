(* C03 — lemmas about sorted maps, prefix iterators and the two valueAt loops. *)
From Coq Require Import List NArith Bool Lia ZifyN ZifyNat ZifyBool Sorted.
From V Require Import C03.Model.
Import ListNotations.
Open Scope N_scope.

(* ---------- key order ---------- *)
Lemma lcmp_refl : forall a, lcmp a a = Eq.
Proof. induction a; simpl; auto. rewrite N.compare_refl. auto. Qed.

Lemma lcmp_eq : forall a b, lcmp a b = Eq -> a = b.
Proof.
  induction a; destruct b; simpl; intros; try discriminate; auto.
  destruct (N.compare a n) eqn:E; try discriminate.
  apply N.compare_eq in E. subst. f_equal. auto.
Qed.

Lemma lcmp_antisym : forall a b, lcmp b a = CompOpp (lcmp a b).
Proof.
  induction a; destruct b; simpl; auto.
  rewrite (N.compare_antisym a n). destruct (N.compare a n); simpl; auto.
Qed.

Lemma lcmp_trans : forall a b c, lcmp a b = Lt -> lcmp b c = Lt -> lcmp a c = Lt.
Proof.
  induction a; destruct b; destruct c; simpl; intros; try discriminate; auto.
  destruct (N.compare a n) eqn:E1; destruct (N.compare n n0) eqn:E2; try discriminate.
  - apply N.compare_eq in E1. apply N.compare_eq in E2. subst. rewrite N.compare_refl. eauto.
  - apply N.compare_eq in E1. subst. rewrite E2. auto.
  - apply N.compare_eq in E2. subst. rewrite E1. auto.
  - assert (N.compare a n0 = Lt). { rewrite N.compare_lt_iff in *. lia. } rewrite H1. auto.
Qed.

Lemma keqb_eq : forall a b, keqb a b = true <-> a = b.
Proof.
  unfold keqb. intros. split; intros.
  - destruct (lcmp a b) eqn:E; try discriminate. apply lcmp_eq; auto.
  - subst. rewrite lcmp_refl. auto.
Qed.

Lemma keqb_refl : forall a, keqb a a = true.
Proof. intros. apply keqb_eq. auto. Qed.

Lemma keqb_neq : forall a b, a <> b -> keqb a b = false.
Proof. intros. destruct (keqb a b) eqn:E; auto. apply keqb_eq in E. contradiction. Qed.

Lemma keqb_sym : forall a b, keqb a b = keqb b a.
Proof.
  intros. destruct (keqb a b) eqn:E.
  - apply keqb_eq in E. subst. rewrite keqb_refl. auto.
  - destruct (keqb b a) eqn:E2; auto. apply keqb_eq in E2. subst. rewrite keqb_refl in E. discriminate.
Qed.

Lemma lcmp_lt_neq : forall a b, lcmp a b = Lt -> keqb a b = false.
Proof. unfold keqb. intros. rewrite H. auto. Qed.

Lemma lcmp_gt_lt : forall a b, lcmp a b = Gt -> lcmp b a = Lt.
Proof. intros. rewrite lcmp_antisym. rewrite H. auto. Qed.

Lemma lcmp_app : forall p a b, lcmp (p ++ a) (p ++ b) = lcmp a b.
Proof. induction p; simpl; intros; auto. rewrite N.compare_refl. auto. Qed.

(* ---------- sorted maps ---------- *)
Section MapLemmas.
  Context {V : Type}.
  Implicit Types m : smap V.

  Definition lt_all (k : key) m : Prop := Forall (fun e => lcmp k (fst e) = Lt) m.
  Fixpoint sorted m : Prop :=
    match m with
    | [] => True
    | (k, _) :: r => lt_all k r /\ sorted r
    end.

  Lemma lt_all_get : forall m k, lt_all k m -> get m k = None.
  Proof.
    induction m as [|[k' v] r]; simpl; intros; auto.
    inversion H; subst. simpl in *. rewrite (lcmp_lt_neq _ _ H2). auto.
  Qed.

  Lemma lt_all_trans : forall m k k', lcmp k k' = Lt -> lt_all k' m -> lt_all k m.
  Proof.
    unfold lt_all. intros. eapply Forall_impl; [|eauto]. simpl. intros. eapply lcmp_trans; eauto.
  Qed.

  Lemma get_put : forall m k v k', get (put k v m) k' = if keqb k' k then Some v else get m k'.
  Proof.
    induction m as [|[k0 v0] r]; simpl; intros; auto.
    destruct (lcmp k k0) eqn:E; simpl.
    - apply lcmp_eq in E. subst. destruct (keqb k' k0); auto.
    - auto.
    - rewrite IHr. destruct (keqb k' k0) eqn:E1; destruct (keqb k' k) eqn:E2; auto.
      apply keqb_eq in E1. apply keqb_eq in E2. subst. rewrite lcmp_refl in E. discriminate.
  Qed.

  Lemma get_del : forall m k k', sorted m -> get (del k m) k' = if keqb k' k then None else get m k'.
  Proof.
    induction m as [|[k0 v0] r]; simpl; intros.
    - destruct (keqb k' k); auto.
    - destruct H as [H1 H2]. destruct (lcmp k k0) eqn:E; simpl.
      + apply lcmp_eq in E. subst. destruct (keqb k' k0) eqn:E1; auto.
        apply keqb_eq in E1. subst. apply lt_all_get; auto.
      + destruct (keqb k' k) eqn:E1; auto. apply keqb_eq in E1. subst.
        rewrite (lcmp_lt_neq _ _ E). apply lt_all_get. eapply lt_all_trans; eauto.
      + rewrite IHr; auto. destruct (keqb k' k) eqn:E1; auto.
        apply keqb_eq in E1. subst. unfold keqb. rewrite E. auto.
  Qed.

  Lemma lt_all_put : forall m k0 k v, lcmp k0 k = Lt -> lt_all k0 m -> lt_all k0 (put k v m).
  Proof.
    induction m as [|[k1 v1] r]; simpl; intros.
    - constructor; auto.
    - inversion H0; subst. simpl in *. destruct (lcmp k k1).
      + constructor; simpl; auto.
      + constructor; simpl; auto.
      + constructor; simpl; auto. apply IHr; auto.
  Qed.

  Lemma lt_all_del : forall m k0 k, lt_all k0 m -> lt_all k0 (del k m).
  Proof.
    induction m as [|[k1 v1] r]; simpl; intros; auto.
    inversion H; subst. simpl in *. destruct (lcmp k k1); auto.
    constructor; simpl; auto. apply IHr; auto.
  Qed.

  Lemma sorted_put : forall m k v, sorted m -> sorted (put k v m).
  Proof.
    induction m as [|[k0 v0] r]; simpl; intros.
    - split; auto. constructor.
    - destruct H as [H1 H2]. destruct (lcmp k k0) eqn:E; simpl.
      + apply lcmp_eq in E. subst. auto.
      + split; [|auto]. constructor; auto. eapply lt_all_trans; eauto.
      + split; auto. apply lt_all_put; auto. apply lcmp_gt_lt; auto.
  Qed.

  Lemma sorted_del : forall m k, sorted m -> sorted (del k m).
  Proof.
    induction m as [|[k0 v0] r]; simpl; intros; auto.
    destruct H as [H1 H2]. destruct (lcmp k k0) eqn:E; simpl; auto.
    split; auto. apply lt_all_del; auto.
  Qed.

  Lemma sorted_ext : forall m m', sorted m -> sorted m' -> (forall k, get m k = get m' k) -> m = m'.
  Proof.
    induction m as [|[k v] r]; destruct m' as [|[k' v'] r']; simpl; intros; auto.
    - specialize (H1 k'). rewrite keqb_refl in H1. discriminate.
    - specialize (H1 k). rewrite keqb_refl in H1. discriminate.
    - destruct H as [A1 A2]. destruct H0 as [B1 B2].
      destruct (lcmp k k') eqn:E.
      + apply lcmp_eq in E. subst. pose proof (H1 k') as H. rewrite keqb_refl in H. inversion H; subst.
        f_equal. apply IHr; auto. intros k0. specialize (H1 k0).
        destruct (keqb k0 k') eqn:E; auto. apply keqb_eq in E. subst.
        rewrite (lt_all_get _ _ A1), (lt_all_get _ _ B1). auto.
      + pose proof (H1 k) as H. rewrite keqb_refl in H. rewrite (lcmp_lt_neq _ _ E) in H.
        rewrite lt_all_get in H; [discriminate|]. eapply lt_all_trans; eauto.
      + apply lcmp_gt_lt in E. pose proof (H1 k') as H. rewrite keqb_refl in H. rewrite (lcmp_lt_neq _ _ E) in H.
        rewrite lt_all_get in H; [discriminate|]. eapply lt_all_trans; eauto.
  Qed.

  (* ----- folds of puts / deletes over a diff map ----- *)
  Definition act (kv : key * option V) m : smap V :=
    match snd kv with Some v => put (fst kv) v m | None => del (fst kv) m end.

  Lemma sorted_act : forall kv m, sorted m -> sorted (act kv m).
  Proof. unfold act. intros. destruct (snd kv); [apply sorted_put | apply sorted_del]; auto. Qed.

  Lemma get_act : forall kv m k, sorted m -> get (act kv m) k = if keqb k (fst kv) then snd kv else get m k.
  Proof.
    unfold act. intros. destruct (snd kv).
    - apply get_put.
    - apply get_del; auto.
  Qed.

  Lemma sorted_fold_act : forall {A} (f : A -> key * option V) l m,
    sorted m -> sorted (foldd (fun e m => act (f e) m) l m).
  Proof. induction l; simpl; intros; auto. apply sorted_act. auto. Qed.

  Lemma get_fold_act : forall {A} (f : A -> key * option V) l m k, sorted m ->
    get (foldd (fun e m => act (f e) m) l m) k =
    match find (fun e => keqb k (fst (f e))) l with Some e => snd (f e) | None => get m k end.
  Proof.
    induction l; simpl; intros; auto.
    rewrite get_act by (apply sorted_fold_act; auto).
    destruct (keqb k (fst (f a))); auto.
  Qed.

  Lemma foldd_ext : forall {A M} (f g : A -> M -> M) l (x : M), (forall e (y : M), In e l -> f e y = g e y) -> foldd f l x = foldd g l x.
  Proof.
    induction l; simpl; intros; auto. rewrite IHl by auto. apply H. auto.
  Qed.

  Lemma foldd_skip : forall {A M} (c : A -> bool) (f : A -> M -> M) l (x : M),
    foldd (fun e (y : M) => if c e then y else f e y) l x = foldd f (filter (fun e => negb (c e)) l) x.
  Proof.
    induction l; simpl; intros; auto. destruct (c a); simpl; rewrite IHl; auto.
  Qed.

  (* ----- range delete ----- *)
  Lemma get_del_prefix : forall m p k, get (del_prefix p m) k = if has_prefix p k then None else get m k.
  Proof.
    unfold del_prefix. induction m as [|[k0 v0] r]; simpl; intros.
    - destruct (has_prefix p k); auto.
    - destruct (has_prefix p k0) eqn:E; simpl.
      + rewrite IHr. destruct (keqb k k0) eqn:E1; auto. apply keqb_eq in E1. subst. rewrite E. auto.
      + rewrite IHr. destruct (keqb k k0) eqn:E1; auto. apply keqb_eq in E1. subst. rewrite E. auto.
  Qed.

  Lemma sorted_del_prefix : forall m p, sorted m -> sorted (del_prefix p m).
  Proof.
    unfold del_prefix. induction m as [|[k0 v0] r]; simpl; intros; auto.
    destruct H. destruct (has_prefix p k0); simpl; auto. split; auto.
    unfold lt_all in *. rewrite Forall_forall in *. intros. apply filter_In in H1. destruct H1. auto.
  Qed.

  (* ----- prefix iterators ----- *)
  Lemma strip_app : forall p r, strip p (p ++ r) = Some r.
  Proof. induction p; simpl; intros; auto. rewrite N.eqb_refl. auto. Qed.

  Lemma strip_some : forall p k r, strip p k = Some r -> k = p ++ r.
  Proof.
    induction p; simpl; intros.
    - inversion H; auto.
    - destruct k; try discriminate. destruct (a =? n) eqn:E; try discriminate.
      apply N.eqb_eq in E. subst. f_equal. auto.
  Qed.

  Definition bsorted (l : list (N * V)) : Prop := StronglySorted (fun x y => fst x < fst y) l.
  Definition lget (l : list (N * V)) (b : N) : option V :=
    match find (fun e => fst e =? b) l with Some e => Some (snd e) | None => None end.

  Lemma sub_lower : forall m p b, lt_all (p ++ [b]) m -> Forall (fun e => b < fst e) (sub m p).
  Proof.
    induction m as [|[k v] r]; simpl; intros; auto.
    inversion H; subst. simpl in *.
    destruct (strip p k) as [[|b' [|? ?]]|] eqn:E; auto.
    constructor; auto. simpl. apply strip_some in E. subst. rewrite lcmp_app in H2. simpl in H2.
    destruct (N.compare b b') eqn:E2; try discriminate. apply N.compare_lt_iff in E2. auto.
  Qed.

  Lemma bsorted_sub : forall m p, sorted m -> bsorted (sub m p).
  Proof.
    induction m as [|[k v] r]; simpl; intros.
    - constructor.
    - destruct H. destruct (strip p k) as [[|b [|? ?]]|] eqn:E; auto.
      constructor; [apply IHr; auto|]. apply strip_some in E. subst.
      pose proof (sub_lower _ _ _ H). eapply Forall_impl; [|eauto]. simpl. auto.
  Qed.

  Lemma lget_sub : forall m p b, sorted m -> lget (sub m p) b = get m (p ++ [b]).
  Proof.
    unfold lget. induction m as [|[k v] r]; simpl; intros; auto.
    destruct H. destruct (strip p k) as [[|b' [|? ?]]|] eqn:E; simpl.
    - rewrite IHr by auto. apply strip_some in E. subst. rewrite keqb_neq; auto.
      intro. apply app_inv_head in H1. discriminate.
    - apply strip_some in E. subst. destruct (b' =? b) eqn:E1.
      + apply N.eqb_eq in E1. subst. rewrite keqb_refl. auto.
      + rewrite IHr by auto. rewrite keqb_neq; auto. intro. apply app_inv_head in H1. inversion H1. subst.
        rewrite N.eqb_refl in E1. discriminate.
    - rewrite IHr by auto. apply strip_some in E. subst. rewrite keqb_neq; auto.
      intro. apply app_inv_head in H1. discriminate.
    - rewrite IHr by auto. rewrite keqb_neq; auto. intro. subst. rewrite strip_app in E. discriminate.
  Qed.

  (* ----- reference semantics of the two loops ----- *)
  (* newest entry at or below k *)
  Fixpoint scan_dn (g : N -> option V) (k : nat) : option V :=
    match g (N.of_nat k) with
    | Some v => Some v
    | None => match k with O => None | S k' => scan_dn g k' end
    end.
  (* first entry among b, b+1, ..., b+k-1 *)
  Fixpoint scan_up (g : N -> option V) (b : N) (k : nat) : option V :=
    match k with
    | O => None
    | S k' => match g b with Some v => Some v | None => scan_up g (b + 1) k' end
    end.

  Lemma scan_dn_S : forall g k, scan_dn g (S k) =
    match g (N.of_nat k + 1) with Some v => Some v | None => scan_dn g k end.
  Proof. intros. simpl scan_dn. replace (N.pos (Pos.of_succ_nat k)) with (N.of_nat k + 1) by lia. auto. Qed.

  Lemma scan_dn_ext : forall g g' k, (forall b, b <= N.of_nat k -> g b = g' b) -> scan_dn g k = scan_dn g' k.
  Proof.
    induction k; intros.
    - simpl. rewrite H by lia. auto.
    - rewrite !scan_dn_S. rewrite H by lia. destruct (g' _); auto. apply IHk. intros. apply H. lia.
  Qed.

  Lemma scan_up_ext : forall g g' k b, (forall x, b <= x -> x < b + N.of_nat k -> g x = g' x) -> scan_up g b k = scan_up g' b k.
  Proof.
    induction k; simpl; intros; auto.
    rewrite H by lia. destruct (g' b); auto. apply IHk. intros. apply H; lia.
  Qed.

  Lemma scan_up_none : forall g k b, (forall x, b <= x -> x < b + N.of_nat k -> g x = None) -> scan_up g b k = None.
  Proof.
    induction k; simpl; intros; auto. rewrite H by lia. apply IHk. intros. apply H; lia.
  Qed.

  (* appending a newest entry *)
  Lemma seek_app : forall (l : list (N * V)) e n bf,
    seek (l ++ [e]) n bf =
    match seek l n bf with
    | (bf', []) => if n <=? fst e then (bf', [e]) else (e :: bf', [])
    | (bf', af) => (bf', af ++ [e])
    end.
  Proof.
    induction l; simpl; intros.
    - destruct (n <=? fst e); auto.
    - destruct (n <=? fst a); auto.
  Qed.

  Lemma seek_all_lt : forall (l : list (N * V)) n bf, Forall (fun e => fst e < n) l -> seek l n bf = (rev l ++ bf, []).
  Proof.
    induction l; simpl; intros; auto.
    inversion H; subst. destruct (n <=? fst a) eqn:E; [lia|].
    rewrite IHl by auto. rewrite <- app_assoc. auto.
  Qed.

  Lemma valueAt_new_snoc : forall (l : list (N * V)) b v n, Forall (fun e => fst e < b) l ->
    valueAt_new (l ++ [(b, v)]) n = if b <=? n then Some v else valueAt_new l n.
  Proof.
    intros. unfold valueAt_new. rewrite seek_app. simpl.
    destruct (b <=? n) eqn:E.
    - rewrite seek_all_lt; [|eapply Forall_impl; [|eauto]; simpl; intros; lia].
      destruct (n <=? b) eqn:E1; simpl.
      + assert (b = n) by lia. subst. rewrite N.eqb_refl. auto.
      + auto.
    - destruct (seek l n []) as [bf' af] eqn:E1. destruct af.
      + destruct (n <=? b) eqn:E2; [|lia]. simpl. destruct (b =? n) eqn:E3; [lia|]. auto.
      + simpl. auto.
  Qed.

  Lemma lget_snoc : forall (l : list (N * V)) b v x, Forall (fun e => fst e < b) l ->
    lget (l ++ [(b, v)]) x = if x =? b then Some v else lget l x.
  Proof.
    unfold lget. induction l; simpl; intros.
    - rewrite N.eqb_sym. destruct (x =? b); auto.
    - inversion H; subst. destruct (fst a =? x) eqn:E.
      + destruct (x =? b) eqn:E2; auto. lia.
      + apply IHl; auto.
  Qed.

  Lemma lget_above : forall (l : list (N * V)) b x, Forall (fun e => fst e < b) l -> b <= x -> lget l x = None.
  Proof.
    unfold lget. induction l; simpl; intros; auto.
    inversion H; subst. destruct (fst a =? x) eqn:E; [lia|]. eauto.
  Qed.

  Lemma scan_dn_snoc : forall (l : list (N * V)) b v k, Forall (fun e => fst e < b) l ->
    scan_dn (lget (l ++ [(b, v)])) k = if b <=? N.of_nat k then Some v else scan_dn (lget l) k.
  Proof.
    induction k; intros.
    - simpl. rewrite lget_snoc by auto. destruct (0 =? b) eqn:E.
      + destruct (b <=? 0) eqn:E1; auto. lia.
      + destruct (b <=? 0) eqn:E1; auto. lia.
    - rewrite !scan_dn_S. rewrite lget_snoc by auto.
      replace (N.of_nat (S k)) with (N.of_nat k + 1) by lia.
      destruct (N.of_nat k + 1 =? b) eqn:E.
      + destruct (b <=? N.of_nat k + 1) eqn:E1; auto. lia.
      + rewrite IHk by auto. destruct (b <=? N.of_nat k + 1) eqn:E1.
        * rewrite (lget_above l b) by (auto; lia). destruct (b <=? N.of_nat k) eqn:E2; auto. lia.
        * destruct (b <=? N.of_nat k) eqn:E2; auto. lia.
  Qed.

  Lemma bsorted_snoc_inv : forall (l : list (N * V)) e, bsorted (l ++ [e]) -> bsorted l /\ Forall (fun x => fst x < fst e) l.
  Proof.
    induction l; simpl; intros.
    - split; constructor.
    - inversion H; subst. apply IHl in H2. destruct H2. split.
      + constructor; auto. rewrite Forall_forall in *. intros. apply H3. apply in_or_app. auto.
      + constructor; auto. rewrite Forall_forall in H3. apply H3. apply in_or_app. right. simpl. auto.
  Qed.

  Lemma valueAt_new_scan : forall (l : list (N * V)) n, bsorted l -> valueAt_new l n = scan_dn (lget l) (N.to_nat n).
  Proof.
    intros l. induction l using rev_ind; intros.
    - unfold valueAt_new. simpl. generalize (N.to_nat n). induction n0; simpl; auto.
    - destruct x as [b v]. apply bsorted_snoc_inv in H. destruct H. simpl in H0.
      rewrite valueAt_new_snoc by auto. rewrite scan_dn_snoc by auto.
      rewrite N2Nat.id. rewrite IHl by auto. auto.
  Qed.

  (* legacy loop: peeling the oldest entry *)
  Lemma seek_snd : forall (l : list (N * V)) n bf bf', snd (seek l n bf) = snd (seek l n bf').
  Proof. induction l; simpl; intros; auto. destruct (n <=? fst a); auto. Qed.

  Lemma seek_all_ge : forall (l : list (N * V)) n bf, Forall (fun e => n <= fst e) l -> snd (seek l n bf) = l.
  Proof.
    destruct l; simpl; intros; auto. inversion H; subst. destruct (n <=? fst p) eqn:E; auto. lia.
  Qed.

  Lemma valueAt_old_cons : forall (l : list (N * V)) b v n, Forall (fun e => b < fst e) l ->
    valueAt_old ((b, v) :: l) n = if n <? b then Some v else valueAt_old l n.
  Proof.
    intros. unfold valueAt_old. simpl. destruct (n <=? b) eqn:E; simpl.
    - destruct (b <? n) eqn:E1; [lia|]. destruct (b =? n) eqn:E2.
      + assert (b = n) by lia. subst. rewrite N.ltb_irrefl.
        rewrite seek_all_ge; auto. eapply Forall_impl; [|eauto]. simpl. intros. lia.
      + destruct (n <? b) eqn:E3; auto. lia.
    - destruct (n <? b) eqn:E3; [lia|]. rewrite (seek_snd l n _ []). auto.
  Qed.

  Lemma lget_cons : forall (l : list (N * V)) b v x, lget ((b, v) :: l) x = if b =? x then Some v else lget l x.
  Proof. unfold lget. simpl. intros. destruct (b =? x); auto. Qed.

  Lemma lget_below : forall (l : list (N * V)) b x, Forall (fun e => b < fst e) l -> x <= b -> lget l x = None.
  Proof.
    unfold lget. induction l; simpl; intros; auto.
    inversion H; subst. destruct (fst a =? x) eqn:E; [lia|]. eauto.
  Qed.

  Lemma scan_up_cons : forall (l : list (N * V)) b v k x, Forall (fun e => b < fst e) l ->
    scan_up (lget ((b, v) :: l)) x k =
    if (x <=? b) && (b <? x + N.of_nat k) then Some v else scan_up (lget l) x k.
  Proof.
    induction k; intros.
    - simpl. destruct ((x <=? b) && (b <? x + 0)) eqn:E; auto. lia.
    - simpl scan_up. rewrite lget_cons. destruct (b =? x) eqn:E.
      + destruct ((x <=? b) && (b <? x + N.of_nat (S k))) eqn:E1; auto. lia.
      + rewrite IHk by auto.
        destruct ((x + 1 <=? b) && (b <? x + 1 + N.of_nat k)) eqn:E1.
        * destruct ((x <=? b) && (b <? x + N.of_nat (S k))) eqn:E2; [|lia].
          rewrite (lget_below l b) by (auto; lia). auto.
        * destruct ((x <=? b) && (b <? x + N.of_nat (S k))) eqn:E2; [lia|]. auto.
  Qed.

  Lemma valueAt_old_scan : forall (l : list (N * V)) n B, bsorted l -> Forall (fun e => fst e < B) l ->
    valueAt_old l n = scan_up (lget l) (n + 1) (N.to_nat (B - (n + 1))).
  Proof.
    induction l; intros.
    - unfold valueAt_old. simpl. rewrite scan_up_none; auto.
    - destruct a as [b v]. inversion H; subst. inversion H0; subst. simpl in *.
      rewrite valueAt_old_cons by auto. rewrite scan_up_cons by auto. rewrite N2Nat.id.
      destruct (n <? b) eqn:E.
      + destruct ((n + 1 <=? b) && (b <? n + 1 + (B - (n + 1)))) eqn:E1; auto. lia.
      + destruct ((n + 1 <=? b) && (b <? n + 1 + (B - (n + 1)))) eqn:E1; [lia|]. apply IHl; auto.
  Qed.
End MapLemmas.

(* the two loops over a sorted bucket, in terms of point lookups *)
Lemma new_scan : forall {V} (m : smap V) p n, sorted m ->
  valueAt_new (sub m p) n = scan_dn (fun b => get m (p ++ [b])) (N.to_nat n).
Proof.
  intros. rewrite valueAt_new_scan by (apply bsorted_sub; auto).
  apply scan_dn_ext. intros. apply lget_sub; auto.
Qed.

Definition log_below {V} (m : smap V) (p : key) (B : N) : Prop := forall b v, get m (p ++ [b]) = Some v -> b < B.

Lemma old_scan : forall {V} (m : smap V) p n B, sorted m -> log_below m p B ->
  valueAt_old (sub m p) n = scan_up (fun b => get m (p ++ [b])) (n + 1) (N.to_nat (B - (n + 1))).
Proof.
  intros. rewrite (valueAt_old_scan _ n B).
  - apply scan_up_ext. intros. apply lget_sub; auto.
  - apply bsorted_sub; auto.
  - rewrite Forall_forall. intros [b v] Hin. simpl.
    apply (H0 b v). rewrite <- lget_sub by auto.
    pose proof (bsorted_sub m p H) as Hs. clear - Hin Hs.
    unfold lget. induction (sub m p); simpl in *; [contradiction|].
    inversion Hs; subst. destruct Hin.
    + subst. simpl. rewrite N.eqb_refl. auto.
    + destruct (fst a =? b) eqn:E.
      * rewrite Forall_forall in H2. apply H2 in H. simpl in H. lia.
      * auto.
Qed.
