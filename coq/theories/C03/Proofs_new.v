(* C03 — the new backend: history agreement, Revert undoes Update, reads. *)
From Coq Require Import List NArith Bool Lia ZifyN ZifyNat ZifyBool.
From V Require Import C03.Model C03.Proofs_map C03.Proofs_inv C03.Proofs_store.
Import ListNotations.
Open Scope N_scope.

Lemma below_none : forall m n p b, below m n -> n <= b -> get m (p ++ [b]) = None.
Proof. intros. destruct (get m (p ++ [b])) eqn:E; auto. apply H in E. lia. Qed.

(* ---------- values at n-1 read through the new history ---------- *)
Lemma scan_dn_hit : forall {V} (g : N -> option V) k v, g (N.of_nat k) = Some v -> scan_dn g k = Some v.
Proof. destruct k; simpl; intros; rewrite H; auto. Qed.

Lemma hist_new_scan : forall m p n, sorted m ->
  hist_new m p n = match scan_dn (fun b => get m (p ++ [b])) (N.to_nat n) with Some v => v | None => 0 end.
Proof. intros. unfold hist_new. rewrite new_scan by auto. auto. Qed.

Lemma hist_hit : forall m p n v, sorted m -> get m (p ++ [n]) = Some v -> rev_val_new m p (n + 1) = v.
Proof.
  intros. unfold rev_val_new. destruct (n + 1 =? 0) eqn:E; [lia|].
  replace (n + 1 - 1) with n by lia. rewrite hist_new_scan by auto.
  rewrite (scan_dn_hit _ _ v); auto. rewrite N2Nat.id. auto.
Qed.

Lemma hist_stable : forall m m' p n, sorted m -> sorted m' ->
  (forall b, b <= n -> get m' (p ++ [b]) = get m (p ++ [b])) -> hist_new m' p n = hist_new m p n.
Proof.
  intros. rewrite !hist_new_scan by auto. erewrite scan_dn_ext; eauto.
  intros. simpl. apply H1. lia.
Qed.

Lemma hist_miss : forall m m' p n, sorted m -> sorted m' -> get m' (p ++ [n]) = None ->
  (forall b, b < n -> get m' (p ++ [b]) = get m (p ++ [b])) -> rev_val_new m' p (n + 1) = rev_val_new m p n.
Proof.
  intros. unfold rev_val_new. destruct (n + 1 =? 0) eqn:E; [lia|].
  replace (n + 1 - 1) with n by lia. rewrite hist_new_scan by auto.
  destruct (n =? 0) eqn:E0.
  - apply N.eqb_eq in E0. subst. simpl. rewrite H1. auto.
  - rewrite hist_new_scan by auto.
    replace (N.to_nat n) with (S (N.to_nat (n - 1))) by lia. rewrite scan_dn_S.
    replace (N.of_nat (N.to_nat (n - 1)) + 1) with n by lia. rewrite H1.
    erewrite scan_dn_ext; eauto. intros. simpl. apply H2. lia.
Qed.

Record Hist_new (s : st) : Prop := mkHist {
  h_class : forall a c, get (s_class s) [a] = Some c -> rev_val_new (s_lclass s) [a] (s_next s) = c;
  h_nonce : forall a v, get (s_nonce s) [a] = Some v -> rev_val_new (s_lnonce s) [a] (s_next s) = v;
  h_store : forall a sl, rev_val_new (s_lstore s) [a; sl] (s_next s) = getd (s_store s) [a; sl]
}.

Lemma Hist_empty : Hist_new st_empty.
Proof. constructor; simpl; intros; try discriminate. auto. Qed.

Lemma scan_dn_none : forall {V} (g : N -> option V) k, (forall b, g b = None) -> scan_dn g k = None.
Proof. induction k; simpl; intros; rewrite H; auto. Qed.

Lemma hist_nolog : forall m p n, sorted m -> (forall b, get m (p ++ [b]) = None) -> rev_val_new m p n = 0.
Proof.
  intros. unfold rev_val_new. destruct (n =? 0); auto. rewrite hist_new_scan by auto.
  rewrite scan_dn_none; auto.
Qed.

Lemma sys_new_entry : forall s d p, Inv s -> VS s d -> In p (sys_new (s_class s) d) ->
  snd p = 0 /\ is_sys (fst p) = true /\ touched d (fst p) = true /\ get (s_class s) [fst p] = None /\
  find (fun e => keqb [fst p] [fst e]) (d_deploy d) = None.
Proof.
  intros s d p I V Hin. apply in_sys_new in Hin. destruct Hin as [Z Hin]. apply in_sys_missing in Hin.
  destruct Hin as [Hs [Ht Hc]]. repeat split; auto.
  destruct (find (fun e => keqb [fst p] [fst e]) (d_deploy d)) eqn:F; auto.
  apply find_key_some in F. destruct F as [K Hd]. inversion K. rewrite H0 in Hs.
  rewrite (vs_dep _ _ V _ Hd) in Hs. discriminate.
Qed.

Lemma Hist_store_new : forall s d, Inv s -> VS s d -> Hist_new s -> Hist_new (store_new s d).
Proof.
  intros s d I V Hs. pose proof (Inv_store_new s d I V) as I'. rewrite store_new_eq in * by auto. cbv zeta in *.
  pose proof (vs_valid _ _ V) as Vd.
  constructor; cbn [s_class s_nonce s_store s_lclass s_lnonce s_lstore s_next].
  - intros a c Hc. rewrite get_upd_class in Hc. cbn [with_sys d_deploy d_replace] in Hc.
    set (m' := lclass_new s d).
    assert (Sm' : sorted m') by (apply (i_s8 _ I')).
    assert (G : get m' ([a] ++ [s_next s]) =
      match find (fun e => keqb [a] [fst e]) (d_deploy d) with Some e => Some (snd e) | None =>
      match find (fun e => keqb [a] [fst e]) (d_replace d) with Some e => Some (snd e) | None => None end end).
    { unfold m', lclass_new. simpl. rewrite !get_lput1. rewrite N.eqb_refl.
      destruct (find _ (d_deploy d)); auto. destruct (find _ (d_replace d)); auto.
      apply (below_none _ _ [a] _ (i_b3 _ I)). lia. }
    assert (ST : forall b, b < s_next s -> get m' ([a] ++ [b]) = get (s_lclass s) ([a] ++ [b])).
    { intros. unfold m', lclass_new. simpl. rewrite !get_lput1. destruct (b =? s_next s) eqn:E; auto. lia. }
    destruct (find (fun e => keqb [a] [fst e]) (d_replace d)) eqn:F1.
    + destruct (find (fun e => keqb [a] [fst e]) (sys_new (s_class s) d ++ d_deploy d)) eqn:F2.
      * exfalso. apply find_key_some in F1. apply find_key_some in F2. destruct F1 as [K1 H1]. destruct F2 as [K2 H2].
        inversion K1. inversion K2. apply (v_replace _ _ Vd _ H1). rewrite <- H0. rewrite H3. apply (v_deploy _ _ Vd). auto.
      * inversion Hc; subst. apply hist_hit; auto. rewrite G.
        apply find_app_none in F2. destruct F2 as [_ F2]. rewrite F2. auto.
    + rewrite find_app in Hc.
      destruct (find (fun e => keqb [a] [fst e]) (sys_new (s_class s) d)) eqn:F2a.
      * (* a system contract created by this block: class hash 0, no history entry *)
        inversion Hc; subst. apply find_key_some in F2a. destruct F2a as [K Hin]. inversion K; subst.
        destruct (sys_new_entry s d p I V Hin) as [Z [_ [_ [Hn F2]]]]. rewrite Z.
        rewrite (hist_miss (s_lclass s)); auto; [| apply (i_s8 _ I) | rewrite G, F2; auto].
        apply hist_nolog; [apply (i_s8 _ I)|]. destruct (i_nolog _ I _ Hn) as [_ [N2 _]]. auto.
      * destruct (find (fun e => keqb [a] [fst e]) (d_deploy d)) eqn:F2.
        -- inversion Hc; subst. apply hist_hit; auto.
        -- rewrite (hist_miss (s_lclass s)); auto.
           ++ apply (h_class _ Hs); auto.
           ++ apply (i_s8 _ I).
  - intros a v Hv. rewrite get_upd_nonce in Hv. cbn [with_sys d_deploy d_nonce] in Hv.
    set (m' := lnonce_new s d).
    assert (Sm' : sorted m') by (apply (i_s7 _ I')).
    assert (G : get m' ([a] ++ [s_next s]) =
      match find (fun e => keqb [a] [fst e]) (d_nonce d) with Some e => Some (snd e) | None => None end).
    { unfold m', lnonce_new. simpl. rewrite !get_lput1. rewrite N.eqb_refl.
      destruct (find _ (d_nonce d)); auto. apply (below_none _ _ [a] _ (i_b2 _ I)). lia. }
    destruct (find (fun e => keqb [a] [fst e]) (d_nonce d)) eqn:F1.
    + inversion Hv; subst. apply hist_hit; auto.
    + rewrite (hist_miss (s_lnonce s)); auto.
      * destruct (find (fun e => keqb [a] [fst e]) (sys_new (s_class s) d ++ d_deploy d)) eqn:F2.
        -- inversion Hv; subst. apply find_key_some in F2. destruct F2 as [K2 H2]. inversion K2; subst.
           destruct (i_nolog _ I _ (v_deploy _ _ Vd _ H2)) as [N1 _].
           apply hist_nolog; [apply (i_s7 _ I) | auto].
        -- apply (h_nonce _ Hs); auto.
      * apply (i_s7 _ I).
      * intros. unfold m', lnonce_new. simpl. rewrite !get_lput1. destruct (b =? s_next s) eqn:E; auto. lia.
  - intros a sl.
    set (m' := lstore_new s d).
    assert (Sm' : sorted m') by (apply (i_s6 _ I')).
    assert (G : get m' ([a; sl] ++ [s_next s]) =
      match find (fun e => keqb [a; sl] (skey e)) (d_store d) with Some e => Some (snd e) | None => None end).
    { unfold m', lstore_new. simpl. rewrite !get_lput2. rewrite N.eqb_refl. unfold skey.
      destruct (find _ (d_store d)); auto. apply (below_none _ _ [a; sl] _ (i_b1 _ I)). lia. }
    unfold getd. rewrite get_upd_store by (apply (i_s4 _ I)).
    destruct (find (fun e => keqb [a; sl] (skey e)) (d_store d)) eqn:F1.
    + rewrite (hist_hit _ _ _ (snd p)); auto. destruct (snd p =? 0) eqn:E; auto. lia.
    + rewrite (hist_miss (s_lstore s)); auto.
      * apply (h_store _ Hs).
      * apply (i_s6 _ I).
      * intros. unfold m', lstore_new. simpl. rewrite !get_lput2. destruct (b =? s_next s) eqn:E; auto. lia.
Qed.

(* ---------- Revert undoes Update (new backend) ---------- *)
Lemma rev_val_stable : forall m m' p n, sorted m -> sorted m' ->
  (forall b, b < n -> get m' (p ++ [b]) = get m (p ++ [b])) -> rev_val_new m' p n = rev_val_new m p n.
Proof.
  intros. unfold rev_val_new. destruct (n =? 0) eqn:E; auto.
  apply hist_stable; auto. intros. apply H1. lia.
Qed.

(* the head buckets: what the reverse diff, the deletion of the deployed contracts (the system contracts a
   block created included: they are the first entries of the deployment list of [with_sys]) restore.
   Generic in the diff, used by both backends. *)
Section RevertHead.
  Variables (s : st) (d : diff).
  Hypothesis I : Inv s.
  Hypothesis Vd : Valid s d.
  Let n := s_next s.

  Lemma rg_class : forall rv : N -> N,
    (forall a c, find (fun e => keqb [a] [fst e]) (d_deploy d) = None -> get (s_class s) [a] = Some c -> rv a = c) ->
    foldd (fun e m => del [fst e] m) (d_deploy d)
      (foldd (fun e m => put [fst e] (snd e) m)
         (map (fun e => (fst e, rv (fst e))) (d_replace d)) (upd_class d (s_class s)))
    = s_class s.
  Proof.
    intros rv Hrv.
    assert (S0 : sorted (s_class s)) by apply (i_s1 _ I).
    assert (S1 : sorted (upd_class d (s_class s))) by (unfold upd_class; repeat apply sorted_fold_put; auto).
    apply sorted_ext; auto.
    - apply sorted_fold_del. apply sorted_fold_put. auto.
    - intros k. rewrite get_fold_del by (apply sorted_fold_put; auto).
      destruct (find (fun e => keqb k [fst e]) (d_deploy d)) eqn:F2.
      + apply find_key_some in F2. destruct F2 as [K Hin]. subst. symmetry. apply (v_deploy _ _ Vd); auto.
      + rewrite get_fold_put. rewrite find_map. simpl.
        destruct (find (fun x => keqb k [fst x]) (d_replace d)) eqn:F1; simpl.
        * apply find_key_some in F1. destruct F1 as [K Hin]. subst.
          pose proof (v_replace _ _ Vd _ Hin). destruct (get (s_class s) [fst p]) eqn:E; [|contradiction].
          f_equal. apply Hrv; auto.
        * rewrite get_upd_class. rewrite F1, F2. auto.
  Qed.

  Lemma rg_nonce : forall rv : N -> N,
    (forall a c, find (fun e => keqb [a] [fst e]) (d_deploy d) = None -> get (s_nonce s) [a] = Some c -> rv a = c) ->
    foldd (fun e m => del [fst e] m) (d_deploy d)
      (foldd (fun e m => put [fst e] (snd e) m)
         (map (fun e => (fst e, rv (fst e))) (d_nonce d)) (upd_nonce d (s_nonce s)))
    = s_nonce s.
  Proof.
    intros rv Hrv.
    assert (S0 : sorted (s_nonce s)) by apply (i_s2 _ I).
    assert (S1 : sorted (upd_nonce d (s_nonce s))) by (unfold upd_nonce; repeat apply sorted_fold_put; auto).
    apply sorted_ext; auto.
    - apply sorted_fold_del. apply sorted_fold_put. auto.
    - intros k. rewrite get_fold_del by (apply sorted_fold_put; auto).
      destruct (find (fun e => keqb k [fst e]) (d_deploy d)) eqn:F2.
      + apply find_key_some in F2. destruct F2 as [K Hin]. subst. symmetry.
        apply (i_dom1 _ I). apply (v_deploy _ _ Vd); auto.
      + rewrite get_fold_put. rewrite find_map. simpl.
        destruct (find (fun x => keqb k [fst x]) (d_nonce d)) eqn:F1; simpl.
        * apply find_key_some in F1. destruct F1 as [K Hin]. subst.
          destruct (v_nonce _ _ Vd _ Hin) as [Hc | Hd].
          -- destruct (i_dom2 _ I _ Hc) as [Hn _]. destruct (get (s_nonce s) [fst p]) eqn:E; [|contradiction].
             f_equal. apply Hrv; auto.
          -- apply inkeys_find in Hd. destruct Hd. congruence.
        * rewrite get_upd_nonce. rewrite F1, F2. auto.
  Qed.

  Lemma rn_dh : foldd (fun e m => del [fst e] m) (d_deploy d) (upd_dh n d (s_dh s)) = s_dh s.
  Proof.
    assert (S0 : sorted (s_dh s)) by apply (i_s3 _ I).
    assert (S1 : sorted (upd_dh n d (s_dh s))) by (unfold upd_dh; repeat apply sorted_fold_put; auto).
    apply sorted_ext; auto.
    - apply sorted_fold_del. auto.
    - intros k. rewrite get_fold_del by auto. rewrite get_upd_dh.
      destruct (find (fun e => keqb k [fst e]) (d_deploy d)) eqn:F2; auto.
      apply find_key_some in F2. destruct F2 as [K Hin]. subst. symmetry.
      apply (i_dom1 _ I). apply (v_deploy _ _ Vd); auto.
  Qed.

  Lemma has_prefix1 : forall a k, has_prefix [a] k = true -> exists r, k = a :: r.
  Proof.
    unfold has_prefix. intros. destruct (strip [a] k) eqn:E; [|discriminate].
    apply strip_some in E. simpl in E. eauto.
  Qed.

  Lemma rg_store_undo : forall rv : N -> N -> N,
    (forall a sl, rv a sl = getd (s_store s) [a; sl]) ->
    upd_store (map (fun e => (fst e, rv (fst (fst e)) (snd (fst e)))) (d_store d))
      (upd_store (d_store d) (s_store s)) = s_store s.
  Proof.
    intros rv Hrv.
    assert (S0 : sorted (s_store s)) by apply (i_s4 _ I).
    apply sorted_ext; auto.
    - repeat apply sorted_upd_store. auto.
    - intros k. rewrite get_upd_store by (apply sorted_upd_store; auto).
      rewrite find_map. unfold skey at 1. simpl. fold (skey).
      destruct (find (fun x => keqb k [fst (fst x); snd (fst x)]) (d_store d)) eqn:F1; simpl.
      + apply find_key_some in F1. destruct F1 as [K Hin]. subst. rewrite Hrv.
        unfold getd. destruct (get (s_store s) [fst (fst p); snd (fst p)]) eqn:E.
        * destruct (i_store _ I _ _ E) as [Hz _]. destruct (n0 =? 0) eqn:E0; auto. lia.
        * simpl. auto.
      + rewrite get_upd_store by auto. unfold skey. rewrite F1. auto.
  Qed.

  (* the storage of the contracts the block deployed was empty before it *)
  Lemma rg_store_prefix : foldd (fun e m => del_prefix [fst e] m) (d_deploy d) (s_store s) = s_store s.
  Proof.
    assert (S0 : sorted (s_store s)) by apply (i_s4 _ I).
    apply sorted_ext; auto.
    - apply sorted_fold_del_prefix. auto.
    - intros k. rewrite get_fold_del_prefix.
      destruct (existsb (fun e => has_prefix [fst e] k) (d_deploy d)) eqn:E; auto.
      apply existsb_exists in E. destruct E as [e [Hin Hp]]. apply has_prefix1 in Hp. destruct Hp as [r K]. subst.
      destruct (get (s_store s) (fst e :: r)) eqn:G; auto.
      destruct (i_store _ I _ _ G) as [_ [a [sl [K Hc]]]]. inversion K; subst.
      exfalso. apply Hc. apply (v_deploy _ _ Vd); auto.
  Qed.
End RevertHead.

(* removing the system contracts after the deployed ones = removing the deployments of [with_sys] *)
Lemma foldd_sys_del : forall {V} (l : list N) (l2 : list (N * N)) (m : smap V),
  foldd (fun a m => del [a] m) l (foldd (fun e m => del [fst e] m) l2 m) =
  foldd (fun e m => del [fst e] m) (map (fun a => (a, 0)) l ++ l2) m.
Proof. intros. rewrite foldd_app, foldd_map. auto. Qed.

Lemma foldd_sys_del_prefix : forall {V} (l : list N) (l2 : list (N * N)) (m : smap V),
  foldd (fun a m => del_prefix [a] m) l (foldd (fun e m => del_prefix [fst e] m) l2 m) =
  foldd (fun e m => del_prefix [fst e] m) (map (fun a => (a, 0)) l ++ l2) m.
Proof. intros. rewrite foldd_app, foldd_map. auto. Qed.

(* for a system contract: it has a record iff its storage is not empty *)
Lemma sys_present_store : forall s a, Inv s -> is_sys a = true -> has_store (s_store s) a = present (s_class s) a.
Proof.
  intros s a I Ha. destruct (present (s_class s) a) eqn:P.
  - apply present_iff in P. apply (i_sys _ I); auto.
  - apply present_false in P. destruct (has_store (s_store s) a) eqn:H; auto.
    apply has_store_iff in H; [|apply (i_s4 _ I)]. destruct H as [k [v [G Hp]]].
    destruct (i_store _ I _ _ G) as [_ [x [sl [K Hc]]]]. subst. rewrite has_prefix_2 in Hp.
    apply N.eqb_eq in Hp. subst. contradiction.
Qed.

(* after the block every system contract it names has a record, so the reverse diff creates none *)
Lemma sys_new_after : forall s d, Inv s -> VS s d ->
  sys_new (upd_class (with_sys (s_class s) d) (s_class s)) d = [].
Proof.
  intros s d I V. unfold sys_new, sys_missing. rewrite filter_nil; auto.
  intros a Ha. apply is_sys_in in Ha. destruct (touched d a) eqn:T; auto. simpl.
  apply negb_false_iff. apply present_iff. apply upd_class_mono.
  destruct (get (s_class s) [a]) eqn:E; [left; discriminate | right].
  cbn [with_sys d_deploy]. rewrite inkeys_app. replace (inkeys (sys_new (s_class s) d) a) with true; auto.
  symmetry. apply inkeys_sys_new. apply in_sys_missing. auto.
Qed.

Section RevertNew.
  Variables (s : st) (d : diff).
  Hypothesis I : Inv s.
  Hypothesis Hs : Hist_new s.
  Hypothesis V : VS s d.
  Let n := s_next s.
  Let dx := with_sys (s_class s) d.
  Let Vd : Valid s dx := vs_valid _ _ V.
  Let lstore' := lstore_new s d.
  Let lnonce' := lnonce_new s d.
  Let lclass' := lclass_new s d.

  Lemma rn_sorted_ls : sorted lstore'. Proof. apply sorted_fold_put. apply (i_s6 _ I). Qed.
  Lemma rn_sorted_ln : sorted lnonce'. Proof. apply sorted_fold_put. apply (i_s7 _ I). Qed.
  Lemma rn_sorted_lc : sorted lclass'. Proof. repeat apply sorted_fold_put. apply (i_s8 _ I). Qed.

  Lemma rn_rev_class : forall a c, get (s_class s) [a] = Some c -> rev_val_new lclass' [a] n = c.
  Proof.
    intros. rewrite (rev_val_stable (s_lclass s)).
    - apply (h_class _ Hs); auto.
    - apply (i_s8 _ I).
    - apply rn_sorted_lc.
    - intros. unfold lclass', lclass_new. simpl. rewrite !get_lput1. destruct (b =? s_next s) eqn:E; auto. unfold n in *. lia.
  Qed.

  Lemma rn_rev_nonce : forall a c, get (s_nonce s) [a] = Some c -> rev_val_new lnonce' [a] n = c.
  Proof.
    intros. rewrite (rev_val_stable (s_lnonce s)).
    - apply (h_nonce _ Hs); auto.
    - apply (i_s7 _ I).
    - apply rn_sorted_ln.
    - intros. unfold lnonce', lnonce_new. simpl. rewrite !get_lput1. destruct (b =? s_next s) eqn:E; auto. unfold n in *. lia.
  Qed.

  Lemma rn_rev_store : forall a sl, rev_val_new lstore' [a; sl] n = getd (s_store s) [a; sl].
  Proof.
    intros. rewrite (rev_val_stable (s_lstore s)).
    - apply (h_store _ Hs); auto.
    - apply (i_s6 _ I).
    - apply rn_sorted_ls.
    - intros. unfold lstore', lstore_new. simpl. rewrite !get_lput2. destruct (b =? s_next s) eqn:E; auto. unfold n in *. lia.
  Qed.

  Lemma rn_lstore : foldd (fun e m => del [fst (fst e); snd (fst e); n] m) (d_store d) lstore' = s_lstore s.
  Proof.
    assert (S0 : sorted (s_lstore s)) by apply (i_s6 _ I).
    apply sorted_ext; auto.
    - apply sorted_fold_del. apply rn_sorted_ls.
    - intros k. rewrite get_fold_del by apply rn_sorted_ls. unfold lstore', lstore_new. rewrite get_fold_put. fold n.
      destruct (find (fun e => keqb k [fst (fst e); snd (fst e); n]) (d_store d)) eqn:F; auto.
      apply find_key_some in F. destruct F as [K _]. subst. symmetry.
      apply (below_none _ _ [fst (fst p); snd (fst p)] _ (i_b1 _ I)). unfold n. lia.
  Qed.

  Lemma rn_lnonce :
    foldd (fun e m => del [fst e; n] m) (d_deploy d) (foldd (fun e m => del [fst e; n] m) (d_nonce d) lnonce') = s_lnonce s.
  Proof.
    assert (S0 : sorted (s_lnonce s)) by apply (i_s7 _ I).
    apply sorted_ext; auto.
    - repeat apply sorted_fold_del. apply rn_sorted_ln.
    - intros k. rewrite get_fold_del by (apply sorted_fold_del; apply rn_sorted_ln).
      destruct (find (fun e => keqb k [fst e; n]) (d_deploy d)) eqn:F2.
      + apply find_key_some in F2. destruct F2 as [K _]. subst. symmetry.
        apply (below_none _ _ [fst p] _ (i_b2 _ I)). unfold n. lia.
      + rewrite get_fold_del by apply rn_sorted_ln. unfold lnonce', lnonce_new. rewrite get_fold_put. fold n.
        destruct (find (fun e => keqb k [fst e; n]) (d_nonce d)) eqn:F; auto.
        apply find_key_some in F. destruct F as [K _]. subst. symmetry.
        apply (below_none _ _ [fst p] _ (i_b2 _ I)). unfold n. lia.
  Qed.

  Lemma rn_lclass :
    foldd (fun e m => del [fst e; n] m) (d_deploy d) (foldd (fun e m => del [fst e; n] m) (d_replace d) lclass') = s_lclass s.
  Proof.
    assert (S0 : sorted (s_lclass s)) by apply (i_s8 _ I).
    apply sorted_ext; auto.
    - repeat apply sorted_fold_del. apply rn_sorted_lc.
    - intros k. rewrite get_fold_del by (apply sorted_fold_del; apply rn_sorted_lc).
      destruct (find (fun e => keqb k [fst e; n]) (d_deploy d)) eqn:F2.
      + apply find_key_some in F2. destruct F2 as [K _]. subst. symmetry.
        apply (below_none _ _ [fst p] _ (i_b3 _ I)). unfold n. lia.
      + rewrite get_fold_del by apply rn_sorted_lc. unfold lclass', lclass_new. rewrite !get_fold_put. fold n. rewrite F2.
        destruct (find (fun e => keqb k [fst e; n]) (d_replace d)) eqn:F; auto.
        apply find_key_some in F. destruct F as [K _]. subst. symmetry.
        apply (below_none _ _ [fst p] _ (i_b3 _ I)). unfold n. lia.
  Qed.

  (* commit() in Revert removes exactly the system contracts the block had created *)
  Lemma rn_gone : filter (fun a => touched d a && negb (has_store (s_store s) a)) sys_addrs = sys_missing (s_class s) d.
  Proof.
    unfold sys_missing. apply filter_ext_in. intros a Ha. apply is_sys_in in Ha.
    rewrite (sys_present_store s a I Ha). auto.
  Qed.

  Lemma revert_store_new : revert_new (store_new s d) d = Some s.
  Proof.
    rewrite store_new_eq by auto. cbv zeta. unfold revert_new, revert_new_with.
    cbn [s_next s_class s_nonce s_dh s_store s_decl s_lstore s_lnonce s_lclass].
    destruct (s_next s + 1 =? 0) eqn:E; [lia|].
    replace (s_next s + 1 - 1) with (s_next s) by lia.
    rewrite rm_classes_upd; [| apply (v_nodup_decl _ _ Vd) | apply (i_s5 _ I) | apply (i_decl _ I) | apply (vs_deliv _ _ V)].
    rewrite (sys_new_after s d I V). cbn [foldd fold_right].
    fold n. fold dx. fold lstore'. fold lnonce'. fold lclass'.
    rewrite (rg_store_undo s d I (fun a sl => rev_val_new lstore' [a; sl] n)) by (intros; apply rn_rev_store).
    rewrite rn_gone. rewrite !foldd_sys_del, foldd_sys_del_prefix.
    change (map (fun a => (a, 0)) (sys_missing (s_class s) d) ++ d_deploy d) with (d_deploy dx).
    change (d_replace d) with (d_replace dx) at 1. change (d_nonce d) with (d_nonce dx) at 1.
    rewrite (rg_class s dx I Vd (fun a => rev_val_new lclass' [a] n)) by (intros; apply rn_rev_class; auto).
    rewrite (rg_nonce s dx I Vd (fun a => rev_val_new lnonce' [a] n)) by (intros; apply rn_rev_nonce; auto).
    unfold n. rewrite (rn_dh s dx I Vd). rewrite (rg_store_prefix s dx I Vd).
    fold n. rewrite rn_lstore, rn_lnonce, rn_lclass.
    destruct s; auto.
  Qed.
End RevertNew.
