(* C03 — the legacy backend: invariant, Revert undoes Update, reads. *)
From Coq Require Import List NArith Bool Lia ZifyN ZifyNat ZifyBool.
From V Require Import C03.Model C03.Proofs_map C03.Proofs_inv C03.Proofs_store C03.Proofs_new C03.Proofs_read.
Import ListNotations.
Open Scope N_scope.

Definition noop (s : st) (e : (N * N) * N) : bool := (getd (s_store s) (skey e) =? 0) && (snd e =? 0).

Definition lstore_old (s : st) (d : diff) : smap N :=
  foldd (fun e m => put [fst (fst e); snd (fst e); s_next s] (getd (s_store s) (skey e)) m)
    (filter (fun e => negb (noop s e)) (d_store d)) (s_lstore s).
Definition class_dep (s : st) (d : diff) := foldd (fun e m => put [fst e] (snd e) m) (d_deploy d) (s_class s).
Definition nonce_dep (s : st) (d : diff) := foldd (fun e m => put [fst e] 0 m) (d_deploy d) (s_nonce s).
Definition lnonce_old (s : st) (d : diff) : smap N :=
  foldd (fun e m => put [fst e; s_next s] (getd (nonce_dep s d) [fst e]) m) (d_nonce d) (s_lnonce s).
Definition lclass_old (s : st) (d : diff) : smap N :=
  foldd (fun e m => put [fst e; s_next s] (getd (class_dep s d) [fst e]) m) (d_replace d) (s_lclass s).

Lemma store_old_eq : forall s d, store_old s d =
  mkSt (s_next s + 1) (upd_class (with_sys (s_class s) d) (s_class s)) (upd_nonce (with_sys (s_class s) d) (s_nonce s))
       (upd_dh (s_next s) (with_sys (s_class s) d) (s_dh s))
       (upd_store (d_store d) (s_store s)) (upd_decl (s_next s) d (s_decl s))
       (lstore_old s d) (lnonce_old s d) (lclass_old s d).
Proof.
  intros. unfold store_old, lstore_old, lnonce_old, lclass_old, class_dep, nonce_dep. f_equal.
  exact (foldd_skip (noop s) (fun e m => put [fst (fst e); snd (fst e); s_next s] (getd (s_store s) (skey e)) m) _ _).
Qed.

Lemma Inv_store_old : forall s d, Inv s -> VS s d -> Inv (store_old s d).
Proof.
  intros s d H V. rewrite store_old_eq. pose proof H as I. destruct I.
  apply (Inv_store_gen s (with_sys (s_class s) d)); auto.
  - apply (vs_valid _ _ V).
  - apply sorted_fold_put; auto.
  - apply sorted_fold_put; auto.
  - apply sorted_fold_put; auto.
  - apply (below_fold_put (fun e => [fst (fst e); snd (fst e)])); [lia|]. eapply below_mono; [|eauto]. lia.
  - apply (below_fold_put (fun e => [fst e])); [lia|]. eapply below_mono; [|eauto]. lia.
  - apply (below_fold_put (fun e => [fst e])); [lia|]. eapply below_mono; [|eauto]. lia.
  - intros a Ha. destruct (nolog_after s d a H V Ha) as [F1 [F2 [F3 [F4 [N1 [N2 N3]]]]]].
    repeat split; intros.
    + unfold lnonce_old. rewrite get_lput1. destruct (b =? s_next s); auto. rewrite F3. auto.
    + unfold lclass_old. rewrite !get_lput1. destruct (b =? s_next s); auto. rewrite F1. auto.
    + unfold lstore_old. rewrite get_lput2. destruct (b =? s_next s); auto.
      destruct (find _ (filter _ (d_store d))) eqn:F; auto.
      apply find_some in F. destruct F as [Hin K]. apply filter_In in Hin. destruct Hin as [Hin _].
      eapply find_none in Hin; [|apply (F4 sl)]. simpl in Hin. congruence.
  - intros. apply (sys_after s d); auto.
Qed.

(* ---------- the value just before block n, read from the legacy log written for block n ---------- *)
Lemma map_opt_all : forall {A B} (f : A -> option B) (g : A -> B) l,
  (forall x, In x l -> f x = Some (g x)) -> map_opt f l = Some (map g l).
Proof.
  induction l; simpl; intros; auto. rewrite H by auto. rewrite IHl by auto. auto.
Qed.

Lemma filter_all : forall {A} (f : A -> bool) l, (forall x, In x l -> f x = true) -> filter f l = l.
Proof. induction l; simpl; intros; auto. rewrite H by auto. rewrite IHl; auto. Qed.

Lemma rev_val_old_hit : forall m p n v, sorted m -> below m (n + 1) ->
  get m (p ++ [n]) = Some v -> (n = 0 -> v = 0) -> rev_val_old m p n = Some v.
Proof.
  intros. unfold rev_val_old. destruct (n =? 0) eqn:E.
  - rewrite H2 by lia. auto.
  - rewrite (old_scan m p (n - 1) (n + 1)); auto.
    + replace (n - 1 + 1) with n by lia. replace (N.to_nat (n + 1 - n)) with 1%nat by lia.
      simpl. rewrite H1. auto.
    + unfold log_below. intros. eapply H0; eauto.
Qed.

Section RevertOld.
  Variables (s : st) (d : diff).
  Hypothesis I : Inv s.
  Hypothesis V : VS s d.
  Let n := s_next s.
  Let dx := with_sys (s_class s) d.
  Let Vd : Valid s dx := vs_valid _ _ V.

  Lemma ro_empty : n = 0 -> s = st_empty.
  Proof. apply (i_empty _ I). Qed.

  Lemma ro_sorted_ls : sorted (lstore_old s d). Proof. apply sorted_fold_put. apply (i_s6 _ I). Qed.
  Lemma ro_sorted_ln : sorted (lnonce_old s d). Proof. apply sorted_fold_put. apply (i_s7 _ I). Qed.
  Lemma ro_sorted_lc : sorted (lclass_old s d). Proof. apply sorted_fold_put. apply (i_s8 _ I). Qed.

  Lemma ro_below : below (lstore_old s d) (n + 1) /\ below (lnonce_old s d) (n + 1) /\ below (lclass_old s d) (n + 1).
  Proof.
    pose proof (Inv_store_old s d I V) as I'. rewrite store_old_eq in I'.
    split; [|split]; [apply (i_b1 _ I') | apply (i_b2 _ I') | apply (i_b3 _ I')].
  Qed.

  (* the value before block n of a slot the block wrote: from the log written for block n, or - when the
     write was a no-op (zero over an absent leaf) and nothing was logged - from the head *)
  Lemma ro_rev_store : forall e, In e (d_store d) ->
    rev_store_old (store_old s d) [fst (fst e); snd (fst e)] n = getd (s_store s) [fst (fst e); snd (fst e)].
  Proof.
    intros. rewrite store_old_eq. unfold rev_store_old. cbn [s_lstore s_store].
    destruct (n =? 0) eqn:E0.
    - rewrite (ro_empty ltac:(lia)). auto.
    - destruct ro_below as [B1 _].
      rewrite (old_scan (lstore_old s d) _ (n - 1) (n + 1)); [| apply ro_sorted_ls | unfold log_below; intros; eapply B1; eauto].
      replace (n - 1 + 1) with n by lia. replace (N.to_nat (n + 1 - n)) with 1%nat by lia. simpl.
      unfold lstore_old. rewrite get_lput2. fold n. rewrite N.eqb_refl.
      destruct (find (fun e0 => keqb [fst (fst e); snd (fst e)] [fst (fst e0); snd (fst e0)])
                     (filter (fun e0 => negb (noop s e0)) (d_store d))) eqn:F.
      + apply find_key_some in F. destruct F as [K _]. unfold skey. rewrite <- K. auto.
      + pose proof (below_none _ _ [fst (fst e); snd (fst e)] n (i_b1 _ I)) as BN. simpl in BN.
        rewrite BN by lia.
        unfold getd at 1. rewrite get_upd_store by apply (i_s4 _ I).
        destruct (find (fun e0 => keqb [fst (fst e); snd (fst e)] (skey e0)) (d_store d)) eqn:F1.
        * apply find_some in F1. destruct F1 as [Hin K].
          assert (Hn : noop s p = true).
          { destruct (noop s p) eqn:En; auto. exfalso.
            eapply find_none in F; [| apply filter_In; split; [eauto | rewrite En; auto]].
            unfold skey in K. simpl in F. congruence. }
          unfold noop in Hn. apply andb_true_iff in Hn. destruct Hn as [H1 H2]. rewrite H2.
          apply keqb_eq in K. rewrite <- K in H1. lia.
        * auto.
  Qed.

  Lemma ro_rev_nonce : forall e, In e (d_nonce d) ->
    rev_val_old (lnonce_old s d) [fst e] n = Some (getd (nonce_dep s d) [fst e]).
  Proof.
    intros. apply rev_val_old_hit.
    - apply ro_sorted_ln.
    - apply ro_below.
    - unfold lnonce_old. simpl. rewrite get_lput1. fold n. rewrite N.eqb_refl.
      destruct (find (fun e0 => keqb [fst e] [fst e0]) (d_nonce d)) eqn:F.
      + apply find_key_some in F. destruct F as [K _]. inversion K. rewrite H1. auto.
      + eapply find_none in F; eauto. rewrite keqb_refl in F. discriminate.
    - intros. unfold getd, nonce_dep. rewrite get_fold_put. rewrite (ro_empty H0). simpl.
      destruct (find _ (d_deploy d)); auto.
  Qed.

  Lemma ro_rev_class : forall e, In e (d_replace d) ->
    rev_val_old (lclass_old s d) [fst e] n = Some (getd (class_dep s d) [fst e]).
  Proof.
    intros. apply rev_val_old_hit.
    - apply ro_sorted_lc.
    - apply ro_below.
    - unfold lclass_old. simpl. rewrite get_lput1. fold n. rewrite N.eqb_refl.
      destruct (find (fun e0 => keqb [fst e] [fst e0]) (d_replace d)) eqn:F.
      + apply find_key_some in F. destruct F as [K _]. inversion K. rewrite H1. auto.
      + eapply find_none in F; eauto. rewrite keqb_refl in F. discriminate.
    - intros. exfalso. apply (v_replace _ _ Vd _ H). rewrite (ro_empty H0). auto.
  Qed.

  Lemma find_filter_none : forall {A} (P Q : A -> bool) l, find P l = None -> find P (filter Q l) = None.
  Proof.
    intros. apply find_none_iff. intros. apply filter_In in H0. destruct H0. eapply find_none; eauto.
  Qed.

  Lemma ro_lstore : foldd (fun e m => del [fst (fst e); snd (fst e); n] m) (d_store d) (lstore_old s d) = s_lstore s.
  Proof.
    assert (S0 : sorted (s_lstore s)) by apply (i_s6 _ I).
    apply sorted_ext; auto.
    - apply sorted_fold_del. apply ro_sorted_ls.
    - intros k. rewrite get_fold_del by apply ro_sorted_ls.
      destruct (find (fun e => keqb k [fst (fst e); snd (fst e); n]) (d_store d)) eqn:F.
      + apply find_key_some in F. destruct F as [K _]. subst. symmetry.
        apply (below_none _ _ [fst (fst p); snd (fst p)] _ (i_b1 _ I)). unfold n. lia.
      + unfold lstore_old. rewrite get_fold_put. fold n. rewrite find_filter_none; auto.
  Qed.

  Lemma ro_lnonce : foldd (fun e m => del [fst e; n] m) (d_nonce d) (lnonce_old s d) = s_lnonce s.
  Proof.
    assert (S0 : sorted (s_lnonce s)) by apply (i_s7 _ I).
    apply sorted_ext; auto.
    - apply sorted_fold_del. apply ro_sorted_ln.
    - intros k. rewrite get_fold_del by apply ro_sorted_ln. unfold lnonce_old. rewrite get_fold_put. fold n.
      destruct (find (fun e => keqb k [fst e; n]) (d_nonce d)) eqn:F; auto.
      apply find_key_some in F. destruct F as [K _]. subst. symmetry.
      apply (below_none _ _ [fst p] _ (i_b2 _ I)). unfold n. lia.
  Qed.

  Lemma ro_lclass : foldd (fun e m => del [fst e; n] m) (d_replace d) (lclass_old s d) = s_lclass s.
  Proof.
    assert (S0 : sorted (s_lclass s)) by apply (i_s8 _ I).
    apply sorted_ext; auto.
    - apply sorted_fold_del. apply ro_sorted_lc.
    - intros k. rewrite get_fold_del by apply ro_sorted_lc. unfold lclass_old. rewrite get_fold_put. fold n.
      destruct (find (fun e => keqb k [fst e; n]) (d_replace d)) eqn:F; auto.
      apply find_key_some in F. destruct F as [K _]. subst. symmetry.
      apply (below_none _ _ [fst p] _ (i_b3 _ I)). unfold n. lia.
  Qed.

  (* purgesystemContracts removes exactly the system contracts the block had created *)
  Lemma ro_gone : forall rc : list (N * N), (forall e, In e rc -> In (fst e) (map fst (d_replace d))) ->
    filter (fun a => present (foldd (fun e m => del [fst e] m) (d_deploy d)
                               (foldd (fun e m => put [fst e] (snd e) m) rc (upd_class dx (s_class s)))) a
                     && negb (has_store (s_store s) a)) sys_addrs
    = sys_missing (s_class s) d.
  Proof.
    intros rc Hrc. unfold sys_missing. apply filter_ext_in. intros a Ha. apply is_sys_in in Ha.
    rewrite (sys_present_store s a I Ha).
    assert (S1 : sorted (upd_class dx (s_class s))) by (unfold upd_class; repeat apply sorted_fold_put; apply (i_s1 _ I)).
    unfold present at 1. rewrite get_fold_del by (apply sorted_fold_put; auto).
    destruct (find (fun e => keqb [a] [fst e]) (d_deploy d)) eqn:F2.
    { apply find_key_some in F2. destruct F2 as [K Hin]. inversion K; subst. rewrite (vs_dep _ _ V _ Hin) in Ha. discriminate. }
    rewrite get_fold_put.
    destruct (find (fun e => keqb [a] [fst e]) rc) eqn:F1.
    { apply find_key_some in F1. destruct F1 as [K Hin]. inversion K; subst. apply Hrc in Hin.
      apply in_map_iff in Hin. destruct Hin as [e [E Hin]]. rewrite <- E in Ha. rewrite (vs_rep _ _ V _ Hin) in Ha. discriminate. }
    rewrite get_upd_class. unfold dx. cbn [with_sys d_deploy d_replace].
    destruct (find (fun e => keqb [a] [fst e]) (d_replace d)) eqn:F3.
    { apply find_key_some in F3. destruct F3 as [K Hin]. inversion K; subst. rewrite (vs_rep _ _ V _ Hin) in Ha. discriminate. }
    rewrite find_app, F2.
    destruct (find (fun e => keqb [a] [fst e]) (sys_new (s_class s) d)) eqn:F4.
    - apply find_key_some in F4. destruct F4 as [K Hin]. inversion K; subst.
      apply in_sys_new in Hin. destruct Hin as [_ Hin]. apply in_sys_missing in Hin. destruct Hin as [_ [Ht Hc]].
      rewrite Ht. apply present_false in Hc. rewrite Hc. auto.
    - unfold present. destruct (get (s_class s) [a]) eqn:Hc; simpl; [rewrite andb_false_r; auto|].
      destruct (touched d a) eqn:Ht; auto. exfalso.
      assert (Hin : In a (sys_missing (s_class s) d)) by (apply in_sys_missing; auto).
      apply inkeys_sys_new in Hin. apply inkeys_find in Hin. destruct Hin. congruence.
  Qed.

  Lemma ro_dh_ok : existsb (fun a => negb (getd (foldd (fun e m => del [fst e] m) (d_deploy d) (upd_dh n dx (s_dh s))) [a] =? n))
                     (sys_missing (s_class s) d) = false.
  Proof.
    apply not_true_iff_false. intro H. apply existsb_exists in H. destruct H as [a [Hin H]].
    assert (S1 : sorted (upd_dh n dx (s_dh s))) by (unfold upd_dh; apply sorted_fold_put; apply (i_s3 _ I)).
    unfold getd in H. rewrite get_fold_del in H by auto. pose proof Hin as Hm. apply in_sys_missing in Hm. destruct Hm as [Ha _].
    destruct (find (fun e => keqb [a] [fst e]) (d_deploy d)) eqn:F2.
    { apply find_key_some in F2. destruct F2 as [K Hd]. inversion K; subst. rewrite (vs_dep _ _ V _ Hd) in Ha. discriminate. }
    rewrite get_upd_dh in H. unfold dx in H. cbn [with_sys d_deploy] in H. rewrite find_app in H.
    apply inkeys_sys_new in Hin. apply inkeys_find in Hin. destruct Hin as [e Fe]. rewrite Fe in H.
    rewrite N.eqb_refl in H. discriminate.
  Qed.

  Lemma revert_store_old : revert_old (store_old s d) d = Some s.
  Proof.
    unfold revert_old, revert_old_with.
    assert (En : s_next (store_old s d) = s_next s + 1) by reflexivity. rewrite En.
    destruct (s_next s + 1 =? 0) eqn:E; [lia|].
    replace (s_next s + 1 - 1) with (s_next s) by lia. fold n.
    rewrite (map_ext_in _ (fun e => (fst e, getd (s_store s) [fst (fst e); snd (fst e)])) (d_store d));
      [| intros; rewrite ro_rev_store; auto].
    rewrite store_old_eq.
    cbn [s_next s_class s_nonce s_dh s_store s_decl s_lstore s_lnonce s_lclass].
    unfold n. rewrite rm_classes_upd; [| apply (v_nodup_decl _ _ Vd) | apply (i_s5 _ I) | apply (i_decl _ I) | apply (vs_deliv _ _ V)].
    fold n.
    rewrite (map_opt_all _ (fun e => (fst e, getd (nonce_dep s d) [fst e]))).
    2:{ intros. rewrite ro_rev_nonce; auto. }
    rewrite (map_opt_all _ (fun e => (fst e, getd (class_dep s d) [fst e]))).
    2:{ intros. rewrite ro_rev_class; auto. }
    rewrite (sys_new_after s d I V). cbn [foldd fold_right].
    rewrite (rg_store_undo s d I (fun a sl => getd (s_store s) [a; sl])); auto.
    fold dx. rewrite ro_gone.
    2:{ intros e Hin. apply in_map_iff in Hin. destruct Hin as [x [Ex Hin]]. subst. simpl. apply in_map. auto. }
    rewrite ro_dh_ok. rewrite !foldd_sys_del.
    change (map (fun a => (a, 0)) (sys_missing (s_class s) d) ++ d_deploy d) with (d_deploy dx).
    change (d_replace d) with (d_replace dx) at 1. change (d_nonce d) with (d_nonce dx) at 1.
    unfold n.
    rewrite (rg_class s dx I Vd (fun a => getd (class_dep s d) [a])).
    2:{ intros a c H H0. apply find_app_none in H. destruct H as [_ H].
        unfold getd, class_dep. rewrite get_fold_put. rewrite H. rewrite H0. auto. }
    rewrite (rg_nonce s dx I Vd (fun a => getd (nonce_dep s d) [a])).
    2:{ intros a c H H0. apply find_app_none in H. destruct H as [_ H].
        unfold getd, nonce_dep. rewrite get_fold_put. rewrite H. rewrite H0. auto. }
    rewrite (rn_dh s dx I Vd).
    fold n. rewrite ro_lstore, ro_lnonce, ro_lclass.
    destruct s; auto.
  Qed.
End RevertOld.

(* ---------- reads of the legacy backend ---------- *)
Lemma scan_up_snoc : forall {V} (g : N -> option V) k b,
  scan_up g b (S k) = match scan_up g b k with Some v => Some v | None => g (b + N.of_nat k) end.
Proof.
  induction k; intros.
  - simpl. replace (b + 0) with b by lia. destruct (g b); auto.
  - change (scan_up g b (S (S k))) with (match g b with Some v => Some v | None => scan_up g (b + 1) (S k) end).
    rewrite IHk. simpl scan_up at 2. destruct (g b); auto.
    replace (b + 1 + N.of_nat k) with (b + N.of_nat (S k)) by lia. auto.
Qed.

Lemma valueAt_old_head : forall (m : smap N) p n, sorted m -> below m (n + 1) -> valueAt_old (sub m p) n = None.
Proof.
  intros. rewrite (old_scan m p n (n + 1)); auto.
  - replace (N.to_nat (n + 1 - (n + 1))) with 0%nat by lia. auto.
  - unfold log_below. intros. eapply H0; eauto.
Qed.

Lemma old_step : forall (l l' : smap N) p m n, sorted l -> sorted l' -> below l n -> below l' (n + 1) -> m < n ->
  (forall b, b < n -> get l' (p ++ [b]) = get l (p ++ [b])) ->
  valueAt_old (sub l' p) m = match valueAt_old (sub l p) m with Some v => Some v | None => get l' (p ++ [n]) end.
Proof.
  intros. rewrite (old_scan l' p m (n + 1)); auto; [| unfold log_below; intros; eapply H2; eauto].
  rewrite (old_scan l p m n); auto; [| unfold log_below; intros; eapply H1; eauto].
  replace (N.to_nat (n + 1 - (m + 1))) with (S (N.to_nat (n - (m + 1)))) by lia.
  rewrite scan_up_snoc. replace (m + 1 + N.of_nat (N.to_nat (n - (m + 1)))) with n by lia.
  rewrite (scan_up_ext (fun b => get l' (p ++ [b])) (fun b => get l (p ++ [b]))); auto.
  intros. apply H4. lia.
Qed.

Lemma read_old_head : forall s a q n, Inv s -> Agree s a -> s_next s = n + 1 -> read_old s q n = lookup a q.
Proof.
  intros s a q n I Ag En. rewrite <- (read_head_ok s a q I Ag).
  assert (B1 := i_b1 _ I). assert (B2 := i_b2 _ I). assert (B3 := i_b3 _ I). rewrite En in *.
  destruct q; simpl.
  - rewrite (deployed_at_head s a0 n I En). rewrite valueAt_old_head; auto; [|apply (i_s8 _ I)].
    destruct (get (s_class s) [a0]); auto.
  - rewrite (deployed_at_head s a0 n I En). rewrite valueAt_old_head; auto; [|apply (i_s7 _ I)].
    destruct (get (s_class s) [a0]) eqn:E; auto.
    destruct (i_dom1 _ I _ E) as [Hn _]. rewrite Hn. auto.
  - rewrite (deployed_at_head s a0 n I En). rewrite valueAt_old_head; auto; [|apply (i_s6 _ I)].
    destruct (negb (getd (s_store s) [a0; k] =? 0)); auto. destruct (get (s_class s) [a0]); auto.
  - destruct (get (s_decl s) [h]) eqn:E; auto. apply (i_decl _ I) in E.
    destruct (n <? n0) eqn:E1; auto. lia.
Qed.

Lemma deployed_class : forall s x m, Inv s -> deployed_at s x m = true -> exists c, get (s_class s) [x] = Some c.
Proof.
  intros. unfold deployed_at in H0. destruct (get (s_class s) [x]) eqn:E; eauto.
  destruct (i_dom1 _ H _ E) as [_ Hd]. rewrite Hd in H0. discriminate.
Qed.

Lemma read_old_stable : forall s d q m, Inv s -> VS s d -> m < s_next s ->
  read_old (store_old s d) q m = read_old s q m.
Proof.
  intros s d q m I V Hm. pose proof (vs_valid _ _ V) as Vd.
  pose proof (Inv_store_old s d I V) as I'. rewrite store_old_eq in *.
  match goal with |- read_old ?S' _ _ = _ =>
    assert (DA : forall x, deployed_at S' x m = deployed_at s x m) end.
  { intros. unfold deployed_at at 1. simpl. apply (deployed_at_stable s (with_sys (s_class s) d) m); auto. }
  destruct q; simpl read_old; cbn [s_class s_nonce s_store s_decl s_lstore s_lnonce s_lclass].
  - rewrite DA. destruct (deployed_at s a m) eqn:Ed; auto.
    destruct (deployed_class s a m I Ed) as [c Hc].
    assert (F2x : find (fun e => keqb [a] [fst e]) (sys_new (s_class s) d ++ d_deploy d) = None).
    { destruct (find _ (sys_new (s_class s) d ++ d_deploy d)) eqn:F; auto. apply find_key_some in F. destruct F as [K Hin]. inversion K; subst.
      rewrite (v_deploy _ _ Vd _ Hin) in Hc. discriminate. }
    assert (F2 : find (fun e => keqb [a] [fst e]) (d_deploy d) = None) by (apply find_app_none in F2x; tauto).
    rewrite (old_step (s_lclass s) (lclass_old s d) [a] m (s_next s)); auto;
      [| apply (i_s8 _ I) | apply (i_s8 _ I') | apply (i_b3 _ I) | apply (i_b3 _ I') |
         intros; unfold lclass_old; simpl; rewrite get_lput1; destruct (b =? s_next s) eqn:E; auto; lia].
    destruct (valueAt_old (sub (s_lclass s) [a]) m); auto.
    unfold lclass_old. simpl. rewrite get_lput1, N.eqb_refl. rewrite get_upd_class. cbn [with_sys d_deploy d_replace]. rewrite F2x.
    destruct (find (fun e => keqb [a] [fst e]) (d_replace d)) eqn:F1.
    + apply find_key_some in F1. destruct F1 as [K _]. inversion K. rewrite <- H0.
      unfold getd, class_dep. rewrite get_fold_put, F2, Hc. auto.
    + pose proof (below_none _ _ [a] (s_next s) (i_b3 _ I)) as BN. simpl in BN. rewrite BN by lia. rewrite Hc. auto.
  - rewrite DA. destruct (deployed_at s a m) eqn:Ed; auto.
    destruct (deployed_class s a m I Ed) as [c Hc].
    assert (Hc' : get (s_class s) [a] <> None) by congruence.
    destruct (i_dom2 _ I _ Hc') as [Hn _]. destruct (get (s_nonce s) [a]) eqn:En; [|contradiction].
    assert (F2x : find (fun e => keqb [a] [fst e]) (sys_new (s_class s) d ++ d_deploy d) = None).
    { destruct (find _ (sys_new (s_class s) d ++ d_deploy d)) eqn:F; auto. apply find_key_some in F. destruct F as [K Hin]. inversion K; subst.
      rewrite (v_deploy _ _ Vd _ Hin) in Hc. discriminate. }
    assert (F2 : find (fun e => keqb [a] [fst e]) (d_deploy d) = None) by (apply find_app_none in F2x; tauto).
    rewrite (old_step (s_lnonce s) (lnonce_old s d) [a] m (s_next s)); auto;
      [| apply (i_s7 _ I) | apply (i_s7 _ I') | apply (i_b2 _ I) | apply (i_b2 _ I') |
         intros; unfold lnonce_old; simpl; rewrite get_lput1; destruct (b =? s_next s) eqn:E; auto; lia].
    destruct (valueAt_old (sub (s_lnonce s) [a]) m); auto.
    unfold lnonce_old. simpl. rewrite get_lput1, N.eqb_refl. rewrite get_upd_nonce. cbn [with_sys d_deploy d_nonce]. rewrite F2x.
    destruct (find (fun e => keqb [a] [fst e]) (d_nonce d)) eqn:F1.
    + apply find_key_some in F1. destruct F1 as [K _]. inversion K. rewrite <- H0.
      unfold getd, nonce_dep. rewrite get_fold_put, F2, En. auto.
    + pose proof (below_none _ _ [a] (s_next s) (i_b2 _ I)) as BN. simpl in BN. rewrite BN by lia. rewrite En. auto.
  - rewrite DA.
    rewrite (old_step (s_lstore s) (lstore_old s d) [a; k] m (s_next s)); auto;
      [| apply (i_s6 _ I) | apply (i_s6 _ I') | apply (i_b1 _ I) | apply (i_b1 _ I') |
         intros; unfold lstore_old; simpl; rewrite get_lput2; destruct (b =? s_next s) eqn:E; auto; lia].
    destruct (valueAt_old (sub (s_lstore s) [a; k]) m); auto.
    replace (match get (lstore_old s d) ([a; k] ++ [s_next s]) with
             | Some v => v | None => getd (upd_store (d_store d) (s_store s)) [a; k] end)
       with (getd (s_store s) [a; k]); auto.
    unfold lstore_old. simpl. rewrite get_lput2, N.eqb_refl.
    destruct (find (fun e => keqb [a; k] [fst (fst e); snd (fst e)]) (filter (fun e => negb (noop s e)) (d_store d))) eqn:F.
    + apply find_key_some in F. destruct F as [K _]. unfold skey. rewrite <- K. auto.
    + pose proof (below_none _ _ [a; k] (s_next s) (i_b1 _ I)) as BN. simpl in BN. rewrite BN by lia.
      unfold getd at 2. rewrite get_upd_store by apply (i_s4 _ I).
      destruct (find (fun e => keqb [a; k] (skey e)) (d_store d)) eqn:F1; auto.
      apply find_some in F1. destruct F1 as [Hin K].
      assert (Hn : noop s p = true).
      { destruct (noop s p) eqn:En; auto. exfalso.
        eapply find_none in F; [| apply filter_In; split; [eauto | rewrite En; auto]].
        unfold skey in K. simpl in F. congruence. }
      unfold noop in Hn. apply andb_true_iff in Hn. destruct Hn as [H1 H2]. rewrite H2.
      apply keqb_eq in K. rewrite <- K in H1. lia.
  - apply decl_stable; auto.
Qed.

