(* C03 — agreement of the head buckets with the abstract state, and the reads of the new backend. *)
From Coq Require Import List NArith Bool Lia ZifyN ZifyNat ZifyBool.
From V Require Import C03.Model C03.Proofs_map C03.Proofs_inv C03.Proofs_store C03.Proofs_new.
Import ListNotations.
Open Scope N_scope.

Record Agree (s : st) (a : astate) : Prop := mkAgree {
  ag_class : forall x, get (s_class s) [x] = option_map fst (a_exists a x);
  ag_nonce : forall x, get (s_nonce s) [x] = option_map snd (a_exists a x);
  ag_store : forall x k, getd (s_store s) [x; k] = a_slot a x k;
  ag_decl : forall h, get (s_decl s) [h] = a_decl a h;
  (* every non-zero slot of a system contract is among the slots the truth keeps track of *)
  ag_sysk : forall x k, is_sys x = true -> a_slot a x k <> 0 -> In (x, k) (a_sysk a)
}.

Lemma Agree_empty : Agree st_empty a_empty.
Proof.
  constructor; simpl; auto; intros; try congruence;
    unfold a_exists; simpl; destruct (is_sys x); auto.
Qed.

Lemma keqb2 : forall x k y z, keqb [x; k] [y; z] = (y =? x) && (z =? k).
Proof.
  intros. destruct ((y =? x) && (z =? k)) eqn:E.
  - apply andb_true_iff in E. destruct E. apply N.eqb_eq in H. apply N.eqb_eq in H0. subst. apply keqb_refl.
  - apply keqb_neq. intro K. inversion K; subst. rewrite !N.eqb_refl in E. discriminate.
Qed.

Lemma assoc_find : forall l x, assoc l x =
  match find (fun e => keqb [x] [fst e]) l with Some e => Some (snd e) | None => None end.
Proof. intros. unfold assoc. rewrite find_k1. auto. Qed.

Lemma assoc2_find : forall l x k, assoc2 l x k =
  match find (fun e => keqb [x; k] (skey e)) l with Some e => Some (snd e) | None => None end.
Proof.
  intros. unfold assoc2. rewrite (find_ext _ (fun e => keqb [x; k] (skey e))); auto.
  intros. unfold skey. rewrite keqb2. auto.
Qed.

Lemma mem_existsb : forall l h, mem l h = existsb (fun h' => keqb [h] [h']) l.
Proof.
  unfold mem. induction l; simpl; intros; auto. rewrite IHl. rewrite keqb1. rewrite (N.eqb_sym a h). auto.
Qed.

(* both backends write the same head buckets (under the guard no system contract is removed) *)
Definition same_head (s' s : st) (d : diff) : Prop :=
  s_class s' = upd_class (with_sys (s_class s) d) (s_class s) /\ s_nonce s' = upd_nonce (with_sys (s_class s) d) (s_nonce s) /\
  s_store s' = upd_store (d_store d) (s_store s) /\ s_decl s' = upd_decl (s_next s) d (s_decl s).

Lemma sys_exists_iff : forall a x, sys_exists a x = true <-> exists k, In (x, k) (a_sysk a) /\ a_slot a x k <> 0.
Proof.
  unfold sys_exists. intros. rewrite existsb_exists. split.
  - intros [[y k] [Hin E]]. simpl in E. apply andb_true_iff in E. destruct E as [E1 E2].
    apply N.eqb_eq in E1. subst. exists k. split; auto. apply negb_true_iff in E2. lia.
  - intros [k [Hin E]]. exists (x, k). split; auto. simpl. rewrite N.eqb_refl. simpl.
    apply negb_true_iff. lia.
Qed.

Lemma find_sys_new_none : forall cls d x, is_sys x = false -> find (fun e => keqb [x] [fst e]) (sys_new cls d) = None.
Proof.
  intros. destruct (find _ (sys_new cls d)) eqn:F; auto.
  apply find_key_some in F. destruct F as [K Hin]. inversion K; subst.
  apply in_sys_new in Hin. destruct Hin as [_ Hin]. apply in_sys_missing in Hin. destruct Hin as [Hs _]. congruence.
Qed.

Lemma Agree_store : forall s s' d a, Inv s -> VS s d -> Inv s' -> Agree s a -> same_head s' s d ->
  Agree s' (apply_diff a (s_next s) d).
Proof.
  intros s s' d a I V I' Ag [E1 [E2 [E3 E4]]]. pose proof (vs_valid _ _ V) as Vd.
  assert (ST : forall x k, getd (s_store s') [x; k] = a_slot (apply_diff a (s_next s) d) x k).
  { intros x k. rewrite E3. unfold getd. rewrite get_upd_store by apply (i_s4 _ I). simpl. rewrite assoc2_find.
    destruct (find (fun e => keqb [x; k] (skey e)) (d_store d)).
    - destruct (snd p =? 0) eqn:E; auto. lia.
    - apply (ag_store _ _ Ag). }
  assert (SK : forall x k, is_sys x = true -> a_slot (apply_diff a (s_next s) d) x k <> 0 ->
               In (x, k) (a_sysk (apply_diff a (s_next s) d))).
  { intros x k Hx Hv. simpl in *. apply in_or_app. rewrite assoc2_find in Hv.
    destruct (find (fun e => keqb [x; k] (skey e)) (d_store d)) eqn:F.
    - left. apply find_key_some in F. destruct F as [K Hin]. unfold skey in K. inversion K.
      apply in_map_iff. exists p. split; [destruct p as [[? ?] ?]; simpl in *; congruence|].
      apply filter_In. split; auto. congruence.
    - right. apply (ag_sysk _ _ Ag); auto. }
  (* a system contract has a record after the block iff the truth says it exists *)
  assert (SX : forall x, is_sys x = true ->
               (get (s_class s') [x] <> None <-> sys_exists (apply_diff a (s_next s) d) x = true)).
  { intros x Hx. split.
    - intros Hc. pose proof (i_sys _ I' x Hx Hc) as Hh. apply has_store_iff in Hh; [|apply (i_s4 _ I')].
      destruct Hh as [k [v [G P]]]. destruct (i_store _ I' _ _ G) as [Hv [y [sl [K _]]]]. subst.
      rewrite has_prefix_2 in P. apply N.eqb_eq in P. subst.
      apply sys_exists_iff. exists sl.
      assert (a_slot (apply_diff a (s_next s) d) y sl <> 0).
      { rewrite <- ST. unfold getd. rewrite G. auto. }
      split; auto.
    - intros Hs. apply sys_exists_iff in Hs. destruct Hs as [k [_ Hv]]. rewrite <- ST in Hv.
      unfold getd in Hv. destruct (get (s_store s') [x; k]) eqn:G; [|congruence].
      destruct (i_store _ I' _ _ G) as [_ [y [sl [K Hc]]]]. inversion K; subst. auto. }
  (* the record of a system contract holds class hash 0 and nonce 0 *)
  assert (SZ : forall x, is_sys x = true -> get (s_class s') [x] <> None ->
               get (s_class s') [x] = Some 0 /\ get (s_nonce s') [x] = Some 0).
  { intros x Hx Hc. rewrite E1, E2 in *. rewrite get_upd_class in *. rewrite get_upd_nonce.
    cbn [with_sys d_deploy d_replace d_nonce] in *.
    destruct (find (fun e => keqb [x] [fst e]) (d_replace d)) eqn:F1.
    { apply find_key_some in F1. destruct F1 as [K Hin]. inversion K; subst. rewrite (vs_rep _ _ V _ Hin) in Hx. discriminate. }
    destruct (find (fun e => keqb [x] [fst e]) (d_nonce d)) eqn:F3.
    { apply find_key_some in F3. destruct F3 as [K Hin]. inversion K; subst. rewrite (vs_non _ _ V _ Hin) in Hx. discriminate. }
    rewrite find_app in *.
    destruct (find (fun e => keqb [x] [fst e]) (sys_new (s_class s) d)) eqn:F2.
    { apply find_key_some in F2. destruct F2 as [K Hin]. apply in_sys_new in Hin. destruct Hin as [Z _]. rewrite Z. auto. }
    destruct (find (fun e => keqb [x] [fst e]) (d_deploy d)) eqn:F4.
    { apply find_key_some in F4. destruct F4 as [K Hin]. inversion K; subst. rewrite (vs_dep _ _ V _ Hin) in Hx. discriminate. }
    pose proof (ag_class _ _ Ag x) as G1. pose proof (ag_nonce _ _ Ag x) as G2. unfold a_exists in G1, G2.
    rewrite Hx in G1, G2. destruct (sys_exists a x); simpl in *; auto. contradiction. }
  constructor; auto.
  - intros x. unfold a_exists. destruct (is_sys x) eqn:Hx.
    + destruct (sys_exists (apply_diff a (s_next s) d) x) eqn:Hs.
      * apply SX in Hs; auto. apply SZ in Hs; auto. destruct Hs as [Hs _]. rewrite Hs. auto.
      * destruct (get (s_class s') [x]) eqn:G; auto.
        assert (get (s_class s') [x] <> None) by congruence. apply SX in H; auto. congruence.
    + simpl. rewrite E1, get_upd_class, !assoc_find. cbn [with_sys d_deploy d_replace]. rewrite find_app.
      rewrite (find_sys_new_none _ _ _ Hx).
      pose proof (ag_class _ _ Ag x) as G. unfold a_exists in G. rewrite Hx in G.
      destruct (find (fun e => keqb [x] [fst e]) (d_replace d)) eqn:F1.
      * apply find_key_some in F1. destruct F1 as [K Hin]. inversion K; subst.
        pose proof (v_replace _ _ Vd _ Hin) as Hc.
        destruct (find (fun e => keqb [fst p] [fst e]) (d_deploy d)) eqn:F2.
        -- simpl. auto.
        -- rewrite G in Hc. destruct (a_contract a (fst p)) as [[c nn]|]; simpl; auto. contradiction.
      * destruct (find (fun e => keqb [x] [fst e]) (d_deploy d)) eqn:F2; simpl; auto.
        rewrite G. destruct (a_contract a x) as [[c nn]|]; simpl; auto.
  - intros x. unfold a_exists. destruct (is_sys x) eqn:Hx.
    + destruct (sys_exists (apply_diff a (s_next s) d) x) eqn:Hs.
      * apply SX in Hs; auto. apply SZ in Hs; auto. destruct Hs as [_ Hs]. rewrite Hs. auto.
      * destruct (get (s_nonce s') [x]) eqn:G; auto.
        destruct (get (s_class s') [x]) eqn:Gc.
        -- assert (get (s_class s') [x] <> None) by congruence. apply SX in H; auto. congruence.
        -- destruct (i_dom1 _ I' _ Gc) as [Hn _]. congruence.
    + simpl. rewrite E2, get_upd_nonce, !assoc_find. cbn [with_sys d_deploy d_nonce]. rewrite find_app.
      rewrite (find_sys_new_none _ _ _ Hx).
      pose proof (ag_class _ _ Ag x) as G. pose proof (ag_nonce _ _ Ag x) as G2. unfold a_exists in G, G2. rewrite Hx in G, G2.
      destruct (find (fun e => keqb [x] [fst e]) (d_nonce d)) eqn:F1.
      * apply find_key_some in F1. destruct F1 as [K Hin]. inversion K; subst.
        destruct (find (fun e => keqb [fst p] [fst e]) (d_deploy d)) eqn:F2; simpl; auto.
        destruct (v_nonce _ _ Vd _ Hin) as [Hc | Hd].
        -- rewrite G in Hc. destruct (a_contract a (fst p)) as [[c nn]|]; simpl; auto. contradiction.
        -- cbn [with_sys d_deploy] in Hd. rewrite inkeys_app in Hd. apply orb_true_iff in Hd. destruct Hd as [Hd | Hd].
           ++ apply inkeys_sys_new in Hd. apply in_sys_missing in Hd. destruct Hd as [Hd _]. congruence.
           ++ apply inkeys_find in Hd. destruct Hd. congruence.
      * destruct (find (fun e => keqb [x] [fst e]) (d_deploy d)) eqn:F2; simpl; auto.
        rewrite G2. destruct (a_contract a x) as [[c nn]|]; simpl; auto.
  - intros h. rewrite E4, get_upd_decl. rewrite (ag_decl _ _ Ag). simpl. rewrite mem_existsb. auto.
Qed.

Lemma read_head_ok : forall s a q, Inv s -> Agree s a -> read_head s q = lookup a q.
Proof.
  intros s a q I Ag. destruct q; simpl.
  - rewrite (ag_class _ _ Ag). destruct (a_exists a a0) as [[c nn]|]; auto.
  - rewrite (ag_nonce _ _ Ag). destruct (a_exists a a0) as [[c nn]|]; auto.
  - rewrite (ag_store _ _ Ag). rewrite (ag_class _ _ Ag).
    destruct (negb (a_slot a a0 k =? 0)) eqn:E.
    + pose proof (ag_store _ _ Ag a0 k) as G. unfold getd in G.
      destruct (get (s_store s) [a0; k]) eqn:E1; [|lia].
      destruct (i_store _ I _ _ E1) as [_ [x [sl [K Hc]]]]. inversion K; subst.
      rewrite (ag_class _ _ Ag) in Hc. destruct (a_exists a x) as [[c nn]|]; auto. contradiction.
    + destruct (a_exists a a0) as [[c nn]|]; simpl; auto. f_equal. lia.
  - rewrite (ag_decl _ _ Ag). destruct (a_decl a h); auto.
Qed.

(* ---------- new backend ---------- *)
Lemma deployed_at_head : forall s x n, Inv s -> s_next s = n + 1 ->
  deployed_at s x n = match get (s_class s) [x] with Some _ => true | None => false end.
Proof.
  intros. unfold deployed_at. destruct (get (s_class s) [x]) eqn:E.
  - assert (get (s_class s) [x] <> None) by congruence.
    destruct (i_dom2 _ H _ H1) as [_ Hd]. destruct (get (s_dh s) [x]) eqn:E1; [|contradiction].
    apply (i_dh _ H) in E1. lia.
  - destruct (i_dom1 _ H _ E) as [_ Hd]. rewrite Hd. auto.
Qed.

Lemma rev_val_succ : forall m p n, rev_val_new m p (n + 1) = hist_new m p n.
Proof. intros. unfold rev_val_new. destruct (n + 1 =? 0) eqn:E; [lia|]. f_equal. lia. Qed.

Lemma read_new_head : forall s a q n, Inv s -> Hist_new s -> Agree s a -> s_next s = n + 1 ->
  read_new s q n = lookup a q.
Proof.
  intros s a q n I Hs Ag En. destruct q; simpl.
  - rewrite (deployed_at_head s a0 n I En). pose proof (ag_class _ _ Ag a0) as G.
    destruct (get (s_class s) [a0]) eqn:E.
    + rewrite <- rev_val_succ. rewrite <- En. rewrite (h_class _ Hs _ _ E).
      destruct (a_exists a a0) as [[c nn]|]; simpl in G; inversion G; auto.
    + destruct (a_exists a a0) as [[c nn]|]; simpl in G; inversion G; auto.
  - rewrite (deployed_at_head s a0 n I En). pose proof (ag_class _ _ Ag a0) as G. pose proof (ag_nonce _ _ Ag a0) as G2.
    destruct (get (s_class s) [a0]) eqn:E.
    + assert (get (s_class s) [a0] <> None) by congruence.
      destruct (i_dom2 _ I _ H) as [Hn _]. destruct (get (s_nonce s) [a0]) eqn:E2; [|contradiction].
      rewrite <- rev_val_succ. rewrite <- En. rewrite (h_nonce _ Hs _ _ E2).
      destruct (a_exists a a0) as [[c nn]|]; simpl in G2; inversion G2; auto.
    + destruct (a_exists a a0) as [[c nn]|]; simpl in G; inversion G; auto.
  - rewrite (deployed_at_head s a0 n I En). pose proof (ag_class _ _ Ag a0) as G.
    rewrite <- rev_val_succ. rewrite <- En. rewrite (h_store _ Hs). rewrite (ag_store _ _ Ag).
    destruct (get (s_class s) [a0]) eqn:E; destruct (a_exists a a0) as [[c nn]|]; simpl in G; inversion G; auto.
  - rewrite (ag_decl _ _ Ag). destruct (a_decl a h) eqn:E; auto.
    rewrite <- (ag_decl _ _ Ag) in E. apply (i_decl _ I) in E. destruct (n <? n0) eqn:E1; auto. lia.
Qed.

Lemma deployed_at_stable : forall s d m, Inv s -> Valid s d -> m < s_next s ->
  forall x dh', dh' = upd_dh (s_next s) d (s_dh s) ->
  (match get dh' [x] with Some h => h <=? m | None => false end) = deployed_at s x m.
Proof.
  intros. subst. unfold deployed_at. rewrite get_upd_dh.
  destruct (find (fun e => keqb [x] [fst e]) (d_deploy d)) eqn:F; auto.
  apply find_key_some in F. destruct F as [K Hin]. inversion K; subst.
  destruct (i_dom1 _ H _ (v_deploy _ _ H0 _ Hin)) as [_ Hd]. rewrite Hd.
  destruct (s_next s <=? m) eqn:E; auto. lia.
Qed.

Lemma decl_stable : forall s d m h, Inv s -> m < s_next s ->
  match get (upd_decl (s_next s) d (s_decl s)) [h] with
  | Some a => if m <? a then NotFound else Found a
  | None => NotFound
  end =
  match get (s_decl s) [h] with
  | Some a => if m <? a then NotFound else Found a
  | None => NotFound
  end.
Proof.
  intros. rewrite get_upd_decl. destruct (get (s_decl s) [h]); auto.
  destruct (existsb _ (d_reg d)); auto. destruct (m <? s_next s) eqn:E; auto. lia.
Qed.

Lemma read_new_stable : forall s d q m, Inv s -> VS s d -> m < s_next s ->
  read_new (store_new s d) q m = read_new s q m.
Proof.
  intros s d q m I V Hm. pose proof (vs_valid _ _ V) as Vd.
  pose proof (Inv_store_new s d I V) as I'. rewrite store_new_eq in * by auto. cbv zeta in *.
  match goal with |- read_new ?S' _ _ = _ =>
    assert (DA : forall x, deployed_at S' x m = deployed_at s x m) end.
  { intros. unfold deployed_at at 1. simpl. apply (deployed_at_stable s (with_sys (s_class s) d) m); auto. }
  destruct q; simpl read_new.
  - rewrite DA. destruct (deployed_at s a m); auto. f_equal.
    apply hist_stable; [apply (i_s8 _ I) | apply (i_s8 _ I') |].
    intros. unfold lclass_new. simpl. rewrite !get_lput1. destruct (b =? s_next s) eqn:E; auto. lia.
  - rewrite DA. destruct (deployed_at s a m); auto. f_equal.
    apply hist_stable; [apply (i_s7 _ I) | apply (i_s7 _ I') |].
    intros. unfold lnonce_new. simpl. rewrite !get_lput1. destruct (b =? s_next s) eqn:E; auto. lia.
  - rewrite DA. destruct (deployed_at s a m); auto. f_equal.
    apply hist_stable; [apply (i_s6 _ I) | apply (i_s6 _ I') |].
    intros. unfold lstore_new. simpl. rewrite !get_lput2. destruct (b =? s_next s) eqn:E; auto. lia.
  - simpl. apply decl_stable; auto.
Qed.

(* ---------- chains ---------- *)
Lemma truth_at_old : forall d older m, m < blen older -> truth_at (d :: older) m = truth_at older m.
Proof.
  intros. unfold truth_at, upto, blen in *. simpl length.
  replace (S (length older) - S (N.to_nat m))%nat with (S (length older - S (N.to_nat m)))%nat by lia.
  simpl. auto.
Qed.

Lemma truth_at_head : forall d older, truth_at (d :: older) (blen older) = truth (d :: older).
Proof.
  intros. unfold truth_at, upto, blen. rewrite Nat2N.id.
  replace (length (d :: older) - S (length older))%nat with 0%nat by (simpl; lia). auto.
Qed.
