(* C03 — Update preserves the invariant (head buckets are shared by both backends). *)
From Coq Require Import List NArith Bool Lia ZifyN ZifyNat ZifyBool.
From V Require Import C03.Model C03.Proofs_map C03.Proofs_inv.
Import ListNotations.
Open Scope N_scope.

Lemma inkeys_find : forall {B} (l : list (N * B)) a,
  inkeys l a = true -> exists e, find (fun e => keqb [a] [fst e]) l = Some e.
Proof.
  intros. rewrite find_k1. rewrite find_inkeys in H. destruct (find _ l); eauto. discriminate.
Qed.

Lemma find_inkeys_none : forall {B} (l : list (N * B)) a,
  find (fun e => keqb [a] [fst e]) l = None -> inkeys l a = false.
Proof. intros. rewrite find_k1 in H. rewrite find_inkeys. rewrite H. auto. Qed.

Lemma upd_class_mono : forall d m a,
  get m [a] <> None \/ inkeys (d_deploy d) a = true -> get (upd_class d m) [a] <> None.
Proof.
  intros. rewrite get_upd_class. destruct (find _ (d_replace d)); [discriminate|].
  destruct H.
  - destruct (find _ (d_deploy d)); [discriminate | auto].
  - apply inkeys_find in H. destruct H. rewrite H. discriminate.
Qed.

Lemma Inv_store_gen : forall s d ls ln lc, Inv s -> Valid s d ->
  sorted ls -> sorted ln -> sorted lc ->
  below ls (s_next s + 1) -> below ln (s_next s + 1) -> below lc (s_next s + 1) ->
  (forall a, get (upd_class d (s_class s)) [a] = None -> nolog ls ln lc a) ->
  (forall a, is_sys a = true -> get (upd_class d (s_class s)) [a] <> None ->
             has_store (upd_store (d_store d) (s_store s)) a = true) ->
  Inv (mkSt (s_next s + 1) (upd_class d (s_class s)) (upd_nonce d (s_nonce s)) (upd_dh (s_next s) d (s_dh s))
            (upd_store (d_store d) (s_store s)) (upd_decl (s_next s) d (s_decl s)) ls ln lc).
Proof.
  intros s d ls ln lc I Vd S1 S2 S3 B1 B2 B3 NL SY. destruct I, Vd.
  constructor; simpl; auto.
  - unfold upd_class. repeat apply sorted_fold_put. auto.
  - unfold upd_nonce. repeat apply sorted_fold_put. auto.
  - unfold upd_dh. apply sorted_fold_put. auto.
  - apply sorted_upd_store. auto.
  - apply sorted_upd_decl. auto.
  - intros. lia.
  - (* dom1 *)
    intros a H. rewrite get_upd_class in H.
    destruct (find (fun e => keqb [a] [fst e]) (d_replace d)) eqn:F1; [discriminate|].
    destruct (find (fun e => keqb [a] [fst e]) (d_deploy d)) eqn:F2; [discriminate|].
    destruct (i_dom1 a H). rewrite get_upd_nonce, get_upd_dh, F2.
    destruct (find (fun e => keqb [a] [fst e]) (d_nonce d)) eqn:F3; auto.
    apply find_key_some in F3. destruct F3 as [K Hin]. inversion K; subst.
    destruct (v_nonce _ Hin); [contradiction|]. apply find_inkeys_none in F2. congruence.
  - (* dom2 *)
    intros a H. rewrite get_upd_class in H. rewrite get_upd_nonce, get_upd_dh.
    destruct (find (fun e => keqb [a] [fst e]) (d_deploy d)) eqn:F2.
    + split; [|discriminate]. destruct (find _ (d_nonce d)); discriminate.
    + assert (get (s_class s) [a] <> None).
      { destruct (find (fun e => keqb [a] [fst e]) (d_replace d)) eqn:F1; auto.
        apply find_key_some in F1. destruct F1 as [K Hin]. inversion K; subst. auto. }
      destruct (i_dom2 a H0). split; auto. destruct (find _ (d_nonce d)); [discriminate | auto].
  - (* store *)
    intros k v H. rewrite get_upd_store in H by auto.
    destruct (find (fun e => keqb k (skey e)) (d_store d)) eqn:F.
    + apply find_key_some in F. destruct F as [K Hin]. subst.
      destruct (snd p =? 0) eqn:E; [discriminate|]. inversion H; subst. split; [lia|].
      exists (fst (fst p)), (snd (fst p)). split; auto. apply upd_class_mono. auto.
    + destruct (i_store k v H) as [? [a [sl [? ?]]]]. split; auto. exists a, sl. split; auto.
      apply upd_class_mono. auto.
  - unfold vals_below. intros k v H. rewrite get_upd_dh in H.
    destruct (find _ (d_deploy d)).
    + inversion H. lia.
    + apply i_dh in H. lia.
  - unfold vals_below. intros k v H. rewrite get_upd_decl in H.
    destruct (get (s_decl s) k) eqn:E.
    + inversion H; subst. apply i_decl in E. lia.
    + destruct (existsb _ (d_reg d)); inversion H. lia.
Qed.

(* keys of history entries written for block n are p ++ [n] *)
Lemma below_mono : forall m n n', n <= n' -> below m n -> below m n'.
Proof. unfold below. intros. apply H0 in H1. lia. Qed.

Lemma below_fold_put : forall {A} (P : A -> key) (W : A -> N) n B l m, n < B ->
  below m B -> below (foldd (fun e m => put (P e ++ [n]) (W e) m) l m) B.
Proof.
  unfold below. intros. rewrite get_fold_put in H1.
  destruct (find _ l) eqn:F.
  - apply find_key_some in F. destruct F as [K _]. apply app_inj_tail in K. destruct K. lia.
  - apply H0 in H1. lia.
Qed.

Lemma keqb_snoc : forall p q n, keqb (p ++ [n]) (q ++ [n]) = keqb p q.
Proof.
  intros. destruct (keqb p q) eqn:E.
  - apply keqb_eq in E. subst. apply keqb_refl.
  - apply keqb_neq. intro. apply app_inj_tail in H. destruct H. subst. rewrite keqb_refl in E. discriminate.
Qed.

Lemma get_log_put : forall {A} (P : A -> key) (W : A -> N) n l m p b,
  get (foldd (fun e m => put (P e ++ [n]) (W e) m) l m) (p ++ [b]) =
  if b =? n then match find (fun e => keqb p (P e)) l with Some e => Some (W e) | None => get m (p ++ [n]) end
  else get m (p ++ [b]).
Proof.
  intros. rewrite get_fold_put. destruct (b =? n) eqn:E.
  - apply N.eqb_eq in E. subst. rewrite (find_ext _ (fun e => keqb p (P e))); auto.
    intros. apply keqb_snoc.
  - replace (find _ l) with (@None A); auto. symmetry. apply find_none_iff. intros.
    apply keqb_neq. intro. apply app_inj_tail in H0. destruct H0. subst. rewrite N.eqb_refl in E. discriminate.
Qed.

Lemma get_log_del : forall {A} (P : A -> key) n l (m : smap N) p b, sorted m ->
  get (foldd (fun e m => del (P e ++ [n]) m) l m) (p ++ [b]) =
  if b =? n then match find (fun e => keqb p (P e)) l with Some e => None | None => get m (p ++ [n]) end
  else get m (p ++ [b]).
Proof.
  intros. rewrite get_fold_del by auto. destruct (b =? n) eqn:E.
  - apply N.eqb_eq in E. subst. rewrite (find_ext _ (fun e => keqb p (P e))); auto.
    intros. apply keqb_snoc.
  - replace (find _ l) with (@None A); auto. symmetry. apply find_none_iff. intros.
    apply keqb_neq. intro. apply app_inj_tail in H1. destruct H1. subst. rewrite N.eqb_refl in E. discriminate.
Qed.

(* instances of the log lemmas in the syntactic shape of the model *)
Lemma get_lput1 : forall {A} (F : A -> N) (W : A -> N) n l m a b,
  get (foldd (fun e m => put [F e; n] (W e) m) l m) [a; b] =
  if b =? n then match find (fun e => keqb [a] [F e]) l with Some e => Some (W e) | None => get m [a; n] end
  else get m [a; b].
Proof. intros. exact (get_log_put (fun e => [F e]) W n l m [a] b). Qed.

Lemma get_lput2 : forall {A} (F G : A -> N) (W : A -> N) n l m a k b,
  get (foldd (fun e m => put [F e; G e; n] (W e) m) l m) [a; k; b] =
  if b =? n then match find (fun e => keqb [a; k] [F e; G e]) l with Some e => Some (W e) | None => get m [a; k; n] end
  else get m [a; k; b].
Proof. intros. exact (get_log_put (fun e => [F e; G e]) W n l m [a; k] b). Qed.

Lemma get_ldel1 : forall {A} (F : A -> N) n l (m : smap N) a b, sorted m ->
  get (foldd (fun e m => del [F e; n] m) l m) [a; b] =
  if b =? n then match find (fun e => keqb [a] [F e]) l with Some e => None | None => get m [a; n] end
  else get m [a; b].
Proof. intros. exact (get_log_del (fun e => [F e]) n l m [a] b H). Qed.

Lemma upd_class_none : forall d m a, get (upd_class d m) [a] = None ->
  find (fun e => keqb [a] [fst e]) (d_replace d) = None /\ find (fun e => keqb [a] [fst e]) (d_deploy d) = None /\ get m [a] = None.
Proof.
  intros. rewrite get_upd_class in H. destruct (find _ (d_replace d)); [discriminate|].
  destruct (find _ (d_deploy d)); [discriminate|]. auto.
Qed.

Lemma keqb2_fst : forall a k x y, keqb [a; k] [x; y] = true -> a = x.
Proof. intros. apply keqb_eq in H. inversion H. auto. Qed.

(* ---------- the system-contract steps under the guard ---------- *)
Lemma find_app_none : forall {A} (p : A -> bool) l1 l2, find p (l1 ++ l2) = None -> find p l1 = None /\ find p l2 = None.
Proof. intros. rewrite find_app in H. destruct (find p l1); [discriminate | auto]. Qed.

(* writes that do not name address a leave its storage as it is *)
Lemma has_store_untouched : forall d m a, sorted m -> touched d a = false ->
  has_store m a = true -> has_store (upd_store (d_store d) m) a = true.
Proof.
  intros d m a S T H. apply has_store_iff in H; auto. destruct H as [k [v [G P]]].
  apply has_store_iff; [apply sorted_upd_store; auto|]. exists k, v. split; auto.
  rewrite get_upd_store by auto.
  destruct (find (fun e => keqb k (skey e)) (d_store d)) eqn:F; auto.
  apply find_key_some in F. destruct F as [K Hin]. subst. unfold skey in P. rewrite has_prefix_2 in P.
  apply N.eqb_eq in P. subst. rewrite (touched_in _ _ Hin) in T. discriminate.
Qed.

(* a system contract that exists after the block has a non-empty storage (under the guard) *)
Lemma sys_after : forall s d a, Inv s -> VS s d -> is_sys a = true ->
  get (upd_class (with_sys (s_class s) d) (s_class s)) [a] <> None ->
  has_store (upd_store (d_store d) (s_store s)) a = true.
Proof.
  intros s d a I V Ha Hc. destruct (touched d a) eqn:T.
  - apply (vs_guard _ _ V); auto.
  - apply has_store_untouched; auto; [apply (i_s4 _ I)|]. apply (i_sys _ I); auto.
    rewrite get_upd_class in Hc. cbn [with_sys d_deploy d_replace] in Hc.
    destruct (find (fun e => keqb [a] [fst e]) (d_replace d)) eqn:F1.
    + apply find_key_some in F1. destruct F1 as [K Hin]. inversion K; subst.
      apply (v_replace _ _ (vs_valid _ _ V)). auto.
    + rewrite find_app in Hc.
      destruct (find (fun e => keqb [a] [fst e]) (sys_new (s_class s) d)) eqn:F2.
      * apply find_key_some in F2. destruct F2 as [K Hin]. inversion K; subst.
        apply in_sys_new in Hin. destruct Hin as [_ Hin]. apply in_sys_missing in Hin. destruct Hin as [_ [Ht _]]. congruence.
      * destruct (find (fun e => keqb [a] [fst e]) (d_deploy d)) eqn:F3; auto.
        apply find_key_some in F3. destruct F3 as [K Hin]. inversion K; subst.
        rewrite (vs_dep _ _ V _ Hin) in Ha. discriminate.
Qed.

(* commit() removes nothing *)
Lemma sys_gone_nil : forall s d, VS s d ->
  filter (fun a => touched d a && negb (has_store (upd_store (d_store d) (s_store s)) a)) sys_addrs = [].
Proof.
  intros. apply filter_nil. intros a Ha. apply is_sys_in in Ha.
  destruct (touched d a) eqn:T; auto. rewrite (vs_guard _ _ H a Ha T). auto.
Qed.

Definition lstore_new (s : st) (d : diff) : smap N :=
  foldd (fun e m => put [fst (fst e); snd (fst e); s_next s] (snd e) m) (d_store d) (s_lstore s).
Definition lnonce_new (s : st) (d : diff) : smap N :=
  foldd (fun e m => put [fst e; s_next s] (snd e) m) (d_nonce d) (s_lnonce s).
Definition lclass_new (s : st) (d : diff) : smap N :=
  foldd (fun e m => put [fst e; s_next s] (snd e) m) (d_deploy d)
    (foldd (fun e m => put [fst e; s_next s] (snd e) m) (d_replace d) (s_lclass s)).

Lemma store_new_eq : forall s d, VS s d -> store_new s d =
  let dx := with_sys (s_class s) d in
  mkSt (s_next s + 1) (upd_class dx (s_class s)) (upd_nonce dx (s_nonce s)) (upd_dh (s_next s) dx (s_dh s))
       (upd_store (d_store d) (s_store s)) (upd_decl (s_next s) d (s_decl s))
       (lstore_new s d) (lnonce_new s d) (lclass_new s d).
Proof. intros. unfold store_new. rewrite (sys_gone_nil s d H). reflexivity. Qed.

(* the history entries a block writes never concern an address that does not exist after it *)
Lemma nolog_after : forall s d a, Inv s -> VS s d ->
  get (upd_class (with_sys (s_class s) d) (s_class s)) [a] = None ->
  find (fun e => keqb [a] [fst e]) (d_replace d) = None /\ find (fun e => keqb [a] [fst e]) (d_deploy d) = None /\
  find (fun e => keqb [a] [fst e]) (d_nonce d) = None /\
  (forall k, find (fun e => keqb [a; k] [fst (fst e); snd (fst e)]) (d_store d) = None) /\
  nolog (s_lstore s) (s_lnonce s) (s_lclass s) a.
Proof.
  intros s d a I V Ha. apply upd_class_none in Ha. cbn [with_sys d_deploy d_replace] in Ha.
  destruct Ha as [F1 [F2 Hc]]. pose proof F2 as F2'. apply find_app_none in F2. destruct F2 as [F2a F2b].
  assert (ND : inkeys (d_deploy (with_sys (s_class s) d)) a = false) by (apply find_inkeys_none; auto).
  split; auto. split; auto. split; [|split].
  - destruct (find (fun e => keqb [a] [fst e]) (d_nonce d)) eqn:F; auto.
    apply find_key_some in F. destruct F as [K Hin]. inversion K; subst.
    destruct (v_nonce _ _ (vs_valid _ _ V) _ Hin); [contradiction | congruence].
  - intros k. destruct (find _ (d_store d)) eqn:F; auto.
    apply find_some in F. destruct F as [Hin K]. apply keqb2_fst in K. subst.
    destruct (v_store _ _ (vs_valid _ _ V) _ Hin); [contradiction | congruence].
  - apply (i_nolog _ I); auto.
Qed.

Lemma Inv_store_new : forall s d, Inv s -> VS s d -> Inv (store_new s d).
Proof.
  intros s d H V. rewrite store_new_eq by auto. cbv zeta. pose proof H as I. destruct I.
  apply (Inv_store_gen s (with_sys (s_class s) d)); auto.
  - apply (vs_valid _ _ V).
  - apply sorted_fold_put; auto.
  - apply sorted_fold_put; auto.
  - repeat apply sorted_fold_put; auto.
  - apply (below_fold_put (fun e => [fst (fst e); snd (fst e)])); [lia|]. eapply below_mono; [|eauto]. lia.
  - apply (below_fold_put (fun e => [fst e])); [lia|]. eapply below_mono; [|eauto]. lia.
  - apply (below_fold_put (fun e => [fst e])); [lia|]. apply (below_fold_put (fun e => [fst e])); [lia|].
    eapply below_mono; [|eauto]. lia.
  - intros a Ha. destruct (nolog_after s d a H V Ha) as [F1 [F2 [F3 [F4 [N1 [N2 N3]]]]]].
    repeat split; intros.
    + unfold lnonce_new. rewrite get_lput1. destruct (b =? s_next s); auto. rewrite F3. auto.
    + unfold lclass_new. rewrite !get_lput1. destruct (b =? s_next s); auto. rewrite F1, F2. destruct (_ =? _); auto.
    + unfold lstore_new. rewrite get_lput2. destruct (b =? s_next s); auto. rewrite F4. auto.
  - intros. apply (sys_after s d); auto.
Qed.

(* ---------- removing the classes a block declared ---------- *)
Lemma rm_decl_spec : forall n l m, NoDup l -> sorted m -> (forall h, In h l -> get m [h] <> None) ->
  exists m', rm_decl n l m = Some m' /\ sorted m' /\
    forall k, get m' k =
      if existsb (fun h => keqb k [h]) l && (match get m k with Some a => a =? n | None => false end)
      then None else get m k.
Proof.
  induction l; simpl; intros.
  - exists m. auto.
  - inversion H; subst. destruct (get m [a]) eqn:E; [|exfalso; eapply H1; eauto].
    set (m1 := if n0 =? n then del [a] m else m).
    assert (S1 : sorted m1) by (unfold m1; destruct (n0 =? n); auto; apply sorted_del; auto).
    assert (G1 : forall k, keqb k [a] = false -> get m1 k = get m k).
    { intros. unfold m1. destruct (n0 =? n); auto. rewrite get_del by auto. rewrite H2. auto. }
    destruct (IHl m1 H5 S1) as [m' [R [S' G]]].
    { intros. rewrite G1. apply H1; auto. apply keqb_neq. intro K. inversion K; subst. contradiction. }
    exists m'. split; auto. split; auto. intros. rewrite G.
    destruct (keqb k [a]) eqn:Ek; simpl.
    + apply keqb_eq in Ek. subst. rewrite E. unfold m1. destruct (n0 =? n) eqn:En.
      * rewrite get_del by auto. rewrite keqb_refl. rewrite andb_false_r. auto.
      * rewrite E. rewrite En. rewrite andb_false_r. auto.
    + rewrite G1 by auto. auto.
Qed.

(* ... and the classes registered for its deployed contracts *)
Lemma rm_deliv_spec : forall n l m, sorted m ->
  sorted (rm_deliv n l m) /\
  forall k, get (rm_deliv n l m) k =
    if existsb (fun h => keqb k [h]) l && (match get m k with Some a => a =? n | None => false end)
    then None else get m k.
Proof.
  induction l; simpl; intros.
  - split; auto.
  - set (m1 := match get m [a] with Some a0 => if a0 =? n then del [a] m else m | None => m end).
    assert (S1 : sorted m1).
    { unfold m1. destruct (get m [a]); auto. destruct (n0 =? n); auto. apply sorted_del; auto. }
    assert (G1 : forall k, keqb k [a] = false -> get m1 k = get m k).
    { intros. unfold m1. destruct (get m [a]); auto. destruct (n0 =? n); auto. rewrite get_del by auto. rewrite H0. auto. }
    destruct (IHl m1 S1) as [S' G]. split; auto. intros. rewrite G.
    destruct (keqb k [a]) eqn:Ek; simpl.
    + apply keqb_eq in Ek. subst. unfold m1. destruct (get m [a]) eqn:E.
      * destruct (n0 =? n) eqn:En.
        -- rewrite get_del by auto. rewrite keqb_refl. rewrite andb_false_r. auto.
        -- rewrite E, En. rewrite andb_false_r. auto.
      * rewrite E. rewrite andb_false_r. auto.
    + rewrite G1 by auto. auto.
Qed.

Lemma existsb_keqb_in : forall l h, In h l -> existsb (fun h' => keqb [h] [h']) l = true.
Proof. intros. apply existsb_exists. exists h. split; auto. apply keqb_refl. Qed.

(* Revert's class part undoes Update's: every class the block registered (declared-at = n, so it did not exist
   before) is declared by the block or is the class of one of its deployed contracts *)
Lemma rm_classes_upd : forall n d m, NoDup (d_decl d) -> sorted m -> vals_below m n ->
  (forall h, In h (d_deliv d) -> In h (map snd (d_deploy d))) ->
  rm_classes n d (upd_decl n d m) = Some m.
Proof.
  intros n d m ND S VB DL. unfold rm_classes.
  destruct (rm_decl_spec n (d_decl d) (upd_decl n d m)) as [m' [R [S' G]]]; auto.
  - apply sorted_upd_decl; auto.
  - intros. rewrite get_upd_decl. destruct (get m [h]); [discriminate|].
    replace (existsb _ (d_reg d)) with true; [discriminate|]. symmetry. apply existsb_keqb_in.
    unfold d_reg. apply in_or_app. auto.
  - rewrite R. f_equal. destruct (rm_deliv_spec n (map snd (d_deploy d)) m' S') as [S2 G2].
    apply sorted_ext; auto. intros k.
    assert (Gm : get m' k = match get m k with
                            | Some a => Some a
                            | None => if existsb (fun h => keqb k [h]) (d_decl d) then None
                                      else if existsb (fun h => keqb k [h]) (d_deliv d) then Some n else None
                            end).
    { rewrite G, get_upd_decl. unfold d_reg. rewrite existsb_app. destruct (get m k) eqn:E.
      - apply VB in E. destruct (n0 =? n) eqn:E1; [lia|]. rewrite andb_false_r. auto.
      - destruct (existsb _ (d_decl d)); simpl; [rewrite N.eqb_refl; auto|].
        destruct (existsb _ (d_deliv d)); auto. }
    rewrite G2, Gm. destruct (get m k) eqn:E.
    + apply VB in E. destruct (n0 =? n) eqn:E1; [lia|]. rewrite andb_false_r. auto.
    + destruct (existsb (fun h => keqb k [h]) (d_decl d)); [rewrite andb_false_r; auto|].
      destruct (existsb (fun h => keqb k [h]) (d_deliv d)) eqn:E2; [|rewrite andb_false_r; auto].
      apply existsb_exists in E2. destruct E2 as [h [Hin K]]. apply keqb_eq in K. subst.
      rewrite (existsb_keqb_in _ _ (DL _ Hin)). rewrite N.eqb_refl. auto.
Qed.
