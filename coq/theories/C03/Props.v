(* C03 — property theorems only. *)
From Coq Require Import List NArith Bool.
From V Require Import C03.Model C03.Proofs_map C03.Proofs_inv C03.Proofs_store C03.Proofs_new C03.Proofs_read C03.Proofs_old C03.Proofs C03.Proofs_casm.
Import ListNotations.
Open Scope N_scope.

(* NEW backend: after ANY sequence of block additions and head reverts (a Store the node would reject and
   a Revert that fails leave the state unchanged, as in juno), every historical read at every retained
   block n and every head read equals the abstract state obtained by applying the surviving chain's diffs
   up to and including n.  [lookup] answers NotFound exactly for contracts / classes that do not exist
   in that abstract state and the stored value (zero when never written) otherwise.
   System contracts 0x1 / 0x2 are part of the model and of the truth (they exist in the state after block
   n iff one of their slots is non-zero there, with class hash 0 and nonce 0).  Hypothesis
   [sys_guarded_new ops]: every accepted block leaves the system contracts it writes to with a non-empty
   storage (zero writes, overwrites, creation, growth, revert across the creation are all allowed; what is
   excluded is a block that EMPTIES a system contract or writes only zeros to a missing one).  Without it
   the statement is false for juno: C03_new_sys_refuted below. *)
Theorem C03_new : forall (ops : list op) (s : st) (rc : list diff), run_new ops = (s, rc) ->
  sys_guarded_new ops = true ->
  (forall q n, n < blen rc -> read_new s q n = lookup (truth_at rc n) q) /\
  (forall q, read_head s q = lookup (truth rc) q).
Proof. exact c03_new_lemma. Qed.
Print Assumptions C03_new.

(* LEGACY backend: the same statement. *)
Theorem C03_old : forall (ops : list op) (s : st) (rc : list diff), run_old ops = (s, rc) ->
  sys_guarded_old ops = true ->
  (forall q n, n < blen rc -> read_old s q n = lookup (truth_at rc n) q) /\
  (forall q, read_head s q = lookup (truth rc) q).
Proof. exact c03_old_lemma. Qed.
Print Assumptions C03_old.

(* op sequences that never write to a system contract need no hypothesis (the statements as they stood
   before the system contracts were modelled) *)
Theorem C03_new_no_sys : forall (ops : list op) (s : st) (rc : list diff), Forall no_sys_write ops ->
  run_new ops = (s, rc) ->
  (forall q n, n < blen rc -> read_new s q n = lookup (truth_at rc n) q) /\
  (forall q, read_head s q = lookup (truth rc) q).
Proof. exact c03_new_no_sys_lemma. Qed.
Print Assumptions C03_new_no_sys.
Theorem C03_old_no_sys : forall (ops : list op) (s : st) (rc : list diff), Forall no_sys_write ops ->
  run_old ops = (s, rc) ->
  (forall q n, n < blen rc -> read_old s q n = lookup (truth_at rc n) q) /\
  (forall q, read_head s q = lookup (truth rc) q).
Proof. exact c03_old_no_sys_lemma. Qed.
Print Assumptions C03_old_no_sys.

(* ---------- the unguarded statement is false (faithful model; replayed on the real node, findings/C03.md) ---------- *)
Definition wr (a k v : N) : diff := mkDiff [] [] [] [((a, k), v)] [] [].
(* block 0 sets slot 1 of system contract 0x1 to 5, block 1 writes it back to zero *)
Definition ops_sys_empty := [Store (wr 1 1 5); Store (wr 1 1 0)].
(* ... block 2 writes slot 2 := 7: the contract is created again *)
Definition ops_sys_again := ops_sys_empty ++ [Store (wr 1 2 7)].

(* NEW backend: commit() deletes the record of a system contract whose storage became empty, and with it
   the deployment height every historical read checks first: block 0, where slot 1 held 5, now answers
   "not found" - and keeps doing so after the contract is created again, because the new record is
   stamped with the later block's number. *)
Theorem C03_new_sys_refuted :
  (exists ops s rc q n, run_new ops = (s, rc) /\ n < blen rc /\ read_new s q n <> lookup (truth_at rc n) q) /\
  (let (s, rc) := run_new ops_sys_empty in
     read_new s (QSlot 1 1) 0 = NotFound /\ lookup (truth_at rc 0) (QSlot 1 1) = Found 5) /\
  (let (s, rc) := run_new ops_sys_again in
     read_new s (QSlot 1 1) 0 = NotFound /\ lookup (truth_at rc 0) (QSlot 1 1) = Found 5 /\
     get (s_dh s) [1] = Some 2 /\ read_new s (QSlot 1 2) 2 = Found 7).
Proof.
  split; [|split].
  - exists ops_sys_empty, (fst (run_new ops_sys_empty)), (snd (run_new ops_sys_empty)), (QSlot 1 1), 0.
    split; [vm_compute; reflexivity | split; [vm_compute; reflexivity | vm_compute; discriminate]].
  - vm_compute. split; reflexivity.
  - vm_compute. repeat split; reflexivity.
Qed.
Print Assumptions C03_new_sys_refuted.

(* LEGACY backend: Update never removes a system contract, so after its storage became empty it is still
   reported as existing (class hash 0, slots 0) at the emptying block, by number and at head, where the
   truth - and the new backend at head - say "not found". *)
Theorem C03_old_sys_refuted :
  (exists ops s rc q n, run_old ops = (s, rc) /\ n < blen rc /\ read_old s q n <> lookup (truth_at rc n) q) /\
  (let (s, rc) := run_old ops_sys_empty in
     read_old s (QClass 1) 1 = Found 0 /\ read_head s (QClass 1) = Found 0 /\
     lookup (truth_at rc 1) (QClass 1) = NotFound /\ read_old s (QSlot 1 1) 0 = Found 5).
Proof.
  split.
  - exists ops_sys_empty, (fst (run_old ops_sys_empty)), (snd (run_old ops_sys_empty)), (QClass 1), 1.
    split; [vm_compute; reflexivity | split; [vm_compute; reflexivity | vm_compute; discriminate]].
  - vm_compute. repeat split; reflexivity.
Qed.
Print Assumptions C03_old_sys_refuted.

(* the guard is what these sequences violate, and a zero write that does NOT empty the contract satisfies it *)
Example ex_sys_guard_needed :
  sys_guarded_new ops_sys_empty = false /\ sys_guarded_old ops_sys_empty = false /\
  sys_guarded_new [Store (mkDiff [] [] [] [((1, 1), 5); ((1, 2), 6)] [] []); Store (wr 1 1 0); Revert; Store (wr 2 9 1); Revert; Revert] = true.
Proof. vm_compute. repeat split; reflexivity. Qed.

(* "not found" iff the contract / class does not exist in the abstract state; unset slots are zero *)
Theorem C03_notfound_iff : forall a q, lookup a q = NotFound <->
  match q with
  | QClass x | QNonce x | QSlot x _ => a_exists a x = None
  | QDecl h => a_decl a h = None
  end.
Proof. exact lookup_notfound. Qed.
Print Assumptions C03_notfound_iff.

Theorem C03_unset_slot_zero : forall rc x k,
  (forall d, In d rc -> assoc2 (d_store d) x k = None) -> a_slot (truth rc) x k = 0.
Proof. exact truth_unset_zero. Qed.
Print Assumptions C03_unset_slot_zero.

(* ---------- boundary lemmas ---------- *)
(* the seek/prev loop of the new backend = newest entry at or below n (exact-n hit, entries between,
   no entry at all), for every sorted bucket *)
Theorem C03_valueAt_new_is_last_at_or_below : forall (m : smap N) p n, sorted m ->
  valueAt_new (sub m p) n = scan_dn (fun b => get m (p ++ [b])) (N.to_nat n).
Proof. exact (@new_scan N). Qed.
Print Assumptions C03_valueAt_new_is_last_at_or_below.

(* the legacy loop = oldest entry strictly above n, None (check head state) when there is none *)
Theorem C03_valueAt_old_is_first_above : forall (m : smap N) p n B, sorted m -> log_below m p B ->
  valueAt_old (sub m p) n = scan_up (fun b => get m (p ++ [b])) (n + 1) (N.to_nat (B - (n + 1))).
Proof. exact (@old_scan N). Qed.
Print Assumptions C03_valueAt_old_is_first_above.

Theorem C03_new_exact_hit : forall m p n v, sorted m -> get m (p ++ [n]) = Some v -> hist_new m p n = v.
Proof. intros. rewrite <- rev_val_succ. apply hist_hit; auto. Qed.
Print Assumptions C03_new_exact_hit.

(* at the deployment height and above the contract is found, below it is not (both backends read the
   same deployment-height bucket) *)
Theorem C03_deploy_height : forall s x n h, get (s_dh s) [x] = Some h -> deployed_at s x n = (h <=? n).
Proof. intros. unfold deployed_at. rewrite H. auto. Qed.
Print Assumptions C03_deploy_height.

(* reverting a block removes exactly the log entries it wrote and restores every bucket.  [VS s d] = the
   block is valid on s and satisfies the system-contract guard (valid_diffb_VS) *)
Theorem C03_VS : forall s d, valid_diffb s d = true -> sys_guard s d = true -> VS s d.
Proof. exact valid_diffb_VS. Qed.
Print Assumptions C03_VS.

Theorem C03_revert_restores_new : forall s d, Inv s -> Hist_new s -> VS s d -> revert_new (store_new s d) d = Some s.
Proof. exact revert_store_new. Qed.
Print Assumptions C03_revert_restores_new.

(* legacy: no guard is needed since juno commit 1b89e86 (a zero write to an absent slot logs nothing; the
   reverse diff then takes the head value) *)
Theorem C03_revert_restores_old : forall s d, Inv s -> VS s d -> revert_old (store_old s d) d = Some s.
Proof. exact revert_store_old. Qed.
Print Assumptions C03_revert_restores_old.

(* historical answers do not change when a block is appended *)
Theorem C03_new_stable : forall s d q m, Inv s -> VS s d -> m < s_next s -> read_new (store_new s d) q m = read_new s q m.
Proof. exact read_new_stable. Qed.
Print Assumptions C03_new_stable.
Theorem C03_old_stable : forall s d q m, Inv s -> VS s d -> m < s_next s -> read_old (store_old s d) q m = read_old s q m.
Proof. exact read_old_stable. Qed.
Print Assumptions C03_old_stable.

(* ---------- compiled class hashes of Sierra classes (CompiledClassHash at head, CompiledClassHashAt by block;
   the metadata bucket is shared by both state backends) ----------
   After ANY sequence of block additions and head reverts, the hash read at every retained block n and at head is
   the one the surviving chain's diffs give the class as of that block: the declared hash from the declaring block
   on, the migrated-to hash from the migrating block on, "not found" below the declaring block. *)
Theorem C03_casm : forall (ops : list cop) (m : smap meta) (rc : list cblk), crun ops = (m, rc) ->
  (forall h n, n < clen rc -> casm_read m h n = ans_of (ctruth_at rc n h)) /\
  (forall h, casm_head m h = ans_of (ctruth rc h)).
Proof. exact c03_casm_lemma. Qed.
Print Assumptions C03_casm.

Theorem C03_casm_revert_restores : forall n b m, sorted m -> cvalid m b = true -> casm_revert b (casm_store n b m) = m.
Proof. exact casm_undo_b. Qed.
Print Assumptions C03_casm_revert_restores.

Definition cA := mkCblk false [(20, (30, 31)); (21, (40, 41))] [].
Definition cB := mkCblk true [(22, (50, 50))] [(20, 31)].
Definition cC := mkCblk true [] [(21, 41)].
Definition cops_ex := [CStore cA; CStore cB; CRevert; CStore cC; CStore cB].
Example ex_casm :
  snd (crun cops_ex) = [cB; cC; cA] /\
  casm_read (fst (crun cops_ex)) 20 0 = Found 30 /\ casm_read (fst (crun cops_ex)) 20 1 = Found 30 /\
  casm_read (fst (crun cops_ex)) 20 2 = Found 31 /\ casm_read (fst (crun cops_ex)) 21 1 = Found 41 /\
  casm_read (fst (crun cops_ex)) 22 1 = NotFound /\ casm_read (fst (crun cops_ex)) 22 2 = Found 50 /\
  casm_head (fst (crun cops_ex)) 21 = Found 41.
Proof. vm_compute. repeat split; reflexivity. Qed.

(* ---------- the statements are not vacuous ---------- *)
Definition dA := mkDiff [(100, 10)] [] [(100, 1)] [((100, 1), 5); ((100, 2), 0)] [10] [].
Definition dB := mkDiff [(101, 11)] [(100, 11)] [(100, 2)] [((100, 1), 0); ((101, 1), 7); ((100, 3), 9)] [11] [].
Definition dC := mkDiff [] [] [(100, 3)] [((100, 1), 4); ((100, 3), 9)] [] [].
Definition ops_ex := [Store dA; Store dB; Revert; Store dC; Revert; Revert; Store dA; Store dC; Revert; Store dB].

Example ex_new_chain : snd (run_new ops_ex) = [dB; dA].
Proof. vm_compute. reflexivity. Qed.
Example ex_new_reads :
  read_new (fst (run_new ops_ex)) (QSlot 100 1) 0 = Found 5 /\
  read_new (fst (run_new ops_ex)) (QSlot 100 1) 1 = Found 0 /\
  read_new (fst (run_new ops_ex)) (QSlot 101 1) 0 = NotFound /\
  read_new (fst (run_new ops_ex)) (QClass 100) 0 = Found 10 /\
  read_new (fst (run_new ops_ex)) (QClass 100) 1 = Found 11 /\
  read_new (fst (run_new ops_ex)) (QDecl 11) 0 = NotFound.
Proof. vm_compute. repeat split. Qed.
(* legacy: a block whose only content is a zero write to a never-written slot is stored and reverted *)
Definition dZ := mkDiff [] [] [] [((100, 2), 0)] [] [].
Example ex_old_revert_noop_zero : run_old [Store dA; Store dZ; Revert] = run_old [Store dA].
Proof. vm_compute. reflexivity. Qed.
Example ex_old_reads_with_noop_zero :
  read_old (fst (run_old [Store dA; Store dZ])) (QSlot 100 2) 0 = Found 0 /\
  read_old (fst (run_old [Store dA; Store dZ])) (QSlot 100 2) 1 = Found 0 /\
  read_old (fst (run_old [Store dA; Store dZ])) (QSlot 100 1) 1 = Found 5.
Proof. vm_compute. repeat split. Qed.
Example ex_old_chain : snd (run_old ops_ex) = [dB; dA].
Proof. vm_compute. reflexivity. Qed.

(* system contracts: creation by a storage write, zero write that leaves another slot, growth, revert across
   the creation and re-creation - guarded, read exactly on both backends *)
Definition dS1 := mkDiff [(100, 10)] [] [] [((1, 1), 5); ((1, 2), 6); ((100, 1), 9)] [] [].
Definition ops_sys := [Store dS1; Store (wr 1 1 0); Store (wr 2 7 3); Revert; Revert; Revert; Store (wr 1 3 4); Store dS1].
Example ex_sys_guarded : sys_guarded_new ops_sys = true /\ sys_guarded_old ops_sys = true.
Proof. vm_compute. split; reflexivity. Qed.
Example ex_sys_reads_new :
  let s := fst (run_new ops_sys) in
  read_new s (QSlot 1 3) 0 = Found 4 /\ read_new s (QSlot 1 1) 0 = Found 0 /\ read_new s (QSlot 1 1) 1 = Found 5 /\
  read_new s (QClass 1) 0 = Found 0 /\ read_new s (QClass 2) 1 = NotFound /\ read_head s (QNonce 1) = Found 0.
Proof. vm_compute. repeat split; reflexivity. Qed.
Example ex_sys_reads_old :
  let s := fst (run_old ops_sys) in
  read_old s (QSlot 1 3) 0 = Found 4 /\ read_old s (QSlot 1 1) 0 = Found 0 /\ read_old s (QSlot 1 1) 1 = Found 5 /\
  read_old s (QClass 1) 0 = Found 0 /\ read_old s (QClass 2) 1 = NotFound /\ read_head s (QNonce 1) = Found 0.
Proof. vm_compute. repeat split; reflexivity. Qed.

(* classes DELIVERED with a block for its deployed contracts (d_deliv): registered under the block's number like the
   declared ones, gone after the block's revert, first writer wins when the class is known already *)
Definition dD := mkDiff [(100, 10)] [] [] [] [] [10].
Definition dE := mkDiff [(101, 10)] [] [] [] [11] [10].
Definition ops_deliv := [Store dD; Revert; Store dA; Store dE].
Example ex_deliv :
  sys_guarded_new ops_deliv = true /\ snd (run_new ops_deliv) = [dE; dA] /\ snd (run_old ops_deliv) = [dE; dA] /\
  read_head (fst (run_new [Store dD])) (QDecl 10) = Found 0 /\
  read_head (fst (run_new [Store dD; Revert])) (QDecl 10) = NotFound /\
  read_head (fst (run_old [Store dD; Revert])) (QDecl 10) = NotFound /\
  read_new (fst (run_new ops_deliv)) (QDecl 10) 1 = Found 0 /\
  read_old (fst (run_old ops_deliv)) (QDecl 11) 0 = NotFound /\ read_old (fst (run_old ops_deliv)) (QDecl 11) 1 = Found 1.
Proof. vm_compute. repeat split; reflexivity. Qed.
(* a delivered class must be the class of one of the block's deployed contracts (deliv_ok) *)
Example ex_deliv_ok : valid_diffb st_empty dD = true /\ valid_diffb st_empty (mkDiff [(100, 11)] [] [] [] [] [10]) = false /\
  valid_diffb st_empty (mkDiff [(100, 10)] [] [] [] [10] [10]) = false.
Proof. vm_compute. repeat split; reflexivity. Qed.
