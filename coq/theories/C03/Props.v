(* C03 — property theorems only. *)
From Coq Require Import List NArith Bool.
From V Require Import C03.Model C03.Proofs_map C03.Proofs_inv C03.Proofs_store C03.Proofs_new C03.Proofs_read C03.Proofs_old C03.Proofs.
Import ListNotations.
Open Scope N_scope.

(* NEW backend: after ANY sequence of block additions and head reverts (a Store the node would reject and
   a Revert that fails leave the state unchanged, as in juno), every historical read at every retained
   block n and every head read equals the abstract state obtained by applying the surviving chain's diffs
   up to and including n.  [lookup] answers NotFound exactly for contracts / classes that do not exist
   in that abstract state and the stored value (zero when never written) otherwise. *)
Theorem C03_new : forall (ops : list op) (s : st) (rc : list diff), run_new ops = (s, rc) ->
  (forall q n, n < blen rc -> read_new s q n = lookup (truth_at rc n) q) /\
  (forall q, read_head s q = lookup (truth rc) q).
Proof. exact c03_new_lemma. Qed.
Print Assumptions C03_new.

(* LEGACY backend: the same statement. *)
Theorem C03_old : forall (ops : list op) (s : st) (rc : list diff), run_old ops = (s, rc) ->
  (forall q n, n < blen rc -> read_old s q n = lookup (truth_at rc n) q) /\
  (forall q, read_head s q = lookup (truth rc) q).
Proof. exact c03_old_lemma. Qed.
Print Assumptions C03_old.

(* "not found" iff the contract / class does not exist in the abstract state; unset slots are zero *)
Theorem C03_notfound_iff : forall a q, lookup a q = NotFound <->
  match q with
  | QClass x | QNonce x | QSlot x _ => a_contract a x = None
  | QDecl h => a_decl a h = None
  end.
Proof. exact lookup_notfound. Qed.
Print Assumptions C03_notfound_iff.

Theorem C03_unset_slot_zero : forall rc x k,
  (forall d, In d rc -> assoc2 (d_store d) x k = None) -> a_slot (truth rc) x k = 0.
Proof. exact truth_unset_zero. Qed.
Print Assumptions C03_unset_slot_zero.

(* ---------- boundary lemmas ---------- *)
(* the seek/prev loop of the new backend = newest entry at or below n (exact-n hit, entries between,
   no entry at all), for every sorted bucket *)
Theorem C03_valueAt_new_is_last_at_or_below : forall (m : smap N) p n, sorted m ->
  valueAt_new (sub m p) n = scan_dn (fun b => get m (p ++ [b])) (N.to_nat n).
Proof. exact (@new_scan N). Qed.
Print Assumptions C03_valueAt_new_is_last_at_or_below.

(* the legacy loop = oldest entry strictly above n, None (check head state) when there is none *)
Theorem C03_valueAt_old_is_first_above : forall (m : smap N) p n B, sorted m -> log_below m p B ->
  valueAt_old (sub m p) n = scan_up (fun b => get m (p ++ [b])) (n + 1) (N.to_nat (B - (n + 1))).
Proof. exact (@old_scan N). Qed.
Print Assumptions C03_valueAt_old_is_first_above.

Theorem C03_new_exact_hit : forall m p n v, sorted m -> get m (p ++ [n]) = Some v -> hist_new m p n = v.
Proof. intros. rewrite <- rev_val_succ. apply hist_hit; auto. Qed.
Print Assumptions C03_new_exact_hit.

(* at the deployment height and above the contract is found, below it is not (both backends read the
   same deployment-height bucket) *)
Theorem C03_deploy_height : forall s x n h, get (s_dh s) [x] = Some h -> deployed_at s x n = (h <=? n).
Proof. intros. unfold deployed_at. rewrite H. auto. Qed.
Print Assumptions C03_deploy_height.

(* reverting a block removes exactly the log entries it wrote and restores every bucket *)
Theorem C03_revert_restores_new : forall s d, Inv s -> Hist_new s -> Valid s d -> revert_new (store_new s d) d = Some s.
Proof. exact revert_store_new. Qed.
Print Assumptions C03_revert_restores_new.

(* legacy: no guard is needed since juno commit 1b89e86 (a zero write to an absent slot logs nothing; the
   reverse diff then takes the head value) *)
Theorem C03_revert_restores_old : forall s d, Inv s -> Valid s d -> revert_old (store_old s d) d = Some s.
Proof. exact revert_store_old. Qed.
Print Assumptions C03_revert_restores_old.

(* historical answers do not change when a block is appended *)
Theorem C03_new_stable : forall s d q m, Inv s -> Valid s d -> m < s_next s -> read_new (store_new s d) q m = read_new s q m.
Proof. exact read_new_stable. Qed.
Print Assumptions C03_new_stable.
Theorem C03_old_stable : forall s d q m, Inv s -> Valid s d -> m < s_next s -> read_old (store_old s d) q m = read_old s q m.
Proof. exact read_old_stable. Qed.
Print Assumptions C03_old_stable.

(* ---------- the statements are not vacuous ---------- *)
Definition dA := mkDiff [(100, 10)] [] [(100, 1)] [((100, 1), 5); ((100, 2), 0)] [10].
Definition dB := mkDiff [(101, 11)] [(100, 11)] [(100, 2)] [((100, 1), 0); ((101, 1), 7); ((100, 3), 9)] [11].
Definition dC := mkDiff [] [] [(100, 3)] [((100, 1), 4); ((100, 3), 9)] [].
Definition ops_ex := [Store dA; Store dB; Revert; Store dC; Revert; Revert; Store dA; Store dC; Revert; Store dB].

Example ex_new_chain : snd (run_new ops_ex) = [dB; dA].
Proof. vm_compute. reflexivity. Qed.
Example ex_new_reads :
  read_new (fst (run_new ops_ex)) (QSlot 100 1) 0 = Found 5 /\
  read_new (fst (run_new ops_ex)) (QSlot 100 1) 1 = Found 0 /\
  read_new (fst (run_new ops_ex)) (QSlot 101 1) 0 = NotFound /\
  read_new (fst (run_new ops_ex)) (QClass 100) 0 = Found 10 /\
  read_new (fst (run_new ops_ex)) (QClass 100) 1 = Found 11 /\
  read_new (fst (run_new ops_ex)) (QDecl 11) 0 = NotFound.
Proof. vm_compute. repeat split. Qed.
(* legacy: a block whose only content is a zero write to a never-written slot is stored and reverted *)
Definition dZ := mkDiff [] [] [] [((100, 2), 0)] [].
Example ex_old_revert_noop_zero : run_old [Store dA; Store dZ; Revert] = run_old [Store dA].
Proof. vm_compute. reflexivity. Qed.
Example ex_old_reads_with_noop_zero :
  read_old (fst (run_old [Store dA; Store dZ])) (QSlot 100 2) 0 = Found 0 /\
  read_old (fst (run_old [Store dA; Store dZ])) (QSlot 100 2) 1 = Found 0 /\
  read_old (fst (run_old [Store dA; Store dZ])) (QSlot 100 1) 1 = Found 5.
Proof. vm_compute. repeat split. Qed.
Example ex_old_chain : snd (run_old ops_ex) = [dB; dA].
Proof. vm_compute. reflexivity. Qed.
