(* C04 — executable model of Store / RevertHead over every index family of the database
   (blockchain/statebackend/{statebackend,deprecated,block_ops,casm_metadata}.go, core/accessors.go,
   core/running_event_filter.go), on top of the state part modelled in C03.

   Index families (one sorted bucket each, keys as in C03):
     n_st      the state buckets and history logs of C03 (chain height = s_next - 1); the class table s_decl holds
               every class a block registered: the declared ones and the ones DELIVERED for its deployed contracts
               (d_deliv), which State.Revert removes again since juno commit 007ff78 (C03.Model rm_classes)
     n_hdr     [n]      -> block hash            (BlockHeadersByNumber; the header is identified by its hash)
     n_num     [hash]   -> n                     (BlockHeaderNumbersByHash)
     n_txs     [n]      -> transactions+receipts blob, as the list of (tx hash, L1 message hash option)
     n_txidx   [txhash] -> (n, index)            (TransactionBlockNumbersAndIndicesByHash)
     n_l1      [msg]    -> tx hash               (L1HandlerTxnHashByMsgHash)
     n_upd     [n]      -> the block's state update (here: the whole block description)
     n_commit  [n]      -> block commitments
     n_casm    [h]      -> ClassCasmHashMetadata (declared at, migrated at or 0, V1 hash if any, V2 hash):
                           the machine of C03.Model (casm_store / casm_revert / casm_read / casm_head)
     n_filter  running event filter, abstractly the (block, bloom) pairs it currently covers
   No proofs here. *)
From Coq Require Import List NArith Bool.
From V Require Import C03.Model.
Import ListNotations.
Open Scope N_scope.

Record block := mkBlock {
  b_hash   : N;
  b_diff   : diff;
  b_txs    : list (N * option N);   (* tx hash, L1 message hash of L1-handler transactions *)
  b_commit : N;
  b_bloom  : N;
  b_v2     : bool;                  (* protocol version >= 0.14.1 *)
  b_casm   : list (N * (N * N));    (* DeclaredV1Classes: Sierra class hash -> (casm hash, Blake2s hash of the CASM) *)
  b_migr   : list (N * N)           (* MigratedClasses: Sierra class hash -> new casm hash *)
}.
Definition cblk_of (b : block) : cblk := mkCblk (b_v2 b) (b_casm b) (b_migr b).

Record node := mkNode {
  n_st     : st;
  n_hdr    : smap N;
  n_num    : smap N;
  n_txs    : smap (list (N * option N));
  n_txidx  : smap (N * N);
  n_l1     : smap N;
  n_upd    : smap block;
  n_commit : smap N;
  n_casm   : smap meta;
  n_filter : list (N * N)
}.

Definition node_empty : node := mkNode st_empty [] [] [] [] [] [] [] [] [].

(* WriteTransactionsAndReceipts: hash -> (block, index) *)
Fixpoint put_txidx (n i : N) (l : list (N * option N)) (m : smap (N * N)) : smap (N * N) :=
  match l with
  | [] => m
  | e :: r => put [fst e] (n, i) (put_txidx n (i + 1) r m)
  end.

(* L1-handler transactions of a block as (message hash, tx hash) *)
Definition l1s (l : list (N * option N)) : list (N * N) :=
  flat_map (fun e => match snd e with Some msg => [(msg, fst e)] | None => [] end) l.

Section Backend.
  Variable store_st : st -> diff -> st.
  Variable revert_st : st -> diff -> option st.

  (* Store: state Update, writeBlockContent, running filter insert — one batch *)
  Definition store_node (x : node) (b : block) : node :=
    let n := s_next (n_st x) in
    mkNode (store_st (n_st x) (b_diff b))
      (put [n] (b_hash b) (n_hdr x))
      (put [b_hash b] n (n_num x))
      (put [n] (b_txs b) (n_txs x))
      (put_txidx n 0 (b_txs b) (n_txidx x))
      (foldd (fun e m => put [fst e] (snd e) m) (l1s (b_txs b)) (n_l1 x))
      (put [n] b (n_upd x))
      (put [n] (b_commit b) (n_commit x))
      (* storeCasmHashMetadata: declared classes, then Migrate(n) on metadata read through the reader *)
      (casm_store n (cblk_of b) (n_casm x))
      ((n, b_bloom b) :: n_filter x).

  (* RevertHead: read height, state update and header; State.Revert; deleteBlockContent; filter OnReorg *)
  Definition revert_node (x : node) : option node :=
    if s_next (n_st x) =? 0 then None else
    let n := s_next (n_st x) - 1 in
    match get (n_upd x) [n], get (n_hdr x) [n] with
    | Some b, Some hash =>
        match revert_st (n_st x) (b_diff b) with
        | None => None
        | Some st' =>
            let txs := match get (n_txs x) [n] with Some l => l | None => [] end in
            Some (mkNode st'
              (del [n] (n_hdr x))
              (del [hash] (n_num x))
              (del [n] (n_txs x))
              (foldd (fun e m => del [fst e] m) txs (n_txidx x))
              (foldd (fun e m => del [fst e] m) (l1s txs) (n_l1 x))
              (del [n] (n_upd x))
              (del [n] (n_commit x))
              (* revertCasmHashMetadata: delete declared, Unmigrate the migrated ones *)
              (casm_revert (cblk_of b) (n_casm x))
              (tl (n_filter x)))
        end
    | _, _ => None
    end.
End Backend.

Definition store_new_node := store_node store_new.
Definition store_old_node := store_node store_old.
Definition revert_new_node := revert_node revert_new.
Definition revert_old_node := revert_node revert_old.
(* RevertHead as it was before juno commit 007ff78 (State.Revert walked the declared class lists only); used by no
   theorem, only by the witness C04_revert_before_fix_refuted *)
Definition revert_new_node_before_007ff78 := revert_node revert_new_before_007ff78.
Definition revert_old_node_before_007ff78 := revert_node revert_old_before_007ff78.

(* everything an observer can ask for: all index families, the state buckets included *)
Definition obs (x : node) :=
  (n_st x, n_hdr x, n_num x, n_txs x, n_txidx x, n_l1 x, n_upd x, n_commit x, n_casm x, n_filter x).

(* blocks the node can store on top of x (the parts juno itself checks are the parent/number succession
   and the state roots; the rest are protocol facts about a valid Starknet block) *)
Definition freshk {V} (m : smap V) (k : key) : bool := match get m k with Some _ => false | None => true end.

Definition valid_next (x : node) (b : block) : bool :=
  valid_diffb (n_st x) (b_diff b) &&
  freshk (n_num x) [b_hash b] &&
  nodupk (map (fun e => [fst e]) (b_txs b)) &&
  forallb (fun e => freshk (n_txidx x) [fst e]) (b_txs b) &&
  nodupk (map (fun e => [fst e]) (l1s (b_txs b))) &&
  forallb (fun e => freshk (n_l1 x) [fst e]) (l1s (b_txs b)) &&
  cvalid (n_casm x) (cblk_of b).

(* the condition under which the legacy RevertHead failed BEFORE juno commit 1b89e86; no theorem needs it
   any more, the oracle still prints it as a diagnostic *)
Definition guard_old (x : node) (b : block) : bool :=
  no_noop_zero_write (n_st x) (b_diff b) || (s_next (n_st x) =? 0).

(* operation sequences on a node *)
Inductive nop := NStore (b : block) | NRevert.
Definition nstep (store : node -> block -> node) (revert : node -> option node) (x : node) (o : nop) : node :=
  match o with
  | NStore b => if valid_next x b then store x b else x
  | NRevert => match revert x with Some x' => x' | None => x end
  end.
Definition nrun_new (ops : list nop) (x : node) : node := fold_left (nstep store_new_node revert_new_node) ops x.
Definition nrun_old (ops : list nop) (x : node) : node := fold_left (nstep store_old_node revert_old_node) ops x.

(* did the i-th operation take effect?  (used by the oracle to predict revert failures) *)
Definition revert_ok_new (x : node) : bool := match revert_new_node x with Some _ => true | None => false end.
Definition revert_ok_old (x : node) : bool := match revert_old_node x with Some _ => true | None => false end.
