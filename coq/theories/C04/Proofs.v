(* C04 — RevertHead undoes Store on every index family. *)
From Coq Require Import List NArith Bool Lia ZifyN ZifyNat ZifyBool.
From V Require Import C03.Model C03.Proofs_map C03.Proofs_inv C03.Proofs_store C03.Proofs_new C03.Proofs_read C03.Proofs_old C03.Proofs C03.Proofs_casm.
From V Require Import C04.Model.
Import ListNotations.
Open Scope N_scope.

Lemma del_put_fresh : forall {V} (m : smap V) k v, sorted m -> get m k = None -> del k (put k v m) = m.
Proof.
  intros. apply sorted_ext; auto.
  - apply sorted_del. apply sorted_put. auto.
  - intros. rewrite get_del by (apply sorted_put; auto). rewrite get_put.
    destruct (keqb k0 k) eqn:E; auto. apply keqb_eq in E. subst. auto.
Qed.

Lemma freshk_none : forall {V} (m : smap V) k, freshk m k = true -> get m k = None.
Proof. unfold freshk. intros. destruct (get m k); auto. discriminate. Qed.

Lemma sorted_put_txidx : forall l n i m, sorted m -> sorted (put_txidx n i l m).
Proof. induction l; simpl; intros; auto. apply sorted_put. auto. Qed.

Lemma get_put_txidx_other : forall l n i m k, find (fun e => keqb k [fst e]) l = None ->
  get (put_txidx n i l m) k = get m k.
Proof.
  induction l; simpl; intros; auto. destruct (keqb k [fst a]) eqn:E; [discriminate|].
  rewrite get_put, E. auto.
Qed.

Lemma txidx_undo : forall l n m, sorted m -> (forall e, In e l -> get m [fst e] = None) ->
  foldd (fun e m => del [fst e] m) l (put_txidx n 0 l m) = m.
Proof.
  intros. apply sorted_ext; auto.
  - apply sorted_fold_del. apply sorted_put_txidx. auto.
  - intros. rewrite get_fold_del by (apply sorted_put_txidx; auto).
    destruct (find (fun e => keqb k [fst e]) l) eqn:F.
    + apply find_key_some in F. destruct F as [K Hin]. subst. symmetry. auto.
    + apply get_put_txidx_other. auto.
Qed.

Lemma put_del_undo : forall {A V} (K : A -> key) (W : A -> V) l (m : smap V), sorted m ->
  (forall e, In e l -> get m (K e) = None) ->
  foldd (fun e m => del (K e) m) l (foldd (fun e m => put (K e) (W e) m) l m) = m.
Proof.
  intros. apply sorted_ext; auto.
  - apply sorted_fold_del. apply sorted_fold_put. auto.
  - intros. rewrite get_fold_del by (apply sorted_fold_put; auto). rewrite get_fold_put.
    destruct (find (fun e => keqb k (K e)) l) eqn:F; auto.
    apply find_key_some in F. destruct F as [K0 Hin]. subst. symmetry. auto.
Qed.

(* ---------- node invariant ---------- *)
Record NInv (x : node) : Prop := mkNInv {
  ni_st : Inv (n_st x);
  ni_s1 : sorted (n_hdr x); ni_s2 : sorted (n_num x); ni_s3 : sorted (n_txs x); ni_s4 : sorted (n_txidx x);
  ni_s5 : sorted (n_l1 x); ni_s6 : sorted (n_upd x); ni_s7 : sorted (n_commit x); ni_s8 : sorted (n_casm x);
  ni_top : forall m, s_next (n_st x) <= m ->
           get (n_hdr x) [m] = None /\ get (n_txs x) [m] = None /\ get (n_upd x) [m] = None /\ get (n_commit x) [m] = None
}.

Lemma NInv_empty : NInv node_empty.
Proof. constructor; simpl; auto. apply Inv_empty. Qed.

Record VNext (x : node) (b : block) : Prop := mkVNext {
  vn_diff : VS (n_st x) (b_diff b);
  vn_hash : get (n_num x) [b_hash b] = None;
  vn_txs : forall e, In e (b_txs b) -> get (n_txidx x) [fst e] = None;
  vn_l1 : forall e, In e (l1s (b_txs b)) -> get (n_l1 x) [fst e] = None;
  vn_casm : CV (n_casm x) (cblk_of b)
}.

Lemma valid_next_VNext : forall x b, valid_next x b = true -> sys_guard (n_st x) (b_diff b) = true -> VNext x b.
Proof.
  unfold valid_next. intros x b H G. remember (valid_diffb (n_st x) (b_diff b)) as vd.
  remember (cvalid (n_casm x) (cblk_of b)) as cv.
  apply andb_true_iff in H. destruct H as [H Hc].
  apply andb_true_iff in H. destruct H as [H Hl2].
  apply andb_true_iff in H. destruct H as [H Hl1].
  apply andb_true_iff in H. destruct H as [H Ht2].
  apply andb_true_iff in H. destruct H as [H Ht1].
  apply andb_true_iff in H. destruct H as [Hd Hh]. subst vd cv.
  constructor.
  - apply valid_diffb_VS; auto.
  - apply freshk_none; auto.
  - intros. rewrite forallb_forall in Ht2. apply freshk_none. auto.
  - intros. rewrite forallb_forall in Hl2. apply freshk_none. auto.
  - apply cvalid_CV; auto.
Qed.

Section NodeRevert.
  Variable store_st : st -> diff -> st.
  Variable revert_st : st -> diff -> option st.
  Variables (x : node) (b : block).
  Hypothesis NI : NInv x.
  Hypothesis VN : VNext x b.
  Hypothesis next_st : s_next (store_st (n_st x) (b_diff b)) = s_next (n_st x) + 1.
  Hypothesis undo_st : revert_st (store_st (n_st x) (b_diff b)) (b_diff b) = Some (n_st x).

  Lemma revert_store_node : revert_node revert_st (store_node store_st x b) = Some x.
  Proof.
    unfold revert_node, store_node.
    cbn [n_st n_hdr n_num n_txs n_txidx n_l1 n_upd n_commit n_casm n_filter].
    rewrite next_st. destruct (s_next (n_st x) + 1 =? 0) eqn:E; [lia|].
    replace (s_next (n_st x) + 1 - 1) with (s_next (n_st x)) by lia.
    rewrite !get_put, !keqb_refl. rewrite undo_st.
    destruct (ni_top _ NI (s_next (n_st x))) as [T1 [T2 [T3 T4]]]; [lia|].
    rewrite !del_put_fresh;
      [| apply (ni_s7 _ NI) | auto | apply (ni_s6 _ NI) | auto | apply (ni_s3 _ NI) | auto
       | apply (ni_s2 _ NI) | apply (vn_hash _ _ VN) | apply (ni_s1 _ NI) | auto].
    rewrite txidx_undo; [| apply (ni_s4 _ NI) | apply (vn_txs _ _ VN)].
    rewrite put_del_undo; [| apply (ni_s5 _ NI) | apply (vn_l1 _ _ VN)].
    rewrite casm_undo; [| apply (ni_s8 _ NI) | apply (vn_casm _ _ VN)].
    simpl. destruct x; auto.
  Qed.

  Hypothesis inv_st : Inv (store_st (n_st x) (b_diff b)).
  Lemma NInv_store_node : NInv (store_node store_st x b).
  Proof.
    unfold store_node. constructor; cbn [n_st n_hdr n_num n_txs n_txidx n_l1 n_upd n_commit n_casm n_filter]; auto;
      try (apply sorted_put; apply NI).
    - apply sorted_put_txidx. apply NI.
    - apply sorted_fold_put. apply NI.
    - apply sorted_casm_store; [apply (vn_casm _ _ VN) | apply NI].
    - intros m Hm. rewrite next_st in Hm. destruct (ni_top _ NI m) as [T1 [T2 [T3 T4]]]; [lia|].
      rewrite !get_put. rewrite keqb1. destruct (m =? s_next (n_st x)) eqn:E; [lia|]. auto.
  Qed.
End NodeRevert.

(* ---------- new backend ---------- *)
Definition NInv_new (x : node) : Prop := NInv x /\ Hist_new (n_st x).

(* [storable x b]: the node accepts b, and b leaves the system contracts it writes to non-empty *)
Definition storable (x : node) (b : block) : Prop := valid_next x b = true /\ sys_guard (n_st x) (b_diff b) = true.

Lemma next_new : forall s d, s_next (store_new s d) = s_next s + 1.
Proof. reflexivity. Qed.
Lemma next_old : forall s d, s_next (store_old s d) = s_next s + 1.
Proof. reflexivity. Qed.

Lemma revert_store_new_node : forall x b, NInv_new x -> storable x b -> revert_new_node (store_new_node x b) = Some x.
Proof.
  intros x b [NI Hs] [V G]. pose proof (valid_next_VNext _ _ V G) as VN.
  apply revert_store_node; auto. apply revert_store_new; auto; [apply NI | apply VN].
Qed.

Lemma c04_new_lemma : forall x b, NInv_new x -> valid_next x b = true -> sys_guard (n_st x) (b_diff b) = true ->
  exists x', revert_new_node (store_new_node x b) = Some x' /\ obs x' = obs x.
Proof. intros x b H V G. exists x. split; auto. apply revert_store_new_node; auto. split; auto. Qed.

Lemma NInv_new_store : forall x b, NInv_new x -> valid_next x b = true -> sys_guard (n_st x) (b_diff b) = true ->
  NInv_new (store_new_node x b).
Proof.
  intros x b [NI Hs] V G. pose proof (valid_next_VNext _ _ V G) as VN. split.
  - apply NInv_store_node; auto. apply Inv_store_new; [apply NI | apply VN].
  - apply Hist_store_new; auto; [apply NI | apply VN].
Qed.

(* ---------- legacy backend ---------- *)
Lemma revert_store_old_node : forall x b, NInv x -> storable x b -> revert_old_node (store_old_node x b) = Some x.
Proof.
  intros x b NI [V G]. pose proof (valid_next_VNext _ _ V G) as VN.
  apply revert_store_node; auto. apply revert_store_old; auto; [apply NI | apply VN].
Qed.

Lemma c04_old_lemma : forall x b, NInv x -> valid_next x b = true -> sys_guard (n_st x) (b_diff b) = true ->
  exists x', revert_old_node (store_old_node x b) = Some x' /\ obs x' = obs x.
Proof. intros x b H V G. exists x. split; auto. apply revert_store_old_node; auto. split; auto. Qed.

Lemma NInv_old_store : forall x b, NInv x -> valid_next x b = true -> sys_guard (n_st x) (b_diff b) = true ->
  NInv (store_old_node x b).
Proof.
  intros x b NI V G. pose proof (valid_next_VNext _ _ V G) as VN.
  apply NInv_store_node; auto.
  apply Inv_store_old; [apply NI | apply VN].
Qed.

(* ---------- classes delivered for deployed contracts ---------- *)
Lemma store_registers_delivered : forall store_st, (forall s d, s_decl (store_st s d) = upd_decl (s_next s) d (s_decl s)) ->
  forall x b h, In h (d_deliv (b_diff b)) -> get (s_decl (n_st x)) [h] = None ->
  get (s_decl (n_st (store_node store_st x b))) [h] = Some (s_next (n_st x)).
Proof.
  intros store_st E x b h Hin Hn. unfold store_node. cbn [n_st]. rewrite E, get_upd_decl, Hn.
  replace (existsb _ (d_reg (b_diff b))) with true; auto. symmetry. apply existsb_keqb_in.
  unfold d_reg. apply in_or_app. auto.
Qed.

Lemma decl_store_new : forall s d, s_decl (store_new s d) = upd_decl (s_next s) d (s_decl s).
Proof. reflexivity. Qed.
Lemma decl_store_old : forall s d, s_decl (store_old s d) = upd_decl (s_next s) d (s_decl s).
Proof. reflexivity. Qed.

Lemma deliv_new_lemma : forall x b, NInv_new x -> valid_next x b = true -> sys_guard (n_st x) (b_diff b) = true ->
  (forall h, In h (d_deliv (b_diff b)) -> get (s_decl (n_st x)) [h] = None ->
     get (s_decl (n_st (store_new_node x b))) [h] = Some (s_next (n_st x))) /\
  exists x', revert_new_node (store_new_node x b) = Some x' /\ s_decl (n_st x') = s_decl (n_st x).
Proof.
  intros x b H V G. split.
  - intros. apply (store_registers_delivered store_new decl_store_new); auto.
  - exists x. split; auto. apply revert_store_new_node; auto. split; auto.
Qed.

Lemma deliv_old_lemma : forall x b, NInv x -> valid_next x b = true -> sys_guard (n_st x) (b_diff b) = true ->
  (forall h, In h (d_deliv (b_diff b)) -> get (s_decl (n_st x)) [h] = None ->
     get (s_decl (n_st (store_old_node x b))) [h] = Some (s_next (n_st x))) /\
  exists x', revert_old_node (store_old_node x b) = Some x' /\ s_decl (n_st x') = s_decl (n_st x).
Proof.
  intros x b H V G. split.
  - intros. apply (store_registers_delivered store_old decl_store_old); auto.
  - exists x. split; auto. apply revert_store_old_node; auto. split; auto.
Qed.

(* ---------- forks ---------- *)
Fixpoint all_valid (store : node -> block -> node) (x : node) (A : list block) : Prop :=
  match A with
  | [] => True
  | b :: A' => storable x b /\ all_valid store (store x b) A'
  end.

Lemma repeat_shift : forall n (B : list nop), repeat NRevert n ++ NRevert :: B = NRevert :: repeat NRevert n ++ B.
Proof. induction n; simpl; intros; auto. rewrite IHn. auto. Qed.

Lemma fork_new_lemma : forall A B x, NInv_new x -> all_valid store_new_node x A ->
  nrun_new (map NStore A ++ repeat NRevert (length A) ++ B) x = nrun_new B x.
Proof.
  induction A; simpl; intros; auto.
  destruct H0 as [[V G] AV]. unfold nrun_new in *. simpl. rewrite V.
  replace (map NStore A ++ NRevert :: repeat NRevert (length A) ++ B)
    with (map NStore A ++ repeat NRevert (length A) ++ (NRevert :: B)).
  - rewrite IHA; auto using NInv_new_store. simpl.
    rewrite revert_store_new_node; auto. split; auto.
  - f_equal. apply repeat_shift.
Qed.

Lemma fork_old_lemma : forall A B x, NInv x -> all_valid store_old_node x A ->
  nrun_old (map NStore A ++ repeat NRevert (length A) ++ B) x = nrun_old B x.
Proof.
  induction A; simpl; intros; auto.
  destruct H0 as [[V G] AV]. unfold nrun_old in *. simpl. rewrite V.
  replace (map NStore A ++ NRevert :: repeat NRevert (length A) ++ B)
    with (map NStore A ++ repeat NRevert (length A) ++ (NRevert :: B)).
  - rewrite IHA; auto using NInv_old_store. simpl.
    rewrite revert_store_old_node; auto. split; auto.
  - f_equal. apply repeat_shift.
Qed.

Lemma fork_new_obs : forall A B x, NInv_new x -> all_valid store_new_node x A ->
  obs (nrun_new (map NStore A ++ repeat NRevert (length A) ++ B) x) = obs (nrun_new B x).
Proof. intros. rewrite fork_new_lemma; auto. Qed.

Lemma fork_old_obs : forall A B x, NInv x -> all_valid store_old_node x A ->
  obs (nrun_old (map NStore A ++ repeat NRevert (length A) ++ B) x) = obs (nrun_old B x).
Proof. intros. rewrite fork_old_lemma; auto. Qed.
