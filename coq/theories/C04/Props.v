(* C04 — property theorems only. *)
From Coq Require Import List NArith Bool.
From V Require Import C03.Model C03.Proofs_inv C03.Proofs_new C04.Model C04.Proofs.
Import ListNotations.
Open Scope N_scope.

(* NEW backend: for every node state satisfying the invariant (kept by every Store, see below) and every
   block the node can store, RevertHead succeeds and gives back a node equal on every index family:
   state buckets, history logs, headers, hash->number, transactions/receipts, tx-hash and L1-message
   lookups, state updates, commitments, casm metadata, running filter, chain height. *)
Theorem C04_new : forall x b, NInv_new x -> valid_next x b = true ->
  exists x', revert_new_node (store_new_node x b) = Some x' /\ obs x' = obs x.
Proof. exact c04_new_lemma. Qed.
Print Assumptions C04_new.

(* LEGACY backend: the same, with no guard (since juno commit 1b89e86 the reverse diff of a slot without a
   history entry above n-1 is the head value, so a zero write to an absent slot reverts like any other). *)
Theorem C04_old : forall x b, NInv x -> valid_next x b = true ->
  exists x', revert_old_node (store_old_node x b) = Some x' /\ obs x' = obs x.
Proof. exact c04_old_lemma. Qed.
Print Assumptions C04_old.

(* the invariants are kept, so the theorems apply along every chain *)
Theorem C04_inv_new : forall x b, NInv_new x -> valid_next x b = true -> NInv_new (store_new_node x b).
Proof. exact NInv_new_store. Qed.
Print Assumptions C04_inv_new.
Theorem C04_inv_old : forall x b, NInv x -> valid_next x b = true -> NInv (store_old_node x b).
Proof. exact NInv_old_store. Qed.
Print Assumptions C04_inv_old.

(* fork convergence: follow fork A, revert it block by block, follow fork B == follow fork B *)
Theorem fork_converges : forall A B x, NInv_new x -> all_valid store_new_node x A ->
  obs (nrun_new (map NStore A ++ repeat NRevert (length A) ++ B) x) = obs (nrun_new B x).
Proof. intros. rewrite fork_new_lemma; auto. Qed.
Print Assumptions fork_converges.

Theorem fork_converges_old : forall A B x, NInv x -> all_valid store_old_node x A ->
  obs (nrun_old (map NStore A ++ repeat NRevert (length A) ++ B) x) = obs (nrun_old B x).
Proof. intros. rewrite fork_old_lemma; auto. Qed.
Print Assumptions fork_converges_old.

(* ---------- non-vacuity; the block that used to break the legacy revert ---------- *)
Definition g0 : block := mkBlock 1001 (mkDiff [(256, 10)] [] [] [] []) [(501, None); (502, Some 601)] 1 1 [(20, 30)] [].
Definition b1 : block := mkBlock 1002 (mkDiff [] [] [] [((256, 7), 0)] []) [] 2 2 [] [].
Definition x1 : node := store_old_node node_empty g0.

(* block 1 writes zero to the never-written slot 7 (DESIGN 8.1): storable, and reverted exactly *)
Example ex_old_noop_zero_reverts : valid_next x1 b1 = true /\ revert_old_node (store_old_node x1 b1) = Some x1.
Proof. vm_compute. split; reflexivity. Qed.
Example ex_new_reverts : revert_new_node (store_new_node (store_new_node node_empty g0) b1) = Some (store_new_node node_empty g0).
Proof. vm_compute. reflexivity. Qed.
Definition b1' : block := mkBlock 1002 (mkDiff [] [] [] [((256, 7), 3)] []) [(503, None)] 2 2 [] [20].
Example ex_old_reverts : revert_old_node (store_old_node x1 b1') = Some x1.
Proof. vm_compute. reflexivity. Qed.
Example ex_hyps_satisfiable : valid_next x1 b1' = true /\ valid_next node_empty g0 = true.
Proof. vm_compute. repeat split. Qed.
Example ex_fork : all_valid store_new_node (store_new_node node_empty g0) [b1'].
Proof. vm_compute. repeat split. Qed.
Example ex_fork_old : all_valid store_old_node x1 [b1].
Proof. vm_compute. repeat split. Qed.
