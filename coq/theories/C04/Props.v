(* C04 — property theorems only. *)
From Coq Require Import List NArith Bool.
From V Require Import C03.Model C03.Proofs_inv C03.Proofs_new C04.Model C04.Proofs.
Import ListNotations.
Open Scope N_scope.

(* NEW backend: for every node state satisfying the invariant (kept by every Store, see below) and every
   block the node can store, RevertHead succeeds and gives back a node equal on every index family:
   state buckets (system contracts 0x1/0x2 included), history logs, headers, hash->number,
   transactions/receipts, tx-hash and L1-message lookups, state updates, commitments, casm metadata,
   running filter, chain height.  [sys_guard]: the block leaves the system contracts it writes to with a
   non-empty storage; without it the statement is false for juno (C04_new_sys_refuted). *)
Theorem C04_new : forall x b, NInv_new x -> valid_next x b = true -> sys_guard (n_st x) (b_diff b) = true ->
  exists x', revert_new_node (store_new_node x b) = Some x' /\ obs x' = obs x.
Proof. exact c04_new_lemma. Qed.
Print Assumptions C04_new.

(* LEGACY backend: the same (no guard for the no-op zero write since juno commit 1b89e86: the reverse diff of
   a slot without a history entry above n-1 is the head value). *)
Theorem C04_old : forall x b, NInv x -> valid_next x b = true -> sys_guard (n_st x) (b_diff b) = true ->
  exists x', revert_old_node (store_old_node x b) = Some x' /\ obs x' = obs x.
Proof. exact c04_old_lemma. Qed.
Print Assumptions C04_old.

(* the invariants are kept, so the theorems apply along every chain *)
Theorem C04_inv_new : forall x b, NInv_new x -> valid_next x b = true -> sys_guard (n_st x) (b_diff b) = true ->
  NInv_new (store_new_node x b).
Proof. exact NInv_new_store. Qed.
Print Assumptions C04_inv_new.
Theorem C04_inv_old : forall x b, NInv x -> valid_next x b = true -> sys_guard (n_st x) (b_diff b) = true ->
  NInv (store_old_node x b).
Proof. exact NInv_old_store. Qed.
Print Assumptions C04_inv_old.

(* fork convergence: follow fork A, revert it block by block, follow fork B == follow fork B
   ([all_valid]: every block of A is accepted and satisfies the system-contract guard) *)
Theorem fork_converges : forall A B x, NInv_new x -> all_valid store_new_node x A ->
  obs (nrun_new (map NStore A ++ repeat NRevert (length A) ++ B) x) = obs (nrun_new B x).
Proof. exact fork_new_obs. Qed.
Print Assumptions fork_converges.

Theorem fork_converges_old : forall A B x, NInv x -> all_valid store_old_node x A ->
  obs (nrun_old (map NStore A ++ repeat NRevert (length A) ++ B) x) = obs (nrun_old B x).
Proof. exact fork_old_obs. Qed.
Print Assumptions fork_converges_old.

(* ---------- classes delivered with a block for its deployed contracts (juno commit 007ff78) ----------
   A block may come with class definitions it does not declare: the synchroniser fetches the definition of the
   class of every contract the block deploys when the node does not know it yet, and Update registers every
   delivered definition under the block's number.  [valid_next] (through valid_diffb / deliv_ok) allows exactly
   such deliveries: each delivered hash is the class hash of one of the block's own deployed contracts, is not
   declared by the block and is listed once.  C04_new / C04_old above already quantify over these blocks; the
   two statements below spell out what they say about the class table: Store registers a delivered class the node
   did not know under the block's number, and RevertHead gives back the class table of the node that never
   stored the block (the class is gone again; a class known before keeps its record). *)
Theorem C04_revert_removes_delivered_classes : forall x b, NInv_new x -> valid_next x b = true ->
  sys_guard (n_st x) (b_diff b) = true ->
  (forall h, In h (d_deliv (b_diff b)) -> get (s_decl (n_st x)) [h] = None ->
     get (s_decl (n_st (store_new_node x b))) [h] = Some (s_next (n_st x))) /\
  exists x', revert_new_node (store_new_node x b) = Some x' /\ s_decl (n_st x') = s_decl (n_st x).
Proof. exact deliv_new_lemma. Qed.
Print Assumptions C04_revert_removes_delivered_classes.

Theorem C04_revert_removes_delivered_classes_old : forall x b, NInv x -> valid_next x b = true ->
  sys_guard (n_st x) (b_diff b) = true ->
  (forall h, In h (d_deliv (b_diff b)) -> get (s_decl (n_st x)) [h] = None ->
     get (s_decl (n_st (store_old_node x b))) [h] = Some (s_next (n_st x))) /\
  exists x', revert_old_node (store_old_node x b) = Some x' /\ s_decl (n_st x') = s_decl (n_st x).
Proof. exact deliv_old_lemma. Qed.
Print Assumptions C04_revert_removes_delivered_classes_old.

(* block 0 deploys contract 0x100 with class 10 and comes with the definition of class 10, which it does not
   declare; block 1 (after the revert) DECLARES class 10 *)
Definition gd : block := mkBlock 3001 (mkDiff [(256, 10)] [] [] [] [] [10]) [] 1 1 false [] [].
Definition gp : block := mkBlock 3002 (mkDiff [(257, 11)] [] [] [] [] []) [] 2 2 false [] [].
Definition ge : block := mkBlock 3003 (mkDiff [] [] [] [] [10] []) [] 3 3 false [] [].

(* BEFORE the repair State.Revert (both backends) walked the declared class lists only: the class delivered for
   the deployed contract survived RevertHead - the node that stored and reverted the block differs from the node
   that never saw it (class table, getClass at head), and a later declaration of the same hash keeps the reverted
   block's declared-at height (0 instead of 1).  This is the defect repaired by 007ff78; the repaired model
   reverts the same block exactly. *)
Theorem C04_revert_before_fix_refuted :
  valid_next node_empty gd = true /\ sys_guard (n_st node_empty) (b_diff gd) = true /\
  (exists x', revert_new_node_before_007ff78 (store_new_node node_empty gd) = Some x' /\ obs x' <> obs node_empty /\
     get (s_decl (n_st x')) [10] = Some 0 /\ read_head (n_st x') (QDecl 10) = Found 0 /\
     read_head (n_st (store_new_node (store_new_node x' gp) ge)) (QDecl 10) = Found 0 /\
     read_head (n_st (store_new_node (store_new_node node_empty gp) ge)) (QDecl 10) = Found 1) /\
  (exists x', revert_old_node_before_007ff78 (store_old_node node_empty gd) = Some x' /\ obs x' <> obs node_empty /\
     get (s_decl (n_st x')) [10] = Some 0 /\ read_head (n_st x') (QDecl 10) = Found 0 /\
     read_head (n_st (store_old_node (store_old_node x' gp) ge)) (QDecl 10) = Found 0 /\
     read_head (n_st (store_old_node (store_old_node node_empty gp) ge)) (QDecl 10) = Found 1) /\
  revert_new_node (store_new_node node_empty gd) = Some node_empty /\
  revert_old_node (store_old_node node_empty gd) = Some node_empty.
Proof.
  split; [vm_compute; reflexivity|]. split; [vm_compute; reflexivity|]. split; [|split].
  - eexists. split; [vm_compute; reflexivity|]. split; [|vm_compute; repeat split; reflexivity].
    vm_compute. intro H. discriminate H.
  - eexists. split; [vm_compute; reflexivity|]. split; [|vm_compute; repeat split; reflexivity].
    vm_compute. intro H. discriminate H.
  - vm_compute. split; reflexivity.
Qed.
Print Assumptions C04_revert_before_fix_refuted.

(* the admissibility condition is not decorative: a class delivered with a block that deploys no contract of that
   class is registered by Update and not removed by the repaired Revert either (juno accepts such a Store call; the
   synchroniser never makes one) *)
Definition gx : block := mkBlock 3004 (mkDiff [(256, 11)] [] [] [] [] [10]) [] 1 1 false [] [].
Example ex_deliv_admissibility_needed :
  valid_next node_empty gx = false /\
  exists x', revert_new_node (store_new_node node_empty gx) = Some x' /\ get (s_decl (n_st x')) [10] = Some 0.
Proof. split; [vm_compute; reflexivity|]. eexists. split; vm_compute; reflexivity. Qed.

(* delivered classes along a fork: fork A = [gd] (delivers class 10), fork B = [gp; ge] *)
Example ex_deliv_fork : all_valid store_new_node node_empty [gd] /\ all_valid store_old_node node_empty [gd] /\
  obs (nrun_new (map NStore [gd] ++ repeat NRevert 1 ++ [NStore gp; NStore ge]) node_empty) = obs (nrun_new [NStore gp; NStore ge] node_empty).
Proof. vm_compute. repeat split; reflexivity. Qed.

(* ---------- without the guard: a block that empties a system contract (replayed on the real node,
   findings/C04.md) ---------- *)
Definition wr (a k v : N) : diff := mkDiff [] [] [] [((a, k), v)] [] [].
Definition blk (h : N) (d : diff) : block := mkBlock h d [] h 0 false [] [].
Definition s0 : block := blk 2001 (wr 1 1 5).      (* block 0: slot 1 of system contract 0x1 := 5 *)
Definition s1 : block := blk 2002 (wr 1 1 0).      (* block 1: back to zero - the contract's storage is empty *)
Definition s2 : block := blk 2003 (mkDiff [(256, 10)] [] [] [] [] []).   (* block 2: unrelated *)

(* NEW backend: Update removed the emptied contract; Revert of that block creates it again from the reverse
   diff, stamped with the REVERTED block's number 1 instead of 0: the node that stored and reverted block 1
   differs from the node that never saw it - deployment height 1 vs 0, and the historical read of block 0
   (even of the head block, by number) answers "not found" where the other node answers 5. *)
Theorem C04_new_sys_refuted :
  let x := store_new_node node_empty s0 in
  NInv_new x /\ valid_next x s1 = true /\
  exists x', revert_new_node (store_new_node x s1) = Some x' /\ obs x' <> obs x /\
    get (s_dh (n_st x')) [1] = Some 1 /\ get (s_dh (n_st x)) [1] = Some 0 /\
    read_new (n_st x') (QSlot 1 1) 0 = NotFound /\ read_new (n_st x) (QSlot 1 1) 0 = Found 5.
Proof.
  cbv zeta. split; [|split].
  - apply NInv_new_store; [split; [apply NInv_empty | apply Hist_empty] | vm_compute; reflexivity | vm_compute; reflexivity].
  - vm_compute. reflexivity.
  - eexists. split; [vm_compute; reflexivity|]. split; [|vm_compute; repeat split; reflexivity].
    vm_compute. intro H. discriminate H.
Qed.
Print Assumptions C04_new_sys_refuted.

(* LEGACY backend: Update keeps the emptied contract; purgesystemContracts - run by EVERY later RevertHead -
   removes it, the state root no longer matches the old root, RevertHead fails: after block 1 the node can
   not revert any block any more (not block 2, which has nothing to do with the contract). *)
Theorem C04_old_sys_refuted :
  let x := store_old_node (store_old_node node_empty s0) s1 in
  valid_next x s2 = true /\ sys_guard (n_st x) (b_diff s2) = true /\ revert_old_node (store_old_node x s2) = None /\
  s_next (n_st (nrun_old [NStore s0; NStore s1; NStore s2; NRevert; NRevert] node_empty)) = 3.
Proof. vm_compute. repeat split; reflexivity. Qed.
Print Assumptions C04_old_sys_refuted.

(* the blocks the guard excludes are exactly of this kind; a zero write that leaves another slot is fine *)
Example ex_sys_guard : sys_guard (n_st (store_new_node node_empty s0)) (b_diff s1) = false /\
  all_valid store_new_node node_empty [blk 1 (mkDiff [] [] [] [((1, 1), 5); ((1, 2), 6)] [] []); blk 2 (wr 1 1 0); blk 3 (wr 2 9 1)] /\
  all_valid store_old_node node_empty [blk 1 (mkDiff [] [] [] [((1, 1), 5); ((1, 2), 6)] [] []); blk 2 (wr 1 1 0); blk 3 (wr 2 9 1)].
Proof. vm_compute. repeat split; reflexivity. Qed.

(* ---------- non-vacuity; the block that used to break the legacy revert ---------- *)
Definition g0 : block := mkBlock 1001 (mkDiff [(256, 10)] [] [] [] [] []) [(501, None); (502, Some 601)] 1 1 false [(20, (30, 31))] [].
Definition b1 : block := mkBlock 1002 (mkDiff [] [] [] [((256, 7), 0)] [] []) [] 2 2 false [] [].
Definition x1 : node := store_old_node node_empty g0.

(* block 1 writes zero to the never-written slot 7 (DESIGN 8.1): storable, and reverted exactly *)
Example ex_old_noop_zero_reverts : valid_next x1 b1 = true /\ revert_old_node (store_old_node x1 b1) = Some x1.
Proof. vm_compute. split; reflexivity. Qed.
Example ex_new_reverts : revert_new_node (store_new_node (store_new_node node_empty g0) b1) = Some (store_new_node node_empty g0).
Proof. vm_compute. reflexivity. Qed.
(* block 1 (protocol 0.14.1) migrates the class block 0 declared under the old hash *)
Definition b1' : block := mkBlock 1002 (mkDiff [] [] [] [((256, 7), 3)] [] []) [(503, None)] 2 2 true [] [(20, 31)].
Example ex_old_reverts : revert_old_node (store_old_node x1 b1') = Some x1.
Proof. vm_compute. reflexivity. Qed.
Example ex_hyps_satisfiable : valid_next x1 b1' = true /\ valid_next node_empty g0 = true.
Proof. vm_compute. repeat split. Qed.
Example ex_casm_reads :
  casm_read (n_casm (store_old_node x1 b1')) 20 0 = Found 30 /\ casm_read (n_casm (store_old_node x1 b1')) 20 1 = Found 31 /\
  casm_head (n_casm x1) 20 = Found 30.
Proof. vm_compute. repeat split. Qed.
Example ex_fork : all_valid store_new_node (store_new_node node_empty g0) [b1'].
Proof. vm_compute. repeat split. Qed.
Example ex_fork_old : all_valid store_old_node x1 [b1].
Proof. vm_compute. repeat split. Qed.
