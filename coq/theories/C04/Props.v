(* C04 — property theorems only. *)
From Coq Require Import List NArith Bool.
From V Require Import C03.Model C03.Proofs_inv C03.Proofs_new C04.Model C04.Proofs.
Import ListNotations.
Open Scope N_scope.

(* NEW backend: for every node state satisfying the invariant (kept by every Store, see below) and every
   block the node can store, RevertHead succeeds and gives back a node equal on every index family:
   state buckets, history logs, headers, hash->number, transactions/receipts, tx-hash and L1-message
   lookups, state updates, commitments, casm metadata, running filter, chain height. *)
Theorem C04_new : forall x b, NInv_new x -> valid_next x b = true ->
  exists x', revert_new_node (store_new_node x b) = Some x' /\ obs x' = obs x.
Proof. exact c04_new_lemma. Qed.
Print Assumptions C04_new.

(* LEGACY backend: the same under the explicit guard (no zero write to an absent slot, or genesis). *)
Theorem C04_old : forall x b, NInv x -> valid_next x b = true -> guard_old x b = true ->
  exists x', revert_old_node (store_old_node x b) = Some x' /\ obs x' = obs x.
Proof. exact c04_old_lemma. Qed.
Print Assumptions C04_old.

(* the guard is exactly what is missing: without it RevertHead of the legacy backend fails *)
Theorem C04_old_guard_needed : forall x b, NInv x -> valid_next x b = true -> guard_old x b = false ->
  revert_old_node (store_old_node x b) = None.
Proof. exact c04_old_fails_lemma. Qed.
Print Assumptions C04_old_guard_needed.

(* the invariants are kept, so the theorems apply along every chain *)
Theorem C04_inv_new : forall x b, NInv_new x -> valid_next x b = true -> NInv_new (store_new_node x b).
Proof. exact NInv_new_store. Qed.
Print Assumptions C04_inv_new.
Theorem C04_inv_old : forall x b, NInv x -> valid_next x b = true -> NInv (store_old_node x b).
Proof. exact NInv_old_store. Qed.
Print Assumptions C04_inv_old.

(* fork convergence: follow fork A, revert it block by block, follow fork B == follow fork B *)
Theorem fork_converges : forall A B x, NInv_new x -> all_valid store_new_node (fun _ _ => true) x A ->
  obs (nrun_new (map NStore A ++ repeat NRevert (length A) ++ B) x) = obs (nrun_new B x).
Proof. intros. rewrite fork_new_lemma; auto. Qed.
Print Assumptions fork_converges.

Theorem fork_converges_old : forall A B x, NInv x -> all_valid store_old_node guard_old x A ->
  obs (nrun_old (map NStore A ++ repeat NRevert (length A) ++ B) x) = obs (nrun_old B x).
Proof. intros. rewrite fork_old_lemma; auto. Qed.
Print Assumptions fork_converges_old.

(* ---------- the observed defect: a concrete reachable node and storable block ---------- *)
Definition g0 : block := mkBlock 1001 (mkDiff [(256, 10)] [] [] [] []) [(501, None); (502, Some 601)] 1 1 [(20, 30)] [].
Definition b1 : block := mkBlock 1002 (mkDiff [] [] [] [((256, 7), 0)] []) [] 2 2 [] [].
Definition x1 : node := store_old_node node_empty g0.

Theorem C04_old_refuted : exists x b, NInv x /\ valid_next x b = true /\ revert_old_node (store_old_node x b) = None.
Proof.
  exists x1, b1. split; [|split].
  - apply NInv_old_store; [apply NInv_empty | vm_compute; reflexivity].
  - vm_compute. reflexivity.
  - vm_compute. reflexivity.
Qed.
Print Assumptions C04_old_refuted.

(* the same block on the new backend, and a non-zero write on the legacy one, revert fine *)
Example ex_new_reverts : revert_new_node (store_new_node (store_new_node node_empty g0) b1) = Some (store_new_node node_empty g0).
Proof. vm_compute. reflexivity. Qed.
Definition b1' : block := mkBlock 1002 (mkDiff [] [] [] [((256, 7), 3)] []) [(503, None)] 2 2 [] [20].
Example ex_old_reverts : revert_old_node (store_old_node x1 b1') = Some x1.
Proof. vm_compute. reflexivity. Qed.
Example ex_hyps_satisfiable : valid_next x1 b1' = true /\ guard_old x1 b1' = true /\ valid_next node_empty g0 = true.
Proof. vm_compute. repeat split. Qed.
Example ex_fork : all_valid store_new_node (fun _ _ => true) (store_new_node node_empty g0) [b1'].
Proof. vm_compute. repeat split. Qed.
