(* C05 — executable model of juno's block storage discipline (store / revert / prune / L1 head /
   running-filter snapshot / restart), at the granularity of write batches.

   Transcribed from blockchain/statebackend/{statebackend,deprecated,block_ops}.go,
   core/running_event_filter.go, pruner/{accessors,running_event_filter}.go.

   Abstraction. A block is (number, id, parent id, bloom keys); [id] is the block hash and stands for
   the whole content (transactions, receipts, state update, commitments, classes, new state root).
   The disk is the tuple of index families; a family holds the blocks whose entries of that family are
   on disk.  Hash-keyed families (hash->number, tx-hash lookup) are keyed by content, hence by id:
   block hashes and transaction hashes are assumed collision free (never checked by juno either).
   A batch is a list of writes applied atomically (Pebble's batch atomicity is trusted, C15).
   No proofs in this file; it is extracted to OCaml. *)
From Coq Require Import List NArith Bool.
Import ListNotations.
Open Scope N_scope.

Record block := { b_num : N; b_id : N; b_parent : N; b_bloom : list N }.

Fixpoint list_eqb (a b : list N) : bool :=
  match a, b with
  | [], [] => true
  | x :: a', y :: b' => (x =? y) && list_eqb a' b'
  | _, _ => false
  end.

Definition block_eqb (a b : block) : bool :=
  (b_num a =? b_num b) && (b_id a =? b_id b) && (b_parent a =? b_parent b) && list_eqb (b_bloom a) (b_bloom b).

(* index families *)
Inductive fam :=
| FHeader    (* BlockHeadersByNumber *)
| FHashNum   (* BlockHeaderNumbersByHash *)
| FTxs       (* BlockTransactions: transactions + receipts *)
| FTxIdx     (* TransactionBlockNumbersAndIndicesByHash (+ L1 handler message hashes) *)
| FSU        (* StateUpdatesByBlockNumber *)
| FCommit    (* BlockCommitments *)
| FClass     (* classes + casm hash metadata declared by the block *)
| FHist.     (* contract storage / nonce / class-hash history entries of the block *)

Definition all_fams : list fam := [FHeader; FHashNum; FTxs; FTxIdx; FSU; FCommit; FClass; FHist].

Definition fam_eqb (a b : fam) : bool :=
  match a, b with
  | FHeader, FHeader | FHashNum, FHashNum | FTxs, FTxs | FTxIdx, FTxIdx
  | FSU, FSU | FCommit, FCommit | FClass, FClass | FHist, FHist => true
  | _, _ => false
  end.

(* bloom columns of an aggregated filter: (block number, keys inserted for it); several entries for
   one number = union (bits are OR-ed) *)
Definition cols := list (N * list N).

Definition col_has (c : cols) (n k : N) : bool :=
  existsb (fun e => (fst e =? n) && existsb (N.eqb k) (snd e)) c.

Definition col_clear (n : N) (c : cols) : cols := filter (fun e => negb (fst e =? n)) c.

(* every bit of a is set in b *)
Definition cols_sub (a b : cols) : bool :=
  forallb (fun e => forallb (fun k => col_has b (fst e) k) (snd e)) a.

(* core.RunningEventFilter: inner window [from, from+W-1], next block, sticky init error *)
Record rfilter := { rf_from : N; rf_cols : cols; rf_next : N; rf_err : bool }.

Definition rf0 : rfilter := {| rf_from := 0; rf_cols := []; rf_next := 0; rf_err := false |}.

Record disk := {
  d_height : option N;                (* ChainHeight *)
  d_fam : fam -> list block;          (* the index families *)
  d_state : option N;                 (* state tries + root: id of the block whose post-state they hold *)
  d_windows : list (N * cols);        (* persisted aggregated bloom filters, by window start *)
  d_snap : option rfilter;            (* persisted running-filter snapshot *)
  d_l1 : option N                     (* L1 head *)
}.

Definition disk0 : disk :=
  {| d_height := None; d_fam := fun _ => []; d_state := None; d_windows := []; d_snap := None; d_l1 := None |}.

(* ---------- writes and batches ---------- *)
Inductive wr :=
| WAdd (f : fam) (b : block)           (* put the entries of family f for block b *)
| WDel (f : fam) (n id : N)            (* point deletes of the entries of block (n, id) in f *)
| WDelBelow (f : fam) (e : N)          (* range delete: every number < e *)
| WHeight (h : option N)
| WState (s : option N)
| WWindow (a : N) (c : option cols)    (* write / delete the aggregated filter of window a *)
| WWindowsBelow (a : N)                (* range delete of the aggregated filters below window a *)
| WSnap (s : rfilter)
| WSnapDel                             (* core.DeleteRunningEventFilter: the snapshot is consumed *)
| WL1 (h : N).

Definition batch := list wr.

Definition set_fam (d : disk) (f : fam) (l : list block) : disk :=
  {| d_height := d_height d;
     d_fam := fun g => if fam_eqb g f then l else d_fam d g;
     d_state := d_state d; d_windows := d_windows d; d_snap := d_snap d; d_l1 := d_l1 d |}.

Definition set_windows (d : disk) (w : list (N * cols)) : disk :=
  {| d_height := d_height d; d_fam := d_fam d; d_state := d_state d; d_windows := w;
     d_snap := d_snap d; d_l1 := d_l1 d |}.

Definition win_del (a : N) (w : list (N * cols)) : list (N * cols) :=
  filter (fun e => negb (fst e =? a)) w.

Definition apply_wr (d : disk) (w : wr) : disk :=
  match w with
  | WAdd f b => set_fam d f (b :: d_fam d f)
  | WDel f n id => set_fam d f (filter (fun b => negb ((b_num b =? n) && (b_id b =? id))) (d_fam d f))
  | WDelBelow f e => set_fam d f (filter (fun b => e <=? b_num b) (d_fam d f))
  | WHeight h => {| d_height := h; d_fam := d_fam d; d_state := d_state d; d_windows := d_windows d;
                    d_snap := d_snap d; d_l1 := d_l1 d |}
  | WState s => {| d_height := d_height d; d_fam := d_fam d; d_state := s; d_windows := d_windows d;
                   d_snap := d_snap d; d_l1 := d_l1 d |}
  | WWindow a (Some c) => set_windows d ((a, c) :: win_del a (d_windows d))
  | WWindow a None => set_windows d (win_del a (d_windows d))
  | WWindowsBelow a => set_windows d (filter (fun e => a <=? fst e) (d_windows d))
  | WSnap s => {| d_height := d_height d; d_fam := d_fam d; d_state := d_state d; d_windows := d_windows d;
                  d_snap := Some s; d_l1 := d_l1 d |}
  | WSnapDel => {| d_height := d_height d; d_fam := d_fam d; d_state := d_state d; d_windows := d_windows d;
                  d_snap := None; d_l1 := d_l1 d |}
  | WL1 h => {| d_height := d_height d; d_fam := d_fam d; d_state := d_state d; d_windows := d_windows d;
                d_snap := d_snap d; d_l1 := Some h |}
  end.

Definition apply_batch (d : disk) (b : batch) : disk := fold_left apply_wr b d.
Definition apply_batches (d : disk) (bs : list batch) : disk := fold_left apply_batch bs d.

(* ---------- reads ---------- *)
Definition find_num (n : N) (l : list block) : option block := find (fun b => b_num b =? n) l.
Definition header (d : disk) (n : N) : option block := find_num n (d_fam d FHeader).
Definition get_window (d : disk) (a : N) : option cols :=
  match find (fun e => fst e =? a) (d_windows d) with Some e => Some (snd e) | None => None end.

(* pruner.OldestRetainedBlock: lowest number in BlockCommitments *)
Definition floor (d : disk) : option N :=
  match d_fam d FCommit with
  | [] => None
  | b :: r => Some (fold_left (fun m x => N.min m (b_num x)) r (b_num b))
  end.
Definition floor0 (d : disk) : N := match floor d with Some x => x | None => 0 end.

Section WithWindow.
Variable W : N.    (* core.NumBlocksPerFilter = 8192; small values in the witnesses *)

Definition rf_to (rf : rfilter) : N := rf_from rf + W - 1.
Definition align (n : N) : N := n - n mod W.

(* RunningEventFilter.insert: error leaves the filter untouched; at the window end the full window is
   written THROUGH THE BATCH and the in-memory filter moves to the next window — before the commit. *)
Definition rf_insert (rf : rfilter) (n : N) (bl : list N) : option (list wr * rfilter) :=
  if rf_err rf then None
  else if (n <? rf_from rf) || (rf_to rf <? n) then None
  else
    let c := (n, bl) :: rf_cols rf in
    if n =? rf_to rf
    then Some ([WWindow (rf_from rf) (Some c)],
               {| rf_from := n + 1; rf_cols := []; rf_next := n + 1; rf_err := false |})
    else Some ([], {| rf_from := rf_from rf; rf_cols := c; rf_next := n + 1; rf_err := false |}).

(* RunningEventFilter.onReorg. Returns the writes (None = error) and the filter as the code leaves it.
   Crossing a window start backwards (code after /repo 5440575): the previous window is re-loaded from
   the database (not from the batch) and ITS persisted copy is deleted through the batch; the running
   window that is left was empty and never persisted. *)
Definition rf_reorg (d : disk) (rf : rfilter) : option (list wr) * rfilter :=
  if rf_err rf then (None, rf)
  else if rf_next rf =? 0 then (None, rf)           (* unreachable behind the chain-height read *)
  else
    let cur := rf_next rf - 1 in
    if (0 <? rf_from rf) && (cur + 1 =? rf_from rf) then
      match get_window d (align cur) with
      | None => (None, rf)
      | Some c => (Some [WWindow (align cur) None],
                   {| rf_from := align cur; rf_cols := col_clear cur c; rf_next := cur; rf_err := false |})
      end
    else if (cur <? rf_from rf) || (rf_to rf <? cur)
    then (None, {| rf_from := rf_from rf; rf_cols := rf_cols rf; rf_next := cur; rf_err := false |})
    else (Some [], {| rf_from := rf_from rf; rf_cols := col_clear cur (rf_cols rf); rf_next := cur; rf_err := false |}).

(* fillRunningEventFilter: insert the header blooms of [from, from+cnt); a missing header or an
   out-of-range insert is an initialisation error (sticky). When a fill reaches a window end the full
   window is written STRAIGHT to the database (one direct Put per window): rf_fill_w collects these
   writes. *)
Fixpoint rf_fill (d : disk) (rf : rfilter) (from : N) (cnt : nat) : rfilter :=
  match cnt with
  | O => rf
  | S c =>
      match header d from with
      | None => {| rf_from := rf_from rf; rf_cols := rf_cols rf; rf_next := rf_next rf; rf_err := true |}
      | Some hb =>
          match rf_insert rf from (b_bloom hb) with
          | None => {| rf_from := rf_from rf; rf_cols := rf_cols rf; rf_next := rf_next rf; rf_err := true |}
          | Some (_, rf') => rf_fill d rf' (from + 1) c
          end
      end
  end.

Definition rf_fill_range (d : disk) (rf : rfilter) (from to : N) : rfilter :=
  rf_fill d rf from (N.to_nat (to + 1 - from)).

Fixpoint rf_fill_w (d : disk) (rf : rfilter) (from : N) (cnt : nat) : list wr :=
  match cnt with
  | O => []
  | S c =>
      match header d from with
      | None => []
      | Some hb =>
          match rf_insert rf from (b_bloom hb) with
          | None => []
          | Some (ws, rf') => ws ++ rf_fill_w d rf' (from + 1) c
          end
      end
  end.

Definition rf_fill_range_w (d : disk) (rf : rfilter) (from to : N) : list wr :=
  rf_fill_w d rf from (N.to_nat (to + 1 - from)).

(* rebuildRunningEventFilter (pruner version; with nothing pruned it coincides with core's): walk back
   from the head's window to the nearest persisted window, bounded by the retention floor's window. *)
Fixpoint find_anchor (d : disk) (fl a : N) (fuel : nat) : option N :=
  match get_window d a with
  | Some _ => Some a
  | None =>
      if a <=? fl then None
      else match fuel with O => None | S f => find_anchor d fl (a - W) f end
  end.

Definition rf_new (from next : N) : rfilter := {| rf_from := from; rf_cols := []; rf_next := next; rf_err := false |}.

Definition rf_rebuild (d : disk) (latest : N) : rfilter :=
  let fl := floor0 d in
  match find_anchor d (align fl) (align latest) (N.to_nat (align latest / W)) with
  | Some a => rf_fill_range d (rf_new (a + W) (a + W)) (a + W) latest
  | None => rf_fill_range d (rf_new (align fl) fl) fl latest
  end.

Definition rf_rebuild_w (d : disk) (latest : N) : list wr :=
  let fl := floor0 d in
  match find_anchor d (align fl) (align latest) (N.to_nat (align latest / W)) with
  | Some a => rf_fill_range_w d (rf_new (a + W) (a + W)) (a + W) latest
  | None => rf_fill_range_w d (rf_new (align fl) fl) fl latest
  end.

(* InitializeRunningEventFilter: what a fresh process computes from the disk at the FIRST USE of its
   (lazy) running filter. The persisted snapshot is read and — since the repair of the stale-snapshot
   findings — CONSUMED: whenever a chain height exists and a snapshot was read successfully it is
   deleted with a direct write (its own commit) before it is used as-is, filled, or discarded in
   favour of a rebuild. On an empty chain (no height) the initialiser returns before reading it. *)
Definition reinit (d : disk) : rfilter :=
  match d_height d with
  | None => rf0
  | Some latest =>
      match d_snap d with
      | Some s =>
          if rf_next s =? latest + 1 then s
          else if (rf_next s <=? latest) && (latest <=? rf_to s)
          then let nx := N.max (rf_next s) (floor0 d) in
               rf_fill_range d {| rf_from := rf_from s; rf_cols := rf_cols s; rf_next := nx; rf_err := false |} nx latest
          else rf_rebuild d latest
      | None => rf_rebuild d latest
      end
  end.

(* ... the direct window writes of the fill / rebuild (each one its own commit) ... *)
Definition reinit_fill_w (d : disk) : list wr :=
  match d_height d with
  | None => []
  | Some latest =>
      match d_snap d with
      | Some s =>
          if rf_next s =? latest + 1 then []
          else if (rf_next s <=? latest) && (latest <=? rf_to s)
          then let nx := N.max (rf_next s) (floor0 d) in
               rf_fill_range_w d {| rf_from := rf_from s; rf_cols := rf_cols s; rf_next := nx; rf_err := false |} nx latest
          else rf_rebuild_w d latest
      | None => rf_rebuild_w d latest
      end
  end.

(* ... preceded by the delete of the consumed snapshot (core.DeleteRunningEventFilter, a direct write
   issued right after the snapshot was read, before any window write) *)
Definition snap_consume_w (d : disk) : list wr :=
  match d_height d, d_snap d with
  | Some _, Some _ => [WSnapDel]
  | _, _ => []
  end.

(* all direct writes of an initialisation, in order; the fill reads headers and windows only, so it is
   computed on d (the pruning-aware initialiser even reads through a database snapshot taken first) *)
Definition reinit_w (d : disk) : list wr := snap_consume_w d ++ reinit_fill_w d.

(* the filter of a process whose initialisation failed: every later use returns the init error *)
Definition rf_dead : rfilter := {| rf_from := 0; rf_cols := []; rf_next := 0; rf_err := true |}.

(* ---------- operations ---------- *)
Inductive op :=
| Store (b : block)
| Revert
| Prune (keep_hist : bool) (e : N)
                              (* pruner.PruneUpto(e) with a batch rotated after every block; keep_hist: the
                                 node runs the new state backend, whose history buckets PruneUpto does not
                                 touch (it deletes the Deprecated* history buckets only) *)
| SetL1 (h : N)
| Snapshot                    (* WriteRunningEventFilter *)
| Restart (graceful : bool).  (* process exit, process start and the FIRST USE of the new process's lazy
                                 running filter (ensureInit: first Store / RevertHead / event query /
                                 snapshot). graceful: snapshot first (node shutdown); both: the direct
                                 writes of the initialisation (snapshot delete, then window writes), memory
                                 := reinit disk. Between process start and first use only Prune / SetL1
                                 can run; they neither read nor write the filter or the snapshot, so the
                                 history "crash, start, Prune, first use" is [Prune; Restart false] and
                                 "shutdown snapshot, start, Prune, first use" is [Snapshot; Prune; Restart true]
                                 (the second snapshot write re-writes the same value). The harness family
                                 lazy.go runs the real code WITHOUT forcing the first use. *)

(* verifyBlockSuccession *)
Definition succession_ok (d : disk) (b : block) : bool :=
  match d_height d with
  | None => (b_num b =? 0) && (b_parent b =? 0)
  | Some h => match header d h with
              | Some hb => (b_num b =? h + 1) && (b_parent b =? b_id hb)
              | None => false
              end
  end.

Definition store_batch (b : block) (ws : list wr) : batch :=
  WState (Some (b_id b)) :: map (fun f => WAdd f b) all_fams ++ [WHeight (Some (b_num b))] ++ ws.

(* RevertHead of both state backends (blockchain/statebackend/{deprecated,statebackend}.go): state revert,
   deleteBlockContent, then — since the repair findings/C05-snapshot-invalidated-by-revert.patch —
   core.DeleteRunningEventFilter ON THE REVERT'S OWN BATCH (the persisted running-filter snapshot describes
   a chain that contains the reverted block; deleting an absent key is a no-op), then OnReorgWithBatch (ws). *)
Definition revert_batch (hb : block) (ws : list wr) : batch :=
  WState (if b_num hb =? 0 then None else Some (b_parent hb))
  :: map (fun f => WDel f (b_num hb) (b_id hb)) all_fams
  ++ [WHeight (if b_num hb =? 0 then None else Some (b_num hb - 1)); WSnapDel] ++ ws.

(* the revert batch BEFORE that repair: the snapshot is left alone (kept for the refutation witness
   C05_stale_snapshot_before_fix_refuted only) *)
Definition revert_batch_before_fix (hb : block) (ws : list wr) : batch :=
  WState (if b_num hb =? 0 then None else Some (b_parent hb))
  :: map (fun f => WDel f (b_num hb) (b_id hb)) all_fams
  ++ [WHeight (if b_num hb =? 0 then None else Some (b_num hb - 1))] ++ ws.

(* pruneHashKeyedUpto: the per-block batches for blocks [n, n+cnt); stops at a missing state update
   (the call returns the error, earlier rotated batches stay committed). Result: batches, completed?
   Since /repo 0e9468e the hash->number mapping of a block is deleted ONE ITERATION LATE, in the batch of
   its successor ([carry]: initially the carve-out left at start-1 by the previous call); wherever the loop
   stops, the mapping of the last pruned block survives (the pending carry is dropped). *)
Fixpoint prune_blocks (d : disk) (kh : bool) (e n : N) (cnt : nat) (carry : list wr) : list batch * bool :=
  match cnt with
  | O => ([], true)
  | S c =>
      match find_num n (d_fam d FSU) with
      | None => ([], false)
      | Some sb =>
          let ws := carry ++ [WDel FTxIdx n (b_id sb)] ++ (if kh then [] else [WDel FHist n (b_id sb)]) in
          let (r, ok) := prune_blocks d kh e (n + 1) c [WDel FHashNum n (b_id sb)] in
          (ws :: r, ok)
      end
  end.

Definition block_hash_lag : N := 10.

Definition prune_data_batch (e : N) : batch :=
  [WDelBelow FCommit e; WDelBelow FSU e; WDelBelow FTxs e;
   WDelBelow FHeader (if block_hash_lag <? e then e - block_hash_lag else 0)]
  ++ (if e <? W then [] else [WWindowsBelow (align e)]).

Definition prune_plan (d : disk) (kh : bool) (e : N) : list batch :=
  match floor d with
  | None => []
  | Some start =>
      if e <=? start then []
      else
        let carve :=
          if 0 <? start then
            match header d (start - 1) with
            | Some pb => Some [WDel FHashNum (start - 1) (b_id pb)]
            | None => None
            end
          else Some [] in
        match carve with
        | None => []                                   (* error before anything is written *)
        | Some cw =>
            let (bs, ok) := prune_blocks d kh e start (N.to_nat (e - start)) cw in
            if ok then bs ++ [[]; prune_data_batch e] else bs
        end
  end.

(* plan: the batches an operation commits, in order, and the memory state the code has after its
   closure ran (i.e. BEFORE the commit) *)
Definition plan (o : op) (d : disk) (m : rfilter) : list batch * rfilter :=
  match o with
  | Store b =>
      if succession_ok d b then
        match rf_insert m (b_num b) (b_bloom b) with
        | Some (ws, m') => ([store_batch b ws], m')
        | None => ([], m)
        end
      else ([], m)
  | Revert =>
      match d_height d with
      | None => ([], m)
      | Some h =>
          match find_num h (d_fam d FSU), header d h with
          | Some _, Some hb =>
              match rf_reorg d m with
              | (Some ws, m') => ([revert_batch hb ws], m')
              | (None, m') => ([], m')
              end
          | _, _ => ([], m)
          end
      end
  | Prune kh e => (prune_plan d kh e, m)
  | SetL1 h => ([[WL1 h]], m)
  | Snapshot => (if rf_err m then [] else [[WSnap m]], m)
  | Restart g =>
      let bs0 := if g && negb (rf_err m) then [[WSnap m]] else [] in
      let d1 := apply_batches d bs0 in
      (bs0 ++ map (fun w => [w]) (reinit_w d1), reinit d1)
  end.

Definition step (st : disk * rfilter) (o : op) : disk * rfilter :=
  let (bs, m') := plan o (fst st) (snd st) in
  (apply_batches (fst st) bs, m').

(* the commit with index k of operation o fails *)
Definition fault_op (o : op) (k : nat) (d : disk) (m : rfilter) : disk * rfilter :=
  let (bs, m') := plan o d m in
  let d' := apply_batches d (firstn k bs) in
  match o with
  | Restart g =>
      if (g && negb (rf_err m)) && Nat.eqb k 0
      then step (d, m) (Restart false)   (* the snapshot write fails at shutdown; restart on the old disk *)
      else (d', rf_dead)                 (* a write of the initialisation fails: sticky init error *)
  | _ => (d', m')                        (* memory KEPT as the closure left it *)
  end.

Definition run (ops : list op) (st : disk * rfilter) : disk * rfilter := fold_left step ops st.

(* crash right after the k-th committed batch of the whole run: later batches are dropped; the
   recovered node has the surviving disk and memory := reinit disk *)
Fixpoint crash_disk (ops : list op) (k : nat) (st : disk * rfilter) : disk :=
  match ops with
  | [] => fst st
  | o :: r =>
      let bs := fst (plan o (fst st) (snd st)) in
      if Nat.leb (length bs) k then crash_disk r (k - length bs) (step st o)
      else apply_batches (fst st) (firstn k bs)
  end.

Definition exec_crash (ops : list op) (k : nat) (st : disk * rfilter) : disk * rfilter :=
  let d := crash_disk ops k st in (d, reinit d).

(* the commit with index k (0-based over the whole run) returns an error: that batch is dropped, the
   operation returns (its later batches are never attempted), memory is KEPT as the closure left it,
   and the run continues on the same process *)
Fixpoint exec_fault (ops : list op) (k : nat) (st : disk * rfilter) : disk * rfilter :=
  match ops with
  | [] => st
  | o :: r =>
      let bs := fst (plan o (fst st) (snd st)) in
      if Nat.leb (length bs) k then exec_fault r (k - length bs) (step st o)
      else run r (fault_op o k (fst st) (snd st))
  end.

(* ---------- the code BEFORE the two repairs (kept for refutation witnesses only) ----------
   (1) revert repair (findings/C05-snapshot-invalidated-by-revert.patch): RevertHead did not delete the
       persisted snapshot. plan_revert_before_fix = today's code with the old revert batch.
   (2) consume repair (/repo 1231538): InitializeRunningEventFilter did not delete the snapshot it read: a
       Restart committed the optional snapshot and the window writes only. plan_before_fix = the code before
       BOTH repairs (witness C05_crash_index_refuted_before_fix). *)
Definition plan_revert_before_fix (o : op) (d : disk) (m : rfilter) : list batch * rfilter :=
  match o with
  | Revert =>
      match d_height d with
      | None => ([], m)
      | Some h =>
          match find_num h (d_fam d FSU), header d h with
          | Some _, Some hb =>
              match rf_reorg d m with
              | (Some ws, m') => ([revert_batch_before_fix hb ws], m')
              | (None, m') => ([], m')
              end
          | _, _ => ([], m)
          end
      end
  | _ => plan o d m
  end.

Definition plan_before_fix (o : op) (d : disk) (m : rfilter) : list batch * rfilter :=
  match o with
  | Restart g =>
      let bs0 := if g && negb (rf_err m) then [[WSnap m]] else [] in
      let d1 := apply_batches d bs0 in
      (bs0 ++ map (fun w => [w]) (reinit_fill_w d1), reinit d1)
  | _ => plan_revert_before_fix o d m
  end.

(* step / crash image over an arbitrary plan function *)
Definition step_with (pl : op -> disk -> rfilter -> list batch * rfilter) (st : disk * rfilter) (o : op)
  : disk * rfilter :=
  let (bs, m') := pl o (fst st) (snd st) in
  (apply_batches (fst st) bs, m').

Fixpoint crash_disk_with (pl : op -> disk -> rfilter -> list batch * rfilter)
  (ops : list op) (k : nat) (st : disk * rfilter) : disk :=
  match ops with
  | [] => fst st
  | o :: r =>
      let bs := fst (pl o (fst st) (snd st)) in
      if Nat.leb (length bs) k then crash_disk_with pl r (k - length bs) (step_with pl st o)
      else apply_batches (fst st) (firstn k bs)
  end.

Definition step_before_fix := step_with plan_before_fix.
Definition crash_disk_before_fix := crash_disk_with plan_before_fix.
Definition step_revert_before_fix := step_with plan_revert_before_fix.
Definition crash_disk_revert_before_fix := crash_disk_with plan_revert_before_fix.

(* ---------- the property predicates (evaluated by the harness on decoded images) ---------- *)
Definition in_fam (b : block) (l : list block) : bool := existsb (block_eqb b) l.

(* every entry is at or below the head and is the entry of THE header of its number (if retained);
   on the header family itself this says: one header per number *)
Definition entries_ok (d : disk) (h : N) (l : list block) : bool :=
  forallb (fun b => (b_num b <=? h) &&
                    match header d (b_num b) with Some hb => block_eqb b hb | None => true end) l.

Definition linked (d : disk) : bool :=
  forallb (fun b => if b_num b =? 0 then true
                    else match header d (b_num b - 1) with
                         | Some p => b_parent b =? b_id p
                         | None => true
                         end) (d_fam d FHeader).

Definition opt_eqb (a b : option N) : bool :=
  match a, b with Some x, Some y => x =? y | None, None => true | _, _ => false end.

(* persisted windows are aligned and lie completely at or below the head *)
Definition windows_ok (h : N) (d : disk) : bool :=
  forallb (fun e => (fst e mod W =? 0) && (fst e + W - 1 <=? h)) (d_windows d).

(* a persisted running-filter snapshot is a well-formed filter: aligned window, no init error, next
   inside [from, to] *)
Definition rf_wf (s : rfilter) : bool :=
  (rf_from s mod W =? 0) && negb (rf_err s) && (rf_from s <=? rf_next s) && (rf_next s <=? rf_to s).

Definition snap_ok (d : disk) : bool :=
  match d_snap d with Some s => rf_wf s | None => true end.

Definition is_nil {A} (l : list A) : bool := match l with [] => true | _ => false end.

(* the head block is fully present (height Some h) or fully absent (None) across all families, nothing
   lies above it, the state tries hold the head's state, persisted windows describe a prefix *)
Definition consistent (d : disk) : bool :=
  snap_ok d &&
  match d_height d with
  | None => forallb (fun f => is_nil (d_fam d f)) all_fams
            && opt_eqb (d_state d) None && is_nil (d_windows d)
  | Some h =>
      match header d h with
      | None => false
      | Some hb =>
          forallb (fun f => in_fam hb (d_fam d f)) all_fams
          && forallb (fun f => entries_ok d h (d_fam d f)) all_fams
          && linked d
          && opt_eqb (d_state d) (Some (b_id hb))
          && windows_ok h d
      end
  end.

Definition block_full (d : disk) (n : N) : bool :=
  match header d n with
  | Some b => forallb (fun f => in_fam b (d_fam d f)) all_fams
  | None => false
  end.

(* the in-memory filter is where a process that stored block h last has it *)
Definition mem_sync (d : disk) (m : rfilter) : bool :=
  negb (rf_err m) &&
  match d_height d with
  | Some h => (rf_next m =? h + 1) && (rf_from m =? align (h + 1))
  | None => (rf_next m =? 0) && (rf_from m =? 0)
  end.

(* headers are contiguous up to the head, and every block that still has commitments (= is retained,
   pruner.OldestRetainedBlock) has its header: what the filter initialisation reads is there *)
Definition hdr_present (d : disk) (n : N) : bool :=
  match header d n with Some _ => true | None => false end.

Definition cont (d : disk) : bool :=
  match d_height d with
  | None => true
  | Some h => forallb (fun x => (h <=? b_num x) || hdr_present d (b_num x + 1)) (d_fam d FHeader)
              && forallb (fun x => hdr_present d (b_num x)) (d_fam d FCommit)
  end.

(* assumptions about the environment per operation, evaluated in the state the operation starts from:
   no Revert onto a pruned block, Prune keeps the head *)
Definition op_env (d : disk) (o : op) : bool :=
  match o with
  | Revert => match d_height d with Some h => (h =? 0) || block_full d (h - 1) | None => true end
  | Prune _ e => match d_height d with Some h => e <=? h | None => true end
  | _ => true
  end.

Fixpoint ops_env (ops : list op) (st : disk * rfilter) : bool :=
  match ops with
  | [] => true
  | o :: r => op_env (fst st) o && ops_env r (step st o)
  end.

(* DESCRIPTIVE ONLY since the revert repair (no theorem has it as a hypothesis any more; the harness reports it
   in its histograms): no Revert removes a block that a persisted running-filter snapshot covers. It fails
   exactly for a snapshot written by the RUNNING process (Blockchain.WriteRunningEventFilter called before
   the end of its life) followed by a revert — which is harmless now, because the revert batch deletes the
   snapshot (revert_batch), and was the registered stale-snapshot finding before (revert_batch_before_fix). *)
Definition op_fresh (d : disk) (o : op) : bool :=
  match o with
  | Revert => match d_height d, d_snap d with
              | Some h, Some s => rf_next s <=? h
              | _, _ => true
              end
  | _ => true
  end.

Fixpoint ops_fresh (ops : list op) (st : disk * rfilter) : bool :=
  match ops with
  | [] => true
  | o :: r => op_fresh (fst st) o && ops_fresh r (step st o)
  end.

(* DESCRIPTIVE ONLY since the revert repair (formerly the hypothesis of C05_index). The snapshot discipline of
   juno's node: WriteRunningEventFilter is called at shutdown only (node.Run: after every service has
   stopped), i.e. no block is reverted between a snapshot and the next restart.
   Purely syntactic: [pending] = a snapshot written by the running process may be on disk. The harness uses
   the flag to count the crash images of histories that violate it (they fall under C05_index like all
   others) and to name the class of a stale answer on a tree without the repair. *)
Fixpoint snap_discipline (ops : list op) (pending : bool) : bool :=
  match ops with
  | [] => true
  | Snapshot :: r => snap_discipline r true
  | Restart _ :: r => snap_discipline r false
  | Revert :: r => negb pending && snap_discipline r pending
  | _ :: r => snap_discipline r pending
  end.

(* a snapshot that describes blocks (next > 0) is on disk and not yet consumed *)
Definition snap_pending (d : disk) : bool :=
  match d_snap d with Some s => negb (rf_next s =? 0) | None => false end.

Definition is_restart (o : op) : bool := match o with Restart _ => true | _ => false end.

(* the filter can take block h+1 *)
Definition rf_ready (n : N) (rf : rfilter) : bool :=
  negb (rf_err rf) && (rf_from rf <=? n) && (n <=? rf_to rf).

Definition next_num (d : disk) : N := match d_height d with Some h => h + 1 | None => 0 end.

(* a fresh process can store the next block *)
Definition recover_ready (d : disk) : bool := rf_ready (next_num d) (reinit d).

Definition stores (d : disk) (m : rfilter) (b : block) : bool :=
  match fst (plan (Store b) d m) with [_] => true | _ => false end.

(* event index vs chain, for a process whose running filter is rf: for every retained header, the
   filter consulted for that block (running window, else the persisted window read from disk) has all
   bits of the header's bloom — no false negatives, and no missing window (a query over a block whose
   window is neither running nor persisted fails) *)
Definition covers (d : disk) (rf : rfilter) : bool :=
  negb (rf_err rf) &&
  forallb (fun hb =>
             let n := b_num hb in
             if (rf_from rf <=? n) && (n <=? rf_to rf)
             then forallb (fun k => col_has (rf_cols rf) n k) (b_bloom hb)
             else match get_window d (align n) with
                  | Some c => forallb (fun k => col_has c n k) (b_bloom hb)
                  | None => false
                  end)
          (filter (fun hb => floor0 d <=? b_num hb) (d_fam d FHeader)).

(* a fresh process: its initialisation may first re-write windows *)
Definition index_covers (d : disk) : bool := covers (apply_batch d (reinit_w d)) (reinit d).
Definition index_covers_before_fix (d : disk) : bool := covers (apply_batch d (reinit_fill_w d)) (reinit d).

(* memory vs disk *)
Definition rf_equiv (a b : rfilter) : bool :=
  (rf_from a =? rf_from b) && (rf_next a =? rf_next b) && Bool.eqb (rf_err a) (rf_err b)
  && cols_sub (rf_cols a) (rf_cols b) && cols_sub (rf_cols b) (rf_cols a).

(* same window and no bit missing (no false negatives); the weakening that survives a failed store *)
Definition rf_superset (m r : rfilter) : bool :=
  negb (rf_err m) && (rf_from m =? rf_from r) && cols_sub (rf_cols r) (rf_cols m).

Definition rf_aligned (m : rfilter) : bool := rf_from m mod W =? 0.

(* the same process, with its in-memory filter m *)
Definition mem_covers (d : disk) (m : rfilter) : bool := covers d m.

(* number of batches each operation of a crash-free run commits *)
Fixpoint batch_counts (ops : list op) (st : disk * rfilter) : list nat :=
  match ops with
  | [] => []
  | o :: r => length (fst (plan o (fst st) (snd st))) :: batch_counts r (step st o)
  end.

End WithWindow.
