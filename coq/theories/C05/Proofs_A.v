(* C05 — lemmas, part A: list / equality facts, the shape of the disk after a batch, and
   preservation of [consistent] by the store and revert batches. *)
From Coq Require Import List NArith Bool Lia ZifyN ZifyNat ZifyBool.
From V Require Import C05.Model.
Import ListNotations.
Open Scope N_scope.

(* ---------- equality deciders ---------- *)
Lemma list_eqb_refl : forall l, list_eqb l l = true.
Proof. induction l; simpl; auto. rewrite N.eqb_refl; auto. Qed.

Lemma list_eqb_eq : forall a b, list_eqb a b = true -> a = b.
Proof.
  induction a; destruct b; simpl; intros H; try discriminate; auto.
  apply andb_true_iff in H as [H1 H2]. apply N.eqb_eq in H1. subst. f_equal; auto.
Qed.

Lemma block_eqb_refl : forall b, block_eqb b b = true.
Proof. intros. unfold block_eqb. rewrite !N.eqb_refl, list_eqb_refl. reflexivity. Qed.

Lemma block_eqb_eq : forall a b, block_eqb a b = true -> a = b.
Proof.
  intros [n i p bl] [n' i' p' bl']. unfold block_eqb; simpl. intros H.
  repeat (apply andb_true_iff in H as [H ?]).
  apply N.eqb_eq in H. apply N.eqb_eq in H2. apply N.eqb_eq in H1. apply list_eqb_eq in H0. subst; auto.
Qed.

Lemma in_fam_In : forall b l, in_fam b l = true <-> In b l.
Proof.
  intros. unfold in_fam. rewrite existsb_exists. split.
  - intros [x [Hx He]]. apply block_eqb_eq in He. subst; auto.
  - intros H. exists b. split; auto. apply block_eqb_refl.
Qed.

Lemma forall_fams : forall P : fam -> bool, forallb P all_fams = true <-> forall f, P f = true.
Proof.
  intros. split.
  - intros H f. simpl in H. repeat (apply andb_true_iff in H as [? H]). destruct f; assumption.
  - intros H. simpl. rewrite !H. reflexivity.
Qed.

Lemma fam_eqb_refl : forall f, fam_eqb f f = true.
Proof. destruct f; reflexivity. Qed.

Lemma fam_eqb_eq : forall f g, fam_eqb f g = true -> f = g.
Proof. destruct f, g; simpl; intros; try discriminate; reflexivity. Qed.

(* ---------- find ---------- *)
Lemma find_num_some : forall n l b, find_num n l = Some b -> In b l /\ b_num b = n.
Proof.
  unfold find_num. intros n l b H. apply find_some in H as [H1 H2]. apply N.eqb_eq in H2. auto.
Qed.

Lemma find_num_filter : forall n l Q,
  (forall x, b_num x = n -> In x l -> Q x = true) ->
  find_num n (filter Q l) = find_num n l.
Proof.
  unfold find_num. induction l; simpl; intros Q H; auto.
  destruct (b_num a =? n) eqn:E.
  - apply N.eqb_eq in E. rewrite (H a E) by auto. simpl. apply N.eqb_eq in E. rewrite E. reflexivity.
  - destruct (Q a); simpl; [rewrite E|]; apply IHl; intros; apply H; auto.
Qed.

Lemma find_num_filter_none : forall n l Q, find_num n l = None -> find_num n (filter Q l) = None.
Proof.
  unfold find_num. induction l; simpl; intros Q H; auto.
  destruct (b_num a =? n) eqn:E; [discriminate|].
  destruct (Q a); simpl; [rewrite E|]; auto.
Qed.

Lemma forallb_filter : forall {A} (P Q : A -> bool) l, forallb P l = true -> forallb P (filter Q l) = true.
Proof.
  induction l; simpl; intros; auto. apply andb_true_iff in H as [H1 H2].
  destruct (Q a); simpl; auto. rewrite H1; auto.
Qed.

(* ---------- shape of the disk after writes ---------- *)
Definition same_meta (d d' : disk) : Prop :=
  d_snap d' = d_snap d /\ d_l1 d' = d_l1 d.

Lemma apply_batch_app : forall d a b, apply_batch d (a ++ b) = apply_batch (apply_batch d a) b.
Proof. intros. unfold apply_batch. apply fold_left_app. Qed.

(* the writes of the running filter only touch the windows *)
Definition window_only (w : wr) : Prop :=
  match w with WWindow _ _ => True | _ => False end.

Lemma window_only_fields : forall ws d, Forall window_only ws ->
  let d' := apply_batch d ws in
  d_height d' = d_height d /\ (forall f, d_fam d' f = d_fam d f) /\ d_state d' = d_state d
  /\ d_snap d' = d_snap d /\ d_l1 d' = d_l1 d.
Proof.
  induction ws; simpl; intros d H.
  - repeat split; auto.
  - inversion H; subst. specialize (IHws (apply_wr d a) H3). simpl in IHws.
    destruct IHws as (A & B & C & D & E).
    destruct a; simpl in H2; try contradiction.
    destruct c; simpl in *; repeat split; auto.
Qed.

Lemma adds_fields : forall b d,
  let d' := apply_batch d (map (fun f => WAdd f b) all_fams) in
  d_height d' = d_height d /\ (forall f, d_fam d' f = b :: d_fam d f) /\ d_state d' = d_state d
  /\ d_windows d' = d_windows d /\ d_snap d' = d_snap d /\ d_l1 d' = d_l1 d.
Proof.
  intros. subst d'. simpl. repeat split; auto. destruct f; reflexivity.
Qed.

Lemma dels_fields : forall n id d,
  let d' := apply_batch d (map (fun f => WDel f n id) all_fams) in
  d_height d' = d_height d
  /\ (forall f, d_fam d' f = filter (fun b => negb ((b_num b =? n) && (b_id b =? id))) (d_fam d f))
  /\ d_state d' = d_state d
  /\ d_windows d' = d_windows d /\ d_snap d' = d_snap d /\ d_l1 d' = d_l1 d.
Proof.
  intros. subst d'. simpl. repeat split; auto. destruct f; reflexivity.
Qed.

(* ---------- the invariant in Prop form ---------- *)
Record InvS (W : N) (d : disk) (h : N) (hb : block) : Prop := {
  i_head : header d h = Some hb;
  i_full : forall f, In hb (d_fam d f);
  i_ent : forall f x, In x (d_fam d f) ->
          b_num x <= h /\ (forall y, header d (b_num x) = Some y -> x = y);
  i_link : forall x, In x (d_fam d FHeader) -> b_num x <> 0 ->
           forall p, header d (b_num x - 1) = Some p -> b_parent x = b_id p;
  i_state : d_state d = Some (b_id hb);
  i_win : forall a c, In (a, c) (d_windows d) -> a mod W = 0 /\ a + W - 1 <= h
}.

Lemma opt_eqb_eq : forall a b, opt_eqb a b = true <-> a = b.
Proof.
  destruct a, b; simpl; split; intros H; try discriminate; auto.
  - apply N.eqb_eq in H; subst; auto.
  - inversion H; apply N.eqb_refl.
Qed.

Lemma consistent_some : forall W d h, d_height d = Some h ->
  (consistent W d = true <-> snap_ok W d = true /\ exists hb, InvS W d h hb).
Proof.
  intros W d h Hh. unfold consistent. rewrite Hh. split.
  - intros H. apply andb_true_iff in H as [Hs H]. split; auto.
    destruct (header d h) as [hb|] eqn:Hd; [|discriminate].
    apply andb_true_iff in H as [H H0]. apply andb_true_iff in H as [H H1].
    apply andb_true_iff in H as [H H2]. apply andb_true_iff in H as [H H3].
    exists hb. constructor; auto.
    + intros f. apply in_fam_In. revert f. apply forall_fams. auto.
    + intros f x Hx. rewrite forall_fams in H3. specialize (H3 f). unfold entries_ok in H3.
      rewrite forallb_forall in H3. specialize (H3 x Hx). apply andb_true_iff in H3 as [A B].
      split; [lia|]. intros y Hy. rewrite Hy in B. apply block_eqb_eq; auto.
    + intros x Hx Hn p Hp. unfold linked in H2. rewrite forallb_forall in H2. specialize (H2 x Hx).
      destruct (b_num x =? 0) eqn:E; [lia|]. rewrite Hp in H2. lia.
    + apply opt_eqb_eq; auto.
    + intros a c Hin. unfold windows_ok in H0. rewrite forallb_forall in H0. specialize (H0 _ Hin).
      simpl in H0. lia.
  - intros [Hs [hb I]]. destruct I. rewrite Hs, i_head0. rewrite andb_true_l.
    apply andb_true_iff; split; [apply andb_true_iff; split; [apply andb_true_iff; split; [apply andb_true_iff; split|]|]|].
    + apply forall_fams. intros f. apply in_fam_In; auto.
    + apply forall_fams. intros f. unfold entries_ok. apply forallb_forall. intros x Hx.
      destruct (i_ent0 f x Hx) as [A B]. apply andb_true_iff. split; [lia|].
      destruct (header d (b_num x)) eqn:E; auto. rewrite (B b eq_refl). apply block_eqb_refl.
    + unfold linked. apply forallb_forall. intros x Hx. destruct (b_num x =? 0) eqn:E; auto.
      destruct (header d (b_num x - 1)) eqn:E2; auto. apply N.eqb_eq. apply i_link0; auto. lia.
    + apply opt_eqb_eq; auto.
    + unfold windows_ok. apply forallb_forall. intros [a c] Hin. simpl.
      destruct (i_win0 a c Hin). apply andb_true_iff. split; lia.
Qed.

Lemma is_nil_eq : forall {A} (l : list A), is_nil l = true <-> l = [].
Proof. destruct l; simpl; split; intros; auto; discriminate. Qed.

Lemma consistent_none : forall W d, d_height d = None ->
  (consistent W d = true <-> snap_ok W d = true /\ (forall f, d_fam d f = []) /\ d_state d = None /\ d_windows d = []).
Proof.
  intros W d Hh. unfold consistent. rewrite Hh. split.
  - intros H. apply andb_true_iff in H as [Hs H].
    apply andb_true_iff in H as [H H0]. apply andb_true_iff in H as [H H1].
    repeat split; auto.
    + intros f. apply is_nil_eq. revert f. apply forall_fams. auto.
    + apply opt_eqb_eq; auto.
    + apply is_nil_eq; auto.
  - intros (Hs & A & B & C). rewrite Hs. rewrite andb_true_l.
    apply andb_true_iff; split; [apply andb_true_iff; split|].
    + apply forall_fams. intros. apply is_nil_eq; auto.
    + apply opt_eqb_eq; auto.
    + apply is_nil_eq; auto.
Qed.
