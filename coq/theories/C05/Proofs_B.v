(* C05 — lemmas, part B: [consistent] is preserved by the store batch, the revert batch, the
   direct writes and by every batch of a prune. *)
From Coq Require Import List NArith Bool Lia ZifyN ZifyNat ZifyBool.
From V Require Import C05.Model C05.Proofs_A.
Import ListNotations.
Open Scope N_scope.

(* ---------- arithmetic on windows ---------- *)
Lemma mod0_add : forall W a, 0 < W -> a mod W = 0 -> (a + W) mod W = 0.
Proof.
  intros W a HW H. apply N.mod_divides in H; [|lia]. destruct H as [q Hq]. subst.
  replace (W * q + W) with ((q + 1) * W) by lia. apply N.mod_mul. lia.
Qed.

Lemma align_mod : forall W n, 0 < W -> align W n mod W = 0.
Proof.
  intros W n HW. unfold align. assert (Hn : W <> 0) by lia. pose proof (N.div_mod n W Hn) as H.
  remember (n / W) as q. remember (n mod W) as r. clear Heqq Heqr.
  replace (n - r) with (q * W) by (subst n; lia). apply N.mod_mul. lia.
Qed.

(* ---------- windows after the filter's writes ---------- *)
Lemma ws_windows : forall ws d1 d2, Forall window_only ws -> d_windows d1 = d_windows d2 ->
  d_windows (apply_batch d1 ws) = d_windows (apply_batch d2 ws).
Proof.
  induction ws; simpl; intros d1 d2 H E; auto. inversion H; subst.
  destruct a; simpl in H2; try contradiction. destruct c; apply IHws; auto; simpl; congruence.
Qed.

Lemma In_win_del : forall a x w, In x (win_del a w) -> In x w.
Proof. unfold win_del. intros a x w H. apply filter_In in H. tauto. Qed.

Lemma store_fields : forall d b ws, Forall window_only ws ->
  let d' := apply_batch d (store_batch b ws) in
  d_height d' = Some (b_num b) /\ (forall f, d_fam d' f = b :: d_fam d f)
  /\ d_state d' = Some (b_id b) /\ d_snap d' = d_snap d
  /\ d_windows d' = d_windows (apply_batch d ws).
Proof.
  intros d b ws Hw d'. subst d'. unfold store_batch.
  change (WState (Some (b_id b)) :: map (fun f => WAdd f b) all_fams ++ [WHeight (Some (b_num b))] ++ ws)
    with ((WState (Some (b_id b)) :: map (fun f => WAdd f b) all_fams ++ [WHeight (Some (b_num b))]) ++ ws).
  rewrite apply_batch_app.
  set (d1 := apply_batch d (WState (Some (b_id b)) :: map (fun f => WAdd f b) all_fams ++ [WHeight (Some (b_num b))])).
  destruct (window_only_fields ws d1 Hw) as (A & B & C & D & E).
  rewrite A, C, D. repeat split; auto.
  - intros f. rewrite B. subst d1. simpl. destruct f; reflexivity.
  - apply ws_windows; auto.
Qed.

Lemma revert_fields : forall d hb ws, Forall window_only ws ->
  let d' := apply_batch d (revert_batch hb ws) in
  d_height d' = (if b_num hb =? 0 then None else Some (b_num hb - 1))
  /\ (forall f, d_fam d' f = filter (fun b => negb ((b_num b =? b_num hb) && (b_id b =? b_id hb))) (d_fam d f))
  /\ d_state d' = (if b_num hb =? 0 then None else Some (b_parent hb)) /\ d_snap d' = None
  /\ d_windows d' = d_windows (apply_batch d ws).
Proof.
  intros d hb ws Hw d'. subst d'. unfold revert_batch.
  match goal with |- context [apply_batch d (?x :: ?l ++ ?y ++ ws)] =>
    change (x :: l ++ y ++ ws) with ((x :: l ++ y) ++ ws); set (pre := x :: l ++ y) end.
  rewrite apply_batch_app.
  destruct (window_only_fields ws (apply_batch d pre) Hw) as (A & B & C & D & E).
  rewrite A, C, D. repeat split; auto.
  - intros f. rewrite B. subst pre. simpl. destruct f; reflexivity.
  - apply ws_windows; auto.
Qed.

(* ---------- store ---------- *)
Lemma rf_insert_shape : forall W m n bl ws m', 0 < W -> rf_aligned W m = true ->
  rf_insert W m n bl = Some (ws, m') ->
  rf_aligned W m' = true /\
  (ws = [] \/ exists c, ws = [WWindow (rf_from m) (Some c)] /\ rf_from m + W - 1 = n).
Proof.
  unfold rf_insert, rf_aligned, rf_to. intros W m n bl ws m' HW Ha H.
  destruct (rf_err m); [discriminate|].
  destruct ((n <? rf_from m) || (rf_from m + W - 1 <? n)); [discriminate|].
  destruct (n =? rf_from m + W - 1) eqn:E; inversion H; subst; simpl.
  - apply N.eqb_eq in E. split.
    + apply N.eqb_eq. replace (n + 1) with (rf_from m + W) by lia. apply mod0_add; auto. lia.
    + right. eexists. split; eauto.
  - split; auto.
Qed.

Lemma header_cons_other : forall d d' b n, d_fam d' FHeader = b :: d_fam d FHeader ->
  b_num b <> n -> header d' n = header d n.
Proof.
  intros. unfold header, find_num. rewrite H. simpl. destruct (b_num b =? n) eqn:E; [lia|reflexivity].
Qed.

Lemma store_consistent : forall W d m b ws m',
  0 < W -> consistent W d = true -> rf_aligned W m = true ->
  succession_ok d b = true -> rf_insert W m (b_num b) (b_bloom b) = Some (ws, m') ->
  consistent W (apply_batch d (store_batch b ws)) = true /\ rf_aligned W m' = true.
Proof.
  intros W d m b ws m' HW Hc Ha Hs Hi.
  destruct (rf_insert_shape W m _ _ _ _ HW Ha Hi) as [Ha' Hws]. split; auto.
  assert (Hwo : Forall window_only ws).
  { destruct Hws as [->|[c [-> _]]]; repeat constructor. }
  destruct (store_fields d b ws Hwo) as (A & B & C & D & E).
  set (d' := apply_batch d (store_batch b ws)) in *.
  (* facts about the old disk *)
  assert (F : snap_ok W d = true /\
              (forall f x, In x (d_fam d f) -> b_num x < b_num b /\ (forall y, header d (b_num x) = Some y -> x = y)) /\
              (forall x, In x (d_fam d FHeader) -> b_num x <> 0 -> forall p, header d (b_num x - 1) = Some p -> b_parent x = b_id p) /\
              (b_num b <> 0 -> forall p, header d (b_num b - 1) = Some p -> b_parent b = b_id p) /\
              (forall a c, In (a, c) (d_windows d) -> a mod W = 0 /\ a + W - 1 <= b_num b)).
  { unfold succession_ok in Hs. destruct (d_height d) as [h|] eqn:Hh.
    - apply (consistent_some W d h Hh) in Hc as [Hsn [hb I]]. destruct I as [i_head0 i_full0 i_ent0 i_link0 i_state0 i_win0].
      rewrite i_head0 in Hs. apply andb_true_iff in Hs as [S1 S2].
      apply N.eqb_eq in S1. apply N.eqb_eq in S2.
      split; auto. split; [|split; [|split]].
      + intros f x Hx. destruct (i_ent0 f x Hx). split; auto. lia.
      + auto.
      + intros _ p Hp. replace (b_num b - 1) with h in Hp by lia. rewrite i_head0 in Hp. inversion Hp; subst. auto.
      + intros a c Hin. destruct (i_win0 a c Hin). split; auto. lia.
    - apply (consistent_none W d Hh) in Hc as (Hsn & Hf & _ & Hw).
      apply andb_true_iff in Hs as [S1 S2]. apply N.eqb_eq in S1.
      split; auto. split; [|split; [|split]].
      + intros f x Hx. rewrite Hf in Hx. destruct Hx.
      + intros x Hx. rewrite Hf in Hx. destruct Hx.
      + intros. lia.
      + intros a c Hin. rewrite Hw in Hin. destruct Hin. }
  destruct F as (F0 & F1 & F2 & F3 & F4).
  apply (consistent_some W d' (b_num b) A). split.
  { unfold snap_ok. rewrite D. exact F0. }
  exists b. constructor.
  - unfold header, find_num. rewrite B. simpl. rewrite N.eqb_refl. reflexivity.
  - intros f. rewrite B. left; reflexivity.
  - intros f x Hx. rewrite B in Hx. destruct Hx as [<-|Hx].
    + split; [lia|]. intros y Hy. unfold header, find_num in Hy. rewrite B in Hy. simpl in Hy.
      rewrite N.eqb_refl in Hy. inversion Hy; auto.
    + destruct (F1 f x Hx) as [L Ag]. split; [lia|]. intros y Hy.
      rewrite (header_cons_other d d' b (b_num x) (B FHeader)) in Hy by lia. auto.
  - intros x Hx Hn p Hp. rewrite B in Hx. destruct Hx as [<-|Hx].
    + rewrite (header_cons_other d d' b _ (B FHeader)) in Hp by lia. auto.
    + destruct (F1 FHeader x Hx) as [L _].
      rewrite (header_cons_other d d' b _ (B FHeader)) in Hp by lia. eapply F2; eauto.
  - exact C.
  - intros a c Hin. rewrite E in Hin.
    destruct Hws as [->|[c0 [-> Hto]]]; simpl in Hin.
    + apply F4 in Hin. auto.
    + destruct Hin as [Heq|Hin].
      * inversion Heq; subst. split; [apply N.eqb_eq; exact Ha|lia].
      * apply In_win_del in Hin. apply F4 in Hin. auto.
Qed.

(* ---------- revert ---------- *)
Lemma filter_nil : forall {A} (P : A -> bool) l, (forall x, In x l -> P x = false) -> filter P l = [].
Proof.
  induction l; simpl; intros; auto. rewrite (H a) by auto. apply IHl. intros; apply H; auto.
Qed.

Lemma all_false_nil : forall {A} (l : list A), (forall x, In x l -> False) -> l = [].
Proof. destruct l; auto. intros H. exfalso. apply (H a). left; auto. Qed.

Lemma boundary_arith : forall W a h, 0 < W -> a mod W = 0 -> a + W - 1 = h -> (h + 1) mod W = 0.
Proof. intros. replace (h + 1) with (a + W) by lia. apply mod0_add; auto. Qed.

(* a window that ends at h is the window of h *)
Lemma align_end : forall W a h, 0 < W -> a mod W = 0 -> a + W - 1 = h -> align W h = a.
Proof.
  intros W a h HW Ha He. unfold align. apply N.mod_divides in Ha; [|lia]. destruct Ha as [q Hq].
  assert (Hm : h mod W = W - 1).
  { symmetry. apply N.mod_unique with q; lia. }
  rewrite Hm. lia.
Qed.

Lemma revert_consistent : forall W d h hb ws,
  0 < W -> consistent W d = true -> d_height d = Some h -> header d h = Some hb ->
  ((h =? 0) || block_full d (h - 1)) = true ->
  (ws = [] \/ exists a, ws = [WWindow a None]) ->
  ((h + 1) mod W = 0 -> ws = [WWindow (align W h) None]) ->
  consistent W (apply_batch d (revert_batch hb ws)) = true.
Proof.
  intros W d h hb ws HW Hc Hh Hd Hp Hws Hsync.
  assert (Hwo : Forall window_only ws).
  { destruct Hws as [->|[a ->]]; repeat constructor. }
  destruct (revert_fields d hb ws Hwo) as (A & B & C & D & E).
  set (d' := apply_batch d (revert_batch hb ws)) in *.
  apply (consistent_some W d h Hh) in Hc as [Hsn [hb0 I]]. destruct I as [i_head0 i_full0 i_ent0 i_link0 i_state0 i_win0].
  rewrite Hd in i_head0. inversion i_head0; subst hb0. clear i_head0.
  assert (Hnum : b_num hb = h). { apply find_num_some in Hd. tauto. }
  assert (Hwin : forall a c, In (a, c) (d_windows d') -> a mod W = 0 /\ a + W - 1 < h).
  { intros a c Hin. rewrite E in Hin.
    assert (Hin' : In (a, c) (d_windows d)).
    { destruct Hws as [->|[a0 ->]]; simpl in Hin; auto. eapply In_win_del; eauto. }
    destruct (i_win0 a c Hin') as [M L]. split; auto.
    assert (a + W - 1 <> h).
    { intros X. destruct ((h + 1) mod W =? 0) eqn:Hb.
      - apply N.eqb_eq in Hb. rewrite (Hsync Hb) in Hin. simpl in Hin. unfold win_del in Hin.
        apply filter_In in Hin as [_ Hq]. simpl in Hq.
        rewrite (align_end W a h HW M X) in Hq. rewrite N.eqb_refl in Hq. discriminate.
      - apply N.eqb_neq in Hb. apply Hb. eapply boundary_arith; eauto. }
    lia. }
  assert (Hsn' : snap_ok W d' = true). { unfold snap_ok. rewrite D. reflexivity. }
  assert (Hkeep : forall f x, In x (d_fam d' f) -> In x (d_fam d f) /\ b_num x < h).
  { intros f x Hx. rewrite B in Hx. apply filter_In in Hx as [Hx Hq]. split; auto.
    destruct (i_ent0 f x Hx) as [L Ag].
    assert (b_num x <> h).
    { intros X. rewrite X in Ag. specialize (Ag hb Hd). subst x.
      rewrite !N.eqb_refl in Hq. discriminate. }
    lia. }
  assert (Hhdr : forall n, n < h -> header d' n = header d n).
  { intros n Hn. unfold header. rewrite B. apply find_num_filter.
    intros x Hx _. rewrite Hx, Hnum. destruct (n =? h) eqn:X; [lia|reflexivity]. }
  destruct (h =? 0) eqn:Hz.
  - (* genesis reverted: everything absent *)
    apply N.eqb_eq in Hz. subst h. rewrite Hnum in A, C. simpl in A, C.
    apply (consistent_none W d' A). repeat split; auto.
    + intros f. apply all_false_nil. intros x Hx. apply Hkeep in Hx. lia.
    + apply all_false_nil. intros [a c] Hin. apply Hwin in Hin. lia.
  - simpl in Hp. unfold block_full in Hp.
    destruct (header d (h - 1)) as [pb|] eqn:Hpb; [|discriminate].
    rewrite forall_fams in Hp.
    assert (Hpn : b_num pb = h - 1). { apply find_num_some in Hpb. tauto. }
    assert (Hne : (b_num hb =? 0) = false). { rewrite Hnum. exact Hz. }
    rewrite Hne in A, C.
    rewrite Hnum in A.
    apply (consistent_some W d' (h - 1) A). split; auto.
    exists pb. constructor.
    + rewrite Hhdr by lia. exact Hpb.
    + intros f. rewrite B. apply filter_In. split; [apply in_fam_In; apply Hp|].
      rewrite Hpn, Hnum. destruct (h - 1 =? h) eqn:X; [lia|reflexivity].
    + intros f x Hx. destruct (Hkeep f x Hx) as [Hx' L]. split; [lia|].
      intros y Hy. rewrite Hhdr in Hy by lia. destruct (i_ent0 f x Hx'). auto.
    + intros x Hx Hn p Hp'. destruct (Hkeep FHeader x Hx) as [Hx' L].
      rewrite Hhdr in Hp' by lia. eapply i_link0; eauto.
    + rewrite C. f_equal. apply (i_link0 hb (i_full0 FHeader)); [lia|]. rewrite Hnum. exact Hpb.
    + intros a c Hin. apply Hwin in Hin. lia.
Qed.
