(* C05 — lemmas, part C: prune batches (deletion-only writes below the head), direct writes,
   alignment of the re-initialised filter, and the run-level crash theorem. *)
From Coq Require Import List NArith Bool Lia ZifyN ZifyNat ZifyBool.
From V Require Import C05.Model C05.Proofs_A C05.Proofs_B.
Import ListNotations.
Open Scope N_scope.

(* ---------- find under a number-determined filter ---------- *)
Lemma find_num_filter_gone : forall n l Q,
  (forall x, In x l -> b_num x = n -> Q x = false) -> find_num n (filter Q l) = None.
Proof.
  unfold find_num. induction l; simpl; intros Q H; auto.
  destruct (Q a) eqn:E; simpl.
  - destruct (b_num a =? n) eqn:E2.
    + apply N.eqb_eq in E2. rewrite (H a) in E by auto. discriminate.
    + apply IHl. intros; apply H; auto.
  - apply IHl. intros; apply H; auto.
Qed.

Lemma find_num_filter_det : forall n l Q,
  (forall x y, b_num x = b_num y -> Q x = Q y) ->
  find_num n (filter Q l) = find_num n l \/ find_num n (filter Q l) = None.
Proof.
  intros n l Q Hdet. destruct (find_num n l) as [z|] eqn:E.
  - destruct (find_num_some _ _ _ E) as [Hin Hn]. destruct (Q z) eqn:Qz.
    + left. rewrite <- E. apply find_num_filter. intros x Hx _. rewrite (Hdet x z); auto. congruence.
    + right. apply find_num_filter_gone. intros x _ Hx. rewrite (Hdet x z); auto. congruence.
  - left. apply find_num_filter_none. exact E.
Qed.

(* ---------- deletion-only writes below the head ---------- *)
Definition prune_wr (h : N) (w : wr) : Prop :=
  match w with
  | WDel f n _ => f <> FHeader /\ n < h
  | WDelBelow _ e => e <= h
  | WWindowsBelow _ => True
  | _ => False
  end.

Lemma set_fam_same : forall d f l, d_fam (set_fam d f l) f = l.
Proof. intros. simpl. rewrite fam_eqb_refl. reflexivity. Qed.

Lemma set_fam_other : forall d f g l, g <> f -> d_fam (set_fam d f l) g = d_fam d g.
Proof.
  intros. simpl. destruct (fam_eqb g f) eqn:E; auto. apply fam_eqb_eq in E. contradiction.
Qed.

(* one family is filtered by Q; Q keeps the head; on the header family Q only looks at the number *)
Lemma filter_fam_InvS : forall W d h hb f Q,
  InvS W d h hb -> Q hb = true ->
  (f = FHeader -> forall x y, b_num x = b_num y -> Q x = Q y) ->
  InvS W (set_fam d f (filter Q (d_fam d f))) h hb.
Proof.
  intros W d h hb f Q I Qh Hdet. destruct I as [i_head0 i_full0 i_ent0 i_link0 i_state0 i_win0].
  set (d' := set_fam d f (filter Q (d_fam d f))).
  assert (Hsub : forall g x, In x (d_fam d' g) -> In x (d_fam d g)).
  { intros g x Hx. destruct (fam_eqb g f) eqn:E.
    - apply fam_eqb_eq in E. subst g. unfold d' in Hx. rewrite set_fam_same in Hx.
      apply filter_In in Hx. tauto.
    - unfold d' in Hx. simpl in Hx. rewrite E in Hx. exact Hx. }
  assert (Hhdr : forall n, header d' n = header d n \/ header d' n = None).
  { intros n. unfold header. destruct (fam_eqb FHeader f) eqn:E.
    - apply fam_eqb_eq in E. subst f. unfold d'. rewrite set_fam_same. apply find_num_filter_det. auto.
    - left. unfold d', set_fam; cbn [d_fam]; rewrite E. reflexivity. }
  assert (Hnum : b_num hb = h). { apply find_num_some in i_head0. tauto. }
  constructor.
  - unfold header. destruct (fam_eqb FHeader f) eqn:E.
    + apply fam_eqb_eq in E. subst f. unfold d'. rewrite set_fam_same.
      unfold header in i_head0. rewrite <- i_head0. apply find_num_filter.
      intros x Hx _. rewrite (Hdet eq_refl x hb); auto. congruence.
    + unfold d', set_fam; cbn [d_fam]; rewrite E. exact i_head0.
  - intros g. destruct (fam_eqb g f) eqn:E.
    + apply fam_eqb_eq in E. subst g. unfold d'. rewrite set_fam_same. apply filter_In. auto.
    + unfold d', set_fam; cbn [d_fam]; rewrite E. auto.
  - intros g x Hx. apply Hsub in Hx. destruct (i_ent0 g x Hx) as [L Ag]. split; auto.
    intros y Hy. destruct (Hhdr (b_num x)) as [R|R]; rewrite R in Hy; [auto|discriminate].
  - intros x Hx Hn p Hp. apply Hsub in Hx.
    destruct (Hhdr (b_num x - 1)) as [R|R]; rewrite R in Hp; [eauto|discriminate].
  - exact i_state0.
  - exact i_win0.
Qed.

Lemma prune_wr_InvS : forall W d h hb w, InvS W d h hb -> prune_wr h w ->
  InvS W (apply_wr d w) h hb /\ d_height (apply_wr d w) = d_height d /\ d_snap (apply_wr d w) = d_snap d.
Proof.
  intros W d h hb w I Hw.
  assert (Hnum : b_num hb = h). { destruct I as [i_head0 _ _ _ _ _]. apply find_num_some in i_head0. tauto. }
  destruct w; simpl in Hw; try contradiction.
  - destruct Hw as [Hf Hn]. split; [|split; reflexivity]. simpl. apply filter_fam_InvS; auto.
    + rewrite Hnum. destruct (h =? n) eqn:E; [lia|reflexivity].
    + intros X. contradiction.
  - split; [|split; reflexivity]. simpl. apply filter_fam_InvS; auto.
    + rewrite Hnum. apply N.leb_le. exact Hw.
    + intros _ x y E. rewrite E. reflexivity.
  - split; [|split; reflexivity]. destruct I as [i_head0 i_full0 i_ent0 i_link0 i_state0 i_win0].
    constructor; auto. intros a0 c Hin. simpl in Hin. apply filter_In in Hin. apply i_win0 with c. tauto.
Qed.

Lemma prune_batch_InvS : forall W h hb b d, InvS W d h hb -> Forall (prune_wr h) b ->
  InvS W (apply_batch d b) h hb /\ d_height (apply_batch d b) = d_height d /\ d_snap (apply_batch d b) = d_snap d.
Proof.
  induction b; simpl; intros d I H; auto. inversion H; subst.
  destruct (prune_wr_InvS W d h hb a I H2) as (I' & A & B).
  destruct (IHb _ I' H3) as (I'' & A' & B'). split; auto. split; congruence.
Qed.

Lemma prune_batches_InvS : forall W h hb bs d, InvS W d h hb -> Forall (Forall (prune_wr h)) bs ->
  InvS W (apply_batches d bs) h hb /\ d_height (apply_batches d bs) = d_height d
  /\ d_snap (apply_batches d bs) = d_snap d.
Proof.
  induction bs; simpl; intros d I H; auto. inversion H; subst.
  destruct (prune_batch_InvS W h hb a d I H2) as (I' & A & B).
  destruct (IHbs _ I' H3) as (I'' & A' & B'). split; auto. split; congruence.
Qed.

Lemma prune_blocks_wr : forall d kh e h cnt n carry,
  e <= h -> n + N.of_nat cnt <= e -> Forall (prune_wr h) carry ->
  Forall (Forall (prune_wr h)) (fst (prune_blocks d kh e n cnt carry)).
Proof.
  induction cnt; simpl; intros n carry He Hn Hc; [constructor|].
  destruct (find_num n (d_fam d FSU)) as [sb|]; [|constructor].
  specialize (IHcnt (n + 1) [WDel FHashNum n (b_id sb)] He ltac:(lia)
                ltac:(constructor; [simpl; split; [discriminate|lia]|constructor])).
  destruct (prune_blocks d kh e (n + 1) cnt [WDel FHashNum n (b_id sb)]) as [r ok]. simpl in *. constructor; auto.
  apply Forall_app. split; auto.
  constructor; [simpl; split; [discriminate|lia]|].
  destruct kh; repeat constructor; simpl; try discriminate; lia.
Qed.

Lemma floor_fold_le : forall l m, fold_left (fun m x => N.min m (b_num x)) l m <= m.
Proof. induction l; simpl; intros; [lia|]. specialize (IHl (N.min m (b_num a))). lia. Qed.

Lemma prune_plan_wr : forall W d kh e h, e <= h ->
  Forall (Forall (prune_wr h)) (prune_plan W d kh e).
Proof.
  intros W d kh e h He. unfold prune_plan. destruct (floor d) as [start|]; [|constructor].
  destruct (e <=? start) eqn:E; [constructor|]. apply N.leb_gt in E.
  assert (Hgen : forall cw, Forall (prune_wr h) cw ->
     Forall (Forall (prune_wr h))
       (let (bs, ok) := prune_blocks d kh e start (N.to_nat (e - start)) cw in
        if ok then bs ++ [[]; prune_data_batch W e] else bs)).
  { intros cw Hcw.
    pose proof (prune_blocks_wr d kh e h (N.to_nat (e - start)) start cw He ltac:(lia) Hcw) as P.
    destruct (prune_blocks d kh e start (N.to_nat (e - start)) cw) as [bs ok]. simpl in P.
    destruct ok; auto. apply Forall_app. split; auto.
    constructor; [constructor|]. constructor; [|constructor].
    unfold prune_data_batch. apply Forall_app. split.
    - repeat constructor; simpl; try lia. destruct (block_hash_lag <? e); lia.
    - destruct (e <? W); repeat constructor. }
  destruct (0 <? start).
  - destruct (header d (start - 1)); [|constructor]. apply Hgen. repeat constructor; simpl; [discriminate|lia].
  - apply Hgen. constructor.
Qed.
