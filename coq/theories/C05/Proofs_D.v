(* C05 — lemmas, part D: direct writes, alignment of the filter, the per-operation lemma and the
   run-level theorems (crash, prefix, fault). *)
From Coq Require Import List NArith Bool Lia ZifyN ZifyNat ZifyBool PeanoNat.
From V Require Import C05.Model C05.Proofs_A C05.Proofs_B C05.Proofs_C C05.Proofs_E C05.Proofs_F.
Import ListNotations.
Open Scope N_scope.

Lemma l1_consistent : forall W d h, consistent W (apply_batch d [WL1 h]) = consistent W d.
Proof. reflexivity. Qed.

Lemma snap_consistent : forall W d m, consistent W d = true -> rf_wf W m = true ->
  consistent W (apply_batch d [WSnap m]) = true.
Proof.
  intros W d m Hc Ha. unfold consistent in *. apply andb_true_iff in Hc as [_ Hc].
  apply andb_true_iff. split; [exact Ha | exact Hc].
Qed.

(* a filter in sync with the head is well-formed *)
Lemma sync_wf : forall W d m, 0 < W -> mem_sync W d m = true -> rf_wf W m = true.
Proof.
  intros W d m HW Hs. unfold mem_sync in Hs. apply andb_true_iff in Hs as [He Hs]. unfold rf_wf, rf_to.
  destruct (d_height d) as [h|]; apply andb_true_iff in Hs as [Hn Hf];
    apply N.eqb_eq in Hn; apply N.eqb_eq in Hf; rewrite He, Hn, Hf.
  - destruct (align_le W (h + 1) HW). rewrite (align_mod W (h + 1) HW). simpl.
    apply andb_true_iff. split; [apply N.leb_le; lia|apply N.leb_le; lia].
  - rewrite N.mod_0_l by lia. simpl. apply N.leb_le. lia.
Qed.

(* ---------- the filter stays aligned ---------- *)
Lemma rf_reorg_shape : forall W d m, 0 < W -> rf_aligned W m = true ->
  rf_aligned W (snd (rf_reorg W d m)) = true /\
  (forall ws, fst (rf_reorg W d m) = Some ws -> ws = [] \/ exists a, ws = [WWindow a None]).
Proof.
  intros W d m HW Ha. unfold rf_reorg.
  destruct (rf_err m); [split; auto; simpl; discriminate|].
  destruct (rf_next m =? 0); [split; auto; simpl; discriminate|].
  destruct ((0 <? rf_from m) && (rf_next m - 1 + 1 =? rf_from m)).
  - destruct (get_window d (align W (rf_next m - 1))).
    + simpl. split.
      * unfold rf_aligned. simpl. apply N.eqb_eq. apply align_mod; auto.
      * intros ws H. inversion H. right. eexists; eauto.
    + split; auto. simpl. discriminate.
  - destruct ((rf_next m - 1 <? rf_from m) || (rf_to W m <? rf_next m - 1)); simpl; split; auto; try discriminate.
    intros ws H. inversion H. auto.
Qed.

Lemma rf_reorg_sync : forall W d m h ws m', 0 < W -> d_height d = Some h ->
  mem_sync W d m = true -> (h + 1) mod W = 0 -> rf_reorg W d m = (Some ws, m') ->
  ws = [WWindow (align W h) None].
Proof.
  intros W d m h ws m' HW Hh Hs Hb Hr. unfold mem_sync in Hs. rewrite Hh in Hs.
  apply andb_true_iff in Hs as [He Hs]. apply andb_true_iff in Hs as [Hn Hf].
  apply N.eqb_eq in Hn. apply N.eqb_eq in Hf.
  assert (Hf' : rf_from m = h + 1). { rewrite Hf. unfold align. rewrite Hb. lia. }
  unfold rf_reorg in Hr. destruct (rf_err m); [discriminate|].
  rewrite Hn, Hf' in Hr.
  replace (h + 1 =? 0) with false in Hr by (symmetry; apply N.eqb_neq; lia).
  replace (h + 1 - 1) with h in Hr by lia.
  replace (0 <? h + 1) with true in Hr by (symmetry; apply N.ltb_lt; lia).
  rewrite N.eqb_refl in Hr. simpl in Hr.
  destruct (get_window d (align W h)); inversion Hr. reflexivity.
Qed.

(* ---------- the direct writes of an initialisation ---------- *)
Definition init_wr (W h : N) (w : wr) : Prop :=
  w = WSnapDel \/ exists a c, w = WWindow a (Some c) /\ a mod W = 0 /\ a + W - 1 <= h.

Lemma init_wr_hc : forall W h w, init_wr W h w -> hc_free w.
Proof. intros W h w [->|(a & c & -> & _)]; exact I. Qed.

Lemma fill_w_ok : forall W d h cnt rf from, 0 < W -> rf_aligned W rf = true ->
  from + N.of_nat cnt <= h + 1 -> Forall (init_wr W h) (rf_fill_w W d rf from cnt).
Proof.
  induction cnt; simpl; intros rf from HW Ha Hb; [constructor|].
  destruct (header d from); [|constructor].
  destruct (rf_insert W rf from (b_bloom b)) as [[ws rf']|] eqn:E; [|constructor].
  destruct (rf_insert_shape W rf _ _ _ _ HW Ha E) as [Ha' Hws].
  apply Forall_app. split.
  - destruct Hws as [->|[c [-> Hto]]]; [constructor|]. constructor; [|constructor].
    right. exists (rf_from rf), c. split; auto. split; [apply N.eqb_eq; exact Ha|lia].
  - apply IHcnt; auto. lia.
Qed.

Lemma fill_range_w_ok : forall W d h rf from, 0 < W -> rf_aligned W rf = true ->
  Forall (init_wr W h) (rf_fill_range_w W d rf from h).
Proof.
  intros W d h rf from HW Ha. unfold rf_fill_range_w.
  destruct (from <=? h + 1) eqn:E.
  - apply N.leb_le in E. apply fill_w_ok; auto. lia.
  - apply N.leb_gt in E. replace (N.to_nat (h + 1 - from)) with O by lia. constructor.
Qed.

Lemma reinit_w_ok : forall W d h, 0 < W -> consistent W d = true -> d_height d = Some h ->
  Forall (init_wr W h) (reinit_w W d).
Proof.
  intros W d h HW Hc Hh. unfold reinit_w. apply Forall_app. split.
  { unfold snap_consume_w. rewrite Hh. destruct (d_snap d); repeat constructor. }
  unfold reinit_fill_w. rewrite Hh.
  pose proof (proj1 (consistent_some W d h Hh) Hc) as [Hsn [hb I]].
  destruct I as [i_head0 i_full0 i_ent0 i_link0 i_state0 i_win0].
  assert (Hrb : Forall (init_wr W h) (rf_rebuild_w W d h)).
  { unfold rf_rebuild_w. destruct (find_anchor W d (align W (floor0 d)) (align W h) (N.to_nat (align W h / W))) as [a|] eqn:E.
    - apply fill_range_w_ok; auto. unfold rf_aligned, rf_new. simpl.
      apply find_anchor_window in E as [c Hgw]. apply get_window_In in Hgw. apply i_win0 in Hgw as [M _].
      apply N.eqb_eq. apply mod0_add; auto.
    - apply fill_range_w_ok; auto. unfold rf_aligned, rf_new. simpl. apply N.eqb_eq. apply align_mod; auto. }
  unfold snap_ok in Hsn. destruct (d_snap d) as [s|]; auto.
  destruct (rf_wf_parts W s Hsn) as (S1 & _).
  destruct (rf_next s =? h + 1); [constructor|].
  destruct ((rf_next s <=? h) && (h <=? rf_to W s)); auto.
  apply fill_range_w_ok; auto. unfold rf_aligned. cbn [rf_from]. apply N.eqb_eq. exact S1.
Qed.

Lemma init_wr_consistent : forall W d h w, consistent W d = true -> d_height d = Some h -> init_wr W h w ->
  consistent W (apply_batch d [w]) = true /\ d_height (apply_batch d [w]) = Some h.
Proof.
  intros W d h w Hc Hh [->|(a & c & -> & Ha & Hl)]; simpl; (split; [|exact Hh]).
  { (* the consumed snapshot is deleted: everything else is untouched *)
    unfold consistent in *. apply andb_true_iff in Hc as [_ Hc]. apply andb_true_iff. split; [reflexivity|exact Hc]. }
  pose proof (proj1 (consistent_some W d h Hh) Hc) as [Hsn [hb I]].
  destruct I as [i_head0 i_full0 i_ent0 i_link0 i_state0 i_win0].
  apply (proj2 (consistent_some W (set_windows d ((a, c) :: win_del a (d_windows d))) h Hh)). split; [exact Hsn|]. exists hb. constructor; auto.
  intros a0 c0 Hin. simpl in Hin. destruct Hin as [Heq|Hin].
  - inversion Heq; subst. auto.
  - apply In_win_del in Hin. eauto.
Qed.

(* ---------- one operation ---------- *)
(* the invariant of crash-free runs: the disk is consistent and continuous, the in-memory filter is in
   sync with the head *)
Definition Good (W : N) (st : disk * rfilter) : Prop :=
  consistent W (fst st) = true /\ cont (fst st) = true /\ mem_sync W (fst st) (snd st) = true.

(* the disk part: what a crash leaves behind *)
Definition DiskOK (W : N) (d : disk) : Prop := consistent W d = true /\ cont d = true.

Lemma firstn_single : forall {A} (x : A) j, firstn j [x] = [] \/ firstn j [x] = [x].
Proof. destruct j; simpl; auto. destruct j; simpl; auto. Qed.

Lemma Forall_firstn : forall {A} (P : A -> Prop) l j, Forall P l -> Forall P (firstn j l).
Proof.
  induction l; intros j H; destruct j; simpl; auto. inversion H; subst. constructor; auto.
Qed.

Lemma batches_inv : forall (P : disk -> Prop) bs d,
  (forall b, In b bs -> forall d', P d' -> P (apply_batch d' b)) -> P d ->
  forall j, P (apply_batches d (firstn j bs)).
Proof.
  induction bs; intros d Hb Hp j; destruct j; simpl; auto.
  apply IHbs; [intros b Hin; apply Hb; right; auto | apply Hb; [left; auto | auto]].
Qed.

Definition DiskAt (W h : N) (d : disk) : Prop := DiskOK W d /\ d_height d = Some h.

Lemma hc_free_DiskAt_cont : forall b d, Forall hc_free b -> cont (apply_batch d b) = cont d.
Proof. exact hc_free_cont. Qed.

(* every batch prefix of every operation leaves a consistent, continuous disk *)
Lemma op_batches_good : forall W st o j, 0 < W -> Good W st -> op_env (fst st) o = true ->
  DiskOK W (apply_batches (fst st) (firstn j (fst (plan W o (fst st) (snd st))))).
Proof.
  intros W [d m] o j HW (Hc & Hk & Hs) Hok. cbn [fst snd] in *.
  pose proof (sync_aligned W d m HW Hs) as Ha.
  pose proof (sync_wf W d m HW Hs) as Hwf.
  assert (Hnil : DiskOK W (apply_batches d (firstn j (@nil batch)))).
  { destruct j; split; auto. }
  assert (Hone : forall x : batch, DiskOK W (apply_batch d x) -> DiskOK W (apply_batches d (firstn j [x]))).
  { intros x Hx. destruct (firstn_single x j) as [E|E]; rewrite E; simpl; auto. split; auto. }
  destruct o; unfold plan.
  - (* Store *)
    destruct (succession_ok d b) eqn:Hsu; [|cbn [fst snd]; auto].
    destruct (rf_insert W m (b_num b) (b_bloom b)) as [[ws m']|] eqn:Hi; [|cbn [fst snd]; auto].
    destruct (store_consistent W d m b ws m' HW Hc Ha Hsu Hi) as [C1 C2]. cbn [fst snd].
    apply Hone. split; auto. eapply store_cont; eauto.
    destruct (rf_insert_shape W m _ _ _ _ HW Ha Hi) as [_ [->|[c [-> _]]]]; repeat constructor.
  - (* Revert *)
    destruct (d_height d) as [h|] eqn:Hh; [|cbn [fst snd]; auto].
    destruct (find_num h (d_fam d FSU)); [|cbn [fst snd]; auto].
    destruct (header d h) as [hb|] eqn:Hd; [|cbn [fst snd]; auto].
    destruct (rf_reorg_shape W d m HW Ha) as [A1 A2].
    destruct (rf_reorg W d m) as [[ws|] m'] eqn:Hr; cbn [fst snd] in *; [|auto].
    apply Hone. unfold op_env in Hok. rewrite Hh in Hok.
    assert (Hwo : Forall window_only ws).
    { destruct (A2 ws eq_refl) as [->|[a ->]]; repeat constructor. }
    split.
    + eapply revert_consistent; eauto. intros Hz. eapply rf_reorg_sync; eauto.
    + eapply revert_cont; eauto.
  - (* Prune *)
    cbn [fst snd]. unfold op_env in Hok. destruct (d_height d) as [h|] eqn:Hh.
    + apply N.leb_le in Hok.
      pose proof (prune_plan_wr W d keep_hist e h Hok) as P1. rewrite Forall_forall in P1.
      pose proof (prune_plan_shape W d keep_hist e) as P2. rewrite Forall_forall in P2.
      apply (batches_inv (DiskAt W h)); [|split; [split|]; auto].
      intros b Hin d' [[Hc' Hk'] Hh'].
      pose proof (proj1 (consistent_some W d' h Hh') Hc') as [Hsn [hb I]].
      destruct (prune_batch_InvS W h hb b d' I (P1 b Hin)) as (I' & A & B).
      split; [split|congruence].
      * apply (proj2 (consistent_some W _ h (eq_trans A Hh'))). split; eauto.
        unfold snap_ok in *. rewrite B. exact Hsn.
      * destruct (P2 b Hin) as [Hf| ->]; [rewrite hc_free_cont; auto|eapply prune_data_cont; eauto].
    + pose proof (proj1 (consistent_none W d Hh) Hc) as (_ & Hf & _ & _).
      unfold prune_plan, floor. rewrite Hf. exact Hnil.
  - (* SetL1 *)
    cbn [fst snd]. apply Hone. split; [rewrite l1_consistent; exact Hc|].
    rewrite hc_free_cont; auto. repeat constructor.
  - (* Snapshot *)
    cbn [fst snd]. destruct (rf_err m); [exact Hnil|]. apply Hone. split.
    + apply snap_consistent; auto.
    + rewrite hc_free_cont; auto. repeat constructor.
  - (* Restart: optional snapshot, then the direct writes of the initialisation, one commit each *)
    cbn [fst snd].
    set (bs0 := if graceful && negb (rf_err m) then [[WSnap m]] else []).
    assert (Hd1 : DiskOK W (apply_batches d bs0) /\ d_height (apply_batches d bs0) = d_height d).
    { subst bs0. destruct (graceful && negb (rf_err m)); cbn [apply_batches fold_left]; [|split; [split|]; auto].
      split; [split|reflexivity]. apply snap_consistent; auto. rewrite hc_free_cont; auto. repeat constructor. }
    destruct Hd1 as [[Hc1 Hk1] Hh1].
    destruct (d_height d) as [h|] eqn:Hh.
    + apply (batches_inv (DiskAt W h)); [|split; [split|]; auto].
      intros b Hin d' [[Hc' Hk'] Hh']. apply in_app_or in Hin as [Hin|Hin].
      * subst bs0. destruct (graceful && negb (rf_err m)); [|destruct Hin].
        destruct Hin as [<-|[]]. split; [split|exact Hh'].
        -- apply snap_consistent; auto.
        -- rewrite hc_free_cont; auto. repeat constructor.
      * apply in_map_iff in Hin as [w [<- Hw]].
        pose proof (reinit_w_ok W _ h HW Hc1 Hh1) as F. rewrite Forall_forall in F.
        destruct (init_wr_consistent W d' h w Hc' Hh' (F w Hw)) as [X Y]. split; [split|]; auto.
        rewrite hc_free_cont; auto. constructor; [|constructor]. eapply init_wr_hc; eauto.
    + assert (reinit_w W (apply_batches d bs0) = []) as ->.
      { unfold reinit_w, snap_consume_w, reinit_fill_w. rewrite Hh1. reflexivity. }
      simpl. rewrite app_nil_r.
      subst bs0. destruct (graceful && negb (rf_err m)); [|exact Hnil].
      apply Hone. split; [apply snap_consistent; auto|]. rewrite hc_free_cont; auto. repeat constructor.
Qed.

Lemma apply_batches_app : forall d a b, apply_batches d (a ++ b) = apply_batches (apply_batches d a) b.
Proof. intros. unfold apply_batches. apply fold_left_app. Qed.

Lemma mem_sync_ext : forall W d d' m, d_height d' = d_height d -> mem_sync W d' m = mem_sync W d m.
Proof. intros. unfold mem_sync. rewrite H. reflexivity. Qed.

Lemma singles_height : forall ws d, Forall hc_free ws ->
  d_height (apply_batches d (map (fun w => [w]) ws)) = d_height d.
Proof.
  induction ws; simpl; intros d H; auto. inversion H; subst. rewrite IHws by auto.
  apply (hc_free_fields [a] d). repeat constructor; auto.
Qed.

Lemma reinit_w_none : forall W d, d_height d = None -> reinit_w W d = [].
Proof. intros W d Hh. unfold reinit_w, snap_consume_w, reinit_fill_w. rewrite Hh. reflexivity. Qed.

Lemma step_good : forall W st o, 0 < W -> Good W st -> op_env (fst st) o = true -> Good W (step W st o).
Proof.
  intros W st o HW HG Hok.
  destruct (op_batches_good W st o (length (fst (plan W o (fst st) (snd st)))) HW HG Hok) as [C K].
  rewrite firstn_all in C, K.
  destruct (is_restart o) eqn:Hr.
  - (* Restart: the memory is reinit of the disk after the optional snapshot *)
    destruct o; try discriminate. destruct st as [d m]. destruct HG as (Hc & Hk & Hs). cbn [fst snd] in *.
    unfold step. cbn [plan fst snd] in *. split; [|split]; auto.
    set (bs0 := if graceful && negb (rf_err m) then [[WSnap m]] else []) in *.
    assert (Hd1 : DiskOK W (apply_batches d bs0) /\ d_height (apply_batches d bs0) = d_height d).
    { subst bs0. destruct (graceful && negb (rf_err m)); cbn [apply_batches fold_left]; [|split; [split|]; auto].
      split; [split|reflexivity]. apply snap_consistent; auto. eapply sync_wf; eauto.
      rewrite hc_free_cont; auto. repeat constructor. }
    destruct Hd1 as [[Hc1 Hk1] Hh1].
    rewrite (mem_sync_ext W (apply_batches d bs0)).
    + apply reinit_sync; auto.
    + rewrite apply_batches_app. apply singles_height.
      destruct (d_height (apply_batches d bs0)) as [h|] eqn:Hh.
      * pose proof (reinit_w_ok W _ h HW Hc1 Hh) as F. eapply Forall_impl; [|exact F].
        intros w Hw. eapply init_wr_hc; eauto.
      * rewrite reinit_w_none by auto. constructor.
  - unfold step in *. destruct (plan W o (fst st) (snd st)) as [bs m'] eqn:E. cbn [fst snd] in *.
    split; [|split]; auto.
    pose proof (sync_step W st o HW (proj2 (proj2 HG)) Hr) as S. unfold step in S. rewrite E in S. exact S.
Qed.

(* ---------- crash ---------- *)
Lemma crash_consistent : forall W ops k st, 0 < W -> Good W st -> ops_env W ops st = true ->
  DiskOK W (crash_disk W ops k st).
Proof.
  induction ops; simpl; intros k st HW HG Hok; [destruct HG as (A & B & _); split; auto|].
  apply andb_true_iff in Hok as [H1 H2].
  destruct (Nat.leb (length (fst (plan W a (fst st) (snd st)))) k).
  - apply IHops; auto. apply step_good; auto.
  - apply (op_batches_good W st a k HW HG H1).
Qed.

(* what a fresh process makes of a consistent, continuous disk: consistent, continuous, in sync — hence
   ready for the next block *)
Lemma recover_good : forall W d m, 0 < W -> DiskOK W d -> Good W (step W (d, m) (Restart false)).
Proof.
  intros W d m HW [Hc Hk]. unfold step. cbn [plan fst snd andb apply_batches fold_left app].
  assert (Hh : d_height (apply_batches d (map (fun w => [w]) (reinit_w W d))) = d_height d).
  { apply singles_height. destruct (d_height d) as [h|] eqn:Hh.
    - pose proof (reinit_w_ok W d h HW Hc Hh) as F. eapply Forall_impl; [|exact F].
      intros w Hw. eapply init_wr_hc; eauto.
    - rewrite reinit_w_none by auto. constructor. }
  assert (HD : DiskOK W (apply_batches d (map (fun w => [w]) (reinit_w W d)))).
  { destruct (d_height d) as [h|] eqn:Hh0.
    - pose proof (reinit_w_ok W d h HW Hc Hh0) as F. rewrite Forall_forall in F.
      rewrite <- (firstn_all (map (fun w => [w]) (reinit_w W d))).
      apply (batches_inv (DiskAt W h)); [|split; [split|]; auto].
      intros b Hin d' [[Hc' Hk'] Hh']. apply in_map_iff in Hin as [w [<- Hw]].
      destruct (init_wr_consistent W d' h w Hc' Hh' (F w Hw)) as [X Y]. split; [split|]; auto.
      rewrite hc_free_cont; auto. constructor; [|constructor]. eapply init_wr_hc; eauto.
    - rewrite reinit_w_none by auto. simpl. split; auto. }
  destruct HD as [A B]. split; [|split]; auto.
  rewrite (mem_sync_ext W d); auto. apply reinit_sync; auto.
Qed.

Lemma sync_ready : forall W d m, 0 < W -> mem_sync W d m = true -> rf_ready W (next_num d) m = true.
Proof.
  intros W d m HW Hs. unfold mem_sync in Hs. apply andb_true_iff in Hs as [He Hs].
  unfold rf_ready, next_num, rf_to. rewrite He. simpl.
  destruct (d_height d) as [h|]; apply andb_true_iff in Hs as [Hn Hf]; apply N.eqb_eq in Hf; rewrite Hf.
  - destruct (align_le W (h + 1) HW). apply andb_true_iff. split; apply N.leb_le; lia.
  - apply andb_true_iff. split; apply N.leb_le; lia.
Qed.

(* from a state in sync every block that follows the head stores, and the result is again Good *)
Lemma sync_stores : forall W d m b, 0 < W -> mem_sync W d m = true -> succession_ok d b = true ->
  stores W d m b = true.
Proof.
  intros W d m b HW Hs Hsu. unfold stores. cbn [plan]. rewrite Hsu.
  pose proof (sync_ready W d m HW Hs) as R. unfold rf_ready in R.
  apply andb_true_iff in R as [R R3]. apply andb_true_iff in R as [R1 R2].
  assert (Hn : b_num b = next_num d).
  { unfold succession_ok in Hsu. unfold next_num. destruct (d_height d) as [h|].
    - destruct (header d h); [|discriminate]. apply andb_true_iff in Hsu as [S1 _]. apply N.eqb_eq in S1. auto.
    - apply andb_true_iff in Hsu as [S1 _]. apply N.eqb_eq in S1. auto. }
  unfold rf_insert. destruct (rf_err m); [discriminate|]. rewrite Hn.
  replace ((next_num d <? rf_from m) || (rf_to W m <? next_num d)) with false
    by (symmetry; apply orb_false_iff; split; apply N.ltb_ge; lia).
  destruct (next_num d =? rf_to W m); reflexivity.
Qed.

(* the crash image is the disk after a prefix of complete operations followed by a batch prefix of
   the next operation *)
Lemma crash_prefix : forall W ops k st, exists n j,
  let st' := run W (firstn n ops) st in
  crash_disk W ops k st =
  apply_batches (fst st')
    (firstn j (match nth_error ops n with
               | Some o => fst (plan W o (fst st') (snd st'))
               | None => []
               end)).
Proof.
  induction ops; simpl; intros k st.
  - exists O, O. reflexivity.
  - destruct (Nat.leb (length (fst (plan W a (fst st) (snd st)))) k).
    + destruct (IHops (k - length (fst (plan W a (fst st) (snd st))))%nat (step W st a)) as [n [j H]].
      exists (S n), j. simpl. exact H.
    + exists O, k. reflexivity.
Qed.

Lemma plan_single : forall W o d m, (forall kh e, o <> Prune kh e) -> is_restart o = false ->
  (length (fst (plan W o d m)) <= 1)%nat.
Proof.
  intros W o d m Hp Hr. destruct o; simpl; try discriminate.
  - destruct (succession_ok d b); simpl; auto. destruct (rf_insert W m (b_num b) (b_bloom b)) as [[? ?]|]; simpl; auto.
  - destruct (d_height d); simpl; auto. destruct (find_num n (d_fam d FSU)); simpl; auto.
    destruct (header d n); simpl; auto. destruct (rf_reorg W d m) as [[?|] ?]; simpl; auto.
  - exfalso. eapply Hp; eauto.
  - auto.
  - destruct (rf_err m); simpl; auto.
Qed.

(* without prune and restart every crash image is the disk after a prefix of COMPLETE operations *)
Lemma crash_atomic : forall W ops k st, (forall kh e, ~ In (Prune kh e) ops) ->
  (forall o, In o ops -> is_restart o = false) ->
  exists n, crash_disk W ops k st = fst (run W (firstn n ops) st).
Proof.
  induction ops; simpl; intros k st Hp Hr.
  - exists O. reflexivity.
  - pose proof (plan_single W a (fst st) (snd st) ltac:(intros kh e X; apply (Hp kh e); left; auto) (Hr a (or_introl eq_refl))) as L.
    destruct (Nat.leb (length (fst (plan W a (fst st) (snd st)))) k) eqn:E.
    + destruct (IHops (k - length (fst (plan W a (fst st) (snd st))))%nat (step W st a)) as [n H].
      { intros kh e X. apply (Hp kh e). right; auto. }
      { intros o X. apply Hr. right; auto. }
      exists (S n). simpl. exact H.
    + exists O. simpl. apply Nat.leb_gt in E.
      assert (k = O) by lia. subst k. reflexivity.
Qed.

(* ---------- fault ---------- *)
(* a failed commit leaves the disk exactly as the batches committed before it left it; for the
   single-batch operations: unchanged *)
Lemma fault_step_disk : forall W o d m k, is_restart o = false ->
  (k < length (fst (plan W o d m)))%nat ->
  fst (exec_fault W [o] k (d, m)) = apply_batches d (firstn k (fst (plan W o d m))).
Proof.
  intros W o d m k Hr Hk. simpl.
  destruct (Nat.leb (length (fst (plan W o d m))) k) eqn:L; [apply Nat.leb_le in L; lia|].
  unfold fault_op. destruct (plan W o d m) as [bs m'] eqn:E. destruct o; try discriminate; reflexivity.
Qed.

(* failed store away from a window end: the filter keeps its window and loses no bit *)
Lemma cols_sub_cons : forall a e b, cols_sub a b = true -> cols_sub a (e :: b) = true.
Proof.
  unfold cols_sub. intros a e b H. rewrite forallb_forall in *. intros x Hx. specialize (H x Hx).
  rewrite forallb_forall in *. intros k Hk. specialize (H k Hk). unfold col_has in *. simpl.
  rewrite H. apply orb_true_r.
Qed.

Lemma fault_store_superset : forall W d m b r,
  rf_superset m r = true -> negb (b_num b =? rf_to W m) = true ->
  rf_superset (snd (plan W (Store b) d m)) r = true.
Proof.
  intros W d m b r Hs Hb. simpl. destruct (succession_ok d b); auto.
  unfold rf_insert. unfold rf_superset in Hs.
  apply andb_true_iff in Hs as [Hs H3]. apply andb_true_iff in Hs as [H1 H2].
  destruct (rf_err m) eqn:He; [discriminate|].
  destruct ((b_num b <? rf_from m) || (rf_to W m <? b_num b)); simpl.
  - unfold rf_superset. rewrite H2, H3, He. reflexivity.
  - destruct (b_num b =? rf_to W m); [discriminate|]. simpl.
    unfold rf_superset. simpl. rewrite H2. simpl. apply cols_sub_cons. exact H3.
Qed.

Lemma fault_disk_single : forall W o d m, (forall kh e, o <> Prune kh e) -> is_restart o = false ->
  fst (plan W o d m) <> [] -> fst (exec_fault W [o] 0 (d, m)) = d.
Proof.
  intros W o d m Hp Hr Hne. rewrite fault_step_disk; auto.
  destruct (fst (plan W o d m)); [contradiction|simpl; lia].
Qed.

(* failing the k-th commit of a prune leaves exactly the batches before it *)
Lemma fault_disk_prune : forall W kh e d m k, (k < length (prune_plan W d kh e))%nat ->
  fst (exec_fault W [Prune kh e] k (d, m)) = apply_batches d (firstn k (prune_plan W d kh e)).
Proof.
  intros. apply (fault_step_disk W (Prune kh e) d m k); auto.
Qed.

Lemma recover_next_store : forall W d m, 0 < W -> consistent W d = true -> cont d = true ->
  let st' := step W (d, m) (Restart false) in
  consistent W (fst st') = true /\ cont (fst st') = true /\ mem_sync W (fst st') (snd st') = true /\
  snd st' = reinit W d /\ recover_ready W d = true /\
  forall b, succession_ok (fst st') b = true ->
    stores W (fst st') (snd st') b = true /\
    let st'' := step W st' (Store b) in
    d_height (fst st'') = Some (b_num b) /\ consistent W (fst st'') = true /\ cont (fst st'') = true /\
    mem_sync W (fst st'') (snd st'') = true.
Proof.
  intros W d m HW Hc Hk st'. pose proof (recover_good W d m HW (conj Hc Hk)) as (A & B & C).
  fold st' in A, B, C. repeat split; auto.
  - unfold recover_ready. apply sync_ready; auto. apply reinit_sync; auto.
  - apply sync_stores; auto.
  - (* the height after the store *)
    pose proof (sync_stores W (fst st') (snd st') b HW C H) as S. unfold stores in S.
    unfold step. destruct (plan W (Store b) (fst st') (snd st')) as [bs m'] eqn:E. cbn [fst snd] in *.
    cbn [plan] in E. rewrite H in E.
    destruct (rf_insert W (snd st') (b_num b) (b_bloom b)) as [[ws m1]|] eqn:Hi; inversion E; subst; [|discriminate].
    cbn [apply_batches fold_left].
    pose proof (sync_aligned W _ _ HW C) as Ha.
    destruct (rf_insert_shape W _ _ _ _ _ HW Ha Hi) as [_ Hws].
    assert (Hwo : Forall window_only ws). { destruct Hws as [->|[c [-> _]]]; repeat constructor. }
    destruct (store_fields (fst st') b ws Hwo) as (X & _). exact X.
  - pose proof (step_good W st' (Store b) HW (conj A (conj B C)) eq_refl) as (X & _). exact X.
  - pose proof (step_good W st' (Store b) HW (conj A (conj B C)) eq_refl) as (_ & X & _). exact X.
  - pose proof (step_good W st' (Store b) HW (conj A (conj B C)) eq_refl) as (_ & _ & X). exact X.
Qed.
