(* C05 — lemmas, part D: direct writes, alignment of the filter, the per-operation lemma and the
   run-level theorems (crash, prefix, fault). *)
From Coq Require Import List NArith Bool Lia ZifyN ZifyNat ZifyBool PeanoNat.
From V Require Import C05.Model C05.Proofs_A C05.Proofs_B C05.Proofs_C.
Import ListNotations.
Open Scope N_scope.

Lemma l1_consistent : forall W d h, consistent W (apply_batch d [WL1 h]) = consistent W d.
Proof. reflexivity. Qed.

Lemma snap_consistent : forall W d m, consistent W d = true -> rf_aligned W m = true ->
  consistent W (apply_batch d [WSnap m]) = true.
Proof.
  intros W d m Hc Ha. unfold consistent in *. apply andb_true_iff in Hc as [_ Hc].
  apply andb_true_iff. split; [exact Ha | exact Hc].
Qed.

(* ---------- the filter stays aligned ---------- *)
Lemma rf_reorg_shape : forall W d m, 0 < W -> rf_aligned W m = true ->
  rf_aligned W (snd (rf_reorg W d m)) = true /\
  (forall ws, fst (rf_reorg W d m) = Some ws -> ws = [] \/ exists a, ws = [WWindow a None]).
Proof.
  intros W d m HW Ha. unfold rf_reorg.
  destruct (rf_err m); [split; auto; simpl; discriminate|].
  destruct (rf_next m =? 0); [split; auto; simpl; discriminate|].
  destruct ((0 <? rf_from m) && (rf_next m - 1 + 1 =? rf_from m)).
  - destruct (get_window d (align W (rf_next m - 1))).
    + simpl. split.
      * unfold rf_aligned. simpl. apply N.eqb_eq. apply align_mod; auto.
      * intros ws H. inversion H. right. eexists; eauto.
    + split; auto. simpl. discriminate.
  - destruct ((rf_next m - 1 <? rf_from m) || (rf_to W m <? rf_next m - 1)); simpl; split; auto; try discriminate.
    intros ws H. inversion H. auto.
Qed.

Lemma rf_reorg_sync : forall W d m h ws m', 0 < W -> d_height d = Some h ->
  mem_sync W d m = true -> (h + 1) mod W = 0 -> rf_reorg W d m = (Some ws, m') ->
  ws = [WWindow (align W h) None].
Proof.
  intros W d m h ws m' HW Hh Hs Hb Hr. unfold mem_sync in Hs. rewrite Hh in Hs.
  apply andb_true_iff in Hs as [He Hs]. apply andb_true_iff in Hs as [Hn Hf].
  apply N.eqb_eq in Hn. apply N.eqb_eq in Hf.
  assert (Hf' : rf_from m = h + 1). { rewrite Hf. unfold align. rewrite Hb. lia. }
  unfold rf_reorg in Hr. destruct (rf_err m); [discriminate|].
  rewrite Hn, Hf' in Hr.
  replace (h + 1 =? 0) with false in Hr by (symmetry; apply N.eqb_neq; lia).
  replace (h + 1 - 1) with h in Hr by lia.
  replace (0 <? h + 1) with true in Hr by (symmetry; apply N.ltb_lt; lia).
  rewrite N.eqb_refl in Hr. simpl in Hr.
  destruct (get_window d (align W h)); inversion Hr. reflexivity.
Qed.

Lemma rf_fill_aligned : forall W d cnt rf from, 0 < W -> rf_aligned W rf = true ->
  rf_aligned W (rf_fill W d rf from cnt) = true.
Proof.
  induction cnt; simpl; intros rf from HW Ha; auto.
  destruct (header d from); [|exact Ha].
  destruct (rf_insert W rf from (b_bloom b)) as [[ws rf']|] eqn:E; [|exact Ha].
  apply IHcnt; auto. eapply rf_insert_shape; eauto.
Qed.

Lemma get_window_In : forall d a c, get_window d a = Some c -> In (a, c) (d_windows d).
Proof.
  unfold get_window. intros d a c H. destruct (find (fun e => fst e =? a) (d_windows d)) as [e|] eqn:E; [|discriminate].
  apply find_some in E as [E1 E2]. apply N.eqb_eq in E2. inversion H; subst. destruct e; exact E1.
Qed.

Lemma find_anchor_window : forall W d fl fuel a x, find_anchor W d fl a fuel = Some x ->
  exists c, get_window d x = Some c.
Proof.
  induction fuel; simpl; intros a x H.
  - destruct (get_window d a) eqn:E; [inversion H; subst; eauto|]. destruct (a <=? fl); discriminate.
  - destruct (get_window d a) eqn:E; [inversion H; subst; eauto|]. destruct (a <=? fl); [discriminate|].
    eapply IHfuel; eauto.
Qed.

Lemma reinit_aligned : forall W d, 0 < W -> consistent W d = true -> rf_aligned W (reinit W d) = true.
Proof.
  intros W d HW Hc. unfold reinit. destruct (d_height d) as [h|] eqn:Hh.
  - pose proof (proj1 (consistent_some W d h Hh) Hc) as [Hsn [hb I]].
    destruct I as [i_head0 i_full0 i_ent0 i_link0 i_state0 i_win0].
    assert (Hrb : rf_aligned W (rf_rebuild W d h) = true).
    { unfold rf_rebuild. destruct (find_anchor W d (align W (floor0 d)) (align W h) (N.to_nat (align W h / W))) as [a|] eqn:E.
      - unfold rf_fill_range. apply rf_fill_aligned; auto. unfold rf_aligned, rf_new. simpl.
        apply find_anchor_window in E as [c Hgw]. apply get_window_In in Hgw. apply i_win0 in Hgw as [M _].
        apply N.eqb_eq. apply mod0_add; auto.
      - unfold rf_fill_range. apply rf_fill_aligned; auto. unfold rf_aligned, rf_new. simpl.
        apply N.eqb_eq. apply align_mod; auto. }
    unfold snap_ok in Hsn. destruct (d_snap d) as [s|]; auto.
    destruct (rf_next s =? h + 1); [exact Hsn|].
    destruct ((rf_next s <=? h) && (h <=? rf_to W s)); auto.
    unfold rf_fill_range. apply rf_fill_aligned; auto.
  - unfold rf_aligned, rf0. cbn [rf_from]. apply N.eqb_eq. apply N.mod_0_l. lia.
Qed.

(* ---------- the direct writes of an initialisation ---------- *)
Definition init_wr (W h : N) (w : wr) : Prop :=
  exists a c, w = WWindow a (Some c) /\ a mod W = 0 /\ a + W - 1 <= h.

Lemma fill_w_ok : forall W d h cnt rf from, 0 < W -> rf_aligned W rf = true ->
  from + N.of_nat cnt <= h + 1 -> Forall (init_wr W h) (rf_fill_w W d rf from cnt).
Proof.
  induction cnt; simpl; intros rf from HW Ha Hb; [constructor|].
  destruct (header d from); [|constructor].
  destruct (rf_insert W rf from (b_bloom b)) as [[ws rf']|] eqn:E; [|constructor].
  destruct (rf_insert_shape W rf _ _ _ _ HW Ha E) as [Ha' Hws].
  apply Forall_app. split.
  - destruct Hws as [->|[c [-> Hto]]]; [constructor|]. constructor; [|constructor].
    exists (rf_from rf), c. split; auto. split; [apply N.eqb_eq; exact Ha|lia].
  - apply IHcnt; auto. lia.
Qed.

Lemma fill_range_w_ok : forall W d h rf from, 0 < W -> rf_aligned W rf = true ->
  Forall (init_wr W h) (rf_fill_range_w W d rf from h).
Proof.
  intros W d h rf from HW Ha. unfold rf_fill_range_w.
  destruct (from <=? h + 1) eqn:E.
  - apply N.leb_le in E. apply fill_w_ok; auto. lia.
  - apply N.leb_gt in E. replace (N.to_nat (h + 1 - from)) with O by lia. constructor.
Qed.

Lemma reinit_w_ok : forall W d h, 0 < W -> consistent W d = true -> d_height d = Some h ->
  Forall (init_wr W h) (reinit_w W d).
Proof.
  intros W d h HW Hc Hh. unfold reinit_w. rewrite Hh.
  pose proof (proj1 (consistent_some W d h Hh) Hc) as [Hsn [hb I]].
  destruct I as [i_head0 i_full0 i_ent0 i_link0 i_state0 i_win0].
  assert (Hrb : Forall (init_wr W h) (rf_rebuild_w W d h)).
  { unfold rf_rebuild_w. destruct (find_anchor W d (align W (floor0 d)) (align W h) (N.to_nat (align W h / W))) as [a|] eqn:E.
    - apply fill_range_w_ok; auto. unfold rf_aligned, rf_new. simpl.
      apply find_anchor_window in E as [c Hgw]. apply get_window_In in Hgw. apply i_win0 in Hgw as [M _].
      apply N.eqb_eq. apply mod0_add; auto.
    - apply fill_range_w_ok; auto. unfold rf_aligned, rf_new. simpl. apply N.eqb_eq. apply align_mod; auto. }
  unfold snap_ok in Hsn. destruct (d_snap d) as [s|]; auto.
  destruct (rf_next s =? h + 1); [constructor|].
  destruct ((rf_next s <=? h) && (h <=? rf_to W s)); auto.
  apply fill_range_w_ok; auto.
Qed.

Lemma init_wr_consistent : forall W d h w, consistent W d = true -> d_height d = Some h -> init_wr W h w ->
  consistent W (apply_batch d [w]) = true /\ d_height (apply_batch d [w]) = Some h.
Proof.
  intros W d h w Hc Hh (a & c & -> & Ha & Hl). simpl. split; [|exact Hh].
  pose proof (proj1 (consistent_some W d h Hh) Hc) as [Hsn [hb I]].
  destruct I as [i_head0 i_full0 i_ent0 i_link0 i_state0 i_win0].
  apply (proj2 (consistent_some W (set_windows d ((a, c) :: win_del a (d_windows d))) h Hh)). split; [exact Hsn|]. exists hb. constructor; auto.
  intros a0 c0 Hin. simpl in Hin. destruct Hin as [Heq|Hin].
  - inversion Heq; subst. auto.
  - apply In_win_del in Hin. eauto.
Qed.

Lemma good_batches_prefix : forall W h bs d,
  (forall b, In b bs -> forall d', consistent W d' = true -> d_height d' = Some h ->
      consistent W (apply_batch d' b) = true /\ d_height (apply_batch d' b) = Some h) ->
  consistent W d = true -> d_height d = Some h ->
  forall j, consistent W (apply_batches d (firstn j bs)) = true.
Proof.
  induction bs; intros d Hb Hc Hh j; destruct j; simpl; auto.
  destruct (Hb a (or_introl eq_refl) d Hc Hh) as [C1 C2].
  apply IHbs; auto. intros b Hin. apply Hb. right; auto.
Qed.

(* ---------- one operation ---------- *)
Definition Good (W : N) (st : disk * rfilter) : Prop :=
  consistent W (fst st) = true /\ rf_aligned W (snd st) = true.

Lemma firstn_single : forall {A} (x : A) j, firstn j [x] = [] \/ firstn j [x] = [x].
Proof. destruct j; simpl; auto. destruct j; simpl; auto. Qed.

Lemma Forall_firstn : forall {A} (P : A -> Prop) l j, Forall P l -> Forall P (firstn j l).
Proof.
  induction l; intros j H; destruct j; simpl; auto. inversion H; subst. constructor; auto.
Qed.

(* every batch prefix of every operation keeps the disk consistent, and the memory stays aligned *)
Lemma op_batches_good : forall W st o j, 0 < W -> Good W st -> op_ok W (fst st) (snd st) o = true ->
  consistent W (apply_batches (fst st) (firstn j (fst (plan W o (fst st) (snd st))))) = true
  /\ rf_aligned W (snd (plan W o (fst st) (snd st))) = true.
Proof.
  intros W [d m] o j HW [Hc Ha] Hok. cbn [fst snd] in *.
  assert (Hnil : consistent W (apply_batches d (firstn j (@nil batch))) = true).
  { destruct j; exact Hc. }
  assert (Hone : forall x : batch, consistent W (apply_batch d x) = true ->
                 consistent W (apply_batches d (firstn j [x])) = true).
  { intros x Hx. destruct (firstn_single x j) as [E|E]; rewrite E; simpl; auto. }
  destruct o; unfold plan.
  - (* Store *)
    destruct (succession_ok d b) eqn:Hs; [|cbn [fst snd]; auto].
    destruct (rf_insert W m (b_num b) (b_bloom b)) as [[ws m']|] eqn:Hi; [|cbn [fst snd]; auto].
    destruct (store_consistent W d m b ws m' HW Hc Ha Hs Hi) as [C1 C2]. cbn [fst snd]. split; auto.
  - (* Revert *)
    destruct (d_height d) as [h|] eqn:Hh; [|cbn [fst snd]; auto].
    destruct (find_num h (d_fam d FSU)); [|cbn [fst snd]; auto].
    destruct (header d h) as [hb|] eqn:Hd; [|cbn [fst snd]; auto].
    destruct (rf_reorg_shape W d m HW Ha) as [A1 A2].
    destruct (rf_reorg W d m) as [[ws|] m'] eqn:Hr; cbn [fst snd] in *; [|auto].
    split; auto. apply Hone. unfold op_ok in Hok. rewrite Hh in Hok.
    apply andb_true_iff in Hok as [Hb Hp].
    eapply revert_consistent; eauto.
    intros Hz. eapply rf_reorg_sync; eauto.
    apply N.eqb_eq in Hz. rewrite Hz in Hb. simpl in Hb. exact Hb.
  - (* Prune *)
    cbn [fst snd]. split; auto. unfold op_ok in Hok. destruct (d_height d) as [h|] eqn:Hh.
    + apply N.leb_le in Hok.
      pose proof (prune_plan_wr W d e h Hok) as P. apply (Forall_firstn _ _ j) in P.
      pose proof (proj1 (consistent_some W d h Hh) Hc) as [Hsn [hb I]].
      destruct (prune_batches_InvS W h hb _ d I P) as (I' & A & B).
      apply (proj2 (consistent_some W _ h (eq_trans A Hh))). split; eauto.
      unfold snap_ok in *. rewrite B. exact Hsn.
    + (* empty chain: no commitments, nothing to prune *)
      pose proof (proj1 (consistent_none W d Hh) Hc) as (_ & Hf & _ & _).
      unfold prune_plan, floor. rewrite Hf. exact Hnil.
  - (* SetL1 *)
    cbn [fst snd]. split; [|exact Ha]. apply Hone. rewrite l1_consistent. exact Hc.
  - (* Snapshot *)
    cbn [fst snd]. split; [|exact Ha].
    destruct (rf_err m); [exact Hnil | apply Hone; apply (snap_consistent W d m); auto].
  - (* Restart: optional snapshot, then the direct writes of the initialisation, one commit each *)
    cbn [fst snd].
    set (bs0 := if graceful && negb (rf_err m) then [[WSnap m]] else []).
    assert (Hd1 : consistent W (apply_batches d bs0) = true /\ d_height (apply_batches d bs0) = d_height d).
    { subst bs0. destruct (graceful && negb (rf_err m)); simpl; auto. split; auto. apply (snap_consistent W d m); auto. }
    destruct Hd1 as [Hc1 Hh1]. split; [|apply reinit_aligned; auto].
    destruct (d_height d) as [h|] eqn:Hh.
    + apply (good_batches_prefix W h); auto.
      intros b Hin d' Hc' Hh'. apply in_app_or in Hin as [Hin|Hin].
      * subst bs0. destruct (graceful && negb (rf_err m)); [|destruct Hin].
        destruct Hin as [<-|[]]. split; [apply snap_consistent; auto|exact Hh'].
      * apply in_map_iff in Hin as [w [<- Hw]].
        pose proof (reinit_w_ok W _ h HW Hc1 Hh1) as F. rewrite Forall_forall in F.
        apply init_wr_consistent; auto.
    + unfold reinit_w. rewrite Hh1. simpl. rewrite app_nil_r.
      subst bs0. destruct (graceful && negb (rf_err m)); [apply Hone; apply (snap_consistent W d m); auto | exact Hnil].
Qed.

Lemma firstn_all' : forall {A} (l : list A), firstn (length l) l = l.
Proof. intros. apply firstn_all. Qed.

Lemma step_good : forall W st o, 0 < W -> Good W st -> op_ok W (fst st) (snd st) o = true -> Good W (step W st o).
Proof.
  intros W st o HW HG Hok.
  destruct (op_batches_good W st o (length (fst (plan W o (fst st) (snd st)))) HW HG Hok) as [C A].
  rewrite firstn_all in C. unfold step.
  destruct (plan W o (fst st) (snd st)) as [bs m'] eqn:E. simpl in *. split; simpl; auto.
Qed.

(* ---------- crash ---------- *)
Lemma crash_consistent : forall W ops k st, 0 < W -> Good W st -> ops_ok W ops st = true ->
  consistent W (crash_disk W ops k st) = true.
Proof.
  induction ops; simpl; intros k st HW HG Hok; [apply HG|].
  apply andb_true_iff in Hok as [H1 H2].
  destruct (Nat.leb (length (fst (plan W a (fst st) (snd st)))) k).
  - apply IHops; auto. apply step_good; auto.
  - apply (op_batches_good W st a k HW HG H1).
Qed.

(* the crash image is the disk after a prefix of complete operations followed by a batch prefix of
   the next operation *)
Lemma crash_prefix : forall W ops k st, exists n j,
  let st' := run W (firstn n ops) st in
  crash_disk W ops k st =
  apply_batches (fst st')
    (firstn j (match nth_error ops n with
               | Some o => fst (plan W o (fst st') (snd st'))
               | None => []
               end)).
Proof.
  induction ops; simpl; intros k st.
  - exists O, O. reflexivity.
  - destruct (Nat.leb (length (fst (plan W a (fst st) (snd st)))) k).
    + destruct (IHops (k - length (fst (plan W a (fst st) (snd st))))%nat (step W st a)) as [n [j H]].
      exists (S n), j. simpl. exact H.
    + exists O, k. reflexivity.
Qed.

Lemma plan_single : forall W o d m, (forall e, o <> Prune e) -> is_restart o = false ->
  (length (fst (plan W o d m)) <= 1)%nat.
Proof.
  intros W o d m Hp Hr. destruct o; simpl; try discriminate.
  - destruct (succession_ok d b); simpl; auto. destruct (rf_insert W m (b_num b) (b_bloom b)) as [[? ?]|]; simpl; auto.
  - destruct (d_height d); simpl; auto. destruct (find_num n (d_fam d FSU)); simpl; auto.
    destruct (header d n); simpl; auto. destruct (rf_reorg W d m) as [[?|] ?]; simpl; auto.
  - exfalso. eapply Hp; eauto.
  - auto.
  - destruct (rf_err m); simpl; auto.
Qed.

(* without prune and restart every crash image is the disk after a prefix of COMPLETE operations *)
Lemma crash_atomic : forall W ops k st, (forall e, ~ In (Prune e) ops) ->
  (forall o, In o ops -> is_restart o = false) ->
  exists n, crash_disk W ops k st = fst (run W (firstn n ops) st).
Proof.
  induction ops; simpl; intros k st Hp Hr.
  - exists O. reflexivity.
  - pose proof (plan_single W a (fst st) (snd st) ltac:(intros e X; apply (Hp e); left; auto) (Hr a (or_introl eq_refl))) as L.
    destruct (Nat.leb (length (fst (plan W a (fst st) (snd st)))) k) eqn:E.
    + destruct (IHops (k - length (fst (plan W a (fst st) (snd st))))%nat (step W st a)) as [n H].
      { intros e X. apply (Hp e). right; auto. }
      { intros o X. apply Hr. right; auto. }
      exists (S n). simpl. exact H.
    + exists O. simpl. apply Nat.leb_gt in E.
      assert (k = O) by lia. subst k. reflexivity.
Qed.

(* ---------- fault ---------- *)
(* a failed commit leaves the disk exactly as the batches committed before it left it; for the
   single-batch operations: unchanged *)
Lemma fault_step_disk : forall W o d m k, is_restart o = false ->
  (k < length (fst (plan W o d m)))%nat ->
  fst (exec_fault W [o] k (d, m)) = apply_batches d (firstn k (fst (plan W o d m))).
Proof.
  intros W o d m k Hr Hk. simpl.
  destruct (Nat.leb (length (fst (plan W o d m))) k) eqn:L; [apply Nat.leb_le in L; lia|].
  unfold fault_op. destruct (plan W o d m) as [bs m'] eqn:E. destruct o; try discriminate; reflexivity.
Qed.

(* failed store away from a window end: the filter keeps its window and loses no bit *)
Lemma cols_sub_cons : forall a e b, cols_sub a b = true -> cols_sub a (e :: b) = true.
Proof.
  unfold cols_sub. intros a e b H. rewrite forallb_forall in *. intros x Hx. specialize (H x Hx).
  rewrite forallb_forall in *. intros k Hk. specialize (H k Hk). unfold col_has in *. simpl.
  rewrite H. apply orb_true_r.
Qed.

Lemma fault_store_superset : forall W d m b r,
  rf_superset m r = true -> negb (b_num b =? rf_to W m) = true ->
  rf_superset (snd (plan W (Store b) d m)) r = true.
Proof.
  intros W d m b r Hs Hb. simpl. destruct (succession_ok d b); auto.
  unfold rf_insert. unfold rf_superset in Hs.
  apply andb_true_iff in Hs as [Hs H3]. apply andb_true_iff in Hs as [H1 H2].
  destruct (rf_err m) eqn:He; [discriminate|].
  destruct ((b_num b <? rf_from m) || (rf_to W m <? b_num b)); simpl.
  - unfold rf_superset. rewrite H2, H3, He. reflexivity.
  - destruct (b_num b =? rf_to W m); [discriminate|]. simpl.
    unfold rf_superset. simpl. rewrite H2. simpl. apply cols_sub_cons. exact H3.
Qed.

Lemma fault_disk_single : forall W o d m, (forall e, o <> Prune e) -> is_restart o = false ->
  fst (plan W o d m) <> [] -> fst (exec_fault W [o] 0 (d, m)) = d.
Proof.
  intros W o d m Hp Hr Hne. rewrite fault_step_disk; auto.
  destruct (fst (plan W o d m)); [contradiction|simpl; lia].
Qed.

(* failing the k-th commit of a prune leaves exactly the batches before it *)
Lemma fault_disk_prune : forall W e d m k, (k < length (prune_plan W d e))%nat ->
  fst (exec_fault W [Prune e] k (d, m)) = apply_batches d (firstn k (prune_plan W d e)).
Proof.
  intros. apply (fault_step_disk W (Prune e) d m k); auto.
Qed.
