(* C05 — lemmas, part E: the in-memory filter stays in sync with the head (mem_sync) through every
   operation other than Restart. *)
From Coq Require Import List NArith Bool Lia ZifyN ZifyNat ZifyBool.
From V Require Import C05.Model C05.Proofs_A C05.Proofs_B C05.Proofs_C.
Import ListNotations.
Open Scope N_scope.

Lemma align_in : forall W a x, 0 < W -> a mod W = 0 -> a <= x -> x <= a + W - 1 -> align W x = a.
Proof.
  intros W a x HW Ha L1 L2. unfold align. apply N.mod_divides in Ha; [|lia]. destruct Ha as [q Hq].
  assert (Hm : x mod W = x - a). { symmetry. apply N.mod_unique with q; lia. }
  rewrite Hm. lia.
Qed.

Lemma align_le : forall W x, 0 < W -> align W x <= x /\ x <= align W x + W - 1.
Proof.
  intros W x HW. unfold align. pose proof (N.mod_upper_bound x W ltac:(lia)).
  pose proof (N.mod_le x W ltac:(lia)). lia.
Qed.

Lemma sync_store : forall W d m b, 0 < W -> mem_sync W d m = true ->
  let st' := step W (d, m) (Store b) in mem_sync W (fst st') (snd st') = true.
Proof.
  intros W d m b HW Hs. unfold step. cbn [fst snd plan].
  destruct (succession_ok d b) eqn:Hsucc; [|exact Hs].
  assert (Hal : rf_aligned W m = true).
  { unfold mem_sync in Hs. apply andb_true_iff in Hs as [_ Hs]. unfold rf_aligned.
    destruct (d_height d); apply andb_true_iff in Hs as [_ Hf]; apply N.eqb_eq in Hf; rewrite Hf; apply N.eqb_eq.
    - apply align_mod; auto.
    - apply N.mod_0_l. lia. }
  destruct (rf_insert W m (b_num b) (b_bloom b)) as [[ws m']|] eqn:Hi; [|exact Hs].
  cbn [fst snd apply_batches fold_left].
  destruct (rf_insert_shape W m _ _ _ _ HW Hal Hi) as [_ Hws].
  assert (Hwo : Forall window_only ws). { destruct Hws as [->|[c [-> _]]]; repeat constructor. }
  destruct (store_fields d b ws Hwo) as (A & _).
  unfold mem_sync. rewrite A.
  (* the number of b and the filter *)
  assert (Hn : rf_next m = b_num b /\ rf_from m = align W (b_num b) /\ rf_err m = false).
  { unfold mem_sync in Hs. unfold succession_ok in Hsucc. destruct (rf_err m); [discriminate|]. simpl in Hs.
    destruct (d_height d) as [h|].
    - destruct (header d h); [|discriminate]. apply andb_true_iff in Hsucc as [S1 _]. apply N.eqb_eq in S1.
      apply andb_true_iff in Hs as [H1 H2]. apply N.eqb_eq in H1. apply N.eqb_eq in H2. rewrite S1. auto.
    - apply andb_true_iff in Hsucc as [S1 _]. apply N.eqb_eq in S1.
      apply andb_true_iff in Hs as [H1 H2]. apply N.eqb_eq in H1. apply N.eqb_eq in H2. rewrite S1.
      repeat split; auto; try (rewrite H2; unfold align; rewrite N.mod_0_l by lia; reflexivity). }
  destruct Hn as (N1 & N2 & N3).
  unfold rf_insert in Hi. rewrite N3 in Hi.
  destruct ((b_num b <? rf_from m) || (rf_to W m <? b_num b)); [discriminate|].
  pose proof (align_le W (b_num b) HW) as [L1 L2].
  assert (Ham : align W (b_num b) mod W = 0) by (apply align_mod; auto).
  destruct (b_num b =? rf_to W m) eqn:E; inversion Hi; subst m'; simpl.
  - apply N.eqb_eq in E. unfold rf_to in E. rewrite N.eqb_refl. simpl. apply N.eqb_eq.
    symmetry. apply align_in; auto; try lia.
    replace (b_num b + 1) with (rf_from m + W) by lia. apply mod0_add; auto. rewrite N2. exact Ham.
  - apply N.eqb_neq in E. unfold rf_to in E. rewrite N.eqb_refl. simpl. apply N.eqb_eq.
    symmetry. apply align_in; auto; try lia. rewrite N2. exact Ham.
Qed.

Lemma sync_revert : forall W d m, 0 < W -> mem_sync W d m = true ->
  let st' := step W (d, m) Revert in mem_sync W (fst st') (snd st') = true.
Proof.
  intros W d m HW Hs. unfold step. cbn [fst snd plan].
  destruct (d_height d) as [h|] eqn:Hh; [|exact Hs].
  destruct (find_num h (d_fam d FSU)); [|exact Hs].
  destruct (header d h) as [hb|] eqn:Hd; [|exact Hs].
  assert (Hnum : b_num hb = h). { apply find_num_some in Hd. tauto. }
  pose proof Hs as Hs0. unfold mem_sync in Hs. rewrite Hh in Hs.
  apply andb_true_iff in Hs as [He Hs]. apply andb_true_iff in Hs as [Hn Hf].
  apply N.eqb_eq in Hn. apply N.eqb_eq in Hf.
  destruct (rf_err m) eqn:Herr; [discriminate|].
  pose proof (align_le W (h + 1) HW) as [L1 L2].
  assert (Ham : rf_from m mod W = 0) by (rewrite Hf; apply align_mod; auto).
  unfold rf_reorg. rewrite Herr, Hn.
  replace (h + 1 =? 0) with false by (symmetry; apply N.eqb_neq; lia).
  replace (h + 1 - 1) with h by lia.
  assert (Hres : forall ws m', rf_from m' = align W h -> rf_next m' = h -> rf_err m' = false ->
            mem_sync W (apply_batches d [revert_batch hb ws]) m' = true \/ True) by (intros; right; exact I).
  clear Hres.
  assert (Hfin : forall ws m', Forall window_only ws -> rf_from m' = align W h -> rf_next m' = h -> rf_err m' = false ->
            mem_sync W (apply_batches d [revert_batch hb ws]) m' = true).
  { intros ws m' Hwo F1 F2 F3. cbn [apply_batches fold_left].
    destruct (revert_fields d hb ws Hwo) as (A & _). unfold mem_sync. rewrite A, F3, F2, F1, Hnum. simpl.
    destruct (h =? 0) eqn:Hz.
    - apply N.eqb_eq in Hz. rewrite Hz. reflexivity.
    - apply N.eqb_neq in Hz. replace (h - 1 + 1) with h by lia. rewrite !N.eqb_refl. reflexivity. }
  destruct ((0 <? rf_from m) && (h + 1 =? rf_from m)) eqn:Hc.
  - destruct (get_window d (align W h)); [|exact Hs0].
    cbn [fst snd]. apply Hfin; auto. repeat constructor.
  - assert (Hle : rf_from m <= h).
    { apply andb_false_iff in Hc as [Hc|Hc].
      - apply N.ltb_ge in Hc. lia.
      - apply N.eqb_neq in Hc. lia. }
    replace ((h <? rf_from m) || (rf_to W m <? h)) with false.
    2:{ symmetry. apply orb_false_iff. split; [apply N.ltb_ge; lia|]. unfold rf_to. apply N.ltb_ge. lia. }
    cbn [fst snd]. apply Hfin; auto. cbn [rf_from].
    symmetry. apply align_in; auto; lia.
Qed.

Lemma sync_step : forall W st o, 0 < W -> mem_sync W (fst st) (snd st) = true -> is_restart o = false ->
  mem_sync W (fst (step W st o)) (snd (step W st o)) = true.
Proof.
  intros W [d m] o HW Hs Hr. cbn [fst snd] in Hs. destruct o; try discriminate.
  - apply sync_store; auto.
  - apply sync_revert; auto.
  - (* Prune: memory untouched, height untouched (deletion-only writes) *)
    unfold step. cbn [fst snd plan].
    assert (Hh : forall bs d0, Forall (Forall (fun w => match w with WHeight _ => False | _ => True end)) bs ->
                 d_height (apply_batches d0 bs) = d_height d0).
    { induction bs; simpl; intros d0 H; auto. inversion H; subst. rewrite IHbs by auto.
      clear -H2. revert d0. induction a; simpl; intros; auto. inversion H2; subst. rewrite IHa by auto.
      destruct a; simpl in *; try reflexivity; try contradiction. destruct c; reflexivity. }
    unfold mem_sync in *. rewrite Hh; auto.
    (* no WHeight in a prune plan *)
    unfold prune_plan. destruct (floor d); [|constructor]. destruct (e <=? n); [constructor|].
    assert (Hpb : forall cnt k carry, Forall (fun w => match w with WHeight _ => False | _ => True end) carry ->
              Forall (Forall (fun w => match w with WHeight _ => False | _ => True end)) (fst (prune_blocks d keep_hist e k cnt carry))).
    { induction cnt; simpl; intros k carry Hc; [constructor|].
      destruct (find_num k (d_fam d FSU)) as [sb|]; [|constructor].
      specialize (IHcnt (k + 1) [WDel FHashNum k (b_id sb)] ltac:(repeat constructor)).
      destruct (prune_blocks d keep_hist e (k + 1) cnt [WDel FHashNum k (b_id sb)]). simpl in *.
      constructor; auto. apply Forall_app. split; auto. destruct keep_hist; repeat constructor. }
    assert (Hg : forall cw, Forall (fun w => match w with WHeight _ => False | _ => True end) cw ->
       Forall (Forall (fun w => match w with WHeight _ => False | _ => True end))
         (let (bs, ok) := prune_blocks d keep_hist e n (N.to_nat (e - n)) cw in if ok then bs ++ [[]; prune_data_batch W e] else bs)).
    { intros cw Hcw. specialize (Hpb (N.to_nat (e - n)) n cw Hcw).
      destruct (prune_blocks d keep_hist e n (N.to_nat (e - n)) cw) as [bs ok]. simpl in Hpb. destruct ok; auto.
      apply Forall_app. split; auto. constructor; [constructor|]. constructor; [|constructor]. unfold prune_data_batch.
      apply Forall_app. split; [repeat constructor|]. destruct (e <? W); repeat constructor. }
    destruct (0 <? n); [destruct (header d (n - 1)); [apply Hg; repeat constructor|constructor]|apply Hg; constructor].
  - exact Hs.
  - unfold step. cbn [fst snd plan]. destruct (rf_err m); exact Hs.
Qed.

Lemma sync_aligned : forall W d m, 0 < W -> mem_sync W d m = true -> rf_aligned W m = true.
Proof.
  intros W d m HW Hs. unfold mem_sync in Hs. apply andb_true_iff in Hs as [_ Hs]. unfold rf_aligned.
  destruct (d_height d); apply andb_true_iff in Hs as [_ Hf]; apply N.eqb_eq in Hf; rewrite Hf; apply N.eqb_eq.
  - apply align_mod; auto.
  - apply N.mod_0_l. lia.
Qed.

