(* C05 — lemmas, part F: header continuity (cont) is preserved by every batch; the filter a fresh
   process computes from a consistent, continuous disk is in sync with the head (reinit_sync). *)
From Coq Require Import List NArith Bool Lia ZifyN ZifyNat ZifyBool.
From V Require Import C05.Model C05.Proofs_A C05.Proofs_B C05.Proofs_C C05.Proofs_E.
Import ListNotations.
Open Scope N_scope.

(* ---------- cont in Prop form ---------- *)
Definition Cont (d : disk) (h : N) : Prop :=
  (forall x, In x (d_fam d FHeader) -> b_num x < h -> header d (b_num x + 1) <> None) /\
  (forall y, In y (d_fam d FCommit) -> header d (b_num y) <> None).

Lemma hdr_present_iff : forall d n, hdr_present d n = true <-> header d n <> None.
Proof. intros. unfold hdr_present. destruct (header d n); split; intros H; try discriminate; auto; try (exfalso; apply H; reflexivity). Qed.

Lemma cont_some : forall d h, d_height d = Some h -> (cont d = true <-> Cont d h).
Proof.
  intros d h Hh. unfold cont, Cont. rewrite Hh. rewrite andb_true_iff, !forallb_forall. split.
  - intros [A B]. split.
    + intros x Hx L. specialize (A x Hx). apply orb_true_iff in A as [A|A]; [lia|]. apply hdr_present_iff; auto.
    + intros y Hy. apply hdr_present_iff; auto.
  - intros [A B]. split.
    + intros x Hx. destruct (h <=? b_num x) eqn:E; auto. simpl. apply hdr_present_iff. apply A; auto. lia.
    + intros y Hy. apply hdr_present_iff; auto.
Qed.

Lemma find_num_In : forall x l, In x l -> find_num (b_num x) l <> None.
Proof.
  unfold find_num. induction l; simpl; intros H; [contradiction|].
  destruct H as [->|H]; [rewrite N.eqb_refl; discriminate|].
  destruct (b_num a =? b_num x); [discriminate|auto].
Qed.

Lemma cont_range : forall d h, Cont d h -> forall k x, In x (d_fam d FHeader) ->
  b_num x + N.of_nat k <= h -> header d (b_num x + N.of_nat k) <> None.
Proof.
  intros d h [C1 _]. induction k; intros x Hx L.
  - simpl. rewrite N.add_0_r. apply find_num_In; auto.
  - assert (L' : b_num x + N.of_nat k <= h) by lia.
    specialize (IHk x Hx L'). destruct (header d (b_num x + N.of_nat k)) as [y|] eqn:E; [|contradiction].
    apply find_num_some in E as [Hy Hn].
    replace (b_num x + N.of_nat (S k)) with (b_num y + 1) by lia. apply C1; auto. lia.
Qed.

Lemma cont_from : forall d h x n, Cont d h -> In x (d_fam d FHeader) -> b_num x <= n -> n <= h ->
  header d n <> None.
Proof.
  intros d h x n C Hx L1 L2. replace n with (b_num x + N.of_nat (N.to_nat (n - b_num x))) by lia.
  eapply cont_range; eauto. lia.
Qed.

(* the retention floor is the number of some block with commitments *)
Lemma fold_min_attained : forall l m, let r := fold_left (fun m x => N.min m (b_num x)) l m in
  r = m \/ exists y, In y l /\ b_num y = r.
Proof.
  induction l; simpl; intros m; auto.
  destruct (IHl (N.min m (b_num a))) as [E|[y [Hy E]]].
  - rewrite E. destruct (N.min_spec m (b_num a)) as [[_ ->]|[_ ->]]; auto. right. exists a. auto.
  - right. exists y. auto.
Qed.

Lemma floor_attained : forall d f, floor d = Some f -> exists y, In y (d_fam d FCommit) /\ b_num y = f.
Proof.
  unfold floor. intros d f H. destruct (d_fam d FCommit) as [|b r]; [discriminate|]. inversion H.
  destruct (fold_min_attained r (b_num b)) as [E|[y [Hy E]]].
  - exists b. split; [left; auto|]. rewrite E. reflexivity.
  - exists y. split; [right; auto|]. exact E.
Qed.

(* every retained number up to the head has its header *)
Lemma retained_headers : forall W d h hb, InvS W d h hb -> Cont d h ->
  forall n, floor0 d <= n -> n <= h -> header d n <> None.
Proof.
  intros W d h hb I C n L1 L2. unfold floor0 in L1. destruct (floor d) as [f|] eqn:F.
  - destruct (floor_attained d f F) as [y [Hy Hn]]. pose proof C as [C1 C2].
    pose proof (C2 y Hy) as Hp. destruct (header d (b_num y)) as [z|] eqn:E; [|contradiction].
    apply find_num_some in E as [Hz Hzn].
    apply (cont_from d h z n C); auto; lia.
  - (* no commitments: impossible, the head has them *)
    destruct I as [_ i_full0 _ _ _ _]. unfold floor in F. specialize (i_full0 FCommit).
    destruct (d_fam d FCommit); [contradiction|discriminate].
Qed.

(* ---------- cont through the store batch ---------- *)
Lemma store_cont : forall W d b ws, consistent W d = true -> cont d = true ->
  succession_ok d b = true -> Forall window_only ws ->
  cont (apply_batch d (store_batch b ws)) = true.
Proof.
  intros W d b ws Hc Hk Hs Hwo.
  destruct (store_fields d b ws Hwo) as (A & B & _).
  set (d' := apply_batch d (store_batch b ws)) in *.
  apply (proj2 (cont_some d' (b_num b) A)).
  unfold succession_ok in Hs. destruct (d_height d) as [h|] eqn:Hh.
  - pose proof (proj1 (consistent_some W d h Hh) Hc) as [_ [hb I]].
    destruct I as [i_head0 i_full0 i_ent0 _ _ _].
    rewrite i_head0 in Hs. apply andb_true_iff in Hs as [S1 _]. apply N.eqb_eq in S1.
    destruct (proj1 (cont_some d h Hh) Hk) as [C1 C2].
    assert (Hb : header d' (b_num b) = Some b).
    { unfold header, find_num. rewrite B. simpl. rewrite N.eqb_refl. reflexivity. }
    split.
    + intros x Hx L. rewrite B in Hx. destruct Hx as [<-|Hx]; [lia|].
      destruct (i_ent0 FHeader x Hx) as [Lx _].
      destruct (N.eq_dec (b_num x) h) as [E|E].
      * replace (b_num x + 1) with (b_num b) by lia. rewrite Hb. discriminate.
      * rewrite (header_cons_other d d' b _ (B FHeader)) by lia. apply C1; auto. lia.
    + intros y Hy. rewrite B in Hy. destruct Hy as [<-|Hy]; [rewrite Hb; discriminate|].
      destruct (i_ent0 FCommit y Hy) as [Ly _].
      rewrite (header_cons_other d d' b _ (B FHeader)) by lia. apply C2; auto.
  - pose proof (proj1 (consistent_none W d Hh) Hc) as (_ & Hf & _ & _).
    apply andb_true_iff in Hs as [S1 _]. apply N.eqb_eq in S1.
    assert (Hb : header d' (b_num b) = Some b).
    { unfold header, find_num. rewrite B. simpl. rewrite N.eqb_refl. reflexivity. }
    split.
    + intros x Hx L. lia.
    + intros y Hy. rewrite B, Hf in Hy. destruct Hy as [<-|[]]. rewrite Hb. discriminate.
Qed.

(* ---------- cont through the revert batch ---------- *)
Lemma revert_cont : forall W d h hb ws, consistent W d = true -> cont d = true ->
  d_height d = Some h -> header d h = Some hb -> Forall window_only ws ->
  cont (apply_batch d (revert_batch hb ws)) = true.
Proof.
  intros W d h hb ws Hc Hk Hh Hd Hwo.
  destruct (revert_fields d hb ws Hwo) as (A & B & _).
  set (d' := apply_batch d (revert_batch hb ws)) in *.
  assert (Hnum : b_num hb = h). { apply find_num_some in Hd. tauto. }
  destruct (b_num hb =? 0) eqn:Hz.
  - unfold cont. rewrite A. reflexivity.
  - apply N.eqb_neq in Hz. rewrite Hnum in A.
    apply (proj2 (cont_some d' (h - 1) A)).
    pose proof (proj1 (consistent_some W d h Hh) Hc) as [_ [hb0 I]].
    destruct I as [i_head0 _ i_ent0 _ _ _]. rewrite Hd in i_head0. inversion i_head0; subst hb0.
    destruct (proj1 (cont_some d h Hh) Hk) as [C1 C2].
    assert (Hkeep : forall f x, In x (d_fam d' f) -> In x (d_fam d f) /\ b_num x < h).
    { intros f x Hx. rewrite B in Hx. apply filter_In in Hx as [Hx Hq]. split; auto.
      destruct (i_ent0 f x Hx) as [L Ag].
      assert (b_num x <> h).
      { intros X. rewrite X in Ag. specialize (Ag hb Hd). subst x. rewrite !N.eqb_refl in Hq. discriminate. }
      lia. }
    assert (Hhdr : forall n, n < h -> header d' n = header d n).
    { intros n Hn. unfold header. rewrite B. apply find_num_filter.
      intros x Hx _. rewrite Hx, Hnum. destruct (n =? h) eqn:X; [lia|reflexivity]. }
    split.
    + intros x Hx L. destruct (Hkeep _ _ Hx) as [Hx' Lx]. rewrite Hhdr by lia. apply C1; auto.
    + intros y Hy. destruct (Hkeep _ _ Hy) as [Hy' Ly]. rewrite Hhdr by lia. apply C2; auto.
Qed.

(* ---------- cont through writes that leave height, headers and commitments alone ---------- *)
Definition hc_free (w : wr) : Prop :=
  match w with
  | WDel f _ _ | WDelBelow f _ | WAdd f _ => f <> FHeader /\ f <> FCommit
  | WHeight _ => False
  | _ => True
  end.

Lemma hc_free_fields : forall b d, Forall hc_free b ->
  d_height (apply_batch d b) = d_height d /\
  d_fam (apply_batch d b) FHeader = d_fam d FHeader /\ d_fam (apply_batch d b) FCommit = d_fam d FCommit.
Proof.
  induction b; simpl; intros d H; auto. inversion H; subst.
  destruct (IHb (apply_wr d a) H3) as (A & B & C). rewrite A, B, C.
  destruct a; simpl in H2; try contradiction; simpl; auto;
    try (destruct H2 as [H1 H2']; destruct f; try contradiction; auto).
  destruct c; auto.
Qed.

Lemma cont_ext : forall d d', d_height d' = d_height d -> d_fam d' FHeader = d_fam d FHeader ->
  d_fam d' FCommit = d_fam d FCommit -> cont d' = cont d.
Proof. intros d d' A B C. unfold cont, hdr_present, header. rewrite A, B, C. reflexivity. Qed.

Lemma hc_free_cont : forall b d, Forall hc_free b -> cont (apply_batch d b) = cont d.
Proof. intros b d H. destruct (hc_free_fields b d H) as (A & B & C). apply cont_ext; auto. Qed.

(* ---------- cont through the number-keyed prune batch ---------- *)
Lemma prune_data_fields : forall W e d,
  let x0 := if block_hash_lag <? e then e - block_hash_lag else 0 in
  let d' := apply_batch d (prune_data_batch W e) in
  d_height d' = d_height d /\
  d_fam d' FHeader = filter (fun b => x0 <=? b_num b) (d_fam d FHeader) /\
  d_fam d' FCommit = filter (fun b => e <=? b_num b) (d_fam d FCommit).
Proof.
  intros W e d x0 d'. subst d'. unfold prune_data_batch. rewrite apply_batch_app.
  match goal with |- context [apply_batch ?dd (if e <? W then [] else _)] => set (d1 := dd) end.
  assert (H1 : d_height d1 = d_height d /\
               d_fam d1 FHeader = filter (fun b => x0 <=? b_num b) (d_fam d FHeader) /\
               d_fam d1 FCommit = filter (fun b => e <=? b_num b) (d_fam d FCommit)).
  { subst d1. simpl. repeat split; reflexivity. }
  destruct (e <? W); simpl; auto.
Qed.

Lemma prune_data_cont : forall W e d h, d_height d = Some h -> cont d = true ->
  cont (apply_batch d (prune_data_batch W e)) = true.
Proof.
  intros W e d h Hh Hk. destruct (prune_data_fields W e d) as (A & B & C).
  set (x0 := if block_hash_lag <? e then e - block_hash_lag else 0) in *.
  set (d' := apply_batch d (prune_data_batch W e)) in *.
  assert (Hx0 : x0 <= e). { subst x0. unfold block_hash_lag. destruct (10 <? e); lia. }
  apply (proj2 (cont_some d' h (eq_trans A Hh))).
  destruct (proj1 (cont_some d h Hh) Hk) as [C1 C2].
  assert (Hhdr : forall n, x0 <= n -> header d' n = header d n).
  { intros n Hn. unfold header. rewrite B. apply find_num_filter. intros x Hx _. apply N.leb_le. lia. }
  split.
  - intros x Hx L. rewrite B in Hx. apply filter_In in Hx as [Hx Hq]. apply N.leb_le in Hq.
    rewrite Hhdr by lia. apply C1; auto.
  - intros y Hy. rewrite C in Hy. apply filter_In in Hy as [Hy Hq]. apply N.leb_le in Hq.
    rewrite Hhdr by lia. apply C2; auto.
Qed.

(* the shape of the prune batches *)
Lemma prune_blocks_hc : forall d kh e cnt n carry, Forall hc_free carry ->
  Forall (Forall hc_free) (fst (prune_blocks d kh e n cnt carry)).
Proof.
  induction cnt; simpl; intros n carry Hc; [constructor|].
  destruct (find_num n (d_fam d FSU)) as [sb|]; [|constructor].
  specialize (IHcnt (n + 1) [WDel FHashNum n (b_id sb)] ltac:(repeat constructor; discriminate)).
  destruct (prune_blocks d kh e (n + 1) cnt [WDel FHashNum n (b_id sb)]) as [r ok]. simpl in *. constructor; auto.
  apply Forall_app. split; auto.
  constructor; [simpl; split; discriminate|]. destruct kh; repeat constructor; discriminate.
Qed.

Lemma prune_plan_shape : forall W d kh e,
  Forall (fun b => Forall hc_free b \/ b = prune_data_batch W e) (prune_plan W d kh e).
Proof.
  intros W d kh e. unfold prune_plan. destruct (floor d) as [start|]; [|constructor].
  destruct (e <=? start); [constructor|].
  assert (Hgen : forall cw, Forall hc_free cw ->
     Forall (fun b => Forall hc_free b \/ b = prune_data_batch W e)
       (let (bs, ok) := prune_blocks d kh e start (N.to_nat (e - start)) cw in
        if ok then bs ++ [[]; prune_data_batch W e] else bs)).
  { intros cw Hcw. pose proof (prune_blocks_hc d kh e (N.to_nat (e - start)) start cw Hcw) as P.
    destruct (prune_blocks d kh e start (N.to_nat (e - start)) cw) as [bs ok]. simpl in P.
    assert (P' : Forall (fun b => Forall hc_free b \/ b = prune_data_batch W e) bs).
    { eapply Forall_impl; [|exact P]. intros; left; auto. }
    destruct ok; auto. apply Forall_app. split; auto. }
  destruct (0 <? start).
  - destruct (header d (start - 1)); [|constructor]. apply Hgen. repeat constructor; discriminate.
  - apply Hgen. constructor.
Qed.

(* ---------- the re-initialised filter is in sync ---------- *)
Lemma mult_gap : forall W a b, 0 < W -> a mod W = 0 -> b mod W = 0 -> b < a -> b + W <= a.
Proof.
  intros W a b HW Ha Hb L. apply N.mod_divides in Ha; [|lia]. apply N.mod_divides in Hb; [|lia].
  destruct Ha as [q ->]. destruct Hb as [q' ->].
  assert (q' < q). { apply (N.mul_lt_mono_pos_l W); auto. }
  replace (W * q' + W) with (W * (q' + 1)) by lia. apply N.mul_le_mono_l. lia.
Qed.

Lemma mod0_sub : forall W a, 0 < W -> a mod W = 0 -> W <= a -> (a - W) mod W = 0.
Proof.
  intros W a HW Ha L. apply N.mod_divides in Ha; [|lia]. destruct Ha as [q ->].
  assert (q <> 0). { intros ->. lia. }
  replace (W * q - W) with ((q - 1) * W).
  - apply N.mod_mul. lia.
  - rewrite N.mul_sub_distr_r. lia.
Qed.

Lemma find_anchor_ge : forall W d fl fuel a x, 0 < W -> fl mod W = 0 -> a mod W = 0 -> fl <= a ->
  find_anchor W d fl a fuel = Some x -> fl <= x.
Proof.
  induction fuel; simpl; intros a x HW Hf Ha L H.
  - destruct (get_window d a); [inversion H; subst; auto|]. destruct (a <=? fl); discriminate.
  - destruct (get_window d a); [inversion H; subst; auto|].
    destruct (a <=? fl) eqn:E; [discriminate|]. apply N.leb_gt in E.
    pose proof (mult_gap W a fl HW Ha Hf E).
    apply (IHfuel (a - W)); auto; [apply mod0_sub; auto; lia|lia].
Qed.

Lemma get_window_In : forall d a c, get_window d a = Some c -> In (a, c) (d_windows d).
Proof.
  unfold get_window. intros d a c H. destruct (find (fun e => fst e =? a) (d_windows d)) as [e|] eqn:E; [|discriminate].
  apply find_some in E as [E1 E2]. apply N.eqb_eq in E2. inversion H; subst. destruct e; exact E1.
Qed.

Lemma find_anchor_window : forall W d fl fuel a x, find_anchor W d fl a fuel = Some x ->
  exists c, get_window d x = Some c.
Proof.
  induction fuel; simpl; intros a x H.
  - destruct (get_window d a) eqn:E; [inversion H; subst; eauto|]. destruct (a <=? fl); discriminate.
  - destruct (get_window d a) eqn:E; [inversion H; subst; eauto|]. destruct (a <=? fl); [discriminate|].
    eapply IHfuel; eauto.
Qed.

Lemma fill_sync : forall W d h cnt rf from, 0 < W ->
  rf_from rf mod W = 0 -> rf_err rf = false -> rf_from rf <= from -> from <= rf_to W rf ->
  (forall n, from <= n -> n <= h -> header d n <> None) ->
  from + N.of_nat cnt = h + 1 -> (0 < cnt)%nat ->
  let r := rf_fill W d rf from cnt in
  rf_err r = false /\ rf_next r = h + 1 /\ rf_from r = align W (h + 1).
Proof.
  induction cnt; intros rf from HW Ha He L1 L2 Hh Hc Hpos; [lia|].
  simpl. destruct (header d from) as [hb|] eqn:Hd; [|exfalso; apply (Hh from); auto; lia].
  unfold rf_insert. rewrite He.
  replace ((from <? rf_from rf) || (rf_to W rf <? from)) with false
    by (symmetry; apply orb_false_iff; split; apply N.ltb_ge; lia).
  unfold rf_to in *.
  destruct (from =? rf_from rf + W - 1) eqn:E.
  - apply N.eqb_eq in E.
    assert (Ha' : (from + 1) mod W = 0).
    { replace (from + 1) with (rf_from rf + W) by lia. apply mod0_add; auto. }
    destruct cnt.
    + simpl. repeat split; auto; try lia.
      replace (h + 1) with (from + 1) by lia. unfold align. rewrite Ha'. lia.
    + apply IHcnt; auto; simpl; try lia. intros n A B. apply Hh; lia.
  - apply N.eqb_neq in E. destruct cnt.
    + simpl. repeat split; auto; try lia. symmetry. apply align_in; auto; lia.
    + apply IHcnt; auto; simpl; try lia. intros n A B. apply Hh; lia.
Qed.

Lemma fill_range_sync : forall W d h rf from, 0 < W ->
  rf_from rf mod W = 0 -> rf_err rf = false -> rf_from rf <= from -> from <= rf_to W rf -> from <= h ->
  (forall n, from <= n -> n <= h -> header d n <> None) ->
  let r := rf_fill_range W d rf from h in
  rf_err r = false /\ rf_next r = h + 1 /\ rf_from r = align W (h + 1).
Proof.
  intros. unfold rf_fill_range. apply fill_sync; auto; lia.
Qed.

Lemma sync_of : forall W d h m, d_height d = Some h ->
  rf_err m = false -> rf_next m = h + 1 -> rf_from m = align W (h + 1) -> mem_sync W d m = true.
Proof.
  intros W d h m Hh A B C. unfold mem_sync. rewrite Hh, A, B, C, !N.eqb_refl. reflexivity.
Qed.

Lemma rf_wf_parts : forall W s, rf_wf W s = true ->
  rf_from s mod W = 0 /\ rf_err s = false /\ rf_from s <= rf_next s /\ rf_next s <= rf_to W s.
Proof.
  unfold rf_wf. intros W s H. repeat (apply andb_true_iff in H as [H ?]).
  destruct (rf_err s); [discriminate|]. repeat split; auto; lia.
Qed.

Lemma reinit_sync : forall W d, 0 < W -> consistent W d = true -> cont d = true ->
  mem_sync W d (reinit W d) = true.
Proof.
  intros W d HW Hc Hk. unfold reinit. destruct (d_height d) as [h|] eqn:Hh.
  2:{ unfold mem_sync. rewrite Hh. reflexivity. }
  pose proof (proj1 (consistent_some W d h Hh) Hc) as [Hsn [hb I]].
  pose proof (proj1 (cont_some d h Hh) Hk) as C.
  pose proof (retained_headers W d h hb I C) as Hret.
  pose proof I as [i_head0 i_full0 i_ent0 i_link0 i_state0 i_win0].
  assert (Hfl : floor0 d <= h).
  { unfold floor0. destruct (floor d) as [f|] eqn:F; [|lia].
    destruct (floor_attained d f F) as [y [Hy Hn]]. destruct (i_ent0 FCommit y Hy). lia. }
  assert (Hrb : mem_sync W d (rf_rebuild W d h) = true).
  { unfold rf_rebuild.
    destruct (find_anchor W d (align W (floor0 d)) (align W h) (N.to_nat (align W h / W))) as [a|] eqn:E.
    - assert (Hal : align W (floor0 d) <= align W h).
      { destruct (align_le W (floor0 d) HW). destruct (align_le W h HW).
        destruct (N.le_gt_cases (align W (floor0 d)) (align W h)) as [X|X]; auto. exfalso.
        pose proof (mult_gap W _ _ HW (align_mod W (floor0 d) HW) (align_mod W h HW) X). lia. }
      pose proof (find_anchor_ge W d _ _ _ _ HW (align_mod W _ HW) (align_mod W _ HW) Hal E) as Hge.
      apply find_anchor_window in E as [c Hgw]. apply get_window_In in Hgw. apply i_win0 in Hgw as [M Lw].
      destruct (align_le W (floor0 d) HW) as [_ Lf].
      destruct (N.eq_dec (a + W) (h + 1)) as [Eq|Ne].
      + unfold rf_fill_range. replace (N.to_nat (h + 1 - (a + W))) with O by lia. simpl.
        apply (sync_of W d h); auto; simpl; auto.
        rewrite Eq. unfold align. rewrite <- Eq. rewrite (mod0_add W a HW M). lia.
      + assert (Hx : let r := rf_fill_range W d (rf_new (a + W) (a + W)) (a + W) h in
                     rf_err r = false /\ rf_next r = h + 1 /\ rf_from r = align W (h + 1)).
        { apply fill_range_sync; auto; try (unfold rf_to, rf_new; cbn [rf_from]; lia);
            try (cbn [rf_from rf_err rf_new]; auto; lia).
          - unfold rf_new; cbn [rf_from]. apply mod0_add; auto.
          - intros n A B. apply Hret; lia. }
        destruct Hx as (A & B & C'). apply (sync_of W d h); auto.
    - destruct (align_le W (floor0 d) HW) as [L1 L2].
      assert (Hx : let r := rf_fill_range W d (rf_new (align W (floor0 d)) (floor0 d)) (floor0 d) h in
                   rf_err r = false /\ rf_next r = h + 1 /\ rf_from r = align W (h + 1)).
      { apply fill_range_sync; auto; try (unfold rf_to, rf_new; cbn [rf_from]; lia);
          try (cbn [rf_from rf_err rf_new]; auto; lia).
        unfold rf_new; cbn [rf_from]. apply align_mod; auto. }
      destruct Hx as (A & B & C'). apply (sync_of W d h); auto. }
  unfold snap_ok in Hsn. destruct (d_snap d) as [s|]; auto.
  destruct (rf_wf_parts W s Hsn) as (S1 & S2 & S3 & S4).
  destruct (rf_next s =? h + 1) eqn:E1.
  - apply N.eqb_eq in E1. apply (sync_of W d h); auto.
    symmetry. apply align_in; auto; unfold rf_to in *; lia.
  - destruct ((rf_next s <=? h) && (h <=? rf_to W s)) eqn:E2; auto.
    apply andb_true_iff in E2 as [E2 E3]. apply N.leb_le in E2. apply N.leb_le in E3.
    assert (Hx : let r := rf_fill_range W d
                {| rf_from := rf_from s; rf_cols := rf_cols s; rf_next := N.max (rf_next s) (floor0 d); rf_err := false |}
                (N.max (rf_next s) (floor0 d)) h in
                 rf_err r = false /\ rf_next r = h + 1 /\ rf_from r = align W (h + 1)).
    { apply fill_range_sync; auto; try (unfold rf_to in *; cbn [rf_from]; lia); try (cbn [rf_from rf_err]; auto; lia).
      intros n A B. apply Hret; lia. }
    destruct Hx as (A & B & C'). apply (sync_of W d h); auto.
Qed.
