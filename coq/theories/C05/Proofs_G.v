(* C05 — lemmas, part G: the event index describes the chain. Invariants about the CONTENT of the
   persisted windows, the snapshot and the in-memory filter; their preservation by every batch; and the
   conclusion: a fresh process has no false negatives (index_covers). *)
From Coq Require Import List NArith Bool Lia ZifyN ZifyNat ZifyBool PeanoNat.
From V Require Import C05.Model C05.Proofs_A C05.Proofs_B C05.Proofs_C C05.Proofs_E C05.Proofs_F C05.Proofs_D.
Import ListNotations.
Open Scope N_scope.

(* ---------- columns ---------- *)
Definition ccol (c : cols) (hb : block) : Prop :=
  forall k, In k (b_bloom hb) -> col_has c (b_num hb) k = true.

Lemma ccol_forallb : forall c hb, forallb (fun k => col_has c (b_num hb) k) (b_bloom hb) = true <-> ccol c hb.
Proof. intros. unfold ccol. rewrite forallb_forall. tauto. Qed.

Lemma col_has_cons_same : forall c n bl k, In k bl -> col_has ((n, bl) :: c) n k = true.
Proof.
  intros. unfold col_has. simpl. rewrite N.eqb_refl. simpl.
  assert (existsb (N.eqb k) bl = true) as ->. { apply existsb_exists. exists k. split; auto. apply N.eqb_refl. }
  reflexivity.
Qed.

Lemma col_has_cons_mono : forall c e n k, col_has c n k = true -> col_has (e :: c) n k = true.
Proof. intros. unfold col_has in *. simpl. rewrite H. apply orb_true_r. Qed.

Lemma col_has_clear_other : forall c m n k, n <> m -> col_has (col_clear m c) n k = col_has c n k.
Proof.
  intros c m n k Hn. unfold col_has, col_clear. induction c as [|e c IH]; simpl; auto.
  destruct (fst e =? m) eqn:E; simpl.
  - rewrite IH. apply N.eqb_eq in E. destruct (fst e =? n) eqn:E2; [apply N.eqb_eq in E2; lia|reflexivity].
  - rewrite IH. reflexivity.
Qed.

Lemma ccol_cons_mono : forall c e hb, ccol c hb -> ccol (e :: c) hb.
Proof. unfold ccol. intros. apply col_has_cons_mono. auto. Qed.

Lemma ccol_cons_same : forall c hb, ccol ((b_num hb, b_bloom hb) :: c) hb.
Proof. unfold ccol. intros. apply col_has_cons_same. auto. Qed.

Lemma ccol_clear_other : forall c m hb, b_num hb <> m -> ccol c hb -> ccol (col_clear m c) hb.
Proof. unfold ccol. intros. rewrite col_has_clear_other; auto. Qed.

(* ---------- get_window after window writes ---------- *)
Lemma find_filter_imp : forall {A} (P Q : A -> bool) l, (forall x, P x = true -> Q x = true) ->
  find P (filter Q l) = find P l.
Proof.
  induction l; simpl; intros H; auto. destruct (Q a) eqn:E; simpl.
  - destruct (P a); auto.
  - destruct (P a) eqn:E2; auto. rewrite (H a E2) in E. discriminate.
Qed.

Lemma get_window_ext : forall d1 d2 a, d_windows d1 = d_windows d2 -> get_window d1 a = get_window d2 a.
Proof. intros. unfold get_window. rewrite H. reflexivity. Qed.

Lemma gw_put_same : forall d a c, get_window (apply_batch d [WWindow a (Some c)]) a = Some c.
Proof. intros. unfold get_window. simpl. rewrite N.eqb_refl. reflexivity. Qed.

Lemma gw_put_other : forall d a c a', a' <> a ->
  get_window (apply_batch d [WWindow a (Some c)]) a' = get_window d a'.
Proof.
  intros. unfold get_window. simpl. destruct (a =? a') eqn:E; [apply N.eqb_eq in E; lia|].
  unfold win_del. rewrite find_filter_imp; auto.
  intros x Hx. apply N.eqb_eq in Hx. destruct (fst x =? a) eqn:E2; auto. apply N.eqb_eq in E2. lia.
Qed.

Lemma gw_del_same : forall d a, get_window (apply_batch d [WWindow a None]) a = None.
Proof.
  intros. unfold get_window. simpl. unfold win_del.
  destruct (find (fun e => fst e =? a) (filter (fun e => negb (fst e =? a)) (d_windows d))) eqn:E; auto.
  apply find_some in E as [E1 E2]. apply filter_In in E1 as [_ E1]. rewrite E2 in E1. discriminate.
Qed.

Lemma gw_del_other : forall d a a', a' <> a ->
  get_window (apply_batch d [WWindow a None]) a' = get_window d a'.
Proof.
  intros. unfold get_window. simpl. unfold win_del. rewrite find_filter_imp; auto.
  intros x Hx. apply N.eqb_eq in Hx. destruct (fst x =? a) eqn:E2; auto. apply N.eqb_eq in E2. lia.
Qed.

Lemma gw_below : forall d a0 a, get_window (apply_batch d [WWindowsBelow a0]) a =
  if a0 <=? a then get_window d a else None.
Proof.
  intros. unfold get_window. simpl. destruct (a0 <=? a) eqn:E.
  - rewrite find_filter_imp; auto. intros x Hx. apply N.eqb_eq in Hx. rewrite Hx. exact E.
  - destruct (find (fun e => fst e =? a) (filter (fun e => a0 <=? fst e) (d_windows d))) eqn:F; auto.
    apply find_some in F as [F1 F2]. apply filter_In in F1 as [_ F1]. apply N.eqb_eq in F2. rewrite F2 in F1.
    rewrite F1 in E. discriminate.
Qed.

(* ---------- the retention floor ---------- *)
Definition floorL (l : list block) : option N :=
  match l with [] => None | b :: r => Some (fold_left (fun m x => N.min m (b_num x)) r (b_num b)) end.

Lemma floor_is_floorL : forall d, floor d = floorL (d_fam d FCommit).
Proof. reflexivity. Qed.

Lemma fold_min_le : forall l m y, In y l -> fold_left (fun m x => N.min m (b_num x)) l m <= b_num y.
Proof.
  induction l; simpl; intros m y H; [contradiction|]. destruct H as [->|H].
  - pose proof (floor_fold_le l (N.min m (b_num y))). lia.
  - apply IHl; auto.
Qed.

Lemma floorL_spec : forall l f, floorL l = Some f ->
  (exists y, In y l /\ b_num y = f) /\ (forall y, In y l -> f <= b_num y).
Proof.
  intros l f H. destruct l as [|b r]; [discriminate|]. simpl in H. inversion H. split.
  - destruct (fold_min_attained r (b_num b)) as [E|[y [Hy E]]].
    + exists b. split; [left; auto|]. rewrite E. reflexivity.
    + exists y. split; [right; auto|exact E].
  - intros y [<-|Hy]; [apply floor_fold_le|apply fold_min_le; auto].
Qed.

Definition floor0L (l : list block) : N := match floorL l with Some x => x | None => 0 end.

Lemma floor0_is : forall d, floor0 d = floor0L (d_fam d FCommit).
Proof. reflexivity. Qed.

(* a non-empty sub-list has a floor at least as high *)
Lemma floor0L_incl : forall l l', (forall y, In y l' -> In y l) -> l' <> [] -> floor0L l <= floor0L l'.
Proof.
  intros l l' Hi Hn. unfold floor0L. destruct (floorL l') as [f'|] eqn:F'; [|destruct l'; [contradiction|discriminate]].
  destruct (floorL_spec l' f' F') as [[y [Hy Hf]] _].
  destruct (floorL l) as [f|] eqn:F; [|lia].
  destruct (floorL_spec l f F) as [_ Hle]. specialize (Hle y (Hi y Hy)). lia.
Qed.

(* adding a block above all others does not move the floor *)
Lemma floor0L_cons_above : forall l b, (forall y, In y l -> b_num y <= b_num b) -> l <> [] ->
  floor0L (b :: l) = floor0L l.
Proof.
  intros l b Hle Hn. destruct l as [|b0 r]; [contradiction|]. unfold floor0L. simpl.
  replace (N.min (b_num b) (b_num b0)) with (b_num b0); auto.
  specialize (Hle b0 (or_introl eq_refl)). lia.
Qed.

(* ---------- the invariants ---------- *)
Record IdxD (W : N) (d : disk) : Prop := {
  ix_wc : forall a c hb, get_window d a = Some c -> In hb (d_fam d FHeader) -> floor0 d <= b_num hb ->
          a <= b_num hb -> b_num hb <= a + W - 1 -> ccol c hb;
  ix_wk : forall hb, In hb (d_fam d FHeader) -> floor0 d <= b_num hb ->
          align W (b_num hb) + W - 1 < next_num d -> get_window d (align W (b_num hb)) <> None;
  ix_sn : forall s, d_snap d = Some s -> rf_next s <= next_num d /\
          forall hb, In hb (d_fam d FHeader) -> floor0 d <= b_num hb -> rf_from s <= b_num hb ->
                     b_num hb < rf_next s -> ccol (rf_cols s) hb
}.

Definition MemCover (d : disk) (m : rfilter) : Prop :=
  forall hb, In hb (d_fam d FHeader) -> floor0 d <= b_num hb -> rf_from m <= b_num hb -> ccol (rf_cols m) hb.

(* facts about a state in sync *)
Lemma sync_parts : forall W d m, mem_sync W d m = true ->
  rf_err m = false /\ rf_next m = next_num d /\ rf_from m = align W (next_num d).
Proof.
  unfold mem_sync, next_num. intros W d m H. apply andb_true_iff in H as [He H].
  destruct (rf_err m); [discriminate|].
  destruct (d_height d); apply andb_true_iff in H as [Hn Hf]; apply N.eqb_eq in Hn; apply N.eqb_eq in Hf.
  - auto.
  - repeat split; auto.
Qed.

(* every entry of a consistent disk lies below the next number; windows lie below it too *)
Lemma below_next : forall W d, consistent W d = true ->
  (forall f x, In x (d_fam d f) -> b_num x < next_num d) /\
  (forall a c, get_window d a = Some c -> a mod W = 0 /\ a + W - 1 < next_num d).
Proof.
  intros W d Hc. unfold next_num. destruct (d_height d) as [h|] eqn:Hh.
  - pose proof (proj1 (consistent_some W d h Hh) Hc) as [_ [hb I]].
    destruct I as [_ _ i_ent0 _ _ i_win0]. split.
    + intros f x Hx. destruct (i_ent0 f x Hx). lia.
    + intros a c Hg. apply get_window_In in Hg. destruct (i_win0 a c Hg). split; auto. lia.
  - pose proof (proj1 (consistent_none W d Hh) Hc) as (_ & Hf & _ & Hw). split.
    + intros f x Hx. rewrite Hf in Hx. destruct Hx.
    + intros a c Hg. apply get_window_In in Hg. rewrite Hw in Hg. destruct Hg.
Qed.

Lemma succession_num : forall d b, succession_ok d b = true -> b_num b = next_num d.
Proof.
  unfold succession_ok, next_num. intros d b H. destruct (d_height d) as [h|].
  - destruct (header d h); [|discriminate]. apply andb_true_iff in H as [S1 _]. apply N.eqb_eq in S1. auto.
  - apply andb_true_iff in H as [S1 _]. apply N.eqb_eq in S1. auto.
Qed.

Lemma store_floor : forall W d b ws, consistent W d = true -> succession_ok d b = true ->
  Forall window_only ws -> floor0 (apply_batch d (store_batch b ws)) = floor0 d.
Proof.
  intros W d b ws Hc Hs Hwo. destruct (store_fields d b ws Hwo) as (_ & B & _).
  rewrite !floor0_is, B. destruct (below_next W d Hc) as [Hb _].
  pose proof (succession_num d b Hs) as Hn.
  destruct (d_fam d FCommit) as [|b0 r] eqn:E.
  - (* first block with commitments: the chain was empty *)
    unfold floor0L. simpl. unfold next_num in Hn. destruct (d_height d) as [h|] eqn:Hh; [|lia].
    pose proof (proj1 (consistent_some W d h Hh) Hc) as [_ [hb I]].
    destruct I as [_ i_full0 _ _ _ _]. specialize (i_full0 FCommit). rewrite E in i_full0. destruct i_full0.
  - apply floor0L_cons_above; [|discriminate]. intros y Hy. rewrite <- E in Hy. specialize (Hb FCommit y Hy). lia.
Qed.

Lemma store_idx : forall W d m b ws m', 0 < W ->
  consistent W d = true -> mem_sync W d m = true -> IdxD W d -> MemCover d m ->
  succession_ok d b = true -> rf_insert W m (b_num b) (b_bloom b) = Some (ws, m') ->
  IdxD W (apply_batch d (store_batch b ws)) /\ MemCover (apply_batch d (store_batch b ws)) m'.
Proof.
  intros W d m b ws m' HW Hc Hs [wc wk sn] Hm Hsu Hi.
  pose proof (sync_aligned W d m HW Hs) as Ha.
  destruct (rf_insert_shape W m _ _ _ _ HW Ha Hi) as [_ Hws].
  assert (Hwo : Forall window_only ws). { destruct Hws as [->|[c [-> _]]]; repeat constructor. }
  destruct (store_fields d b ws Hwo) as (A & B & _ & D & E).
  pose proof (store_floor W d b ws Hc Hsu Hwo) as Hfl.
  set (d' := apply_batch d (store_batch b ws)) in *.
  destruct (sync_parts W d m Hs) as (S1 & S2 & S3).
  pose proof (succession_num d b Hsu) as Hn.
  destruct (below_next W d Hc) as [Hlt Hwin].
  assert (Hnext' : next_num d' = b_num b + 1). { unfold next_num. rewrite A. reflexivity. }
  destruct (align_le W (b_num b) HW) as [L1 L2].
  assert (Hfa : rf_from m mod W = 0). { rewrite S3. apply align_mod; auto. }
  unfold rf_insert in Hi. rewrite S1 in Hi. rewrite <- Hn in S3.
  replace ((b_num b <? rf_from m) || (rf_to W m <? b_num b)) with false in Hi
    by (symmetry; apply orb_false_iff; unfold rf_to; split; apply N.ltb_ge; lia).
  unfold rf_to in Hi.
  destruct (b_num b =? rf_from m + W - 1) eqn:Eto; inversion Hi; subst ws m'; clear Hi.
  - (* the window's last block: the window is persisted, memory moves on *)
    apply N.eqb_eq in Eto.
    assert (Hgw : forall a, get_window d' a =
                   get_window (apply_batch d [WWindow (rf_from m) (Some ((b_num b, b_bloom b) :: rf_cols m))]) a).
    { intros a. apply get_window_ext. exact E. }
    split; [constructor|].
    + intros a c hb Hg Hin Hf L3 L4. rewrite Hgw in Hg. rewrite Hfl in Hf. rewrite B in Hin.
      destruct (N.eq_dec a (rf_from m)) as [->|Hne].
      * rewrite gw_put_same in Hg. inversion Hg; subst c.
        destruct Hin as [<-|Hin]; [apply ccol_cons_same|]. apply ccol_cons_mono. apply Hm; auto.
      * rewrite gw_put_other in Hg by auto.
        destruct Hin as [<-|Hin]; [destruct (Hwin a c Hg); lia|]. eapply wc; eauto.
    + intros hb Hin Hf Lk. rewrite Hgw. rewrite Hfl in Hf. rewrite B in Hin. rewrite Hnext' in Lk.
      destruct (N.eq_dec (align W (b_num hb)) (rf_from m)) as [->|Hne]; [rewrite gw_put_same; discriminate|].
      rewrite gw_put_other by auto.
      destruct Hin as [<-|Hin]; [congruence|].
      apply wk; auto. rewrite <- Hn.
      assert (align W (b_num hb) + W - 1 <> b_num b).
      { intros X. apply Hne. rewrite <- (align_end W (align W (b_num hb)) (b_num b) HW (align_mod W _ HW) X). congruence. }
      lia.
    + intros s Hsn. rewrite D in Hsn. destruct (sn s Hsn) as [Ls Cs]. rewrite Hnext'. split; [lia|].
      intros hb Hin Hf L3 L4. rewrite Hfl in Hf. rewrite B in Hin.
      destruct Hin as [<-|Hin]; [lia|]. apply Cs; auto.
    + intros hb Hin Hf L3. simpl in L3. rewrite B in Hin.
      destruct Hin as [<-|Hin]; [lia|]. specialize (Hlt FHeader hb Hin). lia.
  - (* inside the window *)
    apply N.eqb_neq in Eto. simpl in E.
    assert (Hgw : forall a, get_window d' a = get_window d a).
    { intros a. apply get_window_ext. exact E. }
    split; [constructor|].
    + intros a c hb Hg Hin Hf L3 L4. rewrite Hgw in Hg. rewrite Hfl in Hf. rewrite B in Hin.
      destruct Hin as [<-|Hin]; [destruct (Hwin a c Hg); lia|]. eapply wc; eauto.
    + intros hb Hin Hf Lk. rewrite Hgw. rewrite Hfl in Hf. rewrite B in Hin. rewrite Hnext' in Lk.
      assert (Hno : forall x, align W x + W - 1 = b_num b -> False).
      { intros x X. apply Eto. rewrite <- X. f_equal. f_equal. rewrite S3.
        symmetry. apply (align_end W (align W x) (b_num b) HW (align_mod W _ HW) X). }
      destruct Hin as [<-|Hin].
      * exfalso. apply (Hno (b_num b)). lia.
      * apply wk; auto. rewrite <- Hn.
        assert (align W (b_num hb) + W - 1 <> b_num b) by (intros X; exact (Hno _ X)). lia.
    + intros s Hsn. rewrite D in Hsn. destruct (sn s Hsn) as [Ls Cs]. rewrite Hnext'. split; [lia|].
      intros hb Hin Hf L3 L4. rewrite Hfl in Hf. rewrite B in Hin.
      destruct Hin as [<-|Hin]; [lia|]. apply Cs; auto.
    + intros hb Hin Hf L3. simpl in L3. simpl. rewrite Hfl in Hf. rewrite B in Hin.
      destruct Hin as [<-|Hin]; [apply ccol_cons_same|]. apply ccol_cons_mono. apply Hm; auto.
Qed.

(* ---------- revert ---------- *)
Lemma window_end_align : forall W h, 0 < W -> (h + 1) mod W = 0 -> align W h + W - 1 = h.
Proof.
  intros W h HW Hm.
  assert (W <= h + 1).
  { pose proof (mult_gap W (h + 1) 0 HW Hm (N.mod_0_l W ltac:(lia)) ltac:(lia)). lia. }
  rewrite (align_end W (h + 1 - W) h HW); [lia| |lia].
  apply mod0_sub; auto.
Qed.

Lemma revert_idx : forall W d m h hb ws m', 0 < W ->
  consistent W d = true -> mem_sync W d m = true -> IdxD W d -> MemCover d m ->
  d_height d = Some h -> header d h = Some hb ->
  op_env d Revert = true ->
  rf_reorg W d m = (Some ws, m') ->
  IdxD W (apply_batch d (revert_batch hb ws)) /\ MemCover (apply_batch d (revert_batch hb ws)) m'.
Proof.
  intros W d m h hb ws m' HW Hc Hs [wc wk sn] Hm Hh Hd Henv Hr.
  pose proof (sync_aligned W d m HW Hs) as Ha.
  destruct (rf_reorg_shape W d m HW Ha) as [_ A2]. rewrite Hr in A2. cbn [fst] in A2.
  assert (Hwo : Forall window_only ws). { destruct (A2 ws eq_refl) as [->|[a ->]]; repeat constructor. }
  destruct (revert_fields d hb ws Hwo) as (A & B & _ & D & E).
  set (d' := apply_batch d (revert_batch hb ws)) in *.
  assert (Hnum : b_num hb = h). { apply find_num_some in Hd. tauto. }
  pose proof (proj1 (consistent_some W d h Hh) Hc) as [_ [hb0 I]].
  destruct I as [i_head0 i_full0 i_ent0 _ _ i_win0]. rewrite Hd in i_head0. inversion i_head0; subst hb0. clear i_head0.
  assert (Hkeep : forall f x, In x (d_fam d' f) -> In x (d_fam d f) /\ b_num x < h).
  { intros f x Hx. rewrite B in Hx. apply filter_In in Hx as [Hx Hq]. split; auto.
    destruct (i_ent0 f x Hx) as [L Ag].
    assert (b_num x <> h).
    { intros X. rewrite X in Ag. specialize (Ag hb Hd). subst x. rewrite !N.eqb_refl in Hq. discriminate. }
    lia. }
  assert (Hnext' : next_num d' = h).
  { unfold next_num. rewrite A, Hnum. destruct (h =? 0) eqn:Z; [apply N.eqb_eq in Z; lia|apply N.eqb_neq in Z; lia]. }
  assert (Hnext : next_num d = h + 1). { unfold next_num. rewrite Hh. reflexivity. }
  (* the floor can only rise (as long as some retained block is left) *)
  assert (Hfl : forall x, In x (d_fam d' FHeader) -> floor0 d <= floor0 d').
  { intros x Hx. destruct (Hkeep _ _ Hx) as [_ Lx].
    rewrite !floor0_is. apply floor0L_incl.
    - intros y Hy. apply (Hkeep FCommit y Hy).
    - unfold op_env in Henv. rewrite Hh in Henv. destruct (h =? 0) eqn:Z; [apply N.eqb_eq in Z; lia|].
      simpl in Henv. unfold block_full in Henv. destruct (header d (h - 1)) as [pb|] eqn:Hpb; [|discriminate].
      rewrite forall_fams in Henv. specialize (Henv FCommit). apply in_fam_In in Henv.
      assert (Hpn : b_num pb = h - 1). { apply find_num_some in Hpb. tauto. }
      intros X. assert (In pb (d_fam d' FCommit)).
      { rewrite B. apply filter_In. split; auto. rewrite Hpn, Hnum.
        destruct (h - 1 =? h) eqn:Y; [apply N.eqb_eq in Y; apply N.eqb_neq in Z; lia|reflexivity]. }
      rewrite X in H. destruct H. }
  destruct (sync_parts W d m Hs) as (S1 & S2 & S3). rewrite Hnext in S2, S3.
  (* the revert batch deletes the persisted snapshot: nothing stale can survive the revert *)
  assert (Hsn' : forall s, d_snap d' = Some s -> rf_next s <= next_num d' /\
            forall x, In x (d_fam d' FHeader) -> floor0 d' <= b_num x -> rf_from s <= b_num x ->
                      b_num x < rf_next s -> ccol (rf_cols s) x).
  { intros s Hsn. rewrite D in Hsn. discriminate. }
  unfold rf_reorg in Hr. rewrite S1, S2 in Hr.
  replace (h + 1 =? 0) with false in Hr by (symmetry; apply N.eqb_neq; lia).
  replace (h + 1 - 1) with h in Hr by lia.
  destruct ((0 <? rf_from m) && (h + 1 =? rf_from m)) eqn:Cnd.
  - (* the revert leaves the running window: the previous window is re-loaded and its persisted copy dropped *)
    apply andb_true_iff in Cnd as [C1 C2]. apply N.eqb_eq in C2.
    assert (Hmod : (h + 1) mod W = 0). { rewrite C2, S3. apply align_mod; auto. }
    pose proof (window_end_align W h HW Hmod) as Hend.
    destruct (get_window d (align W h)) as [c|] eqn:Hg; inversion Hr; subst ws m'; clear Hr.
    assert (Hgw : forall a, get_window d' a = get_window (apply_batch d [WWindow (align W h) None]) a).
    { intros a. apply get_window_ext. exact E. }
    split; [constructor|]; auto.
    + intros a c0 x Hg0 Hx Hf L3 L4. rewrite Hgw in Hg0. destruct (Hkeep _ _ Hx) as [Hx' Lx].
      destruct (N.eq_dec a (align W h)) as [->|Hne]; [rewrite gw_del_same in Hg0; discriminate|].
      rewrite gw_del_other in Hg0 by auto. eapply wc; eauto. specialize (Hfl x Hx). lia.
    + intros x Hx Hf Lk. rewrite Hgw. rewrite Hnext' in Lk. destruct (Hkeep _ _ Hx) as [Hx' Lx].
      destruct (N.eq_dec (align W (b_num x)) (align W h)) as [Eq|Hne]; [rewrite Eq in Lk; lia|].
      rewrite gw_del_other by auto. apply wk; auto; [specialize (Hfl x Hx); lia|lia].
    + intros x Hx Hf L3. cbn [rf_from rf_cols] in *. destruct (Hkeep _ _ Hx) as [Hx' Lx].
      apply ccol_clear_other; [lia|]. apply (wc (align W h) c x); auto; [specialize (Hfl x Hx); lia|lia].
  - (* inside the running window *)
    assert (Hle : rf_from m <= h).
    { destruct (align_le W (h + 1) HW). apply andb_false_iff in Cnd as [Cn|Cn].
      - apply N.ltb_ge in Cn. lia.
      - apply N.eqb_neq in Cn. lia. }
    replace ((h <? rf_from m) || (rf_to W m <? h)) with false in Hr.
    2:{ symmetry. apply orb_false_iff. destruct (align_le W (h + 1) HW).
        split; [apply N.ltb_ge; lia|]. unfold rf_to. apply N.ltb_ge. lia. }
    inversion Hr; subst ws m'; clear Hr. simpl in E.
    assert (Hgw : forall a, get_window d' a = get_window d a). { intros a. apply get_window_ext. exact E. }
    split; [constructor|]; auto.
    + intros a c0 x Hg0 Hx Hf L3 L4. rewrite Hgw in Hg0. destruct (Hkeep _ _ Hx) as [Hx' Lx].
      eapply wc; eauto. specialize (Hfl x Hx). lia.
    + intros x Hx Hf Lk. rewrite Hgw. rewrite Hnext' in Lk. destruct (Hkeep _ _ Hx) as [Hx' Lx].
      apply wk; auto; [specialize (Hfl x Hx); lia|lia].
    + intros x Hx Hf L3. cbn [rf_from rf_cols] in *. destruct (Hkeep _ _ Hx) as [Hx' Lx].
      apply ccol_clear_other; [lia|]. apply Hm; auto. specialize (Hfl x Hx). lia.
Qed.

(* ---------- writes that leave the index-relevant fields alone ---------- *)
Lemma idx_fields_eq : forall W d d', d_windows d' = d_windows d ->
  d_fam d' FHeader = d_fam d FHeader -> d_fam d' FCommit = d_fam d FCommit ->
  d_height d' = d_height d -> d_snap d' = d_snap d -> IdxD W d -> IdxD W d'.
Proof.
  intros W d d' Hw Hh Hcm Hht Hs [wc wk sn].
  assert (Hg : forall a, get_window d' a = get_window d a) by (intros; apply get_window_ext; auto).
  assert (Hf : floor0 d' = floor0 d) by (rewrite !floor0_is, Hcm; reflexivity).
  assert (Hn : next_num d' = next_num d) by (unfold next_num; rewrite Hht; reflexivity).
  constructor.
  - intros a c hb. rewrite Hg, Hh, Hf. apply wc.
  - intros hb. rewrite Hg, Hh, Hf, Hn. apply wk.
  - intros s. rewrite Hs, Hn, Hh, Hf. apply sn.
Qed.

Lemma mem_fields_eq : forall d d' m, d_fam d' FHeader = d_fam d FHeader -> d_fam d' FCommit = d_fam d FCommit ->
  MemCover d m -> MemCover d' m.
Proof.
  intros d d' m Hh Hc H hb. rewrite Hh, floor0_is, Hc, <- floor0_is. apply H.
Qed.

Definition hk_only (w : wr) : Prop :=
  match w with WDel f _ _ => f <> FHeader /\ f <> FCommit | _ => False end.

Lemma hk_only_fields : forall b d, Forall hk_only b ->
  let d' := apply_batch d b in
  d_windows d' = d_windows d /\ d_fam d' FHeader = d_fam d FHeader /\ d_fam d' FCommit = d_fam d FCommit /\
  d_height d' = d_height d /\ d_snap d' = d_snap d.
Proof.
  induction b; simpl; intros d H; auto. inversion H; subst.
  destruct (IHb (apply_wr d a) H3) as (A & B & C & D & E). rewrite A, B, C, D, E.
  destruct a; simpl in H2; try contradiction. destruct H2 as [H1 H2]. simpl.
  repeat split; auto; destruct f; try contradiction; reflexivity.
Qed.

Lemma prune_blocks_hk : forall d kh e cnt n carry, Forall hk_only carry ->
  Forall (Forall hk_only) (fst (prune_blocks d kh e n cnt carry)).
Proof.
  induction cnt; simpl; intros n carry Hc; [constructor|].
  destruct (find_num n (d_fam d FSU)) as [sb|]; [|constructor].
  specialize (IHcnt (n + 1) [WDel FHashNum n (b_id sb)] ltac:(repeat constructor; discriminate)).
  destruct (prune_blocks d kh e (n + 1) cnt [WDel FHashNum n (b_id sb)]) as [r ok]. simpl in *. constructor; auto.
  apply Forall_app. split; auto.
  constructor; [simpl; split; discriminate|]. destruct kh; repeat constructor; discriminate.
Qed.

Lemma prune_plan_shape2 : forall W d kh e,
  Forall (fun b => Forall hk_only b \/ b = prune_data_batch W e) (prune_plan W d kh e).
Proof.
  intros W d kh e. unfold prune_plan. destruct (floor d) as [start|]; [|constructor].
  destruct (e <=? start); [constructor|].
  assert (Hgen : forall cw, Forall hk_only cw ->
     Forall (fun b => Forall hk_only b \/ b = prune_data_batch W e)
       (let (bs, ok) := prune_blocks d kh e start (N.to_nat (e - start)) cw in
        if ok then bs ++ [[]; prune_data_batch W e] else bs)).
  { intros cw Hcw. pose proof (prune_blocks_hk d kh e (N.to_nat (e - start)) start cw Hcw) as P.
    destruct (prune_blocks d kh e start (N.to_nat (e - start)) cw) as [bs ok]. simpl in P.
    assert (P' : Forall (fun b => Forall hk_only b \/ b = prune_data_batch W e) bs).
    { eapply Forall_impl; [|exact P]. intros; left; auto. }
    destruct ok; auto. apply Forall_app. split; auto. }
  destruct (0 <? start).
  - destruct (header d (start - 1)); [|constructor]. apply Hgen. repeat constructor; discriminate.
  - apply Hgen. constructor.
Qed.

(* ---------- the number-keyed prune batch ---------- *)
Lemma align_mono : forall W x y, 0 < W -> x <= y -> align W x <= align W y.
Proof.
  intros W x y HW L. destruct (N.le_gt_cases (align W x) (align W y)) as [X|X]; auto. exfalso.
  pose proof (mult_gap W _ _ HW (align_mod W x HW) (align_mod W y HW) X).
  destruct (align_le W x HW). destruct (align_le W y HW). lia.
Qed.

Lemma prune_data_fields2 : forall W e d,
  let d' := apply_batch d (prune_data_batch W e) in
  d_snap d' = d_snap d /\
  d_windows d' = if e <? W then d_windows d else filter (fun w => align W e <=? fst w) (d_windows d).
Proof.
  intros W e d d'. subst d'. unfold prune_data_batch. rewrite apply_batch_app.
  destruct (e <? W); simpl; auto.
Qed.

Lemma get_window_filter : forall d d' a0 a, d_windows d' = filter (fun w => a0 <=? fst w) (d_windows d) ->
  get_window d' a = if a0 <=? a then get_window d a else None.
Proof.
  intros d d' a0 a H. unfold get_window. rewrite H. destruct (a0 <=? a) eqn:E.
  - rewrite find_filter_imp; auto. intros x Hx. apply N.eqb_eq in Hx. rewrite Hx. exact E.
  - destruct (find (fun e => fst e =? a) (filter (fun e => a0 <=? fst e) (d_windows d))) eqn:F; auto.
    apply find_some in F as [F1 F2]. apply filter_In in F1 as [_ F1]. apply N.eqb_eq in F2. rewrite F2 in F1.
    rewrite F1 in E. discriminate.
Qed.

Lemma prune_data_idx : forall W e d h m, 0 < W -> consistent W d = true -> d_height d = Some h -> e <= h ->
  IdxD W d -> MemCover d m ->
  IdxD W (apply_batch d (prune_data_batch W e)) /\ MemCover (apply_batch d (prune_data_batch W e)) m.
Proof.
  intros W e d h m HW Hc Hh He [wc wk sn] Hm.
  destruct (prune_data_fields W e d) as (A & B & C).
  destruct (prune_data_fields2 W e d) as (D & E).
  set (x0 := if block_hash_lag <? e then e - block_hash_lag else 0) in *.
  set (d' := apply_batch d (prune_data_batch W e)) in *.
  pose proof (proj1 (consistent_some W d h Hh) Hc) as [_ [hb I]].
  destruct I as [i_head0 i_full0 _ _ _ _].
  assert (Hnum : b_num hb = h). { apply find_num_some in i_head0. tauto. }
  assert (HinH : forall x, In x (d_fam d' FHeader) -> In x (d_fam d FHeader)).
  { intros x Hx. rewrite B in Hx. apply filter_In in Hx. tauto. }
  assert (Hfl : floor0 d <= floor0 d' /\ e <= floor0 d').
  { rewrite !floor0_is, C. split.
    - apply floor0L_incl; [intros y Hy; apply filter_In in Hy; tauto|].
      intros X. assert (In hb (filter (fun b => e <=? b_num b) (d_fam d FCommit))).
      { apply filter_In. split; auto. apply N.leb_le. lia. }
      rewrite X in H. destruct H.
    - unfold floor0L. destruct (floorL (filter (fun b => e <=? b_num b) (d_fam d FCommit))) as [f|] eqn:F.
      + destruct (floorL_spec _ _ F) as [[y [Hy Hf]] _]. apply filter_In in Hy as [_ Hy]. apply N.leb_le in Hy. lia.
      + exfalso. assert (In hb (filter (fun b => e <=? b_num b) (d_fam d FCommit))).
        { apply filter_In. split; auto. apply N.leb_le. lia. }
        destruct (filter (fun b => e <=? b_num b) (d_fam d FCommit)); [destruct H|discriminate]. }
  destruct Hfl as [Hfl1 Hfl2].
  assert (Hn : next_num d' = next_num d) by (unfold next_num; rewrite A; reflexivity).
  assert (Hgw : forall a c, get_window d' a = Some c -> get_window d a = Some c).
  { intros a c Hg. destruct (e <? W) eqn:Ew.
    - rewrite <- Hg. symmetry. apply get_window_ext. exact E.
    - rewrite (get_window_filter d d' (align W e) a E) in Hg. destruct (align W e <=? a); [auto|discriminate]. }
  split; [constructor|].
  - intros a c x Hg Hx Hf L3 L4. eapply wc; eauto. lia.
  - intros x Hx Hf Lk. rewrite Hn in Lk.
    pose proof (wk x (HinH x Hx) ltac:(lia) Lk) as Hold.
    destruct (e <? W) eqn:Ew.
    + rewrite (get_window_ext d' d _ E). exact Hold.
    + rewrite (get_window_filter d d' (align W e) _ E).
      assert (align W e <= align W (b_num x)) by (apply align_mono; auto; lia).
      destruct (align W e <=? align W (b_num x)) eqn:X; [exact Hold|apply N.leb_gt in X; lia].
  - intros s Hsn. rewrite D in Hsn. destruct (sn s Hsn) as [Ls Cs]. rewrite Hn. split; auto.
    intros x Hx Hf L3 L4. apply Cs; auto. lia.
  - intros x Hx Hf L3. apply Hm; auto. lia.
Qed.

(* ---------- snapshot ---------- *)
Lemma snap_idx : forall W d m, mem_sync W d m = true -> IdxD W d -> MemCover d m ->
  IdxD W (apply_batch d [WSnap m]).
Proof.
  intros W d m Hs [wc wk sn] Hm. destruct (sync_parts W d m Hs) as (S1 & S2 & S3).
  constructor.
  - intros a c hb Hg. apply (wc a c hb). exact Hg.
  - intros hb. apply (wk hb).
  - intros s Hsn. simpl in Hsn. inversion Hsn; subst s. split.
    + rewrite S2. unfold next_num. simpl. lia.
    + intros hb Hin Hf L3 L4. apply Hm; auto.
Qed.

(* ---------- the filter initialisation: fill ---------- *)
Definition good_wr (W : N) (d : disk) (h : N) (w : wr) : Prop :=
  w = WSnapDel \/ exists a c, w = WWindow a (Some c) /\ a mod W = 0 /\ a + W - 1 <= h /\
    forall x, In x (d_fam d FHeader) -> floor0 d <= b_num x -> a <= b_num x -> b_num x <= a + W - 1 -> ccol c x.

Lemma fill_cover : forall W d h hbH, InvS W d h hbH -> forall cnt rf from, 0 < W ->
  rf_from rf mod W = 0 -> rf_err rf = false -> rf_from rf <= from -> from <= rf_to W rf ->
  (forall n, from <= n -> n <= h -> header d n <> None) ->
  from + N.of_nat cnt = h + 1 ->
  (forall x, In x (d_fam d FHeader) -> floor0 d <= b_num x -> rf_from rf <= b_num x -> b_num x < from ->
             ccol (rf_cols rf) x) ->
  (forall x, In x (d_fam d FHeader) -> floor0 d <= b_num x -> rf_from (rf_fill W d rf from cnt) <= b_num x ->
             b_num x <= h -> ccol (rf_cols (rf_fill W d rf from cnt)) x)
  /\ Forall (good_wr W d h) (rf_fill_w W d rf from cnt).
Proof.
  intros W d h hbH I. destruct I as [_ _ i_ent0 _ _ _].
  induction cnt; intros rf from HW Ha He L1 L2 Hh Hc Hcov.
  - simpl. split; [|constructor]. intros x Hx Hf L3 L4. apply Hcov; auto. lia.
  - simpl. destruct (header d from) as [hbf|] eqn:Hd; [|exfalso; apply (Hh from); auto; lia].
    assert (Hnf : b_num hbf = from). { apply find_num_some in Hd. tauto. }
    assert (Huniq : forall x, In x (d_fam d FHeader) -> b_num x = from -> x = hbf).
    { intros x Hx E. destruct (i_ent0 FHeader x Hx) as [_ Ag]. apply Ag. rewrite E. exact Hd. }
    assert (Hcov' : forall x, In x (d_fam d FHeader) -> floor0 d <= b_num x -> rf_from rf <= b_num x ->
                      b_num x < from + 1 -> ccol ((from, b_bloom hbf) :: rf_cols rf) x).
    { intros x Hx Hf L3 L4. destruct (N.eq_dec (b_num x) from) as [E|E].
      - rewrite (Huniq x Hx E). rewrite <- Hnf. apply ccol_cons_same.
      - apply ccol_cons_mono. apply Hcov; auto. lia. }
    unfold rf_insert. rewrite He.
    replace ((from <? rf_from rf) || (rf_to W rf <? from)) with false
      by (symmetry; apply orb_false_iff; split; apply N.ltb_ge; lia).
    unfold rf_to in *.
    destruct (from =? rf_from rf + W - 1) eqn:E.
    + apply N.eqb_eq in E.
      assert (Ha' : (from + 1) mod W = 0).
      { replace (from + 1) with (rf_from rf + W) by lia. apply mod0_add; auto. }
      destruct (IHcnt {| rf_from := from + 1; rf_cols := []; rf_next := from + 1; rf_err := false |} (from + 1) HW)
        as [R1 R2]; cbn [rf_from rf_cols rf_err rf_to]; auto; try lia;
        try (intros n A B; apply Hh; lia); try (intros x Hx Hf L3 L4; lia).
      split; auto. constructor; auto.
      right. exists (rf_from rf), ((from, b_bloom hbf) :: rf_cols rf). repeat split; auto; try lia.
      intros x Hx Hf L3 L4. apply Hcov'; auto. lia.
    + apply N.eqb_neq in E.
      destruct (IHcnt {| rf_from := rf_from rf; rf_cols := (from, b_bloom hbf) :: rf_cols rf; rf_next := from + 1; rf_err := false |} (from + 1) HW)
        as [R1 R2]; cbn [rf_from rf_cols rf_err rf_to]; auto; try lia;
        try (intros n A B; apply Hh; lia); try (exact Hcov').
Qed.

Lemma fill_range_cover : forall W d h hbH, InvS W d h hbH -> forall rf from, 0 < W ->
  rf_from rf mod W = 0 -> rf_err rf = false -> rf_from rf <= from -> from <= rf_to W rf -> from <= h + 1 ->
  (forall n, from <= n -> n <= h -> header d n <> None) ->
  (forall x, In x (d_fam d FHeader) -> floor0 d <= b_num x -> rf_from rf <= b_num x -> b_num x < from ->
             ccol (rf_cols rf) x) ->
  (forall x, In x (d_fam d FHeader) -> floor0 d <= b_num x -> rf_from (rf_fill_range W d rf from h) <= b_num x ->
             b_num x <= h -> ccol (rf_cols (rf_fill_range W d rf from h)) x)
  /\ Forall (good_wr W d h) (rf_fill_range_w W d rf from h).
Proof.
  intros. unfold rf_fill_range, rf_fill_range_w. eapply fill_cover; eauto. lia.
Qed.

(* what a fresh process computes covers the chain, and the windows it re-writes do too *)
Lemma reinit_cover : forall W d, 0 < W -> consistent W d = true -> cont d = true -> IdxD W d ->
  MemCover d (reinit W d) /\ forall h, d_height d = Some h -> Forall (good_wr W d h) (reinit_w W d).
Proof.
  intros W d HW Hc Hk [wc wk sn].
  cut (MemCover d (reinit W d) /\ forall h, d_height d = Some h -> Forall (good_wr W d h) (reinit_fill_w W d)).
  { intros [A B]. split; auto. intros h Hh. unfold reinit_w. apply Forall_app. split; auto.
    unfold snap_consume_w. rewrite Hh. destruct (d_snap d); repeat constructor. }
  unfold reinit, reinit_fill_w. destruct (d_height d) as [h|] eqn:Hh.
  2:{ split; [|intros; discriminate]. intros x Hx. pose proof (proj1 (consistent_none W d Hh) Hc) as (_ & Hf & _).
      rewrite Hf in Hx. destruct Hx. }
  pose proof (proj1 (consistent_some W d h Hh) Hc) as [Hsn [hb I]].
  pose proof (proj1 (cont_some d h Hh) Hk) as C.
  pose proof (retained_headers W d h hb I C) as Hret.
  pose proof I as [i_head0 i_full0 i_ent0 i_link0 i_state0 i_win0].
  assert (Hle : forall x, In x (d_fam d FHeader) -> b_num x <= h).
  { intros x Hx. destruct (i_ent0 FHeader x Hx). auto. }
  assert (Hfl : floor0 d <= h).
  { unfold floor0. destruct (floor d) as [f|] eqn:F; [|lia].
    destruct (floor_attained d f F) as [y [Hy Hn]]. destruct (i_ent0 FCommit y Hy). lia. }
  assert (Hnn : next_num d = h + 1). { unfold next_num. rewrite Hh. reflexivity. }
  assert (Hrb : (forall x, In x (d_fam d FHeader) -> floor0 d <= b_num x -> rf_from (rf_rebuild W d h) <= b_num x ->
                           ccol (rf_cols (rf_rebuild W d h)) x)
                /\ Forall (good_wr W d h) (rf_rebuild_w W d h)).
  { unfold rf_rebuild, rf_rebuild_w.
    destruct (find_anchor W d (align W (floor0 d)) (align W h) (N.to_nat (align W h / W))) as [a|] eqn:E.
    - assert (Hal : align W (floor0 d) <= align W h) by (apply align_mono; auto).
      pose proof (find_anchor_ge W d _ _ _ _ HW (align_mod W _ HW) (align_mod W _ HW) Hal E) as Hge.
      apply find_anchor_window in E as [c Hgw]. apply get_window_In in Hgw. apply i_win0 in Hgw as [M Lw].
      destruct (align_le W (floor0 d) HW) as [_ Lf].
      destruct (fill_range_cover W d h hb I (rf_new (a + W) (a + W)) (a + W) HW) as [R1 R2];
        try (unfold rf_to, rf_new; cbn [rf_from]; lia); try (cbn [rf_from rf_err rf_new]; auto; lia);
        try solve [unfold rf_new; cbn [rf_from]; apply mod0_add; auto];
        try solve [intros n A B; apply Hret; lia];
        try solve [unfold rf_new; cbn [rf_from rf_cols]; intros; lia].
      all: try (split; auto; intros x Hx Hf L3; apply R1; auto).
    - destruct (align_le W (floor0 d) HW) as [L1 L2].
      destruct (fill_range_cover W d h hb I (rf_new (align W (floor0 d)) (floor0 d)) (floor0 d) HW) as [R1 R2];
        try (unfold rf_to, rf_new; cbn [rf_from]; lia); try (cbn [rf_from rf_err rf_new]; auto; lia);
        try solve [unfold rf_new; cbn [rf_from]; apply align_mod; auto];
        try solve [intros n A B; apply Hret; lia];
        try solve [unfold rf_new; cbn [rf_from rf_cols]; intros; lia].
      all: try (split; auto; intros x Hx Hf L3; apply R1; auto). }
  destruct Hrb as [Rb1 Rb2].
  unfold snap_ok in Hsn. destruct (d_snap d) as [s|] eqn:Hs.
  2:{ split; [exact Rb1|]. intros h0 X. inversion X; subst. exact Rb2. }
  destruct (rf_wf_parts W s Hsn) as (S1 & S2 & S3 & S4).
  destruct (sn s eq_refl) as [Ls Cs]. rewrite Hnn in Ls.
  destruct (rf_next s =? h + 1) eqn:E1.
  - apply N.eqb_eq in E1. split; [|intros h0 X; constructor].
    intros x Hx Hf L3. apply Cs; auto. specialize (Hle x Hx). lia.
  - destruct ((rf_next s <=? h) && (h <=? rf_to W s)) eqn:E2.
    2:{ split; [exact Rb1|]. intros h0 X. inversion X; subst. exact Rb2. }
    apply andb_true_iff in E2 as [E2 E3]. apply N.leb_le in E2. apply N.leb_le in E3.
    destruct (fill_range_cover W d h hb I
                {| rf_from := rf_from s; rf_cols := rf_cols s; rf_next := N.max (rf_next s) (floor0 d); rf_err := false |}
                (N.max (rf_next s) (floor0 d)) HW) as [R1 R2];
      try (unfold rf_to in *; cbn [rf_from]; lia); try (cbn [rf_from rf_err]; auto; lia);
      try solve [intros n A B; apply Hret; lia];
      try solve [cbn [rf_from rf_cols]; intros x Hx Hf L3 L4; apply Cs; auto; lia].
    all: try (split; [|intros h0 X; inversion X; subst; exact R2]; intros x Hx Hf L3; apply R1; auto).
Qed.

(* one initialisation write keeps the index invariant and the fields the other writes refer to *)
Lemma init_write_idx : forall W d0 h d w, IdxD W d -> good_wr W d0 h w ->
  d_fam d FHeader = d_fam d0 FHeader -> d_fam d FCommit = d_fam d0 FCommit ->
  IdxD W (apply_batch d [w]) /\ d_fam (apply_batch d [w]) FHeader = d_fam d0 FHeader /\
  d_fam (apply_batch d [w]) FCommit = d_fam d0 FCommit /\ d_height (apply_batch d [w]) = d_height d.
Proof.
  intros W d0 h d w [wc wk sn] [->|(a & c & -> & Ha & Hl & Hcv)] EH EC.
  { (* the consumed snapshot is deleted: the snapshot clause becomes vacuous *)
    split; [|simpl; auto]. constructor.
    - intros a c hb Hg. apply (wc a c hb). exact Hg.
    - intros hb. apply (wk hb).
    - intros s Hsn. simpl in Hsn. discriminate. }
  split; [|simpl; auto].
  assert (Hf : floor0 (apply_batch d [WWindow a (Some c)]) = floor0 d) by reflexivity.
  assert (Hf0 : floor0 d = floor0 d0) by (rewrite !floor0_is, EC; reflexivity).
  constructor.
  - intros a' c' x Hg Hx Hfl L3 L4. destruct (N.eq_dec a' a) as [->|Hne].
    + rewrite gw_put_same in Hg. inversion Hg; subst c'. apply Hcv; auto.
      * change (In x (d_fam d FHeader)) in Hx. rewrite EH in Hx. exact Hx.
      * rewrite Hf, Hf0 in Hfl. exact Hfl.
    + rewrite gw_put_other in Hg by auto. eapply wc; eauto.
  - intros x Hx Hfl Lk. destruct (N.eq_dec (align W (b_num x)) a) as [->|Hne].
    + rewrite gw_put_same. discriminate.
    + rewrite gw_put_other by auto. apply wk; auto.
  - intros s Hsn. apply sn. exact Hsn.
Qed.

(* ---------- the run ---------- *)
Definition IdxGood (W : N) (st : disk * rfilter) : Prop :=
  Good W st /\ IdxD W (fst st) /\ MemCover (fst st) (snd st).

Lemma init_writes_idx : forall W d0 h ws d, IdxD W d -> Forall (good_wr W d0 h) ws ->
  d_fam d FHeader = d_fam d0 FHeader -> d_fam d FCommit = d_fam d0 FCommit ->
  forall j, let d' := apply_batches d (firstn j (map (fun w => [w]) ws)) in
    IdxD W d' /\ d_fam d' FHeader = d_fam d0 FHeader /\ d_fam d' FCommit = d_fam d0 FCommit.
Proof.
  induction ws; intros d Hi Hg EH EC j; destruct j; simpl; auto.
  inversion Hg; subst.
  destruct (init_write_idx W d0 h d a Hi H1 EH EC) as (I' & A & B & _).
  apply IHws; auto.
Qed.

Lemma reorg_none_same : forall W d m h m', 0 < W -> mem_sync W d m = true -> d_height d = Some h ->
  rf_reorg W d m = (None, m') -> m' = m.
Proof.
  intros W d m h m' HW Hs Hh Hr. destruct (sync_parts W d m Hs) as (S1 & S2 & S3).
  assert (Hnext : next_num d = h + 1). { unfold next_num. rewrite Hh. reflexivity. }
  rewrite Hnext in S2, S3. unfold rf_reorg in Hr. rewrite S1, S2 in Hr.
  replace (h + 1 =? 0) with false in Hr by (symmetry; apply N.eqb_neq; lia).
  replace (h + 1 - 1) with h in Hr by lia.
  destruct ((0 <? rf_from m) && (h + 1 =? rf_from m)) eqn:Cnd.
  - destruct (get_window d (align W h)); inversion Hr. reflexivity.
  - assert (Hle : rf_from m <= h).
    { destruct (align_le W (h + 1) HW). apply andb_false_iff in Cnd as [Cn|Cn].
      - apply N.ltb_ge in Cn. lia.
      - apply N.eqb_neq in Cn. lia. }
    replace ((h <? rf_from m) || (rf_to W m <? h)) with false in Hr; [inversion Hr|].
    symmetry. apply orb_false_iff. destruct (align_le W (h + 1) HW).
    split; [apply N.ltb_ge; lia|]. unfold rf_to. apply N.ltb_ge. lia.
Qed.

(* every batch prefix of every operation keeps the disk part of the index invariant; after the whole
   operation the memory part holds again *)
Lemma op_idx : forall W st o, 0 < W -> IdxGood W st -> op_env (fst st) o = true ->
  (forall j, IdxD W (apply_batches (fst st) (firstn j (fst (plan W o (fst st) (snd st)))))) /\
  MemCover (fst (step W st o)) (snd (step W st o)).
Proof.
  intros W [d m] o HW [HG [Hi Hm]] Henv. pose proof HG as (Hc & Hk & Hs). cbn [fst snd] in *.
  assert (Hnil : forall j, IdxD W (apply_batches d (firstn j (@nil batch)))). { intros j. destruct j; exact Hi. }
  assert (Hone : forall x : batch, IdxD W (apply_batch d x) -> forall j, IdxD W (apply_batches d (firstn j [x]))).
  { intros x Hx j. destruct (firstn_single x j) as [E|E]; rewrite E; simpl; auto. }
  unfold step. destruct o; cbn [plan fst snd].
  - (* Store *)
    destruct (succession_ok d b) eqn:Hsu; [|split; auto].
    destruct (rf_insert W m (b_num b) (b_bloom b)) as [[ws m']|] eqn:Hins; [|split; auto].
    destruct (store_idx W d m b ws m' HW Hc Hs Hi Hm Hsu Hins) as [X Y]. cbn [fst snd apply_batches fold_left].
    split; auto.
  - (* Revert *)
    destruct (d_height d) as [h|] eqn:Hh; [|split; auto].
    destruct (find_num h (d_fam d FSU)); [|split; auto].
    destruct (header d h) as [hb|] eqn:Hd; [|split; auto].
    destruct (rf_reorg W d m) as [[ws|] m'] eqn:Hr; cbn [fst snd apply_batches fold_left].
    + destruct (revert_idx W d m h hb ws m' HW Hc Hs Hi Hm Hh Hd Henv Hr) as [X Y]. split; auto.
    + rewrite (reorg_none_same W d m h m' HW Hs Hh Hr). split; auto.
  - (* Prune *)
    unfold op_env in Henv. destruct (d_height d) as [h|] eqn:Hh.
    + apply N.leb_le in Henv.
      pose proof (prune_plan_wr W d keep_hist e h Henv) as P1. rewrite Forall_forall in P1.
      pose proof (prune_plan_shape W d keep_hist e) as P2. rewrite Forall_forall in P2.
      pose proof (prune_plan_shape2 W d keep_hist e) as P3. rewrite Forall_forall in P3.
      assert (Hall : forall j, (DiskAt W h (apply_batches d (firstn j (prune_plan W d keep_hist e)))) /\
                               IdxD W (apply_batches d (firstn j (prune_plan W d keep_hist e))) /\
                               MemCover (apply_batches d (firstn j (prune_plan W d keep_hist e))) m).
      { apply (batches_inv (fun x => DiskAt W h x /\ IdxD W x /\ MemCover x m)); [|split; [split; [split|]|split]; auto].
        intros b Hin d' [[[Hc' Hk'] Hh'] [Hi' Hm']].
        pose proof (proj1 (consistent_some W d' h Hh') Hc') as [Hsn [hb I]].
        destruct (prune_batch_InvS W h hb b d' I (P1 b Hin)) as (I' & A & B).
        assert (Hc'' : consistent W (apply_batch d' b) = true).
        { apply (proj2 (consistent_some W _ h (eq_trans A Hh'))). split; eauto.
          unfold snap_ok in *. rewrite B. exact Hsn. }
        split; [split; [split|congruence]|]; auto.
        - destruct (P2 b Hin) as [Hf| ->]; [rewrite hc_free_cont; auto|eapply prune_data_cont; eauto].
        - destruct (P3 b Hin) as [Hf| ->].
          + destruct (hk_only_fields b d' Hf) as (F1 & F2 & F3 & F4 & F5). split.
            * apply (idx_fields_eq W d'); auto.
            * apply (mem_fields_eq d'); auto.
          + apply (prune_data_idx W e d' h m); auto. }
      split; [intros j; apply Hall|].
      specialize (Hall (length (prune_plan W d keep_hist e))). rewrite firstn_all in Hall. apply Hall.
    + pose proof (proj1 (consistent_none W d Hh) Hc) as (_ & Hf & _ & _).
      unfold prune_plan, floor. rewrite Hf. split; auto.
  - (* SetL1 *)
    split; [apply Hone; apply (idx_fields_eq W d); auto|]. simpl. apply (mem_fields_eq d); auto.
  - (* Snapshot *)
    destruct (rf_err m); [split; auto|]. split.
    + apply Hone. apply snap_idx; auto.
    + simpl. apply (mem_fields_eq d); auto.
  - (* Restart *)
    set (bs0 := if graceful && negb (rf_err m) then [[WSnap m]] else []).
    set (d1 := apply_batches d bs0).
    assert (Hd1 : DiskOK W d1 /\ IdxD W d1 /\ d_height d1 = d_height d).
    { subst d1 bs0. destruct (graceful && negb (rf_err m)); cbn [apply_batches fold_left]; [|split; [split|]; auto].
      split; [split|split; [|reflexivity]].
      - apply snap_consistent; auto. eapply sync_wf; eauto.
      - rewrite hc_free_cont; auto. repeat constructor.
      - apply snap_idx; auto. }
    destruct Hd1 as [[Hc1 Hk1] [Hi1 Hh1]].
    destruct (reinit_cover W d1 HW Hc1 Hk1 Hi1) as [Rm Rw].
    assert (Hws : exists h, Forall (good_wr W d1 h) (reinit_w W d1)).
    { destruct (d_height d1) as [h|] eqn:Hh; [exists h; apply Rw; auto|].
      exists 0. rewrite reinit_w_none by auto. constructor. }
    destruct Hws as [h Hws].
    split.
    + intros j. rewrite firstn_app, apply_batches_app.
      destruct (Nat.leb (length bs0) j) eqn:Lj.
      * apply Nat.leb_le in Lj. rewrite firstn_all2 by auto. fold d1.
        apply (init_writes_idx W d1 h (reinit_w W d1) d1 Hi1 Hws eq_refl eq_refl).
      * apply Nat.leb_gt in Lj. replace (j - length bs0)%nat with O by lia. simpl.
        subst bs0. destruct (graceful && negb (rf_err m)); simpl in Lj; [|lia].
        assert (j = O) by lia. subst j. simpl. exact Hi.
    + rewrite apply_batches_app. fold d1.
      pose proof (init_writes_idx W d1 h (reinit_w W d1) d1 Hi1 Hws eq_refl eq_refl
                    (length (map (fun w => [w]) (reinit_w W d1)))) as X.
      rewrite firstn_all in X. destruct X as (_ & F1 & F2).
      apply (mem_fields_eq d1); auto.
Qed.

Lemma step_idx : forall W st o, 0 < W -> IdxGood W st -> op_env (fst st) o = true ->
  IdxGood W (step W st o).
Proof.
  intros W st o HW HI He. destruct (op_idx W st o HW HI He) as [A B].
  destruct HI as [HG _]. split; [apply step_good; auto|split; auto].
  specialize (A (length (fst (plan W o (fst st) (snd st))))). rewrite firstn_all in A.
  unfold step. destruct (plan W o (fst st) (snd st)); exact A.
Qed.

Lemma crash_idx : forall W ops k st, 0 < W -> IdxGood W st ->
  ops_env W ops st = true -> IdxD W (crash_disk W ops k st).
Proof.
  induction ops; simpl; intros k st HW HI He; [apply HI|].
  apply andb_true_iff in He as [E1 E2].
  destruct (Nat.leb (length (fst (plan W a (fst st) (snd st)))) k).
  - apply IHops; auto. apply step_idx; auto.
  - apply (op_idx W st a HW HI E1).
Qed.

(* ---------- the invariants give the boolean predicate ---------- *)
Lemma covers_of_inv : forall W d m, 0 < W -> consistent W d = true -> mem_sync W d m = true ->
  IdxD W d -> MemCover d m -> covers W d m = true.
Proof.
  intros W d m HW Hc Hs [wc wk sn] Hm. destruct (sync_parts W d m Hs) as (S1 & S2 & S3).
  destruct (below_next W d Hc) as [Hlt _].
  unfold covers. rewrite S1. simpl. apply forallb_forall. intros hb Hin.
  apply filter_In in Hin as [Hin Hf]. apply N.leb_le in Hf.
  specialize (Hlt FHeader hb Hin). destruct (align_le W (next_num d) HW) as [L1 L2].
  destruct ((rf_from m <=? b_num hb) && (b_num hb <=? rf_to W m)) eqn:E.
  - apply andb_true_iff in E as [E1 _]. apply N.leb_le in E1. apply ccol_forallb. apply Hm; auto.
  - assert (Lb : b_num hb < rf_from m).
    { apply andb_false_iff in E as [E|E]; [apply N.leb_gt in E; auto|]. apply N.leb_gt in E. unfold rf_to in E. lia. }
    destruct (align_le W (b_num hb) HW) as [L3 L4].
    assert (Hk : align W (b_num hb) + W - 1 < next_num d).
    { assert (align W (b_num hb) < rf_from m) by lia.
      pose proof (mult_gap W (rf_from m) (align W (b_num hb)) HW ltac:(rewrite S3; apply align_mod; auto)
                   (align_mod W _ HW) H). lia. }
    pose proof (wk hb Hin Hf Hk) as Hw.
    destruct (get_window d (align W (b_num hb))) as [c|] eqn:G; [|contradiction].
    apply ccol_forallb. apply (wc (align W (b_num hb)) c hb); auto.
Qed.

Lemma singles_flat : forall ws d, apply_batches d (map (fun w => [w]) ws) = apply_batch d ws.
Proof. induction ws; simpl; intros; auto. Qed.

Lemma step_recover_eq : forall W d m,
  step W (d, m) (Restart false) = (apply_batch d (reinit_w W d), reinit W d).
Proof.
  intros. unfold step. cbn [plan fst snd andb app apply_batches fold_left].
  rewrite <- (singles_flat (reinit_w W d) d). reflexivity.
Qed.

(* the empty database satisfies everything *)
Lemma idx_init : forall W, IdxD W disk0 /\ MemCover disk0 rf0.
Proof.
  intros W. split; [constructor|unfold MemCover]; simpl; intros; simpl in *; try contradiction; try discriminate.
Qed.

(* no event false negatives after a crash *)
Lemma index_covers_general : forall W d, 0 < W -> consistent W d = true -> cont d = true -> IdxD W d ->
  index_covers W d = true.
Proof.
  intros W d HW Hc Hk Hi. unfold index_covers.
  pose proof (recover_good W d rf0 HW (conj Hc Hk)) as HG.
  assert (HI : IdxGood W (d, rf0) \/ True) by (right; exact I). clear HI.
  (* the recovery is the operation Restart false; its index invariant follows from op_idx on a state whose
     memory part is irrelevant: re-derive it directly *)
  destruct (reinit_cover W d HW Hc Hk Hi) as [Rm Rw].
  assert (Hws : exists h, Forall (good_wr W d h) (reinit_w W d)).
  { destruct (d_height d) as [h|] eqn:Hh; [exists h; apply Rw; auto|].
    exists 0. rewrite reinit_w_none by auto. constructor. }
  destruct Hws as [h Hws].
  pose proof (init_writes_idx W d h (reinit_w W d) d Hi Hws eq_refl eq_refl
                (length (map (fun w => [w]) (reinit_w W d)))) as X.
  rewrite firstn_all, singles_flat in X. destruct X as (I' & F1 & F2).
  rewrite step_recover_eq in HG. destruct HG as (C' & K' & S').
  apply covers_of_inv; auto. apply (mem_fields_eq d); auto.
Qed.

Lemma crash_index_covers : forall W ops k st, 0 < W -> IdxGood W st ->
  ops_env W ops st = true ->
  index_covers W (fst (exec_crash W ops k st)) = true.
Proof.
  intros W ops k st HW HI He. simpl.
  destruct (crash_consistent W ops k st HW (proj1 HI) He) as [C K].
  apply index_covers_general; auto. apply crash_idx; auto.
Qed.

Lemma good_init : forall W, 0 < W -> IdxGood W (disk0, rf0).
Proof.
  intros W HW. destruct (idx_init W) as [A B]. split; [|split; auto].
  split; [|split]; try reflexivity.
Qed.
